import JominiModel.Proofs.TextReader
/-
Towards schedule independence of the fallback path: how the scan of an extended window
relates to the scan of the window (decomposition + index shift), and the Reader-level
bookkeeping (`fillBuf`, `advance`, the schedule-driven source).
-/
namespace Jomini.TextReader
open Jomini Jomini.TextReader.Spec

/-! ### index shift: re-scanning the carried bytes from offset 0 -/

def shiftScan (k : Nat) : Scan → Scan
  | .tok adv t => .tok (adv + k) t
  | s => s

def shiftMode (k : Nat) : Mode → Mode
  | .top => .top
  | .comment s => .comment (s + k)

theorem quoteTok_shift (rest : Bytes) (i k : Nat) : quoteTok rest (i + k) = shiftScan k (quoteTok rest i) := by
  unfold quoteTok; cases quoteScan rest 0 <;> simp [shiftScan]; omega

theorem unqTok_shift (c : UInt8) (rest : Bytes) (i k : Nat) : unqTok c rest (i + k) = shiftScan k (unqTok c rest i) := by
  unfold unqTok; cases findIdx isBoundary rest 0 <;> simp [shiftScan]; omega

theorem atTok_shift (c : UInt8) (rest : Bytes) (i k : Nat) : atTok c rest (i + k) = shiftScan k (atTok c rest i) := by
  unfold atTok
  cases rest with
  | nil => simp [shiftScan]
  | cons d r =>
    simp only
    split
    · cases findIdx (· == 93) r 0 <;> simp [shiftScan]; omega
    · exact unqTok_shift c (d :: r) i k

theorem opTok2_shift (p q : Op) (rest : Bytes) (i k : Nat) : opTok2 p q rest (i + k) = shiftScan k (opTok2 p q rest i) := by
  unfold opTok2; cases rest with
  | nil => simp [shiftScan]
  | cons d r => simp only; split <;> simp [shiftScan] <;> omega

theorem opTok1_shift (o : Op) (rest : Bytes) (i k : Nat) : opTok1 o rest (i + k) = shiftScan k (opTok1 o rest i) := by
  unfold opTok1; cases rest with
  | nil => simp [shiftScan]
  | cons d r => simp only; split <;> simp [shiftScan] <;> omega

theorem tokenAt_shift (c : UInt8) (rest : Bytes) (i k : Nat) : tokenAt c rest (i + k) = shiftScan k (tokenAt c rest i) := by
  unfold tokenAt
  split; · simp [shiftScan]; omega
  split; · simp [shiftScan]; omega
  split; · exact quoteTok_shift ..
  split; · exact atTok_shift ..
  split; · exact opTok2_shift ..
  split; · exact opTok2_shift ..
  split; · exact opTok1_shift ..
  split; · exact opTok1_shift ..
  split; · exact opTok2_shift ..
  exact unqTok_shift ..

/-- scanning `x` at window offset `i + k` (`k > 0` bytes were dropped in front) is scanning it at offset `i`
in a reader that is no longer at stream position 0, shifted by `k`. -/
theorem fbLoop_shift (pos0 : Bool) (k : Nat) (hk : 0 < k) (n : Nat) :
    ∀ (x : Bytes) (m : Mode) (i : Nat) (bom : Bom), x.length ≤ n →
    fbLoop pos0 x (shiftMode k m) (i + k) bom =
      ((fbLoop false x m i bom).1, shiftScan k (fbLoop false x m i bom).2) := by
  induction n with
  | zero =>
    intro x m i bom hl
    have : x = [] := List.eq_nil_of_length_eq_zero (by omega)
    subst this
    cases m <;> simp [fbLoop, shiftMode, shiftScan] <;> omega
  | succ n ih =>
    intro x m i bom hl
    cases x with
    | nil => cases m <;> simp [fbLoop, shiftMode, shiftScan] <;> omega
    | cons c rest =>
      have hr : rest.length ≤ n := by simp at hl; omega
      cases m with
      | comment s =>
        simp only [shiftMode, fbLoop_comment_cons]
        have e : i + k + 1 = (i + 1) + k := by omega
        split
        · rw [e]; exact ih rest .top (i + 1) bom hr
        · rw [e]; exact ih rest (.comment s) (i + 1) bom hr
      | top =>
        simp only [shiftMode, fbLoop_top_cons]
        have e : i + k + 1 = (i + 1) + k := by omega
        split; · rw [e]; exact ih rest .top (i + 1) bom hr
        split; · rw [e]; exact ih rest (.comment i) (i + 1) bom hr
        split
        · have h1 : (i + k != 0 || !pos0) = true := by
            have : i + k ≠ 0 := by omega
            simp; left; omega
          simp only [h1, if_true, bne_iff_ne, ne_eq, Bool.not_false, Bool.or_true, tokenAt_shift]
        · simp only [tokenAt_shift]

end Jomini.TextReader

namespace Jomini.TextReader
open Jomini Jomini.TextReader.Spec

/-! ### decomposition of a window into the part the scan skips and the part it stops at -/

/-- `Skips pos0 pre i bom bom'`: scanning in top mode at offset `i`, `next_opt_fallback` passes over all of
`pre` (blanks, complete comments, a BOM at the very start) and is back in top mode with BOM state `bom'`. -/
inductive Skips (pos0 : Bool) : Bytes → Nat → Bom → Bom → Prop
  | nil (i : Nat) (bom : Bom) : Skips pos0 [] i bom bom
  | blank {c : UInt8} {pre : Bytes} {i : Nat} {bom bom' : Bom} :
      isBlank c = true → Skips pos0 pre (i + 1) bom bom' → Skips pos0 (c :: pre) i bom bom'
  | comment {a pre : Bytes} {i : Nat} {bom bom' : Bom} :
      (∀ x ∈ a, (x == 10) = false) → Skips pos0 pre (i + a.length + 2) bom bom' →
      Skips pos0 (35 :: (a ++ 10 :: pre)) i bom bom'
  | bom {pre : Bytes} {bom' : Bom} :
      pos0 = true → Skips pos0 pre 3 .present bom' →
      Skips pos0 (0xef :: 0xbb :: 0xbf :: pre) 0 .unknown bom'

theorem fbLoop_comment_run (pos0 : Bool) (a : Bytes) (ha : ∀ x ∈ a, (x == 10) = false) (x : Bytes) (s i : Nat) (bom : Bom) :
    fbLoop pos0 (a ++ 10 :: x) (.comment s) i bom = fbLoop pos0 x .top (i + a.length + 1) bom := by
  induction a generalizing i with
  | nil => simp [fbLoop_comment_cons]
  | cons c a ih =>
    have hc : (c == 10) = false := ha c (by simp)
    simp only [List.cons_append, fbLoop_comment_cons, hc]
    rw [ih (fun x hx => ha x (by simp [hx]))]
    simp; congr 1; omega

theorem fbLoop_comment_open (pos0 : Bool) (a : Bytes) (ha : ∀ x ∈ a, (x == 10) = false) (s i : Nat) (bom : Bom) :
    fbLoop pos0 a (.comment s) i bom = (bom, .refill .none (i + a.length - s) 0) := by
  induction a generalizing i with
  | nil => simp [fbLoop]
  | cons c a ih =>
    have hc : (c == 10) = false := ha c (by simp)
    simp only [fbLoop_comment_cons, hc]
    rw [ih (fun x hx => ha x (by simp [hx]))]
    simp; congr 1; omega

theorem Skips.fbLoop {pos0 : Bool} {pre : Bytes} {i : Nat} {bom bom' : Bom} (h : Skips pos0 pre i bom bom') (x : Bytes) :
    fbLoop pos0 (pre ++ x) .top i bom = fbLoop pos0 x .top (i + pre.length) bom' := by
  induction h with
  | nil i bom => simp
  | blank hb _ ih => simp only [List.cons_append, fbLoop_top_cons, hb, if_true, List.length_cons]; rw [ih]; congr 1; omega
  | @comment a pre i bom bom' ha _ ih =>
    have h35 : isBlank 35 = false := by decide
    simp only [List.cons_append, fbLoop_top_cons, h35]
    simp only [beq_self_eq_true, if_true, List.append_assoc, List.cons_append, Bool.false_eq_true, if_false]
    rw [fbLoop_comment_run pos0 a ha, show i + 1 + a.length + 1 = i + a.length + 2 by omega, ih]
    simp; congr 1; omega
  | @bom pre bom' hp _ ih =>
    have hb : isBlank 0xef = false := by decide
    subst hp
    simp only [List.cons_append, fbLoop_top_cons, hb]
    simp only [Bool.false_eq_true, if_false]
    rw [show ((0xef : UInt8) == 35) = false by decide]
    simp only [Bool.false_eq_true, if_false, beq_self_eq_true, Bool.and_self, if_true, bne_self_eq_false, Bool.not_true, Bool.or_self]
    rw [ih]; simp; congr 1; omega

end Jomini.TextReader

namespace Jomini.TextReader
open Jomini Jomini.TextReader.Spec

theorem split_newline (l : Bytes) :
    (∀ x ∈ l, (x == 10) = false) ∨ ∃ a r, l = a ++ 10 :: r ∧ ∀ x ∈ a, (x == 10) = false := by
  induction l with
  | nil => left; simp
  | cons c l ih =>
    by_cases hc : (c == 10) = true
    · right; refine ⟨[], l, ?_, by simp⟩
      have : c = 10 := by simpa using hc
      simp [this]
    · rcases ih with h | ⟨a, r, rfl, ha⟩
      · left; intro x hx; simp at hx; rcases hx with rfl | hx
        · simpa using hc
        · exact h x hx
      · right; refine ⟨c :: a, r, by simp, ?_⟩
        intro x hx; simp at hx; rcases hx with rfl | hx
        · simpa using hc
        · exact ha x hx

/-- the BOM arm inspects the window: first byte `0xEF`, BOM state unknown, scan offset 0, stream position 0 -/
def BomCheck (pos0 : Bool) (c : UInt8) (j : Nat) (bom : Bom) : Prop :=
  (c == 0xef) = true ∧ bom = .unknown ∧ j = 0 ∧ pos0 = true

instance (pos0 : Bool) (c : UInt8) (j : Nat) (bom : Bom) : Decidable (BomCheck pos0 c j bom) := by
  unfold BomCheck; infer_instance

/-- what the scan stops at, after the skipped prefix -/
inductive Tail (pos0 : Bool) (j : Nat) (bom : Bom) : Bytes → Prop
  | empty : Tail pos0 j bom []
  | comment (a : Bytes) : (∀ x ∈ a, (x == 10) = false) → Tail pos0 j bom (35 :: a)
  | token (c : UInt8) (r : Bytes) : isBlank c = false → (c == 35) = false → ¬BomCheck pos0 c j bom → Tail pos0 j bom (c :: r)
  | bomShort (r : Bytes) : BomCheck pos0 0xef j bom → r.length < 2 → Tail pos0 j bom (0xef :: r)
  | bomNo (d e : UInt8) (r : Bytes) : BomCheck pos0 0xef j bom → (d == 0xbb && e == 0xbf) = false →
      Tail pos0 j bom (0xef :: d :: e :: r)

theorem decompose (pos0 : Bool) (n : Nat) : ∀ (w : Bytes) (i : Nat) (bom : Bom), w.length ≤ n →
    ∃ pre tail bom', w = pre ++ tail ∧ Skips pos0 pre i bom bom' ∧ Tail pos0 (i + pre.length) bom' tail := by
  induction n with
  | zero =>
    intro w i bom hl
    have : w = [] := List.eq_nil_of_length_eq_zero (by omega)
    subst this
    exact ⟨[], [], bom, rfl, .nil _ _, .empty⟩
  | succ n ih =>
    intro w i bom hl
    cases w with
    | nil => exact ⟨[], [], bom, rfl, .nil _ _, .empty⟩
    | cons c rest =>
      have hr : rest.length ≤ n := by simp at hl; omega
      by_cases hb : isBlank c = true
      · obtain ⟨pre, tail, bom', e, hs, ht⟩ := ih rest (i + 1) bom hr
        refine ⟨c :: pre, tail, bom', by simp [e], .blank hb hs, ?_⟩
        have : i + (c :: pre).length = i + 1 + pre.length := by simp; omega
        rw [this]; exact ht
      by_cases h35 : (c == 35) = true
      · have hc : c = 35 := by simpa using h35
        subst hc
        rcases split_newline rest with ha | ⟨a, r, rfl, ha⟩
        · exact ⟨[], 35 :: rest, bom, rfl, .nil _ _, .comment rest ha⟩
        · have hrl : r.length ≤ n := by simp at hr; omega
          obtain ⟨pre, tail, bom', e, hs, ht⟩ := ih r (i + a.length + 2) bom hrl
          refine ⟨35 :: (a ++ 10 :: pre), tail, bom', by simp [e], .comment ha hs, ?_⟩
          have : i + (35 :: (a ++ 10 :: pre)).length = i + a.length + 2 + pre.length := by simp; omega
          rw [this]; exact ht
      by_cases hbc : BomCheck pos0 c i bom
      · obtain ⟨hc, hbom, hi, hp⟩ := hbc
        have hc' : c = 0xef := by simpa using hc
        subst hc' hbom hi
        rcases rest with _ | ⟨d, _ | ⟨e, r⟩⟩
        · exact ⟨[], [0xef], .unknown, rfl, .nil _ _, .bomShort [] ⟨hc, rfl, rfl, hp⟩ (by simp)⟩
        · exact ⟨[], [0xef, d], .unknown, rfl, .nil _ _, .bomShort [d] ⟨hc, rfl, rfl, hp⟩ (by simp)⟩
        · by_cases hbb : (d == 0xbb && e == 0xbf) = true
          · have hrl : r.length ≤ n := by simp at hr; omega
            obtain ⟨pre, tail, bom', e', hs, ht⟩ := ih r 3 .present hrl
            have hd : d = 0xbb := by simp at hbb; exact hbb.1
            have he : e = 0xbf := by simp at hbb; exact hbb.2
            subst hd he
            refine ⟨0xef :: 0xbb :: 0xbf :: pre, tail, bom', by simp [e'], .bom hp hs, ?_⟩
            have : 0 + (0xef :: 0xbb :: 0xbf :: pre).length = 3 + pre.length := by simp; omega
            rw [this]; exact ht
          · exact ⟨[], 0xef :: d :: e :: r, .unknown, rfl, .nil _ _,
              .bomNo d e r ⟨hc, rfl, rfl, hp⟩ (by simpa using hbb)⟩
      · exact ⟨[], c :: rest, bom, rfl, .nil _ _, .token c rest (by simpa using hb) (by simpa using h35) hbc⟩

/-- BOM state after the scan has started a token at byte `c` -/
def bomAfter (c : UInt8) (bom : Bom) : Bom := if c == 0xef && bom == .unknown then .notPresent else bom

theorem fbLoop_token {pos0 : Bool} {c : UInt8} {r : Bytes} {j : Nat} {bom : Bom}
    (hb : isBlank c = false) (h35 : (c == 35) = false) (hbc : ¬BomCheck pos0 c j bom) :
    fbLoop pos0 (c :: r) .top j bom = (bomAfter c bom, tokenAt c r j) := by
  rw [fbLoop_top_cons]
  simp only [hb, h35, Bool.false_eq_true, if_false, bomAfter]
  by_cases he : (c == 0xef && bom == .unknown) = true
  · simp only [he, if_true]
    have : (j != 0 || !pos0) = true := by
      simp only [BomCheck] at hbc
      simp only [Bool.and_eq_true, beq_iff_eq] at he
      by_cases hj : j = 0
      · by_cases hp : pos0 = true
        · exact absurd ⟨by simp [he.1], he.2, hj, hp⟩ hbc
        · simp at hp; simp [hp]
      · simp [hj]
    simp only [this, if_true]
  · simp only [he, Bool.false_eq_true, if_false]

theorem fbLoop_bomShort {pos0 : Bool} {r : Bytes} {j : Nat} {bom : Bom}
    (hbc : BomCheck pos0 0xef j bom) (hr : r.length < 2) :
    fbLoop pos0 (0xef :: r) .top j bom = (bom, .bomFill) := by
  obtain ⟨_, hbom, hj, hp⟩ := hbc
  subst hbom hj hp
  rcases r with _ | ⟨d, _ | ⟨e, r⟩⟩
  · simp [fbLoop_top_cons, isBlank]
  · simp [fbLoop_top_cons, isBlank]
  · simp at hr; omega

theorem fbLoop_bomNo {pos0 : Bool} {d e : UInt8} {r : Bytes} {j : Nat} {bom : Bom}
    (hbc : BomCheck pos0 0xef j bom) (hn : (d == 0xbb && e == 0xbf) = false) :
    fbLoop pos0 (0xef :: d :: e :: r) .top j bom = (.notPresent, tokenAt 0xef (d :: e :: r) j) := by
  obtain ⟨_, hbom, hj, hp⟩ := hbc
  subst hbom hj hp
  simp [fbLoop_top_cons, isBlank, hn]

end Jomini.TextReader

namespace Jomini.TextReader
open Jomini Jomini.TextReader.Spec

/-! ### which arm produced a refill request -/

theorem eq_of_beq {c k : UInt8} (h : (c == k) = true) : c = k := by simpa using h

theorem quoteTok_refill {r : Bytes} {j : Nat} {st : PState} {carry off : Nat} :
    quoteTok r j = .refill st carry off → st = .quote ∧ quoteScan r 0 = .more carry off := by
  unfold quoteTok; cases h : quoteScan r 0 <;> simp
  intro h1 h2 h3; exact ⟨h1.symm, h2, h3⟩

theorem unqTok_refill {c : UInt8} {r : Bytes} {j : Nat} {st : PState} {carry off : Nat} :
    unqTok c r j = .refill st carry off →
      st = .unquoted ∧ findIdx isBoundary r 0 = none ∧ carry = r.length + 1 ∧ off = r.length + 1 := by
  unfold unqTok; cases h : findIdx isBoundary r 0 <;> simp
  intro h1 h2 h3; exact ⟨h1.symm, h2.symm, h3.symm⟩

theorem opTok2_refill {p q : Op} {r : Bytes} {j : Nat} {st : PState} {carry off : Nat} :
    opTok2 p q r j = .refill st carry off → st = .none ∧ carry = r.length + 1 ∧ off = 0 := by
  unfold opTok2; cases r with
  | nil => simp; intro h1 h2 h3; exact ⟨h1.symm, h2.symm, h3.symm⟩
  | cons d r => simp only; split <;> simp

theorem opTok1_refill {o : Op} {r : Bytes} {j : Nat} {st : PState} {carry off : Nat} :
    opTok1 o r j = .refill st carry off → st = .none ∧ carry = r.length + 1 ∧ off = 0 := by
  unfold opTok1; cases r with
  | nil => simp; intro h1 h2 h3; exact ⟨h1.symm, h2.symm, h3.symm⟩
  | cons d r => simp only; split <;> simp

/-- every refill request of a token arm: which state, and that the carry is the whole tail -/
theorem tokenAt_refill {c : UInt8} {r : Bytes} {j : Nat} {st : PState} {carry off : Nat}
    (h : tokenAt c r j = .refill st carry off) :
    (st = .none ∧ carry = r.length + 1 ∧ (c == 0xef) = false) ∨
    (st = .quote ∧ c = 34 ∧ quoteScan r 0 = .more carry off) ∨
    (st = .unquoted ∧ findIdx isBoundary r 0 = none ∧ carry = r.length + 1 ∧ off = r.length + 1 ∧
      ∀ b, tokenAt c (r ++ b) j = unqTok c (r ++ b) j) := by
  unfold tokenAt at h
  split at h; · simp at h
  split at h; · simp at h
  split at h
  · rename_i h34
    have := quoteTok_refill h
    right; left; exact ⟨this.1, by simpa using h34, this.2⟩
  split at h
  · rename_i _ _ _ h64
    have hc : c = 64 := by simpa using h64
    subst hc
    unfold atTok at h
    cases r with
    | nil => simp at h; left; obtain ⟨h1, h2, _⟩ := h; exact ⟨h1.symm, by simp [h2.symm], by decide⟩
    | cons d r' =>
      simp only at h
      split at h
      · cases hf : findIdx (· == 93) r' 0 with
        | none => rw [hf] at h; simp at h; left; obtain ⟨h1, h2, _⟩ := h; exact ⟨h1.symm, by simp [← h2], by decide⟩
        | some k => rw [hf] at h; simp at h
      · rename_i hd
        have := unqTok_refill h
        right; right
        refine ⟨this.1, this.2.1, this.2.2.1, this.2.2.2, ?_⟩
        intro b
        simp [tokenAt, atTok, hd]
  split at h
  · rename_i hc; have := opTok2_refill h; left; exact ⟨this.1, this.2.1, by rw [eq_of_beq hc]; decide⟩
  split at h
  · rename_i hc; have := opTok2_refill h; left; exact ⟨this.1, this.2.1, by rw [eq_of_beq hc]; decide⟩
  split at h
  · rename_i hc; have := opTok1_refill h; left; exact ⟨this.1, this.2.1, by rw [eq_of_beq hc]; decide⟩
  split at h
  · rename_i hc; have := opTok1_refill h; left; exact ⟨this.1, this.2.1, by rw [eq_of_beq hc]; decide⟩
  split at h
  · rename_i hc; have := opTok2_refill h; left; exact ⟨this.1, this.2.1, by rw [eq_of_beq hc]; decide⟩
  · rename_i h1 h2 h3 h4 h5 h6 h7 h8 h9
    have := unqTok_refill h
    right; right
    refine ⟨this.1, this.2.1, this.2.2.1, this.2.2.2, ?_⟩
    intro b
    simp [tokenAt, h1, h2, h3, h4, h5, h6, h7, h8, h9]

theorem tokenAt_quote (r : Bytes) (j : Nat) : tokenAt 34 r j = quoteTok r j := by
  simp [tokenAt]

theorem tokenAt_not_bomFill (c : UInt8) (r : Bytes) (j : Nat) : tokenAt c r j ≠ .bomFill := by
  unfold tokenAt quoteTok atTok opTok1 opTok2 unqTok
  repeat' split
  all_goals simp

end Jomini.TextReader

namespace Jomini.TextReader
open Jomini Jomini.TextReader.Spec

/-! ### the source and the buffer -/

/-- a schedule whose read sizes are at least one byte (harness/src/sched.rs only produces such sizes);
fault steps (`fail`, `failForever`) are allowed -/
def WfStep : Step → Prop
  | .give n => 1 ≤ n
  | .repeat_ n => 1 ≤ n
  | .fail => True
  | .failForever => True

def WfSched (s : List Step) : Prop := ∀ x ∈ s, WfStep x

/-- no fault steps at all -/
def NoFaults (s : List Step) : Prop := ∀ x ∈ s, x ≠ .fail ∧ x ≠ .failForever

theorem Src.read_wf (s : Src) (space : Nat) (hs : 1 ≤ space) (hw : WfSched s.sched) :
    ((s.read space).2 = none ∧ WfSched (s.read space).1.sched ∧ ¬NoFaults s.sched) ∨
    ∃ n, (s.rest ≠ [] → 1 ≤ n) ∧ n ≤ space ∧ n ≤ s.rest.length ∧
      (s.read space).2 = some (s.rest.take n) ∧ (s.read space).1.rest = s.rest.drop n ∧
      WfSched (s.read space).1.sched ∧ (NoFaults s.sched → NoFaults (s.read space).1.sched) := by
  have hlen : s.rest ≠ [] → 1 ≤ s.rest.length := by
    intro h; cases hr : s.rest with
    | nil => exact absurd hr h
    | cons _ _ => simp
  unfold Src.read
  cases hsch : s.sched with
  | nil =>
    right
    refine ⟨min space s.rest.length, ?_, Nat.min_le_left _ _, Nat.min_le_right _ _, rfl, rfl, ?_, ?_⟩
    · intro h; have := hlen h; omega
    · intro x hx; simp at hx
    · intro _ x hx; simp at hx
  | cons st t =>
    have hst : WfStep st := hw st (by simp [hsch])
    have ht : WfSched t := fun x hx => hw x (by simp [hsch, hx])
    cases st with
    | give n =>
      right
      simp only [WfStep] at hst
      refine ⟨min (min n space) s.rest.length, ?_, ?_, Nat.min_le_right _ _, rfl, rfl, ht, ?_⟩
      · intro h; have := hlen h; omega
      · omega
      · intro hnf x hx; exact hnf x (by simp [hx])
    | repeat_ n =>
      right
      simp only [WfStep] at hst
      refine ⟨min (min n space) s.rest.length, ?_, ?_, Nat.min_le_right _ _, rfl, rfl, ?_, ?_⟩
      · intro h; have := hlen h; omega
      · omega
      · intro x hx; simp at hx; rcases hx with rfl | hx
        · exact hst
        · exact ht x hx
      · intro hnf x hx; exact hnf x hx
    | fail =>
      left
      refine ⟨rfl, ht, ?_⟩
      intro hnf; exact (hnf .fail (by simp)).1 rfl
    | failForever =>
      left
      refine ⟨rfl, ?_, ?_⟩
      · intro x hx; simp at hx; rcases hx with rfl | hx
        · trivial
        · exact ht x hx
      · intro hnf; exact (hnf .failForever (by simp)).2 rfl

/-- the reader `r` is at stream position `pos` with BOM state `bom`, and its window followed by the
undelivered bytes is `d`; a slice reader (`cap = 0`) has nothing undelivered. -/
structure Rel (r : Reader) (pos : Nat) (bom : Bom) (d : Bytes) : Prop where
  pos : r.position = pos
  bom : r.bom = bom
  data : r.win ++ r.src.rest = d
  wf : WfSched r.src.sched
  capz : r.cap = 0 → r.src.rest = []

theorem Rel.advance {r : Reader} {pos : Nat} {bom : Bom} {d : Bytes} (h : Rel r pos bom d) (k : Nat) (hk : k ≤ r.win.length) :
    ∃ r', TextReader.advance r k = some r' ∧ Rel r' (pos + k) bom (d.drop k) ∧ r'.win = r.win.drop k ∧
      r'.src = r.src ∧ r'.cap = r.cap := by
  refine ⟨{ r with win := r.win.drop k, consumed := r.consumed + k }, by simp [TextReader.advance, hk], ?_, rfl, rfl, rfl⟩
  constructor
  · have := h.pos; simp only [Reader.position] at this ⊢; omega
  · exact h.bom
  · rw [← h.data, List.drop_append_of_le_length hk]
  · exact h.wf
  · exact h.capz

theorem Rel.setBom {r : Reader} {pos : Nat} {bom : Bom} {d : Bytes} (h : Rel r pos bom d) (b : Bom) :
    Rel { r with bom := b } pos b d :=
  ⟨h.pos, rfl, h.data, h.wf, h.capz⟩

theorem Rel.win_le {r : Reader} {pos : Nat} {bom : Bom} {d : Bytes} (h : Rel r pos bom d) : r.win.length ≤ d.length := by
  rw [← h.data]; simp

/-- the outcomes of `fill_buf`: an I/O error (only with a fault step in the schedule), `BufferFull` (exactly when the
window already fills a non-empty buffer), end of input, or at least one more byte. -/
theorem Rel.fill {r : Reader} {pos : Nat} {bom : Bom} {d : Bytes} (h : Rel r pos bom d) :
    (∃ r', fillBuf r = (r', .io) ∧ r.cap ≠ 0 ∧ ¬NoFaults r.src.sched) ∨
    (fillBuf r = (r, .full) ∧ r.cap ≠ 0 ∧ r.cap ≤ r.win.length) ∨
    (r.src.rest = [] ∧ ∃ r', fillBuf r = (r', .ok 0) ∧ Rel r' pos bom d ∧ r'.win = r.win ∧ r'.src.rest = [] ∧ r'.cap = r.cap ∧
      (NoFaults r.src.sched → NoFaults r'.src.sched)) ∨
    (r.src.rest ≠ [] ∧ ∃ r' n, fillBuf r = (r', .ok (n + 1)) ∧ Rel r' pos bom d ∧ n + 1 ≤ r.src.rest.length ∧
      r'.win = r.win ++ r.src.rest.take (n + 1) ∧ r'.src.rest = r.src.rest.drop (n + 1) ∧ r'.cap = r.cap ∧
      (NoFaults r.src.sched → NoFaults r'.src.sched)) := by
  by_cases hc : r.cap = 0
  · right; right; left
    have he := h.capz hc
    exact ⟨he, r, by simp [fillBuf, hc], h, rfl, he, rfl, id⟩
  by_cases hfull : r.cap ≤ r.win.length
  · right; left
    exact ⟨by simp [fillBuf, hc]; omega, hc, hfull⟩
  have hnf : ¬ r.win.length ≥ r.cap := by omega
  rcases Src.read_wf r.src (r.cap - r.win.length) (by omega) h.wf with ⟨h2, h4, h5⟩ | ⟨n, h1, h1', hn, h2, h3, h4, h5⟩
  · left
    generalize hread : r.src.read (r.cap - r.win.length) = res at h2 h4
    obtain ⟨src', ob⟩ := res
    simp only at h2 h4
    subst h2
    exact ⟨{ r with prior := r.prior + r.consumed, consumed := 0, src := src' }, by simp [fillBuf, hc, hnf, hread], hc, h5⟩
  generalize hread : r.src.read (r.cap - r.win.length) = res at h2 h3 h4 h5
  obtain ⟨src', ob⟩ := res
  simp only at h2 h3 h4 h5
  subst h2
  by_cases he : r.src.rest = []
  · right; right; left
    have hn0 : n = 0 := by simp [he] at hn; exact hn
    subst hn0
    refine ⟨he, { r with prior := r.prior + r.consumed, consumed := 0, src := src', win := r.win ++ [] }, ?_, ?_, by simp, by simp [h3, he], rfl, h5⟩
    · simp [fillBuf, hc, hnf, hread]
    · constructor
      · have := h.pos; simp only [Reader.position] at this ⊢; omega
      · exact h.bom
      · simp only [h3, he, List.drop_nil, List.append_nil]; rw [← h.data, he]; simp
      · exact h4
      · intro hc0; exact absurd hc0 hc
  · right; right; right
    have hn1 := h1 he
    obtain ⟨m, rfl⟩ : ∃ m, n = m + 1 := ⟨n - 1, by omega⟩
    have hl : (List.take (m + 1) r.src.rest).length = m + 1 := by simp; omega
    refine ⟨he, { r with prior := r.prior + r.consumed, consumed := 0, src := src', win := r.win ++ List.take (m + 1) r.src.rest }, m,
      ?_, ?_, hn, rfl, h3, rfl, h5⟩
    · simp [fillBuf, hc, hnf, hread, hl]
    · constructor
      · have := h.pos; simp only [Reader.position] at this ⊢; omega
      · exact h.bom
      · simp only [h3, List.append_assoc, List.take_append_drop]; exact h.data
      · exact h4
      · intro hc0; exact absurd hc0 hc

/-- the call stopped with an error that is not the reference's: `BufferFull` (the window already filled the non-empty
buffer of capacity `cap`; `Q` says what the carried window is) or an I/O error of the underlying `Read` -/
def FullAlt {α : Type} (Q : Nat → Prop) (cap : Nat) (d : Bytes) (res : Res α) : Prop :=
  cap ≠ 0 ∧ ∃ r', (res = .err r' .full ∧ cap ≤ r'.win.length ∧ r'.win.length ≤ d.length ∧ Q r'.win.length) ∨ res = .err r' .io

theorem FullAlt.mk_full {α : Type} {Q : Nat → Prop} {cap : Nat} {d : Bytes} {res : Res α} (r' : Reader) (h1 : res = .err r' .full)
    (h2 : cap ≠ 0) (h3 : cap ≤ r'.win.length) (h4 : r'.win.length ≤ d.length) (h5 : Q r'.win.length) : FullAlt Q cap d res :=
  ⟨h2, r', Or.inl ⟨h1, h3, h4, h5⟩⟩

theorem FullAlt.mk_io {α : Type} {Q : Nat → Prop} {cap : Nat} {d : Bytes} {res : Res α} (r' : Reader) (h1 : res = .err r' .io)
    (h2 : cap ≠ 0) : FullAlt Q cap d res :=
  ⟨h2, r', Or.inr h1⟩

theorem FullAlt.mono {α : Type} {Q Q' : Nat → Prop} {cap : Nat} {d d' : Bytes} {res : Res α} (h : FullAlt Q cap d' res)
    (hl : d'.length ≤ d.length) (hq : ∀ k, Q k → Q' k) : FullAlt Q' cap d res := by
  obtain ⟨h2, r', h | h⟩ := h
  · exact ⟨h2, r', Or.inl ⟨h.1, h.2.1, by omega, hq _ h.2.2.2⟩⟩
  · exact ⟨h2, r', Or.inr h⟩

/-- the carried window when `BufferFull` hits inside a quoted scalar: a part `a'` of the body, still unterminated -/
def QuoteCarry (a rest : Bytes) (k : Nat) : Prop :=
  ∃ a' : Bytes, a'.length = k ∧ a <+: a' ∧ a' <+: a ++ rest ∧ quoteEnd a' 0 = none

/-- the carried window when `BufferFull` hits inside an unquoted scalar: its first byte and a boundary-free part -/
def UnqCarry (body rest : Bytes) (k : Nat) : Prop :=
  ∃ body' : Bytes, body'.length + 1 = k ∧ body <+: body' ∧ body' <+: body ++ rest ∧ findIdx isBoundary body' 0 = none

/-! ### continuing inside a quoted scalar across refills -/

theorem run_quote (n : Nat) : ∀ (r : Reader) (pos : Nat) (bom : Bom) (d junk a : Bytes) (off fuel : Nat),
    r.src.rest.length ≤ n → Rel r pos bom d → r.win = junk ++ a → off ≤ a.length →
    quoteEnd a 0 = none →
    (∀ x, quoteEnd (a ++ x) 0 = quoteEnd ((a ++ x).drop off) off) →
    2 * r.src.rest.length + 2 ≤ fuel →
    FullAlt (QuoteCarry a r.src.rest) r.cap d (run fuel (.refill .quote a.length off) r) ∨
    match quoteEnd (a ++ r.src.rest) 0 with
    | some m => ∃ r', run fuel (.refill .quote a.length off) r = .ok r' (some (.quoted ((a ++ r.src.rest).take m))) ∧
        Rel r' (pos + junk.length + (m + 1)) bom ((a ++ r.src.rest).drop (m + 1)) ∧ r'.cap = r.cap
    | none => ∃ r', run fuel (.refill .quote a.length off) r = .err r' .eof ∧ r'.position = pos + junk.length := by
  induction n with
  | zero =>
    intro r pos bom d junk a off fuel hn hrel hwin hoff hnone hres hfuel
    have he : r.src.rest = [] := List.eq_nil_of_length_eq_zero (by omega)
    obtain ⟨f, rfl⟩ : ∃ f, fuel = f + 1 := ⟨fuel - 1, by omega⟩
    obtain ⟨r0, hadv, hrel0, hwin0, hsrc0, hcap0⟩ := hrel.advance junk.length (by simp [hwin])
    have hrest0 : r0.src.rest = [] := by rw [hsrc0]; exact he
    have e : r.win.length - a.length = junk.length := by simp [hwin]
    have hgt : ¬ a.length > r.win.length := by simp [hwin]
    have hw0 : r0.win.length ≤ d.length := by have := hrel.win_le; rw [hwin0]; simp; omega
    rcases hrel0.fill with ⟨rio, hfill, hc1, _⟩ | ⟨hfill, hc1, hc2⟩ | ⟨_, r1, hfill, hrel1, hwin1, _, _⟩ | ⟨hne, _⟩
    · left
      refine FullAlt.mk_io rio ?_ (by rw [← hcap0]; exact hc1)
      rw [run]; simp only [e, hadv, hgt, if_false, hfill]
    · left
      have hwin0' : r0.win = a := by rw [hwin0, hwin]; simp
      refine FullAlt.mk_full r0 ?_ (by rw [← hcap0]; exact hc1) (by rw [← hcap0]; exact hc2) hw0
        ⟨a, by rw [hwin0'], List.prefix_refl _, List.prefix_append _ _, hnone⟩
      rw [run]; simp only [e, hadv, hgt, if_false, hfill]
    · right
      simp only [he, List.append_nil, hnone]
      refine ⟨r1, ?_, hrel1.pos⟩
      rw [run]
      simp only [e, hadv, hgt, if_false, hfill]
    · exact absurd hrest0 hne
  | succ n ih =>
    intro r pos bom d junk a off fuel hn hrel hwin hoff hnone hres hfuel
    obtain ⟨f, rfl⟩ : ∃ f, fuel = f + 1 := ⟨fuel - 1, by omega⟩
    obtain ⟨r0, hadv, hrel0, hwin0, hsrc0, hcap0⟩ := hrel.advance junk.length (by simp [hwin])
    have e : r.win.length - a.length = junk.length := by simp [hwin]
    have hgt : ¬ a.length > r.win.length := by simp [hwin]
    have hwin0' : r0.win = a := by rw [hwin0, hwin]; simp
    have hw0 : r0.win.length ≤ d.length := by have := hrel.win_le; rw [hwin0]; simp; omega
    have hdata : d = junk ++ a ++ r.src.rest := by rw [← hrel.data, hwin]
    rcases hrel0.fill with ⟨rio, hfill, hc1, _⟩ | ⟨hfill, hc1, hc2⟩ | ⟨he0, r1, hfill, hrel1, hwin1, _, _⟩ | ⟨hne0, r1, k, hfill, hrel1, hk, hwin1, hrest1, hcap1, _⟩
    · left
      refine FullAlt.mk_io rio ?_ (by rw [← hcap0]; exact hc1)
      rw [run]; simp only [e, hadv, hgt, if_false, hfill]
    · left
      refine FullAlt.mk_full r0 ?_ (by rw [← hcap0]; exact hc1) (by rw [← hcap0]; exact hc2) hw0
        ⟨a, by rw [hwin0'], List.prefix_refl _, List.prefix_append _ _, hnone⟩
      rw [run]; simp only [e, hadv, hgt, if_false, hfill]
    · right
      have he : r.src.rest = [] := by rw [← hsrc0]; exact he0
      simp only [he, List.append_nil, hnone]
      refine ⟨r1, ?_, hrel1.pos⟩
      rw [run]
      simp only [e, hadv, hgt, if_false, hfill]
    · rw [hsrc0] at hk hwin1 hrest1
      rw [hwin0'] at hwin1
      -- the data seen so far and the rest
      generalize hnew : r.src.rest.take (k + 1) = new at hwin1
      have hsplit : r.src.rest = new ++ r1.src.rest := by rw [hrest1, ← hnew]; simp
      have hd1 : a ++ r.src.rest = (a ++ new) ++ r1.src.rest := by rw [hsplit]; simp
      have hlen1 : r1.src.rest.length ≤ n := by rw [hrest1]; simp; omega
      have hrun : run (f + 1) (.refill .quote a.length off) r =
          match quoteRescan r1.win.length (r1.win.drop off) off with
          | .closed m =>
            match advance r1 (m + 1) with
            | some r2 => .ok r2 (some (.quoted (r1.win.take m)))
            | none => .panic
          | .more c o => run f (.refill .quote c o) r1 := by
        rw [run]
        simp only [e, hadv, hgt, if_false, hfill]
        rfl
      rw [hrun, hwin1]
      have hoff' : off ≤ (a ++ new).length := by simp; omega
      have hlenL : (a ++ new).length = off + ((a ++ new).drop off).length := by simp; omega
      have hdd : (junk ++ a ++ r.src.rest).drop junk.length = a ++ r.src.rest := by simp
      rw [hdata, hdd] at hrel1
      cases hq : quoteRescan (a ++ new).length ((a ++ new).drop off) off with
      | closed m =>
        right
        have e1 : quoteEnd (a ++ new) 0 = some m := by rw [hres new]; exact quoteRescan_closed hq
        have hb := quoteEnd_bounds e1
        have e2 : quoteEnd (a ++ r.src.rest) 0 = some m := by rw [hd1]; exact quoteEnd_append _ e1
        simp only [e2]
        obtain ⟨r2, hadv2, hrel2, _, _, hcap2⟩ := hrel1.advance (m + 1) (by rw [hwin1]; simp at hb ⊢; omega)
        refine ⟨r2, ?_, hrel2, by rw [hcap2, hcap1, hcap0]⟩
        simp only [hadv2]
        have ht : ((a ++ new) ++ r1.src.rest).take m = (a ++ new).take m :=
          List.take_append_of_le_length (by simp at hb ⊢; omega)
        rw [hd1, ht]
      | more c o =>
        obtain ⟨h1, h2, h3, h4, h5⟩ := quoteRescan_more hlenL hq
        subst h2
        have hnone' : quoteEnd (a ++ new) 0 = none := by rw [hres new]; exact h1
        have hres' : ∀ x, quoteEnd ((a ++ new) ++ x) 0 = quoteEnd (((a ++ new) ++ x).drop o) o := by
          intro x
          have := hres (new ++ x)
          rw [← List.append_assoc] at this
          rw [this]
          have := h5 x
          rw [← List.drop_append_of_le_length hoff'] at this
          rw [this, List.drop_drop]
          congr 2; omega
        have hdata1 : r1.win = [] ++ (a ++ new) := by simp [hwin1]
        have hl1 : r1.src.rest.length + (k + 1) = r.src.rest.length := by rw [hrest1]; simp; omega
        have := ih r1 (pos + junk.length) bom _ [] (a ++ new) o f hlen1 hrel1 hdata1 h4 hnone' hres' (by omega)
        rw [← hd1] at this
        rcases this with hfa | hok
        · left
          rw [hcap1, hcap0] at hfa
          refine hfa.mono (by rw [hdata]; simp) ?_
          rintro k ⟨a', h1', h2', h3', h4'⟩
          refine ⟨a', h1', List.IsPrefix.trans (List.prefix_append _ _) h2', ?_, h4'⟩
          rw [hd1]; exact h3'
        · right
          cases hqe : quoteEnd (a ++ r.src.rest) 0 with
          | none =>
            rw [hqe] at hok; simp only at hok ⊢
            simpa using hok
          | some m =>
            rw [hqe] at hok; simp only at hok ⊢
            obtain ⟨r', h1', h2', h3'⟩ := hok
            exact ⟨r', h1', by simpa using h2', by rw [h3', hcap1, hcap0]⟩

end Jomini.TextReader

namespace Jomini.TextReader
open Jomini Jomini.TextReader.Spec

/-! ### continuing inside an unquoted scalar across refills -/

theorem findIdx_shift (p : UInt8 → Bool) (l : Bytes) (i j : Nat) :
    findIdx p l (i + j) = (findIdx p l i).map (· + j) := by
  induction l generalizing i with
  | nil => simp [findIdx]
  | cons c l ih =>
    simp only [findIdx]
    split
    · simp
    · rw [show i + j + 1 = (i + 1) + j by omega, ih]

theorem run_unq (n : Nat) : ∀ (r : Reader) (pos : Nat) (bom : Bom) (d junk : Bytes) (c : UInt8) (body : Bytes) (fuel : Nat),
    r.src.rest.length ≤ n → Rel r pos bom d → r.win = junk ++ c :: body →
    findIdx isBoundary body 0 = none →
    2 * r.src.rest.length + 2 ≤ fuel →
    FullAlt (UnqCarry body r.src.rest) r.cap d (run fuel (.refill .unquoted (body.length + 1) (body.length + 1)) r) ∨
    match findIdx isBoundary (body ++ r.src.rest) 0 with
    | some k => ∃ r', run fuel (.refill .unquoted (body.length + 1) (body.length + 1)) r =
          .ok r' (some (.unquoted ((c :: (body ++ r.src.rest)).take (1 + k)))) ∧
        Rel r' (pos + junk.length + (1 + k)) bom ((c :: (body ++ r.src.rest)).drop (1 + k)) ∧ r'.cap = r.cap
    | none => ∃ r', run fuel (.refill .unquoted (body.length + 1) (body.length + 1)) r =
          .ok r' (some (.unquoted (c :: (body ++ r.src.rest)))) ∧
        Rel r' (pos + junk.length + (body.length + 1 + r.src.rest.length)) bom [] ∧ r'.cap = r.cap := by
  induction n with
  | zero =>
    intro r pos bom d junk c body fuel hn hrel hwin hnone hfuel
    have he : r.src.rest = [] := List.eq_nil_of_length_eq_zero (by omega)
    obtain ⟨f, rfl⟩ : ∃ f, fuel = f + 1 := ⟨fuel - 1, by omega⟩
    obtain ⟨r0, hadv, hrel0, hwin0, hsrc0, hcap0⟩ := hrel.advance junk.length (by simp [hwin])
    have hrest0 : r0.src.rest = [] := by rw [hsrc0]; exact he
    have e : r.win.length - (body.length + 1) = junk.length := by simp [hwin]
    have hgt : ¬ body.length + 1 > r.win.length := by simp [hwin]
    have hw0 : r0.win.length ≤ d.length := by have := hrel.win_le; rw [hwin0]; simp; omega
    rcases hrel0.fill with ⟨rio, hfill, hc1, _⟩ | ⟨hfill, hc1, hc2⟩ | ⟨_, r1, hfill, hrel1, hwin1, hrest1, hcap1, _⟩ | ⟨hne, _⟩
    · left
      refine FullAlt.mk_io rio ?_ (by rw [← hcap0]; exact hc1)
      rw [run]; simp only [e, hadv, hgt, if_false, hfill]
    · left
      have hwin0' : r0.win = c :: body := by rw [hwin0, hwin]; simp
      refine FullAlt.mk_full r0 ?_ (by rw [← hcap0]; exact hc1) (by rw [← hcap0]; exact hc2) hw0
        ⟨body, by rw [hwin0']; simp, List.prefix_refl _, List.prefix_append _ _, hnone⟩
      rw [run]; simp only [e, hadv, hgt, if_false, hfill]
    · right
      have hwin1' : r1.win = c :: body := by rw [hwin1, hwin0, hwin]; simp
      obtain ⟨r2, hadv2, hrel2, _, _, hcap2⟩ := hrel1.advance r1.win.length (Nat.le_refl _)
      simp only [he, List.append_nil, hnone]
      refine ⟨r2, ?_, ?_, by rw [hcap2, hcap1, hcap0]⟩
      · rw [run]
        simp only [e, hadv, hgt, if_false, hfill]
        have : ¬ r1.win.length < body.length + 1 := by simp [hwin1']
        simp only [this, if_false, hadv2]
        simp [hwin1']
      · have hd : (List.drop junk.length d).drop r1.win.length = [] := by
          rw [← hrel1.data, hrest1]; simp
        rw [hd] at hrel2
        have : pos + junk.length + r1.win.length = pos + junk.length + (body.length + 1 + 0) := by simp [hwin1']
        simpa [this] using hrel2
    · exact absurd hrest0 hne
  | succ n ih =>
    intro r pos bom d junk c body fuel hn hrel hwin hnone hfuel
    obtain ⟨f, rfl⟩ : ∃ f, fuel = f + 1 := ⟨fuel - 1, by omega⟩
    obtain ⟨r0, hadv, hrel0, hwin0, hsrc0, hcap0⟩ := hrel.advance junk.length (by simp [hwin])
    have e : r.win.length - (body.length + 1) = junk.length := by simp [hwin]
    have hgt : ¬ body.length + 1 > r.win.length := by simp [hwin]
    have hwin0' : r0.win = c :: body := by rw [hwin0, hwin]; simp
    have hw0 : r0.win.length ≤ d.length := by have := hrel.win_le; rw [hwin0]; simp; omega
    have hdata : d = junk ++ c :: (body ++ r.src.rest) := by rw [← hrel.data, hwin]; simp
    rcases hrel0.fill with ⟨rio, hfill, hc1, _⟩ | ⟨hfill, hc1, hc2⟩ | ⟨he0, r1, hfill, hrel1, hwin1, hrest1, hcap1, _⟩ | ⟨hne0, r1, k, hfill, hrel1, hk, hwin1, hrest1, hcap1, _⟩
    · left
      refine FullAlt.mk_io rio ?_ (by rw [← hcap0]; exact hc1)
      rw [run]; simp only [e, hadv, hgt, if_false, hfill]
    · left
      refine FullAlt.mk_full r0 ?_ (by rw [← hcap0]; exact hc1) (by rw [← hcap0]; exact hc2) hw0
        ⟨body, by rw [hwin0']; simp, List.prefix_refl _, List.prefix_append _ _, hnone⟩
      rw [run]; simp only [e, hadv, hgt, if_false, hfill]
    · right
      have he : r.src.rest = [] := by rw [← hsrc0]; exact he0
      have hwin1' : r1.win = c :: body := by rw [hwin1, hwin0']
      obtain ⟨r2, hadv2, hrel2, _, _, hcap2⟩ := hrel1.advance r1.win.length (Nat.le_refl _)
      simp only [he, List.append_nil, hnone]
      refine ⟨r2, ?_, ?_, by rw [hcap2, hcap1, hcap0]⟩
      · rw [run]
        simp only [e, hadv, hgt, if_false, hfill]
        have : ¬ r1.win.length < body.length + 1 := by simp [hwin1']
        simp only [this, if_false, hadv2]
        simp [hwin1']
      · have hd : (List.drop junk.length d).drop r1.win.length = [] := by
          rw [← hrel1.data, hrest1]; simp
        rw [hd] at hrel2
        have : pos + junk.length + r1.win.length = pos + junk.length + (body.length + 1 + 0) := by simp [hwin1']
        simpa [this] using hrel2
    · rw [hsrc0] at hk hwin1 hrest1
      rw [hwin0'] at hwin1
      generalize hnew : r.src.rest.take (k + 1) = new at hwin1
      have hsplit : r.src.rest = new ++ r1.src.rest := by rw [hrest1, ← hnew]; simp
      have hlen1 : r1.src.rest.length ≤ n := by rw [hrest1]; simp; omega
      have hl1 : r1.src.rest.length + (k + 1) = r.src.rest.length := by rw [hrest1]; simp; omega
      have hnewlen : new.length = k + 1 := by rw [← hnew]; simp; omega
      have hrun : run (f + 1) (.refill .unquoted (body.length + 1) (body.length + 1)) r =
          match findIdx isBoundary (r1.win.drop (body.length + 1)) (body.length + 1) with
          | some m =>
            match advance r1 m with
            | some r2 => .ok r2 (some (.unquoted (r1.win.take m)))
            | none => .panic
          | none => run f (.refill .unquoted r1.win.length r1.win.length) r1 := by
        rw [run]
        simp only [e, hadv, hgt, if_false, hfill]
        rfl
      rw [hrun, hwin1]
      have hdrop : (c :: body ++ new).drop (body.length + 1) = new := by simp
      rw [hdrop]
      have hbn : findIdx isBoundary (body ++ new) 0 = findIdx isBoundary new body.length := by
        rw [findIdx_append_none new hnone]; simp
      have hsh : findIdx isBoundary new (body.length + 1) = (findIdx isBoundary new body.length).map (· + 1) :=
        findIdx_shift _ _ _ _
      have hdd : List.drop junk.length d = c :: (body ++ r.src.rest) := by rw [hdata]; simp
      rw [hdd] at hrel1
      cases hq : findIdx isBoundary new body.length with
      | some k' =>
        right
        have e1 : findIdx isBoundary (body ++ r.src.rest) 0 = some k' := by
          rw [hsplit, ← List.append_assoc]; exact findIdx_append_some _ (by rw [hbn]; exact hq)
        have hb := findIdx_some_bounds hq
        simp only [e1, hsh, hq, Option.map_some]
        obtain ⟨r2, hadv2, hrel2, _, _, hcap2⟩ := hrel1.advance (k' + 1) (by rw [hwin1]; simp; omega)
        refine ⟨r2, ?_, ?_, by rw [hcap2, hcap1, hcap0]⟩
        · simp only [hadv2]
          have ht : (c :: (body ++ r.src.rest)).take (1 + k') = (c :: body ++ new).take (k' + 1) := by
            rw [hsplit, show 1 + k' = k' + 1 by omega]
            simp only [List.cons_append, List.take_succ_cons, ← List.append_assoc]
            rw [List.take_append_of_le_length (by simp; omega)]
          rw [ht]
        · rw [show 1 + k' = k' + 1 by omega]; exact hrel2
      | none =>
        have hnone' : findIdx isBoundary (body ++ new) 0 = none := by rw [hbn]; exact hq
        simp only [hsh, hq, Option.map_none]
        have hwin1' : r1.win = [] ++ c :: (body ++ new) := by simp [hwin1]
        have := ih r1 (pos + junk.length) bom _ [] c (body ++ new) f hlen1 hrel1 hwin1' hnone' (by omega)
        have hassoc : body ++ new ++ r1.src.rest = body ++ r.src.rest := by rw [hsplit]; simp
        rw [hassoc] at this
        have hlen2 : (body ++ new).length + 1 = (c :: body ++ new).length := by simp
        rw [hlen2] at this
        rcases this with hfa | hok
        · left
          rw [hcap1, hcap0] at hfa
          refine hfa.mono (by rw [hdata]; simp) ?_
          rintro k ⟨b', h1', h2', h3', h4'⟩
          refine ⟨b', h1', List.IsPrefix.trans (List.prefix_append _ _) h2', ?_, h4'⟩
          rw [← hassoc]; exact h3'
        · right
          cases hfin : findIdx isBoundary (body ++ r.src.rest) 0 with
          | some kk =>
            simp only [hfin] at hok ⊢
            obtain ⟨r', h1, h2, h3⟩ := hok
            exact ⟨r', h1, by simpa using h2, by rw [h3, hcap1, hcap0]⟩
          | none =>
            simp only [hfin] at hok ⊢
            obtain ⟨r', h1, h2, h3⟩ := hok
            refine ⟨r', h1, ?_, by rw [h3, hcap1, hcap0]⟩
            have : pos + junk.length + (body.length + 1 + r.src.rest.length) =
                pos + junk.length + ([] : Bytes).length + ((body ++ new).length + 1 + r1.src.rest.length) := by
              simp; omega
            rw [this]; exact h2

end Jomini.TextReader

namespace Jomini.TextReader
open Jomini Jomini.TextReader.Spec

/-! ### the reference step and skipped prefixes -/

def shiftStep (k : Nat) : Step1 → Step1
  | .tok adv t b => .tok (adv + k) t b
  | .end_ b => .end_ b
  | .eof a b => .eof (a + k) b

theorem shiftScan_zero (s : Scan) : shiftScan 0 s = s := by cases s <;> simp [shiftScan]

theorem tokenAt_carry_le {c : UInt8} {r : Bytes} {j : Nat} {st : PState} {carry off : Nat}
    (h : tokenAt c r j = .refill st carry off) : carry ≤ r.length + 1 := by
  rcases tokenAt_refill h with ⟨_, h2, _⟩ | ⟨_, _, h2⟩ | ⟨_, _, h2, _⟩
  · omega
  · have := (quoteScan_more h2).2.1; omega
  · omega

/-- value of the scan on a tail shape -/
theorem fbLoop_tail {pos0 : Bool} {j : Nat} {bom : Bom} {tail : Bytes} (ht : Tail pos0 j bom tail) :
    (tail = [] ∧ fbLoop pos0 tail .top j bom = (bom, .refill .none 0 0)) ∨
    (∃ a, tail = 35 :: a ∧ fbLoop pos0 tail .top j bom = (bom, .refill .none tail.length 0)) ∨
    (∃ c r bomR, tail = c :: r ∧ (c == 35) = false ∧ ((c == 0xef) = false → bomR = bom) ∧
        ∀ x, fbLoop pos0 (tail ++ x) .top j bom = (bomR, tokenAt c (r ++ x) j)) ∨
    (∃ r, tail = 0xef :: r ∧ r.length < 2 ∧ BomCheck pos0 0xef j bom ∧ fbLoop pos0 tail .top j bom = (bom, .bomFill)) := by
  cases ht with
  | empty => left; exact ⟨rfl, by simp [fbLoop]⟩
  | comment a ha =>
    right; left
    refine ⟨a, rfl, ?_⟩
    rw [fbLoop_top_cons]
    simp only [show isBlank 35 = false by decide, Bool.false_eq_true, if_false, beq_self_eq_true, if_true]
    rw [fbLoop_comment_open pos0 a ha]
    simp; omega
  | token c r hb h35 hbc =>
    right; right; left
    refine ⟨c, r, bomAfter c bom, rfl, h35, ?_, ?_⟩
    · intro he; simp [bomAfter, he]
    · intro x; exact fbLoop_token hb h35 hbc
  | bomShort r hbc hr =>
    right; right; right
    exact ⟨r, rfl, hr, hbc, fbLoop_bomShort hbc hr⟩
  | bomNo d e r hbc hn =>
    right; right; left
    refine ⟨0xef, d :: e :: r, .notPresent, rfl, by decide, by intro h; simp at h, ?_⟩
    intro x
    exact fbLoop_bomNo hbc hn

theorem fbLoop_refill_carry {pos0 : Bool} {w : Bytes} {bom bom' : Bom} {st : PState} {carry off : Nat}
    (h : fbLoop pos0 w .top 0 bom = (bom', .refill st carry off)) : carry ≤ w.length := by
  obtain ⟨pre, tail, bom_s, rfl, hs, ht⟩ := decompose pos0 w.length w 0 bom (Nat.le_refl _)
  rw [hs.fbLoop] at h
  simp only [Nat.zero_add] at h ht
  rcases fbLoop_tail ht with ⟨_, h1⟩ | ⟨a, _, h1⟩ | ⟨c, r, bomR, rfl, _, _, h1⟩ | ⟨r, _, _, _, h1⟩
  · rw [h1] at h; simp at h; omega
  · rw [h1] at h; simp at h; simp; omega
  · have := h1 []; simp only [List.append_nil] at this
    rw [this] at h; simp only [Prod.mk.injEq] at h
    have := tokenAt_carry_le h.2; simp; omega
  · rw [h1] at h; simp at h

theorem interp_shift (pre y : Bytes) (b : Bom) (s : Scan)
    (hc : ∀ st carry off, s = .refill st carry off → carry ≤ y.length) :
    interp (pre ++ y) (b, shiftScan pre.length s) = (interp y (b, s)).map (shiftStep pre.length) := by
  cases s with
  | tok adv t => simp [shiftScan, interp, shiftStep]
  | bomFill => simp [shiftScan, interp]
  | refill st carry off =>
    have hc := hc st carry off rfl
    have e1 : (pre ++ y).length - carry = pre.length + (y.length - carry) := by simp; omega
    have e2 : (pre ++ y).drop (pre.length + (y.length - carry)) = y.drop (y.length - carry) := by
      rw [List.drop_append]; simp
    cases st with
    | none =>
      simp only [shiftScan, interp]
      split
      · simp [shiftStep]
      · rw [e1, e2]
        cases y.drop (y.length - carry) with
        | nil => simp
        | cons c _ => simp only; split <;> simp [shiftStep]; omega
    | quote => simp only [shiftScan, interp, e1]; simp [shiftStep]; omega
    | unquoted => simp only [shiftScan, interp, e1, e2]; simp [shiftStep]; omega

/-- **skipped bytes do not matter**: the reference step on `pre ++ y`, where the scan passes over all of
`pre`, is the reference step on `y` for a reader that is no longer at position 0, shifted by `|pre|`. -/
theorem spec_skip {pos0 : Bool} {pre : Bytes} {bom bom_s : Bom} (hs : Skips pos0 pre 0 bom bom_s) (hne : pre ≠ [])
    (y : Bytes) : specStep pos0 bom (pre ++ y) = (specStep false bom_s y).map (shiftStep pre.length) := by
  have hk : 0 < pre.length := by cases pre with | nil => exact absurd rfl hne | cons _ _ => simp
  have h1 : fbLoop pos0 (pre ++ y) .top 0 bom =
      ((fbLoop false y .top 0 bom_s).1, shiftScan pre.length (fbLoop false y .top 0 bom_s).2) := by
    rw [hs.fbLoop]
    have := fbLoop_shift pos0 pre.length hk y.length y .top 0 bom_s (Nat.le_refl _)
    simpa [shiftMode] using this
  -- a reader that is not at position 0 never asks for the BOM refill
  have hnb : (fbLoop false y .top 0 bom_s).2 ≠ .bomFill := by
    obtain ⟨p2, t2, b2, rfl, hs2, ht2⟩ := decompose false y.length y 0 bom_s (Nat.le_refl _)
    rw [hs2.fbLoop]
    simp only [Nat.zero_add] at ht2 ⊢
    rcases fbLoop_tail ht2 with ⟨_, h1⟩ | ⟨a, _, h1⟩ | ⟨c, r, bomR, rfl, _, _, h1⟩ | ⟨r, _, _, hbc, _⟩
    · rw [h1]; simp
    · rw [h1]; simp
    · have := h1 []; simp only [List.append_nil] at this; rw [this]; exact tokenAt_not_bomFill _ _ _
    · exact absurd hbc.2.2.2 (by simp)
  generalize hres : fbLoop false y .top 0 bom_s = res at h1 hnb
  obtain ⟨b, s⟩ := res
  simp only at h1 hnb
  have hcar : ∀ st carry off, s = .refill st carry off → carry ≤ y.length := by
    intro st carry off hh; subst hh; exact fbLoop_refill_carry hres
  unfold specStep
  rw [h1, hres]
  cases s with
  | bomFill => exact absurd rfl hnb
  | tok adv t => simpa [shiftScan] using interp_shift pre y b (.tok adv t) hcar
  | refill st carry off => simpa [shiftScan] using interp_shift pre y b (.refill st carry off) hcar

end Jomini.TextReader

namespace Jomini.TextReader
open Jomini Jomini.TextReader.Spec

/-! ### one call of `next_opt_fallback` agrees with the reference step -/

/-- the result `res` of a call made at stream position `pos` with BOM state `bom`, the remaining input
being `d`, is the one the reference step prescribes, and the reader is left in a state related to the
remaining input. -/
def OutOk (res : Res (Option Token)) (cap : Nat) (pos : Nat) (bom : Bom) (d : Bytes) : Prop :=
  match specStep (pos == 0) bom d with
  | some (.tok adv t b') => ∃ r', res = .ok r' (some t) ∧ Rel r' (pos + adv) b' (d.drop adv) ∧ adv ≤ d.length ∧ r'.cap = cap
  | some (.end_ b') => ∃ r', res = .ok r' none ∧ Rel r' (pos + d.length) b' [] ∧ r'.cap = cap
  | some (.eof a _) => ∃ r', res = .err r' .eof ∧ r'.position = pos + a
  | none => True

theorem Skips.nil_eq {pos0 : Bool} {i : Nat} {bom bom' : Bom} (h : Skips pos0 [] i bom bom') : bom' = bom := by
  cases h; rfl

/-- `k` is the number of bytes the scan of some window `w` (a prefix of the remaining input `d`) asks to carry over a
refill (or the window length when the BOM arm asks for more bytes) -/
def CarryB (pos0 : Bool) (bom : Bom) (d : Bytes) (k : Nat) : Prop :=
  ∃ w b, d = w ++ b ∧
    ((∃ bom' st off, fbLoop pos0 w .top 0 bom = (bom', .refill st k off)) ∨
     (∃ bom', fbLoop pos0 w .top 0 bom = (bom', .bomFill) ∧ k = w.length))

/-- … with the BOM state of the call, or with the BOM ruled out (the re-scan after the BOM arm's refill hit the end) -/
def Carry (pos0 : Bool) (bom : Bom) (d : Bytes) (k : Nat) : Prop :=
  CarryB pos0 bom d k ∨ (d.length < 3 ∧ CarryB pos0 .notPresent d k)

/-- … or the call ended in `BufferFull` because the window already filled the buffer (capacity `cap`): the window is
then a carry of the scan of a prefix of `d`; or the `Read` failed. -/
def Out (res : Res (Option Token)) (cap : Nat) (pos : Nat) (bom : Bom) (d : Bytes) : Prop :=
  FullAlt (Carry (pos == 0) bom d) cap d res ∨ OutOk res cap pos bom d

/-- away from stream position 0 the scan does not depend on the BOM state -/
theorem fbLoop_false_scan (n : Nat) : ∀ (w : Bytes) (m : Mode) (i : Nat) (b1 b2 : Bom), w.length ≤ n →
    (fbLoop false w m i b1).2 = (fbLoop false w m i b2).2 := by
  induction n with
  | zero =>
    intro w m i b1 b2 hl
    have : w = [] := List.eq_nil_of_length_eq_zero (by omega)
    subst this; cases m <;> simp [fbLoop]
  | succ n ih =>
    intro w m i b1 b2 hl
    cases w with
    | nil => cases m <;> simp [fbLoop]
    | cons c rest =>
      have hr : rest.length ≤ n := by simp at hl; omega
      cases m with
      | comment s =>
        simp only [fbLoop_comment_cons]
        split <;> exact ih rest _ _ _ _ hr
      | top =>
        simp only [fbLoop_top_cons]
        split; · exact ih rest _ _ _ _ hr
        split; · exact ih rest _ _ _ _ hr
        simp only [Bool.not_false, Bool.or_true, if_true]
        split <;> split <;> rfl

theorem Carry_skip {pos : Nat} {pre y : Bytes} {bom bom_s : Bom} (hs : Skips (pos == 0) pre 0 bom bom_s) (k : Nat)
    (h : Carry (pos + pre.length == 0) bom_s y k) : Carry (pos == 0) bom (pre ++ y) k := by
  by_cases hne : pre = []
  · subst hne
    have := hs.nil_eq; subst this
    simpa using h
  · have hk : 0 < pre.length := by cases pre with | nil => exact absurd rfl hne | cons _ _ => simp
    have hp : (pos + pre.length == 0) = false := by
      have : pos + pre.length ≠ 0 := by omega
      simpa using this
    rw [hp] at h
    -- the carry does not depend on the BOM state here
    have hB : CarryB false bom_s y k := by
      rcases h with h | ⟨_, w, b, hd, hh⟩
      · exact h
      · refine ⟨w, b, hd, ?_⟩
        have hind := fbLoop_false_scan w.length w .top 0 .notPresent bom_s (Nat.le_refl _)
        rcases hh with ⟨bom', st, off, hf⟩ | ⟨bom', hf, hkw⟩
        · left; refine ⟨(fbLoop false w .top 0 bom_s).1, st, off, ?_⟩
          rw [hf] at hind; simp only at hind
          exact Prod.ext rfl hind.symm
        · right; refine ⟨(fbLoop false w .top 0 bom_s).1, ?_, hkw⟩
          rw [hf] at hind; simp only at hind
          exact Prod.ext rfl hind.symm
    obtain ⟨w, b, hd, hh⟩ := hB
    left
    refine ⟨pre ++ w, b, by rw [hd]; simp, ?_⟩
    have hfb : fbLoop (pos == 0) (pre ++ w) .top 0 bom =
        ((fbLoop false w .top 0 bom_s).1, shiftScan pre.length (fbLoop false w .top 0 bom_s).2) := by
      rw [hs.fbLoop]
      have := fbLoop_shift (pos == 0) pre.length hk w.length w .top 0 bom_s (Nat.le_refl _)
      simpa [shiftMode] using this
    rcases hh with ⟨bom', st, off, hf⟩ | ⟨bom', hf, _⟩
    · left; exact ⟨bom', st, off, by rw [hfb, hf]; rfl⟩
    · -- the BOM arm never asks for bytes away from position 0
      exfalso
      obtain ⟨p2, t2, b2, rfl, hs2, ht2⟩ := decompose false w.length w 0 bom_s (Nat.le_refl _)
      rw [hs2.fbLoop] at hf
      simp only [Nat.zero_add] at ht2 hf
      rcases fbLoop_tail ht2 with ⟨_, h1⟩ | ⟨a, _, h1⟩ | ⟨c, r, bomR, rfl, _, _, h1⟩ | ⟨r, _, _, hbc, _⟩
      · rw [h1] at hf; simp at hf
      · rw [h1] at hf; simp at hf
      · have := h1 []; simp only [List.append_nil] at this; rw [this] at hf
        simp only [Prod.mk.injEq] at hf
        exact tokenAt_not_bomFill _ _ _ hf.2
      · exact absurd hbc.2.2.2 (by simp)

theorem OutOk_skip {res : Res (Option Token)} {cap pos : Nat} {pre y : Bytes} {bom bom_s : Bom}
    (hs : Skips (pos == 0) pre 0 bom bom_s) (h : OutOk res cap (pos + pre.length) bom_s y) : OutOk res cap pos bom (pre ++ y) := by
  by_cases hne : pre = []
  · subst hne
    have := hs.nil_eq; subst this
    simpa using h
  · have hk : 0 < pre.length := by cases pre with | nil => exact absurd rfl hne | cons _ _ => simp
    have hp : (pos + pre.length == 0) = false := by
      have : pos + pre.length ≠ 0 := by omega
      simpa using this
    unfold OutOk at h ⊢
    rw [spec_skip hs hne y]
    rw [hp] at h
    cases hsp : specStep false bom_s y with
    | none => simp
    | some st =>
      rw [hsp] at h
      cases st with
      | tok adv t b' =>
        simp only [Option.map_some, shiftStep] at h ⊢
        obtain ⟨r', h1, h2, h3, h4⟩ := h
        refine ⟨r', h1, ?_, by simp; omega, h4⟩
        have e1 : pos + (adv + pre.length) = pos + pre.length + adv := by omega
        have e2 : (pre ++ y).drop (adv + pre.length) = y.drop adv := by
          rw [List.drop_append]; simp
        rw [e1, e2]; exact h2
      | end_ b' =>
        simp only [Option.map_some, shiftStep] at h ⊢
        obtain ⟨r', h1, h2, h3⟩ := h
        refine ⟨r', h1, ?_, h3⟩
        have e1 : pos + (pre ++ y).length = pos + pre.length + y.length := by simp; omega
        rw [e1]; exact h2
      | eof a b' =>
        simp only [Option.map_some, shiftStep] at h ⊢
        obtain ⟨r', h1, h2⟩ := h
        exact ⟨r', h1, by rw [h2]; omega⟩

theorem Out_skip {res : Res (Option Token)} {cap pos : Nat} {pre y : Bytes} {bom bom_s : Bom}
    (hs : Skips (pos == 0) pre 0 bom bom_s) (h : Out res cap (pos + pre.length) bom_s y) : Out res cap pos bom (pre ++ y) := by
  rcases h with h | h
  · left; exact h.mono (by simp) (Carry_skip hs)
  · right; exact OutOk_skip hs h

end Jomini.TextReader

namespace Jomini.TextReader
open Jomini Jomini.TextReader.Spec

/-- the induction hypothesis of the main theorem: calls on readers with fewer undelivered bytes -/
def IHyp (n : Nat) : Prop :=
  ∀ (r' : Reader) (pos' : Nat) (bom' : Bom) (d' : Bytes) (fuel' : Nat),
    r'.src.rest.length < n → Rel r' pos' bom' d' → 2 * r'.src.rest.length + 4 ≤ fuel' →
    Out (run fuel' .fallback r') r'.cap pos' bom' d'

theorem run_fallback_unfold (f : Nat) (r : Reader) :
    run (f + 1) .fallback r =
      match fbLoop (r.position == 0) r.win .top 0 r.bom with
      | (bom, .tok adv t) =>
        match advance { r with bom := bom } adv with
        | some r' => .ok r' (some t)
        | none => .panic
      | (bom, .refill st c o) => run f (.refill st c o) { r with bom := bom }
      | (bom, .bomFill) =>
        match fillBuf { r with bom := bom } with
        | (r', .ok 0) => run f .fallback { r' with bom := .notPresent }
        | (r', .ok _) => run f .fallback r'
        | (r', .full) => .err r' .full
        | (r', .io) => .err r' .io := by
  rw [run]
  rfl

/-- the scan asked to re-scan the carried bytes `tail` (state `None`): end of input, or the call continues
on the carried bytes plus what the next read delivers. -/
theorem core_rescan {r : Reader} {pos : Nat} {bom bom_s : Bom} {d pre tail : Bytes} {off f : Nat}
    (IH : IHyp r.src.rest.length)
    (hrel : Rel r pos bom d) (hwin : r.win = pre ++ tail) (hs : Skips (pos == 0) pre 0 bom bom_s)
    (hscan : fbLoop (pos == 0) (pre ++ tail) .top 0 bom = (bom_s, .refill .none tail.length off))
    (hfuel : r.src.rest ≠ [] → 2 * r.src.rest.length + 4 ≤ f + 2) :
    Out (run (f + 2) .fallback r) r.cap pos bom d := by
  have hd : d = pre ++ (tail ++ r.src.rest) := by rw [← hrel.data, hwin]; simp
  have hrelb : Rel { r with bom := bom_s } pos bom_s d := hrel.setBom bom_s
  obtain ⟨r0, hadv, hrel0, hwin0, hsrc0, hcap0⟩ := hrelb.advance pre.length (by simp [hwin])
  have hsrc0 : r0.src = r.src := hsrc0
  have hcap0 : r0.cap = r.cap := hcap0
  have hscan' : fbLoop (pos == 0) r.win .top 0 bom = (bom_s, .refill .none tail.length off) := by rw [hwin]; exact hscan
  have hwin0' : r0.win = tail := by rw [hwin0]; simp [hwin]
  have e : ({ r with bom := bom_s } : Reader).win.length - tail.length = pre.length := by simp [hwin]
  have hgt : ¬ tail.length > ({ r with bom := bom_s } : Reader).win.length := by simp [hwin]
  have hdd : d.drop pre.length = tail ++ r.src.rest := by rw [hd]; simp
  rw [hdd] at hrel0
  have hstep : run (f + 2) .fallback r = 
      match fillBuf r0 with
      | (r1, .ok 0) =>
          if tail.length == 0 then .ok r1 none
          else
            match r1.win with
            | [] => .ub
            | c :: _ =>
              if c == 35 then
                match advance r1 tail.length with
                | some r2 => .ok r2 none
                | none => .panic
              else .err r1 .eof
      | (r1, .ok _) => run f .fallback r1
      | (r1, .full) => .err r1 .full
      | (r1, .io) => .err r1 .io := by
    rw [run_fallback_unfold, hrel.pos, hrel.bom, hscan']
    simp only
    rw [run]
    simp only [e, hadv, hgt, if_false]
    rfl
  rw [hstep]
  rcases hrel0.fill with ⟨rio, hfill, hc1, _⟩ | ⟨hfill, hc1, hc2⟩ | ⟨he0, r1, hfill, hrel1, hwin1, hrest1, hcap1, _⟩ | ⟨hne0, r1, k, hfill, hrel1, hk, hwin1, hrest1, hcap1, _⟩
  · left
    rw [hfill]
    exact FullAlt.mk_io rio rfl (by rw [← hcap0]; exact hc1)
  · left
    rw [hfill]
    refine FullAlt.mk_full r0 rfl (by rw [← hcap0]; exact hc1) (by rw [← hcap0]; exact hc2) (by rw [hwin0', hd]; simp; omega) ?_
    left
    refine ⟨pre ++ tail, r.src.rest, by rw [hd]; simp, Or.inl ⟨bom_s, .none, off, ?_⟩⟩
    rw [hwin0']; exact hscan
  · right
    have he : r.src.rest = [] := by rw [← hsrc0]; exact he0
    rw [hfill]
    simp only
    have hdw : d = pre ++ tail := by rw [hd, he]; simp
    unfold OutOk
    have hspec : specStep (pos == 0) bom d = interp d (bom_s, .refill .none tail.length off) := by
      unfold specStep; rw [hdw, hscan]
    rw [hspec]
    simp only [interp]
    by_cases ht : tail = []
    · subst ht
      simp only [List.length_nil, beq_self_eq_true, if_true]
      refine ⟨r1, rfl, ?_, by rw [hcap1, hcap0]⟩
      have : pos + d.length = pos + pre.length := by rw [hdw]; simp
      rw [this]
      simpa [he] using hrel1
    · have hne : (tail.length == 0) = false := by
        cases tail with | nil => exact absurd rfl ht | cons _ _ => simp
      simp only [hne, Bool.false_eq_true, if_false]
      have hdrop : d.drop (d.length - tail.length) = tail := by rw [hdw]; simp
      rw [hdrop, hwin1, hwin0']
      cases tail with
      | nil => exact absurd rfl ht
      | cons c tl =>
        simp only
        by_cases h35 : (c == 35) = true
        · simp only [h35, if_true]
          obtain ⟨r2, hadv2, hrel2, _, _, hcap2⟩ := hrel1.advance (c :: tl).length (by rw [hwin1, hwin0']; exact Nat.le_refl _)
          simp only [hadv2]
          refine ⟨r2, rfl, ?_, by rw [hcap2, hcap1, hcap0]⟩
          have e1 : pos + d.length = pos + pre.length + (c :: tl).length := by rw [hdw]; simp; omega
          have e2 : ((c :: tl) ++ r.src.rest).drop (c :: tl).length = [] := by rw [he]; simp
          rw [e1, ← e2]; exact hrel2
        · simp only [h35, Bool.false_eq_true, if_false]
          refine ⟨r1, rfl, ?_⟩
          rw [hrel1.pos, hdw]; simp
  · have he : r.src.rest ≠ [] := by rw [← hsrc0]; exact hne0
    rw [hfill]
    simp only
    rw [hsrc0] at hk hrest1
    have hl1 : r1.src.rest.length + (k + 1) = r.src.rest.length := by rw [hrest1]; simp; omega
    have hfuel := hfuel he
    have := IH r1 (pos + pre.length) bom_s (tail ++ r.src.rest) f (by omega) hrel1 (by omega)
    rw [hcap1, hcap0] at this
    rw [hd]
    exact Out_skip hs this

end Jomini.TextReader

namespace Jomini.TextReader
open Jomini Jomini.TextReader.Spec

theorem tokenAt_adv_le {c : UInt8} {tl : Bytes} {j adv : Nat} {t : Token} (h : tokenAt c tl j = .tok adv t) :
    adv ≤ j + 1 + tl.length := by
  unfold tokenAt at h
  split at h; · simp at h; omega
  split at h; · simp at h; omega
  split at h
  · unfold quoteTok at h
    cases hq : quoteScan tl 0 with
    | more _ _ => rw [hq] at h; simp at h
    | closed n => rw [hq] at h; simp at h; have := quoteEnd_bounds (quoteScan_closed hq); omega
  have hunq : ∀ {c : UInt8} {tl : Bytes}, unqTok c tl j = .tok adv t → adv ≤ j + 1 + tl.length := by
    intro c tl h
    unfold unqTok at h
    cases hf : findIdx isBoundary tl 0 with
    | none => rw [hf] at h; simp at h
    | some k => rw [hf] at h; simp at h; have := findIdx_some_bounds hf; omega
  have hop2 : ∀ {p q : Op}, opTok2 p q tl j = .tok adv t → adv ≤ j + 1 + tl.length := by
    intro p q h; unfold opTok2 at h
    cases tl with
    | nil => simp at h
    | cons d r => simp only at h; split at h <;> simp at h <;> simp <;> omega
  have hop1 : ∀ {o : Op}, opTok1 o tl j = .tok adv t → adv ≤ j + 1 + tl.length := by
    intro o h; unfold opTok1 at h
    cases tl with
    | nil => simp at h
    | cons d r => simp only at h; split at h <;> simp at h <;> simp <;> omega
  split at h
  · unfold atTok at h
    cases tl with
    | nil => simp at h
    | cons d r =>
      simp only at h
      split at h
      · cases hf : findIdx (· == 93) r 0 with
        | none => rw [hf] at h; simp at h
        | some k => rw [hf] at h; simp at h; have := findIdx_some_bounds hf; simp; omega
      · exact hunq h
  split at h; · exact hop2 h
  split at h; · exact hop2 h
  split at h; · exact hop1 h
  split at h; · exact hop1 h
  split at h; · exact hop2 h
  exact hunq h

/-- the scan stopped at a token byte `c` (window = `pre ++ c :: tl`, `pre` skipped) -/
theorem core_token {r : Reader} {pos : Nat} {bom bom_s bomR : Bom} {d pre tl : Bytes} {c : UInt8} {f : Nat}
    (IH : IHyp r.src.rest.length)
    (hrel : Rel r pos bom d) (hwin : r.win = pre ++ c :: tl) (hs : Skips (pos == 0) pre 0 bom bom_s)
    (h35 : (c == 35) = false) (hbomR : (c == 0xef) = false → bomR = bom_s)
    (hscan : ∀ x, fbLoop (pos == 0) (pre ++ (c :: tl ++ x)) .top 0 bom = (bomR, tokenAt c (tl ++ x) pre.length))
    (hfuel1 : 2 * r.src.rest.length + 3 ≤ f + 2)
    (hfuel : r.src.rest ≠ [] → 2 * r.src.rest.length + 4 ≤ f + 2) :
    Out (run (f + 2) .fallback r) r.cap pos bom d := by
  have hd : d = pre ++ (c :: tl ++ r.src.rest) := by rw [← hrel.data, hwin]; simp
  have hscanW : fbLoop (pos == 0) r.win .top 0 bom = (bomR, tokenAt c tl pre.length) := by
    have := hscan []; simp only [List.append_nil] at this; rw [hwin]; exact this
  have hscanD : fbLoop (pos == 0) d .top 0 bom = (bomR, tokenAt c (tl ++ r.src.rest) pre.length) := by
    rw [hd]; exact hscan _
  have hdlen : d.length = pre.length + 1 + tl.length + r.src.rest.length := by rw [hd]; simp; omega
  cases htok : tokenAt c tl pre.length with
  | bomFill => exact absurd htok (tokenAt_not_bomFill _ _ _)
  | tok adv t =>
    right
    have hstab := tokenAt_stable r.src.rest htok
    have hle := tokenAt_adv_le htok
    unfold OutOk specStep
    rw [hscanD, hstab]
    simp only [interp]
    obtain ⟨r', hadv, hrel', _, _, hcap'⟩ := (hrel.setBom bomR).advance adv (by simp [hwin]; omega)
    refine ⟨r', ?_, hrel', by omega, hcap'⟩
    rw [run_fallback_unfold, hrel.pos, hrel.bom, hscanW, htok]
    simp only [hadv]
  | refill st carry off =>
    rcases tokenAt_refill htok with ⟨rfl, hc, hef⟩ | ⟨rfl, rfl, hq⟩ | ⟨rfl, hf, hc, ho, hunq⟩
    · -- re-scan
      have hb := hbomR hef; subst hb
      subst hc
      have : tl.length + 1 = (c :: tl).length := by simp
      rw [this] at htok
      refine core_rescan (off := off) IH hrel hwin hs ?_ hfuel
      have := hscan []; simp only [List.append_nil] at this
      rw [this, htok]
    · -- quoted
      have hb := hbomR (by decide); subst hb
      obtain ⟨hnone, hc, _, hoc, hres⟩ := quoteScan_more hq
      simp only [Nat.zero_add] at hc
      subst hc
      simp only [Nat.sub_zero] at hres
      have hwin' : ({ r with bom := bomR } : Reader).win = (pre ++ [34]) ++ tl := by simp [hwin]
      have hq := run_quote r.src.rest.length { r with bom := bomR } pos bomR d (pre ++ [34]) tl off (f + 1)
        (Nat.le_refl _) (hrel.setBom bomR) hwin' hoc hnone hres (by simp; omega)
      have hrun : run (f + 2) .fallback r = run (f + 1) (.refill .quote tl.length off) { r with bom := bomR } := by
        rw [run_fallback_unfold, hrel.pos, hrel.bom, hscanW, htok]
      rw [hrun]
      rcases hq with hfa | hq
      · left
        refine hfa.mono (Nat.le_refl _) ?_
        rintro k ⟨a', hk, ⟨x', rfl⟩, ⟨b', hb'⟩, hnone'⟩
        -- the window `pre ++ " ++ a'` is a prefix of `d` whose scan carries `a'`
        left
        refine ⟨pre ++ (34 :: tl ++ x'), b', ?_, Or.inl ⟨bomR, .quote, ?_⟩⟩
        · rw [hd]; simp only [List.cons_append, List.append_assoc] at hb' ⊢
          rw [← hb']
        · have hsc := hscan x'
          cases hqs' : quoteScan (tl ++ x') 0 with
          | closed n' => have := quoteScan_closed hqs'; rw [hnone'] at this; simp at this
          | more c' o' =>
            have hc'' := (quoteScan_more hqs').2.1
            simp only [Nat.zero_add] at hc''
            refine ⟨o', ?_⟩
            rw [hsc, tokenAt_quote]; unfold quoteTok; rw [hqs']
            simp only [hc'', hk]
      right
      unfold OutOk specStep
      rw [hscanD, tokenAt_quote]
      unfold quoteTok
      simp only at hq
      cases hqs : quoteScan (tl ++ r.src.rest) 0 with
      | closed n =>
        have e := quoteScan_closed hqs
        rw [e] at hq
        simp only [interp]
        obtain ⟨r', h1, h2, h3⟩ := hq
        have hbn := quoteEnd_bounds e
        refine ⟨r', h1, ?_, by rw [hdlen]; simp at hbn; omega, h3⟩
        have e1 : pos + (pre.length + 1 + n + 1) = pos + (pre ++ [34]).length + (n + 1) := by simp; omega
        have e2 : d.drop (pre.length + 1 + n + 1) = (tl ++ r.src.rest).drop (n + 1) := by
          rw [hd, show pre.length + 1 + n + 1 = pre.length + ((n + 1) + 1) by omega, List.drop_append]
          simp
        rw [e1, e2]; exact h2
      | more c' o' =>
        obtain ⟨e, hc', _⟩ := quoteScan_more hqs
        rw [e] at hq
        simp only [interp]
        obtain ⟨r', h1, h2⟩ := hq
        refine ⟨r', h1, ?_⟩
        rw [h2, hc', hdlen]; simp; omega
    · -- unquoted
      subst hc ho
      have hq := run_unq r.src.rest.length { r with bom := bomR } pos bomR d pre c tl (f + 1)
        (Nat.le_refl _) (hrel.setBom bomR) (by simp [hwin]) hf (by simp; omega)
      have hrun : run (f + 2) .fallback r =
          run (f + 1) (.refill .unquoted (tl.length + 1) (tl.length + 1)) { r with bom := bomR } := by
        rw [run_fallback_unfold, hrel.pos, hrel.bom, hscanW, htok]
      rw [hrun]
      rcases hq with hfa | hq
      · left
        refine hfa.mono (Nat.le_refl _) ?_
        rintro k ⟨b1, hk, ⟨x', rfl⟩, ⟨b', hb'⟩, hnone'⟩
        left
        refine ⟨pre ++ (c :: tl ++ x'), b', ?_, Or.inl ⟨bomR, .unquoted, (tl ++ x').length + 1, ?_⟩⟩
        · rw [hd]; simp only [List.cons_append, List.append_assoc] at hb' ⊢
          rw [← hb']
        · rw [hscan x', hunq x']; unfold unqTok; rw [hnone']
          simp only [hk]
      right
      unfold OutOk specStep
      rw [hscanD, hunq]
      unfold unqTok
      simp only at hq
      cases hfs : findIdx isBoundary (tl ++ r.src.rest) 0 with
      | some k =>
        rw [hfs] at hq
        simp only [interp]
        obtain ⟨r', h1, h2, h3⟩ := hq
        have hbn := findIdx_some_bounds hfs
        refine ⟨r', h1, ?_, by rw [hdlen]; simp at hbn; omega, h3⟩
        have e1 : pos + (pre.length + 1 + k) = pos + pre.length + (1 + k) := by omega
        have e2 : d.drop (pre.length + 1 + k) = (c :: (tl ++ r.src.rest)).drop (1 + k) := by
          rw [hd, show pre.length + 1 + k = pre.length + (1 + k) by omega, List.drop_append]
          simp
        rw [e1, e2]; exact h2
      | none =>
        rw [hfs] at hq
        simp only [interp]
        obtain ⟨r', h1, h2, h3⟩ := hq
        have e0 : d.drop (d.length - ((tl ++ r.src.rest).length + 1)) = c :: (tl ++ r.src.rest) := by
          rw [hdlen, hd]
          have : pre.length + 1 + tl.length + r.src.rest.length - ((tl ++ r.src.rest).length + 1) = pre.length := by
            simp; omega
          rw [this]; simp
        rw [e0]
        refine ⟨r', h1, ?_, Nat.le_refl _, h3⟩
        have e1 : pos + d.length = pos + pre.length + (tl.length + 1 + r.src.rest.length) := by rw [hdlen]; omega
        rw [e1, List.drop_length]; exact h2

end Jomini.TextReader

namespace Jomini.TextReader
open Jomini Jomini.TextReader.Spec

/-- **one call of `next_opt_fallback`, any schedule, any buffer capacity**: whatever the window currently holds and
however the undelivered bytes arrive, the call either ends in `BufferFull` (the window already filled the buffer), or it
returns what the reference step prescribes for the whole remaining input (same token, same clean end, same `Eof`), and
leaves the reader related to the remaining input. -/
theorem run_fallback_spec : ∀ (n : Nat) (r : Reader) (pos : Nat) (bom : Bom) (d : Bytes) (fuel : Nat),
    r.src.rest.length = n → Rel r pos bom d → 2 * r.src.rest.length + 4 ≤ fuel →
    Out (run fuel .fallback r) r.cap pos bom d := by
  intro n
  induction n using Nat.strongRecOn with
  | _ n ih =>
    intro r pos bom d fuel hn hrel hfuel
    have IH : IHyp r.src.rest.length := by
      intro r' pos' bom' d' fuel' hlt hrel' hf'
      exact ih _ (by omega) r' pos' bom' d' fuel' rfl hrel' hf'
    obtain ⟨f, rfl⟩ : ∃ f, fuel = f + 2 := ⟨fuel - 2, by omega⟩
    obtain ⟨pre, tail, bom_s, hw, hs, ht⟩ := decompose (pos == 0) r.win.length r.win 0 bom (Nat.le_refl _)
    simp only [Nat.zero_add] at ht
    rcases fbLoop_tail ht with ⟨rfl, h1⟩ | ⟨a, rfl, h1⟩ | ⟨c, tl, bomR, rfl, h35, hb, h1⟩ | ⟨tl, rfl, hlt, hbc, h1⟩
    · refine core_rescan (off := 0) IH hrel hw hs ?_ (fun _ => hfuel)
      rw [hs.fbLoop]; simpa using h1
    · refine core_rescan (off := 0) IH hrel hw hs ?_ (fun _ => hfuel)
      rw [hs.fbLoop]; simpa using h1
    · refine core_token IH hrel hw hs h35 hb ?_ (by omega) (fun _ => hfuel)
      intro x
      rw [hs.fbLoop]; simpa using h1 x
    · -- the BOM arm asks for more bytes
      obtain ⟨_, hbu, hj, hp⟩ := hbc
      have hpre : pre = [] := List.eq_nil_of_length_eq_zero hj
      subst hpre
      have hbs := hs.nil_eq
      subst hbs hbu
      simp only [List.nil_append] at hw
      have hscanW : fbLoop (pos == 0) r.win .top 0 .unknown = (.unknown, .bomFill) := by rw [hw]; exact h1
      have heta : ({ r with bom := Bom.unknown } : Reader) = r := by
        have hb := hrel.bom
        cases r with
        | mk cap win consumed prior src bom => simp only at hb; subst hb; rfl
      have hstep : run (f + 2) .fallback r =
          match fillBuf r with
          | (r', .ok 0) => run (f + 1) .fallback { r' with bom := .notPresent }
          | (r', .ok _) => run (f + 1) .fallback r'
          | (r', .full) => .err r' .full
          | (r', .io) => .err r' .io := by
        rw [run_fallback_unfold, hrel.pos, hrel.bom, hscanW]
        simp only [heta]
      rw [hstep]
      rcases hrel.fill with ⟨rio, hfill, hc1, _⟩ | ⟨hfill, hc1, hc2⟩ | ⟨he, r1, hfill, hrel1, hwin1, hrest1, hcap1, _⟩ | ⟨he, r1, k, hfill, hrel1, hk, hwin1, hrest1, hcap1, _⟩
      · left
        rw [hfill]
        exact FullAlt.mk_io rio rfl hc1
      · left
        rw [hfill]
        refine FullAlt.mk_full r rfl hc1 hc2 hrel.win_le ?_
        left
        exact ⟨r.win, r.src.rest, hrel.data.symm, Or.inr ⟨.unknown, hscanW, rfl⟩⟩
      · rw [hfill]
        simp only
        obtain ⟨f', rfl⟩ : ∃ f', f = f' + 1 := ⟨f - 1, by omega⟩
        have hrelN : Rel { r1 with bom := .notPresent } pos .notPresent d := hrel1.setBom .notPresent
        have hdw : d = 0xef :: tl := by rw [← hrel.data, he, hw]; simp
        have IH0 : IHyp ({ r1 with bom := Bom.notPresent } : Reader).src.rest.length := by
          intro r' _ _ _ _ hlt; simp [hrest1] at hlt
        have hnbc : ¬BomCheck (pos == 0) 0xef 0 .notPresent := by simp [BomCheck]
        have hout := core_token (r := { r1 with bom := .notPresent }) (pre := []) (c := 0xef) (tl := tl)
          (bom_s := .notPresent) (bomR := .notPresent) (f := f') IH0 hrelN (by simp [hwin1, hw]) (.nil _ _)
          (by decide) (by intro h; simp at h)
          (by intro x; simpa [bomAfter] using fbLoop_token (r := tl ++ x) (by decide) (by decide) hnbc)
          (by simp [hrest1]; omega) (by intro h; simp [hrest1] at h)
        have hcapN : ({ r1 with bom := Bom.notPresent } : Reader).cap = r.cap := hcap1
        have hf2 : f' + 1 + 1 = f' + 2 := rfl
        rw [hf2]
        generalize run (f' + 2) .fallback { r1 with bom := Bom.notPresent } = res at hout ⊢
        rw [hcapN] at hout
        -- with fewer than three bytes in all, the reference step is the one with the BOM ruled out
        have hspec : specStep (pos == 0) .unknown d = specStep (pos == 0) .notPresent d := by
          have hfN := fbLoop_token (pos0 := (pos == 0)) (r := tl) (j := 0) (by decide) (by decide) hnbc
          simp only [List.length_nil] at h1
          unfold specStep
          rw [hdw, h1, hfN]
          simp only
          cases htk : tokenAt 0xef tl 0 with
          | bomFill => exact absurd htk (tokenAt_not_bomFill _ _ _)
          | tok _ _ => rfl
          | refill _ _ _ => rfl
        rcases hout with hfa | hok
        · left
          refine hfa.mono (Nat.le_refl _) ?_
          intro k hk
          have hlen3 : d.length < 3 := by rw [hdw]; simp; omega
          rcases hk with hk | hk
          · exact Or.inr ⟨hlen3, hk⟩
          · exact Or.inr hk
        · right; unfold OutOk at hok ⊢; rw [hspec]; exact hok
      · rw [hfill]
        simp only
        have hl1 : r1.src.rest.length + (k + 1) = r.src.rest.length := by rw [hrest1]; simp; omega
        have := IH r1 pos .unknown d (f + 1) (by omega) hrel1 (by omega)
        rw [hcap1] at this
        exact this

end Jomini.TextReader

namespace Jomini.TextReader
open Jomini Jomini.TextReader.Spec

/-! ### the whole token stream -/

/-- `lexAll` with the fast path out of play: every call goes straight to `next_opt_fallback`. -/
def lexFb (fuel : Nat) : Nat → Reader → List Token → Run
  | 0, r, acc => { toks := acc.reverse, out := .fuel, final := r }
  | n + 1, r, acc =>
    match nextOptFallback fuel r with
    | .ok r' (some t) => lexFb fuel n r' (t :: acc)
    | .ok r' none => { toks := acc.reverse, out := .end_, final := r' }
    | .err r' e => { toks := acc.reverse, out := .err e, final := r' }
    | .panic => { toks := acc.reverse, out := .panic, final := r }
    | .ub => { toks := acc.reverse, out := .ub, final := r }
    | .fuel => { toks := acc.reverse, out := .fuel, final := r }

theorem interp_isSome {pos0 : Bool} {d : Bytes} {bom b : Bom} {s : Scan}
    (h : fbLoop pos0 d .top 0 bom = (b, s)) (hs : s ≠ .bomFill) : (interp d (b, s)).isSome = true := by
  cases s with
  | bomFill => exact absurd rfl hs
  | tok adv t => simp [interp]
  | refill st carry off =>
    have hc := fbLoop_refill_carry h
    cases st with
    | quote => simp [interp]
    | unquoted => simp [interp]
    | none =>
      simp only [interp]
      split
      · simp
      · rename_i hz
        have hz : carry ≠ 0 := by simpa using hz
        cases hdr : d.drop (d.length - carry) with
        | nil =>
          have := congrArg List.length hdr
          simp at this; omega
        | cons c _ => simp only; split <;> simp

theorem Skips.bom_ne_unknown {pos0 : Bool} {pre : Bytes} {i : Nat} {b0 b1 : Bom} (h : Skips pos0 pre i b0 b1)
    (hne : b0 ≠ .unknown) : b1 ≠ .unknown := by
  induction h with
  | nil => exact hne
  | blank _ _ ih => exact ih hne
  | comment _ _ ih => exact ih hne
  | bom _ _ _ => exact absurd rfl hne

theorem specStep_isSome (pos0 : Bool) (bom : Bom) (d : Bytes) : (specStep pos0 bom d).isSome = true := by
  unfold specStep
  generalize hres : fbLoop pos0 d .top 0 bom = res
  obtain ⟨b, s⟩ := res
  by_cases hs : s = .bomFill
  · subst hs
    simp only
    generalize hres2 : fbLoop pos0 d .top 0 .notPresent = res2
    obtain ⟨b2, s2⟩ := res2
    refine interp_isSome hres2 ?_
    -- with the BOM ruled out the scan never asks for the BOM refill
    obtain ⟨p2, t2, bs2, rfl, hs2, ht2⟩ := decompose pos0 d.length d 0 .notPresent (Nat.le_refl _)
    rw [hs2.fbLoop] at hres2
    simp only [Nat.zero_add] at ht2 hres2
    have hbs2 : bs2 ≠ .unknown := hs2.bom_ne_unknown (by simp)
    rcases fbLoop_tail ht2 with ⟨_, h1⟩ | ⟨a, _, h1⟩ | ⟨c, r, bomR, rfl, _, _, h1⟩ | ⟨r, _, _, hbc, _⟩
    · rw [h1] at hres2; simp at hres2; rw [← hres2.2]; simp
    · rw [h1] at hres2; simp at hres2; rw [← hres2.2]; simp
    · have := h1 []; simp only [List.append_nil] at this; rw [this] at hres2
      simp at hres2; rw [← hres2.2]; exact tokenAt_not_bomFill _ _ _
    · exact absurd hbc.2.1 hbs2
  · have := interp_isSome hres hs
    cases s with
    | bomFill => exact absurd rfl hs
    | tok _ _ => exact this
    | refill _ _ _ => exact this

theorem Rel.rest_le {r : Reader} {pos : Nat} {bom : Bom} {d : Bytes} (h : Rel r pos bom d) :
    r.src.rest.length ≤ d.length := by rw [← h.data]; simp

theorem lexFb_toks_prefix (fuel : Nat) : ∀ (n : Nat) (r : Reader) (acc : List Token),
    acc.reverse <+: (lexFb fuel n r acc).toks := by
  intro n
  induction n with
  | zero => intro r acc; simp [lexFb]
  | succ n ih =>
    intro r acc
    rw [lexFb]
    split
    · rename_i r' t _
      have := ih r' (t :: acc)
      simp only [List.reverse_cons] at this
      exact List.IsPrefix.trans (List.prefix_append _ _) this
    all_goals simp

/-- how a run stopped early: `BufferFull` or an I/O error -/
def StopErr (o : Outcome) : Prop := o = .err .full ∨ o = .err .io

/-- the streaming reader `r1` against a slice reader `r2` over the same remaining input: same tokens, same terminal
outcome and final position — or the streaming run ends in `BufferFull` / an I/O error having produced a prefix of the
slice reader's tokens. -/
theorem lexFb_vs_slice (n : Nat) : ∀ (r1 r2 : Reader) (pos : Nat) (bom : Bom) (d : Bytes) (f1 f2 : Nat) (acc : List Token),
    Rel r1 pos bom d → Rel r2 pos bom d → r2.cap = 0 → 2 * d.length + 4 ≤ f1 → 2 * d.length + 4 ≤ f2 →
    (StopErr (lexFb f1 n r1 acc).out ∧ (lexFb f1 n r1 acc).toks <+: (lexFb f2 n r2 acc).toks ∧
      ((lexFb f1 n r1 acc).out = .err .full → r1.cap ≤ d.length)) ∨
    ((lexFb f1 n r1 acc).toks = (lexFb f2 n r2 acc).toks ∧ (lexFb f1 n r1 acc).out = (lexFb f2 n r2 acc).out ∧
     ((lexFb f1 n r1 acc).out = .end_ →
      (lexFb f1 n r1 acc).final.position = pos + d.length ∧ (lexFb f2 n r2 acc).final.position = pos + d.length)) := by
  induction n with
  | zero => intro r1 r2 pos bom d f1 f2 acc _ _ _ _ _; right; simp [lexFb]
  | succ n ih =>
    intro r1 r2 pos bom d f1 f2 acc h1 h2 hz hf1 hf2
    have o1 := run_fallback_spec _ r1 pos bom d f1 rfl h1 (by have := h1.rest_le; omega)
    have o2 := run_fallback_spec _ r2 pos bom d f2 rfl h2 (by have := h2.rest_le; omega)
    -- the slice reader never stops early
    have o2 : OutOk (run f2 .fallback r2) r2.cap pos bom d := by
      rcases o2 with ⟨hne, _⟩ | h
      · exact absurd hz hne
      · exact h
    rcases o1 with ⟨hne, r', ⟨hfull, hle, hwd⟩ | hio⟩ | o1
    · left
      have hl : (lexFb f1 (n + 1) r1 acc).toks = acc.reverse ∧ (lexFb f1 (n + 1) r1 acc).out = .err .full := by
        simp [lexFb, nextOptFallback, hfull]
      refine ⟨Or.inl hl.2, ?_, fun _ => by omega⟩
      rw [hl.1]; exact lexFb_toks_prefix _ _ _ _
    · left
      have hl : (lexFb f1 (n + 1) r1 acc).toks = acc.reverse ∧ (lexFb f1 (n + 1) r1 acc).out = .err .io := by
        simp [lexFb, nextOptFallback, hio]
      refine ⟨Or.inr hl.2, ?_, fun h => by rw [hl.2] at h; simp at h⟩
      rw [hl.1]; exact lexFb_toks_prefix _ _ _ _
    unfold OutOk at o1 o2
    have hsome := specStep_isSome (pos == 0) bom d
    cases hsp : specStep (pos == 0) bom d with
    | none => rw [hsp] at hsome; simp at hsome
    | some st =>
      rw [hsp] at o1 o2
      cases st with
      | tok adv t b' =>
        obtain ⟨r1', e1, hr1, hle, hc1⟩ := o1
        obtain ⟨r2', e2, hr2, _, hc2⟩ := o2
        simp only [lexFb, nextOptFallback, e1, e2]
        have hl : (d.drop adv).length ≤ d.length := by simp
        have := ih r1' r2' (pos + adv) b' (d.drop adv) f1 f2 (t :: acc) hr1 hr2 (by rw [hc2]; exact hz) (by omega) (by omega)
        rcases this with ⟨ha, hb, hc⟩ | this
        · left; exact ⟨ha, hb, fun h => by have := hc h; rw [← hc1]; omega⟩
        · right
          refine ⟨this.1, this.2.1, ?_⟩
          intro he
          have h3 := this.2.2 he
          have e : pos + adv + (d.drop adv).length = pos + d.length := by simp; omega
          rw [← e]; exact h3
      | end_ b' =>
        obtain ⟨r1', e1, hr1, _⟩ := o1
        obtain ⟨r2', e2, hr2, _⟩ := o2
        right
        simp only [lexFb, nextOptFallback, e1, e2]
        exact ⟨by simp, by simp, fun _ => ⟨hr1.pos, hr2.pos⟩⟩
      | eof a b' =>
        obtain ⟨r1', e1, _⟩ := o1
        obtain ⟨r2', e2, _⟩ := o2
        right
        simp only [lexFb, nextOptFallback, e1, e2]
        exact ⟨by simp, by simp, fun h => by simp at h⟩

end Jomini.TextReader
