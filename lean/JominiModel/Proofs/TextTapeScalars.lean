import JominiModel.Proofs.TextTapeInv
import JominiModel.Proofs.TextTapeCutLex
/-
C06 (text half), growth, scalar clauses: every scalar on the tape is the sub-slice of the input at
its offset and starts strictly after the previous scalar's start.
-/
namespace Jomini.TextTape
open Jomini

theorem sse_eq_tab : Tables.sseBoundary = Tables.boundaryTab := by decide +kernel

/-! ### what the scanners cut off -/

theorem skipWsAux_suffix : ∀ (d : Bytes) (b : Bool) (r : Bytes), skipWsAux d b = some r → r <:+ d
  | [], _, _, h => by simp [skipWsAux] at h
  | c :: cs, true, r, h => by
    simp only [skipWsAux] at h
    split at h <;> exact (skipWsAux_suffix cs _ r h).trans (List.suffix_cons c cs)
  | c :: cs, false, r, h => by
    simp only [skipWsAux] at h
    split at h
    · exact (skipWsAux_suffix cs _ r h).trans (List.suffix_cons c cs)
    · split at h
      · exact (skipWsAux_suffix cs _ r h).trans (List.suffix_cons c cs)
      · simp at h; subst h; exact List.suffix_refl _

theorem skipWs_suffix {d r : Bytes} (h : skipWs d = some r) : r <:+ d := skipWsAux_suffix d false r h

theorem splitAtScalar_spec {d s rest : Bytes} (h : splitAtScalar d = some (s, rest)) :
    d = s ++ rest ∧ 0 < s.length := by
  rw [splitAtScalar_eq_fallback sse_eq_tab] at h
  simp only [splitAtScalarFallback, splitAtChecked] at h
  split at h
  · next hle =>
    simp only [Option.some.injEq, Prod.mk.injEq] at h
    obtain ⟨rfl, rfl⟩ := h
    refine ⟨(List.take_append_drop _ _).symm, ?_⟩
    simp only [List.length_take]; omega
  · simp at h

theorem quoteClose_spec : ∀ (h : Bytes) (b : Bool) (k : Nat), quoteClose h b = some k →
    h = h.take k ++ 34 :: h.drop (k + 1)
  | [], _, _, hq => by simp [quoteClose] at hq
  | c :: cs, true, k, hq => by
    simp only [quoteClose, Option.map_eq_some_iff] at hq
    obtain ⟨a, ha, rfl⟩ := hq
    have := quoteClose_spec cs false a ha
    simp only [List.take_succ_cons, List.drop_succ_cons, List.cons_append]
    rw [← this]
  | c :: cs, false, k, hq => by
    simp only [quoteClose] at hq
    by_cases h92 : c = 92
    · simp only [h92, if_true, Option.map_eq_some_iff] at hq
      obtain ⟨a, ha, rfl⟩ := hq
      have := quoteClose_spec cs true a ha
      simp only [List.take_succ_cons, List.drop_succ_cons, List.cons_append]
      rw [← this]
    · by_cases h34 : c = 34
      · simp [h34] at hq; subst hq; simp [h34]
      · simp only [h92, h34, if_false, Option.map_eq_some_iff] at hq
        obtain ⟨a, ha, rfl⟩ := hq
        have := quoteClose_spec cs false a ha
        simp only [List.take_succ_cons, List.drop_succ_cons, List.cons_append]
        rw [← this]

theorem parseQuoteScalar_spec {d s rest : Bytes} (h : parseQuoteScalar d = .ok (s, rest)) :
    ∃ c, d = c :: (s ++ 34 :: rest) := by
  cases d with
  | nil => simp [parseQuoteScalar] at h
  | cons c hay =>
    rw [parseQuoteScalar_eq_fallback] at h
    simp only [parseQuoteScalarFallback, List.tail_cons] at h
    split at h
    · next k hk =>
      simp only [quoteCut, Except.ok.injEq, Prod.mk.injEq] at h
      obtain ⟨rfl, rfl⟩ := h
      exact ⟨c, by rw [← quoteClose_spec hay false k hk]⟩
    · simp at h

/-- the new scalars of one iteration, seen from the cursor `d` it started at and the cursor `d'`
it ended at. -/
def Good (d d' : Bytes) (new : List Slice) : Prop :=
  new.Pairwise (fun s t => t.tail < s.tail) ∧
  ∀ s ∈ new, s.tail ≤ d.length ∧ d'.length < s.tail ∧ s.bytes.length ≤ s.tail ∧
    s.bytes = (d.drop (d.length - s.tail)).take s.bytes.length

theorem good_unquoted {d s rest : Bytes} (h : d = s ++ rest) (hs : 0 < s.length) :
    Good d rest [⟨d.length, s⟩] := by
  refine ⟨by simp, ?_⟩
  intro x hx
  simp at hx; subst hx
  simp only [Nat.sub_self, List.drop_zero]
  subst h
  simp only [List.length_append, List.take_left']
  exact ⟨by omega, by omega, by omega, trivial⟩

theorem good_quoted {d s rest : Bytes} {c : UInt8} (h : d = c :: (s ++ 34 :: rest)) :
    Good d rest [⟨d.length - 1, s⟩] := by
  refine ⟨by simp, ?_⟩
  intro x hx
  simp at hx; subst hx
  subst h
  simp only [List.length_cons, List.length_append, Nat.add_sub_cancel]
  refine ⟨by omega, by omega, by omega, ?_⟩
  have : s.length + (rest.length + 1) + 1 - (s.length + (rest.length + 1)) = 1 := by omega
  rw [this]; simp

theorem lexValue_spec {tape tape' : List Tok} {d rest : Bytes} (h : lexValue tape d = .ok (tape', rest)) :
    ∃ t s, tape' = tape ++ [t] ∧ t.slice? = some s ∧ Good d rest [s] ∧ rest <:+ d := by
  have hsc : ∀ {tape' rest}, parseScalarTok tape d = .ok (tape', rest) →
      ∃ t s, tape' = tape ++ [t] ∧ t.slice? = some s ∧ Good d rest [s] ∧ rest <:+ d := by
    intro tape' rest h
    unfold parseScalarTok at h
    split at h
    · next s r hsp =>
      simp at h
      obtain ⟨rfl, rfl⟩ := h
      obtain ⟨hd, hs⟩ := splitAtScalar_spec hsp
      exact ⟨_, _, rfl, rfl, good_unquoted hd hs, ⟨s, hd.symm⟩⟩
    · simp at h
  unfold lexValue at h
  split at h
  · simp at h
  · next c cs =>
    split at h
    · unfold parseQuoteTok at h
      split at h
      · next s r hq =>
        simp at h
        obtain ⟨rfl, rfl⟩ := h
        obtain ⟨c', hd⟩ := parseQuoteScalar_spec hq
        exact ⟨_, _, rfl, rfl, good_quoted hd, ⟨c' :: (s ++ [34]), by rw [hd]; simp⟩⟩
      · simp at h
    · split at h
      · unfold parseVariableTok at h
        split at h
        · split at h
          · split at h
            · next i hi s r hsp =>
              simp at h
              obtain ⟨rfl, rfl⟩ := h
              simp only [splitAtChecked] at hsp
              split at hsp
              · simp only [Option.some.injEq, Prod.mk.injEq] at hsp
                obtain ⟨rfl, rfl⟩ := hsp
                refine ⟨_, _, rfl, rfl, good_unquoted (List.take_append_drop _ _).symm ?_,
                  ⟨_, List.take_append_drop _ _⟩⟩
                simp only [List.length_take]; omega
              · simp at hsp
            · simp at h
          · simp at h
        · exact hsc h
      · exact hsc h

/-! ### slices under the tape edits -/

theorem slices_append (A B : List Tok) : slices (A ++ B) = slices A ++ slices B := by
  simp [slices, List.filterMap_append]

theorem slice_none_of_sh {t : Tok} (h : t.sh ≠ .plain) : t.slice? = none := by
  cases t <;> simp [Tok.sh] at h <;> rfl

theorem slices_set : ∀ (T : List Tok) (i : Nat) (t X : Tok), T[i]? = some t → t.slice? = none →
    X.slice? = none → slices (T.set i X) = slices T
  | [], _, _, _, h, _, _ => by simp at h
  | a :: T, 0, t, X, h, ht, hX => by
    simp at h; subst h
    simp [slices, ht, hX]
  | a :: T, i + 1, t, X, h, ht, hX => by
    simp at h
    have := slices_set T i t X h ht hX
    simp only [List.set_cons_succ, slices, List.filterMap_cons] at this ⊢
    rw [this]

/-! ### the effect of one iteration on the scalars -/

/-- from cursor `d` and tape `T` to cursor `d'` and tape `T'`: the scalars of `T` are kept in
place and order, the new ones lie between the two cursors. -/
def Eff (T : List Tok) (d : Bytes) (T' : List Tok) (d' : Bytes) : Prop :=
  ∃ new, slices T' = slices T ++ new ∧ d' <:+ d ∧ Good d d' new

theorem Eff.same {T T' : List Tok} {d d' : Bytes} (hs : slices T' = slices T) (hd : d' <:+ d) :
    Eff T d T' d' := ⟨[], by simp [hs], hd, by simp [Good]⟩

theorem Good.mono {d d' d'' : Bytes} {new : List Slice} (h : Good d d' new) (hs : d'' <:+ d') :
    Good d d'' new := by
  refine ⟨h.1, fun s hs' => ?_⟩
  obtain ⟨a, b, c, e⟩ := h.2 s hs'
  have := hs.length_le
  exact ⟨a, by omega, c, e⟩

theorem Eff.push {T T' : List Tok} {d rest d' : Bytes} {s : Slice}
    (hs : slices T' = slices T ++ [s]) (hg : Good d rest [s]) (hr : rest <:+ d) (hd : d' <:+ rest) :
    Eff T d T' d' := ⟨[s], hs, hd.trans hr, hg.mono hd⟩

theorem slices_snoc_none {T : List Tok} {t : Tok} (h : t.slice? = none) : slices (T ++ [t]) = slices T := by
  simp [slices, h]

theorem slices_snoc_some {T : List Tok} {t : Tok} {s : Slice} (h : t.slice? = some s) :
    slices (T ++ [t]) = slices T ++ [s] := by
  simp [slices, h]

theorem TInv.parent_slice_none {T : List Tok} {p : Nat} {ph : Bool} (h : TInv T p ph) (hp : p ≠ 0) :
    ∃ t, T[p]? = some t ∧ t.slice? = none := by
  obtain ⟨m, hm | hm⟩ := h.parent_tok hp
  · exact ⟨_, hm, rfl⟩
  · exact ⟨_, hm, rfl⟩

theorem slices_close {T T' : List Tok} {p : Nat} {X : Tok} (hT : TInv T p false) (hp : p ≠ 0)
    (hX : X.slice? = none) (hset : setTok (T ++ [.endTok p]) p X = some T') : slices T' = slices T := by
  obtain ⟨t, ht, hts⟩ := hT.parent_slice_none hp
  obtain ⟨rfl, _⟩ := setTok_some hset
  have hlt := getElem?_lt_of_some ht
  rw [slices_set _ p t X (by rw [List.getElem?_append_left hlt]; exact ht) hts hX]
  exact slices_snoc_none rfl

theorem slices_close' {T T1 : List Tok} {p : Nat} {X : Tok} (hT : TInv T p false) (hp : p ≠ 0)
    (hX : X.slice? = none) (hset : setTok T p X = some T1) : slices (T1 ++ [.endTok p]) = slices T := by
  obtain ⟨t, ht, hts⟩ := hT.parent_slice_none hp
  obtain ⟨rfl, _⟩ := setTok_some hset
  rw [slices_snoc_none rfl, slices_set _ p t X ht hts hX]

theorem slices_hole_set {T T' : List Tok} {p : Nat} {X : Tok} (hT : TInv T p true)
    (hX : X.slice? = none) (hset : setTok T (T.length - 1) X = some T') : slices T' = slices T := by
  obtain ⟨T0, t0, rfl, ht0, _, _⟩ := hT.hole_shape
  obtain ⟨rfl, _⟩ := setTok_some hset
  refine slices_set _ _ t0 X ?_ (slice_none_of_sh (by rw [ht0]; simp)) hX
  simp

theorem lexOperator_suffix {b : Bool} {d r : Bytes} {o : Op} (h : lexOperator b d = some (o, r)) :
    r <:+ d := by
  unfold lexOperator at h
  split at h
  · simp at h
  · next c r0 =>
    have h1 : r0 <:+ c :: r0 := List.suffix_cons c r0
    have h2 : r0.tail <:+ c :: r0 := (List.tail_suffix r0).trans h1
    simp only at h
    repeat' (split at h)
    all_goals (first | (simp at h; done) | skip)
    all_goals
      simp only [Option.some.injEq, Prod.mk.injEq] at h
      obtain ⟨_, rfl⟩ := h
      first | exact h1 | exact h2

theorem suffix_drop {r d : Bytes} (h : r <:+ d) : d.drop (d.length - r.length) = r := by
  obtain ⟨pre, rfl⟩ := h
  simp

theorem paramDefBody_eff_ne {mixed : Bool} {tape : List Tok} {parent : Nat} {st' : St} {data d' : Bytes}
    (h : paramDefBody mixed tape parent data = .cont st' d') :
    ∃ new, new ≠ [] ∧ slices st'.tape = slices tape ++ new ∧ d' <:+ data ∧ Good data d' new := by
  unfold paramDefBody at h
  simp only at h
  generalize hk : (2 + if decide (data[2]? = some 33) = true then 1 else 0) = k at h
  split at h
  · contradiction
  · next hlt =>
    split at h
    · contradiction
    · split at h
      · contradiction
      · next name d2 hsp1 =>
        split at h
        · contradiction
        · split at h
          · contradiction
          · next d4 hws1 =>
            split at h
            · contradiction
            · next kv d5 hsp2 =>
              split at h
              · contradiction
              · next d6 hws2 =>
                obtain ⟨hd1, hn1⟩ := splitAtScalar_spec hsp1
                obtain ⟨hd2, hn2⟩ := splitAtScalar_spec hsp2
                have s1 := skipWs_suffix hws1
                have s2 := skipWs_suffix hws2
                -- cursor chain: d6 <:+ d5 <:+ d4 <:+ d2.tail <:+ d2 <:+ drop k data <:+ data
                have c5 : d5 <:+ d4 := ⟨kv, hd2.symm⟩
                have c2 : d2 <:+ data.drop k := ⟨name, hd1.symm⟩
                have c4 : d4 <:+ data := (s1.trans (List.tail_suffix d2)).trans (c2.trans (List.drop_suffix k data))
                have l4 : d4.length < (data.drop k).length := by
                  have h1 := s1.length_le
                  have h2 := congrArg List.length hd1
                  simp only [List.length_append, List.length_tail] at h1 h2
                  have : d2 ≠ [] := by
                    intro h0; subst h0
                    rename_i hh; simp at hh
                  have := List.length_pos_iff.2 this
                  omega
                have l6 : d6.length < d4.length := by
                  have h1 := s2.length_le
                  have h2 := congrArg List.length hd2
                  simp only [List.length_append] at h2
                  omega
                have lk : (data.drop k).length ≤ data.length := by simp
                have good : Good data d6 [⟨(data.drop k).length, name⟩, ⟨d4.length, kv⟩] := by
                  refine ⟨by simp; simpa using l4, ?_⟩
                  intro x hx
                  simp only [List.mem_cons, List.mem_nil_iff, or_false] at hx
                  rcases hx with rfl | rfl
                  · refine ⟨lk, by simp only; omega, ?_, ?_⟩
                    · have := congrArg List.length hd1
                      simp only [List.length_append] at this; simp only; omega
                    · simp only
                      rw [suffix_drop (List.drop_suffix k data), hd1]; simp
                  · refine ⟨by simp only; omega, l6, ?_, ?_⟩
                    · have := congrArg List.length hd2
                      simp only [List.length_append] at this; simp only; omega
                    · simp only
                      rw [suffix_drop c4, hd2]; simp
                have hsl : ∀ b, (paramTok b ⟨(data.drop k).length, name⟩).slice? = some ⟨(data.drop k).length, name⟩ := by
                  intro b; cases b <;> rfl
                split at h
                · contradiction
                · next c rest =>
                  split at h
                  all_goals
                    simp only [Step.cont.injEq] at h
                    obtain ⟨rfl, rfl⟩ := h
                  · refine ⟨_, List.cons_ne_nil _ _, ?_, (List.suffix_cons c rest).trans ((s2.trans c5).trans c4), good.mono (List.suffix_cons c rest)⟩
                    simp only
                    rw [slices_snoc_some (t := .unquoted _) rfl, slices_snoc_some (hsl _)]
                    simp
                  · refine ⟨_, List.cons_ne_nil _ _, ?_, (s2.trans c5).trans c4, good⟩
                    simp only
                    rw [show tape ++ [paramTok (decide (data[2]? = some 33)) ⟨(data.drop k).length, name⟩] ++
                        [Tok.object parent false, Tok.unquoted ⟨d4.length, kv⟩] =
                        ((tape ++ [paramTok (decide (data[2]? = some 33)) ⟨(data.drop k).length, name⟩]) ++
                        [Tok.object parent false]) ++ [Tok.unquoted ⟨d4.length, kv⟩] by simp]
                    rw [slices_snoc_some (t := .unquoted _) rfl, slices_snoc_none (t := .object _ _) rfl,
                      slices_snoc_some (hsl _)]
                    simp

theorem paramDefBody_eff {mixed : Bool} {tape : List Tok} {parent : Nat} {st' : St} {data d' : Bytes}
    (h : paramDefBody mixed tape parent data = .cont st' d') : Eff tape data st'.tape d' := by
  obtain ⟨new, _, h1, h2, h3⟩ := paramDefBody_eff_ne h
  exact ⟨new, h1, h2, h3⟩

theorem paramDefBody_shrink {mixed : Bool} {tape : List Tok} {parent : Nat} {st' : St} {data d' : Bytes}
    (h : paramDefBody mixed tape parent data = .cont st' d') : d'.length < data.length := by
  obtain ⟨new, hne, _, _, hg⟩ := paramDefBody_eff_ne h
  cases new with
  | nil => exact absurd rfl hne
  | cons s _ =>
    obtain ⟨a, b, _, _⟩ := hg.2 s (by simp)
    omega

theorem Eff.of_slices_eq {T0 T T' : List Tok} {d d' : Bytes} (h : Eff T0 d T' d')
    (hs : slices T0 = slices T) : Eff T d T' d' := by
  obtain ⟨new, h1, h2, h3⟩ := h
  exact ⟨new, by rw [h1, hs], h2, h3⟩

theorem paramDef_eff {st st' : St} {data d' : Bytes} {initial : Bool}
    (hT : TInv st.tape st.parent initial)
    (h : paramDef st data initial = .cont st' d') : Eff st.tape data st'.tape d' := by
  unfold paramDef at h
  split at h
  · contradiction
  · split at h
    · contradiction
    · next tape parent hp =>
      refine (paramDefBody_eff h).of_slices_eq ?_
      unfold paramDefPre at hp
      cases initial with
      | false => simp at hp; rw [hp.1]
      | true =>
        simp only [if_true] at hp
        split at hp
        · simp at hp
        · simp only [Option.map_eq_some_iff, Prod.mk.injEq] at hp
          obtain ⟨t, hset, rfl, rfl⟩ := hp
          exact slices_hole_set hT rfl hset

theorem Eff.lex {T T' T'' : List Tok} {d rest d' : Bytes} (hlex : lexValue T d = .ok (T', rest))
    (hs : slices T'' = slices T') (hd : d' <:+ rest) : Eff T d T'' d' := by
  obtain ⟨t, s, rfl, hts, hg, hr⟩ := lexValue_spec hlex
  exact Eff.push (by rw [hs, slices_snoc_some hts]) hg hr hd

theorem stepKey_eff {st st' : St} {data d' : Bytes} (hinv : StInv st) (hs : st.state = .key)
    (h : stepKey st data = .cont st' d') : Eff st.tape data st'.tape d' := by
  obtain ⟨hT, _, _⟩ := hinv
  simp only [hs, decide_false, reduceCtorEq] at hT
  unfold stepKey at h
  split at h
  · contradiction
  · next c rest =>
    have hrest : rest <:+ c :: rest := List.suffix_cons c rest
    split at h
    · simp only at h
      split at h
      · simp only [Step.cont.injEq] at h
        obtain ⟨rfl, rfl⟩ := h
        exact Eff.same rfl hrest
      · next hnz =>
        have hp := hT.parent_ne_zero hnz
        split at h
        · contradiction
        · next tape' hset =>
          simp only [Step.cont.injEq] at h
          obtain ⟨rfl, rfl⟩ := h
          exact Eff.same (slices_close hT hp rfl hset) hrest
    · split at h
      · split at h
        · contradiction
        · next d2 hws =>
          have hd2 := (skipWs_suffix hws).trans hrest
          split at h
          · contradiction
          · next c2 rest2 =>
            split at h
            · simp only [Step.cont.injEq] at h
              obtain ⟨rfl, rfl⟩ := h
              exact Eff.same rfl ((List.suffix_cons c2 rest2).trans hd2)
            · split at h
              · next hd hlast =>
                simp only [Step.cont.injEq] at h
                obtain ⟨rfl, rfl⟩ := h
                refine Eff.same ?_ hd2
                rcases List.eq_nil_or_concat st.tape with hnil | ⟨T0, l, hTl⟩
                · simp [hnil] at hlast
                · simp only [List.concat_eq_append] at hTl
                  rw [hTl] at hlast ⊢
                  simp at hlast; subst hlast
                  simp [slices, List.filterMap_append, Tok.slice?, Tok.asScalar]
              · contradiction
      · split at h
        · exact paramDef_eff hT h
        · split at h
          · next tape' rest' hlex =>
            simp only [Step.cont.injEq] at h
            obtain ⟨rfl, rfl⟩ := h
            exact Eff.lex hlex rfl (List.suffix_refl _)
          · cases ‹Fail› <;> simp [Step.fail] at h

theorem stepKvs_eff {st st' : St} {data d' : Bytes}
    (h : stepKvs st data = .cont st' d') : Eff st.tape data st'.tape d' := by
  unfold stepKvs at h
  split at h
  · contradiction
  · split at h
    · next r hop =>
      have hr := lexOperator_suffix hop
      split at h
      all_goals
        simp only [Step.cont.injEq] at h
        obtain ⟨rfl, rfl⟩ := h
      · exact Eff.same (slices_snoc_none rfl) hr
      · exact Eff.same rfl hr
    · next o r _ hop =>
      have hr := lexOperator_suffix hop
      simp only [Step.cont.injEq] at h
      obtain ⟨rfl, rfl⟩ := h
      exact Eff.same (slices_snoc_none rfl) hr
    · split at h
      · simp only [Step.cont.injEq] at h
        obtain ⟨rfl, rfl⟩ := h
        exact Eff.same rfl (List.suffix_refl _)
      · split at h
        · contradiction
        · next tape' hins =>
          simp only [Step.cont.injEq] at h
          obtain ⟨rfl, rfl⟩ := h
          obtain ⟨T0, l, hT0, rfl⟩ := insertBeforeLast_some hins
          refine Eff.same ?_ (List.suffix_refl _)
          rw [hT0]
          simp [slices, List.filterMap_append, List.filterMap_cons, Tok.slice?, Tok.asScalar]

theorem stepObjectValue_eff {st st' : St} {data d' : Bytes}
    (h : stepObjectValue st data = .cont st' d') : Eff st.tape data st'.tape d' := by
  unfold stepObjectValue at h
  split at h
  · contradiction
  · next c rest =>
    split at h
    · simp only [Step.cont.injEq] at h
      obtain ⟨rfl, rfl⟩ := h
      exact Eff.same (slices_snoc_none rfl) (List.suffix_cons c rest)
    · split at h
      · contradiction
      · split at h
        · next tape' rest' hlex =>
          simp only [Step.cont.injEq] at h
          obtain ⟨rfl, rfl⟩ := h
          exact Eff.lex hlex rfl (List.suffix_refl _)
        · cases ‹Fail› <;> simp [Step.fail] at h

theorem slices_of_map_slice {T T' : List Tok} (h : T'.map Tok.slice? = T.map Tok.slice?) :
    slices T' = slices T := by
  have : ∀ L : List Tok, slices L = (L.map Tok.slice?).filterMap id := by
    intro L; simp [slices, List.filterMap_map]
  rw [this, this, h]

/-- the `mixed` flag edit keeps every scalar. -/
theorem flag_parent_slices (T : List Tok) (p : Nat) :
    slices (match T[p]? with
      | some (.array e _) => T.set p (.array e true)
      | some (.object e _) => T.set p (.object e true)
      | _ => T) = slices T := by
  split
  · next e m hq => exact slices_set T p _ _ hq rfl rfl
  · next e m hq => exact slices_set T p _ _ hq rfl rfl
  · rfl

theorem stepParseOpen_eff {st st' : St} {data d' : Bytes} (hinv : StInv st) (hs : st.state = .parseOpen)
    (h : stepParseOpen st data = .cont st' d') : Eff st.tape data st'.tape d' := by
  obtain ⟨hT, _, _⟩ := hinv
  simp only [hs, decide_true] at hT
  unfold stepParseOpen at h
  split at h
  · contradiction
  · next c rest =>
    have hrest : rest <:+ c :: rest := List.suffix_cons c rest
    split at h
    · split at h
      · contradiction
      · simp only at h
        split at h
        · contradiction
        · next tape' hset =>
          simp only [Step.cont.injEq] at h
          obtain ⟨rfl, rfl⟩ := h
          refine Eff.same ?_ hrest
          rw [slices_snoc_none rfl]
          exact slices_hole_set hT rfl hset
    · split at h
      · split at h
        · contradiction
        · exact paramDef_eff hT h
      · split at h
        · split at h
          · contradiction
          · next scratch hws =>
            have hsc := (skipWs_suffix hws).trans hrest
            split at h
            · contradiction
            · next c2 rest2 =>
              split at h
              · simp only [Step.cont.injEq] at h
                obtain ⟨rfl, rfl⟩ := h
                exact Eff.same rfl ((List.suffix_cons c2 rest2).trans hsc)
              · split at h
                · contradiction
                · simp only at h
                  split at h
                  · contradiction
                  · next tape' hset =>
                    simp only [Step.cont.injEq] at h
                    obtain ⟨rfl, rfl⟩ := h
                    exact Eff.same (slices_hole_set hT rfl hset) (List.suffix_refl _)
        · split at h
          · cases ‹Fail› <;> simp [Step.fail] at h
          · next tape1 rest' hlex =>
            obtain ⟨t, ht1, ht⟩ := lexValue_push hlex
            obtain ⟨T0, t0, hT0, ht0, hne0, hp0⟩ := hT.hole_shape
            simp only at h
            generalize htape2 : (if st.mixed = true then
                match tape1[st.parent]? with
                | some (.array e _) => tape1.set st.parent (.array e true)
                | some (.object e _) => tape1.set st.parent (.object e true)
                | _ => tape1
              else tape1) = tape2 at h
            have hsl2 : slices tape2 = slices tape1 := by
              rw [← htape2]; split
              · exact flag_parent_slices _ _
              · rfl
            have hlen2 : tape2.length = T0.length + 2 := by
              rw [← htape2]
              have : tape1.length = T0.length + 2 := by rw [ht1, hT0]; simp
              split
              · split <;> simp [this]
              · exact this
            -- the token at `len - 2` of `tape2` is still the placeholder
            have hhole : tape2[tape2.length - 2]? = some t0 := by
              rw [hlen2]
              simp only [Nat.add_sub_cancel]
              have h1 : tape1[T0.length]? = some t0 := by rw [ht1, hT0]; simp
              rw [← htape2]
              split
              · split
                · rw [List.getElem?_set_ne (by omega)]; exact h1
                · rw [List.getElem?_set_ne (by omega)]; exact h1
                · exact h1
              · exact h1
            have key : ∀ (X : Tok) (tape' : List Tok), X.slice? = none →
                setTok tape2 (tape2.length - 2) X = some tape' → slices tape' = slices tape1 := by
              intro X tape' hX hset
              obtain ⟨rfl, _⟩ := setTok_some hset
              rw [slices_set _ _ t0 X hhole (slice_none_of_sh (by rw [ht0]; simp)) hX, hsl2]
            split at h
            · contradiction
            · next d2 hws =>
              have hd2 := skipWs_suffix hws
              split at h
              · contradiction
              · split at h
                · split at h
                  · contradiction
                  · next tape' hset =>
                    simp only [Step.cont.injEq] at h
                    obtain ⟨rfl, rfl⟩ := h
                    exact Eff.lex hlex (key _ _ rfl hset) hd2
                · split at h
                  · contradiction
                  · next tape' hset =>
                    simp only [Step.cont.injEq] at h
                    obtain ⟨rfl, rfl⟩ := h
                    exact Eff.lex hlex (key _ _ rfl hset) hd2

theorem stepArrayOp_eff {st st' : St} {data d' : Bytes} {onErr : Res}
    (h : stepArrayOp onErr st data = .cont st' d') : Eff st.tape data st'.tape d' := by
  unfold stepArrayOp at h
  split at h
  · contradiction
  · next tape mixed hpre =>
    have hsl : slices tape = slices st.tape := by
      unfold arrayOpPre at hpre
      split at hpre
      · simp at hpre; rw [hpre.1]
      · split at hpre
        · split at hpre
          · next tape1 hins =>
            simp at hpre
            obtain ⟨rfl, _⟩ := hpre
            obtain ⟨T0, l, hT0, rfl⟩ := insertBeforeLast_some hins
            rw [hT0]
            simp [slices, List.filterMap_append, List.filterMap_cons, Tok.slice?, Tok.asScalar]
          · simp at hpre
        · simp at hpre
    split at h
    · next o r hop =>
      simp only [Step.cont.injEq] at h
      obtain ⟨rfl, rfl⟩ := h
      exact Eff.same (by simp only; rw [slices_snoc_none rfl, hsl]) (lexOperator_suffix hop)
    · contradiction

theorem stepArrayValue_eff {n : Nat} {st st' : St} {data d' : Bytes} (hinv : StInv st) (hs : st.state = .arrayValue)
    (h : stepArrayValue n st data = .cont st' d') : Eff st.tape data st'.tape d' := by
  obtain ⟨hT, _, _⟩ := hinv
  simp only [hs, decide_false, reduceCtorEq] at hT
  unfold stepArrayValue at h
  split at h
  · contradiction
  · next c rest =>
    have hrest : rest <:+ c :: rest := List.suffix_cons c rest
    split at h
    · simp only [Step.cont.injEq] at h
      obtain ⟨rfl, rfl⟩ := h
      exact Eff.same (slices_snoc_none rfl) hrest
    · split at h
      · simp only at h
        split at h
        · contradiction
        · next hnz =>
          have hp := hT.parent_ne_zero hnz
          split at h
          · contradiction
          · next tape' hset =>
            simp only [Step.cont.injEq] at h
            obtain ⟨rfl, rfl⟩ := h
            exact Eff.same (slices_close' hT hp (by split <;> rfl) hset) hrest
      · split at h
        · split at h
          · next tape' rest' hlex =>
            simp only [Step.cont.injEq] at h
            obtain ⟨rfl, rfl⟩ := h
            exact Eff.lex hlex rfl (List.suffix_refl _)
          · cases ‹Fail› <;> simp [Step.fail] at h
        · split at h
          · exact stepArrayOp_eff h
          · split at h
            · next tape' rest' hlex =>
              simp only [Step.cont.injEq] at h
              obtain ⟨rfl, rfl⟩ := h
              unfold parseScalarTok at hlex
              split at hlex
              · next s r hsp =>
                simp at hlex
                obtain ⟨rfl, rfl⟩ := hlex
                obtain ⟨hd, hs'⟩ := splitAtScalar_spec hsp
                exact Eff.push (slices_snoc_some rfl) (good_unquoted hd hs') ⟨s, hd.symm⟩ (List.suffix_refl _)
              · simp at hlex
            · cases ‹Fail› <;> simp [Step.fail] at h

theorem stepAt_eff {n : Nat} {st st' : St} {data d' : Bytes} (hinv : StInv st)
    (h : stepAt n st data = .cont st' d') : Eff st.tape data st'.tape d' := by
  unfold stepAt at h
  cases hs : st.state <;> simp only [hs] at h
  · exact stepKey_eff hinv hs h
  · exact stepKvs_eff h
  · exact stepObjectValue_eff h
  · exact stepArrayValue_eff hinv hs h
  · exact stepParseOpen_eff hinv hs h

/-! ### the scalar invariant along the run -/

theorem drop_suffix_eq {pre d : Bytes} {t : Nat} (ht : t ≤ d.length) :
    (pre ++ d).drop ((pre ++ d).length - t) = d.drop (d.length - t) := by
  have : (pre ++ d).length - t = pre.length + (d.length - t) := by simp; omega
  rw [this, List.drop_append]
  simp

def ScInv (input : Bytes) (T : List Tok) (data : Bytes) : Prop :=
  data <:+ input ∧
  (∀ s ∈ slices T, s.tail ≤ input.length ∧ s.bytes.length ≤ s.tail ∧
      s.bytes = (input.drop (s.off input.length)).take s.bytes.length ∧ data.length < s.tail) ∧
  (slices T).Pairwise (fun s t => t.tail < s.tail)

theorem ScInv.shrink {input : Bytes} {T : List Tok} {d d' : Bytes} (h : ScInv input T d) (hd : d' <:+ d) :
    ScInv input T d' := by
  obtain ⟨h1, h2, h3⟩ := h
  refine ⟨hd.trans h1, fun s hs => ?_, h3⟩
  obtain ⟨a, b, c, e⟩ := h2 s hs
  have := hd.length_le
  exact ⟨a, b, c, by omega⟩

theorem ScInv.eff {input : Bytes} {T T' : List Tok} {d d' : Bytes} (h : ScInv input T d)
    (he : Eff T d T' d') : ScInv input T' d' := by
  obtain ⟨h1, h2, h3⟩ := h
  obtain ⟨new, hsl, hd, hg1, hg2⟩ := he
  have hdl := hd.length_le
  have hil := h1.length_le
  refine ⟨hd.trans h1, ?_, ?_⟩
  · intro s hs
    rw [hsl, List.mem_append] at hs
    rcases hs with hs | hs
    · obtain ⟨a, b, c, e⟩ := h2 s hs
      exact ⟨a, b, c, by omega⟩
    · obtain ⟨a, b, c, e⟩ := hg2 s hs
      refine ⟨by omega, c, ?_, b⟩
      obtain ⟨pre, rfl⟩ := h1
      simp only [Slice.off]
      rw [drop_suffix_eq a]
      exact e
  · rw [hsl, List.pairwise_append]
    refine ⟨h3, hg1, ?_⟩
    intro s hs t ht
    have := (h2 s hs).2.2.2
    have := (hg2 t ht).1
    omega

/-- the scalar clauses of `WfTextTape`. -/
def WfScalars (input : Bytes) (T : List Tok) : Prop :=
  (∀ s ∈ slices T, s.tail ≤ input.length ∧ s.bytes.length ≤ s.tail ∧
      s.bytes = (input.drop (s.off input.length)).take s.bytes.length) ∧
  (slices T).Pairwise (fun s t => s.off input.length < t.off input.length)

theorem ScInv.wf {input : Bytes} {T : List Tok} {d : Bytes} (h : ScInv input T d) : WfScalars input T := by
  obtain ⟨_, h2, h3⟩ := h
  refine ⟨fun s hs => ⟨(h2 s hs).1, (h2 s hs).2.1, (h2 s hs).2.2.1⟩, ?_⟩
  have hall : ∀ s ∈ slices T, s.tail ≤ input.length := fun s hs => (h2 s hs).1
  revert hall h3
  generalize slices T = l
  intro h3 hall
  induction h3 with
  | nil => exact .nil
  | cons hx _ ih =>
    refine .cons ?_ (ih (fun s hs => hall s (List.mem_cons_of_mem _ hs)))
    intro t ht
    have h1 := hall _ (List.mem_cons_self ..)
    have h2 := hall t (List.mem_cons_of_mem _ ht)
    have := hx t ht
    simp only [Slice.off]; omega

theorem atEof_scalars {input : Bytes} {st : St} {d : Bytes} {T : List Tok} {b : Bool} (hinv : StInv st)
    (hsc : ScInv input st.tape d) (h : atEof st = .ok T b) : WfScalars input T := by
  obtain ⟨hT, _, _⟩ := hinv
  unfold atEof at h
  split at h
  · simp at h
  · next hs =>
    simp only [ne_eq, Decidable.not_not] at hs
    simp only [hs, decide_false, reduceCtorEq] at hT
    split at h
    · simp only [Res.ok.injEq] at h
      obtain ⟨rfl, _⟩ := h
      exact hsc.wf
    · next hp =>
      simp only at h
      split at h
      · split at h
        · simp at h
        · next tape' hset =>
          simp only [Res.ok.injEq] at h
          obtain ⟨rfl, _⟩ := h
          have hsl := slices_close hT hp rfl hset
          obtain ⟨h1, h2, h3⟩ := hsc
          exact ScInv.wf (d := d) ⟨h1, by rw [hsl]; exact h2, by rw [hsl]; exact h3⟩
      · simp at h

theorem run_scalars (input : Bytes) (n : Nat) : ∀ (fuel : Nat) (st : St) (data : Bytes) (T : List Tok) (b : Bool),
    StInv st → ScInv input st.tape data → run n fuel st data = .ok T b → WfScalars input T
  | 0, _, _, _, _, _, _, h => by simp [run] at h
  | fuel + 1, st, data, T, b, hinv, hsc, h => by
    simp only [run, step] at h
    cases hsk : skipWs data with
    | none =>
      simp only [hsk] at h
      exact atEof_scalars hinv hsc h
    | some d =>
      simp only [hsk] at h
      cases hstep : stepAt n st d with
      | cont st' data' =>
        simp only [hstep] at h
        exact run_scalars input n fuel st' data' T b (stepAt_inv hinv hstep)
          ((hsc.shrink (skipWs_suffix hsk)).eff (stepAt_eff hinv hstep)) h
      | done r =>
        simp only [hstep] at h
        subst h
        exact absurd hstep stepAt_not_ok

/-- C06 (text half), growth: whenever the text tape parser succeeds — on ANY input — the tape is
structurally sound (`WfTextTape`): every container start indexes a later `End` that indexes it
back, containers are properly nested, no container or `End` carries index 0, and every scalar is
the sub-slice of the input at its offset and starts strictly after the previous scalar's start. -/
theorem C06_text_inv (input : Bytes) (T : List Tok) (b : Bool) (h : parse input = .ok T b) :
    WfTextTape input T := by
  have hstruct := parse_wfStruct input T b h
  unfold parse at h
  simp only at h
  generalize hd : (if hasBom input = true then List.drop 3 input else input) = data at h
  generalize hr : run input.length (fuelFor data) St.init data = r at h
  cases r <;> simp [Res.withBom] at h
  obtain ⟨rfl, _⟩ := h
  have hsuf : data <:+ input := by
    rw [← hd]; split
    · exact List.drop_suffix 3 input
    · exact List.suffix_refl _
  have hsc := run_scalars input _ _ _ _ _ _ StInv.init
    (show ScInv input St.init.tape data from ⟨hsuf, by simp [St.init, slices], by simp [St.init, slices]⟩) hr
  exact ⟨hstruct.1, hstruct.2.1, hstruct.2.2, hsc.1, hsc.2⟩

/-- `a={b}`: the parse succeeds, so the theorem applies non-vacuously. -/
example : parse [97, 61, 123, 98, 125] =
    .ok [.unquoted ⟨5, [97]⟩, .array 3 false, .unquoted ⟨2, [98]⟩, .endTok 1] false := by decide +kernel

end Jomini.TextTape
