import JominiModel.Proofs.TextReaderTotal
/-
Towards the converse of `C07_full_only_if_unfit`: every token the buffered reader returns was, together with the byte that
ended it, inside the buffer at once.
-/
namespace Jomini.TextReader
open Jomini Jomini.TextReader.Spec

/-- bytes that must have been in the window at once for the reader to return the token: the bytes of an unquoted scalar
(an `@[…]` token ends with its own last byte), the content of a quoted scalar plus its closing quote -/
def tokSize : Token → Nat
  | .unquoted b => b.length
  | .quoted b => b.length + 1
  | _ => 1

theorem tokenAt_tok_size {c : UInt8} {tl : Bytes} {i adv : Nat} {t : Token} (h : tokenAt c tl i = .tok adv t) :
    tokSize t ≤ 1 + tl.length := by
  unfold tokenAt at h
  split at h; · simp at h; rw [← h.2]; simp [tokSize]
  split at h; · simp at h; rw [← h.2]; simp [tokSize]
  split at h
  · unfold quoteTok at h
    cases hq : quoteScan tl 0 with
    | more _ _ => rw [hq] at h; simp at h
    | closed n =>
      rw [hq] at h; simp at h
      have := quoteEnd_bounds (quoteScan_closed hq)
      rw [← h.2]; simp [tokSize]; omega
  have hunq : ∀ {c : UInt8} {tl : Bytes}, unqTok c tl i = .tok adv t → tokSize t ≤ 1 + tl.length := by
    intro c tl h
    unfold unqTok at h
    cases hf : findIdx isBoundary tl 0 with
    | none => rw [hf] at h; simp at h
    | some k =>
      rw [hf] at h; simp at h
      have := findIdx_some_bounds hf
      rw [← h.2]; simp [tokSize]; omega
  have hop2 : ∀ {p q : Op}, opTok2 p q tl i = .tok adv t → tokSize t ≤ 1 + tl.length := by
    intro p q h; unfold opTok2 at h
    cases tl with
    | nil => simp at h
    | cons d r => simp only at h; split at h <;> (simp at h; rw [← h.2]; simp [tokSize])
  have hop1 : ∀ {o : Op}, opTok1 o tl i = .tok adv t → tokSize t ≤ 1 + tl.length := by
    intro o h; unfold opTok1 at h
    cases tl with
    | nil => simp at h
    | cons d r => simp only at h; split at h <;> (simp at h; rw [← h.2]; simp [tokSize])
  split at h
  · unfold atTok at h
    cases tl with
    | nil => simp at h
    | cons d r =>
      simp only at h
      split at h
      · cases hf : findIdx (· == 93) r 0 with
        | none => rw [hf] at h; simp at h
        | some k =>
          rw [hf] at h; simp only [Scan.tok.injEq] at h
          have := findIdx_some_bounds hf
          rw [← h.2]; simp only [tokSize, List.length_take, List.length_cons]; omega
      · exact hunq h
  split at h; · exact hop2 h
  split at h; · exact hop2 h
  split at h; · exact hop1 h
  split at h; · exact hop1 h
  split at h; · exact hop2 h
  exact hunq h

theorem quoteRescan_more_carry {len : Nat} {l : Bytes} {i c o : Nat} : quoteRescan len l i = .more c o → c = len := by
  fun_induction quoteRescan len l i with
  | case1 => intro h; simp at h; exact h.1.symm
  | case2 => intro h; simp at h; exact h.1.symm
  | case3 _ _ _ _ _ ih => exact ih
  | case4 _ _ _ _ _ ih => exact ih
  | case5 => intro h; simp at h

/-- a token decided by the scan of a window lies, with the byte that ended it, inside that window -/
theorem fbLoop_tok_size {pos0 : Bool} {w : Bytes} {bom b' : Bom} {adv : Nat} {t : Token}
    (h : fbLoop pos0 w .top 0 bom = (b', .tok adv t)) : tokSize t ≤ w.length := by
  obtain ⟨pre, tail, bom_s, rfl, hs, ht⟩ := decompose pos0 w.length w 0 bom (Nat.le_refl _)
  rw [hs.fbLoop] at h
  simp only [Nat.zero_add] at ht h
  rcases fbLoop_tail ht with ⟨_, h1⟩ | ⟨a, _, h1⟩ | ⟨c, tl, bomR, rfl, _, _, h1⟩ | ⟨r, _, _, _, h1⟩
  · rw [h1] at h; simp at h
  · rw [h1] at h; simp at h
  · have := h1 []; simp only [List.append_nil] at this
    rw [this] at h; simp only [Prod.mk.injEq] at h
    have := tokenAt_tok_size h.2
    simp; omega
  · rw [h1] at h; simp at h

theorem fillBuf_ok_window {r : Reader} {n : Nat} (hc : r.cap ≠ 0) (h : (fillBuf r).2 = .ok n) :
    r.win.length < r.cap ∧ (fillBuf r).1.win.length = r.win.length + n ∧ (fillBuf r).1.cap = r.cap := by
  unfold fillBuf at h ⊢
  simp only [hc, if_false] at h ⊢
  split
  · rename_i hfull; simp [hfull] at h
  · rename_i hfull
    simp only [hfull, if_false] at h
    generalize r.src.read (r.cap - r.win.length) = res at h ⊢
    obtain ⟨src', ob⟩ := res
    cases ob with
    | none => simp at h
    | some bs =>
      simp only [Fill.ok.injEq] at h
      refine ⟨by omega, by simp [h], rfl⟩

/-- **every token returned by `next_opt_fallback` / `next_opt_refill` was inside the buffer** together with the byte that
ended it (`cap ≥ 1`, window inside the buffer). -/
theorem run_tok_size : ∀ (fuel : Nat) (call : Call) (r r' : Reader) (t : Token),
    InBuffer r → r.cap ≠ 0 → (∀ st carry off, call = .refill st carry off → carry ≤ r.win.length) →
    run fuel call r = .ok r' (some t) → tokSize t ≤ r.cap := by
  intro fuel
  induction fuel with
  | zero => intro call r r' t _ _ _ h; simp [run] at h
  | succ f ih =>
    intro call r r' t hin hc hcall h
    have hwl : r.win.length ≤ r.cap := by unfold InBuffer at hin; omega
    cases call with
    | fallback =>
      rw [run] at h
      generalize hres : fbLoop (r.position == 0) r.win .top 0 r.bom = res at h
      obtain ⟨bom, sc⟩ := res
      cases sc with
      | tok adv t0 =>
        simp only at h
        cases ha : advance { r with bom := bom } adv with
        | none => rw [ha] at h; simp at h
        | some r1 =>
          rw [ha] at h
          simp only [Res.ok.injEq, Option.some.injEq] at h
          rw [← h.2]
          exact Nat.le_trans (fbLoop_tok_size hres) hwl
      | refill st c o =>
        simp only at h
        refine ih _ { r with bom := bom } r' t hin hc ?_ h
        intro st' c' o' he
        simp only [Call.refill.injEq] at he
        rw [← he.2.1]
        exact fbLoop_refill_carry hres
      | bomFill =>
        simp only at h
        have hfw := @fillBuf_ok_window { r with bom := bom }
        have hinf := InBuffer_closed.fill (r := { r with bom := bom }) hin
        generalize hfr : fillBuf { r with bom := bom } = fr at h hfw hinf
        obtain ⟨r1, fl⟩ := fr
        cases fl with
        | full => simp at h
        | io => simp at h
        | ok n =>
          obtain ⟨_, _, hc1⟩ := hfw (n := n) hc rfl
          have hin1 := hinf (by simp)
          cases n with
          | zero =>
            have := ih _ { r1 with bom := .notPresent } r' t hin1 (by simp only; rw [hc1]; exact hc) (by intro _ _ _ he; simp at he) h
            rw [hc1] at this; exact this
          | succ n =>
            have := ih _ r1 r' t hin1 (by rw [hc1]; exact hc) (by intro _ _ _ he; simp at he) h
            rw [hc1] at this; exact this
    | refill st carry off =>
      have hcar := hcall st carry off rfl
      rw [run] at h
      cases ha : advance r (r.win.length - carry) with
      | none => rw [ha] at h; simp at h
      | some r0 =>
        rw [ha] at h
        simp only at h
        have hgt : ¬ carry > r.win.length := by omega
        simp only [hgt, if_false] at h
        have hin0 : InBuffer r0 := InBuffer_closed.adv hin ha
        have hr0 : r0.win.length = carry ∧ r0.cap = r.cap := by
          unfold TextReader.advance at ha
          split at ha
          · simp only [Option.some.injEq] at ha; subst ha; simp; omega
          · simp at ha
        have hc0 : r0.cap ≠ 0 := by rw [hr0.2]; exact hc
        have hfw := @fillBuf_ok_window r0
        have hinf := InBuffer_closed.fill (r := r0) hin0
        generalize hfr : fillBuf r0 = fr at h hfw hinf
        obtain ⟨r1, fl⟩ := fr
        cases fl with
        | full => simp at h
        | io => simp at h
        | ok n =>
          obtain ⟨hlt, hlen1, hc1⟩ := hfw (n := n) hc0 rfl
          have hin1 : InBuffer r1 := hinf (by simp)
          have hwl1 : r1.win.length ≤ r1.cap := by unfold InBuffer at hin1; omega
          simp only at hlen1 hc1 hlt
          cases n with
          | zero =>
            simp only at h
            cases st with
            | none =>
              simp only at h
              split at h
              · simp at h
              · split at h
                · simp at h
                · split at h
                  · cases ha2 : advance r1 carry with
                    | none => rw [ha2] at h; simp at h
                    | some r2 => rw [ha2] at h; simp at h
                  · simp at h
            | quote => simp at h
            | unquoted =>
              simp only at h
              split at h
              · simp at h
              · cases ha2 : advance r1 r1.win.length with
                | none => rw [ha2] at h; simp at h
                | some r2 =>
                  rw [ha2] at h
                  simp only [Res.ok.injEq, Option.some.injEq] at h
                  rw [← h.2]
                  simp only [tokSize, List.length_take]
                  rw [← hr0.2]; omega
          | succ n =>
            simp only at h
            have hc1' : r1.cap ≠ 0 := by rw [hc1]; exact hc0
            cases st with
            | none =>
              have := ih _ r1 r' t hin1 hc1' (by intro _ _ _ he; simp at he) h
              rw [hc1, hr0.2] at this; exact this
            | quote =>
              simp only at h
              cases hq : quoteRescan r1.win.length (r1.win.drop off) off with
              | closed m =>
                rw [hq] at h
                simp only at h
                cases ha2 : advance r1 (m + 1) with
                | none => rw [ha2] at h; simp at h
                | some r2 =>
                  rw [ha2] at h
                  simp only [Res.ok.injEq, Option.some.injEq] at h
                  have hk : m + 1 ≤ r1.win.length := by
                    unfold TextReader.advance at ha2; split at ha2
                    · assumption
                    · simp at ha2
                  rw [← h.2]
                  simp only [tokSize, List.length_take]
                  rw [← hr0.2, ← hc1]; omega
              | more c o =>
                rw [hq] at h
                simp only at h
                have := ih _ r1 r' t hin1 hc1' (by
                  intro st' c' o' he
                  simp only [Call.refill.injEq] at he
                  rw [← he.2.1]
                  -- the re-scan always carries the whole window
                  have : c = r1.win.length := quoteRescan_more_carry hq
                  omega) h
                rw [hc1, hr0.2] at this; exact this
            | unquoted =>
              simp only at h
              cases hf : findIdx isBoundary (r1.win.drop off) off with
              | some m =>
                rw [hf] at h
                simp only at h
                cases ha2 : advance r1 m with
                | none => rw [ha2] at h; simp at h
                | some r2 =>
                  rw [ha2] at h
                  simp only [Res.ok.injEq, Option.some.injEq] at h
                  have hb := findIdx_some_bounds hf
                  have hk : m < r1.win.length := by
                    have : off + (r1.win.drop off).length ≤ max off r1.win.length := by simp; omega
                    by_cases ho : off ≤ r1.win.length
                    · simp at hb; omega
                    · simp at hb; omega
                  rw [← h.2]
                  simp only [tokSize, List.length_take]
                  rw [← hr0.2, ← hc1]; omega
              | none =>
                rw [hf] at h
                simp only at h
                have := ih _ r1 r' t hin1 hc1' (by
                  intro st' c' o' he
                  simp only [Call.refill.injEq] at he
                  rw [← he.2.1]; exact Nat.le_refl _) h
                rw [hc1, hr0.2] at this; exact this

end Jomini.TextReader

namespace Jomini.TextReader
open Jomini Jomini.TextReader.Spec

theorem Cap_closed (cap : Nat) : Closed (fun r : Reader => r.cap = cap) (fun r : Reader => r.cap = cap) (fun _ => True) := by
  refine { adv := ?_, bom := fun _ h => h, fill := ?_, fillio := ?_, full := fun _ _ => trivial,
           io := fun _ _ => trivial, eof := trivial }
  · intro r r' k h ha
    unfold TextReader.advance at ha
    split at ha
    · simp only [Option.some.injEq] at ha; subst ha; exact h
    · simp at ha
  · intro r h _; unfold fillBuf; split; · exact h
    split; · exact h
    split <;> exact h
  · intro r h _; unfold fillBuf; split; · exact h
    split; · exact h
    split <;> exact h

theorem nextOpt_tok_size {fuel : Nat} {r r' : Reader} {t : Token} (hin : InBuffer r) (hc : r.cap ≠ 0)
    (h : nextOpt fuel r = .ok r' (some t)) : tokSize t ≤ r.cap := by
  rcases nextOpt_vs_scan fuel r with hf | ⟨adv, t', r'', hscan, hres, _⟩
  · rw [hf] at h
    exact run_tok_size fuel .fallback r r' t hin hc (by intro _ _ _ he; simp at he) h
  · rw [hres] at h
    simp only [Res.ok.injEq, Option.some.injEq] at h
    rw [← h.2]
    have hwl : r.win.length ≤ r.cap := by unfold InBuffer at hin; omega
    exact Nat.le_trans (fbLoop_tok_size hscan) hwl

/-- every token of a streamed run was inside the buffer -/
theorem lexAll_tok_size (cap : Nat) (hcap : cap ≠ 0) (fuel : Nat) : ∀ (n : Nat) (r : Reader) (acc : List Token),
    InBuffer r → r.cap = cap → ∀ t ∈ (lexAll fuel n r acc).toks, t ∈ acc ∨ tokSize t ≤ cap := by
  intro n
  induction n with
  | zero => intro r acc _ _ t ht; simp [lexAll] at ht; exact Or.inl ht
  | succ n ih =>
    intro r acc hin hc t ht
    rw [lexAll] at ht
    unfold next at ht
    have hP := nextOpt_inv InBuffer_closed fuel r hin
    have hC := nextOpt_inv (Cap_closed cap) fuel r hc
    cases hx : nextOpt fuel r with
    | ok r' a =>
      rw [hx] at ht hP hC
      cases a with
      | none => simp at ht; exact Or.inl ht
      | some t0 =>
        simp only at ht
        have hsz := nextOpt_tok_size hin (by rw [hc]; exact hcap) hx
        rcases ih r' (t0 :: acc) hP hC t ht with hm | hm
        · simp at hm
          rcases hm with rfl | hm
          · right; rw [← hc]; exact hsz
          · exact Or.inl hm
        · exact Or.inr hm
    | err r' e => rw [hx] at ht; simp at ht; exact Or.inl ht
    | panic => rw [hx] at ht; simp at ht; exact Or.inl ht
    | ub => rw [hx] at ht; simp at ht; exact Or.inl ht
    | fuel => rw [hx] at ht; simp at ht; exact Or.inl ht

/-- **every token the streaming reader returns fits its buffer** (any schedule, faults included, cap ≥ 1): the bytes of
an unquoted scalar, resp. the content of a quoted scalar plus its closing quote, were in the buffer at once. -/
theorem streamTokens_tok_size (data : Bytes) (cap : Nat) (sched : List Step) (hcap : 0 < cap) :
    ∀ t ∈ (streamTokens cap sched data).toks, tokSize t ≤ cap := by
  intro t ht
  have := lexAll_tok_size cap (by omega) _ _ (fromReader cap sched data) [] (by simp [InBuffer, fromReader]) rfl t ht
  rcases this with h | h
  · simp at h
  · exact h

end Jomini.TextReader
