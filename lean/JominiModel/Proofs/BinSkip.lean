import JominiModel.Spec.BinSkip
import JominiModel.Proofs.BinLexer
/-
C09 (binary lexer): `Lexer::skip_container` (which walks lexeme by lexeme and never looks
inside payloads) lands exactly where counting opens and closes over `read_token`'s tokens
lands.
-/
namespace Jomini.BinLexer
open Jomini

theorem bind_ok_iff {α β : Type} (p : P α) (k : α → P β) (d : Bytes) (x : β) (r : Bytes) :
    P.bind p k d = .ok (x, r) ↔ ∃ y d1, p d = .ok (y, d1) ∧ k y d1 = .ok (x, r) := by
  unfold P.bind
  split
  · simp_all
  · rename_i y d1 h
    simp only [h, Except.ok.injEq, Prod.mk.injEq]
    constructor
    · intro hk; exact ⟨y, d1, ⟨rfl, rfl⟩, hk⟩
    · rintro ⟨_, _, ⟨rfl, rfl⟩, hk⟩; exact hk

theorem map_ok_iff {α β : Type} (f : α → β) (p : P α) (d : Bytes) (x : β) (r : Bytes) :
    P.map f p d = .ok (x, r) ↔ ∃ y, p d = .ok (y, r) ∧ f y = x := by
  unfold P.map
  split
  · simp_all
  · rename_i y d1 h
    simp only [Except.ok.injEq, Prod.mk.injEq, h]
    constructor
    · rintro ⟨a, b⟩; exact ⟨y, ⟨rfl, b⟩, a⟩
    · rintro ⟨y', ⟨a, b⟩, c⟩; exact ⟨by rw [a]; exact c, b⟩

/-- one iteration of `skip_container`'s loop, by what the iteration sees -/
theorem skip_step_other (f : Nat) (d d1 : Bytes) (L depth id : Nat) (h : readId d = .ok (id, d1))
    (hid : id ≠ QUOTED ∧ id ≠ UNQUOTED ∧ id ≠ U32 ∧ id ≠ I32 ∧ id ≠ U64 ∧ id ≠ I64 ∧ id ≠ BOOL ∧
      id ≠ F32 ∧ id ≠ F64 ∧ id ≠ CLOSE ∧ id ≠ OPEN) :
    Lexer.skipLoop (f + 1) ⟨d, L⟩ depth = Lexer.skipLoop f ⟨d1, L⟩ depth := by
  obtain ⟨h1, h2, h3, h4, h5, h6, h7, h8, h9, h10, h11⟩ := hid
  simp [Lexer.skipLoop, Lexer.readId, Lexer.lift, h, h1, h2, h3, h4, h5, h6, h7, h8, h9, h10, h11]

theorem skip_step_open (f : Nat) (d d1 : Bytes) (L depth : Nat) (h : readId d = .ok (OPEN, d1)) :
    Lexer.skipLoop (f + 1) ⟨d, L⟩ depth = Lexer.skipLoop f ⟨d1, L⟩ (depth + 1) := by
  simp [Lexer.skipLoop, Lexer.readId, Lexer.lift, h, OPEN, QUOTED, UNQUOTED, U32, I32, U64, I64, BOOL, F32, F64, CLOSE]

theorem skip_step_close (f : Nat) (d d1 : Bytes) (L depth : Nat) (h : readId d = .ok (CLOSE, d1)) :
    Lexer.skipLoop (f + 1) ⟨d, L⟩ depth =
      if depth - 1 = 0 then some (.ok (), ⟨d1, L⟩) else Lexer.skipLoop f ⟨d1, L⟩ (depth - 1) := by
  simp [Lexer.skipLoop, Lexer.readId, Lexer.lift, h, OPEN, QUOTED, UNQUOTED, U32, I32, U64, I64, BOOL, F32, F64, CLOSE]

theorem skip_step_u32 (f : Nat) (d d1 d2 : Bytes) (L depth v : Nat) (h : readId d = .ok (U32, d1))
    (h2 : readU32 d1 = .ok (v, d2)) :
    Lexer.skipLoop (f + 1) ⟨d, L⟩ depth = Lexer.skipLoop f ⟨d2, L⟩ depth := by
  simp [Lexer.skipLoop, Lexer.readId, Lexer.readU32, Lexer.lift, h, h2, OPEN, QUOTED, UNQUOTED, U32, I32, U64, I64, BOOL, F32, F64, CLOSE]

theorem skip_step_u64 (f : Nat) (d d1 d2 : Bytes) (L depth v : Nat) (h : readId d = .ok (U64, d1))
    (h2 : readU64 d1 = .ok (v, d2)) :
    Lexer.skipLoop (f + 1) ⟨d, L⟩ depth = Lexer.skipLoop f ⟨d2, L⟩ depth := by
  simp [Lexer.skipLoop, Lexer.readId, Lexer.readU64, Lexer.lift, h, h2, OPEN, QUOTED, UNQUOTED, U32, I32, U64, I64, BOOL, F32, F64, CLOSE]

theorem skip_step_i32 (f : Nat) (d d1 d2 : Bytes) (L depth : Nat) (v : Int) (h : readId d = .ok (I32, d1))
    (h2 : readI32 d1 = .ok (v, d2)) :
    Lexer.skipLoop (f + 1) ⟨d, L⟩ depth = Lexer.skipLoop f ⟨d2, L⟩ depth := by
  simp [Lexer.skipLoop, Lexer.readId, Lexer.readI32, Lexer.lift, h, h2, OPEN, QUOTED, UNQUOTED, U32, I32, U64, I64, BOOL, F32, F64, CLOSE]

theorem skip_step_i64 (f : Nat) (d d1 d2 : Bytes) (L depth : Nat) (v : Int) (h : readId d = .ok (I64, d1))
    (h2 : readI64 d1 = .ok (v, d2)) :
    Lexer.skipLoop (f + 1) ⟨d, L⟩ depth = Lexer.skipLoop f ⟨d2, L⟩ depth := by
  simp [Lexer.skipLoop, Lexer.readId, Lexer.readI64, Lexer.lift, h, h2, OPEN, QUOTED, UNQUOTED, U32, I32, U64, I64, BOOL, F32, F64, CLOSE]

theorem skip_step_bool (f : Nat) (d d1 d2 : Bytes) (L depth : Nat) (v : Bool) (h : readId d = .ok (BOOL, d1))
    (h2 : readBool d1 = .ok (v, d2)) :
    Lexer.skipLoop (f + 1) ⟨d, L⟩ depth = Lexer.skipLoop f ⟨d2, L⟩ depth := by
  simp [Lexer.skipLoop, Lexer.readId, Lexer.readBool, Lexer.lift, h, h2, OPEN, QUOTED, UNQUOTED, U32, I32, U64, I64, BOOL, F32, F64, CLOSE]

theorem skip_step_f32 (f : Nat) (d d1 d2 : Bytes) (L depth : Nat) (v : Bytes) (h : readId d = .ok (F32, d1))
    (h2 : readF32 d1 = .ok (v, d2)) :
    Lexer.skipLoop (f + 1) ⟨d, L⟩ depth = Lexer.skipLoop f ⟨d2, L⟩ depth := by
  simp [Lexer.skipLoop, Lexer.readId, Lexer.readF32, Lexer.lift, h, h2, OPEN, QUOTED, UNQUOTED, U32, I32, U64, I64, BOOL, F32, F64, CLOSE]

theorem skip_step_f64 (f : Nat) (d d1 d2 : Bytes) (L depth : Nat) (v : Bytes) (h : readId d = .ok (F64, d1))
    (h2 : readF64 d1 = .ok (v, d2)) :
    Lexer.skipLoop (f + 1) ⟨d, L⟩ depth = Lexer.skipLoop f ⟨d2, L⟩ depth := by
  simp [Lexer.skipLoop, Lexer.readId, Lexer.readF64, Lexer.lift, h, h2, OPEN, QUOTED, UNQUOTED, U32, I32, U64, I64, BOOL, F32, F64, CLOSE]

theorem skip_step_str (f : Nat) (d d1 d2 : Bytes) (L depth id : Nat) (v : Bytes) (h : readId d = .ok (id, d1))
    (hid : id = QUOTED ∨ id = UNQUOTED) (h2 : readString d1 = .ok (v, d2)) :
    Lexer.skipLoop (f + 1) ⟨d, L⟩ depth = Lexer.skipLoop f ⟨d2, L⟩ depth := by
  simp [Lexer.skipLoop, Lexer.readId, Lexer.readString, Lexer.lift, h, h2, hid]

/-- what a successful `read_rgb` saw, lexeme by lexeme -/
theorem readRgb_ok_inv (d r : Bytes) (c : Rgb) (h : readRgb d = .ok (c, r)) :
    ∃ d2 d3 d4 d5 d6 d7 d8 d9 v1 v2 v3, readId d = .ok (OPEN, d2) ∧ readId d2 = .ok (U32, d3) ∧
      readU32 d3 = .ok (v1, d4) ∧ readId d4 = .ok (U32, d5) ∧ readU32 d5 = .ok (v2, d6) ∧
      readId d6 = .ok (U32, d7) ∧ readU32 d7 = .ok (v3, d8) ∧
      (readId d8 = .ok (CLOSE, r) ∨
       (∃ d10 v4, readId d8 = .ok (U32, d9) ∧ readU32 d9 = .ok (v4, d10) ∧ readId d10 = .ok (CLOSE, r))) := by
  simp only [readRgb, bind_ok_iff] at h
  obtain ⟨s, d2, h1, rt, d3, h2, v1, d4, h3, gt, d5, h4, v2, d6, h5, bt, d7, h6, v3, d8, h7, nt, d9, h8, h9⟩ := h
  by_cases hc1 : s = OPEN ∧ rt = U32 ∧ gt = U32 ∧ bt = U32 ∧ nt = CLOSE
  · rw [if_pos hc1] at h9
    simp only [P.pure, Except.ok.injEq, Prod.mk.injEq] at h9
    obtain ⟨rfl, rfl, rfl, rfl, rfl⟩ := hc1
    exact ⟨d2, d3, d4, d5, d6, d7, d8, d9, v1, v2, v3, h1, h2, h3, h4, h5, h6, h7, Or.inl (by rw [← h9.2]; exact h8)⟩
  · rw [if_neg hc1] at h9
    by_cases hc2 : s = OPEN ∧ rt = U32 ∧ gt = U32 ∧ bt = U32 ∧ nt = U32
    · rw [if_pos hc2] at h9
      simp only [bind_ok_iff] at h9
      obtain ⟨v4, d10, h10, et, d11, h11, h12⟩ := h9
      obtain ⟨rfl, rfl, rfl, rfl, rfl⟩ := hc2
      by_cases hc3 : et = CLOSE
      · rw [if_pos hc3] at h12
        simp only [P.pure, Except.ok.injEq, Prod.mk.injEq] at h12
        subst hc3
        exact ⟨d2, d3, d4, d5, d6, d7, d8, d9, v1, v2, v3, h1, h2, h3, h4, h5, h6, h7,
          Or.inr ⟨d10, v4, h8, h10, by rw [← h12.2]; exact h11⟩⟩
      · rw [if_neg hc3] at h12
        simp [P.fail] at h12
    · rw [if_neg hc2] at h9
      simp [P.fail] at h9

theorem len_ge {α : Type} {p : P α} {m : Nat} (hp : Consumes p m) {d r : Bytes} {x : α}
    (h : p d = .ok (x, r)) : r.length + m ≤ d.length := by
  obtain ⟨pre, h1, h2⟩ := hp d x r h
  rw [h1]; simp; omega

/-- **C09 (binary lexer).**  If reading tokens with `read_token` and counting opens and closes
finds the close matching the open already consumed (leaving `r`), then
`Lexer::skip_container` succeeds and leaves exactly `r`: it lands after the matching close.
Strings are skipped by their length prefix and numeric payloads by their width, so bytes that
look like `03 00` / `04 00` inside them are inert; an rgb block is walked lexeme by lexeme
and is balanced. -/
theorem skipLoop_balanced (fuel : Nat) (d : Bytes) (depth : Nat) (r : Bytes) (hd : 1 ≤ depth)
    (hb : balancedSkip fuel d depth = some (.ok r)) (f : Nat) (hf : d.length / 2 < f) (L : Nat) :
    Lexer.skipLoop f ⟨d, L⟩ depth = some (.ok (), ⟨r, L⟩) := by
  induction fuel generalizing d depth f with
  | zero => simp [balancedSkip] at hb
  | succ fuel ih =>
    cases hrt : readToken d with
    | error e => simp [balancedSkip, hrt] at hb
    | ok v =>
    obtain ⟨t, r1⟩ := v
    have hrt0 := hrt
    simp only [readToken, bind_ok_iff] at hrt0
    obtain ⟨id, d1, hid, hk⟩ := hrt0
    have l1 := len_ge readId_consumes hid
    obtain ⟨f, rfl⟩ : ∃ g, f = g + 1 := ⟨f - 1, by omega⟩
    by_cases hOPEN : id = OPEN
    · rw [if_pos hOPEN] at hk
      rw [hOPEN] at hid
      simp only [P.pure, Except.ok.injEq, Prod.mk.injEq] at hk
      obtain ⟨ht, hr⟩ := hk
      subst ht; subst hr
      simp only [balancedSkip, hrt] at hb
      rw [skip_step_open f d d1 L depth hid]
      exact ih d1 (depth + 1) (by omega) hb f (by omega)
    by_cases hCLOSE : id = CLOSE
    · simp only [hOPEN, if_false] at hk
      rw [if_pos hCLOSE] at hk
      rw [hCLOSE] at hid
      simp only [P.pure, Except.ok.injEq, Prod.mk.injEq] at hk
      obtain ⟨ht, hr⟩ := hk
      subst ht; subst hr
      simp only [balancedSkip, hrt] at hb
      rw [skip_step_close f d d1 L depth hid]
      by_cases hz : depth - 1 = 0
      · rw [if_pos hz] at hb ⊢
        simp only [Option.some.injEq, Except.ok.injEq] at hb
        rw [hb]
      · rw [if_neg hz] at hb ⊢
        exact ih d1 (depth - 1) (by omega) hb f (by omega)
    by_cases hEQUAL : id = EQUAL
    · simp only [hOPEN, hCLOSE, if_false] at hk
      rw [if_pos hEQUAL] at hk
      rw [hEQUAL] at hid
      simp only [P.pure, Except.ok.injEq, Prod.mk.injEq] at hk
      obtain ⟨ht, hr⟩ := hk
      subst ht; subst hr
      simp only [balancedSkip, hrt] at hb
      rw [skip_step_other f d d1 L depth EQUAL hid (by decide)]
      exact ih d1 depth hd hb f (by omega)
    by_cases hU32 : id = U32
    · simp only [hOPEN, hCLOSE, hEQUAL, if_false] at hk
      rw [if_pos hU32] at hk
      rw [hU32] at hid
      rw [map_ok_iff] at hk
      obtain ⟨v, hv, ht⟩ := hk
      subst ht
      simp only [balancedSkip, hrt] at hb
      have l2 := len_ge (readU32_consumes) hv
      rw [skip_step_u32 f d d1 r1 L depth v hid hv]
      exact ih r1 depth hd hb f (by omega)
    by_cases hU64 : id = U64
    · simp only [hOPEN, hCLOSE, hEQUAL, hU32, if_false] at hk
      rw [if_pos hU64] at hk
      rw [hU64] at hid
      rw [map_ok_iff] at hk
      obtain ⟨v, hv, ht⟩ := hk
      subst ht
      simp only [balancedSkip, hrt] at hb
      have l2 := len_ge (readU64_consumes) hv
      rw [skip_step_u64 f d d1 r1 L depth v hid hv]
      exact ih r1 depth hd hb f (by omega)
    by_cases hI32 : id = I32
    · simp only [hOPEN, hCLOSE, hEQUAL, hU32, hU64, if_false] at hk
      rw [if_pos hI32] at hk
      rw [hI32] at hid
      rw [map_ok_iff] at hk
      obtain ⟨v, hv, ht⟩ := hk
      subst ht
      simp only [balancedSkip, hrt] at hb
      have l2 := len_ge (readI32_consumes) hv
      rw [skip_step_i32 f d d1 r1 L depth v hid hv]
      exact ih r1 depth hd hb f (by omega)
    by_cases hBOOL : id = BOOL
    · simp only [hOPEN, hCLOSE, hEQUAL, hU32, hU64, hI32, if_false] at hk
      rw [if_pos hBOOL] at hk
      rw [hBOOL] at hid
      rw [map_ok_iff] at hk
      obtain ⟨v, hv, ht⟩ := hk
      subst ht
      simp only [balancedSkip, hrt] at hb
      have l2 := len_ge (readBool_consumes) hv
      rw [skip_step_bool f d d1 r1 L depth v hid hv]
      exact ih r1 depth hd hb f (by omega)
    by_cases hQUOTED : id = QUOTED
    · simp only [hOPEN, hCLOSE, hEQUAL, hU32, hU64, hI32, hBOOL, if_false] at hk
      rw [if_pos hQUOTED] at hk
      rw [hQUOTED] at hid
      rw [map_ok_iff] at hk
      obtain ⟨v, hv, ht⟩ := hk
      subst ht
      simp only [balancedSkip, hrt] at hb
      have l2 := len_ge readString_consumes hv
      rw [skip_step_str f d d1 r1 L depth QUOTED v hid (Or.inl rfl) hv]
      exact ih r1 depth hd hb f (by omega)
    by_cases hUNQUOTED : id = UNQUOTED
    · simp only [hOPEN, hCLOSE, hEQUAL, hU32, hU64, hI32, hBOOL, hQUOTED, if_false] at hk
      rw [if_pos hUNQUOTED] at hk
      rw [hUNQUOTED] at hid
      rw [map_ok_iff] at hk
      obtain ⟨v, hv, ht⟩ := hk
      subst ht
      simp only [balancedSkip, hrt] at hb
      have l2 := len_ge readString_consumes hv
      rw [skip_step_str f d d1 r1 L depth UNQUOTED v hid (Or.inr rfl) hv]
      exact ih r1 depth hd hb f (by omega)
    by_cases hF32 : id = F32
    · simp only [hOPEN, hCLOSE, hEQUAL, hU32, hU64, hI32, hBOOL, hQUOTED, hUNQUOTED, if_false] at hk
      rw [if_pos hF32] at hk
      rw [hF32] at hid
      rw [map_ok_iff] at hk
      obtain ⟨v, hv, ht⟩ := hk
      subst ht
      simp only [balancedSkip, hrt] at hb
      have l2 := len_ge (readF32_consumes) hv
      rw [skip_step_f32 f d d1 r1 L depth v hid hv]
      exact ih r1 depth hd hb f (by omega)
    by_cases hF64 : id = F64
    · simp only [hOPEN, hCLOSE, hEQUAL, hU32, hU64, hI32, hBOOL, hQUOTED, hUNQUOTED, hF32, if_false] at hk
      rw [if_pos hF64] at hk
      rw [hF64] at hid
      rw [map_ok_iff] at hk
      obtain ⟨v, hv, ht⟩ := hk
      subst ht
      simp only [balancedSkip, hrt] at hb
      have l2 := len_ge (readF64_consumes) hv
      rw [skip_step_f64 f d d1 r1 L depth v hid hv]
      exact ih r1 depth hd hb f (by omega)
    by_cases hRGB : id = RGB
    · simp only [hOPEN, hCLOSE, hEQUAL, hU32, hU64, hI32, hBOOL, hQUOTED, hUNQUOTED, hF32, hF64, if_false] at hk
      rw [if_pos hRGB] at hk
      rw [hRGB] at hid
      rw [map_ok_iff] at hk
      obtain ⟨c, hv, ht⟩ := hk
      subst ht
      simp only [balancedSkip, hrt] at hb
      obtain ⟨d2, d3, d4, d5, d6, d7, d8, d9, v1, v2, v3, e1, e2, e3, e4, e5, e6, e7, e8⟩ := readRgb_ok_inv d1 r1 c hv
      have m1 := len_ge readId_consumes e1
      have m2 := len_ge readId_consumes e2
      have m3 := len_ge readU32_consumes e3
      have m4 := len_ge readId_consumes e4
      have m5 := len_ge readU32_consumes e5
      have m6 := len_ge readId_consumes e6
      have m7 := len_ge readU32_consumes e7
      rcases e8 with e8 | ⟨d10, v4, e8, e9, e10⟩
      · have m8 := len_ge readId_consumes e8
        obtain ⟨g, rfl⟩ : ∃ g, f = g + 5 := ⟨f - 5, by omega⟩
        rw [skip_step_other (g + 5) d d1 L depth RGB hid (by decide)]
        rw [show g + 5 = g + 4 + 1 from rfl, skip_step_open (g + 4) d1 d2 L depth e1]
        rw [show g + 4 = g + 3 + 1 from rfl, skip_step_u32 (g + 3) d2 d3 d4 L (depth + 1) v1 e2 e3]
        rw [show g + 3 = g + 2 + 1 from rfl, skip_step_u32 (g + 2) d4 d5 d6 L (depth + 1) v2 e4 e5]
        rw [show g + 2 = g + 1 + 1 from rfl, skip_step_u32 (g + 1) d6 d7 d8 L (depth + 1) v3 e6 e7]
        rw [skip_step_close g d8 r1 L (depth + 1) e8, if_neg (by omega)]
        exact ih r1 depth hd hb g (by omega)
      · have m8 := len_ge readId_consumes e8
        have m9 := len_ge readU32_consumes e9
        have m10 := len_ge readId_consumes e10
        obtain ⟨g, rfl⟩ : ∃ g, f = g + 6 := ⟨f - 6, by omega⟩
        rw [skip_step_other (g + 6) d d1 L depth RGB hid (by decide)]
        rw [show g + 6 = g + 5 + 1 from rfl, skip_step_open (g + 5) d1 d2 L depth e1]
        rw [show g + 5 = g + 4 + 1 from rfl, skip_step_u32 (g + 4) d2 d3 d4 L (depth + 1) v1 e2 e3]
        rw [show g + 4 = g + 3 + 1 from rfl, skip_step_u32 (g + 3) d4 d5 d6 L (depth + 1) v2 e4 e5]
        rw [show g + 3 = g + 2 + 1 from rfl, skip_step_u32 (g + 2) d6 d7 d8 L (depth + 1) v3 e6 e7]
        rw [show g + 2 = g + 1 + 1 from rfl, skip_step_u32 (g + 1) d8 d9 d10 L (depth + 1) v4 e8 e9]
        rw [skip_step_close g d10 r1 L (depth + 1) e10, if_neg (by omega)]
        exact ih r1 depth hd hb g (by omega)
    by_cases hI64 : id = I64
    · simp only [hOPEN, hCLOSE, hEQUAL, hU32, hU64, hI32, hBOOL, hQUOTED, hUNQUOTED, hF32, hF64, hRGB, if_false] at hk
      rw [if_pos hI64] at hk
      rw [hI64] at hid
      rw [map_ok_iff] at hk
      obtain ⟨v, hv, ht⟩ := hk
      subst ht
      simp only [balancedSkip, hrt] at hb
      have l2 := len_ge (readI64_consumes) hv
      rw [skip_step_i64 f d d1 r1 L depth v hid hv]
      exact ih r1 depth hd hb f (by omega)
    · -- a plain token id
      simp only [hOPEN, hCLOSE, hEQUAL, hU32, hU64, hI32, hBOOL, hQUOTED, hUNQUOTED, hF32, hF64, hRGB, hI64,
        if_false, P.pure, Except.ok.injEq, Prod.mk.injEq] at hk
      obtain ⟨ht, hr⟩ := hk
      subst ht; subst hr
      simp only [balancedSkip, hrt] at hb
      rw [skip_step_other f d d1 L depth id hid ⟨hQUOTED, hUNQUOTED, hU32, hI32, hU64, hI64, hBOOL, hF32, hF64, hCLOSE, hOPEN⟩]
      exact ih d1 depth hd hb f (by omega)

/-- `skip_value(OPEN)` / `skip_container` from a lexer positioned just after an `Open` -/
theorem C09_bin_lexer_skip (l : Lexer) (r : Bytes)
    (hb : balancedSkip (l.data.length / 2 + 1) l.data 1 = some (.ok r)) :
    l.skipValue OPEN = some (.ok (), { l with data := r }) ∧
    l.skipContainer = some (.ok (), { l with data := r }) := by
  have h := skipLoop_balanced _ l.data 1 r (Nat.le_refl _) hb (l.data.length / 2 + 1) (by omega) l.originalLength
  have h2 : l.skipContainer = some (.ok (), { l with data := r }) := by
    unfold Lexer.skipContainer
    exact h
  refine ⟨?_, h2⟩
  simp only [Lexer.skipValue, OPEN, QUOTED, UNQUOTED, U32, I32, U64, I64, BOOL, F32, F64, Nat.reduceEqDiff,
    if_false, if_true, or_self]
  exact h2

/-
NOT YET PROVED (covered by the correspondence op `bskip` and the L3 oracle
`skip-lands-elsewhere` / `skip-next-token` only):

theorem C09_bin_reader_skip (buffer data : Bytes) (sched : List Step) (rd : Reader) (r : Bytes)
    (h : RInv rd data) (hfit : Fits rd.buf.cap (rd.remaining data)) (hnf : Src.NoFaults rd.src.sched)
    (hb : balancedSkip ((rd.remaining data).length / 2 + 1) (rd.remaining data) 1 = some (.ok r)) :
    (rd.skipContainer).1 = .ok () ∧ (rd.skipContainer).2.remaining data = r ∧ RInv (rd.skipContainer).2 data

i.e. the streamed `TokenReader::skip_container` lands exactly where the lexer's does, for every
fault-free schedule and every buffer that fits.  The ingredients are in place (`fillBuf_cases`,
`advance_refines`, the `Stable`/`Local`/`Consumes` families, `skipLoop_balanced`); what is
missing is the lemma that the inner `while let Ok(..) = read_id(window)` scan (`skipScan`)
consumes exactly the complete lexemes of the window.
-/

example : balancedSkip 9 [0x0f, 0, 2, 0, 0x04, 0, 0x04, 0, 0xff, 0xff] 1 = some (.ok [0xff, 0xff]) := by rfl

end Jomini.BinLexer
