import JominiModel.Spec.BinSkip
import JominiModel.Proofs.BinLexer
import JominiModel.Proofs.BinReader
/-
C09 (binary lexer): `Lexer::skip_container` (which walks lexeme by lexeme and never looks
inside payloads) lands exactly where counting opens and closes over `read_token`'s tokens
lands.
-/
namespace Jomini.BinLexer
open Jomini

theorem bind_ok_iff {α β : Type} (p : P α) (k : α → P β) (d : Bytes) (x : β) (r : Bytes) :
    P.bind p k d = .ok (x, r) ↔ ∃ y d1, p d = .ok (y, d1) ∧ k y d1 = .ok (x, r) := by
  unfold P.bind
  split
  · simp_all
  · rename_i y d1 h
    simp only [h, Except.ok.injEq, Prod.mk.injEq]
    constructor
    · intro hk; exact ⟨y, d1, ⟨rfl, rfl⟩, hk⟩
    · rintro ⟨_, _, ⟨rfl, rfl⟩, hk⟩; exact hk

theorem map_ok_iff {α β : Type} (f : α → β) (p : P α) (d : Bytes) (x : β) (r : Bytes) :
    P.map f p d = .ok (x, r) ↔ ∃ y, p d = .ok (y, r) ∧ f y = x := by
  unfold P.map
  split
  · simp_all
  · rename_i y d1 h
    simp only [Except.ok.injEq, Prod.mk.injEq, h]
    constructor
    · rintro ⟨a, b⟩; exact ⟨y, ⟨rfl, b⟩, a⟩
    · rintro ⟨y', ⟨a, b⟩, c⟩; exact ⟨by rw [a]; exact c, b⟩

/-- one iteration of `skip_container`'s loop, by what the iteration sees -/
theorem skip_step_other (f : Nat) (d d1 : Bytes) (L depth id : Nat) (h : readId d = .ok (id, d1))
    (hid : id ≠ QUOTED ∧ id ≠ UNQUOTED ∧ id ≠ U32 ∧ id ≠ I32 ∧ id ≠ U64 ∧ id ≠ I64 ∧ id ≠ BOOL ∧
      id ≠ F32 ∧ id ≠ F64 ∧ id ≠ CLOSE ∧ id ≠ OPEN) :
    Lexer.skipLoop (f + 1) ⟨d, L⟩ depth = Lexer.skipLoop f ⟨d1, L⟩ depth := by
  obtain ⟨h1, h2, h3, h4, h5, h6, h7, h8, h9, h10, h11⟩ := hid
  simp [Lexer.skipLoop, Lexer.readId, Lexer.lift, h, h1, h2, h3, h4, h5, h6, h7, h8, h9, h10, h11]

theorem skip_step_open (f : Nat) (d d1 : Bytes) (L depth : Nat) (h : readId d = .ok (OPEN, d1)) :
    Lexer.skipLoop (f + 1) ⟨d, L⟩ depth = Lexer.skipLoop f ⟨d1, L⟩ (depth + 1) := by
  simp [Lexer.skipLoop, Lexer.readId, Lexer.lift, h, OPEN, QUOTED, UNQUOTED, U32, I32, U64, I64, BOOL, F32, F64, CLOSE]

theorem skip_step_close (f : Nat) (d d1 : Bytes) (L depth : Nat) (h : readId d = .ok (CLOSE, d1)) :
    Lexer.skipLoop (f + 1) ⟨d, L⟩ depth =
      if depth - 1 = 0 then some (.ok (), ⟨d1, L⟩) else Lexer.skipLoop f ⟨d1, L⟩ (depth - 1) := by
  simp [Lexer.skipLoop, Lexer.readId, Lexer.lift, h, OPEN, QUOTED, UNQUOTED, U32, I32, U64, I64, BOOL, F32, F64, CLOSE]

theorem skip_step_u32 (f : Nat) (d d1 d2 : Bytes) (L depth v : Nat) (h : readId d = .ok (U32, d1))
    (h2 : readU32 d1 = .ok (v, d2)) :
    Lexer.skipLoop (f + 1) ⟨d, L⟩ depth = Lexer.skipLoop f ⟨d2, L⟩ depth := by
  simp [Lexer.skipLoop, Lexer.readId, Lexer.readU32, Lexer.lift, h, h2, OPEN, QUOTED, UNQUOTED, U32, I32, U64, I64, BOOL, F32, F64, CLOSE]

theorem skip_step_u64 (f : Nat) (d d1 d2 : Bytes) (L depth v : Nat) (h : readId d = .ok (U64, d1))
    (h2 : readU64 d1 = .ok (v, d2)) :
    Lexer.skipLoop (f + 1) ⟨d, L⟩ depth = Lexer.skipLoop f ⟨d2, L⟩ depth := by
  simp [Lexer.skipLoop, Lexer.readId, Lexer.readU64, Lexer.lift, h, h2, OPEN, QUOTED, UNQUOTED, U32, I32, U64, I64, BOOL, F32, F64, CLOSE]

theorem skip_step_i32 (f : Nat) (d d1 d2 : Bytes) (L depth : Nat) (v : Int) (h : readId d = .ok (I32, d1))
    (h2 : readI32 d1 = .ok (v, d2)) :
    Lexer.skipLoop (f + 1) ⟨d, L⟩ depth = Lexer.skipLoop f ⟨d2, L⟩ depth := by
  simp [Lexer.skipLoop, Lexer.readId, Lexer.readI32, Lexer.lift, h, h2, OPEN, QUOTED, UNQUOTED, U32, I32, U64, I64, BOOL, F32, F64, CLOSE]

theorem skip_step_i64 (f : Nat) (d d1 d2 : Bytes) (L depth : Nat) (v : Int) (h : readId d = .ok (I64, d1))
    (h2 : readI64 d1 = .ok (v, d2)) :
    Lexer.skipLoop (f + 1) ⟨d, L⟩ depth = Lexer.skipLoop f ⟨d2, L⟩ depth := by
  simp [Lexer.skipLoop, Lexer.readId, Lexer.readI64, Lexer.lift, h, h2, OPEN, QUOTED, UNQUOTED, U32, I32, U64, I64, BOOL, F32, F64, CLOSE]

theorem skip_step_bool (f : Nat) (d d1 d2 : Bytes) (L depth : Nat) (v : Bool) (h : readId d = .ok (BOOL, d1))
    (h2 : readBool d1 = .ok (v, d2)) :
    Lexer.skipLoop (f + 1) ⟨d, L⟩ depth = Lexer.skipLoop f ⟨d2, L⟩ depth := by
  simp [Lexer.skipLoop, Lexer.readId, Lexer.readBool, Lexer.lift, h, h2, OPEN, QUOTED, UNQUOTED, U32, I32, U64, I64, BOOL, F32, F64, CLOSE]

theorem skip_step_f32 (f : Nat) (d d1 d2 : Bytes) (L depth : Nat) (v : Bytes) (h : readId d = .ok (F32, d1))
    (h2 : readF32 d1 = .ok (v, d2)) :
    Lexer.skipLoop (f + 1) ⟨d, L⟩ depth = Lexer.skipLoop f ⟨d2, L⟩ depth := by
  simp [Lexer.skipLoop, Lexer.readId, Lexer.readF32, Lexer.lift, h, h2, OPEN, QUOTED, UNQUOTED, U32, I32, U64, I64, BOOL, F32, F64, CLOSE]

theorem skip_step_f64 (f : Nat) (d d1 d2 : Bytes) (L depth : Nat) (v : Bytes) (h : readId d = .ok (F64, d1))
    (h2 : readF64 d1 = .ok (v, d2)) :
    Lexer.skipLoop (f + 1) ⟨d, L⟩ depth = Lexer.skipLoop f ⟨d2, L⟩ depth := by
  simp [Lexer.skipLoop, Lexer.readId, Lexer.readF64, Lexer.lift, h, h2, OPEN, QUOTED, UNQUOTED, U32, I32, U64, I64, BOOL, F32, F64, CLOSE]

theorem skip_step_str (f : Nat) (d d1 d2 : Bytes) (L depth id : Nat) (v : Bytes) (h : readId d = .ok (id, d1))
    (hid : id = QUOTED ∨ id = UNQUOTED) (h2 : readString d1 = .ok (v, d2)) :
    Lexer.skipLoop (f + 1) ⟨d, L⟩ depth = Lexer.skipLoop f ⟨d2, L⟩ depth := by
  simp [Lexer.skipLoop, Lexer.readId, Lexer.readString, Lexer.lift, h, h2, hid]

/-- what a successful `read_rgb` saw, lexeme by lexeme -/
theorem readRgb_ok_inv (d r : Bytes) (c : Rgb) (h : readRgb d = .ok (c, r)) :
    ∃ d2 d3 d4 d5 d6 d7 d8 d9 v1 v2 v3, readId d = .ok (OPEN, d2) ∧ readId d2 = .ok (U32, d3) ∧
      readU32 d3 = .ok (v1, d4) ∧ readId d4 = .ok (U32, d5) ∧ readU32 d5 = .ok (v2, d6) ∧
      readId d6 = .ok (U32, d7) ∧ readU32 d7 = .ok (v3, d8) ∧
      (readId d8 = .ok (CLOSE, r) ∨
       (∃ d10 v4, readId d8 = .ok (U32, d9) ∧ readU32 d9 = .ok (v4, d10) ∧ readId d10 = .ok (CLOSE, r))) := by
  simp only [readRgb, bind_ok_iff] at h
  obtain ⟨s, d2, h1, rt, d3, h2, v1, d4, h3, gt, d5, h4, v2, d6, h5, bt, d7, h6, v3, d8, h7, nt, d9, h8, h9⟩ := h
  by_cases hc1 : s = OPEN ∧ rt = U32 ∧ gt = U32 ∧ bt = U32 ∧ nt = CLOSE
  · rw [if_pos hc1] at h9
    simp only [P.pure, Except.ok.injEq, Prod.mk.injEq] at h9
    obtain ⟨rfl, rfl, rfl, rfl, rfl⟩ := hc1
    exact ⟨d2, d3, d4, d5, d6, d7, d8, d9, v1, v2, v3, h1, h2, h3, h4, h5, h6, h7, Or.inl (by rw [← h9.2]; exact h8)⟩
  · rw [if_neg hc1] at h9
    by_cases hc2 : s = OPEN ∧ rt = U32 ∧ gt = U32 ∧ bt = U32 ∧ nt = U32
    · rw [if_pos hc2] at h9
      simp only [bind_ok_iff] at h9
      obtain ⟨v4, d10, h10, et, d11, h11, h12⟩ := h9
      obtain ⟨rfl, rfl, rfl, rfl, rfl⟩ := hc2
      by_cases hc3 : et = CLOSE
      · rw [if_pos hc3] at h12
        simp only [P.pure, Except.ok.injEq, Prod.mk.injEq] at h12
        subst hc3
        exact ⟨d2, d3, d4, d5, d6, d7, d8, d9, v1, v2, v3, h1, h2, h3, h4, h5, h6, h7,
          Or.inr ⟨d10, v4, h8, h10, by rw [← h12.2]; exact h11⟩⟩
      · rw [if_neg hc3] at h12
        simp [P.fail] at h12
    · rw [if_neg hc2] at h9
      simp [P.fail] at h9

theorem len_ge {α : Type} {p : P α} {m : Nat} (hp : Consumes p m) {d r : Bytes} {x : α}
    (h : p d = .ok (x, r)) : r.length + m ≤ d.length := by
  obtain ⟨pre, h1, h2⟩ := hp d x r h
  rw [h1]; simp; omega

/-- **C09 (binary lexer).**  If reading tokens with `read_token` and counting opens and closes
finds the close matching the open already consumed (leaving `r`), then
`Lexer::skip_container` succeeds and leaves exactly `r`: it lands after the matching close.
Strings are skipped by their length prefix and numeric payloads by their width, so bytes that
look like `03 00` / `04 00` inside them are inert; an rgb block is walked lexeme by lexeme
and is balanced. -/
theorem skipLoop_balanced (fuel : Nat) (d : Bytes) (depth : Nat) (r : Bytes) (hd : 1 ≤ depth)
    (hb : balancedSkip fuel d depth = some (.ok r)) (f : Nat) (hf : d.length / 2 < f) (L : Nat) :
    Lexer.skipLoop f ⟨d, L⟩ depth = some (.ok (), ⟨r, L⟩) := by
  induction fuel generalizing d depth f with
  | zero => simp [balancedSkip] at hb
  | succ fuel ih =>
    cases hrt : readToken d with
    | error e => simp [balancedSkip, hrt] at hb
    | ok v =>
    obtain ⟨t, r1⟩ := v
    have hrt0 := hrt
    simp only [readToken, bind_ok_iff] at hrt0
    obtain ⟨id, d1, hid, hk⟩ := hrt0
    have l1 := len_ge readId_consumes hid
    obtain ⟨f, rfl⟩ : ∃ g, f = g + 1 := ⟨f - 1, by omega⟩
    by_cases hOPEN : id = OPEN
    · rw [if_pos hOPEN] at hk
      rw [hOPEN] at hid
      simp only [P.pure, Except.ok.injEq, Prod.mk.injEq] at hk
      obtain ⟨ht, hr⟩ := hk
      subst ht; subst hr
      simp only [balancedSkip, hrt] at hb
      rw [skip_step_open f d d1 L depth hid]
      exact ih d1 (depth + 1) (by omega) hb f (by omega)
    by_cases hCLOSE : id = CLOSE
    · simp only [hOPEN, if_false] at hk
      rw [if_pos hCLOSE] at hk
      rw [hCLOSE] at hid
      simp only [P.pure, Except.ok.injEq, Prod.mk.injEq] at hk
      obtain ⟨ht, hr⟩ := hk
      subst ht; subst hr
      simp only [balancedSkip, hrt] at hb
      rw [skip_step_close f d d1 L depth hid]
      by_cases hz : depth - 1 = 0
      · rw [if_pos hz] at hb ⊢
        simp only [Option.some.injEq, Except.ok.injEq] at hb
        rw [hb]
      · rw [if_neg hz] at hb ⊢
        exact ih d1 (depth - 1) (by omega) hb f (by omega)
    by_cases hEQUAL : id = EQUAL
    · simp only [hOPEN, hCLOSE, if_false] at hk
      rw [if_pos hEQUAL] at hk
      rw [hEQUAL] at hid
      simp only [P.pure, Except.ok.injEq, Prod.mk.injEq] at hk
      obtain ⟨ht, hr⟩ := hk
      subst ht; subst hr
      simp only [balancedSkip, hrt] at hb
      rw [skip_step_other f d d1 L depth EQUAL hid (by decide)]
      exact ih d1 depth hd hb f (by omega)
    by_cases hU32 : id = U32
    · simp only [hOPEN, hCLOSE, hEQUAL, if_false] at hk
      rw [if_pos hU32] at hk
      rw [hU32] at hid
      rw [map_ok_iff] at hk
      obtain ⟨v, hv, ht⟩ := hk
      subst ht
      simp only [balancedSkip, hrt] at hb
      have l2 := len_ge (readU32_consumes) hv
      rw [skip_step_u32 f d d1 r1 L depth v hid hv]
      exact ih r1 depth hd hb f (by omega)
    by_cases hU64 : id = U64
    · simp only [hOPEN, hCLOSE, hEQUAL, hU32, if_false] at hk
      rw [if_pos hU64] at hk
      rw [hU64] at hid
      rw [map_ok_iff] at hk
      obtain ⟨v, hv, ht⟩ := hk
      subst ht
      simp only [balancedSkip, hrt] at hb
      have l2 := len_ge (readU64_consumes) hv
      rw [skip_step_u64 f d d1 r1 L depth v hid hv]
      exact ih r1 depth hd hb f (by omega)
    by_cases hI32 : id = I32
    · simp only [hOPEN, hCLOSE, hEQUAL, hU32, hU64, if_false] at hk
      rw [if_pos hI32] at hk
      rw [hI32] at hid
      rw [map_ok_iff] at hk
      obtain ⟨v, hv, ht⟩ := hk
      subst ht
      simp only [balancedSkip, hrt] at hb
      have l2 := len_ge (readI32_consumes) hv
      rw [skip_step_i32 f d d1 r1 L depth v hid hv]
      exact ih r1 depth hd hb f (by omega)
    by_cases hBOOL : id = BOOL
    · simp only [hOPEN, hCLOSE, hEQUAL, hU32, hU64, hI32, if_false] at hk
      rw [if_pos hBOOL] at hk
      rw [hBOOL] at hid
      rw [map_ok_iff] at hk
      obtain ⟨v, hv, ht⟩ := hk
      subst ht
      simp only [balancedSkip, hrt] at hb
      have l2 := len_ge (readBool_consumes) hv
      rw [skip_step_bool f d d1 r1 L depth v hid hv]
      exact ih r1 depth hd hb f (by omega)
    by_cases hQUOTED : id = QUOTED
    · simp only [hOPEN, hCLOSE, hEQUAL, hU32, hU64, hI32, hBOOL, if_false] at hk
      rw [if_pos hQUOTED] at hk
      rw [hQUOTED] at hid
      rw [map_ok_iff] at hk
      obtain ⟨v, hv, ht⟩ := hk
      subst ht
      simp only [balancedSkip, hrt] at hb
      have l2 := len_ge readString_consumes hv
      rw [skip_step_str f d d1 r1 L depth QUOTED v hid (Or.inl rfl) hv]
      exact ih r1 depth hd hb f (by omega)
    by_cases hUNQUOTED : id = UNQUOTED
    · simp only [hOPEN, hCLOSE, hEQUAL, hU32, hU64, hI32, hBOOL, hQUOTED, if_false] at hk
      rw [if_pos hUNQUOTED] at hk
      rw [hUNQUOTED] at hid
      rw [map_ok_iff] at hk
      obtain ⟨v, hv, ht⟩ := hk
      subst ht
      simp only [balancedSkip, hrt] at hb
      have l2 := len_ge readString_consumes hv
      rw [skip_step_str f d d1 r1 L depth UNQUOTED v hid (Or.inr rfl) hv]
      exact ih r1 depth hd hb f (by omega)
    by_cases hF32 : id = F32
    · simp only [hOPEN, hCLOSE, hEQUAL, hU32, hU64, hI32, hBOOL, hQUOTED, hUNQUOTED, if_false] at hk
      rw [if_pos hF32] at hk
      rw [hF32] at hid
      rw [map_ok_iff] at hk
      obtain ⟨v, hv, ht⟩ := hk
      subst ht
      simp only [balancedSkip, hrt] at hb
      have l2 := len_ge (readF32_consumes) hv
      rw [skip_step_f32 f d d1 r1 L depth v hid hv]
      exact ih r1 depth hd hb f (by omega)
    by_cases hF64 : id = F64
    · simp only [hOPEN, hCLOSE, hEQUAL, hU32, hU64, hI32, hBOOL, hQUOTED, hUNQUOTED, hF32, if_false] at hk
      rw [if_pos hF64] at hk
      rw [hF64] at hid
      rw [map_ok_iff] at hk
      obtain ⟨v, hv, ht⟩ := hk
      subst ht
      simp only [balancedSkip, hrt] at hb
      have l2 := len_ge (readF64_consumes) hv
      rw [skip_step_f64 f d d1 r1 L depth v hid hv]
      exact ih r1 depth hd hb f (by omega)
    by_cases hRGB : id = RGB
    · simp only [hOPEN, hCLOSE, hEQUAL, hU32, hU64, hI32, hBOOL, hQUOTED, hUNQUOTED, hF32, hF64, if_false] at hk
      rw [if_pos hRGB] at hk
      rw [hRGB] at hid
      rw [map_ok_iff] at hk
      obtain ⟨c, hv, ht⟩ := hk
      subst ht
      simp only [balancedSkip, hrt] at hb
      obtain ⟨d2, d3, d4, d5, d6, d7, d8, d9, v1, v2, v3, e1, e2, e3, e4, e5, e6, e7, e8⟩ := readRgb_ok_inv d1 r1 c hv
      have m1 := len_ge readId_consumes e1
      have m2 := len_ge readId_consumes e2
      have m3 := len_ge readU32_consumes e3
      have m4 := len_ge readId_consumes e4
      have m5 := len_ge readU32_consumes e5
      have m6 := len_ge readId_consumes e6
      have m7 := len_ge readU32_consumes e7
      rcases e8 with e8 | ⟨d10, v4, e8, e9, e10⟩
      · have m8 := len_ge readId_consumes e8
        obtain ⟨g, rfl⟩ : ∃ g, f = g + 5 := ⟨f - 5, by omega⟩
        rw [skip_step_other (g + 5) d d1 L depth RGB hid (by decide)]
        rw [show g + 5 = g + 4 + 1 from rfl, skip_step_open (g + 4) d1 d2 L depth e1]
        rw [show g + 4 = g + 3 + 1 from rfl, skip_step_u32 (g + 3) d2 d3 d4 L (depth + 1) v1 e2 e3]
        rw [show g + 3 = g + 2 + 1 from rfl, skip_step_u32 (g + 2) d4 d5 d6 L (depth + 1) v2 e4 e5]
        rw [show g + 2 = g + 1 + 1 from rfl, skip_step_u32 (g + 1) d6 d7 d8 L (depth + 1) v3 e6 e7]
        rw [skip_step_close g d8 r1 L (depth + 1) e8, if_neg (by omega)]
        exact ih r1 depth hd hb g (by omega)
      · have m8 := len_ge readId_consumes e8
        have m9 := len_ge readU32_consumes e9
        have m10 := len_ge readId_consumes e10
        obtain ⟨g, rfl⟩ : ∃ g, f = g + 6 := ⟨f - 6, by omega⟩
        rw [skip_step_other (g + 6) d d1 L depth RGB hid (by decide)]
        rw [show g + 6 = g + 5 + 1 from rfl, skip_step_open (g + 5) d1 d2 L depth e1]
        rw [show g + 5 = g + 4 + 1 from rfl, skip_step_u32 (g + 4) d2 d3 d4 L (depth + 1) v1 e2 e3]
        rw [show g + 4 = g + 3 + 1 from rfl, skip_step_u32 (g + 3) d4 d5 d6 L (depth + 1) v2 e4 e5]
        rw [show g + 3 = g + 2 + 1 from rfl, skip_step_u32 (g + 2) d6 d7 d8 L (depth + 1) v3 e6 e7]
        rw [show g + 2 = g + 1 + 1 from rfl, skip_step_u32 (g + 1) d8 d9 d10 L (depth + 1) v4 e8 e9]
        rw [skip_step_close g d10 r1 L (depth + 1) e10, if_neg (by omega)]
        exact ih r1 depth hd hb g (by omega)
    by_cases hI64 : id = I64
    · simp only [hOPEN, hCLOSE, hEQUAL, hU32, hU64, hI32, hBOOL, hQUOTED, hUNQUOTED, hF32, hF64, hRGB, if_false] at hk
      rw [if_pos hI64] at hk
      rw [hI64] at hid
      rw [map_ok_iff] at hk
      obtain ⟨v, hv, ht⟩ := hk
      subst ht
      simp only [balancedSkip, hrt] at hb
      have l2 := len_ge (readI64_consumes) hv
      rw [skip_step_i64 f d d1 r1 L depth v hid hv]
      exact ih r1 depth hd hb f (by omega)
    · -- a plain token id
      simp only [hOPEN, hCLOSE, hEQUAL, hU32, hU64, hI32, hBOOL, hQUOTED, hUNQUOTED, hF32, hF64, hRGB, hI64,
        if_false, P.pure, Except.ok.injEq, Prod.mk.injEq] at hk
      obtain ⟨ht, hr⟩ := hk
      subst ht; subst hr
      simp only [balancedSkip, hrt] at hb
      rw [skip_step_other f d d1 L depth id hid ⟨hQUOTED, hUNQUOTED, hU32, hI32, hU64, hI64, hBOOL, hF32, hF64, hCLOSE, hOPEN⟩]
      exact ih d1 depth hd hb f (by omega)

/-- `skip_value(OPEN)` / `skip_container` from a lexer positioned just after an `Open` -/
theorem C09_bin_lexer_skip (l : Lexer) (r : Bytes)
    (hb : balancedSkip (l.data.length / 2 + 1) l.data 1 = some (.ok r)) :
    l.skipValue OPEN = some (.ok (), { l with data := r }) ∧
    l.skipContainer = some (.ok (), { l with data := r }) := by
  have h := skipLoop_balanced _ l.data 1 r (Nat.le_refl _) hb (l.data.length / 2 + 1) (by omega) l.originalLength
  have h2 : l.skipContainer = some (.ok (), { l with data := r }) := by
    unfold Lexer.skipContainer
    exact h
  refine ⟨?_, h2⟩
  simp only [Lexer.skipValue, OPEN, QUOTED, UNQUOTED, U32, I32, U64, I64, BOOL, F32, F64, Nat.reduceEqDiff,
    if_false, if_true, or_self]
  exact h2

example : balancedSkip 9 [0x0f, 0, 2, 0, 0x04, 0, 0x04, 0, 0xff, 0xff] 1 = some (.ok [0xff, 0xff]) := by rfl

end Jomini.BinLexer

namespace Jomini.BinReader
open Jomini Jomini.BinLexer

/-- the payload part of `lexeme`: what follows the payload of lexeme `id` in `data` -/
def payloadRest (id : Nat) (data : Bytes) : Option Bytes :=
  if id = CLOSE then some data
  else if id = OPEN then some data
  else if id = BOOL then (if 1 ≤ data.length then some (data.drop 1) else none)
  else if id = F32 ∨ id = U32 ∨ id = I32 then (if 4 ≤ data.length then some (data.drop 4) else none)
  else if id = F64 ∨ id = I64 ∨ id = U64 then (if 8 ≤ data.length then some (data.drop 8) else none)
  else if id = QUOTED ∨ id = UNQUOTED then
    match readString data with
    | .ok (_, d) => some d
    | .error _ => none
  else some data

theorem lexeme_eq (w : Bytes) :
    lexeme w = match readId w with
      | .error _ => none
      | .ok (id, data) => (payloadRest id data).map (fun r => (id, r)) := by
  unfold lexeme payloadRest
  cases readId w with
  | error e => rfl
  | ok v =>
    obtain ⟨id, data⟩ := v
    simp only
    repeat' split
    all_goals simp_all

theorem lexeme_some {w r : Bytes} {id : Nat} (h : lexeme w = some (id, r)) :
    ∃ data, readId w = .ok (id, data) ∧ payloadRest id data = some r := by
  rw [lexeme_eq] at h
  cases hid : readId w with
  | error e => simp [hid] at h
  | ok v =>
    obtain ⟨id', data⟩ := v
    rw [hid] at h
    simp only [Option.map_eq_some_iff, Prod.mk.injEq] at h
    obtain ⟨a, ha, rfl, rfl⟩ := h
    exact ⟨data, rfl, ha⟩

theorem lexeme_of {w r data : Bytes} {id : Nat} (h1 : readId w = .ok (id, data))
    (h2 : payloadRest id data = some r) : lexeme w = some (id, r) := by
  rw [lexeme_eq, h1]
  simp [h2]

theorem payloadRest_stable {id : Nat} {data r s : Bytes} (h : payloadRest id data = some r) :
    payloadRest id (data ++ s) = some (r ++ s) := by
  unfold payloadRest at *
  have hlen : (data ++ s).length = data.length + s.length := by simp
  by_cases h1 : id = CLOSE
  · rw [if_pos h1] at h ⊢
    simp only [Option.some.injEq] at h; rw [h]
  rw [if_neg h1] at h ⊢
  by_cases h2 : id = OPEN
  · rw [if_pos h2] at h ⊢
    simp only [Option.some.injEq] at h; rw [h]
  rw [if_neg h2] at h ⊢
  by_cases h3 : id = BOOL
  · rw [if_pos h3] at h ⊢
    by_cases hl : 1 ≤ data.length
    · rw [if_pos hl] at h
      rw [if_pos (by omega)]
      simp only [Option.some.injEq] at h
      rw [List.drop_append_of_le_length hl, h]
    · rw [if_neg hl] at h; simp at h
  rw [if_neg h3] at h ⊢
  by_cases h4 : id = F32 ∨ id = U32 ∨ id = I32
  · rw [if_pos h4] at h ⊢
    by_cases hl : 4 ≤ data.length
    · rw [if_pos hl] at h
      rw [if_pos (by omega)]
      simp only [Option.some.injEq] at h
      rw [List.drop_append_of_le_length hl, h]
    · rw [if_neg hl] at h; simp at h
  rw [if_neg h4] at h ⊢
  by_cases h5 : id = F64 ∨ id = I64 ∨ id = U64
  · rw [if_pos h5] at h ⊢
    by_cases hl : 8 ≤ data.length
    · rw [if_pos hl] at h
      rw [if_pos (by omega)]
      simp only [Option.some.injEq] at h
      rw [List.drop_append_of_le_length hl, h]
    · rw [if_neg hl] at h; simp at h
  rw [if_neg h5] at h ⊢
  by_cases h6 : id = QUOTED ∨ id = UNQUOTED
  · rw [if_pos h6] at h ⊢
    cases hs : readString data with
    | error e => rw [hs] at h; simp at h
    | ok v =>
      obtain ⟨x, d⟩ := v
      rw [hs] at h
      rw [readString_stable.ok data s x d hs]
      simp only [Option.some.injEq] at h ⊢
      rw [h]
  rw [if_neg h6] at h ⊢
  simp only [Option.some.injEq] at h; rw [h]

theorem payloadRest_suffix {id : Nat} {data r : Bytes} (h : payloadRest id data = some r) :
    ∃ pre, data = pre ++ r := by
  unfold payloadRest at h
  have key : ∀ n, data.drop n = r → ∃ pre, data = pre ++ r := fun n hr =>
    ⟨data.take n, by rw [← hr, List.take_append_drop]⟩
  by_cases h1 : id = CLOSE
  · rw [if_pos h1] at h
    exact key 0 (by simpa using h)
  rw [if_neg h1] at h
  by_cases h2 : id = OPEN
  · rw [if_pos h2] at h
    exact key 0 (by simpa using h)
  rw [if_neg h2] at h
  by_cases h3 : id = BOOL
  · rw [if_pos h3] at h
    by_cases hl : 1 ≤ data.length
    · rw [if_pos hl] at h
      exact key 1 (by simpa using h)
    · rw [if_neg hl] at h; simp at h
  rw [if_neg h3] at h
  by_cases h4 : id = F32 ∨ id = U32 ∨ id = I32
  · rw [if_pos h4] at h
    by_cases hl : 4 ≤ data.length
    · rw [if_pos hl] at h
      exact key 4 (by simpa using h)
    · rw [if_neg hl] at h; simp at h
  rw [if_neg h4] at h
  by_cases h5 : id = F64 ∨ id = I64 ∨ id = U64
  · rw [if_pos h5] at h
    by_cases hl : 8 ≤ data.length
    · rw [if_pos hl] at h
      exact key 8 (by simpa using h)
    · rw [if_neg hl] at h; simp at h
  rw [if_neg h5] at h
  by_cases h6 : id = QUOTED ∨ id = UNQUOTED
  · rw [if_pos h6] at h
    cases hs : readString data with
    | error e => rw [hs] at h; simp at h
    | ok v =>
      obtain ⟨x, d⟩ := v
      rw [hs] at h
      simp only [Option.some.injEq] at h
      obtain ⟨pre, hp, _⟩ := readString_consumes data x d hs
      exact ⟨pre, by rw [hp, h]⟩
  rw [if_neg h6] at h
  exact key 0 (by simpa using h)

theorem lexeme_stable {w s r : Bytes} {id : Nat} (h : lexeme w = some (id, r)) :
    lexeme (w ++ s) = some (id, r ++ s) := by
  obtain ⟨data, h1, h2⟩ := lexeme_some h
  exact lexeme_of (readId_stable.ok w s id data h1) (payloadRest_stable h2)

theorem lexeme_consumes {w r : Bytes} {id : Nat} (h : lexeme w = some (id, r)) :
    ∃ pre, w = pre ++ r ∧ 2 ≤ pre.length := by
  obtain ⟨data, h1, h2⟩ := lexeme_some h
  obtain ⟨pre, hpre, hlen⟩ := readId_consumes w id data h1
  obtain ⟨pre2, hp2⟩ := payloadRest_suffix h2
  exact ⟨pre ++ pre2, by rw [hpre, hp2, List.append_assoc], by simp; omega⟩

theorem scan_step (sf : Nat) (rd : Reader) (depth : Nat) :
    Reader.skipScan (sf + 1) rd depth =
      match lexeme rd.buf.window with
      | none => .refill rd depth
      | some (id, rest) =>
        match rd.advanceTo rest with
        | none => .ub rd
        | some rd' =>
          if id = CLOSE ∧ depth - 1 = 0 then .returned rd' else Reader.skipScan sf rd' (depthAfter id depth) := by
  rw [Reader.skipScan]
  unfold lexeme
  cases hid : readId rd.buf.window with
  | error e => rfl
  | ok v =>
    obtain ⟨id, data⟩ := v
    simp only
    by_cases h1 : id = CLOSE
    · subst h1
      simp only [if_true, depthAfter, true_and]
      cases h : rd.advanceTo data <;> simp only [h]
    · by_cases h2 : id = OPEN
      · subst h2
        simp only [h1, if_false, if_true, depthAfter, false_and]
        cases h : rd.advanceTo data <;> simp only [h]
      · by_cases h3 : id = BOOL
        · subst h3
          simp only [h1, h2, if_false, if_true, depthAfter, false_and]
          by_cases hl : 1 ≤ data.length
          · simp only [hl, if_true]
            cases h : rd.advanceTo (data.drop 1) <;> simp only [h, h1, h2, false_and, if_false]
          · simp only [hl, if_false]
        · by_cases h4 : id = F32 ∨ id = U32 ∨ id = I32
          · simp only [h1, h2, h3, h4, if_false, if_true, depthAfter, false_and]
            by_cases hl : 4 ≤ data.length
            · simp only [hl, if_true]
              cases h : rd.advanceTo (data.drop 4) <;> simp only [h, h1, h2, false_and, if_false]
            · simp only [hl, if_false]
          · by_cases h5 : id = F64 ∨ id = I64 ∨ id = U64
            · simp only [h1, h2, h3, h4, h5, if_false, if_true, depthAfter, false_and]
              by_cases hl : 8 ≤ data.length
              · simp only [hl, if_true]
                cases h : rd.advanceTo (data.drop 8) <;> simp only [h, h1, h2, false_and, if_false]
              · simp only [hl, if_false]
            · by_cases h6 : id = QUOTED ∨ id = UNQUOTED
              · simp only [h1, h2, h3, h4, h5, h6, if_false, if_true, depthAfter, false_and]
                cases readString data with
                | error e => rfl
                | ok v =>
                  obtain ⟨x, d⟩ := v
                  simp only
                  cases h : rd.advanceTo d <;> simp only [h, h1, h2, false_and, if_false]
              · simp only [h1, h2, h3, h4, h5, h6, if_false, depthAfter, false_and]
                cases h : rd.advanceTo data <;> simp only [h, h1, h2, false_and, if_false]

/-! ### the lexer's `skip_container` against the lexeme walk -/

theorem getSplit_drop {n : Nat} {d : Bytes} (h : n ≤ d.length) : getSplit n d = some (d.take n, d.drop n) := by
  simp [getSplit, h]

theorem lexer_step_some (f : Nat) (d d1 d' : Bytes) (L depth id : Nat) (hid : readId d = .ok (id, d1))
    (hp : payloadRest id d1 = some d') :
    Lexer.skipLoop (f + 1) ⟨d, L⟩ depth =
      if id = CLOSE ∧ depth - 1 = 0 then some (.ok (), ⟨d', L⟩)
      else Lexer.skipLoop f ⟨d', L⟩ (depthAfter id depth) := by
  unfold payloadRest at hp
  unfold depthAfter
  by_cases h1 : id = CLOSE
  · rw [if_pos h1] at hp
    simp only [Option.some.injEq] at hp
    subst hp; subst h1
    rw [skip_step_close f d d1 L depth hid]
    simp only [true_and, if_true]
  rw [if_neg h1] at hp
  by_cases h2 : id = OPEN
  · rw [if_pos h2] at hp
    simp only [Option.some.injEq] at hp
    subst hp
    rw [if_neg (by simp [h1]), if_neg h1, if_pos h2]
    subst h2
    exact skip_step_open f d d1 L depth hid
  rw [if_neg h2] at hp
  rw [if_neg (by simp [h1]), if_neg h1, if_neg h2]
  by_cases h3 : id = BOOL
  · rw [if_pos h3] at hp
    by_cases hl : 1 ≤ d1.length
    · rw [if_pos hl] at hp
      simp only [Option.some.injEq] at hp
      subst hp; subst h3
      cases d1 with
      | nil => simp at hl
      | cons a t => exact skip_step_bool f d (a :: t) t L depth (a != 0) hid (by simp [readBool])
    · rw [if_neg hl] at hp; simp at hp
  rw [if_neg h3] at hp
  by_cases h4 : id = F32 ∨ id = U32 ∨ id = I32
  · rw [if_pos h4] at hp
    by_cases hl : 4 ≤ d1.length
    · rw [if_pos hl] at hp
      simp only [Option.some.injEq] at hp
      subst hp
      rcases h4 with rfl | rfl | rfl
      · exact skip_step_f32 f d d1 (d1.drop 4) L depth (d1.take 4) hid (by simp [readF32, getSplit_drop hl])
      · exact skip_step_u32 f d d1 (d1.drop 4) L depth (leNat (d1.take 4)) hid (by simp [readU32, getSplit_drop hl])
      · exact skip_step_i32 f d d1 (d1.drop 4) L depth (toSigned 32 (leNat (d1.take 4))) hid (by simp [readI32, getSplit_drop hl])
    · rw [if_neg hl] at hp; simp at hp
  rw [if_neg h4] at hp
  by_cases h5 : id = F64 ∨ id = I64 ∨ id = U64
  · rw [if_pos h5] at hp
    by_cases hl : 8 ≤ d1.length
    · rw [if_pos hl] at hp
      simp only [Option.some.injEq] at hp
      subst hp
      rcases h5 with rfl | rfl | rfl
      · exact skip_step_f64 f d d1 (d1.drop 8) L depth (d1.take 8) hid (by simp [readF64, getSplit_drop hl])
      · exact skip_step_i64 f d d1 (d1.drop 8) L depth (toSigned 64 (leNat (d1.take 8))) hid (by simp [readI64, getSplit_drop hl])
      · exact skip_step_u64 f d d1 (d1.drop 8) L depth (leNat (d1.take 8)) hid (by simp [readU64, getSplit_drop hl])
    · rw [if_neg hl] at hp; simp at hp
  rw [if_neg h5] at hp
  by_cases h6 : id = QUOTED ∨ id = UNQUOTED
  · rw [if_pos h6] at hp
    cases hs : readString d1 with
    | error e => rw [hs] at hp; simp at hp
    | ok v =>
      obtain ⟨x, dd⟩ := v
      rw [hs] at hp
      simp only [Option.some.injEq] at hp
      subst hp
      exact skip_step_str f d d1 _ L depth id x hid h6 hs
  rw [if_neg h6] at hp
  simp only [Option.some.injEq] at hp
  subst hp
  simp only [not_or] at h4 h5 h6
  exact skip_step_other f d d1 L depth id hid
    ⟨h6.1, h6.2, h4.2.1, h4.2.2, h5.2.2, h5.2.1, h3, h4.1, h5.1, h1, h2⟩

theorem lexer_step_none (f : Nat) (d : Bytes) (L depth : Nat) (h : lexeme d = none) (l' : Lexer) :
    Lexer.skipLoop (f + 1) ⟨d, L⟩ depth ≠ some (.ok (), l') := by
  intro hc
  rw [lexeme_eq] at h
  cases hid : readId d with
  | error e => simp [Lexer.skipLoop, Lexer.readId, Lexer.lift, hid] at hc
  | ok v =>
    obtain ⟨id, d1⟩ := v
    rw [hid] at h
    simp only [Option.map_eq_none_iff] at h
    unfold payloadRest at h
    by_cases h1 : id = CLOSE
    · rw [if_pos h1] at h; simp at h
    rw [if_neg h1] at h
    by_cases h2 : id = OPEN
    · rw [if_pos h2] at h; simp at h
    rw [if_neg h2] at h
    by_cases h3 : id = BOOL
    · rw [if_pos h3] at h
      by_cases hl : 1 ≤ d1.length
      · rw [if_pos hl] at h; simp at h
      · have : d1 = [] := List.eq_nil_of_length_eq_zero (by omega)
        subst this; subst h3
        simp [Lexer.skipLoop, Lexer.readId, Lexer.readBool, Lexer.lift, hid, readBool, BOOL, QUOTED, UNQUOTED, U32, I32, U64, I64] at hc
    rw [if_neg h3] at h
    by_cases h4 : id = F32 ∨ id = U32 ∨ id = I32
    · rw [if_pos h4] at h
      by_cases hl : 4 ≤ d1.length
      · rw [if_pos hl] at h; simp at h
      · have hg : getSplit 4 d1 = none := getSplit_none.mpr (by omega)
        rcases h4 with rfl | rfl | rfl
        · simp [Lexer.skipLoop, Lexer.readId, Lexer.readF32, Lexer.lift, hid, readF32, hg, BOOL, QUOTED, UNQUOTED, U32, I32, U64, I64, F32] at hc
        · simp [Lexer.skipLoop, Lexer.readId, Lexer.readU32, Lexer.lift, hid, readU32, hg, BOOL, QUOTED, UNQUOTED, U32, I32, U64, I64, F32] at hc
        · simp [Lexer.skipLoop, Lexer.readId, Lexer.readI32, Lexer.lift, hid, readI32, hg, BOOL, QUOTED, UNQUOTED, U32, I32, U64, I64, F32] at hc
    rw [if_neg h4] at h
    by_cases h5 : id = F64 ∨ id = I64 ∨ id = U64
    · rw [if_pos h5] at h
      by_cases hl : 8 ≤ d1.length
      · rw [if_pos hl] at h; simp at h
      · have hg : getSplit 8 d1 = none := getSplit_none.mpr (by omega)
        rcases h5 with rfl | rfl | rfl
        · simp [Lexer.skipLoop, Lexer.readId, Lexer.readF64, Lexer.lift, hid, readF64, hg, BOOL, QUOTED, UNQUOTED, U32, I32, U64, I64, F32, F64] at hc
        · simp [Lexer.skipLoop, Lexer.readId, Lexer.readI64, Lexer.lift, hid, readI64, hg, BOOL, QUOTED, UNQUOTED, U32, I32, U64, I64, F32, F64] at hc
        · simp [Lexer.skipLoop, Lexer.readId, Lexer.readU64, Lexer.lift, hid, readU64, hg, BOOL, QUOTED, UNQUOTED, U32, I32, U64, I64, F32, F64] at hc
    rw [if_neg h5] at h
    by_cases h6 : id = QUOTED ∨ id = UNQUOTED
    · rw [if_pos h6] at h
      cases hs : readString d1 with
      | ok v => obtain ⟨x, dd⟩ := v; rw [hs] at h; simp at h
      | error e =>
        simp [Lexer.skipLoop, Lexer.readId, Lexer.readString, Lexer.lift, hid, hs, h6] at hc
    rw [if_neg h6] at h
    simp at h

/-- a successful `Lexer::skip_container` walked the lexemes to the matching close -/
theorem lexer_skips (f : Nat) (d : Bytes) (L depth : Nat) (l' : Lexer)
    (h : Lexer.skipLoop f ⟨d, L⟩ depth = some (.ok (), l')) :
    Skips d depth l'.data ∧ l'.originalLength = L := by
  induction f generalizing d depth with
  | zero => simp [Lexer.skipLoop] at h
  | succ f ih =>
    cases hlx : lexeme d with
    | none =>
      exact absurd h (lexer_step_none f d L depth hlx l')
    | some v =>
      obtain ⟨id, d'⟩ := v
      obtain ⟨d1, hid, hp⟩ := lexeme_some hlx
      rw [lexer_step_some f d d1 d' L depth id hid hp] at h
      by_cases hc : id = CLOSE ∧ depth - 1 = 0
      · rw [if_pos hc] at h
        simp only [Option.some.injEq, Prod.mk.injEq, true_and] at h
        subst h
        obtain ⟨rfl, hz⟩ := hc
        exact ⟨Skips.done hlx hz, rfl⟩
      · rw [if_neg hc] at h
        obtain ⟨i1, i2⟩ := ih d' _ h
        exact ⟨Skips.step hlx hc i1, i2⟩

/-! ### the streamed `skip_container` -/

theorem skips_inv {d r d' : Bytes} {depth id : Nat} (hs : Skips d depth r) (hlx : lexeme d = some (id, d')) :
    (id = CLOSE ∧ depth - 1 = 0 ∧ r = d') ∨
    (¬(id = CLOSE ∧ depth - 1 = 0) ∧ Skips d' (depthAfter id depth) r) := by
  cases hs with
  | done h1 h2 =>
    rw [hlx] at h1
    simp only [Option.some.injEq, Prod.mk.injEq] at h1
    exact Or.inl ⟨h1.1, h2, h1.2.symm⟩
  | step h1 h2 h3 =>
    rw [hlx] at h1
    simp only [Option.some.injEq, Prod.mk.injEq] at h1
    obtain ⟨rfl, rfl⟩ := h1
    exact Or.inr ⟨h2, h3⟩

theorem skips_lexeme {d r : Bytes} {depth : Nat} (hs : Skips d depth r) : lexeme d ≠ none := by
  cases hs with
  | done h1 _ => rw [h1]; simp
  | step h1 _ _ => rw [h1]; simp

theorem skipFits_tail {cap depth id : Nat} {d r : Bytes} (h : SkipFits cap d depth)
    (hlx : lexeme d = some (id, r)) (hn : ¬(id = CLOSE ∧ depth - 1 = 0)) :
    SkipFits cap r (depthAfter id depth) := by
  cases h with
  | mk _ _ _ tail => exact tail id r hlx hn

theorem skipFits_head {cap depth : Nat} {d : Bytes} (h : SkipFits cap d depth) :
    ∀ k, k ≤ d.length → lexeme (d.take k) = none → k < cap := by
  cases h with
  | mk _ _ head _ => exact head

/-- `advance_to` a suffix of the window -/
theorem rinv_advance {rd : Reader} {data pre rest : Bytes} (h : RInv rd data)
    (hw : rd.buf.window = pre ++ rest) :
    ∃ rd', rd.advanceTo rest = some rd' ∧ RInv rd' data ∧ rd'.buf.window = rest ∧
      rd'.remaining data = rest ++ rd.src.rest ∧ rd'.src = rd.src ∧ rd'.buf.cap = rd.buf.cap ∧
      rd'.buf.windowLen = rd.buf.windowLen - pre.length := by
  have hwl : rd.buf.window.length = rd.buf.windowLen := Buf.window_length h.buf.se h.buf.em
  have hlen : rd.buf.windowLen - rest.length = pre.length := by rw [← hwl, hw]; simp
  have hle : pre.length ≤ rd.buf.windowLen := by rw [← hwl, hw]; simp
  obtain ⟨b', hadv, hinv', hwin', hpos', hcap', hwl'⟩ :=
    Buf.advance_refines rd.buf rd.src data h.buf pre.length hle
  refine ⟨{ rd with buf := b' }, by simp only [Reader.advanceTo, hlen, hadv], ?_, ?_, ?_, rfl, hcap', hwl'⟩
  · refine ⟨hinv', h.wf, fun hc => h.slice (by rw [← hcap']; exact hc), fun hc => ?_, ?_⟩
    · have := h.deliv (by rw [← hcap']; exact hc)
      simp only [Reader.position] at *
      rw [this, hpos', hwl']; omega
    · have hv := congrArg List.length h.buf.view
      have hp := h.ple
      simp only [List.length_append, List.length_drop, Reader.position] at hv hp ⊢
      rw [hpos']; omega
  · simp only; rw [hwin', hw]; simp
  · have hv := hinv'.view
    simp only [Reader.remaining, Reader.position]
    rw [← hv, hwin', hw]; simp

/-- what the inner `while let Ok(..) = read_id(window)` loop achieves -/
def ScanPost (data r : Bytes) (rd : Reader) : Reader.ScanRes → Prop
  | .returned rd' => RInv rd' data ∧ rd'.remaining data = r ∧ rd'.src = rd.src ∧ rd'.buf.cap = rd.buf.cap
  | .refill rd' depth' => RInv rd' data ∧ Skips (rd'.remaining data) depth' r ∧
      (rd'.buf.cap = 0 ∨ SkipFits rd'.buf.cap (rd'.remaining data) depth') ∧
      lexeme rd'.buf.window = none ∧ rd'.src = rd.src ∧ rd'.buf.cap = rd.buf.cap
  | .ub _ => False

theorem scan_spec (data r : Bytes) (sf : Nat) (rd : Reader) (depth : Nat) (h : RInv rd data)
    (hs : Skips (rd.remaining data) depth r)
    (hfit : rd.buf.cap = 0 ∨ SkipFits rd.buf.cap (rd.remaining data) depth)
    (hsf : rd.buf.windowLen / 2 < sf) :
    ScanPost data r rd (Reader.skipScan sf rd depth) := by
  induction sf generalizing rd depth with
  | zero => omega
  | succ sf ih =>
    rw [scan_step]
    have hrem := remaining_eq h
    cases hlx : lexeme rd.buf.window with
    | none => exact ⟨h, hs, hfit, hlx, rfl, rfl⟩
    | some v =>
      obtain ⟨id, rest⟩ := v
      obtain ⟨pre, hpre, hplen⟩ := lexeme_consumes hlx
      obtain ⟨rd', hadv, hinv', hwin', hrem', hsrc', hcap', hwl'⟩ := rinv_advance h hpre
      have hfull : lexeme (rd.remaining data) = some (id, rd'.remaining data) := by
        rw [hrem, hrem']; exact lexeme_stable hlx
      simp only [hadv]
      rcases skips_inv hs hfull with ⟨c1, c2, c3⟩ | ⟨c1, c2⟩
      · rw [if_pos ⟨c1, c2⟩]
        exact ⟨hinv', c3.symm, hsrc', hcap'⟩
      · rw [if_neg c1]
        have hfit' : rd'.buf.cap = 0 ∨ SkipFits rd'.buf.cap (rd'.remaining data) (depthAfter id depth) := by
          rw [hcap']
          rcases hfit with h0 | hf
          · exact Or.inl h0
          · exact Or.inr (skipFits_tail hf hfull c1)
        have hwlen : rd.buf.window.length = rd.buf.windowLen := Buf.window_length h.buf.se h.buf.em
        have hpl := congrArg List.length hpre
        simp only [List.length_append] at hpl
        have := ih rd' (depthAfter id depth) hinv' c2 hfit' (by omega)
        revert this
        generalize Reader.skipScan sf rd' (depthAfter id depth) = res
        intro this
        cases res with
        | returned rd2 =>
          simp only [ScanPost] at this ⊢
          exact ⟨this.1, this.2.1, by rw [this.2.2.1, hsrc'], by rw [this.2.2.2, hcap']⟩
        | refill rd2 d2 =>
          simp only [ScanPost] at this ⊢
          obtain ⟨a1, a2, a3, a4, a5, a6⟩ := this
          exact ⟨a1, a2, a3, a4, by rw [a5, hsrc'], by rw [a6, hcap']⟩
        | ub rd2 => exact this

/-- **C09 (binary reader).**  Under every fault-free schedule and every buffer in which the
lexemes met on the way fit, the streamed `TokenReader::skip_container` succeeds and stops
exactly where the lexeme walk `Skips` ends — which is where `Lexer::skip_container` ends
(`lexer_skips`). -/
theorem reader_skip (data r : Bytes) (fuel : Nat) (rd : Reader) (depth : Nat) (h : RInv rd data)
    (hs : Skips (rd.remaining data) depth r)
    (hfit : rd.buf.cap = 0 ∨ SkipFits rd.buf.cap (rd.remaining data) depth)
    (hnf : Src.NoFaults rd.src.sched) (hfuel : rd.src.rest.length < fuel) :
    (Reader.skipLoop fuel rd depth).1 = .ok () ∧ (Reader.skipLoop fuel rd depth).2.remaining data = r ∧
    RInv (Reader.skipLoop fuel rd depth).2 data := by
  induction fuel generalizing rd depth with
  | zero => omega
  | succ fuel ih =>
    unfold Reader.skipLoop
    have hsc := scan_spec data r (rd.buf.windowLen / 2 + 1) rd depth h hs hfit (by omega)
    revert hsc
    generalize Reader.skipScan (rd.buf.windowLen / 2 + 1) rd depth = res
    intro hsc
    cases res with
    | returned rd' =>
      simp only [ScanPost] at hsc
      exact ⟨rfl, hsc.2.1, hsc.1⟩
    | ub rd' => exact absurd hsc (by simp [ScanPost])
    | refill rd1 depth1 =>
      simp only [ScanPost] at hsc
      obtain ⟨h1, hs1, hfit1, hnone, hsrc1, hcap1⟩ := hsc
      simp only
      have hrem1 := remaining_eq h1
      have hwl1 : rd1.buf.window.length = rd1.buf.windowLen := Buf.window_length h1.buf.se h1.buf.em
      have hnf1 : Src.NoFaults rd1.src.sched := by rw [hsrc1]; exact hnf
      obtain ⟨f1, f2⟩ := fillBuf_nofaults rd1.buf rd1.src hnf1
      -- an exhausted source contradicts the pending lexeme
      have hexh : rd1.src.rest = [] → False := by
        intro hs0
        rw [hrem1, hs0, List.append_nil] at hs1
        exact skips_lexeme hs1 hnone
      rcases Buf.fillBuf_cases rd1.buf rd1.src data h1.buf h1.wf with
        ⟨hc0, hfb⟩ | ⟨hcpos, hfull, hfb⟩ | ⟨hcpos, hlt, n, b', src', hfb, hinv', hpos', hcap', hwin', hwl', hrest', hn, hdel', hwf', hz⟩ |
        ⟨hcpos, hlt, b', src', hfb, hinv', hpos', hcap', hwin', hwl', hrest', hdel', hwf'⟩
      · exact absurd (h1.slice hc0) (fun hh => hexh hh)
      · exfalso
        rcases hfit1 with hc | hf
        · omega
        · have := skipFits_head hf rd1.buf.windowLen (by rw [hrem1]; simp; omega)
            (by rw [hrem1, ← hwl1, List.take_left']; exact hnone; rfl)
          omega
      · rw [hfb] at f1 f2 ⊢
        simp only at f2 ⊢
        by_cases hn0 : n = 0
        · exact absurd (hz hn0) (fun hh => hexh hh)
        · rw [if_neg hn0]
          have hrd' : RInv { src := src', buf := b' } data := by
            refine ⟨hinv', hwf', fun hc => ?_, fun _ => ?_, ?_⟩
            · simp only at hc; omega
            · have := h1.deliv hcpos
              simp only [Reader.position] at *
              rw [hdel', this, hpos', hwl']; omega
            · have := h1.ple
              simp only [Reader.position] at *
              rw [hpos']; exact this
          have hposeq : ({ src := src', buf := b' } : Reader).position = rd1.position := hpos'
          have hremeq : ({ src := src', buf := b' } : Reader).remaining data = rd1.remaining data := by
            simp only [Reader.remaining, hposeq]
          exact ih { src := src', buf := b' } depth1 hrd' (by rw [hremeq]; exact hs1)
            (by simp only; rw [hcap', hremeq]; exact hfit1) f2
            (by
              have e1 : rd1.src.rest.length = rd.src.rest.length := by rw [hsrc1]
              simp only
              rw [hrest', List.length_drop]
              omega)
      · rw [hfb] at f1
        exact absurd rfl f1

/-- **C09 (binary reader) = lexer.**  Whenever `Lexer::skip_container`, run on the bytes the
reader still has to see, succeeds and leaves `l'`, the streamed `TokenReader::skip_container`
— under every fault-free schedule and every buffer in which the lexemes on the way fit —
succeeds too, and stops at the same byte: same unread input, `position()` equal to the
lexer's `position()`. -/
theorem C09_bin_reader_skip (data : Bytes) (rd : Reader) (l' : Lexer) (h : RInv rd data)
    (hfit : rd.buf.cap = 0 ∨ SkipFits rd.buf.cap (rd.remaining data) 1)
    (hnf : Src.NoFaults rd.src.sched)
    (hlex : (Lexer.mk (rd.remaining data) data.length).skipContainer = some (.ok (), l')) :
    rd.skipContainer.1 = .ok () ∧ rd.skipContainer.2.remaining data = l'.data ∧
    rd.skipContainer.2.position = l'.position ∧ RInv rd.skipContainer.2 data := by
  unfold Lexer.skipContainer at hlex
  obtain ⟨hsk, hL⟩ := lexer_skips _ _ _ _ _ hlex
  obtain ⟨a, b, c⟩ := reader_skip data l'.data rd.fuelFor rd 1 h hsk hfit hnf (by simp [Reader.fuelFor])
  refine ⟨a, b, ?_, c⟩
  have hple := c.ple
  have hlen := congrArg List.length b
  simp only [Reader.remaining, List.length_drop] at hlen
  simp only [Lexer.position, hL]
  show (Reader.skipLoop rd.fuelFor rd 1).2.position = _
  omega

/-- the same from the token-level reference: if counting opens and closes over `read_token`'s
tokens finds the matching close and leaves `r`, the streamed skip lands exactly there -/
theorem C09_bin_reader_skip_balanced (data r : Bytes) (rd : Reader) (h : RInv rd data)
    (hfit : rd.buf.cap = 0 ∨ SkipFits rd.buf.cap (rd.remaining data) 1)
    (hnf : Src.NoFaults rd.src.sched)
    (hb : balancedSkip ((rd.remaining data).length / 2 + 1) (rd.remaining data) 1 = some (.ok r)) :
    rd.skipContainer.1 = .ok () ∧ rd.skipContainer.2.remaining data = r ∧ RInv rd.skipContainer.2 data := by
  have hl := (C09_bin_lexer_skip (Lexer.mk (rd.remaining data) data.length) r hb).2
  obtain ⟨a, b, _, c⟩ := C09_bin_reader_skip data rd _ h hfit hnf hl
  exact ⟨a, b, c⟩

theorem lexeme_none_bound (w : Bytes) (h : lexeme w = none) : w.length < 65539 := by
  rw [lexeme_eq] at h
  cases hid : readId w with
  | error e =>
    have : e = .eof := by
      cases e with
      | eof => rfl
      | invalidRgb => simp [readId] at hid; split at hid <;> simp at hid
    subst this
    have := readId_eofBound w hid
    omega
  | ok v =>
    obtain ⟨id, d1⟩ := v
    rw [hid] at h
    simp only [Option.map_eq_none_iff] at h
    have hw := readId_maxLen w id d1 hid
    unfold payloadRest at h
    by_cases h1 : id = CLOSE
    · rw [if_pos h1] at h; simp at h
    rw [if_neg h1] at h
    by_cases h2 : id = OPEN
    · rw [if_pos h2] at h; simp at h
    rw [if_neg h2] at h
    by_cases h3 : id = BOOL
    · rw [if_pos h3] at h
      by_cases hl : 1 ≤ d1.length
      · rw [if_pos hl] at h; simp at h
      · omega
    rw [if_neg h3] at h
    by_cases h4 : id = F32 ∨ id = U32 ∨ id = I32
    · rw [if_pos h4] at h
      by_cases hl : 4 ≤ d1.length
      · rw [if_pos hl] at h; simp at h
      · omega
    rw [if_neg h4] at h
    by_cases h5 : id = F64 ∨ id = I64 ∨ id = U64
    · rw [if_pos h5] at h
      by_cases hl : 8 ≤ d1.length
      · rw [if_pos hl] at h; simp at h
      · omega
    rw [if_neg h5] at h
    by_cases h6 : id = QUOTED ∨ id = UNQUOTED
    · rw [if_pos h6] at h
      cases hs : readString d1 with
      | ok v => obtain ⟨x, dd⟩ := v; rw [hs] at h; simp at h
      | error e =>
        have := readString_err hs
        subst this
        have := readString_eofBound d1 hs
        omega
    rw [if_neg h6] at h
    simp at h

/-- with the documented minimal buffer every lexeme fits, so `C09_bin_reader_skip` applies -/
theorem skipFits_of_large (cap : Nat) (hcap : 65539 ≤ cap) (d : Bytes) (depth : Nat) : SkipFits cap d depth := by
  suffices h : ∀ n (d : Bytes) (depth : Nat), d.length ≤ n → SkipFits cap d depth from
    h d.length d depth (Nat.le_refl _)
  intro n
  induction n with
  | zero =>
    intro d depth hd
    refine SkipFits.mk d depth ?_ ?_
    · intro k hk he
      have := lexeme_none_bound _ he
      simp at this; omega
    · intro id r hlx _
      obtain ⟨pre, hpre, hlen⟩ := lexeme_consumes hlx
      have : d.length = pre.length + r.length := by rw [hpre]; simp
      omega
  | succ n ih =>
    intro d depth hd
    refine SkipFits.mk d depth ?_ ?_
    · intro k hk he
      have := lexeme_none_bound _ he
      simp at this; omega
    · intro id r hlx _
      obtain ⟨pre, hpre, hlen⟩ := lexeme_consumes hlx
      apply ih
      have : d.length = pre.length + r.length := by rw [hpre]; simp
      omega

end Jomini.BinReader
