import JominiModel.Proofs.DateFast
/-
Formatting (integer `Display`, `PdsDateFormatter`) and the format → parse round trips (C13).
-/
namespace Jomini.Date
open Jomini Jomini.Scalar

theorem isDigit_digitByte {k : Nat} (h : k < 10) : isDigit (digitByte k) = true := by
  unfold isDigit digitByte
  have : (UInt8.ofNat (48 + k)).toNat = 48 + k := by
    simp only [UInt8.toNat_ofNat']; omega
  rw [this]; simp; omega

theorem digitVal_digitByte {k : Nat} (h : k < 10) : digitVal (digitByte k) = k := by
  unfold digitVal digitByte
  have : (UInt8.ofNat (48 + k)).toNat = 48 + k := by
    simp only [UInt8.toNat_ofNat']; omega
  rw [this]; omega

theorem allDigits_append (a b : Bytes) : allDigits (a ++ b) = (allDigits a && allDigits b) := by
  simp [allDigits, List.all_append]

theorem natDecGo_spec : ∀ (fuel k n : Nat) (acc : Bytes), 0 < k → k ≤ fuel → n < 10 ^ k →
    ∃ ds, natDecGo fuel n acc = ds ++ acc ∧ allDigits ds = true ∧ ds ≠ [] ∧ ds.length ≤ k ∧
      ∀ start, decFrom ds start = start * 10 ^ ds.length + n := by
  intro fuel
  induction fuel with
  | zero => intro k n acc hk hkf; omega
  | succ f ih =>
    intro k n acc hk hkf hn
    unfold natDecGo
    by_cases h10 : n < 10
    · rw [if_pos h10]
      refine ⟨[digitByte n], rfl, by simp [allDigits, isDigit_digitByte h10], by simp, by simp; omega, ?_⟩
      intro start
      simp [decFrom, digitVal_digitByte h10]
    · rw [if_neg h10]
      have hk2 : 2 ≤ k := by
        rcases Nat.lt_or_ge k 2 with h | h
        · have : k = 1 := by omega
          subst this; simp at hn; omega
        · exact h
      have hn' : n / 10 < 10 ^ (k - 1) := by
        have : 10 ^ k = 10 ^ (k - 1) * 10 := by rw [← Nat.pow_succ]; congr 1; omega
        rw [this] at hn
        exact Nat.div_lt_of_lt_mul (by rw [Nat.mul_comm]; exact hn)
      obtain ⟨ds, e, hd, hne, hlen, hval⟩ := ih (k - 1) (n / 10) (digitByte (n % 10) :: acc) (by omega) (by omega) hn'
      have hr : n % 10 < 10 := Nat.mod_lt _ (by omega)
      refine ⟨ds ++ [digitByte (n % 10)], by rw [e]; simp, ?_, by simp, by simp; omega, ?_⟩
      · rw [allDigits_append, hd]; simp [allDigits, isDigit_digitByte hr]
      · intro start
        rw [decFrom_append, hval start]
        simp only [decFrom, digitVal_digitByte hr, List.length_append, List.length_cons, List.length_nil,
          Nat.zero_add, Nat.pow_succ, Nat.add_mul]
        rw [← Nat.mul_assoc]
        omega

theorem natDec_lt10 {v : Nat} (h : v < 10) : natDec v = [digitByte v] := by
  simp [natDec, natDecGo, h]

theorem natDec_lt100 {v : Nat} (h1 : ¬ v < 10) (h2 : v < 100) :
    natDec v = [digitByte (v / 10), digitByte (v % 10)] := by
  have : v / 10 < 10 := by omega
  simp [natDec, natDecGo, h1, this]

/-- `{}` / `{:02}` of a number below 100 is one or two digits with that value -/
theorem fmtInt_small (w : Nat) (hw : w = 0 ∨ w = 2) (v : Nat) (hv : v < 100) :
    Num12 (fmtInt w (v : Int)) v := by
  unfold fmtInt
  simp only [Int.natAbs_natCast]
  rw [if_neg (by omega)]
  by_cases h10 : v < 10
  · rw [natDec_lt10 h10]
    rcases hw with rfl | rfl
    · exact Or.inl ⟨_, rfl, isDigit_digitByte h10, (digitVal_digitByte h10).symm⟩
    · refine Or.inr ⟨48, digitByte v, rfl, by decide, isDigit_digitByte h10, ?_⟩
      rw [digitVal_digitByte h10]; simp [digitVal]
  · rw [natDec_lt100 h10 hv]
    have e : List.replicate (w - [digitByte (v / 10), digitByte (v % 10)].length) (48 : UInt8) = [] := by
      rcases hw with rfl | rfl <;> rfl
    rw [e]
    refine Or.inr ⟨_, _, rfl, isDigit_digitByte (by omega), isDigit_digitByte (by omega), ?_⟩
    rw [digitVal_digitByte (by omega), digitVal_digitByte (by omega)]; omega

/-- `{}` of an `i16`: an optional '-' and one to five digits with the magnitude as value -/
theorem fmtInt_year (y : Int) (hy : inI16 y = true) :
    ∃ ds, allDigits ds = true ∧ ds ≠ [] ∧ ds.length ≤ 5 ∧ decVal ds = y.natAbs ∧
      fmtInt 0 y = if y < 0 then 45 :: ds else ds := by
  rw [inI16_iff] at hy
  obtain ⟨ds, e, hd, hne, hlen, hval⟩ := natDecGo_spec 20 5 y.natAbs [] (by omega) (by omega) (by omega)
  refine ⟨ds, hd, hne, hlen, by simpa [decVal] using hval 0, ?_⟩
  unfold fmtInt natDec
  rw [e]
  simp

/-- the text `Y.M.D[.H]` written with `{}` for the year and width `w ∈ {0, 2}` for the rest -/
def dotText (w : Nat) (y : Int) (m d h : Nat) : Bytes :=
  fmtInt 0 y ++ [46] ++ fmtInt w (m : Int) ++ [46] ++ fmtInt w (d : Int) ++
    (if h = 0 then [] else [46] ++ fmtInt w (h : Int))

theorem isRestText_fmt (w : Nat) (hw : w = 0 ∨ w = 2) (m d h : Nat) (hm : m < 100) (hd : d < 100) (hh : h < 100) :
    IsRestText ([46] ++ fmtInt w (m : Int) ++ [46] ++ fmtInt w (d : Int) ++
      (if h = 0 then [] else [46] ++ fmtInt w (h : Int))) m d h := by
  refine ⟨fmtInt w (m : Int), fmtInt w (d : Int), fmtInt_small w hw m hm, fmtInt_small w hw d hd, ?_⟩
  by_cases h0 : h = 0
  · left; subst h0; simp
  · right
    refine ⟨fmtInt w (h : Int), fmtInt_small w hw h hh, h0, ?_⟩
    simp [h0]

/-- **format → component parser**: the component parser reads back exactly the components that
were written, in the short and in the zero-padded form. -/
theorem Expanded.parse_dotText (w : Nat) (hw : w = 0 ∨ w = 2) (y : Int) (m d h : Nat) (hy : inI16 y = true)
    (hm : m < 100) (hd : d < 100) (hh : h < 100) :
    Expanded.parse (dotText w y m d h) = .ok ⟨y, m, d, h⟩ := by
  obtain ⟨ds, hdig, hne, hlen, hval, hfmt⟩ := fmtInt_year y hy
  have hr := isRestText_fmt w hw m d h hm hd hh
  have hy' := (inI16_iff y).1 hy
  unfold dotText
  rw [hfmt]
  by_cases hneg : y < 0
  · rw [if_pos hneg]
    have := Expanded.parse_neg_text ds _ m d h hdig (by omega) hr
    have e : -((decVal ds : Nat) : Int) = y := by omega
    rw [e] at this
    simpa [List.append_assoc] using this
  · rw [if_neg hneg]
    have := Expanded.parse_text ds _ m d h hne hdig (by omega) hr
    have e : ((decVal ds : Nat) : Int) = y := by omega
    rw [e] at this
    simpa [List.append_assoc] using this

theorem format_dot (wide : Bool) (y : Int) (m d h : Nat) (hm : m < 16) (hd : d < 32) (hh : h < 32) :
    format (mkRaw y m d h) (if wide then .dotWide else .dotShort) =
      .ok (dotText (if wide then 2 else 0) y m d h) := by
  have e1 := month_mkRaw y m d h hm hd hh
  have e2 := day_mkRaw y m d h hm hd hh
  have e3 := hour_mkRaw y m d h hm hd hh
  have e4 := hasHour_mkRaw y m d h hm hd hh
  cases wide <;> by_cases h0 : h = 0 <;>
    (simp only [format, e1, e2, e3, e4, year_mkRaw]; simp [dotText, h0])

theorem num12_length {t : Bytes} {v : Nat} (h : Num12 t v) : 1 ≤ t.length ∧ t.length ≤ 2 := by
  rcases h with ⟨a, rfl, _, _⟩ | ⟨a, b, rfl, _, _, _⟩ <;> simp

/-- a formatted date without hour is never refused by the front test of `Date::parse` -/
theorem earlyReject_dotText (w : Nat) (hw : w = 0 ∨ w = 2) (y : Int) (m d : Nat) (hy : inI16 y = true)
    (hm : m < 100) (hd : d < 100) : Date.earlyReject (dotText w y m d 0) = false := by
  obtain ⟨ds, hdig, hne, hlen, _, hfmt⟩ := fmtInt_year y hy
  have lm := num12_length (fmtInt_small w hw m hm)
  have ld := num12_length (fmtInt_small w hw d hd)
  have hlen1 : 1 ≤ ds.length := by
    cases ds with
    | nil => exact absurd rfl hne
    | cons => simp
  have hfirst : Date.firstOk (dotText w y m d 0) = true := by
    unfold dotText Date.firstOk
    rw [hfmt]
    by_cases hneg : y < 0
    · simp [hneg]
    · cases ds with
      | nil => exact absurd rfl hne
      | cons c cs =>
        simp only [allDigits, List.all_cons, Bool.and_eq_true] at hdig
        simp [hneg, hdig.1]
  have hl : 5 ≤ (dotText w y m d 0).length ∧ (dotText w y m d 0).length ≤ 12 := by
    unfold dotText
    rw [hfmt]
    by_cases hneg : y < 0 <;> simp [hneg] <;> omega
  unfold Date.earlyReject
  rw [hfirst]
  have e1 : decide ((dotText w y m d 0).length < 5) = false := by simp; omega
  have e2 : decide ((dotText w y m d 0).length > 12) = false := by simp; omega
  rw [e1, e2]
  simp

theorem toI64T_dotText (w : Nat) (hw : w = 0 ∨ w = 2) (y : Int) (m d h : Nat) (hy : inI16 y = true)
    (hm : m < 100) (hd : d < 100) (hh : h < 100) :
    ∃ tl, toI64T (dotText w y m d h) = .ok (y, 46 :: tl) := by
  obtain ⟨ds, hdig, hne, hlen, hval, hfmt⟩ := fmtInt_year y hy
  obtain ⟨tl, htl⟩ := isRestText_head (isRestText_fmt w hw m d h hm hd hh)
  have hy' := (inI16_iff y).1 hy
  refine ⟨tl, ?_⟩
  have e0 : dotText w y m d h = fmtInt 0 y ++ (46 :: tl) := by
    unfold dotText; rw [← htl]; simp [List.append_assoc]
  rw [e0, hfmt]
  by_cases hneg : y < 0
  · rw [if_pos hneg]
    have := toI64T_neg_digits ds (46 :: tl) hdig (by simp only [I64_MAX]; omega) (dot_stops tl)
    have e : -((decVal ds : Nat) : Int) = y := by omega
    rw [e] at this
    simpa using this
  · rw [if_neg hneg]
    have := toI64T_digits ds (46 :: tl) hne hdig (by simp only [I64_MAX]; omega) (dot_stops tl)
    have e : ((decVal ds : Nat) : Int) = y := by omega
    rw [e] at this
    exact this

theorem decFrom_zeros (k : Nat) : decFrom (List.replicate k (48 : UInt8)) 0 = 0 := by
  induction k with
  | zero => rfl
  | succ n ih => simp only [List.replicate_succ, decFrom, Nat.zero_mul, Nat.zero_add]; exact ih

theorem allDigits_zeros (k : Nat) : allDigits (List.replicate k (48 : UInt8)) = true := by
  induction k with
  | zero => rfl
  | succ n ih =>
    simp only [List.replicate_succ, allDigits, List.all_cons, Bool.and_eq_true]
    exact ⟨by decide, ih⟩

/-- `{:04}` of an `i16`: an optional '-', then digits (zero padding included) with the magnitude as value -/
theorem fmtInt4_year (y : Int) (hy : inI16 y = true) :
    ∃ ds, allDigits ds = true ∧ decVal ds = y.natAbs ∧
      fmtInt 4 y = (if y < 0 then [45] else []) ++ ds := by
  rw [inI16_iff] at hy
  obtain ⟨ds, e, hd, hne, hlen, hval⟩ := natDecGo_spec 20 5 y.natAbs [] (by omega) (by omega) (by omega)
  have e' : natDec y.natAbs = ds := by unfold natDec; rw [e]; simp
  have hv0 : decFrom ds 0 = y.natAbs := by simpa using hval 0
  unfold fmtInt
  rw [e']
  by_cases hneg : y < 0
  · simp only [hneg, if_true]
    refine ⟨List.replicate (4 - 1 - ds.length) 48 ++ ds, ?_, ?_, by simp⟩
    · rw [allDigits_append, allDigits_zeros, hd]; rfl
    · simp only [decVal, decFrom_append, decFrom_zeros, hv0]
  · simp only [hneg, if_false]
    refine ⟨List.replicate (4 - ds.length) 48 ++ ds, ?_, ?_, by simp⟩
    · rw [allDigits_append, allDigits_zeros, hd]; rfl
    · simp only [decVal, decFrom_append, decFrom_zeros, hv0]

/-- the ISO-8601 text: `{:04}-{:02}-{:02}` and `T{:02}` of `hour − 1` when an hour is present -/
def isoText (y : Int) (m d h : Nat) : Bytes :=
  fmtInt 4 y ++ [45] ++ fmtInt 2 (m : Int) ++ [45] ++ fmtInt 2 (d : Int) ++
    (if h = 0 then [] else [84] ++ fmtInt 2 ((h - 1 : Nat) : Int))

theorem format_iso (y : Int) (m d h : Nat) (hm : m < 16) (hd : d < 32) (hh : h < 32) :
    format (mkRaw y m d h) .iso8601 = .ok (isoText y m d h) := by
  have e1 := month_mkRaw y m d h hm hd hh
  have e2 := day_mkRaw y m d h hm hd hh
  have e3 := hour_mkRaw y m d h hm hd hh
  have e4 := hasHour_mkRaw y m d h hm hd hh
  by_cases h0 : h = 0 <;>
    (simp only [format, e1, e2, e3, e4, year_mkRaw]; simp [isoText, h0])

end Jomini.Date
