import JominiModel.Model.TextReaderBuf
import JominiModel.Proofs.TextReaderTotal
/-
C07, recycled buffers: the reader over a concrete, caller-provided buffer (`Model/TextReaderBuf.lean`) returns exactly what
the abstract reader (`Model/TextReader.lean`) returns over the view `window()` — whatever the buffer held before.
-/
namespace Jomini.TextReader
open Jomini

/-- `start_buf ≤ start ≤ end ≤ start_buf + len` -/
def BReader.WF (c : BReader) : Prop := c.start ≤ c.end_ ∧ c.end_ ≤ c.buf.length

theorem BReader.window_length {c : BReader} (h : c.WF) : c.window.length = c.end_ - c.start := by
  unfold BReader.window
  simp only [List.length_take, List.length_drop]
  have := h.1; have := h.2
  omega

theorem BReader.view_bom (c : BReader) (b : Bom) : ({ c with bom := b } : BReader).view = { c.view with bom := b } := rfl

theorem BReader.WF_bom {c : BReader} (h : c.WF) (b : Bom) : ({ c with bom := b } : BReader).WF := h

theorem advance_view {c : BReader} (h : c.WF) (k : Nat) : advance c.view k = (badvance c k).map BReader.view := by
  unfold TextReader.advance badvance
  have hl : c.view.win.length = c.end_ - c.start := BReader.window_length h
  rw [hl]
  split
  · simp only [Option.map_some, Option.some.injEq]
    simp only [BReader.view, BReader.window, Reader.mk.injEq, true_and, and_true]
    rw [List.drop_take, List.drop_drop]
    congr 1
    omega
  · rfl

theorem badvance_WF {c c' : BReader} {k : Nat} (h : c.WF) (ha : badvance c k = some c') : c'.WF := by
  unfold badvance at ha
  split at ha
  · simp only [Option.some.injEq] at ha; subst ha
    have := h.1; have := h.2
    exact ⟨by show c.start + k ≤ c.end_; omega, h.2⟩
  · simp at ha

theorem fill_view {c : BReader} (h : c.WF) : fillBuf c.view = ((bfillBuf c).1.view, (bfillBuf c).2) ∧ (bfillBuf c).1.WF := by
  have hl : c.view.win.length = c.end_ - c.start := BReader.window_length h
  have h1 := h.1; have h2 := h.2
  unfold fillBuf bfillBuf
  simp only [hl]
  have hcap : c.view.cap = c.buf.length := rfl
  rw [hcap]
  by_cases hz : c.buf.length = 0
  · simp only [hz, if_true]; exact ⟨trivial, h⟩
  simp only [hz, if_false]
  by_cases hfull : c.end_ - c.start ≥ c.buf.length
  · simp only [hfull, if_true]; exact ⟨trivial, h⟩
  simp only [hfull, if_false]
  have hsrc : c.view.src = c.src := rfl
  rw [hsrc]
  have hsp := Src.read_le_space c.src (c.buf.length - (c.end_ - c.start))
  generalize c.src.read (c.buf.length - (c.end_ - c.start)) = res at hsp
  obtain ⟨src', ob⟩ := res
  -- the buffer after `copy_within`
  generalize hb1 : (if c.end_ - c.start ≠ 0 then c.buf.drop c.start ++ c.buf.drop (c.buf.length - c.start) else c.buf) = buf1
  have hb1len : buf1.length = c.buf.length := by
    rw [← hb1]; split
    · simp only [List.length_append, List.length_drop]; omega
    · rfl
  have hb1take : buf1.take (c.end_ - c.start) = c.window := by
    rw [← hb1]; unfold BReader.window
    split
    · rw [List.take_append_of_le_length (by simp only [List.length_drop]; omega)]
    · rename_i hc0
      have : c.end_ - c.start = 0 := by omega
      rw [this]; simp
  cases ob with
  | none =>
    simp only
    refine ⟨?_, by constructor <;> simp only <;> omega⟩
    simp only [BReader.view, BReader.window, Prod.mk.injEq, Reader.mk.injEq, and_true]
    refine ⟨hb1len.symm, ?_⟩
    simp only [List.drop_zero, Nat.sub_zero]
    rw [hb1take]; rfl
  | some bs =>
    have hbs := hsp bs rfl
    simp only
    refine ⟨?_, by constructor <;> simp only [List.length_append, List.length_take, List.length_drop] <;> omega⟩
    simp only [BReader.view, BReader.window, Prod.mk.injEq, Reader.mk.injEq, and_true]
    refine ⟨?_, ?_⟩
    · simp only [List.length_append, List.length_take, List.length_drop]; omega
    · simp only [List.drop_zero, Nat.sub_zero]
      rw [hb1take]
      have hwl : c.window.length = c.end_ - c.start := BReader.window_length h
      show c.window ++ bs = _
      rw [List.take_append_of_le_length (by simp only [List.length_append]; omega)]
      exact (List.take_of_length_le (by simp only [List.length_append]; omega)).symm

def BRes.WF {α : Type} : BRes α → Prop
  | .ok c _ => c.WF
  | .err c _ => c.WF
  | _ => True

/-- `match advance … with | some r' => … | none => panic`, on both sides -/
theorem res_adv {α : Type} {c : BReader} (h : c.WF) (k : Nat) (f : BReader → BRes α) (g : Reader → Res α)
    (hfg : ∀ c', c'.WF → (f c').view = g c'.view ∧ (f c').WF) :
    (match badvance c k with | some c' => f c' | none => BRes.panic).view =
      (match advance c.view k with | some r' => g r' | none => Res.panic) ∧
    (match badvance c k with | some c' => f c' | none => BRes.panic).WF := by
  rw [advance_view h]
  cases hb : badvance c k with
  | none => exact ⟨rfl, trivial⟩
  | some c' => exact hfg c' (badvance_WF h hb)

theorem brun_view : ∀ (fuel : Nat) (call : Call) (c : BReader), c.WF →
    (brun fuel call c).view = run fuel call c.view ∧ (brun fuel call c).WF := by
  intro fuel
  induction fuel with
  | zero => intro call c _; exact ⟨rfl, trivial⟩
  | succ f ih =>
    intro call c h
    cases call with
    | fallback =>
      rw [brun, run]
      have e : fbLoop (c.view.position == 0) c.view.win .top 0 c.view.bom =
          fbLoop (c.prior + c.start == 0) c.window .top 0 c.bom := rfl
      rw [e]
      generalize fbLoop (c.prior + c.start == 0) c.window .top 0 c.bom = res
      obtain ⟨bom, sc⟩ := res
      cases sc with
      | tok adv t =>
        exact res_adv (c := { c with bom := bom }) (BReader.WF_bom h bom) adv (fun c' => .ok c' (some t)) (fun r' => .ok r' (some t))
          (fun c' hc' => ⟨rfl, hc'⟩)
      | refill st cc o => exact ih _ { c with bom := bom } (BReader.WF_bom h bom)
      | bomFill =>
        obtain ⟨hfv, hfw⟩ := fill_view (BReader.WF_bom h bom)
        simp only
        have e2 : fillBuf { c.view with bom := bom } = fillBuf ({ c with bom := bom } : BReader).view := rfl
        rw [e2, hfv]
        generalize bfillBuf { c with bom := bom } = fr at hfw
        obtain ⟨c', fl⟩ := fr
        simp only at hfw ⊢
        cases fl with
        | ok n =>
          cases n with
          | zero => exact ih _ { c' with bom := .notPresent } (BReader.WF_bom hfw _)
          | succ n => exact ih _ c' hfw
        | full => exact ⟨rfl, hfw⟩
        | io => exact ⟨rfl, hfw⟩
    | refill st carry off =>
      rw [brun, run]
      have e : c.view.win = c.window := rfl
      rw [e]
      rw [advance_view h]
      cases hb : badvance c (c.window.length - carry) with
      | none => exact ⟨rfl, trivial⟩
      | some c0 =>
      have h0 := badvance_WF h hb
      simp only [Option.map_some]
      split
      · exact ⟨rfl, trivial⟩
      obtain ⟨hfv, hfw⟩ := fill_view h0
      rw [hfv]
      generalize bfillBuf c0 = fr at hfw
      obtain ⟨c1, fl⟩ := fr
      simp only at hfw ⊢
      have e1 : c1.view.win = c1.window := rfl
      cases fl with
      | full => exact ⟨rfl, hfw⟩
      | io => exact ⟨rfl, hfw⟩
      | ok n =>
        cases n with
        | zero =>
          simp only
          cases st with
          | none =>
            simp only
            split
            · exact ⟨rfl, hfw⟩
            · rw [e1]
              cases hw : c1.window with
              | nil => exact ⟨rfl, trivial⟩
              | cons x xs =>
                simp only
                split
                · exact res_adv hfw carry (fun c2 => .ok c2 none) (fun r2 => .ok r2 none) (fun c' hc' => ⟨rfl, hc'⟩)
                · exact ⟨rfl, hfw⟩
          | quote => exact ⟨rfl, hfw⟩
          | unquoted =>
            simp only [e1]
            split
            · exact ⟨rfl, trivial⟩
            · exact res_adv hfw _ (fun c2 => .ok c2 (some (Token.unquoted (c1.window.take carry))))
                (fun r2 => .ok r2 (some (Token.unquoted (c1.window.take carry)))) (fun c' hc' => ⟨rfl, hc'⟩)
        | succ n =>
          simp only
          cases st with
          | none => exact ih _ c1 hfw
          | quote =>
            simp only [e1]
            cases quoteRescan c1.window.length (c1.window.drop off) off with
            | closed m =>
              exact res_adv hfw _ (fun c2 => .ok c2 (some (Token.quoted (c1.window.take m))))
                (fun r2 => .ok r2 (some (Token.quoted (c1.window.take m)))) (fun c' hc' => ⟨rfl, hc'⟩)
            | more cr o => exact ih _ c1 hfw
          | unquoted =>
            simp only [e1]
            cases findIdx isBoundary (c1.window.drop off) off with
            | some m =>
              exact res_adv hfw _ (fun c2 => .ok c2 (some (Token.unquoted (c1.window.take m))))
                (fun r2 => .ok r2 (some (Token.unquoted (c1.window.take m)))) (fun c' hc' => ⟨rfl, hc'⟩)
            | none => exact ih _ c1 hfw

/-! ### the fast path: loads from the allocation see the window only -/

theorem word8_take8 (l : Bytes) : word8 l = word8 (l.take 8) := by
  rcases l with _ | ⟨b0, _ | ⟨b1, _ | ⟨b2, _ | ⟨b3, _ | ⟨b4, _ | ⟨b5, _ | ⟨b6, _ | ⟨b7, r⟩⟩⟩⟩⟩⟩⟩⟩ <;> simp [word8]

theorem word8_take (l : Bytes) (m : Nat) (h : 8 ≤ m) : word8 (l.take m) = word8 l := by
  rw [word8_take8 (l.take m), word8_take8 l, List.take_take, Nat.min_eq_left h]

/-- an 8-byte load that the pointer comparison keeps inside the window does not see what is behind the window -/
theorem read64_phys (phys : Bytes) (len j : Nat) (h : j + 8 ≤ len) : read64 phys j = read64 (phys.take len) j := by
  unfold read64
  rw [List.drop_take, word8_take _ _ (by omega)]

theorem getElem?_phys (phys : Bytes) (len j : Nat) (h : j < len) : phys[j]? = (phys.take len)[j]? := by
  rw [List.getElem?_take]; simp [h]

theorem fastUnqGroupP_eq (phys : Bytes) (len : Nat) : ∀ (n j : Nat), j + n ≤ len →
    fastUnqGroupP phys n j = fastUnqGroup (phys.take len) n j := by
  intro n
  induction n with
  | zero => intro j _; rfl
  | succ n ih =>
    intro j h
    rw [fastUnqGroupP, fastUnqGroup, getElem?_phys phys len j (by omega)]
    cases (phys.take len)[j]? with
    | none => rfl
    | some c => simp only; split; rfl; exact ih (j + 1) (by omega)

theorem fastUnqP_eq (phys : Bytes) (len : Nat) (hl : len ≤ phys.length) : ∀ (f j : Nat),
    fastUnqP phys len f j = fastUnq (phys.take len) f j := by
  intro f
  induction f with
  | zero => intro j; rfl
  | succ f ih =>
    intro j
    rw [fastUnqP, fastUnq]
    have hlen : (phys.take len).length = len := by simp; omega
    rw [hlen]
    split
    · rw [fastUnqGroupP_eq phys len 8 j (by omega)]
      cases fastUnqGroup (phys.take len) 8 j with
      | hit j' c => rfl
      | cont j' => exact ih j'
      | ub => rfl
    · rfl

theorem fastQuoteP_eq (phys : Bytes) (len : Nat) (hl : len ≤ phys.length) : ∀ (f j : Nat) (esc : Bool),
    fastQuoteP phys len f j esc = fastQuote (phys.take len) f j esc := by
  intro f
  induction f with
  | zero => intro j esc; rfl
  | succ f ih =>
    intro j esc
    rw [fastQuoteP, fastQuote]
    have hlen : (phys.take len).length = len := by simp; omega
    rw [hlen]
    split
    · rw [read64_phys phys len j (by omega)]
      cases read64 (phys.take len) j with
      | none => rfl
      | some data =>
        simp only
        split
        · rfl
        · exact ih _ _
    · rfl

theorem take_drop_phys (phys : Bytes) (len p j : Nat) (hj : j ≤ len) :
    ((phys.take len).drop p).take (j - p) = (phys.drop p).take (j - p) := by
  rw [List.drop_take, List.take_take, Nat.min_eq_left (by omega)]

/-- the body of `bnextOpt` once the word has been read, `p` blanks skipped and the byte `x` fetched -/
def bnextOptAt (fuel : Nat) (c : BReader) (p : Nat) (x : UInt8) : BRes (Option Token) :=
  let phys := c.buf.drop c.start
  let len := c.end_ - c.start
  if x == 123 then
    match badvance c (p + 1) with
    | some c' => .ok c' (some .open_)
    | none => .panic
  else if x == 125 then
    match badvance c (p + 1) with
    | some c' => .ok c' (some .close)
    | none => .panic
  else if isFastStart x then
    match fastUnqP phys len len (p + 1) with
    | .hit j x' =>
      match badvance c (if x' == 32 then j + 1 else j) with
      | some c' => .ok c' (some (.unquoted ((phys.drop p).take (j - p))))
      | none => .panic
    | .miss => brun fuel .fallback c
    | .ub => .ub
  else if x == 34 then
    match fastQuoteP phys len len (p + 1) false with
    | .hit j _ =>
      match badvance c (j + 1) with
      | some c' => .ok c' (some (.quoted ((phys.drop (p + 1)).take (j - (p + 1)))))
      | none => .panic
    | .miss => brun fuel .fallback c
    | .ub => .ub
  else brun fuel .fallback c

theorem bnextOpt_eq (fuel : Nat) (c : BReader) :
    bnextOpt fuel c =
      if c.end_ - c.start < 9 then brun fuel .fallback c
      else
        match read64 (c.buf.drop c.start) 0 with
        | none => .ub
        | some data =>
          match (c.buf.drop c.start)[leadingWhitespace data]? with
          | none => .ub
          | some x => bnextOptAt fuel c (leadingWhitespace data) x := by
  unfold bnextOpt bnextOptAt
  rfl

theorem bfast_unq_view (fuel : Nat) (c : BReader) (h : c.WF) (p : Nat) :
    (match fastUnqP (c.buf.drop c.start) (c.end_ - c.start) (c.end_ - c.start) (p + 1) with
      | .hit j x' =>
        match badvance c (if x' == 32 then j + 1 else j) with
        | some c' => BRes.ok c' (some (Token.unquoted (((c.buf.drop c.start).drop p).take (j - p))))
        | none => .panic
      | .miss => brun fuel .fallback c
      | .ub => .ub).view =
    (match fastUnq c.view.win c.view.win.length (p + 1) with
      | .hit j c' =>
        match advance c.view (if c' == 32 then j + 1 else j) with
        | some r' => Res.ok r' (some (Token.unquoted ((c.view.win.drop p).take (j - p))))
        | none => .panic
      | .miss => nextOptFallback fuel c.view
      | .ub => .ub) ∧
    (match fastUnqP (c.buf.drop c.start) (c.end_ - c.start) (c.end_ - c.start) (p + 1) with
      | .hit j x' =>
        match badvance c (if x' == 32 then j + 1 else j) with
        | some c' => BRes.ok c' (some (Token.unquoted (((c.buf.drop c.start).drop p).take (j - p))))
        | none => .panic
      | .miss => brun fuel .fallback c
      | .ub => .ub).WF := by
  have hlen : c.view.win.length = c.end_ - c.start := BReader.window_length h
  have hphys : c.end_ - c.start ≤ (c.buf.drop c.start).length := by
    have := h.1; have := h.2; simp only [List.length_drop]; omega
  have hw : c.view.win = (c.buf.drop c.start).take (c.end_ - c.start) := rfl
  rw [fastUnqP_eq _ _ hphys, hlen, hw]
  cases hf : fastUnq ((c.buf.drop c.start).take (c.end_ - c.start)) (c.end_ - c.start) (p + 1) with
  | hit j x' =>
    simp only
    have hj := getElem?_lt (fastUnq_findIdx hf).2.2
    rw [← hw, hlen] at hj
    rw [take_drop_phys _ _ _ _ (by omega)]
    exact res_adv h _ (fun c' => .ok c' (some (Token.unquoted (((c.buf.drop c.start).drop p).take (j - p)))))
      (fun r' => .ok r' (some (Token.unquoted (((c.buf.drop c.start).drop p).take (j - p)))))
      (fun c' hc' => ⟨rfl, hc'⟩)
  | miss => exact brun_view fuel .fallback c h
  | ub => exact ⟨rfl, trivial⟩

theorem bfast_quote_view (fuel : Nat) (c : BReader) (h : c.WF) (p : Nat) :
    (match fastQuoteP (c.buf.drop c.start) (c.end_ - c.start) (c.end_ - c.start) (p + 1) false with
      | .hit j _ =>
        match badvance c (j + 1) with
        | some c' => BRes.ok c' (some (Token.quoted (((c.buf.drop c.start).drop (p + 1)).take (j - (p + 1)))))
        | none => .panic
      | .miss => brun fuel .fallback c
      | .ub => .ub).view =
    (match fastQuote c.view.win c.view.win.length (p + 1) false with
      | .hit j _ =>
        match advance c.view (j + 1) with
        | some r' => Res.ok r' (some (Token.quoted ((c.view.win.drop (p + 1)).take (j - (p + 1)))))
        | none => .panic
      | .miss => nextOptFallback fuel c.view
      | .ub => .ub) ∧
    (match fastQuoteP (c.buf.drop c.start) (c.end_ - c.start) (c.end_ - c.start) (p + 1) false with
      | .hit j _ =>
        match badvance c (j + 1) with
        | some c' => BRes.ok c' (some (Token.quoted (((c.buf.drop c.start).drop (p + 1)).take (j - (p + 1)))))
        | none => .panic
      | .miss => brun fuel .fallback c
      | .ub => .ub).WF := by
  have hlen : c.view.win.length = c.end_ - c.start := BReader.window_length h
  have hphys : c.end_ - c.start ≤ (c.buf.drop c.start).length := by
    have := h.1; have := h.2; simp only [List.length_drop]; omega
  have hw : c.view.win = (c.buf.drop c.start).take (c.end_ - c.start) := rfl
  rw [fastQuoteP_eq _ _ hphys, hlen, hw]
  cases hf : fastQuote ((c.buf.drop c.start).take (c.end_ - c.start)) (c.end_ - c.start) (p + 1) false with
  | hit j x' =>
    simp only
    have hj := getElem?_lt (fastQuote_spec _ _ _ _ _ _ hf).2.2
    rw [← hw, hlen] at hj
    rw [take_drop_phys _ _ _ _ (by omega)]
    exact res_adv h _ (fun c' => .ok c' (some (Token.quoted (((c.buf.drop c.start).drop (p + 1)).take (j - (p + 1))))))
      (fun r' => .ok r' (some (Token.quoted (((c.buf.drop c.start).drop (p + 1)).take (j - (p + 1))))))
      (fun c' hc' => ⟨rfl, hc'⟩)
  | miss => exact brun_view fuel .fallback c h
  | ub => exact ⟨rfl, trivial⟩

theorem bnextOptAt_view (fuel : Nat) (c : BReader) (h : c.WF) (p : Nat) (x : UInt8) :
    (bnextOptAt fuel c p x).view = nextOptAt fuel c.view p x ∧ (bnextOptAt fuel c p x).WF := by
  unfold bnextOptAt nextOptAt
  simp only
  split
  · exact res_adv h _ (fun c' => .ok c' (some Token.open_)) (fun r' => .ok r' (some Token.open_)) (fun c' hc' => ⟨rfl, hc'⟩)
  split
  · exact res_adv h _ (fun c' => .ok c' (some Token.close)) (fun r' => .ok r' (some Token.close)) (fun c' hc' => ⟨rfl, hc'⟩)
  split
  · exact bfast_unq_view fuel c h p
  split
  · exact bfast_quote_view fuel c h p
  · exact brun_view fuel .fallback c h

/-- **`next_opt` over the concrete buffer is `next_opt` over the window.** -/
theorem bnextOpt_view (fuel : Nat) (c : BReader) (h : c.WF) :
    (bnextOpt fuel c).view = nextOpt fuel c.view ∧ (bnextOpt fuel c).WF := by
  have hlen : c.view.win.length = c.end_ - c.start := BReader.window_length h
  have hw : c.view.win = (c.buf.drop c.start).take (c.end_ - c.start) := rfl
  rw [nextOpt_eq, bnextOpt_eq, hlen]
  split
  · exact brun_view fuel .fallback c h
  rename_i h9
  rw [hw, ← read64_phys (c.buf.drop c.start) (c.end_ - c.start) 0 (by omega)]
  cases hr : read64 (c.buf.drop c.start) 0 with
  | none => exact ⟨rfl, trivial⟩
  | some data =>
    simp only
    have hp8 := Swar.leadingWhitespace_le data
    rw [← getElem?_phys (c.buf.drop c.start) (c.end_ - c.start) (leadingWhitespace data) (by omega)]
    cases hx : (c.buf.drop c.start)[leadingWhitespace data]? with
    | none => exact ⟨rfl, trivial⟩
    | some x => exact bnextOptAt_view fuel c h _ x

def BRun.view (x : BRun) : Run := { toks := x.toks, out := x.out, final := x.final.view }

theorem blexAll_view (fuel : Nat) : ∀ (n : Nat) (c : BReader) (acc : List Token), c.WF →
    (blexAll fuel n c acc).view = lexAll fuel n c.view acc := by
  intro n
  induction n with
  | zero => intro c acc _; rfl
  | succ n ih =>
    intro c acc h
    obtain ⟨hv, hw⟩ := bnextOpt_view fuel c h
    rw [blexAll, lexAll]
    unfold next
    rw [← hv]
    cases hb : bnextOpt fuel c with
    | ok c' a =>
      rw [hb] at hw
      cases a with
      | none => rfl
      | some t => exact ih c' (t :: acc) hw
    | err c' e => rfl
    | panic => rfl
    | ub => rfl
    | fuel => rfl

/-- **the token stream does not depend on what the caller-provided buffer held.** -/
theorem streamTokensBuf_view (buf : Bytes) (sched : List Step) (data : Bytes) :
    (streamTokensBuf buf sched data).view = streamTokens buf.length sched data :=
  blexAll_view _ _ (BReader.ofBuffer buf sched data) [] ⟨Nat.le_refl _, Nat.zero_le _⟩

/-! ### `read`, `read_bytes`, `skip_container`, `skip_unquoted_value` -/

theorem bread_view (fuel : Nat) (c : BReader) (h : c.WF) :
    (bread fuel c).view = read fuel c.view ∧ (bread fuel c).WF := by
  obtain ⟨hv, hw⟩ := bnextOpt_view fuel c h
  unfold bread read
  rw [← hv]
  cases hb : bnextOpt fuel c with
  | ok c' a =>
    rw [hb] at hw
    cases a with
    | none => exact ⟨rfl, hw⟩
    | some t => exact ⟨rfl, hw⟩
  | err c' e => rw [hb] at hw; exact ⟨rfl, hw⟩
  | panic => exact ⟨rfl, trivial⟩
  | ub => exact ⟨rfl, trivial⟩
  | fuel => exact ⟨rfl, trivial⟩

theorem breadBytes_view : ∀ (fuel : Nat) (c : BReader) (n : Nat), c.WF →
    (breadBytes fuel c n).view = readBytes fuel c.view n ∧ (breadBytes fuel c n).WF := by
  intro fuel
  induction fuel with
  | zero => intro c n _; exact ⟨rfl, trivial⟩
  | succ f ih =>
    intro c n h
    rw [breadBytes, readBytes]
    have hlen : c.view.win.length = c.end_ - c.start := BReader.window_length h
    rw [hlen]
    split
    · obtain ⟨hfv, hfw⟩ := fill_view h
      rw [hfv]
      generalize bfillBuf c = fr at hfw
      obtain ⟨c', fl⟩ := fr
      simp only at hfw ⊢
      cases fl with
      | ok k =>
        cases k with
        | zero => exact ⟨rfl, hfw⟩
        | succ k => exact ih c' n hfw
      | full => exact ⟨rfl, hfw⟩
      | io => exact ⟨rfl, hfw⟩
    · exact res_adv h n (fun c' => .ok c' (c.window.take n)) (fun r' => .ok r' (c.window.take n)) (fun c' hc' => ⟨rfl, hc'⟩)

/-- the scan of `skip_container` sees the window only -/
theorem skipScanP_eq (phys : Bytes) (len : Nat) (hl : len ≤ phys.length) : ∀ (f : Nat) (st : SkipSt) (depth : Int) (ptr : Nat),
    ptr ≤ len → skipScanP phys len f st depth ptr = skipScan (phys.take len) f st depth ptr := by
  have hlen : (phys.take len).length = len := by simp; omega
  intro f
  induction f with
  | zero => intro st depth ptr _; rfl
  | succ f ih =>
    intro st depth ptr hp
    cases st with
    | none =>
      rw [skipScanP, skipScan, hlen]
      have hchunk : (if len - ptr > 8 then (read64 phys ptr).map (fun data => chunkStep data depth) else some none) =
          (if len - ptr > 8 then (read64 (phys.take len) ptr).map (fun data => chunkStep data depth) else some none) := by
        split
        · rw [read64_phys phys len ptr (by omega)]
        · rfl
      simp only [hchunk]
      generalize hch : (if len - ptr > 8 then (read64 (phys.take len) ptr).map (fun data => chunkStep data depth) else some none) = chunk
      cases chunk with
      | none => rfl
      | some o =>
        cases o with
        | some d =>
          simp only
          have hgt : len - ptr > 8 := by
            by_cases hg : len - ptr > 8
            · exact hg
            · simp [hg] at hch
          exact ih .none d (ptr + 8) (by omega)
        | none =>
          simp only
          split
          · rfl
          · rename_i hne
            have hlt : ptr < len := by
              have : ptr ≠ len := by simpa using hne
              omega
            rw [getElem?_phys phys len ptr hlt]
            cases (phys.take len)[ptr]? with
            | none => rfl
            | some val =>
              simp only
              split; · exact ih _ _ _ (by omega)
              split
              · split
                · rfl
                · exact ih _ _ _ (by omega)
              split; · exact ih _ _ _ (by omega)
              split; · exact ih _ _ _ (by omega)
              exact ih _ _ _ (by omega)
    | quote =>
      rw [skipScanP, skipScan, hlen]
      split
      · rfl
      · rename_i hne
        have hlt : ptr < len := by
          have : ptr ≠ len := by simpa using hne
          omega
        rw [getElem?_phys phys len ptr hlt]
        cases (phys.take len)[ptr]? with
        | none => rfl
        | some x =>
          simp only
          split
          · split
            · rfl
            · exact ih _ _ _ (by omega)
          · split
            · exact ih _ _ _ (by omega)
            · exact ih _ _ _ (by omega)
    | comment =>
      rw [skipScanP, skipScan, hlen]
      split
      · rfl
      · rename_i hne
        have hlt : ptr < len := by
          have : ptr ≠ len := by simpa using hne
          omega
        rw [getElem?_phys phys len ptr hlt]
        cases (phys.take len)[ptr]? with
        | none => rfl
        | some x =>
          simp only
          split
          · exact ih _ _ _ (by omega)
          · exact ih _ _ _ (by omega)

theorem bskipLoop_view : ∀ (fuel : Nat) (c : BReader) (st : SkipSt) (depth : Int) (ptr : Nat), c.WF → ptr ≤ c.end_ - c.start →
    (bskipLoop fuel c st depth ptr).view = skipLoop fuel c.view st depth ptr ∧ (bskipLoop fuel c st depth ptr).WF := by
  intro fuel
  induction fuel with
  | zero => intro c st depth ptr _ _; exact ⟨rfl, trivial⟩
  | succ f ih =>
    intro c st depth ptr h hp
    have hlen : c.view.win.length = c.end_ - c.start := BReader.window_length h
    have hphys : c.end_ - c.start ≤ (c.buf.drop c.start).length := by
      have := h.1; have := h.2; simp only [List.length_drop]; omega
    have hw : c.view.win = (c.buf.drop c.start).take (c.end_ - c.start) := rfl
    rw [bskipLoop, skipLoop, skipScanP_eq _ _ hphys _ _ _ _ hp, hlen, hw]
    cases skipScan ((c.buf.drop c.start).take (c.end_ - c.start)) (c.end_ - c.start + 2) st depth ptr with
    | done p => exact res_adv h p (fun c' => .ok c' ()) (fun r' => .ok r' ()) (fun c' hc' => ⟨rfl, hc'⟩)
    | refill st' depth' p =>
      simp only
      rw [advance_view h]
      cases hb : badvance c p with
      | none => exact ⟨rfl, trivial⟩
      | some c0 =>
        have h0 := badvance_WF h hb
        simp only [Option.map_some]
        obtain ⟨hfv, hfw⟩ := fill_view h0
        rw [hfv]
        generalize bfillBuf c0 = fr at hfw
        obtain ⟨c1, fl⟩ := fr
        simp only at hfw ⊢
        cases fl with
        | ok k =>
          cases k with
          | zero => exact ⟨rfl, hfw⟩
          | succ k => exact ih c1 st' depth' 0 hfw (Nat.zero_le _)
        | full => exact ⟨rfl, hfw⟩
        | io => exact ⟨rfl, hfw⟩
    | ub => exact ⟨rfl, trivial⟩
    | fuel => exact ⟨rfl, trivial⟩

theorem bskipContainer_view (fuel : Nat) (c : BReader) (h : c.WF) :
    (bskipContainer fuel c).view = skipContainer fuel c.view ∧ (bskipContainer fuel c).WF :=
  bskipLoop_view fuel c .none 1 0 h (Nat.zero_le _)

theorem head4_spec (l : Bytes) : head4 l = 0 ∨ (head4 l = 4 ∧ ∃ tl, l = 10 :: 9 :: 9 :: 9 :: tl) := by
  rcases l with _ | ⟨b0, _ | ⟨b1, _ | ⟨b2, _ | ⟨b3, rest⟩⟩⟩⟩
  · left; rfl
  · left; rfl
  · left; rfl
  · left; rfl
  · simp only [head4]
    split
    · rename_i hc
      right
      simp only [Bool.and_eq_true, beq_iff_eq] at hc
      obtain ⟨⟨⟨rfl, rfl⟩, rfl⟩, rfl⟩ := hc
      exact ⟨rfl, rest, rfl⟩
    · left; rfl

/-- skipping the four blanks `\n\t\t\t` first does not change the blank scan -/
theorem skipUScan_skip4 (tl : Bytes) : skipUScan ((10 :: 9 :: 9 :: 9 :: tl).drop 4) 4 = skipUScan (10 :: 9 :: 9 :: 9 :: tl) 0 := by
  simp [skipUScan, isBlank]

theorem bskipUnquotedValue_view : ∀ (fuel : Nat) (c : BReader), c.WF →
    (bskipUnquotedValue fuel c).view = skipUnquotedValue fuel c.view ∧ (bskipUnquotedValue fuel c).WF := by
  intro fuel
  induction fuel with
  | zero => intro c _; exact ⟨rfl, trivial⟩
  | succ f ih =>
    intro c h
    have hphys : c.end_ - c.start ≤ (c.buf.drop c.start).length := by
      have := h.1; have := h.2; simp only [List.length_drop]; omega
    have hw : c.view.win = c.window := rfl
    rw [bskipUnquotedValue, skipUnquotedValue_unfold]
    simp only [hw]
    -- the window scan from the start
    have hscan : skipUScan (c.window.drop (if c.end_ - c.start ≥ 4 then head4 (c.buf.drop c.start) else 0))
        (if c.end_ - c.start ≥ 4 then head4 (c.buf.drop c.start) else 0) = skipUScan c.window 0 := by
      split
      · rename_i h4
        rcases head4_spec (c.buf.drop c.start) with h0 | ⟨h4', tl, htl⟩
        · rw [h0]; rfl
        · rw [h4']
          have hwin : c.window = 10 :: 9 :: 9 :: 9 :: tl.take (c.end_ - c.start - 4) := by
            unfold BReader.window
            rw [htl]
            obtain ⟨k, hk⟩ : ∃ k, c.end_ - c.start = k + 4 := ⟨c.end_ - c.start - 4, by omega⟩
            rw [hk]; simp
          rw [hwin]; exact skipUScan_skip4 _
      · rfl
    rw [hscan]
    cases skipUScan c.window 0 with
    | open_ p =>
      simp only
      rw [advance_view h]
      cases hb : badvance c (p + 1) with
      | none => exact ⟨rfl, trivial⟩
      | some c' => exact bskipContainer_view (f + 1) c' (badvance_WF h hb)
    | stop => exact ⟨rfl, h⟩
    | windowEnd =>
      simp only
      rw [advance_view h]
      cases hb : badvance c c.window.length with
      | none => exact ⟨rfl, trivial⟩
      | some c0 =>
        have h0 := badvance_WF h hb
        simp only [Option.map_some]
        obtain ⟨hfv, hfw⟩ := fill_view h0
        rw [hfv]
        generalize bfillBuf c0 = fr at hfw
        obtain ⟨c1, fl⟩ := fr
        simp only at hfw ⊢
        cases fl with
        | ok k =>
          cases k with
          | zero => exact ⟨rfl, hfw⟩
          | succ k => exact ih c1 hfw
        | full => exact ⟨rfl, hfw⟩
        | io => exact ⟨rfl, hfw⟩

/-! ### any sequence of API calls -/

/-- what a caller observes of one call -/
inductive Obs
  | next (t : Option Token)
  | token (t : Token)
  | bytes (b : Bytes)
  | unit
  | err (e : Err)
  | panic
  | ub
  | fuel
  deriving DecidableEq, Repr

def Res.obs {α : Type} (f : α → Obs) (r0 : Reader) : Res α → Obs × Reader
  | .ok r a => (f a, r)
  | .err r e => (.err e, r)
  | .panic => (.panic, r0)
  | .ub => (.ub, r0)
  | .fuel => (.fuel, r0)

def BRes.obs {α : Type} (f : α → Obs) (c0 : BReader) : BRes α → Obs × BReader
  | .ok c a => (f a, c)
  | .err c e => (.err e, c)
  | .panic => (.panic, c0)
  | .ub => (.ub, c0)
  | .fuel => (.fuel, c0)

/-- one call on the abstract reader: the observation and the reader afterwards (also after an error) -/
def apiStep (fuel : Nat) : ApiCall → Reader → Obs × Reader
  | .next, r => (next fuel r).obs .next r
  | .read, r => (read fuel r).obs .token r
  | .readBytes n, r => (readBytes fuel r n).obs .bytes r
  | .skipContainer, r => (skipContainer fuel r).obs (fun _ => .unit) r
  | .skipUnquotedValue, r => (skipUnquotedValue fuel r).obs (fun _ => .unit) r

/-- one call on the reader over the concrete buffer -/
def bapiStep (fuel : Nat) : ApiCall → BReader → Obs × BReader
  | .next, c => (bnextOpt fuel c).obs .next c
  | .read, c => (bread fuel c).obs .token c
  | .readBytes n, c => (breadBytes fuel c n).obs .bytes c
  | .skipContainer, c => (bskipContainer fuel c).obs (fun _ => .unit) c
  | .skipUnquotedValue, c => (bskipUnquotedValue fuel c).obs (fun _ => .unit) c

def apiRun (fuel : Nat) : List ApiCall → Reader → List Obs
  | [], _ => []
  | op :: ops, r => (apiStep fuel op r).1 :: apiRun fuel ops (apiStep fuel op r).2

def bapiRun (fuel : Nat) : List ApiCall → BReader → List Obs
  | [], _ => []
  | op :: ops, c => (bapiStep fuel op c).1 :: bapiRun fuel ops (bapiStep fuel op c).2

theorem obs_view {α : Type} (f : α → Obs) (c : BReader) (h : c.WF) (x : BRes α) (y : Res α) (hv : x.view = y) (hw : x.WF) :
    (x.obs f c).1 = (y.obs f c.view).1 ∧ (x.obs f c).2.view = (y.obs f c.view).2 ∧ (x.obs f c).2.WF := by
  subst hv
  cases x with
  | ok c' a => exact ⟨rfl, rfl, hw⟩
  | err c' e => exact ⟨rfl, rfl, hw⟩
  | panic => exact ⟨rfl, rfl, h⟩
  | ub => exact ⟨rfl, rfl, h⟩
  | fuel => exact ⟨rfl, rfl, h⟩

theorem bapiStep_view (fuel : Nat) (op : ApiCall) (c : BReader) (h : c.WF) :
    (bapiStep fuel op c).1 = (apiStep fuel op c.view).1 ∧ (bapiStep fuel op c).2.view = (apiStep fuel op c.view).2 ∧
    (bapiStep fuel op c).2.WF := by
  cases op with
  | next => exact obs_view _ c h _ _ (bnextOpt_view fuel c h).1 (bnextOpt_view fuel c h).2
  | read => exact obs_view _ c h _ _ (bread_view fuel c h).1 (bread_view fuel c h).2
  | readBytes n => exact obs_view _ c h _ _ (breadBytes_view fuel c n h).1 (breadBytes_view fuel c n h).2
  | skipContainer => exact obs_view _ c h _ _ (bskipContainer_view fuel c h).1 (bskipContainer_view fuel c h).2
  | skipUnquotedValue => exact obs_view _ c h _ _ (bskipUnquotedValue_view fuel c h).1 (bskipUnquotedValue_view fuel c h).2

/-- **every sequence of API calls** — `next`, `read`, `read_bytes(n)`, `skip_container`, `skip_unquoted_value` in any order,
continuing after errors — observes over the concrete buffer exactly what it observes over the abstract window -/
theorem bapiRun_view (fuel : Nat) : ∀ (ops : List ApiCall) (c : BReader), c.WF → bapiRun fuel ops c = apiRun fuel ops c.view := by
  intro ops
  induction ops with
  | nil => intro c _; rfl
  | cons op ops ih =>
    intro c h
    obtain ⟨h1, h2, h3⟩ := bapiStep_view fuel op c h
    simp only [bapiRun, apiRun]
    rw [h1, ih _ h3, h2]

end Jomini.TextReader
