import JominiModel.Spec.TextDoc
import JominiModel.Proofs.TextDeStream
/-
C02, what the full text syntax adds: operators other than `=` are dropped by every target that is not
a `Property` (on both paths: `valueOf` is what both compute, Proofs/TextDeStream.lean,
Proofs/TextDeTapeNested.lean).
-/
namespace Jomini.TextDe
open Jomini Jomini.TextDoc

mutual
/-- no `Property` anywhere in the type -/
def propFree : Ty → Bool
  | .prop _ => false
  | .opt t | .seq t | .map t => propFree t
  | .st fs => propFreeFs fs
  | .tup ts => propFreeTs ts
  | _ => true
def propFreeFs : List (Bytes × Ty) → Bool
  | [] => true
  | (_, t) :: r => propFree t && propFreeFs r
def propFreeTs : List Ty → Bool
  | [] => true
  | t :: r => propFree t && propFreeTs r
end

mutual
/-- the value with every operator replaced by `=` -/
def eqOps : Node → Node
  | .leaf l => .leaf l
  | .obj fs => .obj (eqOpsF fs)
  | .arr vs => .arr (eqOpsN vs)
  | .hdr n b => .hdr n (eqOps b)
def eqOpsF : List (Key × Op × Node) → List (Key × Op × Node)
  | [] => []
  | (k, _, v) :: r => (k, .eq, eqOps v) :: eqOpsF r
def eqOpsN : List Node → List Node
  | [] => []
  | v :: r => eqOps v :: eqOpsN r
end

theorem propFree_lookup (name : Bytes) : ∀ (fs : List (Bytes × Ty)) (j i : Nat) (t : Ty),
    propFreeFs fs = true → lookupIdx name fs j = some (i, t) → propFree t = true
  | [], j, i, t, _, h => by simp [lookupIdx] at h
  | (n, t0) :: r, j, i, t, hp, h => by
      simp only [propFreeFs, Bool.and_eq_true] at hp
      simp only [lookupIdx] at h
      split at h
      · simp only [Option.some.injEq, Prod.mk.injEq] at h
        rw [← h.2]; exact hp.1
      · exact propFree_lookup name r (j + 1) i t hp.2 h

theorem expand_eqOps : ∀ (vs : List Node), expandNodes (eqOpsN vs) = (expandNodes vs).map eqOps
  | [] => rfl
  | .leaf l :: r => by simp [eqOpsN, eqOps, expandNodes, expand_eqOps r]
  | .obj fs :: r => by simp [eqOpsN, eqOps, expandNodes, expand_eqOps r]
  | .arr vs :: r => by simp [eqOpsN, eqOps, expandNodes, expand_eqOps r]
  | .hdr n b :: r => by simp [eqOpsN, eqOps, expandNodes, expand_eqOps r]

mutual
theorem anyVal_eqOps (enc : Enc) : ∀ (v : Node), anyVal enc (eqOps v) = anyVal enc v
  | .leaf l => rfl
  | .obj fs => by simp [eqOps, anyVal]
  | .arr vs => by simp only [eqOps, anyVal, anyVals_eqOps enc vs]
  | .hdr n b => by simp [eqOps, anyVal]
theorem anyVals_eqOps (enc : Enc) : ∀ (vs : List Node), anyVals enc (eqOpsN vs) = anyVals enc vs
  | [] => rfl
  | .leaf l :: r => by simp only [eqOpsN, eqOps, anyVals, anyVals_eqOps enc r]
  | .obj fs :: r => by simp [eqOpsN, eqOps, anyVals, anyVal]
  | .arr vs :: r => by simp only [eqOpsN, eqOps, anyVals, anyVal, anyVals_eqOps enc vs, anyVals_eqOps enc r]
  | .hdr n b :: r => by simp only [eqOpsN, eqOps, anyVals, anyVal_eqOps enc b, anyVals_eqOps enc r]
end

theorem seqVals_congr (F G : Node → R Val) : ∀ (vs : List Node), (∀ v, v ∈ vs → F v = G (eqOps v)) →
    seqVals F vs = seqVals G (vs.map eqOps)
  | [], _ => rfl
  | v :: r, h => by
      simp only [seqVals, List.map_cons, ← h v (List.mem_cons_self ..),
        seqVals_congr F G r (fun v' hm => h v' (List.mem_cons_of_mem _ hm))]

theorem tupVals_congr (F G : Ty → Node → R Val) : ∀ (ts : List Ty) (xs : List Node), propFreeTs ts = true →
    (∀ t x, propFree t = true → F t x = G t (eqOps x)) → tupVals F ts xs = tupVals G ts (xs.map eqOps)
  | [], xs, _, _ => by simp [tupVals]
  | t :: r, [], _, _ => by simp [tupVals]
  | t :: r, x :: xs, hp, h => by
      simp only [propFreeTs, Bool.and_eq_true] at hp
      simp only [tupVals, List.map_cons, ← h t x hp.1, tupVals_congr F G r xs hp.2 h]

theorem mapVals_congr (enc : Enc) (F G : Op → Node → R Val) (h : ∀ o v, F o v = G .eq (eqOps v)) :
    ∀ (dfs : List (Key × Op × Node)) (acc : List (Val × Val)), mapVals enc F dfs acc = mapVals enc G (eqOpsF dfs) acc
  | [], acc => rfl
  | (k, o, v) :: r, acc => by
      simp only [mapVals, eqOpsF, ← h o v]
      cases F o v with
      | error e => rfl
      | ok x => exact mapVals_congr enc F G h r _

theorem structVals_congr (enc : Enc) (fs : List (Bytes × Ty)) (F G : Ty → Op → Node → R Val)
    (h : ∀ i t name, lookupIdx name fs 0 = some (i, t) → ∀ o v, F t o v = G t .eq (eqOps v)) :
    ∀ (dfs : List (Key × Op × Node)) (seen : List (Nat × Val)),
      structVals enc fs F dfs seen = structVals enc fs G (eqOpsF dfs) seen
  | [], seen => rfl
  | (k, o, v) :: r, seen => by
      simp only [structVals, eqOpsF]
      cases hl : lookupIdx (decode enc k.bytes) fs 0 with
      | none => exact structVals_congr enc fs F G h r seen
      | some it =>
        obtain ⟨i, t⟩ := it
        simp only []
        split
        · rfl
        · rw [← h i t _ hl o v]
          cases F t o v with
          | error e => rfl
          | ok x => exact structVals_congr enc fs F G h r _

/-- operators other than `=` are dropped: under a target type without `Property` the value of a
document does not depend on its operators (at any depth) -/
theorem valueOfN_eqOps (enc : Enc) : ∀ (f : Nat) (ty : Ty) (o o' : Op) (v : Node), propFree ty = true →
    valueOfN enc f ty o v = valueOfN enc f ty o' (eqOps v) := by
  intro f
  induction f with
  | zero => intro ty o o' v _; rfl
  | succ f ih =>
    intro ty o o' v hp
    cases ty with
    | prop t => simp [propFree] at hp
    | ign => simp [valueOfN]
    | opt t => simp only [valueOfN, ih t o o' v (by simpa [propFree] using hp)]
    | seq t =>
      have ht : propFree t = true := by simpa [propFree] using hp
      cases v with
      | arr vs =>
        simp only [valueOfN, eqOps, expand_eqOps]
        rw [seqVals_congr _ (valueOfN enc f t .eq) _ (fun v _ => ih t .eq .eq v ht)]
      | leaf l => simp [valueOfN, eqOps]
      | obj fs => simp [valueOfN, eqOps]
      | hdr n b => simp [valueOfN, eqOps]
    | map t =>
      have ht : propFree t = true := by simpa [propFree] using hp
      cases v with
      | obj dfs =>
        simp only [valueOfN, eqOps]
        rw [mapVals_congr enc _ (valueOfN enc f t) (fun o v => ih t o .eq v ht)]
      | arr vs => cases vs <;> simp [valueOfN, eqOps, eqOpsN]
      | leaf l => simp [valueOfN, eqOps]
      | hdr n b => simp [valueOfN, eqOps]
    | st fs =>
      have hfs : propFreeFs fs = true := by simpa [propFree] using hp
      cases v with
      | obj dfs =>
        simp only [valueOfN, eqOps]
        rw [structVals_congr enc fs _ (valueOfN enc f)
          (fun i t name hl o v => ih t o .eq v (propFree_lookup name fs 0 i t hfs hl))]
      | arr vs => cases vs <;> simp [valueOfN, eqOps, eqOpsN]
      | leaf l => simp [valueOfN, eqOps]
      | hdr n b => simp [valueOfN, eqOps]
    | tup ts =>
      have hts : propFreeTs ts = true := by simpa [propFree] using hp
      cases v with
      | arr vs =>
        simp only [valueOfN, eqOps, expand_eqOps]
        rw [tupVals_congr _ (fun t x => valueOfN enc f t .eq x) ts _ hts (fun t x ht => ih t .eq .eq x ht)]
      | leaf l => simp [valueOfN, eqOps]
      | obj fs => simp [valueOfN, eqOps]
      | hdr n b => simp [valueOfN, eqOps]
    | any => simp only [valueOfN, anyVal_eqOps]
    | bool => cases v <;> simp [valueOfN, eqOps]
    | i64 => cases v <;> simp [valueOfN, eqOps]
    | u64 => cases v <;> simp [valueOfN, eqOps]
    | i32 => cases v <;> simp [valueOfN, eqOps]
    | u32 => cases v <;> simp [valueOfN, eqOps]
    | i16 => cases v <;> simp [valueOfN, eqOps]
    | u16 => cases v <;> simp [valueOfN, eqOps]
    | i8 => cases v <;> simp [valueOfN, eqOps]
    | u8 => cases v <;> simp [valueOfN, eqOps]
    | f64 => cases v <;> simp [valueOfN, eqOps]
    | f32 => cases v <;> simp [valueOfN, eqOps]
    | str => cases v <;> simp [valueOfN, eqOps]
    | en vs => cases v <;> simp [valueOfN, eqOps]

theorem valueOf_eqOps (enc : Enc) (ty : Ty) (d : Doc) (hp : propFree ty = true) :
    valueOf enc ty d = valueOf enc ty (eqOpsF d) := by
  cases ty <;> simp only [valueOf]
  · exact valueOfN_eqOps enc _ _ .eq .eq (.obj d) hp
  · exact valueOfN_eqOps enc _ _ .eq .eq (.obj d) hp

end Jomini.TextDe
