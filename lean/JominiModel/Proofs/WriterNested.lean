import JominiModel.Spec.WriterNested
import JominiModel.Proofs.WriterFlat
/-
Nested-object documents: the exact bytes the writer produces (C15_lexemes_nested).
-/
namespace Jomini.Writer
open Jomini Jomini.Writer.Spec
open Jomini.TextTape (Scal)

/-- what stays true of the machine while an object-only document is written at depth `d` -/
structure Inv (s : State) (c : UInt8) (f d : Nat) : Prop where
  depth : s.depth.length = d
  mixed : s.mixedMode = .disabled
  mode : s.mode = .object
  allObj : ∀ m ∈ s.depth, m = DepthMode.object
  ic : s.indentChar = c
  fac : s.indentFactor = f

theorem next_firstKey : WriteState.next .firstKey = some .keyValueSeparator := by decide

/-- a key (first or later) at any depth: pending newline, indentation, the bytes -/
theorem writeRaw_keylike (s : State) (x : Bytes) (hst : s.state = .key ∨ s.state = .firstKey) :
    writeRaw s x = .ok { s with out := s.out ++ ((if s.needsLineTerminator then [10] else []) ++ (List.replicate (s.depth.length * s.indentFactor) s.indentChar ++ x)), state := .keyValueSeparator, needsLineTerminator := false } := by
  obtain ⟨mode, depth, state, nlt, mixed, c, f, out⟩ := s
  simp only at hst
  rcases hst with rfl | rfl <;> cases nlt <;>
    simp [writeRaw, writePreamble, writeLineTerminator, writeEpilogue, writeIndent_eq, put, next_key,
      next_firstKey, WriteState.noDataYet, List.append_assoc]

theorem writeObjectStart_kvs (s : State) (hs : s.state = .keyValueSeparator) (hn : s.needsLineTerminator = false) :
    writeObjectStart s = { s with out := s.out ++ [61, 123], depth := s.mode :: s.depth, needsLineTerminator := true, mode := .object, state := .firstKey } := by
  obtain ⟨mode, depth, state, nlt, mixed, c, f, out⟩ := s
  simp only at hs hn
  subst hs hn
  simp [writeObjectStart, writeStart, writePreamble, writeLineTerminator, put]

theorem writeObjectStart_objectValue (s : State) (hs : s.state = .objectValue) (hn : s.needsLineTerminator = false) :
    writeObjectStart s = { s with out := s.out ++ [123], depth := s.mode :: s.depth, needsLineTerminator := true, mode := .object, state := .firstKey } := by
  obtain ⟨mode, depth, state, nlt, mixed, c, f, out⟩ := s
  simp only at hs hn
  subst hs hn
  simp [writeObjectStart, writeStart, writePreamble, writeLineTerminator, put, WriteState.noDataYet]

theorem writeEnd_key (s : State) (rest : List DepthMode) (hs : s.state = .key)
    (hd : s.depth = .object :: rest) :
    writeEnd s = .ok { s with depth := rest, mode := .object, state := .key, out := s.out ++ ([10] ++ (List.replicate (rest.length * s.indentFactor) s.indentChar ++ [125])), needsLineTerminator := true, mixedMode := .disabled } := by
  obtain ⟨mode, depth, state, nlt, mixed, c, f, out⟩ := s
  simp only at hs hd
  subst hs hd
  simp [writeEnd, WriteState.noDataYet, writeIndent_eq, put, List.append_assoc]

theorem run_cons_ok {s s1 : State} {c : Call} (cs : List Call) (h : step s c = .ok s1) :
    (run (c :: cs) s).1 = (run cs s1).1 := by
  simp [run, h]

theorem step_objectStart (s : State) : step s .objectStart = .ok (writeObjectStart s) := rfl
theorem step_end (s : State) : step s .end = writeEnd s := rfl

/-- the operator part of a field, from the state after the key: the machine is ready for the
value (`pre` = what the value's preamble will still write: `=` when the operator was left out) -/
theorem run_opCalls (o : Option Writer.Op) (s : State) (c : UInt8) (f d : Nat) (hi : Inv s c f d)
    (hs : s.state = .keyValueSeparator) (hn : s.needsLineTerminator = false) :
    ∃ s1 pre, (run (opCalls o) s).1 = s1 ∧ Inv s1 c f d ∧ s1.needsLineTerminator = false ∧
      s1.depth = s.depth ∧ s1.out ++ pre = s.out ++ sepText (opOf o) ∧
      ((s1.state = .keyValueSeparator ∧ pre = [61]) ∨ (s1.state = .objectValue ∧ pre = [])) := by
  cases o with
  | none =>
    exact ⟨s, [61], rfl, hi, hn, rfl, by simp [opOf, sepText], Or.inl ⟨hs, rfl⟩⟩
  | some o =>
    refine ⟨writeOperator s o, [], ?_, ?_, ?_, ?_, ?_, Or.inr ⟨?_, rfl⟩⟩
    · simp [opCalls, run, step_operator]
    · rw [writeOperator_kvs s o hi.mixed]
      exact ⟨hi.depth, hi.mixed, rfl, hi.allObj, hi.ic, hi.fac⟩
    · rw [writeOperator_kvs s o hi.mixed]; exact hn
    · rw [writeOperator_kvs s o hi.mixed]
    · rw [writeOperator_kvs s o hi.mixed]; simp [opOf]
    · rw [writeOperator_kvs s o hi.mixed]

mutual
theorem runV (c : UInt8) (f : Nat) : ∀ (v : NVal) (d : Nat) (s : State) (pre : Bytes), Inv s c f d →
    s.needsLineTerminator = false →
    ((s.state = .keyValueSeparator ∧ pre = [61]) ∨ (s.state = .objectValue ∧ pre = [])) →
    (run (ncallsV v) s).1.out = s.out ++ pre ++ textV c f d v ∧
    (run (ncallsV v) s).1.state = .key ∧ (run (ncallsV v) s).1.needsLineTerminator = true ∧
    Inv (run (ncallsV v) s).1 c f d ∧ (run (ncallsV v) s).1.depth = s.depth
  | .scal sc, d, s, pre, hi, hn, hst => by
    simp only [ncallsV, run, step_scall]
    rcases hst with ⟨hs, rfl⟩ | ⟨hs, rfl⟩
    · rw [writeRaw_kvs s _ hs hn]
      exact ⟨by simp [textV, List.append_assoc], rfl, rfl, ⟨hi.depth, hi.mixed, hi.mode, hi.allObj, hi.ic, hi.fac⟩, rfl⟩
    · rw [writeRaw_objectValue s _ hs hn]
      exact ⟨by simp [textV], rfl, rfl, ⟨hi.depth, hi.mixed, hi.mode, hi.allObj, hi.ic, hi.fac⟩, rfl⟩
  | .obj k o v r, d, s, pre, hi, hn, hst => by
    -- `{`
    obtain ⟨s1, hs1, hout1⟩ : ∃ s1, writeObjectStart s = s1 ∧ s1 = { s with out := s.out ++ pre ++ [123], depth := s.mode :: s.depth, needsLineTerminator := true, mode := .object, state := .firstKey } := by
      rcases hst with ⟨hs, rfl⟩ | ⟨hs, rfl⟩
      · exact ⟨_, rfl, by rw [writeObjectStart_kvs s hs hn]; simp⟩
      · exact ⟨_, rfl, by rw [writeObjectStart_objectValue s hs hn]; simp⟩
    have hi1 : Inv s1 c f (d + 1) := by
      rw [hout1]
      refine ⟨by simp [hi.depth], hi.mixed, rfl, ?_, hi.ic, hi.fac⟩
      intro m hm
      simp only [List.mem_cons] at hm
      rcases hm with rfl | hm
      · exact hi.mode
      · exact hi.allObj m hm
    have hcalls : ncallsV (.obj k o v r) = .objectStart :: (ncallsF (.cons k o v r) ++ [.end]) := by
      simp [ncallsV, ncallsF]
    rw [hcalls, run_cons_ok _ (step_objectStart s), hs1, run_append]
    -- the fields
    obtain ⟨hfo, hfs, hfn, hfi, hfd⟩ := runF c f (.cons k o v r) (d + 1) s1 hi1 (Or.inr (by rw [hout1]))
      (by intro h; cases h)
    -- `}`
    have hdep : (run (ncallsF (.cons k o v r)) s1).1.depth = .object :: s.depth := by
      rw [hfd, hout1, hi.mode]
    simp only [run, step_end]
    rw [writeEnd_key _ s.depth hfs hdep]
    refine ⟨?_, rfl, rfl, ⟨hi.depth, rfl, rfl, hi.allObj, hfi.ic, hfi.fac⟩, rfl⟩
    simp only []
    rw [hfo, hfi.ic, hfi.fac, hi.depth, hout1]
    simp [textV, textF, ind, List.append_assoc]

theorem runF (c : UInt8) (f : Nat) : ∀ (fs : NFields) (d : Nat) (s : State), Inv s c f d →
    (s.state = .key ∨ s.state = .firstKey) → (fs ≠ .nil) →
    (run (ncallsF fs) s).1.out = s.out ++ (textF c f d fs).drop (if s.needsLineTerminator then 0 else 1) ∧
    (run (ncallsF fs) s).1.state = .key ∧ (run (ncallsF fs) s).1.needsLineTerminator = true ∧
    Inv (run (ncallsF fs) s).1 c f d ∧ (run (ncallsF fs) s).1.depth = s.depth
  | .nil, _, _, _, _, h => absurd rfl h
  | .cons k o v r, d, s, hi, hst, _ => by
    -- key
    have hk := writeRaw_keylike s k.scal.text hst
    simp only [ncallsF]
    rw [run_cons_ok _ ((step_scall s k).trans hk)]
    obtain ⟨s1, hs1⟩ : ∃ s1, s1 = ({ s with out := s.out ++ ((if s.needsLineTerminator then [10] else []) ++ (List.replicate (s.depth.length * s.indentFactor) s.indentChar ++ k.scal.text)), state := .keyValueSeparator, needsLineTerminator := false } : State) := ⟨_, rfl⟩
    rw [← hs1]
    have hi1 : Inv s1 c f d := by rw [hs1]; exact ⟨hi.depth, hi.mixed, hi.mode, hi.allObj, hi.ic, hi.fac⟩
    -- operator
    rw [run_append]
    obtain ⟨s2, pre, h2, hi2, hn2, hd2, hout2, hst2⟩ := run_opCalls o s1 c f d hi1 (by rw [hs1]) (by rw [hs1])
    rw [h2, run_append]
    -- value
    obtain ⟨hvo, hvs, hvn, hvi, hvd⟩ := runV c f v d s2 pre hi2 hn2 hst2
    have hline : (run (ncallsV v) s2).1.out =
        s.out ++ (([10] ++ ind c f d ++ k.scal.text ++ sepText (opOf o) ++ textV c f d v).drop
          (if s.needsLineTerminator then 0 else 1)) := by
      rw [hvo, hout2, hs1, hi.depth, hi.ic, hi.fac]
      cases s.needsLineTerminator <;> simp [ind, List.append_assoc]
    -- the remaining fields
    cases r with
    | nil =>
      simp only [ncallsF, run]
      refine ⟨?_, hvs, hvn, hvi, by rw [hvd, hd2, hs1]⟩
      rw [hline]
      cases s.needsLineTerminator <;> simp [textF, List.append_assoc]
    | cons k' o' v' r' =>
      obtain ⟨hro, hrs, hrn, hri, hrd⟩ := runF c f (.cons k' o' v' r') d (run (ncallsV v) s2).1 hvi (Or.inl hvs)
        (by intro h; cases h)
      refine ⟨?_, hrs, hrn, hri, by rw [hrd, hvd, hd2, hs1]⟩
      rw [hro, hvn, hline]
      cases s.needsLineTerminator <;> simp [textF, List.append_assoc]
end

/-- the bytes of a nested-object call list (= `C15_lexemes_nested`) -/
theorem lexemes_nested (fs : NFields) (c : UInt8) (f : Nat) :
    (run (ncallsF fs) (State.init c f)).1.out = textRoot c f fs := by
  cases fs with
  | nil => rfl
  | cons k o v r =>
    have hi : Inv (State.init c f) c f 0 := ⟨rfl, rfl, rfl, by simp [State.init], rfl, rfl⟩
    have := (runF c f (.cons k o v r) 0 (State.init c f) hi (Or.inl rfl) (by intro h; cases h)).1
    simpa [State.init, textRoot] using this

end Jomini.Writer
