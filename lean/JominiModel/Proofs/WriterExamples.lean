import JominiModel.Proofs.WriterFullCalls
import JominiModel.Proofs.WriterSinkTape
/-
Concrete documents with PROVED hypotheses (validity, `FPlainF`, `CallsOKF`, `Good`, `Opened`) for the
examples next to `C14_roundtrip_full`, `C15_parse_back_full` and `C15_parse_back_containers`
(contributed by the statement audit).
-/
namespace Jomini.WriterExamples
open Jomini Jomini.Writer Jomini.Writer.Spec Jomini.TextTape

theorem hbnd (c : UInt8) (h : isBoundary c = true) (r : Bytes) : StartsBoundary (c :: r) := .inr ⟨c, r, rfl, h⟩
theorem sp : Blank [32] := .ws 32 [] (by decide +kernel) .nil
theorem uv (b : Bytes) (hne : b ≠ []) (h : ∀ c ∈ b, safeByte c = true) : (Scal.mk false b).Valid := valid_of_safe b hne h
theorem u (b : Bytes) (h : ∀ x ∈ b, safeByte x = true) (hne : b ≠ []) : (SCall.unq b).ValidX :=
  Or.inl (valid_of_safe b hne h)

/-- `a={ [[p] k=v ] b=rgb{ 1 } [[q] r ] }`: object-valued parameter block first, header field, trailing
scalar-valued parameter block -/
def dParams : FFields :=
  .cons [] ⟨false, [97]⟩ [] .eq
    (.obj [] [32] (.flds
        (.paramObj [] false [112] [32] ⟨false, [107]⟩ [] .eq (.scal [] ⟨false, [118]⟩) .nil [32]
          (.consHdr [32] ⟨false, [98]⟩ [] .eq [] ⟨false, [114, 103, 98]⟩
             (.arrS [] [32] ⟨false, [49]⟩ .nil [32])
             (.paramVal [32] false [113] [32] ⟨false, [114]⟩ [32] .nil))))
      .nil [32]) .nil

theorem dParams_text : frenderF dParams ++ [10] =
    [97,61,123,32,91,91,112,93,32,107,61,118,32,93,32,98,61,114,103,98,123,32,49,32,125,32,91,91,113,93,32,114,32,93,32,125,10] := by
  decide +kernel

theorem dParams_valid : FValidF dParams [10] := by
  simp only [dParams, FValidF, FValidV, FValidFirst, FValidVs, FFields.startsSpecial, FVal.isContainer, frenderF, frenderV, frenderVs,
    frenderFirst, Op.text, Scal.text, paramOpen, List.nil_append, List.append_nil, List.cons_append, and_true, true_and,
    Bool.false_eq_true, if_false, forall_const]
  and_intros
  all_goals first
    | exact Blank.nil
    | exact sp
    | rfl
    | exact ⟨by simp, by decide +kernel⟩
    | exact uv _ (by simp) (by decide +kernel)
    | exact .inl (uv _ (by simp) (by decide +kernel))
    | exact hbnd _ (by decide +kernel) _
    | (intro d2 h
       have e : skipWs ([32, 125, 32, 91, 91, 113, 93, 32, 114, 32, 93, 32, 125, 10] : Bytes) = some [125, 32, 91, 91, 113, 93, 32, 114, 32, 93, 32, 125, 10] := by decide +kernel
       rw [e] at h; cases h; decide +kernel)
    | (intro c hc; simp at hc; rcases hc with rfl | rfl | rfl <;> decide +kernel)
    | (intro c hc; simp at hc; subst hc; decide +kernel)
    | (simp; decide +kernel)
    | simp
    | exact ⟨_, _, rfl, by decide +kernel, by decide, by decide⟩
    | skip

theorem dParams_plain : FPlainF false dParams := by
  simp [dParams, FPlainF, FPlainV, FPlainFirst, FPlainVs, closesV, closesF, emptyC, openEnd, openEndFirst, fcntF, fcntV, fcntVs,
    Op.toks]

/-- `a={ b=rgb{ 1 } c={ x=y } } e={ 1 f=g {h=i} z }`: header as first field, nested object, an array that
turns mixed with an object in its array part -/
def dMixed : FFields :=
  .cons [] ⟨false, [97]⟩ [] .eq
    (.obj [] [32] (.flds
          (.consHdr [] ⟨false, [98]⟩ [] .eq [] ⟨false, [114, 103, 98]⟩
             (.arrS [] [32] ⟨false, [49]⟩ .nil [32])
             (.cons [32] ⟨false, [99]⟩ [] .eq (.obj [] [32] (.kv ⟨false, [120]⟩ [] .eq (.scal [] ⟨false, [121]⟩)) .nil [32]) .nil)))
      .nil [32])
  (.cons [32] ⟨false, [101]⟩ [] .eq
    (.arrSM [] [32] ⟨false, [49]⟩ .nil [32] ⟨false, [102]⟩ [] .eq
       (.scal [] ⟨false, [103]⟩ (.cont (.obj [32] [] (.kv ⟨false, [104]⟩ [] .eq (.scal [] ⟨false, [105]⟩)) .nil [])
          (.scal [32] ⟨false, [122]⟩ .nil))) [32]) .nil)

theorem dMixed_text : frenderF dMixed ++ [10] = [97,61,123,32,98,61,114,103,98,123,32,49,32,125,32,99,61,123,32,120,61,121,32,125,32,125,
    32,101,61,123,32,49,32,102,61,103,32,123,104,61,105,125,32,122,32,125,10] := by decide +kernel

theorem dMixed_valid : FValidF dMixed [10] := by
  simp only [dMixed, FValidF, FValidV, FValidFirst, FValidVs, FValidI, FFields.startsSpecial, FVal.isContainer, FVal.scalarLed,
    FFirst.scalarLed, frenderF, frenderV, frenderVs, frenderI,
    frenderFirst, Op.text, Scal.text, paramOpen, List.nil_append, List.append_nil, List.cons_append, and_true, true_and,
    Bool.false_eq_true, if_false, forall_const]
  and_intros
  all_goals first
    | exact Blank.nil
    | exact sp
    | rfl
    | exact hbnd _ (by decide +kernel) _
    | (intro d2 h; simp [skipWs, skipWsAux] at h; subst h; decide +kernel)
    | (intro c hc; simp at hc; rcases hc with rfl | rfl | rfl <;> decide +kernel)
    | (intro c hc; simp at hc; subst hc; decide +kernel)
    | (left; and_intros <;> first | (intro c hc; simp at hc; subst hc; decide +kernel) | exact ⟨_, _, rfl, by decide +kernel, by decide, by decide⟩)
    | (simp; decide +kernel)
    | simp
    | decide
    | exact ⟨_, _, rfl, by decide +kernel, by decide, by decide⟩
    | skip

theorem dMixed_plain : FPlainF false dMixed := by
  simp [dMixed, FPlainF, FPlainV, FPlainFirst, FPlainVs, FPlainI, closesV, closesF, closesFirst, emptyC, openEnd, openEndFirst, fcntF, fcntV, fcntVs,
    Op.toks, bareQuestion, gluesOp, Scal.text]

theorem dMixed_calls : CallsOKF dMixed := by
  simp [dMixed, CallsOKF, CallsOKV, CallsOKFirst, CallsOKVs, CallsOKI]

/-- `a={ { b=1 } 2 { } } c=rgb { 1 2 }` in call-list form: an array whose first element is an object opened with
`write_array_start` + operator, typed scalars, an empty container opened with `write_start`, a header -/
def gContainers : GFields := (.cons (.unq [97]) none
      (.arrC true (.obj .arrayStart (.cons (.unq [98]) (some .eq) (.scal (.i64 1)) .nil))
        (.cons (.scal (.i64 2)) (.cons (.empty .start) .nil)))
      (.hdr (.unq [99]) none [114, 103, 98] (.arrS false (.i64 1) (.cons (.scal (.i64 2)) .nil)) .nil))

theorem gContainers_opened : gContainers.Opened := by
  simp [gContainers, GFields.Opened, GVal.Opened, GVals.Opened, firstOpExplicit, GVal.isBraced]

theorem gContainers_good : gContainers.Good := by
  simp only [gContainers, GFields.Good, GVal.Good, GVals.Good, GVal.isContainer, SCall.ValidX, and_true, true_and]
  exact ⟨u _ (by decide +kernel) (by simp), u _ (by decide +kernel) (by simp), u _ (by decide +kernel) (by simp),
    valid_of_safe _ (by simp) (by decide +kernel)⟩

/-! ### the documents of the recorded findings (negative theorems `C14_known_*`, `C15_known_*`) -/

/-- `a={ [[p] v ] x=y }` -/
def kParamScalar : FFields :=
  .cons [] ⟨false, [97]⟩ [] .eq
    (.obj [] [32] (.flds (.paramVal [] false [112] [32] ⟨false, [118]⟩ [32]
      (.cons [32] ⟨false, [120]⟩ [] .eq (.scal [] ⟨false, [121]⟩) .nil))) .nil [32]) .nil

/-- `a={ 1 k={ b>c } }` -/
def kNestedOperator : FFields :=
  .cons [] ⟨false, [97]⟩ [] .eq
    (.arrSM [] [32] ⟨false, [49]⟩ .nil [32] ⟨false, [107]⟩ [] .eq
      (.cont (.obj [] [32] (.kv ⟨false, [98]⟩ [] .gt (.scal [] ⟨false, [99]⟩)) .nil [32]) .nil) [32]) .nil

/-- `a={ { {} } x }` -/
def kEmptyFirst : FFields :=
  .cons [] ⟨false, [97]⟩ [] .eq
    (.arrC [] (.ghostIn [32] [32] [] (.empty [] [32])) (.cons (.scal [32] ⟨false, [120]⟩) .nil) [32]) .nil

/-- `a=rgb { {} }` -/
def kHeaderEmpty : FFields :=
  .consHdr [] ⟨false, [97]⟩ [] .eq [] ⟨false, [114, 103, 98]⟩ (.ghostIn [32] [32] [] (.empty [] [32])) .nil

/-- `a={ 1 b=c { x } d=e f g }`: what the call list of `C15_known_mixed_mode_lost_after_container` describes -/
def kModeLost : FFields :=
  .cons [] ⟨false, [97]⟩ [] .eq
    (.arrSM [] [32] ⟨false, [49]⟩ .nil [32] ⟨false, [98]⟩ [] .eq
      (.scal [] ⟨false, [99]⟩ (.cont (.arrS [32] [32] ⟨false, [120]⟩ .nil [32])
        (.scal [32] ⟨false, [100]⟩ (.op [] .eq (.scal [] ⟨false, [101]⟩
          (.scal [32] ⟨false, [102]⟩ (.scal [32] ⟨false, [103]⟩ .nil))))))) [32]) .nil

/-- `a={ 1 b={ c>d } }`: what the call list of `C15_known_operator_under_stale_mixed_mode` describes -/
def kStaleOperator : FFields :=
  .cons [] ⟨false, [97]⟩ [] .eq
    (.arrSM [] [32] ⟨false, [49]⟩ .nil [32] ⟨false, [98]⟩ [] .eq
      (.cont (.obj [] [32] (.kv ⟨false, [99]⟩ [] .gt (.scal [] ⟨false, [100]⟩)) .nil [32]) .nil) [32]) .nil

theorem kParamScalar_not_plain : ¬ FPlainF false kParamScalar := by
  simp [kParamScalar, FPlainF, FPlainV, FPlainFirst, fcntF, fcntV, Op.toks]

theorem kNestedOperator_not_plain : ¬ FPlainF false kNestedOperator := by
  simp [kNestedOperator, FPlainF, FPlainV, FPlainFirst, FPlainVs, FPlainI]

theorem kEmptyFirst_not_plain : ¬ FPlainF false kEmptyFirst := by
  simp [kEmptyFirst, FPlainF, FPlainV, emptyC]

theorem kHeaderEmpty_not_plain : ¬ FPlainF false kHeaderEmpty := by
  simp [kHeaderEmpty, FPlainF, emptyC]

theorem kModeLost_not_callsOK : ¬ CallsOKF kModeLost := by
  simp [kModeLost, CallsOKF, CallsOKV, CallsOKVs, CallsOKI]

theorem kStaleOperator_not_plain : ¬ FPlainF false kStaleOperator := by
  simp [kStaleOperator, FPlainF, FPlainV, FPlainFirst, FPlainVs, FPlainI]

end Jomini.WriterExamples
