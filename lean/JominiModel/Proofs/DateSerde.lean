import JominiModel.Proofs.Date
/-
The glue around the date core (C13): the heuristic binary entry points and the range of
numbers the binary decoders accept.
-/
namespace Jomini.Date
open Jomini

/-- the numbers `from_binary` accepts lie between 1 January −32768 00h and 31 December 32767 23h;
nothing outside is wrapped into the range. -/
theorem Expanded.fromBinary_range (s : Int) (e : Expanded) (h : Expanded.fromBinary s = .ok e) :
    -243247680 ≤ s ∧ s ≤ 330847679 := by
  rcases Expanded.fromBinary_cases s with he | ⟨y, m, d, h0, hv, hh, hy, hb, _, _⟩
  · rw [he] at h; cases h
  · have ⟨o0, o1⟩ := ordinal_range hv
    rw [inI16_iff] at hy
    unfold binOf at hb
    omega

/-- `Date::from_binary_heuristic` = `Date::from_binary` restricted to years above −100 and to
numbers without an hour part (it keeps the decoded hour, which `Date` then refuses). -/
theorem Date.fromBinaryHeuristic_iff (s : Int) (x : Date) :
    Date.fromBinaryHeuristic s = .ok x ↔
      Date.fromBinary s = .ok x ∧ x.year > -100 ∧ s.tmod 24 = 0 := by
  rcases Expanded.fromBinary_cases s with he | ⟨y, m, d, h0, hv, hh, hy, hb, hm, he⟩
  · simp [Date.fromBinaryHeuristic, Date.fromBinary, he]
  · rw [Date.fromBinary_of_expanded hv he]
    unfold Date.fromBinaryHeuristic
    rw [he]
    simp only [Out.bind_ok, Date.fromExpanded]
    by_cases hy100 : y > -100
    · rw [if_pos hy100]
      by_cases h00 : h0 = 0
      · subst h00
        simp only [bne_self_eq_false, Bool.false_eq_true, if_false, Date.fromYmdOpt_eq, if_pos hv]
        constructor
        · intro h; cases h; exact ⟨rfl, hy100, by omega⟩
        · rintro ⟨h, _, _⟩; exact h
      · have : (h0 != 0) = true := by simp [h00]
        rw [if_pos this]
        constructor
        · intro h; cases h
        · rintro ⟨_, _, h3⟩; omega
    · rw [if_neg hy100]
      constructor
      · intro h; cases h
      · rintro ⟨h, h2, _⟩
        cases h
        exact absurd h2 hy100

/-- `DateHour::from_binary_heuristic` = `DateHour::from_binary` restricted to years from 1800 on,
plus the two "has not happened" dates ±1.1.1.1. -/
theorem DateHour.fromBinaryHeuristic_iff (s : Int) (x : DateHour) :
    DateHour.fromBinaryHeuristic s = .ok x ↔
      DateHour.fromBinary s = .ok x ∧
        (1800 ≤ x.year ∨ ((x.year = 1 ∨ x.year = -1) ∧ x.month = 1 ∧ x.day = 1 ∧ x.hour = 1)) := by
  unfold DateHour.fromBinaryHeuristic
  cases hf : DateHour.fromBinary s with
  | ok z =>
    simp only [Out.bind_ok]
    have hcond : ((decide (z.year < 1800) && !((z.year == 1 || z.year == -1) && z.month == 1 && z.day == 1 && z.hour == 1)) = true) ↔
        (z.year < 1800 ∧ ¬ ((z.year = 1 ∨ z.year = -1) ∧ z.month = 1 ∧ z.day = 1 ∧ z.hour = 1)) := by
      simp only [Bool.and_eq_true, decide_eq_true_eq, Bool.not_eq_true', Bool.or_eq_true, beq_iff_eq,
        ← Bool.not_eq_true, and_assoc]
    by_cases hk : z.year < 1800 ∧ ¬ ((z.year = 1 ∨ z.year = -1) ∧ z.month = 1 ∧ z.day = 1 ∧ z.hour = 1)
    · rw [if_pos (hcond.2 hk)]
      constructor
      · intro h; cases h
      · rintro ⟨h, hc⟩
        cases h
        rcases hc with h1800 | hmin
        · omega
        · exact absurd hmin hk.2
    · rw [if_neg (fun h => hk (hcond.1 h))]
      constructor
      · intro h
        cases h
        refine ⟨rfl, ?_⟩
        by_cases hy : x.year < 1800
        · right
          exact Classical.not_not.1 (fun hn => hk ⟨hy, hn⟩)
        · left; omega
      · rintro ⟨h, _⟩; exact h
  | err => simp
  | panic => simp

end Jomini.Date
