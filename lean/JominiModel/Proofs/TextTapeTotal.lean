import JominiModel.Proofs.TextTapeScalars
/-
The model of the text tape parser is total without its explicit `panic` / `outOfFuel` outcomes:
every iteration makes progress (so the fuel `2|d|+4` is enough) and, under the invariant, none of
the bounds-check / overflow sites is reachable.
-/
namespace Jomini.TextTape
open Jomini

/-- 1 in the two states that may hand the same cursor to the next iteration. -/
def flag (s : PState) : Nat :=
  match s with
  | .kvs | .parseOpen => 1
  | _ => 0

/-- progress of one iteration from cursor `d` (after `skip_ws_t`) in state `s`. -/
def Prog (s : PState) (d : Bytes) (s' : PState) (d' : Bytes) : Prop :=
  d'.length < d.length ∨ (d'.length = d.length ∧ flag s = 1 ∧ flag s' = 0)

theorem lexValue_shrink {tape tape' : List Tok} {d rest : Bytes} (h : lexValue tape d = .ok (tape', rest)) :
    rest.length < d.length := by
  obtain ⟨t, s, _, _, hg, _⟩ := lexValue_spec h
  obtain ⟨a, b, _, _⟩ := hg.2 s (by simp)
  omega

theorem parseScalarTok_shrink {tape tape' : List Tok} {d rest : Bytes}
    (h : parseScalarTok tape d = .ok (tape', rest)) : rest.length < d.length := by
  unfold parseScalarTok at h
  split at h
  · next s r hsp =>
    simp at h; obtain ⟨_, rfl⟩ := h
    obtain ⟨hd, hs⟩ := splitAtScalar_spec hsp
    have := congrArg List.length hd
    simp at this; omega
  · simp at h

theorem lexOperator_shrink {b : Bool} {d r : Bytes} {o : Op} (h : lexOperator b d = some (o, r)) :
    r.length < d.length := by
  unfold lexOperator at h
  split at h
  · simp at h
  · next c r0 =>
    have h2 : r0.tail.length ≤ r0.length := by simp
    simp only at h
    repeat' (split at h)
    all_goals (first | (simp at h; done) | skip)
    all_goals
      simp only [Option.some.injEq, Prod.mk.injEq] at h
      obtain ⟨_, rfl⟩ := h
      simp only [List.length_cons]
      omega

theorem paramDef_shrink {st st' : St} {data d' : Bytes} {i : Bool}
    (h : paramDef st data i = .cont st' d') : d'.length < data.length := by
  unfold paramDef at h
  split at h
  · contradiction
  · split at h
    · contradiction
    · exact paramDefBody_shrink h

/-- finish a progress goal after `split_cont h`. -/
macro "prog_close" h:ident hs:ident : tactic =>
  `(tactic| (
      first
      | exact Or.inl (paramDef_shrink $h)
      | (cases ‹Fail› <;> simp [Step.fail] at $h:ident; done)
      | (simp only [Step.cont.injEq] at $h:ident
         obtain ⟨h1, h2⟩ := $h
         subst h1
         subst h2
         try have hA := (skipWs_suffix ‹skipWs _ = some _›).length_le
         try have hB := lexValue_shrink ‹lexValue _ _ = Except.ok _›
         try have hC := lexOperator_shrink ‹lexOperator _ _ = some _›
         try have hD := parseScalarTok_shrink ‹parseScalarTok _ _ = Except.ok _›
         try simp only [List.length_cons] at hA
         try simp only [List.length_cons] at hB
         try simp only [List.length_cons] at hC
         try simp only [List.length_cons] at hD
         simp only [Prog, flag, $hs:ident, List.length_cons]
         first
         | (left; omega)
         | (right; simp))))

theorem stepKey_prog {st st' : St} {d d' : Bytes} (hs : st.state = .key)
    (h : stepKey st d = .cont st' d') : Prog st.state d st'.state d' := by
  unfold stepKey at h
  simp only at h
  split_cont h
  all_goals prog_close h hs

theorem stepKvs_prog {st st' : St} {d d' : Bytes} (hs : st.state = .kvs)
    (h : stepKvs st d = .cont st' d') : Prog st.state d st'.state d' := by
  unfold stepKvs at h
  split_cont h
  all_goals prog_close h hs

theorem stepObjectValue_prog {st st' : St} {d d' : Bytes} (hs : st.state = .objectValue)
    (h : stepObjectValue st d = .cont st' d') : Prog st.state d st'.state d' := by
  unfold stepObjectValue at h
  split_cont h
  all_goals prog_close h hs

theorem stepParseOpen_prog {st st' : St} {d d' : Bytes} (hs : st.state = .parseOpen)
    (h : stepParseOpen st d = .cont st' d') : Prog st.state d st'.state d' := by
  unfold stepParseOpen at h
  simp only at h
  split_cont h
  all_goals prog_close h hs

theorem stepArrayOp_prog {st st' : St} {d d' : Bytes} {r : Res} (hs : st.state = .arrayValue)
    (h : stepArrayOp r st d = .cont st' d') : Prog st.state d st'.state d' := by
  unfold stepArrayOp at h
  split_cont h
  all_goals prog_close h hs

theorem stepArrayValue_prog {n : Nat} {st st' : St} {d d' : Bytes} (hs : st.state = .arrayValue)
    (h : stepArrayValue n st d = .cont st' d') : Prog st.state d st'.state d' := by
  unfold stepArrayValue at h
  simp only at h
  split_cont h
  all_goals
    first
    | exact stepArrayOp_prog hs h
    | prog_close h hs

theorem stepAt_prog {n : Nat} {st st' : St} {d d' : Bytes}
    (h : stepAt n st d = .cont st' d') : Prog st.state d st'.state d' := by
  unfold stepAt at h
  cases hs : st.state <;> simp only [hs] at h
  · simpa [hs] using stepKey_prog hs h
  · simpa [hs] using stepKvs_prog hs h
  · simpa [hs] using stepObjectValue_prog hs h
  · simpa [hs] using stepArrayValue_prog hs h
  · simpa [hs] using stepParseOpen_prog hs h

/-! ### the fuel is enough -/

def mu (s : PState) (d : Bytes) : Nat := 2 * d.length + flag s

theorem Prog.mu_lt {s s' : PState} {d d' : Bytes} (h : Prog s d s' d') :
    TextTape.mu s' d' < TextTape.mu s d := by
  have : flag s' ≤ 1 := by cases s' <;> simp [flag]
  rcases h with h | ⟨h1, h2, h3⟩ <;> simp only [TextTape.mu] <;> omega

/-- a finished iteration ends in an error or in a panic outcome, never in `ok` / `outOfFuel`. -/
def Res.IsFail (r : Res) : Prop := r = .panic ∨ ∃ e, r = .err e

macro "done_kind" hc:ident : tactic =>
  `(tactic| (repeat' (split at $hc:ident)) <;>
      first
      | (simp at $hc:ident; done)
      | (simp only [Step.done.injEq] at $hc:ident; subst $hc:ident; simp [Res.IsFail]; done)
      | (cases ‹Fail› <;> simp only [Step.fail, Step.done.injEq] at $hc:ident <;> subst $hc:ident <;>
          simp [Res.IsFail]; done)
      | skip)

theorem paramDef_done {st : St} {d : Bytes} {i : Bool} {r : Res}
    (hc : paramDef st d i = .done r) : r.IsFail := by
  unfold paramDef paramDefBody at hc
  simp only at hc
  done_kind hc

theorem stepArrayOp_done {st : St} {d : Bytes} {r0 r : Res}
    (hc : stepArrayOp r0 st d = .done r) : r = .panic ∨ r = r0 := by
  unfold stepArrayOp at hc
  split at hc
  · next r' hpre =>
    simp at hc; subst hc
    unfold arrayOpPre at hpre
    repeat' (split at hpre)
    all_goals simp_all
  · split at hc
    · simp at hc
    · simp at hc; exact .inr hc.symm

theorem stepAt_done {n : Nat} {st : St} {d : Bytes} {r : Res}
    (hc : stepAt n st d = .done r) : r.IsFail := by
  unfold stepAt at hc
  split at hc
  · unfold stepKey at hc
    simp only at hc
    done_kind hc
    all_goals exact paramDef_done hc
  · unfold stepKvs at hc
    done_kind hc
  · unfold stepObjectValue at hc
    done_kind hc
  · unfold stepParseOpen at hc
    simp only at hc
    done_kind hc
    all_goals exact paramDef_done hc
  · unfold stepArrayValue at hc
    simp only at hc
    done_kind hc
    all_goals
      rcases stepArrayOp_done hc with h | h
      · exact .inl h
      · subst h; first | (split <;> simp [Res.IsFail]) | simp [Res.IsFail]

theorem run_fuel (n : Nat) : ∀ (fuel : Nat) (st : St) (data : Bytes),
    mu st.state data < fuel → run n fuel st data ≠ .outOfFuel
  | 0, _, _, h => by omega
  | fuel + 1, st, data, h => by
    simp only [run, step]
    cases hsk : skipWs data with
    | none =>
      simp only
      intro hc
      unfold atEof at hc
      simp only at hc
      repeat' (split at hc)
      all_goals simp at hc
    | some d =>
      simp only
      cases hstep : stepAt n st d with
      | done r =>
        simp only
        intro hr; subst hr
        rcases stepAt_done hstep with h | ⟨e, h⟩ <;> simp at h
      | cont st' d' =>
        simp only
        apply run_fuel n fuel st' d'
        have h1 := (stepAt_prog hstep).mu_lt
        have h2 := (skipWs_suffix hsk).length_le
        simp only [mu] at h h1 ⊢
        omega

theorem parse_fuel (input : Bytes) : parse input ≠ .outOfFuel := by
  unfold parse
  simp only
  generalize hd : (if hasBom input = true then List.drop 3 input else input) = data
  have := run_fuel input.length (fuelFor data) St.init data (by simp [mu, fuelFor, St.init, flag])
  intro hc
  apply this
  cases hr : run input.length (fuelFor data) St.init data <;> simp [hr, Res.withBom] at hc
  rfl

/-! ### no panic site is reachable -/

/-- split `hc : … = Step.done Res.panic` along every `if`/`match`, dropping the branches that do
not end in a panic. -/
macro "panic_sites" hc:ident : tactic =>
  `(tactic| (repeat' (split at $hc:ident)) <;>
      first
      | (simp at $hc:ident; done)
      | (exact List.noConfusion ‹_ :: _ = []›)
      | skip)

theorem splitAtScalar_ne_none {d : Bytes} (h : d ≠ []) : splitAtScalar d ≠ none := by
  rw [splitAtScalar_eq_fallback sse_eq_tab]
  simp only [splitAtScalarFallback, splitAtChecked]
  have := findFirst_le isBoundary d
  have : 0 < d.length := List.length_pos_iff.2 h
  rw [if_pos (by omega)]; simp

theorem lexValue_no_panic {tape : List Tok} {c : UInt8} {cs : Bytes} :
    lexValue tape (c :: cs) ≠ .error .panic := by
  intro hc
  unfold lexValue at hc
  simp only at hc
  have hsc : parseScalarTok tape (c :: cs) ≠ .error .panic := by
    intro h
    unfold parseScalarTok at h
    split at h
    · simp at h
    · next hn => exact splitAtScalar_ne_none (by simp) hn
  split at hc
  · unfold parseQuoteTok at hc
    split at hc
    · simp at hc
    · next f hq =>
      simp at hc; subst hc
      rw [parseQuoteScalar_eq_fallback] at hq
      unfold parseQuoteScalarFallback at hq
      split at hq <;> simp at hq
  · split at hc
    · unfold parseVariableTok at hc
      split at hc
      · split at hc
        · next i hi =>
          split at hc
          · simp at hc
          · next hn =>
            -- `i` is an index into `d.drop 2`, so `i + 3 ≤ |d|`
            have hlt : i < ((c :: cs).drop 2).length := by
              have := firstIdx_some_append (fun c => decide (c = 93)) ((c :: cs).drop 2) [] i hi
              exact this.2
            simp only [splitAtChecked] at hn
            split at hn
            · simp at hn
            · next hle => simp at hlt hle; omega
        · simp at hc
      · exact hsc hc
    · exact hsc hc

theorem skipWs_ne_nil {d : Bytes} (h : skipWs d = some []) : False := by
  obtain ⟨c, cs, hc, _⟩ := skipWsAux_some d false [] h
  simp at hc

theorem setTok_none {T : List Tok} {i : Nat} {t : Tok} (h : setTok T i t = none) : T.length ≤ i := by
  unfold setTok at h
  split at h
  · simp at h
  · omega

theorem TInv.parent_lt {T : List Tok} {p : Nat} {ph : Bool} (h : TInv T p ph) (hp : p ≠ 0) : p < T.length := by
  obtain ⟨m, hm | hm⟩ := h.parent_tok hp <;> exact getElem?_lt_of_some hm

theorem fail_panic {f : Fail} (h : Step.fail f = .done .panic) : f = .panic := by
  cases f <;> simp [Step.fail] at h ⊢

theorem paramDef_no_panic {st : St} {d : Bytes} {i : Bool} (hne : i = true → st.tape ≠ []) :
    paramDef st d i ≠ .done .panic := by
  intro hc
  unfold paramDef at hc
  split at hc
  · simp at hc
  · split at hc
    · next hpre =>
      unfold paramDefPre at hpre
      cases i with
      | false => simp at hpre
      | true =>
        have := hne rfl
        simp only [if_true] at hpre
        split at hpre
        · next h0 => exact this (List.length_eq_zero_iff.1 h0)
        · simp only [Option.map_eq_none_iff] at hpre
          have := setTok_none hpre
          have : 0 < st.tape.length := List.length_pos_iff.2 ‹st.tape ≠ []›
          omega
    · unfold paramDefBody at hc
      simp only at hc
      panic_sites hc
      all_goals
        first
        | exact skipWs_ne_nil ‹skipWs _ = some []›
        | (refine splitAtScalar_ne_none ?_ ‹splitAtScalar _ = none›
           first
           | (intro h0; subst h0; exact skipWs_ne_nil ‹skipWs _ = some []›)
           | (intro h0; simp [h0] at *))

theorem stepKey_no_panic {st : St} {c : UInt8} {cs : Bytes} (hinv : StInv st) (hs : st.state = .key) :
    stepKey st (c :: cs) ≠ .done .panic := by
  obtain ⟨hT, _, _⟩ := hinv
  simp only [hs, decide_false, reduceCtorEq] at hT
  intro hc
  unfold stepKey at hc
  simp only at hc
  panic_sites hc
  · next hnz _ hset =>
    have := setTok_none hset
    have := hT.parent_lt (hT.parent_ne_zero hnz)
    simp at *; omega
  · next hws => exact skipWs_ne_nil hws
  · exact paramDef_no_panic (by simp) hc
  · next hlex => rw [fail_panic hc] at hlex; exact lexValue_no_panic hlex

theorem insertBeforeLast_none {T : List Tok} {x : Tok} (h : insertBeforeLast T x = none) : T = [] := by
  unfold insertBeforeLast at h
  rcases List.eq_nil_or_concat T with rfl | ⟨T0, l, rfl⟩
  · rfl
  · simp at h

theorem stepKvs_no_panic {st : St} {c : UInt8} {cs : Bytes} (hinv : StInv st) (hs : st.state = .kvs) :
    stepKvs st (c :: cs) ≠ .done .panic := by
  obtain ⟨_, hne, _⟩ := hinv
  have hne' : st.tape ≠ [] := hne (by simp [hs])
  intro hc
  unfold stepKvs at hc
  panic_sites hc
  all_goals
    first
    | exact absurd ‹_ :: _ = []› (by simp)
    | exact hne' (insertBeforeLast_none ‹insertBeforeLast _ _ = none›)

theorem stepObjectValue_no_panic {st : St} {c : UInt8} {cs : Bytes} :
    stepObjectValue st (c :: cs) ≠ .done .panic := by
  intro hc
  unfold stepObjectValue at hc
  panic_sites hc
  all_goals
    first
    | exact absurd ‹_ :: _ = []› (by simp)
    | (have hlex := ‹lexValue _ _ = Except.error _›
       rw [fail_panic hc] at hlex; exact lexValue_no_panic hlex)

/-- close a length / bounds panic site: every tape in sight is `st.tape` plus at most the scalar
just lexed, with some tokens overwritten. -/
macro "len_site" : tactic =>
  `(tactic| (
      try (have hset := setTok_none ‹setTok _ _ _ = none›)
      try (obtain ⟨t, ht, _⟩ := lexValue_push ‹lexValue _ _ = Except.ok _›; subst ht)
      simp only [List.length_set, List.length_append, List.length_cons, List.length_nil] at *
      omega))

theorem stepParseOpen_no_panic {st : St} {c : UInt8} {cs : Bytes} (hinv : StInv st) (hs : st.state = .parseOpen) :
    stepParseOpen st (c :: cs) ≠ .done .panic := by
  obtain ⟨hT, hne, _⟩ := hinv
  have hne' : st.tape ≠ [] := hne (by simp [hs])
  have hlen : 0 < st.tape.length := List.length_pos_iff.2 hne'
  intro hc
  unfold stepParseOpen at hc
  simp only at hc
  panic_sites hc
  all_goals
    first
    | exact absurd ‹_ :: _ = []› (by simp)
    | exact skipWs_ne_nil ‹skipWs _ = some []›
    | exact paramDef_no_panic (fun _ => hne') hc
    | (have hlex := ‹lexValue _ _ = Except.error _›
       rw [fail_panic hc] at hlex; exact lexValue_no_panic hlex)
    | len_site

theorem stepArrayOp_no_panic {st : St} {d : Bytes} {r : Res} (hr : r ≠ .panic) :
    stepArrayOp r st d ≠ .done .panic := by
  intro hc
  rcases stepArrayOp_done hc with h | h
  · -- the panic would come from `insert(len-1)` on an empty tape, but the last token is a scalar
    unfold stepArrayOp at hc
    split at hc
    · next r' hpre =>
      simp at hc; subst hc
      unfold arrayOpPre at hpre
      split at hpre
      · simp at hpre
      · split at hpre
        · next sl hsc =>
          split at hpre
          · simp at hpre
          · next hins =>
            have := insertBeforeLast_none hins
            rw [this] at hsc; simp at hsc
        · simp at hpre; exact hr hpre
    · split at hc
      · simp at hc
      · simp at hc; exact hr hc
  · exact hr h.symm

theorem stepArrayValue_no_panic {n : Nat} {st : St} {c : UInt8} {cs : Bytes} (hinv : StInv st)
    (hs : st.state = .arrayValue) (hoff : (c :: cs).length < n) :
    stepArrayValue n st (c :: cs) ≠ .done .panic := by
  obtain ⟨hT, hne, _⟩ := hinv
  simp only [hs, decide_false, reduceCtorEq] at hT
  intro hc
  unfold stepArrayValue at hc
  simp only at hc
  panic_sites hc
  all_goals
    first
    | exact absurd ‹_ :: _ = []› (by simp)
    | (have hlex := ‹lexValue _ _ = Except.error _›
       rw [fail_panic hc] at hlex; exact lexValue_no_panic hlex)
    | (have hlex := ‹parseScalarTok _ _ = Except.error _›
       rw [fail_panic hc] at hlex
       unfold parseScalarTok at hlex
       split at hlex
       · simp at hlex
       · exact splitAtScalar_ne_none (d := c :: cs) (by simp) ‹splitAtScalar _ = none›)
    | (exfalso; omega)
    | exact stepArrayOp_no_panic (r := Res.err Err.syntax) (fun h => Res.noConfusion h) hc
    | (have hset := setTok_none ‹setTok _ _ _ = none›
       have := hT.parent_lt (hT.parent_ne_zero ‹_›)
       omega)

theorem stepAt_no_panic {n : Nat} {st : St} {c : UInt8} {cs : Bytes} (hinv : StInv st)
    (hoff : st.state = .arrayValue → (c :: cs).length < n) :
    stepAt n st (c :: cs) ≠ .done .panic := by
  unfold stepAt
  cases hs : st.state <;> simp only
  · exact stepKey_no_panic hinv hs
  · exact stepKvs_no_panic hinv hs
  · exact stepObjectValue_no_panic
  · exact stepArrayValue_no_panic hinv hs (hoff hs)
  · exact stepParseOpen_no_panic hinv hs

theorem atEof_no_panic {st : St} (hinv : StInv st) : atEof st ≠ .panic := by
  obtain ⟨hT, _, _⟩ := hinv
  intro hc
  unfold atEof at hc
  simp only at hc
  split at hc
  · simp at hc
  · next hs =>
    simp only [ne_eq, Decidable.not_not] at hs
    simp only [hs, decide_false, reduceCtorEq] at hT
    split at hc
    · simp at hc
    · next hp =>
      split at hc
      · split at hc
        · next hset =>
          have := setTok_none hset
          have := hT.parent_lt hp
          simp at *; omega
        · simp at hc
      · simp at hc

theorem run_no_panic (n : Nat) : ∀ (fuel : Nat) (st : St) (data : Bytes),
    StInv st → data.length ≤ n → (st.state ≠ .key → data.length < n) → run n fuel st data ≠ .panic
  | 0, _, _, _, _, _ => by simp [run]
  | fuel + 1, st, data, hinv, hle, hlt => by
    simp only [run, step]
    cases hsk : skipWs data with
    | none => simpa using atEof_no_panic hinv
    | some d =>
      simp only
      obtain ⟨c, cs, rfl, _, _, hdl⟩ := skipWsAux_some data false d hsk
      cases hstep : stepAt n st (c :: cs) with
      | done r =>
        simp only
        intro hr; subst hr
        exact stepAt_no_panic hinv (fun hs => by have := hlt (by simp [hs]); omega) hstep
      | cont st' d' =>
        simp only
        have hprog := stepAt_prog hstep
        apply run_no_panic n fuel st' d' (stepAt_inv hinv hstep)
        · rcases hprog with h | ⟨h, _, _⟩ <;> omega
        · intro _
          rcases hprog with h | ⟨h, hf, _⟩
          · omega
          · have : st.state ≠ .key := by intro hk; simp [hk, flag] at hf
            have := hlt this
            omega

/-- no bounds-check / overflow site of the text tape parser model is reachable, on any input. -/
theorem parse_no_panic (input : Bytes) : parse input ≠ .panic := by
  unfold parse
  simp only
  generalize hd : (if hasBom input = true then List.drop 3 input else input) = data
  have hle : data.length ≤ input.length := by
    rw [← hd]; split <;> simp
  have := run_no_panic input.length (fuelFor data) St.init data StInv.init hle (by simp [St.init])
  intro hc
  apply this
  cases hr : run input.length (fuelFor data) St.init data <;> simp [hr, Res.withBom] at hc
  rfl

/-- the parser model is total: it returns a tape or an error. -/
theorem parse_total (input : Bytes) :
    (∃ T b, parse input = .ok T b) ∨ (∃ e, parse input = .err e) := by
  cases h : parse input with
  | ok T b => exact .inl ⟨T, b, rfl⟩
  | err e => exact .inr ⟨e, rfl⟩
  | panic => exact absurd h (parse_no_panic input)
  | outOfFuel => exact absurd h (parse_fuel input)

/-- C01_bom without the no-panic hypothesis. -/
theorem parse_bom' (d : Bytes) (hb : hasBom d = false) :
    parse (0xef :: 0xbb :: 0xbf :: d) = (parse d).withBom true :=
  parse_bom d hb (parse_no_panic d)

end Jomini.TextTape
