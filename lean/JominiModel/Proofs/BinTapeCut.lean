import JominiModel.Proofs.BinTapeTotal
import JominiModel.Proofs.BinTapeNested
/-
C19 for the binary tape parser: truncated inputs.  Step determinism on prefixes (an iteration
that had enough bytes behaves identically on any extension), the cut point of an accepted prefix,
and the frozen-prefix invariant (what is on the tape at depth 0 in key state is never touched again).
-/
namespace Jomini.BinTape
open Jomini


/-! ## readers on an extended input -/

theorem readId_ext {d r : Bytes} {t : Nat} (h : readId d = some (t, r)) (e : Bytes) : readId (d ++ e) = some (t, r ++ e) := by
  match d, h with
  | a :: b :: rest, h => simp [readId] at h ⊢; exact ⟨h.1, by rw [h.2]⟩

theorem split?_ext {n : Nat} {d h r : Bytes} (hs : split? n d = some (h, r)) (e : Bytes) : split? n (d ++ e) = some (h, r ++ e) := by
  unfold split? at hs ⊢
  split at hs
  · rename_i hn
    simp at hs; obtain ⟨rfl, rfl⟩ := hs
    have : n ≤ (d ++ e).length := by simp; omega
    simp [List.take_append_of_le_length hn, List.drop_append_of_le_length hn]; omega
  · cases hs

theorem readString_ext {d s r : Bytes} (h : readString d = some (s, r)) (e : Bytes) : readString (d ++ e) = some (s, r ++ e) := by
  unfold readString at h ⊢
  cases hr : readId d with
  | none => simp [hr] at h
  | some p =>
    obtain ⟨len, rest⟩ := p
    simp only [hr] at h
    rw [readId_ext hr e]
    simp only
    split at h
    · rename_i hl
      simp at h; obtain ⟨rfl, rfl⟩ := h
      have : len ≤ (rest ++ e).length := by simp; omega
      simp [List.take_append_of_le_length hl, List.drop_append_of_le_length hl]; omega
    · cases h

theorem readBool_ext {d r : Bytes} {b : Bool} (h : readBool d = some (b, r)) (e : Bytes) : readBool (d ++ e) = some (b, r ++ e) := by
  cases d with
  | nil => simp [readBool] at h
  | cons x xs => simp [readBool] at h ⊢; exact ⟨h.1, by rw [h.2]⟩

theorem parseFixed_ext {n : Nat} {mk : Bytes → BTok} {T T' : Tape} {d r : Bytes} (h : parseFixed n mk T d = .ok (T', r)) (e : Bytes) :
    parseFixed n mk T (d ++ e) = .ok (T', r ++ e) := by
  unfold parseFixed at h ⊢
  cases hs : split? n d with
  | none => simp [hs] at h
  | some p => obtain ⟨hd, rest⟩ := p; simp [hs] at h; rw [split?_ext hs e]; simp [h.1, ← h.2]

theorem parseQuoted_ext {T T' : Tape} {d r : Bytes} (h : parseQuoted T d = .ok (T', r)) (e : Bytes) :
    parseQuoted T (d ++ e) = .ok (T', r ++ e) := by
  unfold parseQuoted at h ⊢
  cases hs : readString d with
  | none => simp [hs] at h
  | some p => obtain ⟨s, rest⟩ := p; simp [hs] at h; rw [readString_ext hs e]; simp [h.1, ← h.2]

theorem parseUnquoted_ext {T T' : Tape} {d r : Bytes} (h : parseUnquoted T d = .ok (T', r)) (e : Bytes) :
    parseUnquoted T (d ++ e) = .ok (T', r ++ e) := by
  unfold parseUnquoted at h ⊢
  cases hs : readString d with
  | none => simp [hs] at h
  | some p => obtain ⟨s, rest⟩ := p; simp [hs] at h; rw [readString_ext hs e]; simp [h.1, ← h.2]

theorem parseBool_ext {T T' : Tape} {d r : Bytes} (h : parseBool T d = .ok (T', r)) (e : Bytes) :
    parseBool T (d ++ e) = .ok (T', r ++ e) := by
  unfold parseBool at h ⊢
  cases hs : readBool d with
  | none => simp [hs] at h
  | some p => obtain ⟨s, rest⟩ := p; simp [hs] at h; rw [readBool_ext hs e]; simp [h.1, ← h.2]

theorem readRgb_ext {d r : Bytes} {t : BTok} (h : readRgb d = .ok (t, r)) (e : Bytes) : readRgb (d ++ e) = .ok (t, r ++ e) := by
  unfold readRgb at h
  cases h1 : readId d with
  | none => simp [h1] at h
  | some p1 =>
  obtain ⟨start, d1⟩ := p1; simp only [h1] at h
  cases h2 : readId d1 with
  | none => simp [h2] at h
  | some p2 =>
  obtain ⟨rtok, d2⟩ := p2; simp only [h2] at h
  cases h3 : split? 4 d2 with
  | none => simp [h3] at h
  | some p3 =>
  obtain ⟨rr, d3⟩ := p3; simp only [h3] at h
  cases h4 : readId d3 with
  | none => simp [h4] at h
  | some p4 =>
  obtain ⟨gtok, d4⟩ := p4; simp only [h4] at h
  cases h5 : split? 4 d4 with
  | none => simp [h5] at h
  | some p5 =>
  obtain ⟨g, d5⟩ := p5; simp only [h5] at h
  cases h6 : readId d5 with
  | none => simp [h6] at h
  | some p6 =>
  obtain ⟨btok, d6⟩ := p6; simp only [h6] at h
  cases h7 : split? 4 d6 with
  | none => simp [h7] at h
  | some p7 =>
  obtain ⟨b, d7⟩ := p7; simp only [h7] at h
  cases h8 : readId d7 with
  | none => simp [h8] at h
  | some p8 =>
  obtain ⟨next, d8⟩ := p8; simp only [h8] at h
  unfold readRgb
  simp only [readId_ext h1 e, readId_ext h2 e, split?_ext h3 e, readId_ext h4 e, split?_ext h5 e, readId_ext h6 e,
    split?_ext h7 e, readId_ext h8 e]
  split at h
  · rename_i hc
    simp at h; obtain ⟨rfl, rfl⟩ := h
    simp [hc]
  · rename_i hc
    split at h
    · rename_i hc2
      cases h9 : split? 4 d8 with
      | none => simp [h9] at h
      | some p9 =>
      obtain ⟨a, d9⟩ := p9; simp only [h9] at h
      cases h10 : readId d9 with
      | none => simp [h10] at h
      | some p10 =>
      obtain ⟨en, d10⟩ := p10; simp only [h10] at h
      split at h
      · rename_i hc3
        simp at h; obtain ⟨rfl, rfl⟩ := h
        simp only [if_neg hc, if_pos hc2, split?_ext h9 e, readId_ext h10 e, hc3, if_true]
      · cases h
    · cases h

theorem scalarArm_ext {r r' : Except Err (Tape × Bytes)} {parent : Nat} {state : PState} {st' : St} {e : Bytes}
    (hr : ∀ T' d', r = .ok (T', d') → r' = .ok (T', d' ++ e))
    (h : scalarArm r parent state = .ok st') :
    scalarArm r' parent state = .ok { st' with data := st'.data ++ e } := by
  unfold scalarArm at h ⊢
  cases r with
  | error x => cases h
  | ok p =>
    obtain ⟨T', d'⟩ := p
    rw [hr T' d' rfl]
    simp only at h ⊢
    cases hn : nextState state with
    | none => simp [hn] at h
    | some s' => simp [hn] at h ⊢; subst h; simp

theorem openArm_ext {tape : Tape} {parent : Nat} {state : PState} {d e : Bytes} {st' : St}
    (h : openArm tape parent state d = .ok st') :
    openArm tape parent state (d ++ e) = .ok { st' with data := st'.data ++ e } := by
  unfold openArm at h ⊢
  split at h
  · rename_i hk; simp at h; subst h; simp [hk]
  · rename_i hk
    rw [if_neg hk]
    split at h
    · cases h
    · rename_i hne
      rw [if_neg hne]
      cases hr : readId d with
      | none => simp [hr] at h
      | some p =>
        obtain ⟨x, nd⟩ := p
        simp only [hr] at h
        rw [readId_ext hr e]
        simp only
        split at h
        · rename_i hx; simp at h; subst h; simp [hx]
        · cases h

theorem closeArm_ext {tape : Tape} {parent : Nat} {state : PState} {d e : Bytes} {st' : St}
    (h : closeArm tape parent state d = .ok st') :
    closeArm tape parent state (d ++ e) = .ok { st' with data := st'.data ++ e } := by
  unfold closeArm at h ⊢
  simp only at h ⊢
  split at h
  · cases h
  · rename_i tape1 hpre
    cases hp : pushEnd tape1 parent with
    | error x => simp [hp] at h
    | ok p => obtain ⟨a, b, c⟩ := p; simp [hp] at h ⊢; subst h; simp

theorem equalArm_ext {tape : Tape} {parent : Nat} {state : PState} {d e : Bytes} {st' : St}
    (h : equalArm tape parent state d = .ok st') :
    equalArm tape parent state (d ++ e) = .ok { st' with data := st'.data ++ e } := by
  unfold equalArm at h ⊢
  split at h
  · simp at h; subst h; simp
  · cases hs : setParentToObject tape parent with
    | error x => simp [hs] at h
    | ok t' => simp [hs] at h ⊢; subst h; simp
  · simp at h; subst h; simp
  · cases hp : pop? tape with
    | none => simp [hp] at h
    | some p =>
      obtain ⟨t1, last⟩ := p
      simp only [hp] at h ⊢
      split at h
      · cases h
      · cases h
      · rename_i hna hne
        split at h
        · rename_i hoe
          cases hs : setParentToObject t1 parent with
          | error x => simp [hs] at h
          | ok t2 =>
            simp [hs] at h; subst h
            cases last <;> first | exact absurd rfl (hna _) | exact absurd rfl (hne _) | simp [hoe, hs]
        · rename_i hoe
          simp at h; subst h
          cases last <;> first | exact absurd rfl (hna _) | exact absurd rfl (hne _) | simp [hoe]
  · cases h

theorem tokenArm_ext {tape : Tape} {parent : Nat} {state : PState} {d e : Bytes} {tok : Nat} {st' : St}
    (h : tokenArm false 0 tape parent state d tok = .ok st') :
    tokenArm false 0 tape parent state (d ++ e) tok = .ok { st' with data := st'.data ++ e } := by
  have fx : ∀ n mk, ∀ T' d', parseFixed n mk tape d = .ok (T', d') → parseFixed n mk tape (d ++ e) = .ok (T', d' ++ e) :=
    fun _ _ _ _ hh => parseFixed_ext hh e
  unfold tokenArm at h ⊢
  by_cases c1 : tok = L.u32
  · rw [if_pos c1] at h ⊢; exact scalarArm_ext (fx _ _) h
  rw [if_neg c1] at h ⊢
  by_cases c2 : tok = L.u64
  · rw [if_pos c2] at h ⊢; exact scalarArm_ext (fx _ _) h
  rw [if_neg c2] at h ⊢
  by_cases c3 : tok = L.i32
  · rw [if_pos c3] at h ⊢
    cases hsa : scalarArm (parseI32 tape d) parent state with
    | error x => simp [hsa] at h
    | ok st =>
      simp [hsa] at h; subst h
      have := scalarArm_ext (e := e) (r' := parseI32 tape (d ++ e)) (fx _ _) hsa
      simp [this]
  rw [if_neg c3] at h ⊢
  by_cases c4 : tok = L.bool
  · rw [if_pos c4] at h ⊢; exact scalarArm_ext (fun _ _ hh => parseBool_ext hh e) h
  rw [if_neg c4] at h ⊢
  by_cases c5 : tok = L.quoted
  · rw [if_pos c5] at h ⊢; exact scalarArm_ext (fun _ _ hh => parseQuoted_ext hh e) h
  rw [if_neg c5] at h ⊢
  by_cases c6 : tok = L.unquoted
  · rw [if_pos c6] at h ⊢; exact scalarArm_ext (fun _ _ hh => parseUnquoted_ext hh e) h
  rw [if_neg c6] at h ⊢
  by_cases c7 : tok = L.f32
  · rw [if_pos c7] at h ⊢; exact scalarArm_ext (fx _ _) h
  rw [if_neg c7] at h ⊢
  by_cases c8 : tok = L.f64
  · rw [if_pos c8] at h ⊢; exact scalarArm_ext (fx _ _) h
  rw [if_neg c8] at h ⊢
  by_cases c9 : tok = L.open_
  · rw [if_pos c9] at h ⊢; exact openArm_ext h
  rw [if_neg c9] at h ⊢
  by_cases c10 : tok = L.close
  · rw [if_pos c10] at h ⊢; exact closeArm_ext h
  rw [if_neg c10] at h ⊢
  by_cases c11 : tok = L.equal
  · rw [if_pos c11] at h ⊢; exact equalArm_ext h
  rw [if_neg c11] at h ⊢
  by_cases c12 : tok = L.rgb ∧ state = .objectValue
  · rw [if_pos c12] at h ⊢
    unfold parseRgb at h ⊢
    cases hr : readRgb d with
    | error x => simp [hr] at h
    | ok p =>
      obtain ⟨t, rest⟩ := p
      simp [hr] at h; subst h
      simp [readRgb_ext hr e]
  rw [if_neg c12] at h ⊢
  by_cases c13 : tok = L.i64
  · rw [if_pos c13] at h ⊢; exact scalarArm_ext (fx _ _) h
  rw [if_neg c13] at h ⊢
  exact scalarArm_ext (fun _ _ hh => by simp at hh; obtain ⟨rfl, rfl⟩ := hh; rfl) h

theorem dispatch_ext {tape : Tape} {parent : Nat} {state : PState} {d e : Bytes} {tok : Nat} {st' : St}
    (h : dispatch false 0 tape parent state d tok = .ok st') :
    dispatch false 0 tape parent state (d ++ e) tok = .ok { st' with data := st'.data ++ e } := by
  unfold dispatch at h ⊢
  split at h
  · rename_i hs
    rw [if_pos hs]
    cases hm : mixedInsert2 tape with
    | error x => simp [hm] at h
    | ok t' => simp only [hm] at h ⊢; exact tokenArm_ext h
  · rename_i hs
    rw [if_neg hs]; exact tokenArm_ext h

/-- **step determinism on prefixes**: an iteration that had enough bytes behaves identically on
any extension of the input -/
theorem step_ext {st st' : St} (h : step st = .next st') (e : Bytes) :
    step { st with data := st.data ++ e } = .next { st' with data := st'.data ++ e } := by
  cases hr : readId st.data with
  | none => rw [step_done hr] at h; cases h
  | some p =>
    obtain ⟨tok, d⟩ := p
    rw [step_eq hr] at h
    rw [step_eq (st := { st with data := st.data ++ e }) (readId_ext hr e)]
    cases hd : dispatch false 0 st.tape st.parent st.state d tok with
    | error x => simp [hd, Iter.ofExcept] at h
    | ok s =>
      simp [hd, Iter.ofExcept] at h; subst h
      simp [dispatch_ext hd, Iter.ofExcept]

theorem stepN_ext : ∀ (k : Nat) (a b : St) (e : Bytes), stepN k a = some b →
    stepN k { a with data := a.data ++ e } = some { b with data := b.data ++ e } := by
  intro k
  induction k with
  | zero => intro a b e h; simp only [stepN, Option.some.injEq] at h ⊢; subst h; rfl
  | succ k ih =>
    intro a b e h
    cases hs : step a with
    | next a' =>
      simp only [stepN, hs] at h
      simp only [stepN, step_ext hs e]
      exact ih a' b e h
    | done => simp [stepN, hs] at h
    | err x => simp [stepN, hs] at h

theorem Reach.ext {a b : St} (h : Reach a b) (e : Bytes) :
    Reach { a with data := a.data ++ e } { b with data := b.data ++ e } := by
  obtain ⟨k, hk⟩ := h; exact ⟨k, stepN_ext k a b e hk⟩

/-- an accepting plain run ends at depth 0 in key state with at most one unread byte -/
theorem run_false_ok_reach (f : Nat) : ∀ (n : Nat) (st : St) (t : Tape), run false f n st = .ok t →
    ∃ r, r.length ≤ 1 ∧ Reach st ⟨t, 0, .key, r⟩ := by
  intro n
  induction n with
  | zero => intro st t h; simp [run] at h
  | succ n ih =>
    intro st t h
    unfold run at h
    rw [iter_false] at h
    cases hs : step st with
    | done =>
      simp only [hs] at h
      unfold finish at h
      split at h
      · rename_i hc
        simp at h
        have hr : readId st.data = none := by
          cases hrd : readId st.data with
          | none => rfl
          | some p =>
            obtain ⟨tok, d⟩ := p; rw [step_eq hrd] at hs
            cases hdd : dispatch false 0 st.tape st.parent st.state d tok <;> simp [hdd, Iter.ofExcept] at hs
        refine ⟨st.data, ?_, ?_⟩
        · generalize st.data = dd at hr
          match dd, hr with
          | [], _ => simp
          | [_], _ => simp
          | a :: b :: rest, hr => simp [readId] at hr
        · obtain ⟨tape, parent, state, data⟩ := st
          simp only at hc h; obtain ⟨rfl, rfl⟩ := hc; subst h
          exact Reach.refl _
      · cases h
    | err x => simp [hs] at h
    | next st' =>
      simp only [hs] at h
      obtain ⟨r, hr, hreach⟩ := ih st' t h
      exact ⟨r, hr, Reach.head hs hreach⟩

/-- **C19 (A)**: if the reference parser accepts the first `k` bytes, then on the whole input the
plain loop reaches depth 0 in key state with exactly that tape, having consumed all of the first
`k` bytes but at most one stray byte. -/
theorem cut_reach (data : Bytes) (k : Nat) (t' : Tape) (h : parse false (data.take k) = .ok t') :
    ∃ r, r.length ≤ 1 ∧ Reach (init data) ⟨t', 0, .key, r ++ data.drop k⟩ := by
  obtain ⟨r, hr, hreach⟩ := run_false_ok_reach _ _ _ _ h
  refine ⟨r, hr, ?_⟩
  have := hreach.ext (data.drop k)
  simpa [init, List.take_append_drop] using this

/-! ## the frozen prefix -/

/-- all open containers (the chain through the payload slots) start at indices `≥ n` -/
inductive OpenGE (n : Nat) : Nat → Tape → Prop
  | top {tape : Tape} : OpenGE n 0 tape
  | open_ {g p : Nat} {tape : Tape} : p ≠ 0 → n ≤ p → g < p →
      (tape[p]? = some (.array g) ∨ tape[p]? = some (.object g)) → OpenGE n g tape → OpenGE n p tape

theorem OpenGE.congr {n p : Nat} {tape tape' : Tape} (h : OpenGE n p tape)
    (he : ∀ i, i ≤ p → tape'[i]? = tape[i]?) : OpenGE n p tape' := by
  induction h with
  | top => exact OpenGE.top
  | open_ hp hn hg hs _ ih =>
    rename_i g p tape
    refine OpenGE.open_ hp hn hg ?_ (ih (fun i hi => he i (by omega)))
    rw [he _ (Nat.le_refl _)]; exact hs

theorem OpenGE.inv {n p : Nat} {tape : Tape} (h : OpenGE n p tape) (hp : p ≠ 0) :
    n ≤ p ∧ ∃ g, g < p ∧ (tape[p]? = some (.array g) ∨ tape[p]? = some (.object g)) ∧ OpenGE n g tape := by
  cases h with
  | top => exact absurd rfl hp
  | open_ _ hn hg hs hc => exact ⟨hn, _, hg, hs, hc⟩

/-- the frozen-prefix invariant: the first `n` tokens are `t'`; every open container starts at an
index `≥ n`; the tokens `mixed_insert` may still move lie beyond `n` and beyond the parent slot -/
structure Frz (n : Nat) (t' : Tape) (tape : Tape) (parent : Nat) (state : PState) : Prop where
  len : n ≤ tape.length
  pre : ∀ i, i < n → tape[i]? = t'[i]?
  chain : OpenGE n parent tape
  slot : parent < tape.length
  arr : InArr state → parent ≠ 0 ∧ ∃ g, tape[parent]? = some (.array g)
  kvs : state = .keyValueSeparator → n + 1 ≤ tape.length ∧ parent + 2 ≤ tape.length
  o2a : state = .objectToArray → n + 2 ≤ tape.length ∧ parent + 3 ≤ tape.length

variable {n : Nat} {t' : Tape}

theorem Frz.snoc {tape : Tape} {parent : Nat} {state s' : PState} (x : BTok) (h : Frz n t' tape parent state)
    (hn : nextState state = some s') (hs : state ≠ .objectToArray) : Frz n t' (tape ++ [x]) parent s' := by
  have hsl := h.slot
  refine ⟨by simp; have := h.len; omega, ?_, ?_, by simp; omega, ?_, ?_, ?_⟩
  · intro i hi; rw [List.getElem?_append_left (by have := h.len; omega)]; exact h.pre i hi
  · exact h.chain.congr (fun i hi => List.getElem?_append_left (by omega))
  · intro hs'
    have : InArr state := by
      cases state <;> simp at hn <;> subst hn <;> first | exact absurd rfl hs | exact Or.inl rfl | exact Or.inr (Or.inl rfl) | exact Or.inr (Or.inr rfl) | (rcases hs' with h | h | h <;> cases h)
    obtain ⟨hp, g, hg⟩ := h.arr this
    exact ⟨hp, g, by rw [List.getElem?_append_left hsl]; exact hg⟩
  · intro hk; subst hk
    have := h.len
    simp; omega
  · intro hk; subst hk
    have : state = .keyValueSeparator := by cases state <;> simp at hn <;> rfl
    have := h.kvs this
    simp; omega

theorem scalarArm_frz {r : Except Err (Tape × Bytes)} {tape : Tape} {parent : Nat} {state : PState} {st' : St}
    (hr : AppendsP r tape) (h : scalarArm r parent state = .ok st') (hs : state ≠ .objectToArray)
    (hi : Frz n t' tape parent state) : Frz n t' st'.tape st'.parent st'.state := by
  unfold scalarArm at h
  cases r with
  | error e => cases h
  | ok p =>
    obtain ⟨T', d'⟩ := p
    obtain ⟨x, rfl, _⟩ := hr T' d' rfl
    simp only at h
    cases hn : nextState state with
    | none => simp [hn] at h
    | some s' => simp [hn] at h; subst h; exact hi.snoc x hn hs

theorem pushEnd_frz (hn1 : 1 ≤ n) (h0 : ∀ x, t'[0]? = some x → x.isPlain = true)
    {tape : Tape} {p : Nat} {T' : Tape} {g' : Nat} {s' : PState}
    (h : pushEnd tape p = .ok (T', g', s'))
    (hlen : n ≤ tape.length) (hpre : ∀ i, i < n → tape[i]? = t'[i]?) (hchain : OpenGE n p tape) :
    Frz n t' T' g' s' := by
  have hp : p ≠ 0 := by
    intro hp0; subst hp0
    have e0 := hpre 0 (by omega)
    unfold pushEnd at h
    split at h
    · rename_i g hg; rw [hg] at e0; have := h0 _ e0.symm; simp [BTok.isPlain] at this
    · rename_i g hg; rw [hg] at e0; have := h0 _ e0.symm; simp [BTok.isPlain] at this
    · cases h
  obtain ⟨hnp, g, hgp, hslot, hcg⟩ := hchain.inv hp
  have hpl : p < tape.length := by rcases hslot with h1 | h1 <;> exact getElem?_lt_length h1
  -- the new tape agrees with the old one below `p`
  have key : ∀ (y : BTok), closeTo (tape.set p y ++ [.end_ p]) g = .ok (T', g', s') → Frz n t' T' g' s' := by
    intro y hc
    obtain ⟨h1, h2, h3, h4⟩ := closeTo_eq hc
    simp only at h1 h2 h3 h4
    subst h1; have h2' := h2.symm; subst h2'
    have hag : ∀ i, i < p → (tape.set p y ++ [BTok.end_ p])[i]? = tape[i]? := by
      intro i hi
      rw [List.getElem?_append_left (by simp; omega), List.getElem?_set_ne (by omega)]
    have hsl : g < (tape.set p y ++ [BTok.end_ p]).length := by simp; omega
    refine ⟨by simp; omega, fun i hi => by rw [hag i (by omega)]; exact hpre i hi,
      hcg.congr (fun i hi => hag i (by omega)), hsl, ?_, ?_, ?_⟩
    · intro hs
      have hav : s' = .arrayValue := by
        rcases h4 with h4 | h4
        · exact h4
        · subst h4; rcases hs with h | h | h <;> cases h
      obtain ⟨g2, hg2⟩ := h3 hav
      refine ⟨?_, g2, hg2⟩
      intro hg0; subst hg0
      rw [hag 0 (by omega), hpre 0 (by omega)] at hg2
      have := h0 _ hg2; simp [BTok.isPlain] at this
    · intro hs; rcases h4 with h4 | h4 <;> (rw [h4] at hs; cases hs)
    · intro hs; rcases h4 with h4 | h4 <;> (rw [h4] at hs; cases hs)
  unfold pushEnd at h
  rcases hslot with hs | hs
  · rw [hs] at h; exact key _ h
  · rw [hs] at h; exact key _ h

theorem openArm_frz (hn1 : 1 ≤ n) {tape : Tape} {parent : Nat} {state : PState} {d : Bytes} {st' : St}
    (h : openArm tape parent state d = .ok st') (hi : Frz n t' tape parent state) :
    Frz n t' st'.tape st'.parent st'.state := by
  unfold openArm at h
  split at h
  · simp at h; subst h
    have hsl := hi.slot
    have hl := hi.len
    refine ⟨by simp; omega, fun i hi' => by rw [List.getElem?_append_left (by omega)]; exact hi.pre i hi', ?_, by simp,
      fun _ => ⟨(by show tape.length ≠ 0; omega), parent, by simp⟩, by simp, by simp⟩
    exact OpenGE.open_ (show tape.length ≠ 0 by omega) hl hsl (Or.inl (by simp))
      (hi.chain.congr (fun i hi' => List.getElem?_append_left (by omega)))
  · split at h
    · cases h
    · cases hr : readId d with
      | none => simp [hr] at h
      | some p =>
        obtain ⟨x, nd⟩ := p
        simp only [hr] at h
        split at h
        · simp at h; subst h; exact hi
        · cases h

theorem closeArm_frz (hn1 : 1 ≤ n) (h0 : ∀ x, t'[0]? = some x → x.isPlain = true)
    {tape : Tape} {parent : Nat} {state : PState} {d : Bytes} {st' : St}
    (h : closeArm tape parent state d = .ok st') (hs : state ≠ .objectToArray) (hi : Frz n t' tape parent state) :
    Frz n t' st'.tape st'.parent st'.state := by
  unfold closeArm at h
  simp only at h
  have key : ∀ tape1, n ≤ tape1.length → (∀ i, i < n → tape1[i]? = t'[i]?) → OpenGE n parent tape1 →
      (match pushEnd tape1 parent with
        | .error e => (Except.error e : Except Err St)
        | .ok (tape', parent', state') => Except.ok ⟨tape', parent', state', d⟩) = Except.ok st' →
      Frz n t' st'.tape st'.parent st'.state := by
    intro tape1 h1 h2 h3 hh
    cases hp : pushEnd tape1 parent with
    | error e => simp [hp] at hh
    | ok p =>
      obtain ⟨a, b, c⟩ := p
      simp [hp] at hh; subst hh
      exact pushEnd_frz hn1 h0 hp h1 h2 h3
  cases state
  case keyValueSeparator =>
    obtain ⟨hk1, hk2⟩ := hi.kvs rfl
    cases hp : pop? tape with
    | none =>
      have : tape ≠ [] := by intro he; subst he; simp at hk1
      unfold pop? at hp
      cases hl : tape.getLast? with
      | none => exact absurd (List.getLast?_eq_none_iff.mp hl) this
      | some x => simp [hl] at hp
    | some pr =>
      obtain ⟨t0, x⟩ := pr
      have ht := pop?_length hp
      subst ht
      simp only [mixedInsert1, hp] at h
      simp only [List.length_append, List.length_cons, List.length_nil] at hk1 hk2
      refine key _ (by simp; omega) ?_ ?_ h
      · intro i hi'
        rw [List.getElem?_append_left (by omega)]
        have := hi.pre i hi'
        rwa [List.getElem?_append_left (by omega)] at this
      · refine hi.chain.congr ?_
        intro i hi'
        rw [List.getElem?_append_left (by omega), List.getElem?_append_left (by omega)]
  case objectValue => simp at h
  case objectToArray => exact absurd rfl hs
  all_goals exact key _ hi.len hi.pre hi.chain h

theorem equalArm_frz (hn1 : 1 ≤ n) {tape : Tape} {parent : Nat} {state : PState} {d : Bytes} {st' : St}
    (h : equalArm tape parent state d = .ok st') (hi : Frz n t' tape parent state) :
    Frz n t' st'.tape st'.parent st'.state := by
  have hsl := hi.slot
  have hl := hi.len
  unfold equalArm at h
  split at h
  · simp at h; subst h
    exact ⟨hi.len, hi.pre, hi.chain, hi.slot, (by intro hh; rcases hh with h | h | h <;> cases h), by simp, by simp⟩
  · -- OpenSecond: the parent slot becomes an Object
    obtain ⟨hp, g, hg⟩ := hi.arr (Or.inr (Or.inl rfl))
    simp [setParentToObject, hg] at h; subst h
    obtain ⟨hnp, g2, hg2, hslot, hcg⟩ := hi.chain.inv hp
    have hgg : g2 = g := by rcases hslot with h1 | h1 <;> (rw [hg] at h1; simp at h1) ; exact h1.symm
    rw [hgg] at hg2 hcg
    refine ⟨by simpa using hl, ?_, ?_, by simpa using hsl, (by intro hh; rcases hh with h | h | h <;> cases h), by simp, by simp⟩
    · intro i hi'; rw [List.getElem?_set_ne (by omega)]; exact hi.pre i hi'
    · exact OpenGE.open_ hp hnp hg2 (Or.inr (by simp [List.getElem?_set_self hsl]))
        (hcg.congr (fun i hi' => List.getElem?_set_ne (by omega)))
  · simp at h; subst h
    refine ⟨by simp; omega, fun i hi' => by rw [List.getElem?_append_left (by omega)]; exact hi.pre i hi',
      hi.chain.congr (fun i hi' => List.getElem?_append_left (by omega)), by simp; omega,
      (by intro hh; rcases hh with h | h | h <;> cases h), by simp, by simp⟩
  · -- ArrayValue
    obtain ⟨hp, g, hg⟩ := hi.arr (Or.inr (Or.inr rfl))
    obtain ⟨hnp, g2, hg2, hslot, hcg⟩ := hi.chain.inv hp
    have hgg : g2 = g := by rcases hslot with h1 | h1 <;> (rw [hg] at h1; simp at h1) ; exact h1.symm
    rw [hgg] at hg2 hcg
    cases hpp : pop? tape with
    | none => simp [hpp] at h
    | some pr =>
      obtain ⟨t1, last⟩ := pr
      have ht := pop?_length hpp
      subst ht
      simp only [hpp] at h
      simp only [List.length_append, List.length_cons, List.length_nil] at hsl hl
      split at h
      · cases h
      · cases h
      · rename_i hna hne
        -- the popped token is not the parent slot
        have hlt : parent < t1.length := by
          rcases Nat.lt_or_ge parent t1.length with hh | hh
          · exact hh
          · have : parent = t1.length := by omega
            subst this
            simp at hg
            exact absurd hg (hna g)
        have hg1 : t1[parent]? = some (.array g) := by rwa [List.getElem?_append_left hlt] at hg
        have hpre1 : ∀ i, i < n → t1[i]? = t'[i]? := by
          intro i hi'
          have := hi.pre i hi'
          rwa [List.getElem?_append_left (by omega)] at this
        split at h
        · simp [setParentToObject, hg1] at h; subst h
          dsimp only
          refine ⟨by simp; omega, ?_, ?_, by simp; omega, (by intro hh; rcases hh with h | h | h <;> cases h), by simp, by simp⟩
          · intro i hi'
            rw [List.getElem?_append_left (by simp; omega), List.getElem?_take_of_lt (by omega), List.getElem?_set_ne (by omega)]
            exact hpre1 i hi'
          · refine OpenGE.open_ hp hnp hg2 (Or.inr ?_) (hcg.congr ?_)
            · rw [List.getElem?_append_left (by simp; omega), List.getElem?_take_of_lt (by omega)]
              simp [List.getElem?_set_self hlt]
            · intro i hi'
              rw [List.getElem?_append_left (by simp; omega), List.getElem?_take_of_lt (by omega), List.getElem?_set_ne (by omega),
                List.getElem?_append_left (by omega)]
        · simp at h; subst h
          refine ⟨by simp; omega, fun i hi' => by rw [List.getElem?_append_left (by omega)]; exact hpre1 i hi', ?_, by simp; omega,
            (by intro hh; rcases hh with h | h | h <;> cases h), by simp, by simp⟩
          refine hi.chain.congr ?_
          intro i hi'
          rw [List.getElem?_append_left (by omega), List.getElem?_append_left (by omega)]
  · cases h

theorem tokenArm_frz (hn1 : 1 ≤ n) (h0 : ∀ x, t'[0]? = some x → x.isPlain = true)
    {tape : Tape} {parent : Nat} {state : PState} {d : Bytes} {tok : Nat} {st' : St}
    (h : tokenArm false 0 tape parent state d tok = .ok st') (hs : state ≠ .objectToArray)
    (hi : Frz n t' tape parent state) : Frz n t' st'.tape st'.parent st'.state := by
  unfold tokenArm at h
  by_cases c1 : tok = L.u32
  · rw [if_pos c1] at h; exact scalarArm_frz (appendsP_fixed _ _ (by intro _; rfl) _ _) h hs hi
  rw [if_neg c1] at h
  by_cases c2 : tok = L.u64
  · rw [if_pos c2] at h; exact scalarArm_frz (appendsP_fixed _ _ (by intro _; rfl) _ _) h hs hi
  rw [if_neg c2] at h
  by_cases c3 : tok = L.i32
  · rw [if_pos c3] at h
    cases hsa : scalarArm (parseI32 tape d) parent state with
    | error e => simp [hsa] at h
    | ok st => simp [hsa] at h; subst h; exact scalarArm_frz (appendsP_fixed _ _ (by intro _; rfl) _ _) hsa hs hi
  rw [if_neg c3] at h
  by_cases c4 : tok = L.bool
  · rw [if_pos c4] at h
    refine scalarArm_frz ?_ h hs hi
    intro T d' hh; obtain ⟨⟨b, hb⟩, _⟩ := parseBool_ok hh; exact ⟨_, hb, rfl⟩
  rw [if_neg c4] at h
  by_cases c5 : tok = L.quoted
  · rw [if_pos c5] at h
    refine scalarArm_frz ?_ h hs hi
    intro T d' hh; obtain ⟨⟨b, hb⟩, _⟩ := parseQuoted_ok hh; exact ⟨_, hb, rfl⟩
  rw [if_neg c5] at h
  by_cases c6 : tok = L.unquoted
  · rw [if_pos c6] at h
    refine scalarArm_frz ?_ h hs hi
    intro T d' hh; obtain ⟨⟨b, hb⟩, _⟩ := parseUnquoted_ok hh; exact ⟨_, hb, rfl⟩
  rw [if_neg c6] at h
  by_cases c7 : tok = L.f32
  · rw [if_pos c7] at h; exact scalarArm_frz (appendsP_fixed _ _ (by intro _; rfl) _ _) h hs hi
  rw [if_neg c7] at h
  by_cases c8 : tok = L.f64
  · rw [if_pos c8] at h; exact scalarArm_frz (appendsP_fixed _ _ (by intro _; rfl) _ _) h hs hi
  rw [if_neg c8] at h
  by_cases c9 : tok = L.open_
  · rw [if_pos c9] at h; exact openArm_frz hn1 h hi
  rw [if_neg c9] at h
  by_cases c10 : tok = L.close
  · rw [if_pos c10] at h; exact closeArm_frz hn1 h0 h hs hi
  rw [if_neg c10] at h
  by_cases c11 : tok = L.equal
  · rw [if_pos c11] at h; exact equalArm_frz hn1 h hi
  rw [if_neg c11] at h
  by_cases c12 : tok = L.rgb ∧ state = .objectValue
  · rw [if_pos c12] at h
    unfold parseRgb at h
    cases hr : readRgb d with
    | error e => simp [hr] at h
    | ok p =>
      obtain ⟨t, rest⟩ := p
      simp [hr] at h; subst h
      obtain ⟨_, rfl⟩ := c12
      exact hi.snoc t nextState_objectValue (by decide)
  rw [if_neg c12] at h
  by_cases c13 : tok = L.i64
  · rw [if_pos c13] at h; exact scalarArm_frz (appendsP_fixed _ _ (by intro _; rfl) _ _) h hs hi
  rw [if_neg c13] at h
  refine scalarArm_frz ?_ h hs hi
  intro T d' hh; simp at hh; obtain ⟨rfl, rfl⟩ := hh; exact ⟨_, rfl, rfl⟩

theorem dispatch_frz (hn1 : 1 ≤ n) (h0 : ∀ x, t'[0]? = some x → x.isPlain = true)
    {tape : Tape} {parent : Nat} {state : PState} {d : Bytes} {tok : Nat} {st' : St}
    (h : dispatch false 0 tape parent state d tok = .ok st') (hi : Frz n t' tape parent state) :
    Frz n t' st'.tape st'.parent st'.state := by
  unfold dispatch at h
  split at h
  · rename_i hs; subst hs
    obtain ⟨ho1, ho2⟩ := hi.o2a rfl
    cases hm : mixedInsert2 tape with
    | error e => simp [hm] at h
    | ok tape' =>
      simp only [hm] at h
      -- tape = t0 ++ [x, y], tape' = t0 ++ [M, x, y]
      unfold mixedInsert2 at hm
      cases hp1 : pop? tape with
      | none => simp [hp1] at hm
      | some p1 =>
        obtain ⟨t1, y⟩ := p1
        simp only [hp1] at hm
        cases hp2 : pop? t1 with
        | none => simp [hp2] at hm
        | some p2 =>
          obtain ⟨t0, x⟩ := p2
          simp [hp2] at hm; subst hm
          have e1 := pop?_length hp1
          have e2 := pop?_length hp2
          subst e2; subst e1
          simp only [List.length_append, List.length_cons, List.length_nil] at ho1 ho2
          refine tokenArm_frz hn1 h0 h (by decide) ⟨by simp; omega, ?_, ?_, by simp; omega,
            (by intro hh; rcases hh with h | h | h <;> cases h), by simp, by simp⟩
          · intro i hi'
            rw [List.getElem?_append_left (by omega)]
            have := hi.pre i hi'
            rwa [List.getElem?_append_left (by simp; omega), List.getElem?_append_left (by omega)] at this
          · refine hi.chain.congr ?_
            intro i hi'
            rw [List.getElem?_append_left (by omega), List.getElem?_append_left (by simp; omega),
              List.getElem?_append_left (by omega)]
  · rename_i hs
    exact tokenArm_frz hn1 h0 h hs hi

theorem step_frz (hn1 : 1 ≤ n) (h0 : ∀ x, t'[0]? = some x → x.isPlain = true) {st st' : St}
    (h : step st = .next st') (hi : Frz n t' st.tape st.parent st.state) : Frz n t' st'.tape st'.parent st'.state := by
  cases hr : readId st.data with
  | none => rw [step_done hr] at h; cases h
  | some p =>
    obtain ⟨tok, d⟩ := p
    rw [step_eq hr] at h
    cases hd : dispatch false 0 st.tape st.parent st.state d tok with
    | error e => simp [hd, Iter.ofExcept] at h
    | ok s => simp [hd, Iter.ofExcept] at h; subst h; exact dispatch_frz hn1 h0 hd hi

theorem reach_frz (hn1 : 1 ≤ n) (h0 : ∀ x, t'[0]? = some x → x.isPlain = true) {a b : St}
    (h : Reach a b) (hi : Frz n t' a.tape a.parent a.state) : Frz n t' b.tape b.parent b.state := by
  obtain ⟨k, hk⟩ := h
  induction k generalizing a with
  | zero => simp [stepN] at hk; subst hk; exact hi
  | succ k ih =>
    cases hs : step a with
    | next a' => simp only [stepN, hs] at hk; exact ih (step_frz hn1 h0 hs hi) hk
    | done => simp [stepN, hs] at hk
    | err e => simp [stepN, hs] at hk

/-- at depth 0 in key state the whole tape is frozen -/
theorem frz_init (t' : Tape) (hne : t' ≠ []) : Frz t'.length t' t' 0 .key :=
  ⟨Nat.le_refl _, fun _ _ => rfl, OpenGE.top, by cases t' <;> simp_all,
    (by intro hh; rcases hh with h | h | h <;> cases h), by simp, by simp⟩

/-- **frozen prefix**: whatever the plain loop does after it stood at depth 0 in key state with
tape `t'`, the first `|t'|` tokens of the tape stay `t'` -/
theorem frozen_prefix {t' : Tape} {d : Bytes} {b : St} (hinv : TInv t' 0 .key)
    (h : Reach ⟨t', 0, .key, d⟩ b) : b.tape.take t'.length = t' := by
  by_cases hne : t' = []
  · subst hne; simp
  have h0 : ∀ x, t'[0]? = some x → x.isPlain = true := fun x hx => hinv.openAt.zero_slot x hx
  have hn1 : 1 ≤ t'.length := by cases t' <;> simp_all
  have hf := reach_frz hn1 h0 h (frz_init t' hne)
  apply List.ext_getElem?
  intro i
  by_cases hi : i < t'.length
  · rw [List.getElem?_take_of_lt hi]; exact hf.pre i hi
  · rw [List.getElem?_eq_none (by simp; omega), List.getElem?_eq_none (by omega)]

theorem reach_inv {a b : St} (h : Reach a b) (hi : TInv a.tape a.parent a.state) : TInv b.tape b.parent b.state := by
  obtain ⟨k, hk⟩ := h
  induction k generalizing a with
  | zero => simp [stepN] at hk; subst hk; exact hi
  | succ k ih =>
    cases hs : step a with
    | next a' => simp only [stepN, hs] at hk; exact ih (step_inv hs hi) hk
    | done => simp [stepN, hs] at hk
    | err e => simp [stepN, hs] at hk

theorem stepN_split : ∀ (a b : Nat) (s : St), stepN (a + b) s = (stepN a s).bind (stepN b) := by
  intro a
  induction a with
  | zero => intro b s; simp [stepN]
  | succ a ih =>
    intro b s
    have : a + 1 + b = (a + b) + 1 := by omega
    rw [this]
    cases hs : step s with
    | next s' => simp only [stepN, hs]; exact ih b s'
    | done => simp [stepN, hs]
    | err e => simp [stepN, hs]

/-- the plain loop is deterministic: a reachable state lies on the way to any reachable final state -/
theorem Reach.to_final {s c f : St} (hc : Reach s c) (hf : Reach s f) (hdone : step f = .done) : Reach c f := by
  obtain ⟨k, hk⟩ := hc
  obtain ⟨m, hm⟩ := hf
  rcases Nat.le_total k m with hkm | hmk
  · refine ⟨m - k, ?_⟩
    have := stepN_split k (m - k) s
    rw [show k + (m - k) = m by omega, hm, hk] at this
    simpa using this.symm
  · rcases Nat.eq_or_lt_of_le hmk with heq | hlt
    · subst heq; rw [hk] at hm; cases hm; exact Reach.refl _
    · have := stepN_split m (k - m) s
      rw [show m + (k - m) = k by omega, hk, hm] at this
      have e : k - m = (k - m - 1) + 1 := by omega
      rw [e] at this
      simp [stepN, hdone] at this

/-- **C19, binary tape: where an accepted prefix ends, and that its tape is final.**
If either parser accepts the first `k` bytes of `data` with tape `t'`, then on the whole input the
plain loop reaches depth 0 in key state with exactly the tape `t'`, having consumed all of the
first `k` bytes except at most one stray byte (`r`); and from then on — whether the rest of the
input is accepted or rejected — the first `|t'|` tokens of the tape are never touched again. -/
theorem C19_bin_tape_cut_point (opt : Bool) (data : Bytes) (k : Nat) (t' : Tape)
    (h : parse opt (data.take k) = .ok t') :
    ∃ r, r.length ≤ 1 ∧ Reach (init data) ⟨t', 0, .key, r ++ data.drop k⟩ ∧
      ∀ b, Reach ⟨t', 0, .key, r ++ data.drop k⟩ b → b.tape.take t'.length = t' := by
  have h' : parse false (data.take k) = .ok t' := by
    cases opt
    · exact h
    · rwa [parse_true_eq_false] at h
  obtain ⟨r, hr, hreach⟩ := cut_reach data k t' h'
  refine ⟨r, hr, hreach, fun b hb => ?_⟩
  have hinv := reach_inv hreach (init_inv data)
  exact frozen_prefix hinv hb

/-- **C19, binary tape: the tape of an accepted prefix is a prefix of the tape of the whole input.**
Every completed top-level field of the truncated input equals the original's. -/
theorem C19_bin_tape_prefix (opt : Bool) (data : Bytes) (k : Nat) (t' t : Tape)
    (h : parse opt (data.take k) = .ok t') (hfull : parse opt data = .ok t) : t.take t'.length = t' := by
  obtain ⟨r, _, hreach, hfrozen⟩ := C19_bin_tape_cut_point opt data k t' h
  have hfull' : parse false data = .ok t := by
    cases opt
    · exact hfull
    · rwa [parse_true_eq_false] at hfull
  obtain ⟨r2, hr2, hfin⟩ := run_false_ok_reach _ _ _ _ hfull'
  have hdone : step ⟨t, 0, .key, r2⟩ = .done := by
    apply step_done
    match r2, hr2 with
    | [], _ => rfl
    | [_], _ => rfl
  exact hfrozen _ (hreach.to_final hfin hdone)

/-- **C19, binary tape, error form**: if on the whole input the plain loop never stands at depth 0
in key state with (all but at most one of) the first `k` bytes consumed, the input cut after `k`
bytes is rejected by both parsers.  Its hypothesis is discharged for the two standard situations by
`C19_bin_tape_cut_inside_token_error` (the cut falls into the bytes one iteration consumes) and
`C19_bin_tape_cut_inside_container_error` (the cut falls inside a container) at the end of this file. -/
theorem C19_bin_tape_cut_error (opt : Bool) (data : Bytes) (k : Nat)
    (hno : ∀ t' r, r.length ≤ 1 → ¬ Reach (init data) ⟨t', 0, .key, r ++ data.drop k⟩) :
    ∃ e, parse opt (data.take k) = .error e := by
  cases h : parse opt (data.take k) with
  | error e => exact ⟨e, rfl⟩
  | ok t' =>
    obtain ⟨r, hr, hreach, _⟩ := C19_bin_tape_cut_point opt data k t' h
    exact absurd hreach (hno t' r hr)


/-! ## what is read is read from the front -/

/-- `r` is what is left of `d` after reading something from its front -/
def IsSuffix (r d : Bytes) : Prop := ∃ c, d = c ++ r

theorem IsSuffix.refl (d : Bytes) : IsSuffix d d := ⟨[], rfl⟩
theorem IsSuffix.trans {a b c : Bytes} (h1 : IsSuffix a b) (h2 : IsSuffix b c) : IsSuffix a c := by
  obtain ⟨x, rfl⟩ := h1; obtain ⟨y, rfl⟩ := h2; exact ⟨y ++ x, by simp⟩

theorem readId_suffix {d r : Bytes} {t : Nat} (h : readId d = some (t, r)) : IsSuffix r d := by
  match d, h with
  | a :: b :: rest, h => simp [readId] at h; exact ⟨[a, b], by simp [h.2]⟩

theorem split?_suffix {n : Nat} {d h r : Bytes} (hs : split? n d = some (h, r)) : IsSuffix r d := by
  unfold split? at hs
  split at hs
  · simp at hs; obtain ⟨rfl, rfl⟩ := hs; exact ⟨d.take n, (List.take_append_drop n d).symm⟩
  · cases hs

theorem readString_suffix {d s r : Bytes} (h : readString d = some (s, r)) : IsSuffix r d := by
  unfold readString at h
  cases hr : readId d with
  | none => simp [hr] at h
  | some p =>
    obtain ⟨len, rest⟩ := p
    simp only [hr] at h
    split at h
    · simp at h; obtain ⟨rfl, rfl⟩ := h
      exact IsSuffix.trans ⟨rest.take len, (List.take_append_drop len rest).symm⟩ (readId_suffix hr)
    · cases h

theorem readBool_suffix {d r : Bytes} {b : Bool} (h : readBool d = some (b, r)) : IsSuffix r d := by
  cases d with
  | nil => simp [readBool] at h
  | cons x xs => simp [readBool] at h; exact ⟨[x], by simp [h.2]⟩

theorem readRgb_suffix {d r : Bytes} {t : BTok} (h : readRgb d = .ok (t, r)) : IsSuffix r d := by
  unfold readRgb at h
  cases h1 : readId d with
  | none => simp [h1] at h
  | some p1 =>
  obtain ⟨start, d1⟩ := p1; simp only [h1] at h
  cases h2 : readId d1 with
  | none => simp [h2] at h
  | some p2 =>
  obtain ⟨rtok, d2⟩ := p2; simp only [h2] at h
  cases h3 : split? 4 d2 with
  | none => simp [h3] at h
  | some p3 =>
  obtain ⟨rr, d3⟩ := p3; simp only [h3] at h
  cases h4 : readId d3 with
  | none => simp [h4] at h
  | some p4 =>
  obtain ⟨gtok, d4⟩ := p4; simp only [h4] at h
  cases h5 : split? 4 d4 with
  | none => simp [h5] at h
  | some p5 =>
  obtain ⟨g, d5⟩ := p5; simp only [h5] at h
  cases h6 : readId d5 with
  | none => simp [h6] at h
  | some p6 =>
  obtain ⟨btok, d6⟩ := p6; simp only [h6] at h
  cases h7 : split? 4 d6 with
  | none => simp [h7] at h
  | some p7 =>
  obtain ⟨b, d7⟩ := p7; simp only [h7] at h
  cases h8 : readId d7 with
  | none => simp [h8] at h
  | some p8 =>
  obtain ⟨next, d8⟩ := p8; simp only [h8] at h
  have s8 : IsSuffix d8 d :=
    (readId_suffix h8).trans ((split?_suffix h7).trans ((readId_suffix h6).trans ((split?_suffix h5).trans
      ((readId_suffix h4).trans ((split?_suffix h3).trans ((readId_suffix h2).trans (readId_suffix h1)))))))
  split at h
  · simp at h; obtain ⟨_, rfl⟩ := h; exact s8
  · split at h
    · cases h9 : split? 4 d8 with
      | none => simp [h9] at h
      | some p9 =>
      obtain ⟨a, d9⟩ := p9; simp only [h9] at h
      cases h10 : readId d9 with
      | none => simp [h10] at h
      | some p10 =>
      obtain ⟨en, d10⟩ := p10; simp only [h10] at h
      split at h
      · simp at h; obtain ⟨_, rfl⟩ := h
        exact (readId_suffix h10).trans ((split?_suffix h9).trans s8)
      · cases h
    · cases h

theorem scalarArm_suffix {r : Except Err (Tape × Bytes)} {parent : Nat} {state : PState} {st' : St} {d : Bytes}
    (hr : ∀ T' d', r = .ok (T', d') → IsSuffix d' d) (h : scalarArm r parent state = .ok st') : IsSuffix st'.data d := by
  unfold scalarArm at h
  cases r with
  | error x => cases h
  | ok p =>
    obtain ⟨T', d'⟩ := p
    simp only at h
    cases hn : nextState state with
    | none => simp [hn] at h
    | some s' => simp [hn] at h; subst h; exact hr T' d' rfl

theorem parseFixed_suffix {n : Nat} {mk : Bytes → BTok} {T T' : Tape} {d r : Bytes} (h : parseFixed n mk T d = .ok (T', r)) :
    IsSuffix r d := by
  unfold parseFixed at h
  cases hs : split? n d with
  | none => simp [hs] at h
  | some p => obtain ⟨hd, rest⟩ := p; simp [hs] at h; rw [← h.2]; exact split?_suffix hs

theorem tokenArm_suffix {tape : Tape} {parent : Nat} {state : PState} {d : Bytes} {tok : Nat} {st' : St}
    (h : tokenArm false 0 tape parent state d tok = .ok st') : IsSuffix st'.data d := by
  have fx : ∀ n mk, ∀ T' d', parseFixed n mk tape d = .ok (T', d') → IsSuffix d' d := fun _ _ _ _ hh => parseFixed_suffix hh
  unfold tokenArm at h
  by_cases c1 : tok = L.u32
  · rw [if_pos c1] at h; exact scalarArm_suffix (fx _ _) h
  rw [if_neg c1] at h
  by_cases c2 : tok = L.u64
  · rw [if_pos c2] at h; exact scalarArm_suffix (fx _ _) h
  rw [if_neg c2] at h
  by_cases c3 : tok = L.i32
  · rw [if_pos c3] at h
    cases hsa : scalarArm (parseI32 tape d) parent state with
    | error x => simp [hsa] at h
    | ok st => simp [hsa] at h; subst h; exact scalarArm_suffix (fx _ _) hsa
  rw [if_neg c3] at h
  by_cases c4 : tok = L.bool
  · rw [if_pos c4] at h
    refine scalarArm_suffix ?_ h
    intro T' d' hh; unfold parseBool at hh
    cases hb : readBool d with
    | none => simp [hb] at hh
    | some p => obtain ⟨b, r⟩ := p; simp [hb] at hh; rw [← hh.2]; exact readBool_suffix hb
  rw [if_neg c4] at h
  by_cases c5 : tok = L.quoted
  · rw [if_pos c5] at h
    refine scalarArm_suffix ?_ h
    intro T' d' hh; unfold parseQuoted at hh
    cases hb : readString d with
    | none => simp [hb] at hh
    | some p => obtain ⟨b, r⟩ := p; simp [hb] at hh; rw [← hh.2]; exact readString_suffix hb
  rw [if_neg c5] at h
  by_cases c6 : tok = L.unquoted
  · rw [if_pos c6] at h
    refine scalarArm_suffix ?_ h
    intro T' d' hh; unfold parseUnquoted at hh
    cases hb : readString d with
    | none => simp [hb] at hh
    | some p => obtain ⟨b, r⟩ := p; simp [hb] at hh; rw [← hh.2]; exact readString_suffix hb
  rw [if_neg c6] at h
  by_cases c7 : tok = L.f32
  · rw [if_pos c7] at h; exact scalarArm_suffix (fx _ _) h
  rw [if_neg c7] at h
  by_cases c8 : tok = L.f64
  · rw [if_pos c8] at h; exact scalarArm_suffix (fx _ _) h
  rw [if_neg c8] at h
  by_cases c9 : tok = L.open_
  · rw [if_pos c9] at h
    unfold openArm at h
    split at h
    · simp at h; subst h; exact IsSuffix.refl _
    · split at h
      · cases h
      · cases hr : readId d with
        | none => simp [hr] at h
        | some p =>
          obtain ⟨x, nd⟩ := p
          simp only [hr] at h
          split at h
          · simp at h; subst h; exact readId_suffix hr
          · cases h
  rw [if_neg c9] at h
  by_cases c10 : tok = L.close
  · rw [if_pos c10] at h
    unfold closeArm at h
    simp only at h
    split at h
    · cases h
    · rename_i tape1 _
      cases hp : pushEnd tape1 parent with
      | error x => simp [hp] at h
      | ok p => obtain ⟨a, b, c⟩ := p; simp [hp] at h; subst h; exact IsSuffix.refl _
  rw [if_neg c10] at h
  by_cases c11 : tok = L.equal
  · rw [if_pos c11] at h
    -- every branch of the `=` arm keeps `d`
    unfold equalArm at h
    repeat' split at h
    all_goals first | (cases h; done) | (simp at h; subst h; exact IsSuffix.refl _)
  rw [if_neg c11] at h
  by_cases c12 : tok = L.rgb ∧ state = .objectValue
  · rw [if_pos c12] at h
    unfold parseRgb at h
    cases hr : readRgb d with
    | error x => simp [hr] at h
    | ok p => obtain ⟨t, rest⟩ := p; simp [hr] at h; subst h; exact readRgb_suffix hr
  rw [if_neg c12] at h
  by_cases c13 : tok = L.i64
  · rw [if_pos c13] at h; exact scalarArm_suffix (fx _ _) h
  rw [if_neg c13] at h
  exact scalarArm_suffix (fun _ _ hh => by simp at hh; rw [← hh.2]; exact IsSuffix.refl _) h

theorem step_suffix {st st' : St} (h : step st = .next st') : IsSuffix st'.data st.data := by
  cases hr : readId st.data with
  | none => rw [step_done hr] at h; cases h
  | some p =>
    obtain ⟨tok, d⟩ := p
    rw [step_eq hr] at h
    cases hd : dispatch false 0 st.tape st.parent st.state d tok with
    | error x => simp [hd, Iter.ofExcept] at h
    | ok s =>
      simp [hd, Iter.ofExcept] at h; subst h
      refine IsSuffix.trans ?_ (readId_suffix hr)
      unfold dispatch at hd
      split at hd
      · cases hm : mixedInsert2 st.tape with
        | error x => simp [hm] at hd
        | ok t => simp only [hm] at hd; exact tokenArm_suffix hd
      · exact tokenArm_suffix hd

theorem Reach.suffix {a b : St} (h : Reach a b) : IsSuffix b.data a.data := by
  obtain ⟨k, hk⟩ := h
  induction k generalizing a with
  | zero => simp [stepN] at hk; subst hk; exact IsSuffix.refl _
  | succ k ih =>
    cases hs : step a with
    | next a' => simp only [stepN, hs] at hk; exact (ih hk).trans (step_suffix hs)
    | done => simp [stepN, hs] at hk
    | err e => simp [stepN, hs] at hk

/-- the cut point as an offset: the accepted prefix ends at a point `j ∈ {k-1, k}` of the input where
the full run stands at depth 0 in key state -/
theorem C19_bin_tape_cut_offset (opt : Bool) (data : Bytes) (k : Nat) (hk : k ≤ data.length) (t' : Tape)
    (h : parse opt (data.take k) = .ok t') :
    ∃ j, j ≤ k ∧ k ≤ j + 1 ∧ Reach (init data) ⟨t', 0, .key, data.drop j⟩ := by
  have h' : parse false (data.take k) = .ok t' := by
    cases opt
    · exact h
    · rwa [parse_true_eq_false] at h
  obtain ⟨r, hr, hreach⟩ := run_false_ok_reach _ _ _ _ h'
  obtain ⟨c, hc⟩ := hreach.suffix
  simp only [init] at hc
  have hlen : c.length + r.length = k := by
    have := congrArg List.length hc
    simp at this; omega
  refine ⟨c.length, by omega, by omega, ?_⟩
  have hd : data.drop c.length = r ++ data.drop k := by
    have : data = c ++ (r ++ data.drop k) := by
      rw [← List.append_assoc, ← hc, List.take_append_drop]
    conv => lhs; rw [this]
    simp
  rw [hd]
  have := hreach.ext (data.drop k)
  simpa [init, List.take_append_drop] using this

/-- hypotheses satisfiable: `id = I32 5  id = {` cut after the first field (k = 10) and one byte later -/
example : parse true (([0x82, 0x2d, 1, 0, 0x0c, 0, 5, 0, 0, 0, 0x82, 0x2d, 1, 0, 3, 0] : Bytes).take 10)
      = .ok [.token 0x2d82, .i32 5] ∧
    parse true (([0x82, 0x2d, 1, 0, 0x0c, 0, 5, 0, 0, 0, 0x82, 0x2d, 1, 0, 3, 0] : Bytes).take 11)
      = .ok [.token 0x2d82, .i32 5] ∧
    parse true (([0x82, 0x2d, 1, 0, 0x0c, 0, 5, 0, 0, 0, 0x82, 0x2d, 1, 0, 3, 0] : Bytes).take 12)
      = .error .eof := ⟨rfl, rfl, rfl⟩

/-! ## cuts inside a token, cuts inside a container -/

/-- the plain loop is deterministic: two reachable states lie on one line -/
theorem Reach.linear {s a c : St} (ha : Reach s a) (hc : Reach s c) : Reach a c ∨ Reach c a := by
  obtain ⟨k, hk⟩ := ha
  obtain ⟨m, hm⟩ := hc
  rcases Nat.le_total k m with hkm | hmk
  · left
    refine ⟨m - k, ?_⟩
    have := stepN_split k (m - k) s
    rw [show k + (m - k) = m by omega, hm, hk] at this
    simpa using this.symm
  · right
    refine ⟨k - m, ?_⟩
    have := stepN_split m (k - m) s
    rw [show m + (k - m) = k by omega, hk, hm] at this
    simpa using this.symm

theorem Reach.eq_or_reach1 {a c : St} (h : Reach a c) : a = c ∨ Reach1 a c := by
  obtain ⟨k, hk⟩ := h
  cases k with
  | zero => simp [stepN] at hk; exact Or.inl hk
  | succ k => exact Or.inr ⟨k, hk⟩

/-- offsets: a state of the run on `data` stands at offset `j` -/
def AtOffset (data : Bytes) (st : St) (j : Nat) : Prop := j ≤ data.length ∧ st.data = data.drop j

theorem offset_mono {data : Bytes} {a c : St} {ja jc : Nat} (ha : AtOffset data a ja) (hc : AtOffset data c jc)
    (hg : a.Good) (h : Reach a c) : ja ≤ jc := by
  have := (h.good hg).2
  rw [ha.2, hc.2] at this
  simp at this
  have := ha.1; have := hc.1
  omega

theorem offset_strict {data : Bytes} {a c : St} {ja jc : Nat} (ha : AtOffset data a ja) (hc : AtOffset data c jc)
    (hg : a.Good) (h : Reach1 a c) : ja < jc := by
  have := (h.good hg).2
  rw [ha.2, hc.2] at this
  simp at this
  have := ha.1; have := hc.1
  omega

/-- the cut point of an accepted prefix, as a state of the full run -/
theorem cut_state (opt : Bool) (data : Bytes) (k : Nat) (hk : k ≤ data.length) (t' : Tape)
    (h : parse opt (data.take k) = .ok t') :
    ∃ c j, Reach (init data) c ∧ c.parent = 0 ∧ c.state = .key ∧ c.tape = t' ∧ AtOffset data c j ∧ j ≤ k ∧ k ≤ j + 1 := by
  obtain ⟨j, h1, h2, h3⟩ := C19_bin_tape_cut_offset opt data k hk t' h
  exact ⟨_, j, h3, rfl, rfl, rfl, ⟨by omega, rfl⟩, h1, h2⟩

/-- **C19, binary tape: a cut inside the bytes one iteration consumes is an error.**  Let the run on the
whole input stand at offset `j` (state `st`), and let its next iteration consume the `m` bytes up to
offset `j + m` — a lexeme with its payload (`id`, `=`, a scalar of any type with its 1/4/8 payload bytes
or its length-prefixed string), an rgb block, or a ghost `{ }` pair.  Then for every cut `k` with
`j + 2 ≤ k < j + m` the first `k` bytes are rejected by both parsers.  The exclusion of `k = j + 1` is the
documented tolerance, exactly: one stray byte behind a point where the prefix ends at depth 0 in key
state is ignored (`C19_bin_tape_cut_offset`: an accepted cut is at `j` or `j + 1` for such a point `j`). -/
theorem C19_bin_tape_cut_inside_token_error (opt : Bool) (data : Bytes) (st st' : St) (j m : Nat)
    (hr : Reach (init data) st) (hst : AtOffset data st j) (hstep : step st = .next st')
    (hst' : AtOffset data st' (j + m)) (k : Nat) (hk1 : j + 2 ≤ k) (hk2 : k < j + m) :
    ∃ e, parse opt (data.take k) = .error e := by
  cases hp : parse opt (data.take k) with
  | error e => exact ⟨e, rfl⟩
  | ok t' =>
    exfalso
    have hkl : k ≤ data.length := by have := hst'.1; omega
    obtain ⟨c, jc, hc, _, _, _, hcj, h1, h2⟩ := cut_state opt data k hkl t' hp
    have hgs := (hr.good (init_good data)).1
    have hgc := (hc.good (init_good data)).1
    rcases Reach.linear hr hc with hsc | hcs
    · -- the cut state is `st` itself or comes after `st'`
      rcases hsc.eq_or_reach1 with rfl | ⟨n, hn⟩
      · have : st.data = data.drop j := hst.2
        rw [hcj.2] at this
        have hl := congrArg List.length this
        simp at hl
        have := hcj.1; have := hst.1
        omega
      · simp only [stepN, hstep] at hn
        have hgs' := (step_good hstep hgs).1
        have := offset_mono hst' hcj hgs' ⟨n, hn⟩
        omega
    · have := offset_mono hcj hst hgc hcs
      omega

/-- **C19, binary tape: a cut inside a container is an error.**  Let `a` and `b` be states of the run on the
whole input, `a` at offset `ja` — right behind a container's `{` — and `b` at offset `jb` — right in front
of its matching `}` — such that every state from `a` to `b` is inside a container (`parent ≠ 0`).  Then
for every cut `k` with `ja + 1 ≤ k ≤ jb` the first `k` bytes are rejected by both parsers.  (The cuts
`k ≤ ja` fall into the `{` lexeme or in front of it, `k > jb` into the `}` or behind it:
`C19_bin_tape_cut_inside_token_error` / `C19_bin_tape_cut_offset`.) -/
theorem C19_bin_tape_cut_inside_container_error (opt : Bool) (data : Bytes) (a b : St) (ja jb : Nat)
    (hra : Reach (init data) a) (hab : Reach a b) (ha : AtOffset data a ja) (hb : AtOffset data b jb)
    (hin : ∀ c, Reach a c → Reach c b → c.parent ≠ 0)
    (k : Nat) (hk1 : ja + 1 ≤ k) (hk2 : k ≤ jb) :
    ∃ e, parse opt (data.take k) = .error e := by
  cases hp : parse opt (data.take k) with
  | error e => exact ⟨e, rfl⟩
  | ok t' =>
    exfalso
    have hkl : k ≤ data.length := by have := hb.1; omega
    obtain ⟨c, jc, hc, hpar, _, _, hcj, h1, h2⟩ := cut_state opt data k hkl t' hp
    have hga := (hra.good (init_good data)).1
    have hgc := (hc.good (init_good data)).1
    have hrb := hra.trans hab
    have hgb := (hrb.good (init_good data)).1
    -- `c` lies before `a`, between `a` and `b`, or after `b`
    rcases Reach.linear hra hc with hac | hca
    · rcases Reach.linear hrb hc with hbc | hcb
      · rcases hbc.eq_or_reach1 with rfl | hbc1
        · exact hin b hab (Reach.refl _) hpar
        · have := offset_strict hb hcj hgb hbc1
          omega
      · exact hin c hac hcb hpar
    · rcases hca.eq_or_reach1 with rfl | hca1
      · exact hin c (Reach.refl _) hab hpar
      · have := offset_strict hcj ha hgc hca1
        omega


/-- hypotheses satisfiable: `id = { I32 5 }`; the full run stands at offset 6 in front of the `I32` lexeme
(6 bytes); cuts at 8..11 fall inside it -/
example : ∀ k, 8 ≤ k → k < 12 →
    ∃ e, parse true (([0x82, 0x2d, 1, 0, 3, 0, 0x0c, 0, 5, 0, 0, 0, 4, 0] : Bytes).take k) = .error e :=
  fun k h1 h2 =>
    C19_bin_tape_cut_inside_token_error true [0x82, 0x2d, 1, 0, 3, 0, 0x0c, 0, 5, 0, 0, 0, 4, 0]
      ⟨[.token 0x2d82, .array 0], 1, .openFirst, [0x0c, 0, 5, 0, 0, 0, 4, 0]⟩
      ⟨[.token 0x2d82, .array 0, .i32 5], 1, .openSecond, [4, 0]⟩ 6 6
      ⟨3, rfl⟩ ⟨by decide, rfl⟩ rfl ⟨by decide, rfl⟩ k h1 h2

/-- the same input cut at every point strictly inside the container `{ I32 5 }` (offsets 7..12), and inside the
`I32` payload: all rejected; cut behind the `}` (14) or one stray byte further it is accepted -/
example :
    let data : Bytes := [0x82, 0x2d, 1, 0, 3, 0, 0x0c, 0, 5, 0, 0, 0, 4, 0, 0x82]
    parse true (data.take 7) = .error .eof ∧ parse true (data.take 8) = .error .eof ∧
    parse true (data.take 9) = .error .eof ∧ parse true (data.take 10) = .error .eof ∧
    parse true (data.take 11) = .error .eof ∧ parse true (data.take 12) = .error .eof ∧
    parse true (data.take 13) = .error .eof ∧
    parse true (data.take 14) = .ok [.token 0x2d82, .array 3, .i32 5, .end_ 1] ∧
    parse true (data.take 15) = .ok [.token 0x2d82, .array 3, .i32 5, .end_ 1] :=
  ⟨rfl, rfl, rfl, rfl, rfl, rfl, rfl, rfl, rfl⟩


theorem Reach.antisymm {b c : St} (hg : b.Good) (h1 : Reach b c) (h2 : Reach c b) : b = c := by
  rcases h1.eq_or_reach1 with h | h
  · exact h
  · have hgc := (h.good hg)
    have := (h2.good hgc.1).2
    omega

/-- the states strictly between two consecutive states of the run: none -/
theorem between_step {a b c : St} (hg : a.Good) (hs : step a = .next b) (h1 : Reach a c) (h2 : Reach c b) : c = a ∨ c = b := by
  rcases h1.eq_or_reach1 with h | ⟨n, hn⟩
  · exact Or.inl h.symm
  · simp only [stepN, hs] at hn
    have hgb := (step_good hs hg).1
    exact Or.inr (Reach.antisymm hgb ⟨n, hn⟩ h2).symm

/-- hypotheses of the container theorem satisfiable: `id = { I32 5 }`, `a` behind the `{` (offset 6), `b` in
front of the `}` (offset 12): the cuts 7..12 are rejected -/
example : ∀ k, 7 ≤ k → k ≤ 12 →
    ∃ e, parse true (([0x82, 0x2d, 1, 0, 3, 0, 0x0c, 0, 5, 0, 0, 0, 4, 0] : Bytes).take k) = .error e := by
  intro k h1 h2
  have ha : Reach (init [0x82, 0x2d, 1, 0, 3, 0, 0x0c, 0, 5, 0, 0, 0, 4, 0])
      ⟨[.token 0x2d82, .array 0], 1, .openFirst, [0x0c, 0, 5, 0, 0, 0, 4, 0]⟩ := ⟨3, rfl⟩
  have hs : step ⟨[.token 0x2d82, .array 0], 1, .openFirst, [0x0c, 0, 5, 0, 0, 0, 4, 0]⟩
      = .next ⟨[.token 0x2d82, .array 0, .i32 5], 1, .openSecond, [4, 0]⟩ := rfl
  refine C19_bin_tape_cut_inside_container_error true _ _ ⟨[.token 0x2d82, .array 0, .i32 5], 1, .openSecond, [4, 0]⟩ 6 12 ha ⟨1, by simp [stepN, hs]⟩ ⟨by decide, rfl⟩ ⟨by decide, rfl⟩ ?_ k h1 h2
  intro c hc1 hc2
  rcases between_step (ha.good (init_good _)).1 hs hc1 hc2 with rfl | rfl <;> decide

end Jomini.BinTape
