import JominiModel.Proofs.BinTapeTotal
/-
C19 for the binary tape parser: truncated inputs.  Step determinism on prefixes (an iteration
that had enough bytes behaves identically on any extension), the cut point of an accepted prefix,
and the frozen-prefix invariant (what is on the tape at depth 0 in key state is never touched again).
-/
namespace Jomini.BinTape
open Jomini


/-! ## readers on an extended input -/

theorem readId_ext {d r : Bytes} {t : Nat} (h : readId d = some (t, r)) (e : Bytes) : readId (d ++ e) = some (t, r ++ e) := by
  match d, h with
  | a :: b :: rest, h => simp [readId] at h ⊢; exact ⟨h.1, by rw [h.2]⟩

theorem split?_ext {n : Nat} {d h r : Bytes} (hs : split? n d = some (h, r)) (e : Bytes) : split? n (d ++ e) = some (h, r ++ e) := by
  unfold split? at hs ⊢
  split at hs
  · rename_i hn
    simp at hs; obtain ⟨rfl, rfl⟩ := hs
    have : n ≤ (d ++ e).length := by simp; omega
    simp [List.take_append_of_le_length hn, List.drop_append_of_le_length hn]; omega
  · cases hs

theorem readString_ext {d s r : Bytes} (h : readString d = some (s, r)) (e : Bytes) : readString (d ++ e) = some (s, r ++ e) := by
  unfold readString at h ⊢
  cases hr : readId d with
  | none => simp [hr] at h
  | some p =>
    obtain ⟨len, rest⟩ := p
    simp only [hr] at h
    rw [readId_ext hr e]
    simp only
    split at h
    · rename_i hl
      simp at h; obtain ⟨rfl, rfl⟩ := h
      have : len ≤ (rest ++ e).length := by simp; omega
      simp [List.take_append_of_le_length hl, List.drop_append_of_le_length hl]; omega
    · cases h

theorem readBool_ext {d r : Bytes} {b : Bool} (h : readBool d = some (b, r)) (e : Bytes) : readBool (d ++ e) = some (b, r ++ e) := by
  cases d with
  | nil => simp [readBool] at h
  | cons x xs => simp [readBool] at h ⊢; exact ⟨h.1, by rw [h.2]⟩

theorem parseFixed_ext {n : Nat} {mk : Bytes → BTok} {T T' : Tape} {d r : Bytes} (h : parseFixed n mk T d = .ok (T', r)) (e : Bytes) :
    parseFixed n mk T (d ++ e) = .ok (T', r ++ e) := by
  unfold parseFixed at h ⊢
  cases hs : split? n d with
  | none => simp [hs] at h
  | some p => obtain ⟨hd, rest⟩ := p; simp [hs] at h; rw [split?_ext hs e]; simp [h.1, ← h.2]

theorem parseQuoted_ext {T T' : Tape} {d r : Bytes} (h : parseQuoted T d = .ok (T', r)) (e : Bytes) :
    parseQuoted T (d ++ e) = .ok (T', r ++ e) := by
  unfold parseQuoted at h ⊢
  cases hs : readString d with
  | none => simp [hs] at h
  | some p => obtain ⟨s, rest⟩ := p; simp [hs] at h; rw [readString_ext hs e]; simp [h.1, ← h.2]

theorem parseUnquoted_ext {T T' : Tape} {d r : Bytes} (h : parseUnquoted T d = .ok (T', r)) (e : Bytes) :
    parseUnquoted T (d ++ e) = .ok (T', r ++ e) := by
  unfold parseUnquoted at h ⊢
  cases hs : readString d with
  | none => simp [hs] at h
  | some p => obtain ⟨s, rest⟩ := p; simp [hs] at h; rw [readString_ext hs e]; simp [h.1, ← h.2]

theorem parseBool_ext {T T' : Tape} {d r : Bytes} (h : parseBool T d = .ok (T', r)) (e : Bytes) :
    parseBool T (d ++ e) = .ok (T', r ++ e) := by
  unfold parseBool at h ⊢
  cases hs : readBool d with
  | none => simp [hs] at h
  | some p => obtain ⟨s, rest⟩ := p; simp [hs] at h; rw [readBool_ext hs e]; simp [h.1, ← h.2]

theorem readRgb_ext {d r : Bytes} {t : BTok} (h : readRgb d = .ok (t, r)) (e : Bytes) : readRgb (d ++ e) = .ok (t, r ++ e) := by
  unfold readRgb at h
  cases h1 : readId d with
  | none => simp [h1] at h
  | some p1 =>
  obtain ⟨start, d1⟩ := p1; simp only [h1] at h
  cases h2 : readId d1 with
  | none => simp [h2] at h
  | some p2 =>
  obtain ⟨rtok, d2⟩ := p2; simp only [h2] at h
  cases h3 : split? 4 d2 with
  | none => simp [h3] at h
  | some p3 =>
  obtain ⟨rr, d3⟩ := p3; simp only [h3] at h
  cases h4 : readId d3 with
  | none => simp [h4] at h
  | some p4 =>
  obtain ⟨gtok, d4⟩ := p4; simp only [h4] at h
  cases h5 : split? 4 d4 with
  | none => simp [h5] at h
  | some p5 =>
  obtain ⟨g, d5⟩ := p5; simp only [h5] at h
  cases h6 : readId d5 with
  | none => simp [h6] at h
  | some p6 =>
  obtain ⟨btok, d6⟩ := p6; simp only [h6] at h
  cases h7 : split? 4 d6 with
  | none => simp [h7] at h
  | some p7 =>
  obtain ⟨b, d7⟩ := p7; simp only [h7] at h
  cases h8 : readId d7 with
  | none => simp [h8] at h
  | some p8 =>
  obtain ⟨next, d8⟩ := p8; simp only [h8] at h
  unfold readRgb
  simp only [readId_ext h1 e, readId_ext h2 e, split?_ext h3 e, readId_ext h4 e, split?_ext h5 e, readId_ext h6 e,
    split?_ext h7 e, readId_ext h8 e]
  split at h
  · rename_i hc
    simp at h; obtain ⟨rfl, rfl⟩ := h
    simp [hc]
  · rename_i hc
    split at h
    · rename_i hc2
      cases h9 : split? 4 d8 with
      | none => simp [h9] at h
      | some p9 =>
      obtain ⟨a, d9⟩ := p9; simp only [h9] at h
      cases h10 : readId d9 with
      | none => simp [h10] at h
      | some p10 =>
      obtain ⟨en, d10⟩ := p10; simp only [h10] at h
      split at h
      · rename_i hc3
        simp at h; obtain ⟨rfl, rfl⟩ := h
        simp only [if_neg hc, if_pos hc2, split?_ext h9 e, readId_ext h10 e, hc3, if_true]
      · cases h
    · cases h

theorem scalarArm_ext {r r' : Except Err (Tape × Bytes)} {parent : Nat} {state : PState} {st' : St} {e : Bytes}
    (hr : ∀ T' d', r = .ok (T', d') → r' = .ok (T', d' ++ e))
    (h : scalarArm r parent state = .ok st') :
    scalarArm r' parent state = .ok { st' with data := st'.data ++ e } := by
  unfold scalarArm at h ⊢
  cases r with
  | error x => cases h
  | ok p =>
    obtain ⟨T', d'⟩ := p
    rw [hr T' d' rfl]
    simp only at h ⊢
    cases hn : nextState state with
    | none => simp [hn] at h
    | some s' => simp [hn] at h ⊢; subst h; simp

theorem openArm_ext {tape : Tape} {parent : Nat} {state : PState} {d e : Bytes} {st' : St}
    (h : openArm tape parent state d = .ok st') :
    openArm tape parent state (d ++ e) = .ok { st' with data := st'.data ++ e } := by
  unfold openArm at h ⊢
  split at h
  · rename_i hk; simp at h; subst h; simp [hk]
  · rename_i hk
    rw [if_neg hk]
    split at h
    · cases h
    · rename_i hne
      rw [if_neg hne]
      cases hr : readId d with
      | none => simp [hr] at h
      | some p =>
        obtain ⟨x, nd⟩ := p
        simp only [hr] at h
        rw [readId_ext hr e]
        simp only
        split at h
        · rename_i hx; simp at h; subst h; simp [hx]
        · cases h

theorem closeArm_ext {tape : Tape} {parent : Nat} {state : PState} {d e : Bytes} {st' : St}
    (h : closeArm tape parent state d = .ok st') :
    closeArm tape parent state (d ++ e) = .ok { st' with data := st'.data ++ e } := by
  unfold closeArm at h ⊢
  simp only at h ⊢
  split at h
  · cases h
  · rename_i tape1 hpre
    cases hp : pushEnd tape1 parent with
    | error x => simp [hp] at h
    | ok p => obtain ⟨a, b, c⟩ := p; simp [hp] at h ⊢; subst h; simp

theorem equalArm_ext {tape : Tape} {parent : Nat} {state : PState} {d e : Bytes} {st' : St}
    (h : equalArm tape parent state d = .ok st') :
    equalArm tape parent state (d ++ e) = .ok { st' with data := st'.data ++ e } := by
  unfold equalArm at h ⊢
  split at h
  · simp at h; subst h; simp
  · cases hs : setParentToObject tape parent with
    | error x => simp [hs] at h
    | ok t' => simp [hs] at h ⊢; subst h; simp
  · simp at h; subst h; simp
  · cases hp : pop? tape with
    | none => simp [hp] at h
    | some p =>
      obtain ⟨t1, last⟩ := p
      simp only [hp] at h ⊢
      split at h
      · cases h
      · cases h
      · rename_i hna hne
        split at h
        · rename_i hoe
          cases hs : setParentToObject t1 parent with
          | error x => simp [hs] at h
          | ok t2 =>
            simp [hs] at h; subst h
            cases last <;> first | exact absurd rfl (hna _) | exact absurd rfl (hne _) | simp [hoe, hs]
        · rename_i hoe
          simp at h; subst h
          cases last <;> first | exact absurd rfl (hna _) | exact absurd rfl (hne _) | simp [hoe]
  · cases h

theorem tokenArm_ext {tape : Tape} {parent : Nat} {state : PState} {d e : Bytes} {tok : Nat} {st' : St}
    (h : tokenArm false 0 tape parent state d tok = .ok st') :
    tokenArm false 0 tape parent state (d ++ e) tok = .ok { st' with data := st'.data ++ e } := by
  have fx : ∀ n mk, ∀ T' d', parseFixed n mk tape d = .ok (T', d') → parseFixed n mk tape (d ++ e) = .ok (T', d' ++ e) :=
    fun _ _ _ _ hh => parseFixed_ext hh e
  unfold tokenArm at h ⊢
  by_cases c1 : tok = L.u32
  · rw [if_pos c1] at h ⊢; exact scalarArm_ext (fx _ _) h
  rw [if_neg c1] at h ⊢
  by_cases c2 : tok = L.u64
  · rw [if_pos c2] at h ⊢; exact scalarArm_ext (fx _ _) h
  rw [if_neg c2] at h ⊢
  by_cases c3 : tok = L.i32
  · rw [if_pos c3] at h ⊢
    cases hsa : scalarArm (parseI32 tape d) parent state with
    | error x => simp [hsa] at h
    | ok st =>
      simp [hsa] at h; subst h
      have := scalarArm_ext (e := e) (r' := parseI32 tape (d ++ e)) (fx _ _) hsa
      simp [this]
  rw [if_neg c3] at h ⊢
  by_cases c4 : tok = L.bool
  · rw [if_pos c4] at h ⊢; exact scalarArm_ext (fun _ _ hh => parseBool_ext hh e) h
  rw [if_neg c4] at h ⊢
  by_cases c5 : tok = L.quoted
  · rw [if_pos c5] at h ⊢; exact scalarArm_ext (fun _ _ hh => parseQuoted_ext hh e) h
  rw [if_neg c5] at h ⊢
  by_cases c6 : tok = L.unquoted
  · rw [if_pos c6] at h ⊢; exact scalarArm_ext (fun _ _ hh => parseUnquoted_ext hh e) h
  rw [if_neg c6] at h ⊢
  by_cases c7 : tok = L.f32
  · rw [if_pos c7] at h ⊢; exact scalarArm_ext (fx _ _) h
  rw [if_neg c7] at h ⊢
  by_cases c8 : tok = L.f64
  · rw [if_pos c8] at h ⊢; exact scalarArm_ext (fx _ _) h
  rw [if_neg c8] at h ⊢
  by_cases c9 : tok = L.open_
  · rw [if_pos c9] at h ⊢; exact openArm_ext h
  rw [if_neg c9] at h ⊢
  by_cases c10 : tok = L.close
  · rw [if_pos c10] at h ⊢; exact closeArm_ext h
  rw [if_neg c10] at h ⊢
  by_cases c11 : tok = L.equal
  · rw [if_pos c11] at h ⊢; exact equalArm_ext h
  rw [if_neg c11] at h ⊢
  by_cases c12 : tok = L.rgb ∧ state = .objectValue
  · rw [if_pos c12] at h ⊢
    unfold parseRgb at h ⊢
    cases hr : readRgb d with
    | error x => simp [hr] at h
    | ok p =>
      obtain ⟨t, rest⟩ := p
      simp [hr] at h; subst h
      simp [readRgb_ext hr e]
  rw [if_neg c12] at h ⊢
  by_cases c13 : tok = L.i64
  · rw [if_pos c13] at h ⊢; exact scalarArm_ext (fx _ _) h
  rw [if_neg c13] at h ⊢
  exact scalarArm_ext (fun _ _ hh => by simp at hh; obtain ⟨rfl, rfl⟩ := hh; rfl) h

theorem dispatch_ext {tape : Tape} {parent : Nat} {state : PState} {d e : Bytes} {tok : Nat} {st' : St}
    (h : dispatch false 0 tape parent state d tok = .ok st') :
    dispatch false 0 tape parent state (d ++ e) tok = .ok { st' with data := st'.data ++ e } := by
  unfold dispatch at h ⊢
  split at h
  · rename_i hs
    rw [if_pos hs]
    cases hm : mixedInsert2 tape with
    | error x => simp [hm] at h
    | ok t' => simp only [hm] at h ⊢; exact tokenArm_ext h
  · rename_i hs
    rw [if_neg hs]; exact tokenArm_ext h

/-- **step determinism on prefixes**: an iteration that had enough bytes behaves identically on
any extension of the input -/
theorem step_ext {st st' : St} (h : step st = .next st') (e : Bytes) :
    step { st with data := st.data ++ e } = .next { st' with data := st'.data ++ e } := by
  cases hr : readId st.data with
  | none => rw [step_done hr] at h; cases h
  | some p =>
    obtain ⟨tok, d⟩ := p
    rw [step_eq hr] at h
    rw [step_eq (st := { st with data := st.data ++ e }) (readId_ext hr e)]
    cases hd : dispatch false 0 st.tape st.parent st.state d tok with
    | error x => simp [hd, Iter.ofExcept] at h
    | ok s =>
      simp [hd, Iter.ofExcept] at h; subst h
      simp [dispatch_ext hd, Iter.ofExcept]

theorem stepN_ext : ∀ (k : Nat) (a b : St) (e : Bytes), stepN k a = some b →
    stepN k { a with data := a.data ++ e } = some { b with data := b.data ++ e } := by
  intro k
  induction k with
  | zero => intro a b e h; simp only [stepN, Option.some.injEq] at h ⊢; subst h; rfl
  | succ k ih =>
    intro a b e h
    cases hs : step a with
    | next a' =>
      simp only [stepN, hs] at h
      simp only [stepN, step_ext hs e]
      exact ih a' b e h
    | done => simp [stepN, hs] at h
    | err x => simp [stepN, hs] at h

theorem Reach.ext {a b : St} (h : Reach a b) (e : Bytes) :
    Reach { a with data := a.data ++ e } { b with data := b.data ++ e } := by
  obtain ⟨k, hk⟩ := h; exact ⟨k, stepN_ext k a b e hk⟩

/-- an accepting plain run ends at depth 0 in key state with at most one unread byte -/
theorem run_false_ok_reach (f : Nat) : ∀ (n : Nat) (st : St) (t : Tape), run false f n st = .ok t →
    ∃ r, r.length ≤ 1 ∧ Reach st ⟨t, 0, .key, r⟩ := by
  intro n
  induction n with
  | zero => intro st t h; simp [run] at h
  | succ n ih =>
    intro st t h
    unfold run at h
    rw [iter_false] at h
    cases hs : step st with
    | done =>
      simp only [hs] at h
      unfold finish at h
      split at h
      · rename_i hc
        simp at h
        have hr : readId st.data = none := by
          cases hrd : readId st.data with
          | none => rfl
          | some p =>
            obtain ⟨tok, d⟩ := p; rw [step_eq hrd] at hs
            cases hdd : dispatch false 0 st.tape st.parent st.state d tok <;> simp [hdd, Iter.ofExcept] at hs
        refine ⟨st.data, ?_, ?_⟩
        · generalize st.data = dd at hr
          match dd, hr with
          | [], _ => simp
          | [_], _ => simp
          | a :: b :: rest, hr => simp [readId] at hr
        · obtain ⟨tape, parent, state, data⟩ := st
          simp only at hc h; obtain ⟨rfl, rfl⟩ := hc; subst h
          exact Reach.refl _
      · cases h
    | err x => simp [hs] at h
    | next st' =>
      simp only [hs] at h
      obtain ⟨r, hr, hreach⟩ := ih st' t h
      exact ⟨r, hr, Reach.head hs hreach⟩

/-- **C19 (A)**: if the reference parser accepts the first `k` bytes, then on the whole input the
plain loop reaches depth 0 in key state with exactly that tape, having consumed all of the first
`k` bytes but at most one stray byte. -/
theorem cut_reach (data : Bytes) (k : Nat) (t' : Tape) (h : parse false (data.take k) = .ok t') :
    ∃ r, r.length ≤ 1 ∧ Reach (init data) ⟨t', 0, .key, r ++ data.drop k⟩ := by
  obtain ⟨r, hr, hreach⟩ := run_false_ok_reach _ _ _ _ h
  refine ⟨r, hr, ?_⟩
  have := hreach.ext (data.drop k)
  simpa [init, List.take_append_drop] using this

end Jomini.BinTape
