import JominiModel.Proofs.WriterFullParse
/-
C15 over the full document type: the public calls `dcallsF d` (Spec/WriterFull.lean) do to the writer
exactly what `write_tape` does on the tape of `d` (`semF`) — the bridge from `run` of calls to `semV`.
With `bytes_full` and `parse_wlay` the call list of a document parses back to the document's content.
-/
namespace Jomini.Writer
open Jomini Jomini.Writer.Spec
open Jomini.TextTape (Scal FVal FFirst FFields FVals FItems)

theorem run1_unq (s : State) (t : Bytes) (cs : List Call) : (run (.unquoted t :: cs) s).1 = (run cs (wr s t)).1 :=
  run_cons_ok cs (wr_eq s t)

theorem run1_end (s : State) (cs : List Call) : (run (.end :: cs) s).1 = (run cs (endT s)).1 := by
  simp only [run, step, endT]
  cases writeEnd s <;> rfl

theorem run_opCallsT (o : TextTape.Op) (s : State) (cs : List Call) :
    (run (opCallsT o ++ cs) s).1 = (run cs (opK o s)).1 := by
  unfold opCallsT opK
  by_cases h : o = .eq
  · simp [h]
  · simp only [h, if_false, List.cons_append, List.nil_append]
    exact run_cons_ok cs rfl

theorem writeOperator_opArm (s : State) (o : TextTape.Op) (h : s.mixedMode ≠ .disabled) :
    writeOperator s (opW o) = opArm o s := by
  simp [writeOperator, opArm, h, put]

theorem preMM_ne_disabled (s : State) (h : s.mixedMode ≠ .disabled) : preMM s ≠ .disabled := by
  unfold preMM; split
  · simp
  · exact h

theorem wr_mm_ne_disabled (s : State) (t : Bytes) (h : s.mixedMode ≠ .disabled) : (wr s t).mixedMode ≠ .disabled := by
  rw [wr_M]; exact preMM_ne_disabled s h

theorem opArm_mm (s : State) (o : TextTape.Op) (h : s.mixedMode ≠ .disabled) : (opArm o s).mixedMode ≠ .disabled := by
  simp [opArm, h, put]

mutual
theorem RV : ∀ (v : FVal) (s : State) (cs : List Call), CallsOKV v →
    (run (dcallsV v ++ cs) s).1 = (run cs (semV v s)).1
  | .scal _ x, s, cs, _ => by simpa [dcallsV, semV] using run1_unq s x.text cs
  | .empty _ _, s, cs, _ => by
    simp only [dcallsV, semV, List.cons_append, List.nil_append]
    rw [run_cons_ok (s1 := writeArrayStart s) _ rfl, run1_end]
  | .obj _ _ first rest _, s, cs, h => by
    simp only [CallsOKV] at h
    simp only [dcallsV, semV, List.cons_append, List.append_assoc]
    rw [run_cons_ok (s1 := writeObjectStart s) _ rfl, RFirst first _ _ h.1, RF rest _ _ h.2]
    simpa using run1_end _ cs
  | .arrS _ _ s0 rest _, s, cs, h => by
    simp only [CallsOKV] at h
    simp only [dcallsV, semV, List.cons_append, List.append_assoc]
    rw [run_cons_ok (s1 := writeArrayStart s) _ rfl, run1_unq, RVs rest _ _ h]
    simpa using run1_end _ cs
  | .arrC _ first rest _, s, cs, h => by
    simp only [CallsOKV] at h
    simp only [dcallsV, semV, List.cons_append, List.append_assoc]
    rw [run_cons_ok (s1 := writeArrayStart s) _ rfl, RV first _ _ h.1, RVs rest _ _ h.2]
    simpa using run1_end _ cs
  | .ghostIn _ _ _ v, s, cs, h => by
    simp only [CallsOKV] at h
    simpa [dcallsV, semV] using RV v s cs h
  | .mixed .., _, _, h => by simp [CallsOKV] at h
  | .arrSM _ _ s0 pre _ m0 _ o items _, s, cs, h => by
    simp only [CallsOKV] at h
    simp only [dcallsV, semV, List.cons_append, List.append_assoc]
    rw [run_cons_ok (s1 := writeArrayStart s) _ rfl, run1_unq, RVs pre _ _ h.1,
      run_cons_ok (s1 := startMixedMode (semVs pre (wr (writeArrayStart s) s0.text))) _ rfl, run1_unq]
    have hm : (wr (startMixedMode (semVs pre (wr (writeArrayStart s) s0.text))) m0.text).mixedMode ≠ .disabled :=
      wr_mm_ne_disabled _ _ (by simp [startMixedMode])
    rw [run_cons_ok (s1 := opArm o (wr (startMixedMode (semVs pre (wr (writeArrayStart s) s0.text))) m0.text)) _
      (by simp only [step]; rw [writeOperator_opArm _ o hm])]
    rw [RI items _ _ false (fun _ => opArm_mm _ o hm) h.2]
    simpa using run1_end _ cs
  | .arrCM _ first pre _ m0 _ o items _, s, cs, h => by
    simp only [CallsOKV] at h
    simp only [dcallsV, semV, List.cons_append, List.append_assoc]
    rw [run_cons_ok (s1 := writeArrayStart s) _ rfl, RV first _ _ h.1, RVs pre _ _ h.2.1,
      run_cons_ok (s1 := startMixedMode (semVs pre (semV first (writeArrayStart s)))) _ rfl, run1_unq]
    have hm : (wr (startMixedMode (semVs pre (semV first (writeArrayStart s)))) m0.text).mixedMode ≠ .disabled :=
      wr_mm_ne_disabled _ _ (by simp [startMixedMode])
    rw [run_cons_ok (s1 := opArm o (wr (startMixedMode (semVs pre (semV first (writeArrayStart s)))) m0.text)) _
      (by simp only [step]; rw [writeOperator_opArm _ o hm])]
    rw [RI items _ _ false (fun _ => opArm_mm _ o hm) h.2.2]
    simpa using run1_end _ cs
theorem RFirst : ∀ (x : FFirst) (s : State) (cs : List Call), CallsOKFirst x →
    (run (dcallsFirst x ++ cs) s).1 = (run cs (semFirst x s)).1
  | .kv k _ o v, s, cs, h => by
    simp only [CallsOKFirst] at h
    simp only [dcallsFirst, semFirst, List.cons_append, List.append_assoc]
    rw [run1_unq, run_opCallsT, RV v _ _ h]
  | .flds f, s, cs, h => by
    simp only [CallsOKFirst] at h
    simpa [dcallsFirst, semFirst] using RF f s cs h
theorem RF : ∀ (fs : FFields) (s : State) (cs : List Call), CallsOKF fs →
    (run (dcallsF fs ++ cs) s).1 = (run cs (semF fs s)).1
  | .nil, s, cs, _ => by simp [dcallsF, semF]
  | .cons _ k _ o v rest, s, cs, h => by
    simp only [CallsOKF] at h
    simp only [dcallsF, semF, List.cons_append, List.append_assoc]
    rw [run1_unq, run_opCallsT, RV v _ _ h.1, RF rest _ _ h.2]
  | .consImp _ k v rest, s, cs, h => by
    simp only [CallsOKF] at h
    simp only [dcallsF, semF, List.cons_append, List.append_assoc]
    rw [run1_unq, RV v _ _ h.1, RF rest _ _ h.2]
  | .ghost _ _ rest, s, cs, h => by
    simp only [CallsOKF] at h
    simpa [dcallsF, semF] using RF rest s cs h
  | .consHdr _ k _ o _ hd body rest, s, cs, h => by
    simp only [CallsOKF] at h
    simp only [dcallsF, semF, List.cons_append, List.append_assoc]
    rw [run1_unq, run_opCallsT, run_cons_ok (s1 := writeHeader (opK o (wr s k.text)) hd.bytes) _ rfl,
      RV body _ _ h.1, RF rest _ _ h.2]
  | .paramVal .., _, _, h => by simp [CallsOKF] at h
  | .paramObj .., _, _, h => by simp [CallsOKF] at h
  | .paramHdr .., _, _, h => by simp [CallsOKF] at h
theorem RVs : ∀ (vs : FVals) (s : State) (cs : List Call), CallsOKVs vs →
    (run (dcallsVs vs ++ cs) s).1 = (run cs (semVs vs s)).1
  | .nil, s, cs, _ => by simp [dcallsVs, semVs]
  | .cons v rest, s, cs, h => by
    simp only [CallsOKVs] at h
    simp only [dcallsVs, semVs, List.append_assoc]
    rw [RV v _ _ h.1, RVs rest _ _ h.2]
theorem RI : ∀ (is : FItems) (s : State) (cs : List Call) (afterCont : Bool),
    (afterCont = false → s.mixedMode ≠ .disabled) → CallsOKI afterCont is →
    (run (dcallsI is ++ cs) s).1 = (run cs (semI is s)).1
  | .nil, s, cs, _, _, _ => by simp [dcallsI, semI]
  | .scal _ x rest, s, cs, ac, hm, h => by
    simp only [CallsOKI] at h
    simp only [dcallsI, semI, List.cons_append]
    rw [run1_unq, RI rest _ _ ac (fun hac => wr_mm_ne_disabled _ _ (hm hac)) h]
  | .op _ o rest, s, cs, ac, hm, h => by
    simp only [CallsOKI] at h
    simp only [dcallsI, semI, List.cons_append]
    rw [run_cons_ok (s1 := opArm o s) _ (by simp only [step]; rw [writeOperator_opArm _ o (hm h.1)]),
      RI rest _ _ ac (fun hac => opArm_mm _ o (hm hac)) h.2]
  | .cont v rest, s, cs, ac, hm, h => by
    simp only [CallsOKI] at h
    simp only [dcallsI, semI, List.append_assoc]
    rw [RV v _ _ h.1, RI rest _ _ true (fun hf => by cases hf) h.2]
end

/-- the calls of a document do to the writer what `write_tape` does on its tape -/
theorem run_dcalls (fs : FFields) (s : State) (h : CallsOKF fs) : (run (dcallsF fs) s).1 = semF fs s := by
  have := RF fs s [] h
  simpa [run] using this

/-- the call list of a document writes text that parses back to the document's content -/
theorem parse_back_full (c : UInt8) (f : Nat) (hc : TextTape.isBlank c = true) (fs : FFields) (a0 : Bytes)
    (hv : TextTape.FValidF fs a0) (hp : FPlainF false fs) (hk : CallsOKF fs)
    (hb : TextTape.hasBom (run (dcallsF fs) (State.init c f)).1.out = false) :
    ∃ T, TextTape.parse (run (dcallsF fs) (State.init c f)).1.out = .ok T false ∧
      T.map TextTape.Tok.erase = TextTape.dtapeF fs 0 := by
  rw [run_dcalls fs _ hk, bytes_full c f fs hp] at hb ⊢
  exact parse_wlay c f hc fs a0 hv hp hb

end Jomini.Writer
