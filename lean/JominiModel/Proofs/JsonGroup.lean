import JominiModel.Model.Json
import JominiModel.Spec.Json
/-
Helper lemmas for C16_group_lossless: the two-pass grouping of dom.rs `FieldGroupsIter`
(`buildGroups` + `groupEntries`) is stable grouping by the raw key bytes.
-/
namespace Jomini.Json
open Jomini Jomini.JsonSpec

/-! ### `stableGroupBy` unfolds as the filter recursion -/

section
variable {α κ : Type} [DecidableEq κ] (key : α → κ)

theorem stableGroupByF_irrel (n m : Nat) (l : List α) (hn : l.length ≤ n) (hm : l.length ≤ m) :
    stableGroupByF key n l = stableGroupByF key m l := by
  induction n generalizing m l with
  | zero =>
    have : l = [] := List.eq_nil_of_length_eq_zero (by omega)
    subst this; cases m <;> rfl
  | succ n ih =>
    cases l with
    | nil => cases m <;> rfl
    | cons x xs =>
      simp only [List.length_cons] at hn hm
      cases m with
      | zero => omega
      | succ m =>
        simp only [stableGroupByF]
        have hle : (xs.filter (fun y => !decide (key y = key x))).length ≤ xs.length := List.length_filter_le _ _
        rw [ih m _ (by omega) (by omega)]

theorem stableGroupBy_nil : stableGroupBy key ([] : List α) = [] := rfl

theorem stableGroupBy_cons (x : α) (xs : List α) :
    stableGroupBy key (x :: xs) =
      (x, xs.filter (fun y => decide (key y = key x))) ::
        stableGroupBy key (xs.filter (fun y => !decide (key y = key x))) := by
  simp only [stableGroupBy, List.length_cons, stableGroupByF]
  rw [stableGroupByF_irrel key xs.length _ _ (List.length_filter_le _ _) (Nat.le_refl _)]
end


/-! ### grouping key, closed forms of the list combinators -/

/-- the grouping key of a field: the raw bytes of its key scalar -/
def kb (fe : FieldE) : Bytes := keyBytes fe.keyTok

/-- what the Group arm writes for one group -/
def groupJson (enc : Enc) (val : FieldE → JVal) (g : FieldE × List FieldE) : Bytes × JVal :=
  (keyJson enc g.1.keyTok,
    match g.2 with
    | [] => wrapOp g.1.op (val g.1)
    | _ :: _ => .arr ((g.1 :: g.2).map (fun fe => wrapOp fe.op (val fe))))

/-- the groups rendered in order (error propagation left to right) -/
def renderGroups (sv : Nat → R JVal) (enc : Enc) : List (FieldE × List FieldE) → R (List (Bytes × JVal))
  | [] => .ok []
  | (f, []) :: gs =>
    match sv f.valIdx with
    | .error e => .error e
    | .ok jv =>
      match renderGroups sv enc gs with
      | .error e => .error e
      | .ok es => .ok ((keyJson enc f.keyTok, wrapOp f.op jv) :: es)
  | (f, m :: more) :: gs =>
    match opValues sv (f :: m :: more) with
    | .error e => .error e
    | .ok vs =>
      match renderGroups sv enc gs with
      | .error e => .error e
      | .ok es => .ok ((keyJson enc f.keyTok, .arr vs) :: es)

theorem foldl_groupInsert_cons (k0 : Bytes) (fs : List FieldE) (vs : List FieldE)
    (acc : List (Bytes × List FieldE)) :
    fs.foldl groupInsert ((k0, vs) :: acc) =
      (k0, vs ++ fs.filter (fun y => decide (kb y = k0))) ::
        (fs.filter (fun y => !decide (kb y = k0))).foldl groupInsert acc := by
  induction fs generalizing vs acc with
  | nil => simp
  | cons f rest ih =>
    by_cases h : kb f = k0
    · have h' : k0 = keyBytes f.keyTok := by rw [← h]; rfl
      simp only [List.foldl_cons, groupInsert, h', if_true]
      rw [← h']
      rw [ih]
      simp [h]
    · have h' : ¬ k0 = keyBytes f.keyTok := by intro hh; exact h (by rw [hh]; rfl)
      simp only [List.foldl_cons, groupInsert, h', if_false]
      rw [ih]
      simp [h]

theorem buildGroups_nil : buildGroups [] = [] := rfl

theorem buildGroups_cons (f : FieldE) (rest : List FieldE) :
    buildGroups (f :: rest) =
      (kb f, rest.filter (fun y => decide (kb y = kb f))) ::
        buildGroups (rest.filter (fun y => !decide (kb y = kb f))) := by
  simp only [buildGroups, List.foldl_cons, groupInsert]
  have := foldl_groupInsert_cons (kb f) rest [] []
  simpa [kb] using this

theorem buildGroups_keys (n : Nat) : ∀ (xs : List FieldE), xs.length ≤ n →
    ∀ p ∈ buildGroups xs, ∃ x ∈ xs, kb x = p.1 := by
  induction n with
  | zero =>
    intro xs h p hp
    have : xs = [] := List.eq_nil_of_length_eq_zero (by omega)
    subst this; simp [buildGroups] at hp
  | succ n ih =>
    intro xs h p hp
    cases xs with
    | nil => simp [buildGroups] at hp
    | cons f rest =>
      rw [buildGroups_cons] at hp
      simp only [List.mem_cons] at hp
      rcases hp with hp | hp
      · exact ⟨f, by simp, by rw [hp]⟩
      · have hle : (rest.filter (fun y => !decide (kb y = kb f))).length ≤ n := by
          have := List.length_filter_le (fun y => !decide (kb y = kb f)) rest
          simp only [List.length_cons] at h; omega
        obtain ⟨x, hx, hk⟩ := ih _ hle p hp
        exact ⟨x, by simp [(List.mem_filter.mp hx).1], hk⟩

theorem groupRemove_none (G : List (Bytes × List FieldE)) (k : Bytes) (h : ∀ p ∈ G, p.1 ≠ k) :
    groupRemove G k = none := by
  induction G with
  | nil => rfl
  | cons p rest ih =>
    obtain ⟨k1, vs⟩ := p
    have h1 : k1 ≠ k := h (k1, vs) (by simp)
    have h2 := ih (fun q hq => h q (by simp [hq]))
    simp [groupRemove, h1, h2]

theorem groupRemove_keys (G : List (Bytes × List FieldE)) (k : Bytes) (b : List FieldE)
    (G' : List (Bytes × List FieldE)) (h : groupRemove G k = some (b, G')) :
    ∀ p ∈ G', p ∈ G := by
  induction G generalizing G' b with
  | nil => simp [groupRemove] at h
  | cons q rest ih =>
    obtain ⟨k1, vs⟩ := q
    simp only [groupRemove] at h
    split at h
    · simp only [Option.some.injEq, Prod.mk.injEq] at h
      intro p hp; rw [← h.2] at hp; simp [hp]
    · split at h
      · simp at h
      · rename_i r rest' hr
        simp only [Option.some.injEq, Prod.mk.injEq] at h
        intro p hp
        rw [← h.2] at hp
        simp only [List.mem_cons] at hp
        rcases hp with hp | hp
        · simp [hp]
        · have := ih r rest' hr p hp
          simp [this]

/-- fields whose key is no longer in the map are skipped -/
theorem groupEntries_skip (sv : Nat → R JVal) (enc : Enc) (k0 : Bytes) (fs : List FieldE) :
    ∀ (G : List (Bytes × List FieldE)), (∀ p ∈ G, p.1 ≠ k0) →
      groupEntries sv enc fs G = groupEntries sv enc (fs.filter (fun y => !decide (kb y = k0))) G := by
  induction fs with
  | nil => intro G _; rfl
  | cons f rest ih =>
    intro G hG
    by_cases hk : kb f = k0
    · have hnone : groupRemove G (keyBytes f.keyTok) = none := by
        have : keyBytes f.keyTok = k0 := hk
        rw [this]; exact groupRemove_none G k0 hG
      simp only [List.filter_cons, hk, decide_true, Bool.not_true, Bool.false_eq_true, if_false]
      rw [groupEntries, hnone]
      exact ih G hG
    · simp only [List.filter_cons, hk, decide_false, Bool.not_false, if_true]
      rw [groupEntries, groupEntries]
      cases hr : groupRemove G (keyBytes f.keyTok) with
      | none => exact ih G hG
      | some r =>
        obtain ⟨b, G'⟩ := r
        have hG' : ∀ p ∈ G', p.1 ≠ k0 := fun p hp => hG p (groupRemove_keys G _ b G' hr p hp)
        cases b with
        | nil => simp only [ih G' hG']
        | cons m more => simp only [ih G' hG']

/-- The two passes of `FieldGroupsIter` compute stable grouping by the raw key bytes. -/
theorem groupEntries_eq (sv : Nat → R JVal) (enc : Enc) (n : Nat) : ∀ (fs : List FieldE), fs.length ≤ n →
    groupEntries sv enc fs (buildGroups fs) = renderGroups sv enc (stableGroupBy kb fs) := by
  induction n with
  | zero =>
    intro fs h
    have : fs = [] := List.eq_nil_of_length_eq_zero (by omega)
    subst this; rfl
  | succ n ih =>
    intro fs h
    cases fs with
    | nil => rfl
    | cons f rest =>
      have hle : (rest.filter (fun y => !decide (kb y = kb f))).length ≤ n := by
        have := List.length_filter_le (fun y => !decide (kb y = kb f)) rest
        simp only [List.length_cons] at h; omega
      have hkeys : ∀ p ∈ buildGroups (rest.filter (fun y => !decide (kb y = kb f))), p.1 ≠ kb f := by
        intro p hp hpk
        obtain ⟨x, hx, hxk⟩ := buildGroups_keys _ _ (Nat.le_refl _) p hp
        have := (List.mem_filter.mp hx).2
        simp [hxk, hpk] at this
      have hskip := groupEntries_skip sv enc (kb f) rest _ hkeys
      have hrec := ih _ hle
      rw [buildGroups_cons, stableGroupBy_cons, groupEntries]
      have hrem : groupRemove ((kb f, rest.filter (fun y => decide (kb y = kb f))) ::
          buildGroups (rest.filter (fun y => !decide (kb y = kb f)))) (keyBytes f.keyTok) =
          some (rest.filter (fun y => decide (kb y = kb f)), buildGroups (rest.filter (fun y => !decide (kb y = kb f)))) := by
        simp [groupRemove, kb]
      rw [hrem]
      cases hb : rest.filter (fun y => decide (kb y = kb f)) with
      | nil => simp only [renderGroups, hskip, hrec]; rfl
      | cons m more => simp only [renderGroups, hskip, hrec]; rfl

/-! ### closed forms when every value serializes; what stable grouping guarantees -/

theorem opValues_ok (sv : Nat → R JVal) (val : FieldE → JVal) (l : List FieldE)
    (h : ∀ fe ∈ l, sv fe.valIdx = .ok (val fe)) :
    opValues sv l = .ok (l.map (fun fe => wrapOp fe.op (val fe))) := by
  induction l with
  | nil => rfl
  | cons fe rest ih =>
    have h1 := h fe (by simp)
    have h2 := ih (fun x hx => h x (by simp [hx]))
    simp [opValues, h1, h2]

theorem entriesOf_ok (sv : Nat → R JVal) (enc : Enc) (val : FieldE → JVal) (l : List FieldE)
    (h : ∀ fe ∈ l, sv fe.valIdx = .ok (val fe)) :
    entriesOf sv enc l = .ok (l.map (fun fe => (keyJson enc fe.keyTok, wrapOp fe.op (val fe)))) := by
  induction l with
  | nil => rfl
  | cons fe rest ih =>
    have h1 := h fe (by simp)
    have h2 := ih (fun x hx => h x (by simp [hx]))
    simp [entriesOf, h1, h2]

theorem renderGroups_ok (sv : Nat → R JVal) (enc : Enc) (val : FieldE → JVal)
    (gs : List (FieldE × List FieldE))
    (h : ∀ g ∈ gs, ∀ fe ∈ g.1 :: g.2, sv fe.valIdx = .ok (val fe)) :
    renderGroups sv enc gs = .ok (gs.map (groupJson enc val)) := by
  induction gs with
  | nil => rfl
  | cons g rest ih =>
    obtain ⟨f, more⟩ := g
    have h2 := ih (fun x hx => h x (by simp [hx]))
    have hg := h (f, more) (by simp)
    cases more with
    | nil =>
      have h1 := hg f (by simp)
      simp [renderGroups, h1, h2, groupJson]
    | cons m more =>
      have h1 := opValues_ok sv val (f :: m :: more) hg
      simp only [renderGroups, h1, h2, groupJson, List.map_cons]

section
variable {α κ : Type} [DecidableEq κ] (key : α → κ)

theorem stableGroupBy_mem (n : Nat) : ∀ (fs : List α), fs.length ≤ n →
    ∀ g ∈ stableGroupBy key fs, ∀ x ∈ g.1 :: g.2, x ∈ fs := by
  induction n with
  | zero =>
    intro fs h g hg
    have : fs = [] := List.eq_nil_of_length_eq_zero (by omega)
    subst this; simp [stableGroupBy_nil] at hg
  | succ n ih =>
    intro fs h g hg x hx
    cases fs with
    | nil => simp [stableGroupBy_nil] at hg
    | cons f rest =>
      rw [stableGroupBy_cons] at hg
      simp only [List.mem_cons] at hg
      rcases hg with hg | hg
      · subst hg
        simp only [List.mem_cons] at hx
        rcases hx with hx | hx
        · simp [hx]
        · simp [(List.mem_filter.mp hx).1]
      · have hle : (rest.filter (fun y => !decide (key y = key f))).length ≤ n := by
          have := List.length_filter_le (fun y => !decide (key y = key f)) rest
          simp only [List.length_cons] at h; omega
        have := ih _ hle g hg x hx
        simp [(List.mem_filter.mp this).1]

theorem stableGroupBy_perm (n : Nat) : ∀ (fs : List α), fs.length ≤ n →
    ((stableGroupBy key fs).flatMap (fun g => g.1 :: g.2)).Perm fs := by
  induction n with
  | zero =>
    intro fs h
    have : fs = [] := List.eq_nil_of_length_eq_zero (by omega)
    subst this; simp [stableGroupBy_nil]
  | succ n ih =>
    intro fs h
    cases fs with
    | nil => simp [stableGroupBy_nil]
    | cons f rest =>
      have hle : (rest.filter (fun y => !decide (key y = key f))).length ≤ n := by
        have := List.length_filter_le (fun y => !decide (key y = key f)) rest
        simp only [List.length_cons] at h; omega
      rw [stableGroupBy_cons]
      simp only [List.flatMap_cons, List.cons_append]
      apply List.Perm.cons
      exact ((List.Perm.refl _).append (ih _ hle)).trans (List.filter_append_perm _ rest)

/-- every group is exactly the items with its key, in their original order -/
theorem stableGroupBy_filter (n : Nat) : ∀ (fs : List α), fs.length ≤ n →
    ∀ g ∈ stableGroupBy key fs, g.1 :: g.2 = fs.filter (fun y => decide (key y = key g.1)) := by
  induction n with
  | zero =>
    intro fs h g hg
    have : fs = [] := List.eq_nil_of_length_eq_zero (by omega)
    subst this; simp [stableGroupBy_nil] at hg
  | succ n ih =>
    intro fs h g hg
    cases fs with
    | nil => simp [stableGroupBy_nil] at hg
    | cons f rest =>
      have hle : (rest.filter (fun y => !decide (key y = key f))).length ≤ n := by
        have := List.length_filter_le (fun y => !decide (key y = key f)) rest
        simp only [List.length_cons] at h; omega
      rw [stableGroupBy_cons] at hg
      simp only [List.mem_cons] at hg
      rcases hg with hg | hg
      · subst hg; simp
      · have hmem := stableGroupBy_mem key n _ hle g hg g.1 (by simp)
        have hne : ¬ key g.1 = key f := by
          have := (List.mem_filter.mp hmem).2; simpa using this
        have hne' : ¬ key f = key g.1 := fun h => hne h.symm
        rw [ih _ hle g hg, List.filter_filter, List.filter_cons]
        simp only [hne', decide_false, Bool.false_eq_true, if_false]
        apply List.filter_congr
        intro y _
        by_cases hy : key y = key g.1
        · simp [hy, hne]
        · simp [hy]

theorem stableGroupBy_distinct (n : Nat) : ∀ (fs : List α), fs.length ≤ n →
    (stableGroupBy key fs).Pairwise (fun g h => key g.1 ≠ key h.1) := by
  induction n with
  | zero =>
    intro fs h
    have : fs = [] := List.eq_nil_of_length_eq_zero (by omega)
    subst this; simp [stableGroupBy_nil]
  | succ n ih =>
    intro fs h
    cases fs with
    | nil => simp [stableGroupBy_nil]
    | cons f rest =>
      have hle : (rest.filter (fun y => !decide (key y = key f))).length ≤ n := by
        have := List.length_filter_le (fun y => !decide (key y = key f)) rest
        simp only [List.length_cons] at h; omega
      rw [stableGroupBy_cons]
      apply List.Pairwise.cons
      · intro g hg
        have hmem := stableGroupBy_mem key n _ hle g hg g.1 (by simp)
        have := (List.mem_filter.mp hmem).2
        intro heq
        simp [heq] at this
      · exact ih _ hle
end


end Jomini.Json
