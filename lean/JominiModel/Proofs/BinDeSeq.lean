import JominiModel.Model.BinDe
/-
Helper lemmas for C04_ondemand_eq_stream: on lexeme streams without truncation markers and
without the rgb marker, every reader primitive of the on-demand path equals the streaming one
(or the on-demand path leaves the token-level model: `Rel`), and one step of `deTok` /
`deElems` preserves this.
-/
set_option linter.unusedSimpArgs false
namespace Jomini.BinDe
open Jomini

/-- lexemes on which the two sequential readers see the same thing: no truncation marker, no rgb
marker (the streaming reader parses it into one token, the on-demand lexer does not). -/
def plainTok : Tok → Bool
  | .trunc | .stray | .rgb _ => false
  | .id n => n != RGB_ID
  | _ => true

def Plain (toks : List Tok) : Prop := ∀ t ∈ toks, plainTok t = true

/-- `a` is the on-demand result: either it left the token-level model, or it is the streaming result. -/
def Rel {α : Type} (a b : Res α) : Prop := a = .error .beyond ∨ a = b

theorem Plain.tail {t : Tok} {rest : List Tok} (h : Plain (t :: rest)) : Plain rest :=
  fun x hx => h x (List.mem_cons_of_mem _ hx)

theorem Plain.head {t : Tok} {rest : List Tok} (h : Plain (t :: rest)) : plainTok t = true :=
  h t (List.mem_cons_self ..)

theorem Plain.sub {a b : List Tok} (h : Plain b) (hs : ∀ x ∈ a, x ∈ b) : Plain a :=
  fun x hx => h x (hs x hx)

theorem fetch_plain (toks : List Tok) (h : Plain toks) : fetch .ondemand toks = fetch .stream toks := by
  cases toks with
  | nil => simp [fetch]
  | cons t rest =>
    have := h.head
    cases t <;> simp_all [fetch, plainTok]

theorem fetch_sub (p : Path) (toks : List Tok) (h : Plain toks) (t : Tok) (r : List Tok)
    (hf : fetch p toks = .tok t r) : toks = t :: r := by
  cases toks with
  | nil => simp [fetch] at hf
  | cons u rest =>
    have := h.head
    cases p <;> cases u <;> simp_all [fetch, plainTok]

theorem fetchRead_plain (toks : List Tok) (h : Plain toks) : fetchRead .ondemand toks = fetchRead .stream toks := by
  simp [fetchRead, fetch_plain toks h]

theorem fetchRead_sub (p : Path) (toks : List Tok) (h : Plain toks) (t : Tok) (r : List Tok)
    (hf : fetchRead p toks = .ok (t, r)) : toks = t :: r := by
  unfold fetchRead at hf
  split at hf
  · rename_i t' r' hft
    simp at hf
    obtain ⟨rfl, rfl⟩ := hf
    exact fetch_sub p toks h _ _ hft
  · simp at hf

theorem nextValue_plain (toks : List Tok) (h : Plain toks) : nextValue .ondemand toks = nextValue .stream toks := by
  unfold nextValue
  rw [fetchRead_plain toks h]
  cases hf : fetchRead .stream toks with
  | error e => simp
  | ok x =>
    obtain ⟨t, r⟩ := x
    have hs := fetchRead_sub .stream toks h t r hf
    subst hs
    cases t <;> simp [fetchRead_plain r h.tail]

theorem nextValue_sub (p : Path) (toks : List Tok) (h : Plain toks) (t : Tok) (r : List Tok)
    (hf : nextValue p toks = .ok (t, r)) : plainTok t = true ∧ ∀ x ∈ r, x ∈ toks := by
  unfold nextValue at hf
  cases h1 : fetchRead p toks with
  | error e => simp [h1] at hf
  | ok x =>
    obtain ⟨t1, r1⟩ := x
    have hs := fetchRead_sub p toks h t1 r1 h1
    subst hs
    rw [h1] at hf
    by_cases he : t1 = .equal
    · subst he
      simp at hf
      have hs2 := fetchRead_sub p r1 h.tail t r hf
      subst hs2
      exact ⟨h.tail.head, fun x hx => List.mem_cons_of_mem _ (List.mem_cons_of_mem _ hx)⟩
    · have : (t1, r1) = (t, r) := by
        cases t1 <;> simp_all
      obtain ⟨rfl, rfl⟩ := Prod.mk.inj this
      exact ⟨h.head, fun x hx => List.mem_cons_of_mem _ hx⟩

theorem skipContainer_sub (toks : List Tok) (d : Nat) (r : List Tok) (h : skipContainer toks d = .ok r) :
    ∀ x ∈ r, x ∈ toks := by
  induction toks generalizing d with
  | nil => simp [skipContainer] at h
  | cons t rest ih =>
    cases t <;> simp [skipContainer] at h <;>
      first
        | (split at h
           · simp at h; subst h; exact fun x hx => List.mem_cons_of_mem _ hx
           · exact fun x hx => List.mem_cons_of_mem _ (ih _ h x hx))
        | exact fun x hx => List.mem_cons_of_mem _ (ih _ h x hx)

theorem skipTok_plain (t : Tok) (rest : List Tok) (ht : plainTok t = true) :
    skipTok .ondemand t rest = skipTok .stream t rest := by
  cases t <;> simp_all [skipTok, plainTok]

theorem skipTok_sub (p : Path) (t : Tok) (rest r : List Tok) (ht : plainTok t = true)
    (h : skipTok p t rest = .ok r) : ∀ x ∈ r, x ∈ rest := by
  cases p <;> cases t <;> simp_all [skipTok, plainTok] <;>
    first
      | exact skipContainer_sub _ _ _ h
      | skip

theorem fetch_cons (p : Path) (t : Tok) (rest : List Tok) (h : Plain (t :: rest)) :
    fetch p (t :: rest) = .tok t rest := by
  have := h.head
  cases p <;> cases t <;> simp_all [fetch, plainTok]

theorem nextKey_rel (root : Bool) (f : Nat) : ∀ (toks : List Tok), Plain toks →
    Rel (nextKey .ondemand root f toks) (nextKey .stream root f toks) := by
  induction f with
  | zero => intro toks _; right; simp [nextKey]
  | succ f ih =>
    intro toks h
    cases toks with
    | nil => right; simp [nextKey, fetch]
    | cons t rest =>
      simp only [nextKey, fetch_cons _ t rest h]
      cases t <;> try (right; rfl)
      -- open
      cases rest with
      | nil => right; simp [fetchRead, fetch]
      | cons u rest' =>
        have hu : Plain (u :: rest') := h.tail
        simp only [fetchRead, fetch_cons _ u rest' hu]
        have hpu := hu.head
        by_cases hp : payloadFree u = true
        · have hns : u ≠ .stray := by intro e; subst e; simp [plainTok] at hpu
          cases u <;> simp_all [payloadFree] <;> exact ih _ hu.tail
        · left
          cases u <;> simp_all [payloadFree, plainTok]

theorem nextKey_sub (p : Path) (root : Bool) (f : Nat) : ∀ (toks : List Tok), Plain toks →
    ∀ k r, nextKey p root f toks = .ok (k, r) → (∀ x ∈ r, x ∈ toks) ∧ (∀ t, k = some t → plainTok t = true) := by
  induction f with
  | zero => intro toks _ k r h; simp [nextKey] at h
  | succ f ih =>
    intro toks hpl k r h
    cases toks with
    | nil =>
      simp [nextKey, fetch] at h
      split at h <;> simp at h
      obtain ⟨rfl, rfl⟩ := h
      simp
    | cons t rest =>
      simp only [nextKey, fetch_cons _ t rest hpl] at h
      have hpt := hpl.head
      cases t <;> simp at h <;> try (obtain ⟨rfl, rfl⟩ := h; exact ⟨fun x hx => List.mem_cons_of_mem _ hx, by simp_all⟩)
      -- open
      cases rest with
      | nil => cases p <;> simp [fetchRead, fetch] at h
      | cons u rest' =>
        have hu : Plain (u :: rest') := hpl.tail
        have key : nextKey p root f rest' = .ok (k, r) := by
          cases p
          · have hpu := hu.head
            cases u <;> simp_all [payloadFree, plainTok]
          · simp only [fetchRead, fetch_cons _ u rest' hu] at h
            exact h
        obtain ⟨h1, h2⟩ := ih rest' hu.tail k r key
        exact ⟨fun x hx => List.mem_cons_of_mem _ (List.mem_cons_of_mem _ (h1 x hx)), h2⟩

theorem normTok_plain (p : Path) (ty : Ty) (t : Tok) (rest : List Tok) (ht : plainTok t = true) :
    normTok p ty t rest = .ok (t, rest) := by
  cases p <;> cases ty <;> cases t <;> simp_all [normTok, plainTok]

def SubOut {α : Type} (res : Res (α × List Tok)) (inp : List Tok) : Prop :=
  ∀ v r, res = .ok (v, r) → ∀ x ∈ r, x ∈ inp

theorem Rel.refl {α : Type} (a : Res α) : Rel a a := Or.inr rfl

theorem deTok_step (c : Cfg) (f : Nat)
    (ihE : ∀ et toks acc, Plain toks → Rel (deElems .ondemand c f et toks acc) (deElems .stream c f et toks acc) ∧ SubOut (deElems .stream c f et toks acc) toks)
    (ihM : ∀ vt root toks acc, Plain toks → Rel (deMap .ondemand c f vt root toks acc) (deMap .stream c f vt root toks acc) ∧ SubOut (deMap .stream c f vt root toks acc) toks)
    (ihS : ∀ fs bt root toks slots, Plain toks → Rel (deStruct .ondemand c f fs bt root toks slots) (deStruct .stream c f fs bt root toks slots) ∧ SubOut (deStruct .stream c f fs bt root toks slots) toks)
    (ihT : ∀ ty t rest, plainTok t = true → Plain rest → Rel (deTok .ondemand c f ty t rest) (deTok .stream c f ty t rest) ∧ SubOut (deTok .stream c f ty t rest) rest) :
    ∀ ty t rest, plainTok t = true → Plain rest →
      Rel (deTok .ondemand c (f + 1) ty t rest) (deTok .stream c (f + 1) ty t rest) ∧ SubOut (deTok .stream c (f + 1) ty t rest) rest := by
  intro ty t rest ht hr
  cases ty with
  | ign =>
    simp only [deTok, normTok_plain _ _ _ _ ht, skipTok_plain t rest ht]
    refine ⟨Rel.refl _, ?_⟩
    intro v r h
    cases hs : skipTok .stream t rest with
    | error e => simp [hs] at h
    | ok r' => simp [hs] at h; obtain ⟨_, rfl⟩ := h; exact skipTok_sub _ _ _ _ ht hs
  | opt inner =>
    obtain ⟨h1, h2⟩ := ihT inner t rest ht hr
    simp only [deTok, normTok_plain _ _ _ _ ht]
    constructor
    · rcases h1 with h1 | h1 <;> simp [h1, Rel]
    · intro v r h
      cases hs : deTok .stream c f inner t rest with
      | error e => simp [hs] at h
      | ok x => obtain ⟨v', r'⟩ := x; simp [hs] at h; obtain ⟨_, rfl⟩ := h; exact h2 v' _ hs
  | any =>
    simp only [deTok, normTok_plain _ _ _ _ ht]
    cases hd : deser c t with
    | prim pr => simp [Rel, SubOut]
    | err e => simp [Rel, SubOut]
    | color col => cases t <;> simp_all [deser, plainTok, Event.ofRes] <;> (split at hd <;> simp at hd)
    | seq =>
      obtain ⟨h1, h2⟩ := ihE .any rest [] hr
      constructor
      · rcases h1 with h1 | h1 <;> simp [h1, Rel]
      · intro v r h
        cases hs : deElems .stream c f .any rest [] with
        | error e => simp [hs] at h
        | ok x => obtain ⟨v', r'⟩ := x; simp [hs] at h; obtain ⟨_, rfl⟩ := h; exact h2 v' _ hs
  | seq et =>
    have hE := ihE et rest [] hr
    cases t with
    | «open» =>
      simp only [deTok, normTok_plain _ _ _ _ ht]
      obtain ⟨h1, h2⟩ := hE
      constructor
      · rcases h1 with h1 | h1 <;> simp [h1, Rel]
      · intro v r h
        cases hs : deElems .stream c f et rest [] with
        | error e => simp [hs] at h
        | ok x => obtain ⟨v', r'⟩ := x; simp [hs] at h; obtain ⟨_, rfl⟩ := h; exact h2 v' _ hs
    | rgb col => simp [plainTok] at ht
    | _ =>
      simp only [deTok, normTok_plain _ _ _ _ ht]
      refine ⟨Rel.refl _, ?_⟩
      intro v r h
      revert h
      generalize leafOf (.seq et) (deser c _) = q
      cases q <;> simp [Except.map] <;> (intro _ h; subst h; simp)
  | map vt =>
    have hM := ihM vt false rest [] hr
    cases t with
    | «open» =>
      simp only [deTok, normTok_plain _ _ _ _ ht]
      obtain ⟨h1, h2⟩ := hM
      constructor
      · rcases h1 with h1 | h1 <;> simp [h1, Rel]
      · intro v r h
        cases hs : deMap .stream c f vt false rest [] with
        | error e => simp [hs] at h
        | ok x => obtain ⟨v', r'⟩ := x; simp [hs] at h; obtain ⟨_, rfl⟩ := h; exact h2 v' _ hs
    | _ =>
      simp only [deTok, normTok_plain _ _ _ _ ht]
      refine ⟨Rel.refl _, ?_⟩
      intro v r h
      revert h
      generalize leafOf (.map vt) (deser c _) = q
      cases q <;> simp [Except.map] <;> (intro _ h; subst h; simp)
  | struct fs =>
    have hS := ihS fs false false rest (slotsInit fs) hr
    cases t with
    | «open» =>
      simp only [deTok, normTok_plain _ _ _ _ ht]
      exact hS
    | rgb col => simp [plainTok] at ht
    | _ =>
      simp only [deTok, normTok_plain _ _ _ _ ht]
      refine ⟨Rel.refl _, ?_⟩
      intro v r h
      revert h
      generalize leafOf (.struct fs) (deser c _) = q
      cases q <;> simp [Except.map] <;> (intro _ h; subst h; simp)
  | prop _ => simp [deTok, normTok_plain _ _ _ _ ht, Rel, SubOut]
  | enum vs =>
    simp only [deTok, normTok_plain _ _ _ _ ht]
    refine ⟨Rel.refl _, ?_⟩
    intro v r h
    revert h
    cases hinted c .str t <;> simp [Except.map]
    rename_i pr
    cases enumVal vs pr <;> simp [Except.map]
    intro _ h; subst h; simp
  | _ =>
    simp only [deTok, normTok_plain _ _ _ _ ht]
    refine ⟨Rel.refl _, ?_⟩
    intro v r h
    revert h
    generalize leafOf _ (hinted c _ t) = q
    cases q <;> simp [Except.map] <;> (intro _ h; subst h; simp)

theorem deElems_step (c : Cfg) (f : Nat)
    (ihE : ∀ et toks acc, Plain toks → Rel (deElems .ondemand c f et toks acc) (deElems .stream c f et toks acc) ∧ SubOut (deElems .stream c f et toks acc) toks)
    (ihT : ∀ ty t rest, plainTok t = true → Plain rest → Rel (deTok .ondemand c f ty t rest) (deTok .stream c f ty t rest) ∧ SubOut (deTok .stream c f ty t rest) rest) :
    ∀ et toks acc, Plain toks →
      Rel (deElems .ondemand c (f + 1) et toks acc) (deElems .stream c (f + 1) et toks acc) ∧ SubOut (deElems .stream c (f + 1) et toks acc) toks := by
  intro et toks acc hp
  cases toks with
  | nil => simp [deElems, fetchRead, fetch, Rel, SubOut]
  | cons t rest =>
    have ht := hp.head
    have hr := hp.tail
    simp only [deElems, fetchRead, fetch_cons _ t rest hp]
    cases t <;>
    first
    | (simp [Rel, SubOut]; intro x hx; exact Or.inr hx)
    | (dsimp only
       obtain ⟨h1, h2⟩ := ihT et _ rest ht hr
       generalize hs : deTok .stream c f et _ rest = sres at h1 h2 ⊢
       cases sres with
       | error e =>
         constructor
         · rcases h1 with h1 | h1 <;> simp [h1, Rel]
         · simp [SubOut]
       | ok x =>
         obtain ⟨v, r⟩ := x
         have hsub := h2 v r rfl
         have hpr : Plain r := hr.sub hsub
         obtain ⟨g1, g2⟩ := ihE et r (acc ++ [v]) hpr
         constructor
         · rcases h1 with h1 | h1
           · simp [h1, Rel]
           · simp only [h1]; exact g1
         · intro v' r' h
           simp only at h
           exact fun x hx => List.mem_cons_of_mem _ (hsub x (g2 v' r' h x hx)))

theorem Rel.beyond {α : Type} (b : Res α) : Rel (.error .beyond) b := Or.inl rfl

theorem deMap_step (c : Cfg) (f : Nat)
    (ihM : ∀ vt root toks acc, Plain toks → Rel (deMap .ondemand c f vt root toks acc) (deMap .stream c f vt root toks acc) ∧ SubOut (deMap .stream c f vt root toks acc) toks)
    (ihT : ∀ ty t rest, plainTok t = true → Plain rest → Rel (deTok .ondemand c f ty t rest) (deTok .stream c f ty t rest) ∧ SubOut (deTok .stream c f ty t rest) rest) :
    ∀ vt root toks acc, Plain toks →
      Rel (deMap .ondemand c (f + 1) vt root toks acc) (deMap .stream c (f + 1) vt root toks acc) ∧
      SubOut (deMap .stream c (f + 1) vt root toks acc) toks := by
  intro vt root toks acc hp
  have hk := nextKey_rel root (f + 1) toks hp
  have hksub := nextKey_sub .stream root (f + 1) toks hp
  simp only [deMap]
  generalize nextKey .stream root (f + 1) toks = ks at hk hksub ⊢
  generalize nextKey .ondemand root (f + 1) toks = ko at hk ⊢
  cases ks with
  | error e =>
    refine ⟨?_, by simp [SubOut]⟩
    rcases hk with hk | hk <;> subst hk <;> simp [Rel]
  | ok x =>
    obtain ⟨kopt, rest⟩ := x
    obtain ⟨hrs, hkt⟩ := hksub kopt rest rfl
    have hpr : Plain rest := hp.sub hrs
    cases kopt with
    | none =>
      refine ⟨?_, ?_⟩
      · rcases hk with hk | hk <;> subst hk <;> simp [Rel]
      · intro v r h; simp at h; obtain ⟨_, rfl⟩ := h; exact hrs
    | some kt =>
      have hpk := hkt kt rfl
      obtain ⟨a1, a2⟩ := ihT .str kt rest hpk hpr
      have hko : ko = .error .beyond ∨ ko = .ok (some kt, rest) := hk
      clear hk hksub hkt
      refine ⟨?rel, ?sub⟩
      case sub =>
        dsimp only
        intro v' r' h
        generalize hs1 : deTok .stream c f .str kt rest = s1 at a2 h
        cases s1 with
        | error e => simp at h
        | ok x1 =>
          obtain ⟨k, r1⟩ := x1
          have hr1 := a2 k r1 rfl
          have hpr1 : Plain r1 := hpr.sub hr1
          dsimp only at h
          cases hs2 : nextValue .stream r1 with
          | error e => simp [hs2] at h
          | ok x2 =>
            obtain ⟨vtok, r2⟩ := x2
            obtain ⟨hpv, hr2⟩ := nextValue_sub .stream r1 hpr1 vtok r2 hs2
            have hpr2 : Plain r2 := hpr1.sub hr2
            obtain ⟨_, b2⟩ := ihT vt vtok r2 hpv hpr2
            simp only [hs2] at h
            generalize hs3 : deTok .stream c f vt vtok r2 = s3 at b2 h
            cases s3 with
            | error e => simp at h
            | ok x3 =>
              obtain ⟨v, r3⟩ := x3
              have hr3 := b2 v r3 rfl
              have hpr3 : Plain r3 := hpr2.sub hr3
              obtain ⟨_, m2⟩ := ihM vt root r3 (acc ++ [k ++ "=" ++ v]) hpr3
              dsimp only at h
              exact fun x hx => hrs x (hr1 x (hr2 x (hr3 x (m2 v' r' h x hx))))
      case rel =>
        rcases hko with hko | hko <;> subst hko
        · exact Rel.beyond _
        · dsimp only
          generalize hs1 : deTok .stream c f .str kt rest = s1 at a1 a2 ⊢
          cases s1 with
          | error e => rcases a1 with a1 | a1 <;> simp [a1, Rel]
          | ok x1 =>
            obtain ⟨k, r1⟩ := x1
            have hr1 := a2 k r1 rfl
            have hpr1 : Plain r1 := hpr.sub hr1
            have hnv := nextValue_plain r1 hpr1
            rcases a1 with a1 | a1
            · simp [a1, Rel]
            · rw [a1]
              dsimp only
              rw [hnv]
              cases hs2 : nextValue .stream r1 with
              | error e => simp [Rel]
              | ok x2 =>
                obtain ⟨vtok, r2⟩ := x2
                obtain ⟨hpv, hr2⟩ := nextValue_sub .stream r1 hpr1 vtok r2 hs2
                have hpr2 : Plain r2 := hpr1.sub hr2
                obtain ⟨b1, b2⟩ := ihT vt vtok r2 hpv hpr2
                dsimp only
                generalize hs3 : deTok .stream c f vt vtok r2 = s3 at b1 b2 ⊢
                cases s3 with
                | error e => rcases b1 with b1 | b1 <;> simp [b1, Rel]
                | ok x3 =>
                  obtain ⟨v, r3⟩ := x3
                  have hr3 := b2 v r3 rfl
                  have hpr3 : Plain r3 := hpr2.sub hr3
                  obtain ⟨m1, _⟩ := ihM vt root r3 (acc ++ [k ++ "=" ++ v]) hpr3
                  rcases b1 with b1 | b1
                  · simp [b1, Rel]
                  · rw [b1]; exact m1

/-- the common tail of the struct loop: read the value token, deserialize it as `ty`, continue. -/
theorem struct_tail (c : Cfg) (f : Nat) (fs : Fields) (bt root : Bool) (toks rest : List Tok)
    (hrs : ∀ x ∈ rest, x ∈ toks) (hpr : Plain rest)
    (ihS : ∀ fs bt root toks slots, Plain toks → Rel (deStruct .ondemand c f fs bt root toks slots) (deStruct .stream c f fs bt root toks slots) ∧ SubOut (deStruct .stream c f fs bt root toks slots) toks)
    (ihT : ∀ ty t rest, plainTok t = true → Plain rest → Rel (deTok .ondemand c f ty t rest) (deTok .stream c f ty t rest) ∧ SubOut (deTok .stream c f ty t rest) rest)
    (ty : Ty) (next : String → List (Option String)) :
    Rel
      (match nextValue .ondemand rest with
        | .error e => (Except.error e : Res (String × List Tok))
        | .ok (vtok, r2) =>
          match deTok .ondemand c f ty vtok r2 with
          | .error e => .error e
          | .ok (v, r3) => deStruct .ondemand c f fs bt root r3 (next v))
      (match nextValue .stream rest with
        | .error e => (Except.error e : Res (String × List Tok))
        | .ok (vtok, r2) =>
          match deTok .stream c f ty vtok r2 with
          | .error e => .error e
          | .ok (v, r3) => deStruct .stream c f fs bt root r3 (next v)) ∧
    SubOut
      (match nextValue .stream rest with
        | .error e => (Except.error e : Res (String × List Tok))
        | .ok (vtok, r2) =>
          match deTok .stream c f ty vtok r2 with
          | .error e => .error e
          | .ok (v, r3) => deStruct .stream c f fs bt root r3 (next v)) toks := by
  rw [nextValue_plain rest hpr]
  cases hs2 : nextValue .stream rest with
  | error e => simp [Rel, SubOut]
  | ok x2 =>
    obtain ⟨vtok, r2⟩ := x2
    obtain ⟨hpv, hr2⟩ := nextValue_sub .stream rest hpr vtok r2 hs2
    have hpr2 : Plain r2 := hpr.sub hr2
    obtain ⟨b1, b2⟩ := ihT ty vtok r2 hpv hpr2
    dsimp only
    generalize hs3 : deTok .stream c f ty vtok r2 = s3 at b1 b2 ⊢
    cases s3 with
    | error e =>
      refine ⟨?_, by simp [SubOut]⟩
      rcases b1 with b1 | b1 <;> simp [b1, Rel]
    | ok x3 =>
      obtain ⟨v, r3⟩ := x3
      have hr3 := b2 v r3 rfl
      have hpr3 : Plain r3 := hpr2.sub hr3
      obtain ⟨m1, m2⟩ := ihS fs bt root r3 (next v) hpr3
      refine ⟨?_, ?_⟩
      · rcases b1 with b1 | b1
        · simp [b1, Rel]
        · rw [b1]; exact m1
      · intro v' r' h
        dsimp only at h
        exact fun x hx => hrs x (hr2 x (hr3 x (m2 v' r' h x hx)))

theorem deStruct_step (c : Cfg) (f : Nat)
    (ihS : ∀ fs bt root toks slots, Plain toks → Rel (deStruct .ondemand c f fs bt root toks slots) (deStruct .stream c f fs bt root toks slots) ∧ SubOut (deStruct .stream c f fs bt root toks slots) toks)
    (ihT : ∀ ty t rest, plainTok t = true → Plain rest → Rel (deTok .ondemand c f ty t rest) (deTok .stream c f ty t rest) ∧ SubOut (deTok .stream c f ty t rest) rest) :
    ∀ fs bt root toks slots, Plain toks →
      Rel (deStruct .ondemand c (f + 1) fs bt root toks slots) (deStruct .stream c (f + 1) fs bt root toks slots) ∧
      SubOut (deStruct .stream c (f + 1) fs bt root toks slots) toks := by
  intro fs bt root toks slots hp
  have hk := nextKey_rel root (f + 1) toks hp
  have hksub := nextKey_sub .stream root (f + 1) toks hp
  simp only [deStruct]
  generalize nextKey .stream root (f + 1) toks = ks at hk hksub ⊢
  generalize nextKey .ondemand root (f + 1) toks = ko at hk ⊢
  cases ks with
  | error e =>
    refine ⟨?_, by simp [SubOut]⟩
    rcases hk with hk | hk <;> subst hk <;> simp [Rel]
  | ok x =>
    obtain ⟨kopt, rest⟩ := x
    obtain ⟨hrs, hkt⟩ := hksub kopt rest rfl
    have hpr : Plain rest := hp.sub hrs
    cases kopt with
    | none =>
      refine ⟨?_, ?_⟩
      · rcases hk with hk | hk <;> subst hk <;> simp [Rel]
      · intro v r h
        cases hf : structFinish fs slots [] with
        | error e => simp [hf, Except.map] at h
        | ok s => simp [hf, Except.map] at h; obtain ⟨_, rfl⟩ := h; exact hrs
    | some kt =>
      have hpk := hkt kt rfl
      have key : ∀ p, (match normTok p .any kt rest with
          | .error e => (Except.error e : Res (Tok × List Tok))
          | .ok x => .ok x) = .ok (kt, rest) := by
        intro p; rw [normTok_plain p .any kt rest hpk]
      have hn1 := normTok_plain .ondemand .any kt rest hpk
      have hn2 := normTok_plain .stream .any kt rest hpk
      suffices hgoal : Rel
          (match (Except.ok (some kt, rest) : Res (Option Tok × List Tok)) with
            | .error e => (Except.error e : Res (String × List Tok))
            | .ok (none, rest) => (structFinish fs slots []).map (fun v => (v, rest))
            | .ok (some kt0, rest0) =>
              match normTok .ondemand .any kt0 rest0 with
              | .error e => .error e
              | .ok (kt, rest) =>
              match seqFieldKey c fs bt kt with
              | .error e => .error e
              | .ok none =>
                match nextValue .ondemand rest with
                | .error e => .error e
                | .ok (vtok, r2) =>
                  match deTok .ondemand c f .ign vtok r2 with
                  | .error e => .error e
                  | .ok (_, r3) => deStruct .ondemand c f fs bt root r3 slots
              | .ok (some i) =>
                match slots[i]?, fs.get? i with
                | some (some _), some (name, _, _) => .error (.duplicate name)
                | some none, some (_, _, fty) =>
                  match nextValue .ondemand rest with
                  | .error e => .error e
                  | .ok (vtok, r2) =>
                    match deTok .ondemand c f fty vtok r2 with
                    | .error e => .error e
                    | .ok (v, r3) => deStruct .ondemand c f fs bt root r3 (slots.set i (some v))
                | _, _ => .error .panic) _ ∧ SubOut _ toks by
        refine ⟨?_, hgoal.2⟩
        rcases hk with hk | hk <;> subst hk
        · exact Rel.beyond _
        · exact hgoal.1
      dsimp only
      rw [hn1, hn2]
      dsimp only
      cases seqFieldKey c fs bt kt with
      | error e => simp [Rel, SubOut]
      | ok w =>
        cases w with
        | none => exact struct_tail c f fs bt root toks rest hrs hpr ihS ihT .ign (fun _ => slots)
        | some i =>
          cases hsa : slots[i]? with
          | none => simp [hsa, Rel, SubOut]
          | some a =>
            cases hfb : fs.get? i with
            | none => cases a <;> simp [hsa, hfb, Rel, SubOut]
            | some y =>
              obtain ⟨name, tk, fty⟩ := y
              cases a with
              | some sv => simp [hsa, hfb, Rel, SubOut]
              | none =>
                simp only [hsa, hfb]
                exact struct_tail c f fs bt root toks rest hrs hpr ihS ihT _ (fun v => slots.set i (some v))

/-- the four loops together, for every fuel. -/
theorem seq_paths_rel (c : Cfg) : ∀ f : Nat,
    (∀ ty t rest, plainTok t = true → Plain rest → Rel (deTok .ondemand c f ty t rest) (deTok .stream c f ty t rest) ∧ SubOut (deTok .stream c f ty t rest) rest) ∧
    (∀ et toks acc, Plain toks → Rel (deElems .ondemand c f et toks acc) (deElems .stream c f et toks acc) ∧ SubOut (deElems .stream c f et toks acc) toks) ∧
    (∀ vt root toks acc, Plain toks → Rel (deMap .ondemand c f vt root toks acc) (deMap .stream c f vt root toks acc) ∧ SubOut (deMap .stream c f vt root toks acc) toks) ∧
    (∀ fs bt root toks slots, Plain toks → Rel (deStruct .ondemand c f fs bt root toks slots) (deStruct .stream c f fs bt root toks slots) ∧ SubOut (deStruct .stream c f fs bt root toks slots) toks) := by
  intro f
  induction f with
  | zero =>
    refine ⟨?_, ?_, ?_, ?_⟩ <;> intros <;> simp [deTok, deElems, deMap, deStruct, Rel, SubOut]
  | succ f ih =>
    obtain ⟨ihT, ihE, ihM, ihS⟩ := ih
    exact ⟨deTok_step c f ihE ihM ihS ihT, deElems_step c f ihE ihT, deMap_step c f ihM ihT, deStruct_step c f ihS ihT⟩

/-- root requests: the on-demand model either leaves the token-level model or equals the streaming model. -/
theorem seqRoot_rel (c : Cfg) (ty : RootTy) (toks : List Tok) (h : Plain toks) :
    Rel (deSeqRoot .ondemand c ty toks) (deSeqRoot .stream c ty toks) := by
  obtain ⟨_, _, hM, hS⟩ := seq_paths_rel c (2 * toks.length + rootSize ty + 8)
  unfold deSeqRoot
  cases ty with
  | tok fs =>
    dsimp only
    rcases (hS fs true true toks (slotsInit fs) h).1 with h1 | h1 <;> simp [h1, Rel, Except.map]
  | plain t =>
    cases t with
    | map vt =>
      dsimp only
      rcases (hM vt true toks [] h).1 with h1 | h1 <;> simp [h1, Rel]
    | struct fs =>
      dsimp only
      rcases (hS fs false true toks (slotsInit fs) h).1 with h1 | h1 <;> simp [h1, Rel, Except.map]
    | _ => exact Rel.refl _

end Jomini.BinDe
