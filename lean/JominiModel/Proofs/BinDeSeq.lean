import JominiModel.Model.BinDe
/-
Helper lemmas for C04_ondemand_eq_stream: on lexeme streams without truncation markers and
without the rgb marker, every reader primitive of the on-demand path equals the streaming one
(or the on-demand path leaves the token-level model: `Rel`), and one step of `deTok` /
`deElems` preserves this.
-/
set_option linter.unusedSimpArgs false
namespace Jomini.BinDe
open Jomini

/-- lexemes on which the two sequential readers see the same thing: no truncation marker, no rgb
marker (the streaming reader parses it into one token, the on-demand lexer does not). -/
def plainTok : Tok → Bool
  | .trunc | .stray | .rgb _ => false
  | .id n => n != RGB_ID
  | _ => true

def Plain (toks : List Tok) : Prop := ∀ t ∈ toks, plainTok t = true

/-- `a` is the on-demand result: either it left the token-level model, or it is the streaming result. -/
def Rel {α : Type} (a b : Res α) : Prop := a = .error .beyond ∨ a = b

theorem Plain.tail {t : Tok} {rest : List Tok} (h : Plain (t :: rest)) : Plain rest :=
  fun x hx => h x (List.mem_cons_of_mem _ hx)

theorem Plain.head {t : Tok} {rest : List Tok} (h : Plain (t :: rest)) : plainTok t = true :=
  h t (List.mem_cons_self ..)

theorem Plain.sub {a b : List Tok} (h : Plain b) (hs : ∀ x ∈ a, x ∈ b) : Plain a :=
  fun x hx => h x (hs x hx)

theorem fetch_plain (toks : List Tok) (h : Plain toks) : fetch .ondemand toks = fetch .stream toks := by
  cases toks with
  | nil => simp [fetch]
  | cons t rest =>
    have := h.head
    cases t <;> simp_all [fetch, plainTok]

theorem fetch_sub (p : Path) (toks : List Tok) (h : Plain toks) (t : Tok) (r : List Tok)
    (hf : fetch p toks = .tok t r) : toks = t :: r := by
  cases toks with
  | nil => simp [fetch] at hf
  | cons u rest =>
    have := h.head
    cases p <;> cases u <;> simp_all [fetch, plainTok]

theorem fetchRead_plain (toks : List Tok) (h : Plain toks) : fetchRead .ondemand toks = fetchRead .stream toks := by
  simp [fetchRead, fetch_plain toks h]

theorem fetchRead_sub (p : Path) (toks : List Tok) (h : Plain toks) (t : Tok) (r : List Tok)
    (hf : fetchRead p toks = .ok (t, r)) : toks = t :: r := by
  unfold fetchRead at hf
  split at hf
  · rename_i t' r' hft
    simp at hf
    obtain ⟨rfl, rfl⟩ := hf
    exact fetch_sub p toks h _ _ hft
  · simp at hf

theorem nextValue_plain (toks : List Tok) (h : Plain toks) : nextValue .ondemand toks = nextValue .stream toks := by
  unfold nextValue
  rw [fetchRead_plain toks h]
  cases hf : fetchRead .stream toks with
  | error e => simp
  | ok x =>
    obtain ⟨t, r⟩ := x
    have hs := fetchRead_sub .stream toks h t r hf
    subst hs
    cases t <;> simp [fetchRead_plain r h.tail]

theorem nextValue_sub (p : Path) (toks : List Tok) (h : Plain toks) (t : Tok) (r : List Tok)
    (hf : nextValue p toks = .ok (t, r)) : plainTok t = true ∧ ∀ x ∈ r, x ∈ toks := by
  unfold nextValue at hf
  cases h1 : fetchRead p toks with
  | error e => simp [h1] at hf
  | ok x =>
    obtain ⟨t1, r1⟩ := x
    have hs := fetchRead_sub p toks h t1 r1 h1
    subst hs
    rw [h1] at hf
    by_cases he : t1 = .equal
    · subst he
      simp at hf
      have hs2 := fetchRead_sub p r1 h.tail t r hf
      subst hs2
      exact ⟨h.tail.head, fun x hx => List.mem_cons_of_mem _ (List.mem_cons_of_mem _ hx)⟩
    · have : (t1, r1) = (t, r) := by
        cases t1 <;> simp_all
      obtain ⟨rfl, rfl⟩ := Prod.mk.inj this
      exact ⟨h.head, fun x hx => List.mem_cons_of_mem _ hx⟩

theorem skipContainer_sub (toks : List Tok) (d : Nat) (r : List Tok) (h : skipContainer toks d = .ok r) :
    ∀ x ∈ r, x ∈ toks := by
  induction toks generalizing d with
  | nil => simp [skipContainer] at h
  | cons t rest ih =>
    cases t <;> simp [skipContainer] at h <;>
      first
        | (split at h
           · simp at h; subst h; exact fun x hx => List.mem_cons_of_mem _ hx
           · exact fun x hx => List.mem_cons_of_mem _ (ih _ h x hx))
        | exact fun x hx => List.mem_cons_of_mem _ (ih _ h x hx)

theorem skipTok_plain (t : Tok) (rest : List Tok) (ht : plainTok t = true) :
    skipTok .ondemand t rest = skipTok .stream t rest := by
  cases t <;> simp_all [skipTok, plainTok]

theorem skipTok_sub (p : Path) (t : Tok) (rest r : List Tok) (ht : plainTok t = true)
    (h : skipTok p t rest = .ok r) : ∀ x ∈ r, x ∈ rest := by
  cases p <;> cases t <;> simp_all [skipTok, plainTok] <;>
    first
      | exact skipContainer_sub _ _ _ h
      | skip

theorem fetch_cons (p : Path) (t : Tok) (rest : List Tok) (h : Plain (t :: rest)) :
    fetch p (t :: rest) = .tok t rest := by
  have := h.head
  cases p <;> cases t <;> simp_all [fetch, plainTok]

theorem nextKey_rel (root : Bool) (f : Nat) : ∀ (toks : List Tok), Plain toks →
    Rel (nextKey .ondemand root f toks) (nextKey .stream root f toks) := by
  induction f with
  | zero => intro toks _; right; simp [nextKey]
  | succ f ih =>
    intro toks h
    cases toks with
    | nil => right; simp [nextKey, fetch]
    | cons t rest =>
      simp only [nextKey, fetch_cons _ t rest h]
      cases t <;> try (right; rfl)
      -- open
      cases rest with
      | nil => right; simp [fetchRead, fetch]
      | cons u rest' =>
        have hu : Plain (u :: rest') := h.tail
        simp only [fetchRead, fetch_cons _ u rest' hu]
        have hpu := hu.head
        by_cases hp : payloadFree u = true
        · have hns : u ≠ .stray := by intro e; subst e; simp [plainTok] at hpu
          cases u <;> simp_all [payloadFree] <;> exact ih _ hu.tail
        · left
          cases u <;> simp_all [payloadFree, plainTok]

theorem nextKey_sub (p : Path) (root : Bool) (f : Nat) : ∀ (toks : List Tok), Plain toks →
    ∀ k r, nextKey p root f toks = .ok (k, r) → (∀ x ∈ r, x ∈ toks) ∧ (∀ t, k = some t → plainTok t = true) := by
  induction f with
  | zero => intro toks _ k r h; simp [nextKey] at h
  | succ f ih =>
    intro toks hpl k r h
    cases toks with
    | nil =>
      simp [nextKey, fetch] at h
      split at h <;> simp at h
      obtain ⟨rfl, rfl⟩ := h
      simp
    | cons t rest =>
      simp only [nextKey, fetch_cons _ t rest hpl] at h
      have hpt := hpl.head
      cases t <;> simp at h <;> try (obtain ⟨rfl, rfl⟩ := h; exact ⟨fun x hx => List.mem_cons_of_mem _ hx, by simp_all⟩)
      -- open
      cases rest with
      | nil => cases p <;> simp [fetchRead, fetch] at h
      | cons u rest' =>
        have hu : Plain (u :: rest') := hpl.tail
        have key : nextKey p root f rest' = .ok (k, r) := by
          cases p
          · have hpu := hu.head
            cases u <;> simp_all [payloadFree, plainTok]
          · simp only [fetchRead, fetch_cons _ u rest' hu] at h
            exact h
        obtain ⟨h1, h2⟩ := ih rest' hu.tail k r key
        exact ⟨fun x hx => List.mem_cons_of_mem _ (List.mem_cons_of_mem _ (h1 x hx)), h2⟩

theorem normTok_plain (p : Path) (ty : Ty) (t : Tok) (rest : List Tok) (ht : plainTok t = true) :
    normTok p ty t rest = .ok (t, rest) := by
  cases p <;> cases ty <;> cases t <;> simp_all [normTok, plainTok]

def SubOut {α : Type} (res : Res (α × List Tok)) (inp : List Tok) : Prop :=
  ∀ v r, res = .ok (v, r) → ∀ x ∈ r, x ∈ inp

theorem Rel.refl {α : Type} (a : Res α) : Rel a a := Or.inr rfl

theorem deTok_step (c : Cfg) (f : Nat)
    (ihE : ∀ et toks acc, Plain toks → Rel (deElems .ondemand c f et toks acc) (deElems .stream c f et toks acc) ∧ SubOut (deElems .stream c f et toks acc) toks)
    (ihM : ∀ vt root toks acc, Plain toks → Rel (deMap .ondemand c f vt root toks acc) (deMap .stream c f vt root toks acc) ∧ SubOut (deMap .stream c f vt root toks acc) toks)
    (ihS : ∀ fs bt root toks slots, Plain toks → Rel (deStruct .ondemand c f fs bt root toks slots) (deStruct .stream c f fs bt root toks slots) ∧ SubOut (deStruct .stream c f fs bt root toks slots) toks)
    (ihT : ∀ ty t rest, plainTok t = true → Plain rest → Rel (deTok .ondemand c f ty t rest) (deTok .stream c f ty t rest) ∧ SubOut (deTok .stream c f ty t rest) rest) :
    ∀ ty t rest, plainTok t = true → Plain rest →
      Rel (deTok .ondemand c (f + 1) ty t rest) (deTok .stream c (f + 1) ty t rest) ∧ SubOut (deTok .stream c (f + 1) ty t rest) rest := by
  intro ty t rest ht hr
  cases ty with
  | ign =>
    simp only [deTok, normTok_plain _ _ _ _ ht, skipTok_plain t rest ht]
    refine ⟨Rel.refl _, ?_⟩
    intro v r h
    cases hs : skipTok .stream t rest with
    | error e => simp [hs] at h
    | ok r' => simp [hs] at h; obtain ⟨_, rfl⟩ := h; exact skipTok_sub _ _ _ _ ht hs
  | opt inner =>
    obtain ⟨h1, h2⟩ := ihT inner t rest ht hr
    simp only [deTok, normTok_plain _ _ _ _ ht]
    constructor
    · rcases h1 with h1 | h1 <;> simp [h1, Rel]
    · intro v r h
      cases hs : deTok .stream c f inner t rest with
      | error e => simp [hs] at h
      | ok x => obtain ⟨v', r'⟩ := x; simp [hs] at h; obtain ⟨_, rfl⟩ := h; exact h2 v' _ hs
  | any =>
    simp only [deTok, normTok_plain _ _ _ _ ht]
    cases hd : deser c t with
    | prim pr => simp [Rel, SubOut]
    | err e => simp [Rel, SubOut]
    | color col => cases t <;> simp_all [deser, plainTok, Event.ofRes] <;> (split at hd <;> simp at hd)
    | seq =>
      obtain ⟨h1, h2⟩ := ihE .any rest [] hr
      constructor
      · rcases h1 with h1 | h1 <;> simp [h1, Rel]
      · intro v r h
        cases hs : deElems .stream c f .any rest [] with
        | error e => simp [hs] at h
        | ok x => obtain ⟨v', r'⟩ := x; simp [hs] at h; obtain ⟨_, rfl⟩ := h; exact h2 v' _ hs
  | seq et =>
    have hE := ihE et rest [] hr
    cases t with
    | «open» =>
      simp only [deTok, normTok_plain _ _ _ _ ht]
      obtain ⟨h1, h2⟩ := hE
      constructor
      · rcases h1 with h1 | h1 <;> simp [h1, Rel]
      · intro v r h
        cases hs : deElems .stream c f et rest [] with
        | error e => simp [hs] at h
        | ok x => obtain ⟨v', r'⟩ := x; simp [hs] at h; obtain ⟨_, rfl⟩ := h; exact h2 v' _ hs
    | rgb col => simp [plainTok] at ht
    | _ =>
      simp only [deTok, normTok_plain _ _ _ _ ht]
      refine ⟨Rel.refl _, ?_⟩
      intro v r h
      revert h
      generalize leafOf (.seq et) (deser c _) = q
      cases q <;> simp [Except.map] <;> (intro _ h; subst h; simp)
  | map vt =>
    have hM := ihM vt false rest [] hr
    cases t with
    | «open» =>
      simp only [deTok, normTok_plain _ _ _ _ ht]
      obtain ⟨h1, h2⟩ := hM
      constructor
      · rcases h1 with h1 | h1 <;> simp [h1, Rel]
      · intro v r h
        cases hs : deMap .stream c f vt false rest [] with
        | error e => simp [hs] at h
        | ok x => obtain ⟨v', r'⟩ := x; simp [hs] at h; obtain ⟨_, rfl⟩ := h; exact h2 v' _ hs
    | _ =>
      simp only [deTok, normTok_plain _ _ _ _ ht]
      refine ⟨Rel.refl _, ?_⟩
      intro v r h
      revert h
      generalize leafOf (.map vt) (deser c _) = q
      cases q <;> simp [Except.map] <;> (intro _ h; subst h; simp)
  | struct fs =>
    have hS := ihS fs false false rest (slotsInit fs) hr
    cases t with
    | «open» =>
      simp only [deTok, normTok_plain _ _ _ _ ht]
      exact hS
    | rgb col => simp [plainTok] at ht
    | _ =>
      simp only [deTok, normTok_plain _ _ _ _ ht]
      refine ⟨Rel.refl _, ?_⟩
      intro v r h
      revert h
      generalize leafOf (.struct fs) (deser c _) = q
      cases q <;> simp [Except.map] <;> (intro _ h; subst h; simp)
  | prop _ => simp [deTok, normTok_plain _ _ _ _ ht, Rel, SubOut]
  | enum vs =>
    simp only [deTok, normTok_plain _ _ _ _ ht]
    refine ⟨Rel.refl _, ?_⟩
    intro v r h
    revert h
    cases hinted c .str t <;> simp [Except.map]
    rename_i pr
    cases enumVal vs pr <;> simp [Except.map]
    intro _ h; subst h; simp
  | _ =>
    simp only [deTok, normTok_plain _ _ _ _ ht]
    refine ⟨Rel.refl _, ?_⟩
    intro v r h
    revert h
    generalize leafOf _ (hinted c _ t) = q
    cases q <;> simp [Except.map] <;> (intro _ h; subst h; simp)

theorem deElems_step (c : Cfg) (f : Nat)
    (ihE : ∀ et toks acc, Plain toks → Rel (deElems .ondemand c f et toks acc) (deElems .stream c f et toks acc) ∧ SubOut (deElems .stream c f et toks acc) toks)
    (ihT : ∀ ty t rest, plainTok t = true → Plain rest → Rel (deTok .ondemand c f ty t rest) (deTok .stream c f ty t rest) ∧ SubOut (deTok .stream c f ty t rest) rest) :
    ∀ et toks acc, Plain toks →
      Rel (deElems .ondemand c (f + 1) et toks acc) (deElems .stream c (f + 1) et toks acc) ∧ SubOut (deElems .stream c (f + 1) et toks acc) toks := by
  intro et toks acc hp
  cases toks with
  | nil => simp [deElems, fetchRead, fetch, Rel, SubOut]
  | cons t rest =>
    have ht := hp.head
    have hr := hp.tail
    simp only [deElems, fetchRead, fetch_cons _ t rest hp]
    cases t <;>
    first
    | (simp [Rel, SubOut]; intro x hx; exact Or.inr hx)
    | (dsimp only
       obtain ⟨h1, h2⟩ := ihT et _ rest ht hr
       generalize hs : deTok .stream c f et _ rest = sres at h1 h2 ⊢
       cases sres with
       | error e =>
         constructor
         · rcases h1 with h1 | h1 <;> simp [h1, Rel]
         · simp [SubOut]
       | ok x =>
         obtain ⟨v, r⟩ := x
         have hsub := h2 v r rfl
         have hpr : Plain r := hr.sub hsub
         obtain ⟨g1, g2⟩ := ihE et r (acc ++ [v]) hpr
         constructor
         · rcases h1 with h1 | h1
           · simp [h1, Rel]
           · simp only [h1]; exact g1
         · intro v' r' h
           simp only at h
           exact fun x hx => List.mem_cons_of_mem _ (hsub x (g2 v' r' h x hx)))

end Jomini.BinDe
