import JominiModel.Model.WriterSink
import JominiModel.Proofs.WriterFullBytes
/-
The writer over a failing sink (Model/WriterSink.lean) against the writer over an unlimited one
(Model/Writer.lean): every call simulates its unlimited counterpart until the sink is full.
-/
namespace Jomini.Writer
open Jomini

/-- the unlimited step only appends -/
def Mono (m : State → State) : Prop := ∀ s, ∃ w, (m s).out = s.out ++ w

/-- at `s`, the fallible step `mF` does what the unlimited step `m` does as long as the output fits;
otherwise it returns an I/O error with exactly the first `cap` bytes in the sink -/
def SimAt (cap : Nat) (s : State) (mF : FM) (m : State → State) : Prop :=
  ((m s).out.length ≤ cap → mF s = (.ok (), m s)) ∧
  (cap < (m s).out.length → (mF s).1 = .error .io ∧ (mF s).2.out = (m s).out.take cap)

def Sim (cap : Nat) (mF : FM) (m : State → State) : Prop :=
  Mono m ∧ ∀ s, s.out.length ≤ cap → SimAt cap s mF m

theorem sim_congr {cap : Nat} {mF : FM} {m m' : State → State} (h : Sim cap mF m) (he : ∀ s, m s = m' s) :
    Sim cap mF m' := by
  have : m = m' := funext he
  rw [← this]; exact h

theorem sim_ok (cap : Nat) : Sim cap .ok (fun s => s) :=
  ⟨fun s => ⟨[], by simp⟩, fun s _ => ⟨fun _ => rfl, fun h => by simp at h; omega⟩⟩

theorem sim_mod (cap : Nat) (f : State → State) (hf : ∀ s, (f s).out = s.out) : Sim cap (.mod f) f :=
  ⟨fun s => ⟨[], by simp [hf]⟩, fun s hs => ⟨fun _ => rfl, fun h => by rw [hf] at h; omega⟩⟩

theorem sim_put (cap : Nat) (b : Bytes) : Sim cap (putF cap b) (fun s => put s b) := by
  refine ⟨fun s => ⟨b, rfl⟩, fun s hs => ?_⟩
  by_cases hb : b = []
  · subst hb
    have : put s [] = s := by simp [put]
    exact ⟨fun _ => by simp [putF, this], fun h => by simp [put] at h; omega⟩
  · constructor
    · intro h
      simp only [put, List.length_append] at h
      simp [putF, hb, show b.length ≤ cap - s.out.length by omega]
    · intro h
      simp only [put, List.length_append] at h
      have hn : ¬ b.length ≤ cap - s.out.length := by omega
      simp only [putF, hb, hn, if_false, put, true_and]
      rw [List.take_append, List.take_of_length_le hs]

theorem simAt_seq {cap : Nat} {s : State} {a b : FM} {f g : State → State}
    (ha : SimAt cap s a f) (hg : Mono g)
    (hb : (f s).out.length ≤ cap → SimAt cap (f s) b g) : SimAt cap s (.seq a b) (fun s => g (f s)) := by
  obtain ⟨w2, hw2⟩ := hg (f s)
  by_cases hfit : (f s).out.length ≤ cap
  · have h1 := ha.1 hfit
    obtain ⟨hb1, hb2⟩ := hb hfit
    constructor
    · intro h; simp only [FM.seq, h1]; exact hb1 h
    · intro h; simp only [FM.seq, h1]; exact hb2 h
  · have h1 := ha.2 (by omega)
    constructor
    · intro h; rw [hw2, List.length_append] at h; omega
    · intro _
      have hres : (FM.seq a b s) = a s := by
        simp only [FM.seq]
        cases hx : a s with
        | mk r s1 =>
          rw [hx] at h1
          cases r with
          | ok u => simp at h1
          | error e => rfl
      rw [hres, hw2]
      refine ⟨h1.1, ?_⟩
      rw [h1.2, List.take_append_of_le_length (by omega)]

theorem sim_seq {cap : Nat} {a b : FM} {f g : State → State} (ha : Sim cap a f) (hb : Sim cap b g) :
    Sim cap (.seq a b) (fun s => g (f s)) := by
  refine ⟨fun s => ?_, fun s hs => simAt_seq (ha.2 s hs) hb.1 (fun h => hb.2 (f s) h)⟩
  obtain ⟨w1, h1⟩ := ha.1 s
  obtain ⟨w2, h2⟩ := hb.1 (f s)
  exact ⟨w1 ++ w2, by rw [h2, h1, List.append_assoc]⟩

theorem sim_dep {cap : Nat} {k : State → FM} {m : State → State → State} (h : ∀ s0, Sim cap (k s0) (m s0)) :
    Sim cap (.dep k) (fun s => m s s) :=
  ⟨fun s => (h s).1 s, fun s hs => (h s).2 s hs⟩

/-! ### the calls -/

theorem sim_lineTerminator (cap : Nat) : Sim cap (writeLineTerminatorF cap) writeLineTerminator := by
  refine sim_congr (sim_dep (m := fun s0 s => if s0.needsLineTerminator then
    (fun t : State => { t with needsLineTerminator := false }) (put s [10]) else s) (fun s0 => ?_)) (fun s => ?_)
  · cases h : s0.needsLineTerminator
    · simpa [h] using sim_ok cap
    · simpa [h] using sim_seq (sim_put cap [10]) (sim_mod cap (fun t : State => { t with needsLineTerminator := false }) (fun _ => rfl))
  · unfold writeLineTerminator; split <;> rfl

theorem sim_indent (cap : Nat) : Sim cap (writeIndentF cap) writeIndent := by
  refine sim_congr (sim_dep (m := fun s0 s => put s (List.replicate (s0.depth.length * s0.indentFactor) s0.indentChar))
    (fun s0 => sim_put cap _)) (fun s => ?_)
  rw [writeIndent_eq]

/-- the body of `write_preamble` behind the line terminator (`just` = a newline was just written) -/
def preBody (just : Bool) (s : State) : State :=
  match s.state with
  | .arrayValue | .secondUnknown =>
    if just then writeIndent s
    else if s.mixedMode = .keyed then { s with mixedMode := .started }
    else put s [32]
  | .key => writeIndent s
  | .keyValueSeparator => put s [61]
  | x => if x.noDataYet then writeIndent s else s

theorem writePreamble_body (s0 : State) : writePreamble s0 = preBody s0.needsLineTerminator (writeLineTerminator s0) := by
  unfold writePreamble preBody
  rfl

theorem sim_preBody (cap : Nat) (just : Bool) :
    Sim cap (.dep fun s =>
      match s.state with
      | .arrayValue | .secondUnknown =>
        if just then writeIndentF cap
        else if s.mixedMode = .keyed then .mod fun s => { s with mixedMode := .started }
        else putF cap [32]
      | .key => writeIndentF cap
      | .keyValueSeparator => putF cap [61]
      | x => if x.noDataYet then writeIndentF cap else .ok) (preBody just) := by
  refine sim_congr (sim_dep (m := fun s0 s =>
      match s0.state with
      | .arrayValue | .secondUnknown =>
        if just then writeIndent s
        else if s0.mixedMode = .keyed then { s with mixedMode := .started }
        else put s [32]
      | .key => writeIndent s
      | .keyValueSeparator => put s [61]
      | x => if x.noDataYet then writeIndent s else s) (fun s0 => ?_)) (fun s => ?_)
  · have hmod := sim_mod cap (fun t : State => { t with mixedMode := .started }) (fun _ => rfl)
    cases hst : s0.state <;> cases just <;> by_cases hk : s0.mixedMode = .keyed <;>
      (try simp only [hk, if_true, if_false, Bool.false_eq_true, WriteState.noDataYet]) <;>
      first | exact sim_indent cap | exact sim_put cap _ | exact sim_ok cap | exact hmod
  · unfold preBody; rfl

theorem sim_preamble (cap : Nat) : Sim cap (writePreambleF cap) writePreamble := by
  refine sim_congr (sim_dep (m := fun s0 s => preBody s0.needsLineTerminator (writeLineTerminator s)) (fun s0 => ?_))
    (fun s => (writePreamble_body s).symm)
  exact sim_seq (sim_lineTerminator cap) (sim_preBody cap s0.needsLineTerminator)

/-- `write_epilogue`, total -/
def epi (s : State) : State :=
  { s with state := nextOf s.state, needsLineTerminator := decide (nextOf s.state = .key) }

theorem writeEpilogueF_eq : writeEpilogueF = FM.mod epi := by
  funext s
  simp [writeEpilogueF, FM.mod, epi, next_eq_nextOf]

theorem sim_epilogue (cap : Nat) : Sim cap writeEpilogueF epi := by
  rw [writeEpilogueF_eq]; exact sim_mod cap epi (fun _ => rfl)

theorem wr_epi (s : State) (x : Bytes) : wr s x = epi (put (writePreamble s) x) := by
  have h := wr_eq s x
  simp only [writeRaw, writeEpilogue, next_eq_nextOf] at h
  exact (Except.ok.inj h).symm

theorem sim_raw (cap : Nat) (x : Bytes) :
    Sim cap (.seq (writePreambleF cap) (.seq (putF cap x) writeEpilogueF)) (fun s => wr s x) :=
  sim_congr (sim_seq (sim_preamble cap) (sim_seq (sim_put cap x) (sim_epilogue cap))) (fun s => (wr_epi s x).symm)

theorem sim_start (cap : Nat) : Sim cap (writeStartF cap) writeStart :=
  sim_congr (sim_seq (sim_preamble cap) (sim_seq (sim_put cap [123])
    (sim_mod cap (fun s : State => { s with depth := s.mode :: s.depth, needsLineTerminator := true, mode := .array, state := .firstUnknown })
      (fun _ => rfl)))) (fun _ => rfl)

theorem sim_objectStart (cap : Nat) : Sim cap (writeObjectStartF cap) writeObjectStart :=
  sim_congr (sim_seq (sim_start cap) (sim_mod cap (fun s : State => { s with mode := .object, state := .firstKey }) (fun _ => rfl)))
    (fun _ => rfl)

theorem sim_arrayStart (cap : Nat) : Sim cap (writeArrayStartF cap) writeArrayStart :=
  sim_congr (sim_seq (sim_start cap) (sim_mod cap (fun s : State => { s with mode := .array, state := .arrayValueFirst }) (fun _ => rfl)))
    (fun _ => rfl)

theorem sim_header (cap : Nat) (h : Bytes) : Sim cap (writeHeaderF cap h) (fun s => writeHeader s h) :=
  sim_congr (sim_seq (sim_preamble cap) (sim_seq (sim_put cap (h ++ [32]))
    (sim_mod cap (fun s : State => { s with state := .objectValue }) (fun _ => rfl)))) (fun _ => rfl)

theorem sim_operator (cap : Nat) (op : Op) : Sim cap (writeOperatorF cap op) (fun s => writeOperator s op) := by
  refine sim_congr (sim_dep (m := fun s0 s => if s0.mixedMode = .disabled then
      (fun t : State => { t with mode := .object, state := .objectValue })
        (if op = .eq then put s [61] else put s ([32] ++ op.symbol ++ [32]))
    else (fun t : State => { t with mixedMode := .keyed }) (put s op.symbol)) (fun s0 => ?_)) (fun s => ?_)
  · by_cases hd : s0.mixedMode = .disabled
    · simp only [hd, if_true]
      by_cases ho : op = .eq
      · simp only [ho, if_true]
        exact sim_seq (sim_put cap [61]) (sim_mod cap (fun t : State => { t with mode := .object, state := .objectValue }) (fun _ => rfl))
      · simp only [ho, if_false]
        exact sim_seq (sim_put cap _) (sim_mod cap (fun t : State => { t with mode := .object, state := .objectValue }) (fun _ => rfl))
    · simp only [hd, if_false]
      exact sim_seq (sim_put cap _) (sim_mod cap (fun t : State => { t with mixedMode := .keyed }) (fun _ => rfl))
  · unfold writeOperator
    by_cases hd : s.mixedMode = .disabled <;> by_cases ho : op = .eq <;> simp [hd, ho]

theorem sim_mixedMode (cap : Nat) : Sim cap (.mod startMixedMode) startMixedMode :=
  sim_mod cap startMixedMode (fun _ => rfl)

/-! ### `write_end`, `write_rgb` -/

/-- what `write_end` does after the stack was popped (`nd` = nothing was written into the container) -/
def endTail (nd : Bool) (s : State) : State :=
  (fun t : State => { t with needsLineTerminator := true, mixedMode := .disabled })
    (put (if nd then put s [32] else writeIndent (put s [10])) [125])

def endTailF (cap : Nat) (nd : Bool) : FM :=
  .seq (if nd then putF cap [32] else .seq (putF cap [10]) (writeIndentF cap))
    (.seq (putF cap [125]) (.mod fun s => { s with needsLineTerminator := true, mixedMode := .disabled }))

theorem sim_endTail (cap : Nat) (nd : Bool) : Sim cap (endTailF cap nd) (endTail nd) := by
  unfold endTailF endTail
  cases nd
  · exact sim_seq (sim_seq (sim_put cap [10]) (sim_indent cap)) (sim_seq (sim_put cap [125])
      (sim_mod cap (fun t : State => { t with needsLineTerminator := true, mixedMode := .disabled }) (fun _ => rfl)))
  · exact sim_seq (sim_put cap [32]) (sim_seq (sim_put cap [125])
      (sim_mod cap (fun t : State => { t with needsLineTerminator := true, mixedMode := .disabled }) (fun _ => rfl)))

/-- the writer after the pop -/
def popped (s0 : State) (m : DepthMode) (rest : List DepthMode) : State :=
  { s0 with depth := rest, mode := m, state := (match m with | .object => .key | .array => .arrayValue) }

theorem writeEnd_popped (s0 : State) (m : DepthMode) (rest : List DepthMode) (hd : s0.depth = m :: rest) :
    writeEnd s0 = .ok (endTail s0.state.noDataYet (popped s0 m rest)) := by
  unfold writeEnd endTail popped
  rw [hd]
  cases hnd : s0.state.noDataYet <;> simp only [hnd] <;> rfl

theorem writeEndF_popped (cap : Nat) (s0 : State) (m : DepthMode) (rest : List DepthMode) (hd : s0.depth = m :: rest) :
    writeEndF cap s0 = endTailF cap s0.state.noDataYet (popped s0 m rest) := by
  unfold writeEndF endTailF popped
  rw [hd]
  rfl

theorem writeEndF_empty (cap : Nat) (s0 : State) (hd : s0.depth = []) : writeEndF cap s0 = (.error .stackEmpty, s0) := by
  unfold writeEndF; rw [hd]

theorem mono_endT : Mono endT := by
  intro s
  cases hd : s.depth with
  | nil => exact ⟨[], by simp [endT, writeEnd, hd]⟩
  | cons m rest =>
    have h := writeEnd_popped s m rest hd
    obtain ⟨w, hw⟩ := (sim_endTail 0 s.state.noDataYet).1 (popped s m rest)
    exact ⟨w, by simp only [endT, h]; rw [hw]; rfl⟩

theorem simAt_end (cap : Nat) (s0 : State) (m : DepthMode) (rest : List DepthMode) (hd : s0.depth = m :: rest)
    (hs : s0.out.length ≤ cap) : SimAt cap s0 (writeEndF cap) endT := by
  have h := writeEnd_popped s0 m rest hd
  have hT : endT s0 = endTail s0.state.noDataYet (popped s0 m rest) := by simp [endT, h]
  have hsim := (sim_endTail cap s0.state.noDataYet).2 (popped s0 m rest) (by simpa [popped] using hs)
  unfold SimAt
  rw [writeEndF_popped cap s0 m rest hd, hT]
  exact hsim

/-- `write_rgb`, total -/
def rgbT (s : State) (c : Rgb) : State :=
  endT ((fun t => match c.a with | some a => wr t (fmtNat a) | none => t)
    (wr (wr (wr (writeArrayStart (writeHeader s [114, 103, 98])) (fmtNat c.r)) (fmtNat c.g)) (fmtNat c.b)))

theorem rgb_depth (s : State) (c : Rgb) :
    ((fun t => match c.a with | some a => wr t (fmtNat a) | none => t)
      (wr (wr (wr (writeArrayStart (writeHeader s [114, 103, 98])) (fmtNat c.r)) (fmtNat c.g)) (fmtNat c.b))).depth =
      (writeHeader s [114, 103, 98]).mode :: s.depth := by
  cases c.a <;> simp [wr_depth, writeArrayStart_depth, writeHeader_depth]

theorem writeRgb_eq (s : State) (c : Rgb) : writeRgb s c = .ok (rgbT s c) := by
  have hu : ∀ t x, writeUnquoted t x = .ok (wr t x) := fun t x => wr_eq t x
  have hd := rgb_depth s c
  unfold writeRgb rgbT
  simp only [hu]
  cases hca : c.a with
  | none =>
    simp only [hca] at hd ⊢
    exact (endT_of_depth _ _ _ hd).1
  | some a =>
    simp only [hca] at hd ⊢
    exact (endT_of_depth _ _ _ hd).1

theorem mono_wr (x : Bytes) : Mono (fun s => wr s x) := (sim_raw 0 x).1

theorem mono_comp {f g : State → State} (hf : Mono f) (hg : Mono g) : Mono (fun s => g (f s)) := by
  intro s
  obtain ⟨w1, h1⟩ := hf s
  obtain ⟨w2, h2⟩ := hg (f s)
  exact ⟨w1 ++ w2, by rw [h2, h1, List.append_assoc]⟩

theorem simAt_seq_sim {cap : Nat} {s : State} {a b : FM} {f g : State → State} (ha : Sim cap a f)
    (hs : s.out.length ≤ cap) (hg : Mono g) (hb : (f s).out.length ≤ cap → SimAt cap (f s) b g) :
    SimAt cap s (.seq a b) (fun s => g (f s)) := simAt_seq (ha.2 s hs) hg hb

def rgbG5 (c : Rgb) (t : State) : State := endT (match c.a with | some a => wr t (fmtNat a) | none => t)
def rgbG4 (c : Rgb) (t : State) : State := rgbG5 c (wr t (fmtNat c.b))
def rgbG3 (c : Rgb) (t : State) : State := rgbG4 c (wr t (fmtNat c.g))
def rgbG2 (c : Rgb) (t : State) : State := rgbG3 c (wr t (fmtNat c.r))
def rgbG1 (c : Rgb) (t : State) : State := rgbG2 c (writeArrayStart t)

theorem rgbT_eq (s : State) (c : Rgb) : rgbT s c = rgbG1 c (writeHeader s [114, 103, 98]) := rfl

theorem simAt_rgb (cap : Nat) (s : State) (c : Rgb) (hs : s.out.length ≤ cap) :
    SimAt cap s (writeRgbF cap c) (fun s => rgbT s c) := by
  have hraw := fun x => sim_raw cap x
  -- the tail: the optional alpha component and `write_end`
  have htail : ∀ t : State, t.depth ≠ [] → t.out.length ≤ cap →
      SimAt cap t (match c.a with
        | some a => .seq (writeUnquotedF cap (fmtNat a)) (writeEndF cap)
        | none => writeEndF cap) (rgbG5 c) := by
    intro t hd ht
    unfold rgbG5
    cases hca : c.a with
    | none =>
      obtain ⟨m, rest, hmr⟩ : ∃ m rest, t.depth = m :: rest := by
        cases h : t.depth with
        | nil => exact absurd h hd
        | cons m rest => exact ⟨m, rest, rfl⟩
      exact simAt_end cap t m rest hmr ht
    | some a =>
      refine simAt_seq_sim (f := fun t => wr t (fmtNat a)) (g := endT) (hraw (fmtNat a)) ht mono_endT (fun hfit => ?_)
      obtain ⟨m, rest, hmr⟩ : ∃ m rest, (wr t (fmtNat a)).depth = m :: rest := by
        rw [wr_depth]
        cases h : t.depth with
        | nil => exact absurd h hd
        | cons m rest => exact ⟨m, rest, rfl⟩
      exact simAt_end cap _ m rest hmr hfit
  have hm5 : Mono (rgbG5 c) := by
    unfold rgbG5
    cases c.a with
    | none => exact mono_endT
    | some a => exact mono_comp (f := fun t => wr t (fmtNat a)) (g := endT) (mono_wr (fmtNat a)) mono_endT
  have hm4 : Mono (rgbG4 c) := mono_comp (f := fun t => wr t (fmtNat c.b)) (g := rgbG5 c) (mono_wr (fmtNat c.b)) hm5
  have hm3 : Mono (rgbG3 c) := mono_comp (f := fun t => wr t (fmtNat c.g)) (g := rgbG4 c) (mono_wr (fmtNat c.g)) hm4
  have hm2 : Mono (rgbG2 c) := mono_comp (f := fun t => wr t (fmtNat c.r)) (g := rgbG3 c) (mono_wr (fmtNat c.r)) hm3
  have hm1 : Mono (rgbG1 c) := mono_comp (f := writeArrayStart) (g := rgbG2 c) (sim_arrayStart cap).1 hm2
  have hgoal : (fun s => rgbT s c) = fun s => rgbG1 c (writeHeader s [114, 103, 98]) := funext fun s => rgbT_eq s c
  rw [hgoal]
  unfold writeRgbF
  refine simAt_seq_sim (f := fun s => writeHeader s [114, 103, 98]) (g := rgbG1 c) (sim_header cap [114, 103, 98]) hs hm1 (fun h1 => ?_)
  refine simAt_seq_sim (f := writeArrayStart) (g := rgbG2 c) (sim_arrayStart cap) h1 hm2 (fun h2 => ?_)
  refine simAt_seq_sim (f := fun t => wr t (fmtNat c.r)) (g := rgbG3 c) (hraw (fmtNat c.r)) h2 hm3 (fun h3 => ?_)
  refine simAt_seq_sim (f := fun t => wr t (fmtNat c.g)) (g := rgbG4 c) (hraw (fmtNat c.g)) h3 hm4 (fun h4 => ?_)
  refine simAt_seq_sim (f := fun t => wr t (fmtNat c.b)) (g := rgbG5 c) (hraw (fmtNat c.b)) h4 hm5 (fun h5 => ?_)
  refine htail _ ?_ h5
  simp [wr_depth, writeArrayStart_depth]

/-! ### one call -/

/-- one call over the failing sink against the same call over an unlimited one -/
def StepRel (cap : Nat) (c : Call) (s : State) : Prop :=
  match step s c with
  | .error e => stepF cap c s = (.error e, s)
  | .ok s' =>
    (∃ w, s'.out = s.out ++ w) ∧ (s'.out.length ≤ cap → stepF cap c s = (.ok (), s')) ∧
      (cap < s'.out.length → (stepF cap c s).1 = .error .io ∧ (stepF cap c s).2.out = s'.out.take cap)

theorem rel_of_simAt {cap : Nat} {c : Call} {s : State} {mF : FM} {m : State → State}
    (hmono : ∃ w, (m s).out = s.out ++ w) (h : SimAt cap s mF m)
    (hstep : step s c = .ok (m s)) (hF : stepF cap c = mF) : StepRel cap c s := by
  unfold StepRel
  rw [hstep, hF]
  exact ⟨hmono, h.1, h.2⟩

theorem rel_of_sim {cap : Nat} {c : Call} {s : State} {mF : FM} {m : State → State} (h : Sim cap mF m)
    (hs : s.out.length ≤ cap) (hstep : step s c = .ok (m s)) (hF : stepF cap c = mF) : StepRel cap c s :=
  rel_of_simAt (h.1 s) (h.2 s hs) hstep hF

theorem rel_unq {cap : Nat} {c : Call} {s : State} (x : Bytes) (hs : s.out.length ≤ cap)
    (hstep : step s c = writeUnquoted s x) (hF : stepF cap c = writeUnquotedF cap x) : StepRel cap c s :=
  rel_of_sim (sim_raw cap x) hs (by rw [hstep]; exact wr_eq s x) hF

theorem rel_end (cap : Nat) (c : Call) (s : State) (hs : s.out.length ≤ cap) (hstep : step s c = writeEnd s)
    (hF : stepF cap c = writeEndF cap) : StepRel cap c s := by
  cases hd : s.depth with
  | nil =>
    unfold StepRel
    rw [hstep, hF, writeEndF_empty cap s hd]
    simp [writeEnd, hd]
  | cons m rest =>
    refine rel_of_simAt (m := endT) (mono_endT s) (simAt_end cap s m rest hd hs) ?_ hF
    rw [hstep]; exact (endT_of_depth s m rest hd).1

theorem rel_rgb (cap : Nat) (c : Call) (s : State) (col : Rgb) (hs : s.out.length ≤ cap)
    (hstep : step s c = writeRgb s col) (hF : stepF cap c = writeRgbF cap col) : StepRel cap c s := by
  refine rel_of_simAt (m := fun s => rgbT s col) ?_ (simAt_rgb cap s col hs) (by rw [hstep]; exact writeRgb_eq s col) hF
  -- the unlimited `write_rgb` only appends
  have hm5 : Mono (rgbG5 col) := by
    unfold rgbG5
    cases col.a with
    | none => exact mono_endT
    | some a => exact mono_comp (f := fun t => wr t (fmtNat a)) (g := endT) (mono_wr (fmtNat a)) mono_endT
  have hm4 : Mono (rgbG4 col) := mono_comp (f := fun t => wr t (fmtNat col.b)) (g := rgbG5 col) (mono_wr _) hm5
  have hm3 : Mono (rgbG3 col) := mono_comp (f := fun t => wr t (fmtNat col.g)) (g := rgbG4 col) (mono_wr _) hm4
  have hm2 : Mono (rgbG2 col) := mono_comp (f := fun t => wr t (fmtNat col.r)) (g := rgbG3 col) (mono_wr _) hm3
  have hm1 : Mono (rgbG1 col) := mono_comp (f := writeArrayStart) (g := rgbG2 col) (sim_arrayStart 0).1 hm2
  exact mono_comp (f := fun s => writeHeader s [114, 103, 98]) (g := rgbG1 col) (sim_header 0 _).1 hm1 s

theorem step_sim (cap : Nat) (c : Call) (s : State) (hs : s.out.length ≤ cap) : StepRel cap c s := by
  cases c with
  | start => exact rel_of_sim (sim_start cap) hs rfl rfl
  | objectStart => exact rel_of_sim (sim_objectStart cap) hs rfl rfl
  | arrayStart => exact rel_of_sim (sim_arrayStart cap) hs rfl rfl
  | «end» => exact rel_end cap _ s hs rfl rfl
  | mixedMode => exact rel_of_sim (sim_mixedMode cap) hs rfl rfl
  | unquoted b => exact rel_unq b hs rfl rfl
  | quoted b => exact rel_of_sim (sim_raw cap ([34] ++ escape b ++ [34])) hs (wr_eq s _) rfl
  | header b => exact rel_of_sim (sim_header cap b) hs rfl rfl
  | operator op => exact rel_of_sim (sim_operator cap op) hs rfl rfl
  | bool b => exact rel_unq _ hs rfl rfl
  | i32 i => exact rel_unq _ hs rfl rfl
  | u32 n => exact rel_unq _ hs rfl rfl
  | i64 i => exact rel_unq _ hs rfl rfl
  | u64 n => exact rel_unq _ hs rfl rfl
  | fmt t => exact rel_unq _ hs rfl rfl
  | date f y m d h => exact rel_unq _ hs rfl rfl
  | rgb col => exact rel_rgb cap _ s col hs rfl rfl
  | binary t =>
    cases t with
    | array => exact rel_of_sim (sim_arrayStart cap) hs rfl rfl
    | object => exact rel_of_sim (sim_objectStart cap) hs rfl rfl
    | mixedContainer => exact rel_of_sim (sim_mixedMode cap) hs rfl rfl
    | equal => exact rel_of_sim (sim_operator cap .eq) hs rfl rfl
    | «end» => exact rel_end cap _ s hs rfl rfl
    | bool b => exact rel_unq _ hs rfl rfl
    | u32 n => exact rel_unq _ hs rfl rfl
    | u64 n => exact rel_unq _ hs rfl rfl
    | i64 i => exact rel_unq _ hs rfl rfl
    | i32 i => exact rel_unq _ hs rfl rfl
    | quoted b => exact rel_of_sim (sim_raw cap ([34] ++ escape b ++ [34])) hs (wr_eq s _) rfl
    | unquoted b => exact rel_unq b hs rfl rfl
    | f32 t => exact rel_unq _ hs rfl rfl
    | f64 t => exact rel_unq _ hs rfl rfl
    | token id => exact rel_unq _ hs rfl rfl
    | rgb col => exact rel_rgb cap _ s col hs rfl rfl

/-! ### call lists -/

theorem step_mono (c : Call) (s s' : State) (h : step s c = .ok s') : ∃ w, s'.out = s.out ++ w := by
  have := step_sim s.out.length c s (Nat.le_refl _)
  unfold StepRel at this
  rw [h] at this
  exact this.1

theorem run_mono : ∀ (cs : List Call) (s : State), ∃ w, (run cs s).1.out = s.out ++ w
  | [], s => ⟨[], by simp [run]⟩
  | c :: cs, s => by
    simp only [run]
    cases h : step s c with
    | error e => simpa using run_mono cs s
    | ok s' =>
      obtain ⟨w1, h1⟩ := step_mono c s s' h
      obtain ⟨w2, h2⟩ := run_mono cs s'
      exact ⟨w1 ++ w2, by simp only []; rw [h2, h1, List.append_assoc]⟩

/-- the unlimited run never reports an I/O error or a panic -/
theorem run_rows_clean : ∀ (cs : List Call) (s : State), ∀ x ∈ (run cs s).2, x ≠ .error .io ∧ x ≠ .error .panic
  | [], s => by simp [run]
  | c :: cs, s => by
    simp only [run]
    cases h : step s c with
    | error e =>
      obtain ⟨he, _, _⟩ := step_error s c e h
      subst he
      intro x hx
      simp only [List.mem_cons] at hx
      rcases hx with rfl | hx
      · exact ⟨by simp, by simp⟩
      · exact run_rows_clean cs s x hx
    | ok s' =>
      intro x hx
      simp only [List.mem_cons] at hx
      rcases hx with rfl | hx
      · exact ⟨by simp, by simp⟩
      · exact run_rows_clean cs s' x hx

/-- once the sink is full nothing more reaches it, and no call panics — whatever state the failed
call left the writer in -/
theorem full_sink (cap : Nat) : ∀ (cs : List Call) (s : State), s.out.length = cap →
    (runSink cap cs s).1.out = s.out ∧ ∀ x ∈ (runSink cap cs s).2, x ≠ .error .panic ∧ x ≠ .error .fuel
  | [], s, _ => by simp [runSink]
  | c :: cs, s, hs => by
    have hrel := step_sim cap c s (by omega)
    unfold StepRel at hrel
    simp only [runSink]
    cases h : step s c with
    | error e =>
      rw [h] at hrel
      obtain ⟨he, _, _⟩ := step_error s c e h
      subst he
      rw [hrel]
      obtain ⟨i1, i2⟩ := full_sink cap cs s hs
      refine ⟨i1, fun x hx => ?_⟩
      simp only [List.mem_cons] at hx
      rcases hx with rfl | hx
      · exact ⟨by simp, by simp⟩
      · exact i2 x hx
    | ok s' =>
      rw [h] at hrel
      obtain ⟨⟨w, hw⟩, hfit, hover⟩ := hrel
      by_cases hl : s'.out.length ≤ cap
      · rw [hfit hl]
        have hw0 : w = [] := by
          have := congrArg List.length hw
          simp only [List.length_append] at this
          exact List.eq_nil_of_length_eq_zero (by omega)
        have hout : s'.out = s.out := by rw [hw, hw0, List.append_nil]
        obtain ⟨i1, i2⟩ := full_sink cap cs s' (by rw [hout]; exact hs)
        refine ⟨by simp only []; rw [i1, hout], fun x hx => ?_⟩
        simp only [List.mem_cons] at hx
        rcases hx with rfl | hx
        · exact ⟨by simp, by simp⟩
        · exact i2 x hx
      · obtain ⟨hr, ho⟩ := hover (by omega)
        cases hx : stepF cap c s with
        | mk r1 s1 =>
          rw [hx] at hr ho
          simp only at hr ho
          subst hr
          have hout : s1.out = s.out := by
            rw [ho, hw, List.take_append_of_le_length (by omega), List.take_of_length_le (by omega)]
          obtain ⟨i1, i2⟩ := full_sink cap cs s1 (by rw [hout]; exact hs)
          refine ⟨by simp only []; rw [i1, hout], fun x hx => ?_⟩
          simp only [List.mem_cons] at hx
          rcases hx with rfl | hx
          · exact ⟨by simp, by simp⟩
          · exact i2 x hx

/-- the run over the failing sink against the run over an unlimited one -/
theorem sink_run (cap : Nat) : ∀ (cs : List Call) (s : State), s.out.length ≤ cap →
    (runSink cap cs s).1.out = (run cs s).1.out.take cap ∧
    (∀ x ∈ (runSink cap cs s).2, x ≠ .error .panic ∧ x ≠ .error .fuel) ∧
    ((run cs s).1.out.length ≤ cap → runSink cap cs s = run cs s) ∧
    (cap < (run cs s).1.out.length → ∃ k, k < cs.length ∧
      runSink cap (cs.take k) s = run (cs.take k) s ∧
      (runSink cap cs s).2.take k = (run cs s).2.take k ∧
      (runSink cap cs s).2[k]? = some (.error .io))
  | [], s, hs => by
    simp only [runSink, run, List.take_of_length_le hs, List.not_mem_nil, false_imp_iff, implies_true, true_and]
    intro h; omega
  | c :: cs, s, hs => by
    have hrel := step_sim cap c s hs
    unfold StepRel at hrel
    cases h : step s c with
    | error e =>
      rw [h] at hrel
      obtain ⟨he, _, _⟩ := step_error s c e h
      subst he
      obtain ⟨i1, i2, i3, i4⟩ := sink_run cap cs s hs
      simp only [runSink, run, h, hrel]
      refine ⟨i1, fun x hx => ?_, fun hl => ?_, fun hl => ?_⟩
      · simp only [List.mem_cons] at hx
        rcases hx with rfl | hx
        · exact ⟨by simp, by simp⟩
        · exact i2 x hx
      · rw [i3 hl]
      · obtain ⟨k, hk, e1, e2, e3⟩ := i4 hl
        refine ⟨k + 1, by simp; omega, ?_, ?_, ?_⟩
        · simp only [List.take_succ_cons, runSink, run, h, hrel, e1]
        · simp only [List.take_succ_cons, e2]
        · simpa using e3
    | ok s' =>
      rw [h] at hrel
      obtain ⟨⟨w, hw⟩, hfit, hover⟩ := hrel
      by_cases hl' : s'.out.length ≤ cap
      · obtain ⟨i1, i2, i3, i4⟩ := sink_run cap cs s' hl'
        simp only [runSink, run, h, hfit hl']
        refine ⟨i1, fun x hx => ?_, fun hl => ?_, fun hl => ?_⟩
        · simp only [List.mem_cons] at hx
          rcases hx with rfl | hx
          · exact ⟨by simp, by simp⟩
          · exact i2 x hx
        · rw [i3 hl]
        · obtain ⟨k, hk, e1, e2, e3⟩ := i4 hl
          refine ⟨k + 1, by simp; omega, ?_, ?_, ?_⟩
          · simp only [List.take_succ_cons, runSink, run, h, hfit hl', e1]
          · simp only [List.take_succ_cons, e2]
          · simpa using e3
      · obtain ⟨hr, ho⟩ := hover (by omega)
        obtain ⟨w2, hw2⟩ := run_mono cs s'
        cases hx : stepF cap c s with
        | mk r1 s1 =>
          rw [hx] at hr ho
          simp only at hr ho
          subst hr
          have hlen1 : s1.out.length = cap := by rw [ho, List.length_take]; omega
          obtain ⟨f1, f2⟩ := full_sink cap cs s1 hlen1
          simp only [runSink, run, h, hx]
          refine ⟨?_, fun x hx' => ?_, fun hl => ?_, fun _ => ⟨0, by simp, by simp [runSink, run], by simp, by simp⟩⟩
          · rw [f1, ho, hw2, List.take_append_of_le_length (by omega)]
          · simp only [List.mem_cons] at hx'
            rcases hx' with rfl | hx'
            · exact ⟨by simp, by simp⟩
            · exact f2 x hx'
          · rw [hw2, List.length_append] at hl; omega

/-! ### `write_tape` over the failing sink -/

def MonoE (m : State → Except WErr State) : Prop := ∀ s s', m s = .ok s' → ∃ w, s'.out = s.out ++ w

/-- `SimAt` for steps that may fail on their own (panic / fuel / `StackEmpty`): only successful unlimited
steps are claimed -/
def SimE (cap : Nat) (mF : FM) (m : State → Except WErr State) : Prop :=
  MonoE m ∧ ∀ s s', s.out.length ≤ cap → m s = .ok s' →
    (s'.out.length ≤ cap → mF s = (.ok (), s')) ∧
    (cap < s'.out.length → (mF s).1 = .error .io ∧ (mF s).2.out = s'.out.take cap)

theorem simE_congr {cap : Nat} {mF : FM} {m m' : State → Except WErr State} (h : SimE cap mF m)
    (he : ∀ s, m s = m' s) : SimE cap mF m' := by
  have : m = m' := funext he
  rw [← this]; exact h

theorem simE_of_sim {cap : Nat} {mF : FM} {m : State → State} (h : Sim cap mF m) :
    SimE cap mF (fun s => .ok (m s)) := by
  refine ⟨fun s s' hs => ?_, fun s s' hl hs => ?_⟩
  · cases hs; exact h.1 s
  · cases hs; exact h.2 s hl

theorem simE_fail (cap : Nat) (e : WErr) : SimE cap (failF e) (fun _ => .error e) :=
  ⟨fun _ _ h => by simp at h, fun _ _ _ h => by simp at h⟩

theorem simE_ok (cap : Nat) : SimE cap .ok (fun s => .ok s) := simE_of_sim (sim_ok cap)

theorem simE_bind {cap : Nat} {a b : FM} {f g : State → Except WErr State} (ha : SimE cap a f) (hb : SimE cap b g) :
    SimE cap (.seq a b) (fun s => bindE (f s) g) := by
  refine ⟨fun s s' hs => ?_, fun s s' hl hs => ?_⟩
  · simp only [] at hs
    cases hf : f s with
    | error e => rw [hf] at hs; cases hs
    | ok s1 =>
      rw [hf] at hs
      obtain ⟨w1, h1⟩ := ha.1 s s1 hf
      obtain ⟨w2, h2⟩ := hb.1 s1 s' hs
      exact ⟨w1 ++ w2, by rw [h2, h1, List.append_assoc]⟩
  · simp only [] at hs
    cases hf : f s with
    | error e => rw [hf] at hs; cases hs
    | ok s1 =>
      rw [hf] at hs
      have hs' : g s1 = .ok s' := hs
      obtain ⟨w2, h2⟩ := hb.1 s1 s' hs'
      obtain ⟨a1, a2⟩ := ha.2 s s1 hl hf
      by_cases hfit : s1.out.length ≤ cap
      · obtain ⟨b1, b2⟩ := hb.2 s1 s' hfit hs'
        have e1 := a1 hfit
        exact ⟨fun h => by simp only [FM.seq, e1]; exact b1 h, fun h => by simp only [FM.seq, e1]; exact b2 h⟩
      · obtain ⟨r1, r2⟩ := a2 (by omega)
        refine ⟨fun h => by rw [h2, List.length_append] at h; omega, fun _ => ?_⟩
        have hres : FM.seq a b s = a s := by
          simp only [FM.seq]
          cases hx : a s with
          | mk r t =>
            rw [hx] at r1
            cases r with
            | ok u => simp at r1
            | error e => rfl
        rw [hres, h2]
        exact ⟨r1, by rw [r2, List.take_append_of_le_length (by omega)]⟩

theorem simE_dep {cap : Nat} {k : State → FM} {m : State → State → Except WErr State}
    (h : ∀ s0, SimE cap (k s0) (m s0)) : SimE cap (.dep k) (fun s => m s s) :=
  ⟨fun s s' hs => (h s).1 s s' hs, fun s s' hl hs => (h s).2 s s' hl hs⟩

theorem simE_end (cap : Nat) : SimE cap (writeEndF cap) writeEnd := by
  refine ⟨fun s s' hs => ?_, fun s s' hl hs => ?_⟩
  · have := mono_endT s
    simp only [endT, hs] at this
    exact this
  · cases hd : s.depth with
    | nil => simp [writeEnd, hd] at hs
    | cons m rest =>
      have h1 := (endT_of_depth s m rest hd).1
      rw [hs] at h1
      cases h1
      exact simAt_end cap s m rest hd hl

theorem simE_raw (cap : Nat) (x : Bytes) : SimE cap (writeUnquotedF cap x) (fun s => writeUnquoted s x) :=
  simE_congr (simE_of_sim (sim_raw cap x)) (fun s => (wr_eq s x).symm)

theorem simE_escaped (cap : Nat) (x : Bytes) : SimE cap (writeEscapedQuotesF cap x) (fun s => writeEscapedQuotes s x) :=
  simE_congr (simE_of_sim (sim_raw cap ([34] ++ x ++ [34]))) (fun s => (wr_eq s _).symm)

end Jomini.Writer
