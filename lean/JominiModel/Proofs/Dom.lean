import JominiModel.Model.Dom
/-
Helper lemmas for C17 (`Props/C17.lean`): index arithmetic of the DOM readers.
-/
namespace Jomini.Dom
open Jomini

/-- every container's `end` lies after the container and inside the tape -/
def FwdLinks (t : Tape) : Prop :=
  ∀ i tok e, t[i]? = some tok → tok.containerEnd? = some e → i < e ∧ e < t.size

/-! ### values -/

theorem nextIdxValuesTok_gt (t : Tape) (h : FwdLinks t) (i : Nat) (tok : TTok) (ht : t[i]? = some tok) :
    i < nextIdxValuesTok i tok := by
  cases tok <;> simp [nextIdxValuesTok]
  · exact Nat.lt_succ_of_lt (h i _ _ ht rfl).1
  · exact Nat.lt_succ_of_lt (h i _ _ ht rfl).1

theorem valuesF_spec (t : Tape) (h : FwdLinks t) (e : Nat) (he : e ≤ t.size) :
    ∀ f ind count, e - ind < f →
      ∃ vs, valuesF f t ind e = .ok vs ∧ valuesLenF f t ind e count = .ok (count + vs.length) := by
  intro f
  induction f with
  | zero => intro ind count hf; omega
  | succ f ih =>
    intro ind count hf
    by_cases hlt : ind < e
    · have hsz : ind < t.size := by omega
      have hget : t[ind]? = some t[ind] := by simp [hsz]
      have hgt := nextIdxValuesTok_gt t h ind t[ind] hget
      obtain ⟨vs, h1, h2⟩ := ih (nextIdxValuesTok ind t[ind]) (count + 1) (by omega)
      refine ⟨ind :: vs, ?_, ?_⟩
      · simp [valuesF, hlt, nextIdxValues, hget, h1]
      · simp [valuesLenF, hlt, nextIdxValues, hget, h2]; omega
    · exact ⟨[], by simp [valuesF, hlt], by simp [valuesLenF, hlt]⟩


/-! ### objects -/

theorem getElem?_lt {t : Tape} {v : Nat} {tok : TTok} (h : t[v]? = some tok) : v < t.size :=
  (Array.getElem?_eq_some_iff.mp h).1

theorem nextIdxF_of_valueNext (t : Tape) (v e n : Nat) (h : valueNext t v e = some n) (f : Nat) :
    nextIdxF (f + 1) t v = .ok n := by
  unfold valueNext at h
  rw [nextIdxF]
  cases hv : t[v]? with
  | none => simp [hv] at h
  | some tok =>
    cases tok <;> simp [hv] at h <;> simp
    · exact h.2
    · exact h.2
    · exact h
    · exact h
    · exact h
    · exact h
    · rename_i b
      cases hv1 : t[v + 1]? with
      | none => simp [hv1] at h
      | some tok1 =>
        cases tok1 <;> simp [hv1] at h <;> simp [nextIdxHeader, hv1, nextIdxHeaderTok]
        · exact h.2
        · exact h.2

theorem nextIdx_of_valueNext (t : Tape) (v e n : Nat) (h : valueNext t v e = some n) :
    nextIdx t v = .ok n :=
  nextIdxF_of_valueNext t v e n h t.size

theorem valueNext_bounds (t : Tape) (v e n : Nat) (h : valueNext t v e = some n) (hve : v < e) :
    v < n ∧ n ≤ e ∧ v < t.size := by
  unfold valueNext at h
  cases hv : t[v]? with
  | none => simp [hv] at h
  | some tok =>
    have hsz := getElem?_lt hv
    cases tok <;> simp [hv] at h
    all_goals try omega
    · rename_i b
      cases hv1 : t[v + 1]? with
      | none => simp [hv1] at h
      | some tok1 =>
        cases tok1 <;> simp [hv1] at h <;> omega


/-- where a regular object walk may stop: exactly at the end of the range, or at a
`MixedContainer` token inside it -/
def StopsAt (t : Tape) (e q : Nat) : Prop := q = e ∨ (q < e ∧ t[q]? = some .mixedContainer)

/-- facts about an item yielded by `FieldsIter` on a regular object -/
def FieldOk (t : Tape) (e : Nat) (fl : Field) : Prop :=
  t[fl.keyIdx]? = some fl.key ∧ fl.key.keyScalar? = some fl.keyBytes ∧
  fl.keyIdx < fl.valueIdx ∧ fl.valueIdx < e ∧ fl.valueIdx < t.size

theorem objWalkF_spec (t : Tape) (e : Nat) :
    ∀ f p q count, objWalkF f t p e = some q →
      ∃ fs, fieldsF f t p e = .ok (fs, q) ∧ fieldsLenF f t p e count = .ok (count + fs.length) ∧
        StopsAt t e q ∧ p ≤ q ∧ ∀ fl ∈ fs, FieldOk t e fl ∧ p ≤ fl.keyIdx := by
  intro f
  induction f with
  | zero => intro p q count h; simp [objWalkF] at h
  | succ f ih =>
    intro p q count h
    rw [objWalkF] at h
    by_cases hpe : p ≥ e
    · simp only [hpe, if_true] at h
      by_cases hpe' : p = e
      · simp [hpe'] at h
        subst hpe' h
        exact ⟨[], by simp [fieldsF, fieldsNext], by simp [fieldsLenF], Or.inl rfl, Nat.le_refl _, by simp⟩
      · simp [hpe'] at h
    · simp only [hpe, if_false] at h
      have hlt : p < e := by omega
      cases hk : t[p]? with
      | none => simp [hk] at h
      | some k =>
        simp only [hk] at h
        by_cases hm : k = .mixedContainer
        · simp [hm] at h
          subst h hm
          refine ⟨[], ?_, ?_, Or.inr ⟨hlt, hk⟩, Nat.le_refl _, by simp⟩
          · simp [fieldsF, fieldsNext, hpe, hk, TTok.keyScalar?]
          · simp [fieldsLenF, hlt, hk]
        · simp only [hm, if_false] at h
          cases hks : k.keyScalar? with
          | none => simp [hks] at h
          | some kb =>
            simp only [hks] at h
            cases hnx : t[p + 1]? with
            | none => simp [hnx] at h
            | some nx =>
              simp only [hnx] at h
              by_cases hv : (opValueOf p nx).2 < e
              · simp only [hv, if_true] at h
                cases hvn : valueNext t (opValueOf p nx).2 e with
                | none => simp [hvn] at h
                | some n =>
                  simp only [hvn] at h
                  have hni := nextIdx_of_valueNext t _ e n hvn
                  have hb := valueNext_bounds t _ e n hvn hv
                  have hpv : p < (opValueOf p nx).2 := by
                    cases nx <;> simp [opValueOf]
                  obtain ⟨fs, h1, h2, h3, h4, h5⟩ := ih n q (count + 1) h
                  refine ⟨⟨p, k, kb, (opValueOf p nx).1, (opValueOf p nx).2⟩ :: fs, ?_, ?_, h3, by omega, ?_⟩
                  · simp [fieldsF, fieldsNext, hpe, hk, hks, hnx, hni, h1]
                  · simp [fieldsLenF, hlt, hk, hm, hnx, hni, h2]; omega
                  · intro fl hfl
                    rcases List.mem_cons.mp hfl with rfl | hfl
                    · exact ⟨⟨hk, hks, hpv, hv, hb.2.2⟩, Nat.le_refl _⟩
                    · have := h5 fl hfl
                      exact ⟨this.1, by omega⟩
              · simp [hv] at h


theorem objWalkF_mono (t : Tape) (e : Nat) : ∀ f p q, objWalkF f t p e = some q → objWalkF (f + 1) t p e = some q := by
  intro f
  induction f with
  | zero => intro p q h; simp [objWalkF] at h
  | succ f ih =>
    intro p q h
    rw [objWalkF] at h ⊢
    split
    · simpa [*] using h
    · rename_i hpe
      simp only [hpe, if_false] at h
      split
      · simp_all
      · rename_i k hk
        simp only [hk] at h
        split
        · simpa [*] using h
        · rename_i hm
          simp only [hm, if_false] at h
          split
          · simp_all
          · rename_i kb hkb
            simp only [hkb] at h
            split
            · simp_all
            · rename_i nx hnx
              simp only [hnx] at h
              split
              · rename_i hv
                simp only [hv, if_true] at h
                split
                · rename_i n hn
                  simp only [hn] at h
                  exact ih _ _ h
                · simp_all
              · simp_all


theorem linksOkF_get (t : Tape) : ∀ (l : List TTok) (k j : Nat) (tok : TTok),
    linksOkF t k l = true → l[j]? = some tok → linkOkAt t (k + j) tok = true := by
  intro l
  induction l with
  | nil => intro k j tok _ h; simp at h
  | cons a l ih =>
    intro k j tok h hj
    simp only [linksOkF, Bool.and_eq_true] at h
    cases j with
    | zero => simp at hj; subst hj; simpa using h.1
    | succ j =>
      simp at hj
      have := ih (k + 1) j tok h.2 hj
      rwa [Nat.add_assoc, Nat.add_comm 1 j] at this

theorem linkOk_of_wf (t : Tape) (h : linksOk t = true) (i : Nat) (tok : TTok) (hi : t[i]? = some tok) :
    linkOkAt t i tok = true := by
  have := linksOkF_get t t.toList 0 i tok h (by simpa using hi)
  simpa using this

theorem fwdLinks_of_linksOk (t : Tape) (h : linksOk t = true) : FwdLinks t := by
  intro i tok e hi he
  have hl := linkOk_of_wf t h i tok hi
  cases tok <;> simp [TTok.containerEnd?] at he
  all_goals
    subst he
    simp only [linkOkAt, Bool.and_eq_true, decide_eq_true_eq, beq_iff_eq] at hl
    exact ⟨hl.1.1, getElem?_lt hl.2⟩

theorem end_of_linksOk (t : Tape) (h : linksOk t = true) (i e : Nat) (tok : TTok) (hi : t[i]? = some tok)
    (he : tok.containerEnd? = some e) : t[e]? = some (.end_ i) := by
  have hl := linkOk_of_wf t h i tok hi
  cases tok <;> simp [TTok.containerEnd?] at he
  all_goals
    subst he
    simp only [linkOkAt, Bool.and_eq_true, decide_eq_true_eq, beq_iff_eq] at hl
    exact hl.2

theorem objectsOkF_get (t : Tape) : ∀ (l : List TTok) (k j e : Nat) (m : Bool),
    objectsOkF t k l = true → l[j]? = some (.object e m) →
      ∃ q, objWalk t (k + j + 1) e = some q ∧ (m = true → q < e) := by
  intro l
  induction l with
  | nil => intro k j e m _ h; simp at h
  | cons a l ih =>
    intro k j e m h hj
    simp only [objectsOkF, Bool.and_eq_true] at h
    cases j with
    | zero =>
      simp at hj; subst hj
      have h1 := h.1
      simp only at h1
      cases hw : objWalk t (k + 1) e with
      | none => simp [hw] at h1
      | some q =>
        simp [hw] at h1
        refine ⟨q, by simpa using hw, ?_⟩
        intro hm
        rcases h1 with h1 | h1
        · simp [hm] at h1
        · exact h1
    | succ j =>
      simp at hj
      obtain ⟨q, h1, h2⟩ := ih (k + 1) j e m h.2 hj
      refine ⟨q, ?_, h2⟩
      have : k + (j + 1) + 1 = k + 1 + j + 1 := by omega
      rw [this]; exact h1


theorem objWalkF_step (t : Tape) (e : Nat) (f p q n : Nat) (fld : Field)
    (h : objWalkF (f + 1) t p e = some q) (hn : fieldsNext t p e = .ok (some (fld, n))) :
    objWalkF f t n e = some q := by
  rw [objWalkF] at h
  unfold fieldsNext at hn
  by_cases hpe : p ≥ e
  · simp [hpe] at hn
  · simp only [hpe, if_false] at h hn
    cases hk : t[p]? with
    | none => simp [hk] at h
    | some k =>
      simp only [hk] at h hn
      by_cases hm : k = .mixedContainer
      · subst hm; simp [TTok.keyScalar?] at hn
      · simp only [hm, if_false] at h
        cases hks : k.keyScalar? with
        | none => simp [hks] at h
        | some kb =>
          simp only [hks] at h hn
          cases hnx : t[p + 1]? with
          | none => simp [hnx] at h
          | some nx =>
            simp only [hnx] at h hn
            by_cases hv : (opValueOf p nx).2 < e
            · simp only [hv, if_true] at h
              cases hvn : valueNext t (opValueOf p nx).2 e with
              | none => simp [hvn] at h
              | some n' =>
                simp only [hvn] at h
                have hni := nextIdx_of_valueNext t _ e n' hvn
                simp [hni] at hn
                rw [← hn.2]; exact h
            · simp [hv] at h

/-- `remainder` after a regular object walk that stopped at a `MixedContainer` token -/
theorem remainder_mixed (t : Tape) (e q : Nat) (h : t[q]? = some .mixedContainer) :
    remainder t q e = (q + 1, e) := by
  simp [remainder, h]

theorem remainder_root (t : Tape) : remainder t t.size t.size = (t.size, t.size) := by
  simp [remainder]

theorem remainder_object (t : Tape) (vi e : Nat) (m : Bool) (hv : t[vi]? = some (.object e m))
    (he : t[e]? = some (.end_ vi)) : remainder t e e = (e, e) := by
  simp [remainder, he, hv]

theorem remainder_array (t : Tape) (vi e : Nat) (m : Bool) (hv : t[vi]? = some (.array e m))
    (he : t[e]? = some (.end_ vi)) : remainder t e e = (vi + 1, e) := by
  simp [remainder, he, hv]

/-- the `while` loop of `read_array` on an object flagged `mixed` finds the `MixedContainer` at
which the fields stop -/
theorem mixedStartF_spec (t : Tape) (e : Nat) : ∀ fw p q, objWalkF fw t p e = some q →
    t[q]? = some .mixedContainer → ∀ f, q - p < f → mixedStartF f t p = .ok q := by
  intro fw
  induction fw with
  | zero => intro p q h; simp [objWalkF] at h
  | succ fw ih =>
    intro p q h hq f hf
    rw [objWalkF] at h
    by_cases hpe : p ≥ e
    · simp only [hpe, if_true] at h
      by_cases hpe' : p = e
      · simp [hpe'] at h; subst hpe' h
        cases f with
        | zero => omega
        | succ f => simp [mixedStartF, hq]
      · simp [hpe'] at h
    · simp only [hpe, if_false] at h
      cases hk : t[p]? with
      | none => simp [hk] at h
      | some k =>
        simp only [hk] at h
        by_cases hm : k = .mixedContainer
        · simp [hm] at h; subst h
          cases f with
          | zero => omega
          | succ f => simp [mixedStartF, hq]
        · simp only [hm, if_false] at h
          cases hks : k.keyScalar? with
          | none => simp [hks] at h
          | some kb =>
            simp only [hks] at h
            cases hnx : t[p + 1]? with
            | none => simp [hnx] at h
            | some nx =>
              simp only [hnx] at h
              by_cases hv : (opValueOf p nx).2 < e
              · simp only [hv, if_true] at h
                cases hvn : valueNext t (opValueOf p nx).2 e with
                | none => simp [hvn] at h
                | some n =>
                  simp only [hvn] at h
                  have hni := nextIdx_of_valueNext t _ e n hvn
                  have hb := valueNext_bounds t _ e n hvn hv
                  obtain ⟨_, _, _, _, hpq, _⟩ := objWalkF_spec t e fw n q 0 h
                  -- first iteration: the key
                  have hkey : nextIdx t p = .ok (p + 1) := by
                    unfold nextIdx fuelOf; rw [nextIdxF]
                    cases k <;> simp [TTok.keyScalar?] at hks <;> simp [hk]
                  have hkne : ¬ (t[p]? = some .mixedContainer) := by
                    rw [hk]; intro hc; exact hm (Option.some.inj hc)
                  -- second iteration: [op] value
                  have hsz : p + 1 < t.size := getElem?_lt hnx
                  have hval : nextIdx t (p + 1) = .ok n := by
                    cases hsz' : t.size with
                    | zero => omega
                    | succ sz =>
                      cases nx <;> simp [opValueOf] at hni hvn ⊢ <;> try exact hni
                      · unfold nextIdx fuelOf
                        rw [nextIdxF]
                        simp only [hnx, hsz']
                        exact nextIdxF_of_valueNext t _ e n hvn sz
                  have hvne : ¬ (t[p + 1]? = some .mixedContainer) := by
                    intro hc
                    rw [hnx] at hc
                    have := Option.some.inj hc
                    subst this
                    simp [opValueOf, valueNext, hnx] at hvn
                  have hpv : p < (opValueOf p nx).2 := by
                    cases nx <;> simp [opValueOf]
                  cases f with
                  | zero => omega
                  | succ f =>
                    cases f with
                    | zero => omega
                    | succ f =>
                      rw [mixedStartF]
                      simp only [hkne, if_false, hkey]
                      rw [mixedStartF]
                      simp only [hvne, if_false, hval]
                      exact ih n q h hq f (by omega)
              · simp [hv] at h

end Jomini.Dom
