import JominiModel.Model.BinTape
/-
C06 (binary half): the declarative structural-soundness predicate `WfBinTape` of a binary tape
and the soundness + completeness of the executable one-pass checker `wfBinTape`.
-/
namespace Jomini.BinTape
open Jomini

/-- `Items s seg`: the token list `seg`, sitting at tape indices `s, s+1, …`, is a sequence of
complete items: a plain token, or a container — a start token at index `i ≠ 0` whose payload is
the index `e` of its own `End`, a sequence of complete items, and at index `e` the token `End i`.
Proper nesting is built in; the index arithmetic pins every `end`/`End` payload. -/
inductive Items : Nat → Tape → Prop
  | nil (s : Nat) : Items s []
  | plain (s : Nat) (t : BTok) (rest : Tape) : t.isPlain = true → Items (s + 1) rest → Items s (t :: rest)
  | cont (s e : Nat) (t : BTok) (inner rest : Tape) :
      s ≠ 0 → (t = .array e ∨ t = .object e) → e = s + 1 + inner.length →
      Items (s + 1) inner → Items (e + 1) rest → Items s (t :: (inner ++ .end_ s :: rest))

/-- **Declarative structural soundness of a binary tape** (property C06): the whole tape, from
index 0, is a sequence of complete items.  Hence every container start indexes a later `End` that
indexes it back, containers are properly nested, and no container / `End` carries index 0
(`Items.cont` demands `s ≠ 0`, and `e > s`). -/
def WfBinTape (toks : Tape) : Prop := Items 0 toks

/-- what is left to read, given the stack of open containers `(opener, declared end)` -/
def Decomp : Nat → Tape → List (Nat × Nat) → Prop
  | i, l, [] => Items i l
  | i, l, (o, e) :: S =>
    ∃ seg rest, l = seg ++ .end_ o :: rest ∧ Items i seg ∧ e = i + seg.length ∧ Decomp (e + 1) rest S

theorem decomp_plain {i : Nat} {t : BTok} {rest : Tape} {S : List (Nat × Nat)} (ht : t.isPlain = true)
    (h : Decomp (i + 1) rest S) : Decomp i (t :: rest) S := by
  cases S with
  | nil => exact Items.plain i t rest ht h
  | cons p S' =>
    obtain ⟨o, e⟩ := p
    obtain ⟨seg, rest', rfl, hseg, he, hd⟩ := h
    exact ⟨t :: seg, rest', rfl, Items.plain i t seg ht hseg, by simp; omega, hd⟩

theorem decomp_start {i e : Nat} {t : BTok} {rest : Tape} {S : List (Nat × Nat)} (hi : i ≠ 0)
    (ht : t = .array e ∨ t = .object e) (h : Decomp (i + 1) rest ((i, e) :: S)) : Decomp i (t :: rest) S := by
  obtain ⟨inner, rest', rfl, hinner, he, hd⟩ := h
  cases S with
  | nil => exact Items.cont i e t inner rest' hi ht (by omega) hinner hd
  | cons p S' =>
    obtain ⟨o, pe⟩ := p
    obtain ⟨seg2, rest2, rfl, hseg2, hpe, hd2⟩ := hd
    refine ⟨t :: (inner ++ .end_ i :: seg2), rest2, by simp, ?_, by simp; omega, hd2⟩
    exact Items.cont i e t inner seg2 hi ht (by omega) hinner hseg2

/-- the checker is sound: acceptance yields the decomposition along the stack -/
theorem wfGo_sound : ∀ (l : Tape) (i n : Nat) (S : List (Nat × Nat)), wfGo l i n S = true → Decomp i l S := by
  intro l
  induction l with
  | nil =>
    intro i n S h
    cases S with
    | nil => exact Items.nil i
    | cons p S' => simp [wfGo] at h
  | cons t rest ih =>
    intro i n S h
    cases t with
    | array e =>
      simp only [wfGo, Bool.and_eq_true, bne_iff_ne, ne_eq, decide_eq_true_eq] at h
      exact decomp_start h.1.1.1.1 (Or.inl rfl) (ih _ _ _ h.2)
    | object e =>
      simp only [wfGo, Bool.and_eq_true, bne_iff_ne, ne_eq, decide_eq_true_eq] at h
      exact decomp_start h.1.1.1.1 (Or.inr rfl) (ih _ _ _ h.2)
    | end_ idx =>
      cases S with
      | nil => simp [wfGo] at h
      | cons p S' =>
        obtain ⟨o, e⟩ := p
        simp only [wfGo, Bool.and_eq_true, bne_iff_ne, ne_eq, beq_iff_eq] at h
        obtain ⟨⟨⟨_, ho⟩, he⟩, hgo⟩ := h
        subst ho; subst he
        exact ⟨[], rest, rfl, Items.nil _, by simp, ih _ _ _ hgo⟩
    | mixed => exact decomp_plain rfl (ih _ _ _ (by simpa [wfGo] using h))
    | equal => exact decomp_plain rfl (ih _ _ _ (by simpa [wfGo] using h))
    | bool b => exact decomp_plain rfl (ih _ _ _ (by simpa [wfGo] using h))
    | u32 v => exact decomp_plain rfl (ih _ _ _ (by simpa [wfGo] using h))
    | u64 v => exact decomp_plain rfl (ih _ _ _ (by simpa [wfGo] using h))
    | i64 v => exact decomp_plain rfl (ih _ _ _ (by simpa [wfGo] using h))
    | i32 v => exact decomp_plain rfl (ih _ _ _ (by simpa [wfGo] using h))
    | quoted b => exact decomp_plain rfl (ih _ _ _ (by simpa [wfGo] using h))
    | unquoted b => exact decomp_plain rfl (ih _ _ _ (by simpa [wfGo] using h))
    | f32 b => exact decomp_plain rfl (ih _ _ _ (by simpa [wfGo] using h))
    | f64 b => exact decomp_plain rfl (ih _ _ _ (by simpa [wfGo] using h))
    | token id => exact decomp_plain rfl (ih _ _ _ (by simpa [wfGo] using h))
    | rgb r g b a => exact decomp_plain rfl (ih _ _ _ (by simpa [wfGo] using h))

theorem wfGo_plain {t : BTok} (ht : t.isPlain = true) (rest : Tape) (i n : Nat) (S : List (Nat × Nat)) :
    wfGo (t :: rest) i n S = wfGo rest (i + 1) n S := by
  cases t <;> first | rfl | (simp [BTok.isPlain] at ht)

/-- the checker is complete: a sequence of complete items is skipped by the pass, whatever
follows, provided it fits below the end declared by the innermost open container -/
theorem items_go {s : Nat} {seg : Tape} (h : Items s seg) :
    ∀ (rest : Tape) (n : Nat) (S : List (Nat × Nat)), s + seg.length ≤ n →
      (∀ o pe S', S = (o, pe) :: S' → s + seg.length ≤ pe) →
      wfGo (seg ++ rest) s n S = wfGo rest (s + seg.length) n S := by
  induction h with
  | nil s => intro rest n S _ _; simp
  | plain s t rest' ht _ ih =>
    intro rest n S hn hS
    simp only [List.cons_append, wfGo_plain ht, List.length_cons] at hn hS ⊢
    rw [ih rest n S (by omega) (by intro o pe S' h; have := hS o pe S' h; omega)]
    congr 1; omega
  | cont s e t inner rest' hs ht he _ _ ihi ihr =>
    intro rest n S hn hS
    simp only [List.length_cons, List.length_append] at hn hS
    have e1 : wfGo (t :: (inner ++ .end_ s :: rest') ++ rest) s n S
        = wfGo (inner ++ (.end_ s :: (rest' ++ rest))) (s + 1) n ((s, e) :: S) := by
      cases S with
      | nil =>
        rcases ht with rfl | rfl <;>
          simp [wfGo, hs, show s < e by omega, show e < n by omega]
      | cons p S' =>
        obtain ⟨o, pe⟩ := p
        have := hS o pe S' rfl
        rcases ht with rfl | rfl <;>
          simp [wfGo, hs, show s < e by omega, show e < n by omega, show e < pe by omega]
    rw [e1, ihi _ n ((s, e) :: S) (by omega) (by intro o pe S' h; cases h; omega)]
    have e2 : wfGo (.end_ s :: (rest' ++ rest)) (s + 1 + inner.length) n ((s, e) :: S)
        = wfGo (rest' ++ rest) (e + 1) n S := by
      simp [wfGo, hs, he]
    rw [e2, ihr rest n S (by omega) (by intro o pe S' h; have := hS o pe S' h; omega)]
    congr 1; simp; omega

/-- **C06, checker soundness and completeness**: the executable one-pass checker decides exactly
the declarative predicate. -/
theorem wfBinTape_iff (input : Bytes) (toks : Tape) : wfBinTape input toks = true ↔ WfBinTape toks := by
  constructor
  · intro h; exact wfGo_sound toks 0 toks.length [] h
  · intro h
    have := items_go h [] toks.length [] (by simp) (by intro o pe S' h; cases h)
    simp only [List.append_nil, Nat.zero_add] at this
    simp [wfBinTape, this, wfGo]

/-! ## index form -/

/-- index form of `Items`: every container start inside a sequence of complete items (sitting at
tape index `s`) points to a later `End` inside the sequence that points back to it. -/
theorem Items.start_link {s : Nat} {seg : Tape} (h : Items s seg) :
    ∀ (k e : Nat), (seg[k]? = some (.array e) ∨ seg[k]? = some (.object e)) →
      s + k ≠ 0 ∧ s + k < e ∧ e < s + seg.length ∧ seg[e - s]? = some (.end_ (s + k)) := by
  induction h with
  | nil s => intro k e h; simp at h
  | plain s t rest ht _ ih =>
    intro k e h
    cases k with
    | zero => rcases h with h | h <;> (simp at h; subst h; simp [BTok.isPlain] at ht)
    | succ k' =>
      simp only [List.getElem?_cons_succ] at h
      obtain ⟨h1, h2, h3, h4⟩ := ih k' e h
      refine ⟨by omega, by omega, by simp; omega, ?_⟩
      have : e - s = (e - (s + 1)) + 1 := by omega
      rw [this, List.getElem?_cons_succ, h4]
      congr 2; omega
  | cont s e0 t inner rest hs ht he _ _ ihi ihr =>
    intro k e h
    cases k with
    | zero =>
      have hee : e = e0 := by
        rcases ht with rfl | rfl <;> rcases h with h | h <;> simp at h <;> exact h.symm
      subst hee
      refine ⟨by omega, by omega, by simp; omega, ?_⟩
      have : e - s = inner.length + 1 := by omega
      rw [this, List.getElem?_cons_succ, List.getElem?_append_right (Nat.le_refl _)]
      simp
    | succ k' =>
      simp only [List.getElem?_cons_succ] at h
      rcases Nat.lt_trichotomy k' inner.length with hlt | heq | hgt
      · rw [List.getElem?_append_left hlt] at h
        obtain ⟨h1, h2, h3, h4⟩ := ihi k' e h
        refine ⟨by omega, by omega, by simp; omega, ?_⟩
        have : e - s = (e - (s + 1)) + 1 := by omega
        rw [this, List.getElem?_cons_succ, List.getElem?_append_left (by omega), h4]
        congr 2; omega
      · subst heq
        rw [List.getElem?_append_right (Nat.le_refl _)] at h
        simp at h
      · rw [List.getElem?_append_right (by omega)] at h
        have hk : k' - inner.length = (k' - inner.length - 1) + 1 := by omega
        rw [hk, List.getElem?_cons_succ] at h
        obtain ⟨h1, h2, h3, h4⟩ := ihr (k' - inner.length - 1) e h
        refine ⟨by omega, by omega, by simp; omega, ?_⟩
        have : e - s = (e - s - 1) + 1 := by omega
        rw [this, List.getElem?_cons_succ, List.getElem?_append_right (by omega)]
        have : e - s - 1 - inner.length = (e - (e0 + 1)) + 1 := by omega
        rw [this, List.getElem?_cons_succ, h4]
        congr 2; omega

/-- `WfBinTape` in index form (start tokens): every `Array`/`Object` at index `i` has `i ≠ 0`, an
end index `e > i` inside the tape, and `toks[e] = End i`. -/
theorem WfBinTape.start_link {toks : Tape} (h : WfBinTape toks) (i e : Nat)
    (hs : toks[i]? = some (.array e) ∨ toks[i]? = some (.object e)) :
    i ≠ 0 ∧ i < e ∧ e < toks.length ∧ toks[e]? = some (.end_ i) := by
  have := Items.start_link h i e hs
  simpa using this

/-- index form of `Items`: every `End` inside a sequence of complete items points back to a
container start inside the sequence that points to it. -/
theorem Items.end_link {s : Nat} {seg : Tape} (h : Items s seg) :
    ∀ (j i : Nat), seg[j]? = some (.end_ i) →
      s ≤ i ∧ i ≠ 0 ∧ i < s + j ∧
        (seg[i - s]? = some (.array (s + j)) ∨ seg[i - s]? = some (.object (s + j))) := by
  induction h with
  | nil s => intro j i h; simp at h
  | plain s t rest ht _ ih =>
    intro j i h
    cases j with
    | zero => simp at h; subst h; simp [BTok.isPlain] at ht
    | succ j' =>
      simp only [List.getElem?_cons_succ] at h
      obtain ⟨h1, h2, h3, h4⟩ := ih j' i h
      refine ⟨by omega, h2, by omega, ?_⟩
      have : i - s = (i - (s + 1)) + 1 := by omega
      rw [this, List.getElem?_cons_succ]
      have e : s + (j' + 1) = s + 1 + j' := by omega
      rw [e]; exact h4
  | cont s e0 t inner rest hs ht he _ _ ihi ihr =>
    intro j i h
    cases j with
    | zero => rcases ht with rfl | rfl <;> simp at h
    | succ j' =>
      simp only [List.getElem?_cons_succ] at h
      rcases Nat.lt_trichotomy j' inner.length with hlt | heq | hgt
      · rw [List.getElem?_append_left hlt] at h
        obtain ⟨h1, h2, h3, h4⟩ := ihi j' i h
        refine ⟨by omega, h2, by omega, ?_⟩
        have : i - s = (i - (s + 1)) + 1 := by omega
        rw [this, List.getElem?_cons_succ]
        have hb : i - (s + 1) < inner.length := by
          rcases h4 with h4 | h4 <;> exact
            (by
              rcases Nat.lt_or_ge (i - (s + 1)) inner.length with hh | hh
              · exact hh
              · simp [List.getElem?_eq_none hh] at h4)
        rw [List.getElem?_append_left hb]
        have e : s + (j' + 1) = s + 1 + j' := by omega
        rw [e]; exact h4
      · subst heq
        rw [List.getElem?_append_right (Nat.le_refl _)] at h
        simp at h; subst h
        refine ⟨Nat.le_refl _, hs, by omega, ?_⟩
        have e : s + (inner.length + 1) = e0 := by omega
        rw [e]; simp
        rcases ht with rfl | rfl <;> simp
      · rw [List.getElem?_append_right (by omega)] at h
        have hk : j' - inner.length = (j' - inner.length - 1) + 1 := by omega
        rw [hk, List.getElem?_cons_succ] at h
        obtain ⟨h1, h2, h3, h4⟩ := ihr (j' - inner.length - 1) i h
        refine ⟨by omega, h2, by omega, ?_⟩
        have : i - s = (i - s - 1) + 1 := by omega
        rw [this, List.getElem?_cons_succ, List.getElem?_append_right (by omega)]
        have : i - s - 1 - inner.length = (i - (e0 + 1)) + 1 := by omega
        rw [this, List.getElem?_cons_succ]
        have e : s + (j' + 1) = e0 + 1 + (j' - inner.length - 1) := by omega
        rw [e]; exact h4

/-- `WfBinTape` in index form (`End` tokens): every `End i` at index `j` has `i ≠ 0`, `i < j`, and
`toks[i]` is the `Array`/`Object` whose end is `j`. -/
theorem WfBinTape.end_link {toks : Tape} (h : WfBinTape toks) (j i : Nat) (hs : toks[j]? = some (.end_ i)) :
    i ≠ 0 ∧ i < j ∧ (toks[i]? = some (.array j) ∨ toks[i]? = some (.object j)) := by
  have := Items.end_link h j i hs
  simpa using this.2

end Jomini.BinTape
