import JominiModel.Model.BinTape
/-
C06 (binary half): the declarative structural-soundness predicate `WfBinTape` of a binary tape
and the soundness + completeness of the executable one-pass checker `wfBinTape`.
-/
namespace Jomini.BinTape
open Jomini

/-- neither a container start nor an `End` -/
def BTok.isPlain : BTok → Bool
  | .array _ | .object _ | .end_ _ => false
  | _ => true

/-- `Items s seg`: the token list `seg`, sitting at tape indices `s, s+1, …`, is a sequence of
complete items: a plain token, or a container — a start token at index `i ≠ 0` whose payload is
the index `e` of its own `End`, a sequence of complete items, and at index `e` the token `End i`.
Proper nesting is built in; the index arithmetic pins every `end`/`End` payload. -/
inductive Items : Nat → Tape → Prop
  | nil (s : Nat) : Items s []
  | plain (s : Nat) (t : BTok) (rest : Tape) : t.isPlain = true → Items (s + 1) rest → Items s (t :: rest)
  | cont (s e : Nat) (t : BTok) (inner rest : Tape) :
      s ≠ 0 → (t = .array e ∨ t = .object e) → e = s + 1 + inner.length →
      Items (s + 1) inner → Items (e + 1) rest → Items s (t :: (inner ++ .end_ s :: rest))

/-- **Declarative structural soundness of a binary tape** (property C06): the whole tape, from
index 0, is a sequence of complete items.  Hence every container start indexes a later `End` that
indexes it back, containers are properly nested, and no container / `End` carries index 0
(`Items.cont` demands `s ≠ 0`, and `e > s`). -/
def WfBinTape (toks : Tape) : Prop := Items 0 toks

/-- what is left to read, given the stack of open containers `(opener, declared end)` -/
def Decomp : Nat → Tape → List (Nat × Nat) → Prop
  | i, l, [] => Items i l
  | i, l, (o, e) :: S =>
    ∃ seg rest, l = seg ++ .end_ o :: rest ∧ Items i seg ∧ e = i + seg.length ∧ Decomp (e + 1) rest S

theorem decomp_plain {i : Nat} {t : BTok} {rest : Tape} {S : List (Nat × Nat)} (ht : t.isPlain = true)
    (h : Decomp (i + 1) rest S) : Decomp i (t :: rest) S := by
  cases S with
  | nil => exact Items.plain i t rest ht h
  | cons p S' =>
    obtain ⟨o, e⟩ := p
    obtain ⟨seg, rest', rfl, hseg, he, hd⟩ := h
    exact ⟨t :: seg, rest', rfl, Items.plain i t seg ht hseg, by simp; omega, hd⟩

theorem decomp_start {i e : Nat} {t : BTok} {rest : Tape} {S : List (Nat × Nat)} (hi : i ≠ 0)
    (ht : t = .array e ∨ t = .object e) (h : Decomp (i + 1) rest ((i, e) :: S)) : Decomp i (t :: rest) S := by
  obtain ⟨inner, rest', rfl, hinner, he, hd⟩ := h
  cases S with
  | nil => exact Items.cont i e t inner rest' hi ht (by omega) hinner hd
  | cons p S' =>
    obtain ⟨o, pe⟩ := p
    obtain ⟨seg2, rest2, rfl, hseg2, hpe, hd2⟩ := hd
    refine ⟨t :: (inner ++ .end_ i :: seg2), rest2, by simp, ?_, by simp; omega, hd2⟩
    exact Items.cont i e t inner seg2 hi ht (by omega) hinner hseg2

/-- the checker is sound: acceptance yields the decomposition along the stack -/
theorem wfGo_sound : ∀ (l : Tape) (i n : Nat) (S : List (Nat × Nat)), wfGo l i n S = true → Decomp i l S := by
  intro l
  induction l with
  | nil =>
    intro i n S h
    cases S with
    | nil => exact Items.nil i
    | cons p S' => simp [wfGo] at h
  | cons t rest ih =>
    intro i n S h
    cases t with
    | array e =>
      simp only [wfGo, Bool.and_eq_true, bne_iff_ne, ne_eq, decide_eq_true_eq] at h
      exact decomp_start h.1.1.1.1 (Or.inl rfl) (ih _ _ _ h.2)
    | object e =>
      simp only [wfGo, Bool.and_eq_true, bne_iff_ne, ne_eq, decide_eq_true_eq] at h
      exact decomp_start h.1.1.1.1 (Or.inr rfl) (ih _ _ _ h.2)
    | end_ idx =>
      cases S with
      | nil => simp [wfGo] at h
      | cons p S' =>
        obtain ⟨o, e⟩ := p
        simp only [wfGo, Bool.and_eq_true, bne_iff_ne, ne_eq, beq_iff_eq] at h
        obtain ⟨⟨⟨_, ho⟩, he⟩, hgo⟩ := h
        subst ho; subst he
        exact ⟨[], rest, rfl, Items.nil _, by simp, ih _ _ _ hgo⟩
    | mixed => exact decomp_plain rfl (ih _ _ _ (by simpa [wfGo] using h))
    | equal => exact decomp_plain rfl (ih _ _ _ (by simpa [wfGo] using h))
    | bool b => exact decomp_plain rfl (ih _ _ _ (by simpa [wfGo] using h))
    | u32 v => exact decomp_plain rfl (ih _ _ _ (by simpa [wfGo] using h))
    | u64 v => exact decomp_plain rfl (ih _ _ _ (by simpa [wfGo] using h))
    | i64 v => exact decomp_plain rfl (ih _ _ _ (by simpa [wfGo] using h))
    | i32 v => exact decomp_plain rfl (ih _ _ _ (by simpa [wfGo] using h))
    | quoted b => exact decomp_plain rfl (ih _ _ _ (by simpa [wfGo] using h))
    | unquoted b => exact decomp_plain rfl (ih _ _ _ (by simpa [wfGo] using h))
    | f32 b => exact decomp_plain rfl (ih _ _ _ (by simpa [wfGo] using h))
    | f64 b => exact decomp_plain rfl (ih _ _ _ (by simpa [wfGo] using h))
    | token id => exact decomp_plain rfl (ih _ _ _ (by simpa [wfGo] using h))
    | rgb r g b a => exact decomp_plain rfl (ih _ _ _ (by simpa [wfGo] using h))

theorem wfGo_plain {t : BTok} (ht : t.isPlain = true) (rest : Tape) (i n : Nat) (S : List (Nat × Nat)) :
    wfGo (t :: rest) i n S = wfGo rest (i + 1) n S := by
  cases t <;> first | rfl | (simp [BTok.isPlain] at ht)

/-- the checker is complete: a sequence of complete items is skipped by the pass, whatever
follows, provided it fits below the end declared by the innermost open container -/
theorem items_go {s : Nat} {seg : Tape} (h : Items s seg) :
    ∀ (rest : Tape) (n : Nat) (S : List (Nat × Nat)), s + seg.length ≤ n →
      (∀ o pe S', S = (o, pe) :: S' → s + seg.length ≤ pe) →
      wfGo (seg ++ rest) s n S = wfGo rest (s + seg.length) n S := by
  induction h with
  | nil s => intro rest n S _ _; simp
  | plain s t rest' ht _ ih =>
    intro rest n S hn hS
    simp only [List.cons_append, wfGo_plain ht, List.length_cons] at hn hS ⊢
    rw [ih rest n S (by omega) (by intro o pe S' h; have := hS o pe S' h; omega)]
    congr 1; omega
  | cont s e t inner rest' hs ht he _ _ ihi ihr =>
    intro rest n S hn hS
    simp only [List.length_cons, List.length_append] at hn hS
    have e1 : wfGo (t :: (inner ++ .end_ s :: rest') ++ rest) s n S
        = wfGo (inner ++ (.end_ s :: (rest' ++ rest))) (s + 1) n ((s, e) :: S) := by
      cases S with
      | nil =>
        rcases ht with rfl | rfl <;>
          simp [wfGo, hs, show s < e by omega, show e < n by omega]
      | cons p S' =>
        obtain ⟨o, pe⟩ := p
        have := hS o pe S' rfl
        rcases ht with rfl | rfl <;>
          simp [wfGo, hs, show s < e by omega, show e < n by omega, show e < pe by omega]
    rw [e1, ihi _ n ((s, e) :: S) (by omega) (by intro o pe S' h; cases h; omega)]
    have e2 : wfGo (.end_ s :: (rest' ++ rest)) (s + 1 + inner.length) n ((s, e) :: S)
        = wfGo (rest' ++ rest) (e + 1) n S := by
      simp [wfGo, hs, he]
    rw [e2, ihr rest n S (by omega) (by intro o pe S' h; have := hS o pe S' h; omega)]
    congr 1; simp; omega

/-- **C06, checker soundness and completeness**: the executable one-pass checker decides exactly
the declarative predicate. -/
theorem wfBinTape_iff (input : Bytes) (toks : Tape) : wfBinTape input toks = true ↔ WfBinTape toks := by
  constructor
  · intro h; exact wfGo_sound toks 0 toks.length [] h
  · intro h
    have := items_go h [] toks.length [] (by simp) (by intro o pe S' h; cases h)
    simp only [List.append_nil, Nat.zero_add] at this
    simp [wfBinTape, this, wfGo]

end Jomini.BinTape
