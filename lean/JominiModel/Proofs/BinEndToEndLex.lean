import JominiModel.Proofs.BinEndToEnd
import JominiModel.Proofs.BinLexer
import JominiModel.Spec.BinLexer
/-
End to end, lexeme side: the BYTES of a document, lexed by the lexer model (`BinLexer.lexAll`), are the
raw lexemes `tokensOf (toBDoc d)` the sequential deserializer models consume (`lex_encode`, through
`C08_codec` = `lexAll_write`), and the three-path statement on the same bytes (`C04_paths_end_to_end_partial`).
Hypotheses: the document is in the common fragment (`noMixed`), well formed (`wfDoc`), and its Bool
payload bytes are 0 / 1 (`canonF`: `Token::write`, through which C08_codec speaks, writes only those).
-/
set_option linter.unusedSimpArgs false
namespace Jomini.BinDe
open Jomini

/-! ### bytes ↔ lexemes -/

theorem leNat_eq (b : Bytes) : BinTape.leNat b = BinLexer.leNat b := by
  induction b with
  | nil => rfl
  | cons x xs ih => simp [BinTape.leNat, BinLexer.leNat, ih]

theorem leBytes_leNat (b : Bytes) : BinLexer.leBytes b.length (BinLexer.leNat b) = b := by
  induction b with
  | nil => rfl
  | cons x xs ih =>
    have hx := x.toNat_lt
    simp only [List.length_cons, BinLexer.leNat, BinLexer.leBytes]
    have h1 : (x.toNat + 256 * BinLexer.leNat xs) % 256 = x.toNat := by omega
    have h2 : (x.toNat + 256 * BinLexer.leNat xs) / 256 = BinLexer.leNat xs := by omega
    rw [h1, h2, ih]
    simp

theorem le16_eq (n : Nat) : BinTape.le16 n = BinLexer.leBytes 2 n := by
  simp [BinTape.le16, BinLexer.leBytes]

theorem ofSigned_toSigned32 (u : Nat) (h : u < 2 ^ 32) : BinLexer.ofSigned 32 (BinTape.toSigned 32 u) = u := by
  unfold BinLexer.ofSigned BinTape.toSigned
  split <;> simp only [Nat.reducePow, Nat.reduceSub] at * <;> omega

theorem ofSigned_toSigned64 (u : Nat) (h : u < 2 ^ 64) : BinLexer.ofSigned 64 (BinTape.toSigned 64 u) = u := by
  unfold BinLexer.ofSigned BinTape.toSigned
  split <;> simp only [Nat.reducePow, Nat.reduceSub] at * <;> omega

/-- the lexer token of a scalar. -/
def scToken : BinTape.Sc → BinLexer.Token
  | .id n => .id n
  | .u32 b => .u32 (BinTape.leNat b) | .u64 b => .u64 (BinTape.leNat b)
  | .i32 b => .i32 (BinTape.toSigned 32 (BinTape.leNat b)) | .i64 b => .i64 (BinTape.toSigned 64 (BinTape.leNat b))
  | .f32 b => .f32 b | .f64 b => .f64 b
  | .bool x => .bool (x != 0)
  | .quoted s => .quoted s | .unquoted s => .unquoted s

def ghostTokens : Nat → List BinLexer.Token
  | 0 => []
  | n + 1 => .open :: .close :: ghostTokens n

mutual
/-- the document as the sequence of tokens `Lexer::read_token` delivers (an rgb block is ONE token). -/
def docToksV : BinTape.Val → List BinLexer.Token
  | .sc s => [scToken s]
  | .rgb r g b a => [.rgb { r := BinTape.leNat r, g := BinTape.leNat g, b := BinTape.leNat b, a := a.map BinTape.leNat }]
  | .obj fs => .open :: (docToksF fs ++ [.close])
  | .arr vs => .open :: (docToksVs vs ++ [.close])
  | .mixed fs tail => .open :: (docToksF fs ++ tail.map scToken ++ [.close])
def docToksF : BinTape.Fields → List BinLexer.Token
  | .nil => []
  | .cons g k v rest => ghostTokens g ++ (scToken k :: .equal :: docToksV v) ++ docToksF rest
def docToksVs : BinTape.Vals → List BinLexer.Token
  | .nil => []
  | .cons v rest => docToksV v ++ docToksVs rest
end

/-- raw lexemes of a token: the on-demand lexer and both skip loops see an rgb block as the marker id
followed by `{ U32 U32 U32 [U32] }`. -/
def expand : BinLexer.Token → List Tok
  | .open => [.open] | .close => [.close] | .equal => [.equal]
  | .u32 v => [.u32 v] | .u64 v => [.u64 v] | .i32 v => [.i32 v] | .i64 v => [.i64 v] | .bool v => [.bool v]
  | .quoted s => [.quoted s] | .unquoted s => [.unquoted s] | .f32 b => [.f32 b] | .f64 b => [.f64 b]
  | .id v => [.id v]
  | .rgb c => rgbToks { r := c.r, g := c.g, b := c.b, a := c.a }

theorem expand_sc (s : BinTape.Sc) : expand (scToken s) = [(toBLeaf s).tok] := by
  cases s <;> rfl

theorem expand_ghosts (g : Nat) : (ghostTokens g).flatMap expand = ghostToks g := by
  induction g with
  | zero => rfl
  | succ g ih => simp [ghostTokens, ghostToks, expand, ih]

mutual
theorem toks_val (v : BinTape.Val) (h : noMixedV v = true) : (docToksV v).flatMap expand = tokensNode (toBNode v) := by
  cases v with
  | sc s => simp [docToksV, toBNode, tokensNode, expand_sc]
  | rgb r g b a => simp [docToksV, toBNode, tokensNode, expand]
  | obj fs =>
    have := toks_fields fs (by simpa [noMixedV] using h)
    simp [docToksV, toBNode, tokensNode, expand, this]
  | arr vs =>
    have := toks_vals vs (by simpa [noMixedV] using h)
    simp [docToksV, toBNode, tokensNode, expand, this]
  | mixed fs t => simp [noMixedV] at h
theorem toks_fields (fs : BinTape.Fields) (h : noMixedF fs = true) : (docToksF fs).flatMap expand = tokensFields (toBFields fs) := by
  cases fs with
  | nil => rfl
  | cons g k v rest =>
    simp only [noMixedF, Bool.and_eq_true] at h
    have h1 := toks_val v h.1
    have h2 := toks_fields rest h.2
    have hk := expand_sc k
    have he : expand .equal = [Tok.equal] := rfl
    simp only [docToksF, toBFields, tokensFields, List.flatMap_append, List.flatMap_cons, expand_ghosts, hk, he, h1, h2]
    simp
theorem toks_vals (vs : BinTape.Vals) (h : noMixedVs vs = true) : (docToksVs vs).flatMap expand = tokensNodes (toBNodes vs) := by
  cases vs with
  | nil => rfl
  | cons v rest =>
    simp only [noMixedVs, Bool.and_eq_true] at h
    have h1 := toks_val v h.1
    have h2 := toks_vals rest h.2
    simp [docToksVs, toBNodes, tokensNodes, h1, h2]
end

/-- a Bool payload byte is 0 or 1 (what every writer produces; `Token::write` only writes those). -/
def canonSc : BinTape.Sc → Bool
  | .bool x => decide (x.toNat ≤ 1)
  | _ => true

mutual
def canonV : BinTape.Val → Bool
  | .sc s => canonSc s | .rgb _ _ _ _ => true
  | .obj fs => canonF fs | .arr vs => canonVs vs
  | .mixed fs tail => canonF fs && tail.all canonSc
def canonF : BinTape.Fields → Bool
  | .nil => true
  | .cons _ k v rest => canonSc k && canonV v && canonF rest
def canonVs : BinTape.Vals → Bool
  | .nil => true
  | .cons v rest => canonV v && canonVs rest
end

theorem write_sc (s : BinTape.Sc) (hw : s.wf = true) (hc : canonSc s = true) : s.encode = (scToken s).write := by
  cases s with
  | id n => simp [BinTape.Sc.encode, scToken, BinLexer.Token.write, le16_eq]
  | u32 b =>
    simp [BinTape.Sc.wf] at hw
    simp [BinTape.Sc.encode, scToken, BinLexer.Token.write, BinLexer.writeU32, le16_eq, leNat_eq, BinTape.L.u32, BinLexer.U32]
    rw [← hw, leBytes_leNat]
  | u64 b =>
    simp [BinTape.Sc.wf] at hw
    simp [BinTape.Sc.encode, scToken, BinLexer.Token.write, le16_eq, leNat_eq, BinTape.L.u64, BinLexer.U64]
    rw [← hw, leBytes_leNat]
  | i32 b =>
    simp [BinTape.Sc.wf] at hw
    have hlt : BinLexer.leNat b < 2 ^ 32 := by have := BinLexer.leNat_lt b; rw [hw] at this; simpa using this
    simp [BinTape.Sc.encode, scToken, BinLexer.Token.write, le16_eq, leNat_eq, BinTape.L.i32, BinLexer.I32, ofSigned_toSigned32 _ hlt]
    rw [← hw, leBytes_leNat]
  | i64 b =>
    simp [BinTape.Sc.wf] at hw
    have hlt : BinLexer.leNat b < 2 ^ 64 := by have := BinLexer.leNat_lt b; rw [hw] at this; simpa using this
    simp [BinTape.Sc.encode, scToken, BinLexer.Token.write, le16_eq, leNat_eq, BinTape.L.i64, BinLexer.I64, ofSigned_toSigned64 _ hlt]
    rw [← hw, leBytes_leNat]
  | f32 b => simp [BinTape.Sc.encode, scToken, BinLexer.Token.write, le16_eq, BinTape.L.f32, BinLexer.F32]
  | f64 b => simp [BinTape.Sc.encode, scToken, BinLexer.Token.write, le16_eq, BinTape.L.f64, BinLexer.F64]
  | bool x =>
    simp [canonSc] at hc
    simp [BinTape.Sc.encode, scToken, BinLexer.Token.write, le16_eq, BinTape.L.bool, BinLexer.BOOL]
    have hx := x.toNat_lt
    rcases Nat.lt_or_ge x.toNat 1 with h0 | h1
    · have : x = 0 := by apply UInt8.toNat.inj; simp; omega
      subst this; simp
    · have : x = 1 := by apply UInt8.toNat.inj; simp; omega
      subst this; simp
  | quoted b => simp [BinTape.Sc.encode, scToken, BinLexer.Token.write, le16_eq, BinTape.L.quoted, BinLexer.QUOTED]
  | unquoted b => simp [BinTape.Sc.encode, scToken, BinLexer.Token.write, le16_eq, BinTape.L.unquoted, BinLexer.UNQUOTED]

theorem write_ghosts (g : Nat) : BinTape.ghostBytes g = (ghostTokens g).flatMap BinLexer.Token.write := by
  induction g with
  | zero => rfl
  | succ g ih => simp [BinTape.ghostBytes, ghostTokens, BinLexer.Token.write, le16_eq, ih, BinTape.L.open_, BinTape.L.close, BinLexer.OPEN, BinLexer.CLOSE]

theorem write_rgb_comp (b : Bytes) (h : b.length = 4) :
    BinTape.le16 BinTape.L.u32 ++ b = BinLexer.writeU32 (BinTape.leNat b) := by
  simp [BinLexer.writeU32, le16_eq, leNat_eq, BinTape.L.u32, BinLexer.U32]
  rw [← h, leBytes_leNat]

mutual
theorem write_val (v : BinTape.Val) (hm : noMixedV v = true) (hw : v.wf = true) (hc : canonV v = true) :
    v.encode = (docToksV v).flatMap BinLexer.Token.write := by
  cases v with
  | sc s => simp [BinTape.Val.encode, docToksV, write_sc s (by simpa [BinTape.Val.wf] using hw) (by simpa [canonV] using hc)]
  | rgb r g b a =>
    simp only [BinTape.Val.wf, Bool.and_eq_true, beq_iff_eq] at hw
    obtain ⟨⟨⟨hr, hg⟩, hb⟩, ha⟩ := hw
    cases a with
    | none =>
      simp only [BinTape.Val.encode, docToksV, List.flatMap_cons, List.flatMap_nil, List.append_nil, BinLexer.Token.write, Option.map]
      simp only [← write_rgb_comp r hr, ← write_rgb_comp g hg, ← write_rgb_comp b hb, le16_eq]
      simp [BinTape.L.rgb, BinLexer.RGB, BinTape.L.open_, BinLexer.OPEN, BinTape.L.close, BinLexer.CLOSE]
    | some a =>
      simp only [beq_iff_eq] at ha
      simp only [BinTape.Val.encode, docToksV, List.flatMap_cons, List.flatMap_nil, List.append_nil, BinLexer.Token.write, Option.map]
      simp only [← write_rgb_comp r hr, ← write_rgb_comp g hg, ← write_rgb_comp b hb, ← write_rgb_comp a ha, le16_eq]
      simp [BinTape.L.rgb, BinLexer.RGB, BinTape.L.open_, BinLexer.OPEN, BinTape.L.close, BinLexer.CLOSE]
  | obj fs =>
    have := write_fields fs (by simpa [noMixedV] using hm) (by simpa [BinTape.Val.wf] using hw) (by simpa [canonV] using hc)
    simp [BinTape.Val.encode, docToksV, BinLexer.Token.write, le16_eq, this, BinTape.L.open_, BinLexer.OPEN, BinTape.L.close, BinLexer.CLOSE]
  | arr vs =>
    have := write_vals vs (by simpa [noMixedV] using hm) (by simpa [BinTape.Val.wf] using hw) (by simpa [canonV] using hc)
    simp [BinTape.Val.encode, docToksV, BinLexer.Token.write, le16_eq, this, BinTape.L.open_, BinLexer.OPEN, BinTape.L.close, BinLexer.CLOSE]
  | mixed fs t => simp [noMixedV] at hm
theorem write_fields (fs : BinTape.Fields) (hm : noMixedF fs = true) (hw : fs.wf = true) (hc : canonF fs = true) :
    fs.encode = (docToksF fs).flatMap BinLexer.Token.write := by
  cases fs with
  | nil => rfl
  | cons g k v rest =>
    simp only [noMixedF, Bool.and_eq_true] at hm
    simp only [BinTape.Fields.wf, Bool.and_eq_true] at hw
    simp only [canonF, Bool.and_eq_true] at hc
    have h1 := write_val v hm.1 hw.1.2 hc.1.2
    have h2 := write_fields rest hm.2 hw.2 hc.2
    simp [BinTape.Fields.encode, docToksF, write_ghosts, write_sc k hw.1.1 hc.1.1, h1, h2, BinLexer.Token.write, le16_eq,
      BinTape.L.equal, BinLexer.EQUAL]
theorem write_vals (vs : BinTape.Vals) (hm : noMixedVs vs = true) (hw : vs.wf = true) (hc : canonVs vs = true) :
    vs.encode = (docToksVs vs).flatMap BinLexer.Token.write := by
  cases vs with
  | nil => rfl
  | cons v rest =>
    simp only [noMixedVs, Bool.and_eq_true] at hm
    simp only [BinTape.Vals.wf, Bool.and_eq_true] at hw
    simp only [canonVs, Bool.and_eq_true] at hc
    have h1 := write_val v hm.1 hw.1 hc.1
    have h2 := write_vals rest hm.2 hw.2 hc.2
    simp [BinTape.Vals.encode, docToksVs, h1, h2]
end

theorem toSigned32_range (u : Nat) (h : u < 2 ^ 32) :
    -(2 ^ 31 : Int) ≤ BinTape.toSigned 32 u ∧ BinTape.toSigned 32 u < (2 ^ 31 : Int) := by
  unfold BinTape.toSigned
  split <;> simp only [Nat.reducePow, Nat.reduceSub] at * <;> omega

theorem toSigned64_range (u : Nat) (h : u < 2 ^ 64) :
    -(2 ^ 63 : Int) ≤ BinTape.toSigned 64 u ∧ BinTape.toSigned 64 u < (2 ^ 63 : Int) := by
  unfold BinTape.toSigned
  split <;> simp only [Nat.reducePow, Nat.reduceSub] at * <;> omega

theorem leNat_lt' (b : Bytes) (n : Nat) (h : b.length = n) : BinTape.leNat b < 256 ^ n := by
  rw [leNat_eq, ← h]; exact BinLexer.leNat_lt b

theorem wf_sc (s : BinTape.Sc) (hw : s.wf = true) : BinLexer.WfTok (scToken s) := by
  cases s with
  | id n =>
    simp [BinTape.Sc.wf] at hw
    refine ⟨hw.1, ?_⟩
    simp [BinLexer.isId, BinLexer.OPEN, BinLexer.CLOSE, BinLexer.EQUAL, BinLexer.U32, BinLexer.U64, BinLexer.I32, BinLexer.BOOL,
      BinLexer.QUOTED, BinLexer.UNQUOTED, BinLexer.F32, BinLexer.F64, BinLexer.RGB, BinLexer.I64]
    omega
  | u32 b => simp [BinTape.Sc.wf] at hw; simpa [scToken, BinLexer.WfTok] using leNat_lt' b 4 hw
  | u64 b => simp [BinTape.Sc.wf] at hw; simpa [scToken, BinLexer.WfTok] using leNat_lt' b 8 hw
  | i32 b =>
    simp [BinTape.Sc.wf] at hw
    exact toSigned32_range _ (by simpa using leNat_lt' b 4 hw)
  | i64 b =>
    simp [BinTape.Sc.wf] at hw
    exact toSigned64_range _ (by simpa using leNat_lt' b 8 hw)
  | f32 b => simpa [BinTape.Sc.wf, scToken, BinLexer.WfTok] using hw
  | f64 b => simpa [BinTape.Sc.wf, scToken, BinLexer.WfTok] using hw
  | bool x => simp [scToken, BinLexer.WfTok]
  | quoted b => simp [BinTape.Sc.wf] at hw; simp [scToken, BinLexer.WfTok]; omega
  | unquoted b => simp [BinTape.Sc.wf] at hw; simp [scToken, BinLexer.WfTok]; omega

theorem wf_ghosts (g : Nat) : ∀ t ∈ ghostTokens g, BinLexer.WfTok t := by
  induction g with
  | zero => simp [ghostTokens]
  | succ g ih =>
    intro t ht
    simp [ghostTokens] at ht
    rcases ht with rfl | rfl | ht
    · trivial
    · trivial
    · exact ih t ht

mutual
theorem wf_val (v : BinTape.Val) (hm : noMixedV v = true) (hw : v.wf = true) : ∀ t ∈ docToksV v, BinLexer.WfTok t := by
  cases v with
  | sc s => intro t ht; simp [docToksV] at ht; subst ht; exact wf_sc s (by simpa [BinTape.Val.wf] using hw)
  | rgb r g b a =>
    simp only [BinTape.Val.wf, Bool.and_eq_true, beq_iff_eq] at hw
    obtain ⟨⟨⟨hr, hg⟩, hb⟩, ha⟩ := hw
    intro t ht; simp [docToksV] at ht; subst ht
    refine ⟨by simpa using leNat_lt' r 4 hr, by simpa using leNat_lt' g 4 hg, by simpa using leNat_lt' b 4 hb, ?_⟩
    cases a with
    | none => trivial
    | some a => simp only [beq_iff_eq] at ha; simpa using leNat_lt' a 4 ha
  | obj fs =>
    have := wf_fields fs (by simpa [noMixedV] using hm) (by simpa [BinTape.Val.wf] using hw)
    intro t ht; simp [docToksV] at ht
    rcases ht with rfl | ht | rfl
    · trivial
    · exact this t ht
    · trivial
  | arr vs =>
    have := wf_vals vs (by simpa [noMixedV] using hm) (by simpa [BinTape.Val.wf] using hw)
    intro t ht; simp [docToksV] at ht
    rcases ht with rfl | ht | rfl
    · trivial
    · exact this t ht
    · trivial
  | mixed fs t => simp [noMixedV] at hm
theorem wf_fields (fs : BinTape.Fields) (hm : noMixedF fs = true) (hw : fs.wf = true) : ∀ t ∈ docToksF fs, BinLexer.WfTok t := by
  cases fs with
  | nil => intro t ht; simp [docToksF] at ht
  | cons g k v rest =>
    simp only [noMixedF, Bool.and_eq_true] at hm
    simp only [BinTape.Fields.wf, Bool.and_eq_true] at hw
    have h1 := wf_val v hm.1 hw.1.2
    have h2 := wf_fields rest hm.2 hw.2
    intro t ht
    simp [docToksF] at ht
    rcases ht with ht | rfl | rfl | ht | ht
    · exact wf_ghosts g t ht
    · exact wf_sc k hw.1.1
    · trivial
    · exact h1 t ht
    · exact h2 t ht
theorem wf_vals (vs : BinTape.Vals) (hm : noMixedVs vs = true) (hw : vs.wf = true) : ∀ t ∈ docToksVs vs, BinLexer.WfTok t := by
  cases vs with
  | nil => intro t ht; simp [docToksVs] at ht
  | cons v rest =>
    simp only [noMixedVs, Bool.and_eq_true] at hm
    simp only [BinTape.Vals.wf, Bool.and_eq_true] at hw
    have h1 := wf_val v hm.1 hw.1
    have h2 := wf_vals rest hm.2 hw.2
    intro t ht
    simp [docToksVs] at ht
    rcases ht with ht | ht
    · exact h1 t ht
    · exact h2 t ht
end

/-- the raw lexemes of an input, through the lexer model: `read_token` until the end, rgb blocks expanded. -/
def rawLexemes (d : Bytes) : List Tok := (BinLexer.lexAll d).1.flatMap expand

/-- BYTES → LEXEMES (C08_codec ∘ spec agreement): lexing the encoding of a well-formed document gives,
lexeme for lexeme, the deserializer slice's `tokensOf` of the translated document, ends cleanly and
leaves no byte. -/
theorem lex_encode (d : BinTape.Fields) (hm : noMixedF d = true) (hw : d.wf = true) (hc : canonF d = true) :
    BinLexer.lexAll d.encode = (docToksF d, .done, []) ∧ rawLexemes d.encode = tokensOf (toBDoc d) := by
  have h1 := write_fields d hm hw hc
  have h2 := BinLexer.lexAll_write (docToksF d) (wf_fields d hm hw)
  rw [← h1] at h2
  refine ⟨h2, ?_⟩
  simp only [rawLexemes, h2]
  exact toks_fields d hm

theorem wfDoc_wf (d : BinTape.Fields) (h : d.wfDoc = true) : d.wf = true := by
  cases d with
  | nil => rfl
  | cons g k v rest => simp only [BinTape.Fields.wfDoc, Bool.and_eq_true] at h; exact h.2

/-- (C04, end to end, all three paths, flat documents) on the SAME BYTES — the encoding of a well-formed
flat document — the tape path (tape parser model, either variant, then `deTape`), the on-demand path and
the streaming path (lexer model, then `deOndemand` / `deStream`) return the same value, and it is the
reference value of the document; every resolver, strategy and leaf-like value type. -/
theorem C04_paths_end_to_end_partial (c : Cfg) (vt : Ty) (hvt : LeafTy vt) (d : BinTape.Fields)
    (hm : noMixedF d = true) (hw : d.wfDoc = true) (hc : canonF d = true) (hfl : Flat (toBDoc d)) (opt : Bool)
    (T : BinTape.Tape) (hp : BinTape.parse opt d.encode = .ok T) :
    deTape c (.plain (.map vt)) (toBinDeTape T) = deOndemand c (.plain (.map vt)) (rawLexemes d.encode) ∧
    deTape c (.plain (.map vt)) (toBinDeTape T) = deStream c (.plain (.map vt)) (rawLexemes d.encode) ∧
    deTape c (.plain (.map vt)) (toBinDeTape T) = valueOfBin c (.plain (.map vt)) (toBDoc d) := by
  have hl := (lex_encode d hm (wfDoc_wf d hw) hc).2
  obtain ⟨h1, h2, h3⟩ := flat_map_all c vt hvt (toBDoc d) hfl
  rw [parse_toBinDeTape d hm hw opt T hp, hl]
  exact ⟨by rw [h1, h2], by rw [h1, h3], h1⟩

/-- (nested documents, tape path from bytes; lexemes from bytes) the two halves that hold for the whole
common fragment: the tape path's value is the reference value, and the lexemes the sequential paths
consume are `tokensOf` of the same document.  What is missing for `C04_paths_end_to_end` on nested
documents is `deOndemand c ty (tokensOf D) = valueOfBin c ty D` beyond flat documents. -/
theorem C04_end_to_end_halves (c : Cfg) (ty : RootTy) (d : BinTape.Fields)
    (hm : noMixedF d = true) (hw : d.wfDoc = true) (hc : canonF d = true) (hfit : fitsRoot c ty (toBDoc d) = true)
    (opt : Bool) (T : BinTape.Tape) (hp : BinTape.parse opt d.encode = .ok T) :
    deTape c ty (toBinDeTape T) = valueOfBin c ty (toBDoc d) ∧ rawLexemes d.encode = tokensOf (toBDoc d) :=
  ⟨C04_tape_end_to_end c ty d hm hw hfit opt T hp, (lex_encode d hm (wfDoc_wf d hw) hc).2⟩

end Jomini.BinDe
