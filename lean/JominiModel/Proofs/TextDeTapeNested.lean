import JominiModel.Spec.TextDoc
import JominiModel.Proofs.TextDe
import JominiModel.Proofs.TextDeStream
import JominiModel.Proofs.TextDeTape
/-
C02, tape path on nested documents: `deTape enc ty (tapeOf d) = valueOf enc ty d` for target types
that request the document's shape (`FitsT`).  Index reasoning is done with `SitsAt toks i xs`
("the token list `xs` sits in `toks` at index `i`").
-/
namespace Jomini.TextDe
open Jomini Jomini.TextDoc

/-! ### sizes -/

mutual
/-- number of tape tokens of a value -/
def tsize : Node → Nat
  | .leaf _ => 1
  | .obj fs => fieldsTsize fs + 2
  | .arr vs => nodesTsize vs + 2
  | .hdr _ b => tsize b + 1
def fieldsTsize : List (Key × Op × Node) → Nat
  | [] => 0
  | (_, o, v) :: r => 1 + (opToks o).length + tsize v + fieldsTsize r
def nodesTsize : List Node → Nat
  | [] => 0
  | v :: r => tsize v + nodesTsize r
end

mutual
theorem tapeNode_len : ∀ (v : Node) (b : Nat), (tapeNode b v).length = tsize v
  | .leaf l, b => by simp [tapeNode, tsize]
  | .obj [], b => by simp [tapeNode, tsize, fieldsTsize]
  | .obj (f :: fs), b => by
      simp only [tapeNode, List.length_cons, List.length_append, List.length_nil, tsize]
      rw [tapeFields_len (f :: fs) (b + 1)]
  | .arr vs, b => by
      simp only [tapeNode, List.length_cons, List.length_append, List.length_nil, tsize]
      rw [tapeNodes_len vs (b + 1)]
  | .hdr n body, b => by
      simp only [tapeNode, List.length_cons, tsize]
      rw [tapeNode_len body (b + 1)]
theorem tapeFields_len : ∀ (fs : List (Key × Op × Node)) (b : Nat), (tapeFields b fs).length = fieldsTsize fs
  | [], b => by simp [tapeFields, fieldsTsize]
  | (k, o, v) :: r, b => by
      have h1 := tapeNode_len v
      have h2 := tapeFields_len r
      cases o <;> simp [tapeFields, fieldsTsize, opToks, h1, h2] <;> omega
theorem tapeNodes_len : ∀ (vs : List Node) (b : Nat), (tapeNodes b vs).length = nodesTsize vs
  | [], b => by simp [tapeNodes, nodesTsize]
  | .leaf l :: r, b => by
      have h2 := tapeNodes_len r
      simp [tapeNodes, nodesTsize, tapeNode, tsize, h2]; omega
  | .obj fs :: r, b => by
      have h1 := tapeNode_len (.obj fs)
      have h2 := tapeNodes_len r
      simp [tapeNodes, nodesTsize, h1, h2]
  | .arr vs :: r, b => by
      have h1 := tapeNode_len (.arr vs)
      have h2 := tapeNodes_len r
      simp [tapeNodes, nodesTsize, h1, h2]
  | .hdr n body :: r, b => by
      have h1 := tapeNode_len body
      have h2 := tapeNodes_len r
      simp [tapeNodes, nodesTsize, tsize, h1, h2]; omega
end

theorem tsize_pos (v : Node) : 1 ≤ tsize v := by cases v <;> simp [tsize]

theorem fieldsTsize_len : ∀ (fs : List (Key × Op × Node)), fs.length ≤ fieldsTsize fs
  | [] => by simp
  | (k, o, v) :: r => by
      have := fieldsTsize_len r
      simp only [fieldsTsize, List.length_cons]; omega

theorem nodesTsize_len : ∀ (vs : List Node), vs.length ≤ nodesTsize vs
  | [] => by simp
  | v :: r => by
      have := nodesTsize_len r
      have := tsize_pos v
      simp only [nodesTsize, List.length_cons]; omega

/-! ### `SitsAt` -/

/-- the token list `xs` sits in `toks` at index `i` -/
def SitsAt (toks : List TTok) (i : Nat) (xs : List TTok) : Prop :=
  ∀ j, j < xs.length → toks[i + j]? = xs[j]?

theorem sitsAt_cons {toks : List TTok} {i : Nat} {x : TTok} {xs : List TTok} :
    SitsAt toks i (x :: xs) ↔ toks[i]? = some x ∧ SitsAt toks (i + 1) xs := by
  constructor
  · intro h
    refine ⟨by simpa using h 0 (by simp), ?_⟩
    intro j hj
    have := h (j + 1) (by simp; omega)
    simpa [Nat.add_assoc, Nat.add_comm 1 j] using this
  · intro ⟨h0, h1⟩ j hj
    cases j with
    | zero => simpa using h0
    | succ j =>
      have := h1 j (by simp at hj; omega)
      simpa [Nat.add_assoc, Nat.add_comm 1 j] using this

theorem sitsAt_append {toks : List TTok} {i : Nat} {xs ys : List TTok} :
    SitsAt toks i (xs ++ ys) ↔ SitsAt toks i xs ∧ SitsAt toks (i + xs.length) ys := by
  induction xs generalizing i with
  | nil => simp [SitsAt]
  | cons x xs ih =>
    simp only [List.cons_append, sitsAt_cons, ih, List.length_cons]
    constructor
    · intro ⟨h0, h1, h2⟩; exact ⟨⟨h0, h1⟩, by simpa [Nat.add_assoc, Nat.add_comm 1] using h2⟩
    · intro ⟨⟨h0, h1⟩, h2⟩; exact ⟨h0, h1, by simpa [Nat.add_assoc, Nat.add_comm 1] using h2⟩

theorem sitsAt_self (xs : List TTok) : SitsAt xs 0 xs := by
  intro j _; simp

theorem sitsAt_bound {toks : List TTok} {i : Nat} {xs : List TTok} (h : SitsAt toks i xs) (hne : xs ≠ []) :
    i + xs.length ≤ toks.length := by
  have hpos : 0 < xs.length := List.length_pos_iff.mpr hne
  have := h (xs.length - 1) (by omega)
  have hs : xs[xs.length - 1]? ≠ none := by simp; omega
  rw [← this] at hs
  have : i + (xs.length - 1) < toks.length := by
    rcases Nat.lt_or_ge (i + (xs.length - 1)) toks.length with h' | h'
    · exact h'
    · exact absurd (List.getElem?_eq_none h') hs
  omega

/-! ### head tokens, `next_idx` -/

/-- first tape token of a value that starts at index `i` -/
def tapeHead (i : Nat) : Node → TTok
  | .leaf l => l.ttok
  | .obj [] => .arr (i + 1) false
  | .obj (f :: fs) => .obj (i + 1 + fieldsTsize (f :: fs)) false
  | .arr vs => .arr (i + 1 + nodesTsize vs) false
  | .hdr n _ => .hdr n

theorem tapeNode_head (i : Nat) (v : Node) : ∃ tl, tapeNode i v = tapeHead i v :: tl := by
  cases v with
  | leaf l => exact ⟨[], by simp [tapeNode, tapeHead]⟩
  | obj fs =>
    cases fs with
    | nil => exact ⟨[TTok.end_ i], by simp [tapeNode, tapeHead]⟩
    | cons f fs => exact ⟨tapeFields (i + 1) (f :: fs) ++ [TTok.end_ i], by simp only [tapeNode, tapeHead, tapeFields_len, List.cons_append]⟩
  | arr vs => exact ⟨tapeNodes (i + 1) vs ++ [TTok.end_ i], by simp only [tapeNode, tapeHead, tapeNodes_len, List.cons_append]⟩
  | hdr n b => exact ⟨tapeNode (i + 1) b, by simp [tapeNode, tapeHead]⟩

theorem sits_head {toks : List TTok} {i : Nat} {v : Node} (h : SitsAt toks i (tapeNode i v)) :
    toks[i]? = some (tapeHead i v) := by
  obtain ⟨tl, htl⟩ := tapeNode_head i v
  rw [htl] at h
  exact (sitsAt_cons.mp h).1

theorem tapeHead_not_op (i : Nat) (v : Node) (o : Op) : tapeHead i v ≠ .op o := by
  cases v with
  | leaf l => simp only [tapeHead, Leaf.ttok]; split <;> simp
  | obj fs => cases fs <;> simp [tapeHead]
  | arr vs => simp [tapeHead]
  | hdr n b => simp [tapeHead]

theorem ttok_cases (l : Leaf) : l.ttok = .unq l.bytes ∨ l.ttok = .quo l.bytes := by
  simp only [Leaf.ttok]; split <;> simp

/-- `next_idx` jumps over a whole value -/
theorem nextIdx_node {toks : List TTok} {i : Nat} {v : Node} (F : Nat)
    (h : SitsAt toks i (tapeNode i v)) (hw : v.wf = true) : nextIdx toks (F + 1) i = .ok (i + tsize v) := by
  have hh := sits_head h
  cases v with
  | leaf l =>
    rcases ttok_cases l with hl | hl <;> simp [tapeHead, hl] at hh <;> simp [nextIdx, tokAt, hh, tsize]
  | obj fs =>
    cases fs with
    | nil => simp [tapeHead] at hh; simp [nextIdx, tokAt, hh, tsize, fieldsTsize]
    | cons f fs => simp only [tapeHead] at hh; simp [nextIdx, tokAt, hh, tsize]; omega
  | arr vs => simp only [tapeHead] at hh; simp [nextIdx, tokAt, hh, tsize]; omega
  | hdr n b =>
    simp only [tapeHead] at hh
    have hb : SitsAt toks (i + 1) (tapeNode (i + 1) b) := by
      simp only [tapeNode] at h; exact (sitsAt_cons.mp h).2
    have hhb := sits_head hb
    cases b with
    | leaf l => simp [Node.wf] at hw
    | hdr n' b' => simp [Node.wf] at hw
    | obj fs =>
      cases fs with
      | nil => simp [tapeHead] at hhb; simp [nextIdx, nextIdxHeader, tokAt, hh, hhb, tsize, fieldsTsize]
      | cons f fs => simp only [tapeHead] at hhb; simp [nextIdx, nextIdxHeader, tokAt, hh, hhb, tsize]; omega
    | arr vs => simp only [tapeHead] at hhb; simp [nextIdx, nextIdxHeader, tokAt, hh, hhb, tsize]; omega

/-- `next_idx_values` jumps over a whole value that is not a header value -/
theorem nextIdxValues_node {toks : List TTok} {i : Nat} {v : Node}
    (h : SitsAt toks i (tapeNode i v)) (hn : v.isHdr = false) : nextIdxValues toks i = .ok (i + tsize v) := by
  have hh := sits_head h
  cases v with
  | leaf l =>
    rcases ttok_cases l with hl | hl <;> simp [tapeHead, hl] at hh <;> simp [nextIdxValues, tokAt, hh, tsize]
  | obj fs =>
    cases fs with
    | nil => simp [tapeHead] at hh; simp [nextIdxValues, tokAt, hh, tsize, fieldsTsize]
    | cons f fs => simp only [tapeHead] at hh; simp [nextIdxValues, tokAt, hh, tsize]; omega
  | arr vs => simp only [tapeHead] at hh; simp [nextIdxValues, tokAt, hh, tsize]; omega
  | hdr n b => simp [Node.isHdr] at hn

theorem key_ttok_cases (k : Key) : k.ttok = .unq k.bytes ∨ k.ttok = .quo k.bytes := by
  simp only [Key.ttok]; split <;> simp

theorem tapeFields_cons (b : Nat) (k : Key) (o : Op) (v : Node) (r : List (Key × Op × Node)) :
    tapeFields b ((k, o, v) :: r) =
      k.ttok :: (opToks o ++ (tapeNode (b + 1 + (opToks o).length) v ++
        tapeFields (b + 1 + (opToks o).length + tsize v) r)) := by
  cases o <;> simp [tapeFields, opToks, tapeNode_len]

theorem fieldsNext_eq_aux (toks : List TTok) (s e : Nat) (k : Bytes) (t : TTok) (x : Nat)
    (hk : toks[s]? = some (.unq k) ∨ toks[s]? = some (.quo k)) (hh : toks[s + 1]? = some t) (hnop : ∀ o, t ≠ .op o) (hne : ¬ (s ≥ e))
    (hnext : nextIdx toks (toks.length + 1) (s + 1) = .ok x) :
    fieldsNext toks s e = .ok (some (k, none, s + 1, x)) := by
  rcases hk with hk | hk <;> cases t <;> simp_all [fieldsNext, tokAt]

/-- `FieldsIter::next` on a field that starts at `s` -/
theorem fieldsNext_node {toks : List TTok} {s e : Nat} {k : Key} {o : Op} {v : Node} {r : List (Key × Op × Node)}
    (h : SitsAt toks s (tapeFields s ((k, o, v) :: r))) (hse : s < e) (hw : v.wf = true) :
    fieldsNext toks s e = .ok (some (k.bytes, opOpt o, s + 1 + (opToks o).length, s + 1 + (opToks o).length + tsize v)) ∧
    SitsAt toks (s + 1 + (opToks o).length) (tapeNode (s + 1 + (opToks o).length) v) ∧
    SitsAt toks (s + 1 + (opToks o).length + tsize v) (tapeFields (s + 1 + (opToks o).length + tsize v) r) := by
  rw [tapeFields_cons] at h
  obtain ⟨hk0, h1⟩ := sitsAt_cons.mp h
  have hk : toks[s]? = some (.unq k.bytes) ∨ toks[s]? = some (.quo k.bytes) := by
    rcases key_ttok_cases k with h' | h' <;> rw [h'] at hk0 <;> simp [hk0]
  obtain ⟨hop, h2⟩ := sitsAt_append.mp h1
  obtain ⟨hv, hr⟩ := sitsAt_append.mp h2
  rw [tapeNode_len] at hr
  have hv' : SitsAt toks (s + 1 + (opToks o).length) (tapeNode (s + 1 + (opToks o).length) v) := hv
  have hr' : SitsAt toks (s + 1 + (opToks o).length + tsize v) (tapeFields (s + 1 + (opToks o).length + tsize v) r) := hr
  refine ⟨?_, hv', hr'⟩
  have hne : ¬ (s ≥ e) := by omega
  have hnext := nextIdx_node toks.length hv' hw
  by_cases ho : o = .eq
  · subst ho
    simp only [opToks, List.length_nil, Nat.add_zero] at hv' hnext ⊢
    have hh := sits_head hv'
    rw [fieldsNext_eq_aux toks s e k.bytes _ _ hk hh (tapeHead_not_op _ v) hne hnext]
    simp [opOpt]
  · have hot : opToks o = [TTok.op o] := by cases o <;> simp_all [opToks]
    have hoo : opOpt o = some o := by cases o <;> simp_all [opOpt]
    rw [hot] at hop
    have ho1 : toks[s + 1]? = some (TTok.op o) := (sitsAt_cons.mp hop).1
    simp only [hot, List.length_cons, List.length_nil] at hv' hnext ⊢
    rcases hk with hk | hk <;> simp [fieldsNext, hne, tokAt, hk, ho1, hnext, hoo]

/-! ### the loops -/

/-- the `MapAccess` has no "remainder" at `e` -/
def EndOk (toks : List TTok) (e : Nat) : Prop := ¬ ((remainderOf toks e e).1 < (remainderOf toks e e).2)

theorem endOk_root (toks : List TTok) : EndOk toks toks.length := by
  simp [EndOk, remainderOf]

theorem endOk_obj {toks : List TTok} {e i e' : Nat} {m : Bool} (he : toks[e]? = some (.end_ i))
    (hi : toks[i]? = some (.obj e' m)) : EndOk toks e := by
  simp [EndOk, remainderOf, he, hi]

theorem endOk_emptyArr {toks : List TTok} {i e' : Nat} {m : Bool} (he : toks[i + 1]? = some (.end_ i))
    (hi : toks[i]? = some (.arr e' m)) : EndOk toks (i + 1) := by
  simp [EndOk, remainderOf, he, hi]

theorem tMapFold_nil {σ : Type} (toks : List TTok) (onEntry : σ → TKey → VK → R σ) (n e : Nat) (st : σ)
    (hend : EndOk toks e) : tMapFold toks onEntry (n + 1) e e false st = .ok st := by
  unfold EndOk at hend
  simp only [tMapFold, fieldsNext, ge_iff_le, Nat.le_refl, ↓reduceIte]
  split
  · rename_i heq
    simp at heq
    exact absurd heq hend
  · rfl

/-- the tape `MapAccess` with the struct visitor over the tokens of a field list -/
theorem tMapFold_structN (enc : Enc) (fs : List (Bytes × Ty)) (toks : List TTok) (f e : Nat) (hend : EndOk toks e) :
    ∀ (dfs : List (Key × Op × Node)) (s : Nat) (seen : List (Nat × Val)) (n : Nat),
    SitsAt toks s (tapeFields s dfs) → s + fieldsTsize dfs = e → dfs.length < n → wfFields dfs = true →
    (∀ k o v, (k, o, v) ∈ dfs → ∀ i t, lookupIdx (decode enc k.bytes) fs 0 = some (i, t) →
      ∀ vi, SitsAt toks vi (tapeNode vi v) → tde enc toks f t (.opval o vi) = valueOfN enc f t o v) →
    tMapFold toks (fun seen k vk => structEntry fs (k.decoded enc) (fun t => tde enc toks f t vk) seen) n s e false seen
      = structVals enc fs (valueOfN enc f) dfs seen
  | [], s, seen, n + 1, _, hs, _, _, _ => by
      simp only [fieldsTsize, Nat.add_zero] at hs
      subst hs
      rw [tMapFold_nil toks _ n s seen hend]; rfl
  | (k, o, v) :: r, s, seen, n + 1, hsit, hs, hn, hw, H => by
      simp only [wfFields, Bool.and_eq_true] at hw
      have hse : s < e := by simp only [fieldsTsize] at hs; omega
      obtain ⟨hnext, hv, hr⟩ := fieldsNext_node hsit hse hw.1
      have ih := fun seen' => tMapFold_structN enc fs toks f e hend r
        (s + 1 + (opToks o).length + tsize v) seen' n hr
        (by simp only [fieldsTsize] at hs; omega) (by simp at hn; omega) hw.2
        (fun k' o' v' hm => H k' o' v' (List.mem_cons_of_mem _ hm))
      rw [tMapFold]
      simp only [hnext, opOpt_getD, structVals]
      cases hl : lookupIdx (decode enc k.bytes) fs 0 with
      | none =>
        have hE : structEntry fs (TKey.decoded enc (.key k.bytes))
            (fun t => tde enc toks f t (.opval o (s + 1 + (opToks o).length))) seen = .ok seen := by
          simp [structEntry, TKey.decoded, hl]
        rw [hE]; exact ih seen
      | some it =>
        obtain ⟨i, t⟩ := it
        by_cases hsn : (seenGet i seen).isSome
        · have hE : structEntry fs (TKey.decoded enc (.key k.bytes))
              (fun t => tde enc toks f t (.opval o (s + 1 + (opToks o).length))) seen
                = .error (.duplicate (decode enc k.bytes)) := by
            simp [structEntry, TKey.decoded, hl, hsn]
          rw [hE]; simp [hsn]
        · have hE : structEntry fs (TKey.decoded enc (.key k.bytes))
              (fun t => tde enc toks f t (.opval o (s + 1 + (opToks o).length))) seen
                = (match valueOfN enc f t o v with
                   | .error x => .error x
                   | .ok x => .ok (seen ++ [(i, x)])) := by
            simp only [structEntry, TKey.decoded, hl, hsn, Bool.false_eq_true, ↓reduceIte]
            rw [H k o v (List.mem_cons_self ..) i t hl _ hv]
            cases valueOfN enc f t o v <;> rfl
          rw [hE]
          simp only [hsn, Bool.false_eq_true, ↓reduceIte]
          cases valueOfN enc f t o v with
          | error e => rfl
          | ok x => exact ih _

/-- the tape `MapAccess` with the map visitor over the tokens of a field list -/
theorem tMapFold_mapN (enc : Enc) (t : Ty) (toks : List TTok) (f e : Nat) (hend : EndOk toks e) :
    ∀ (dfs : List (Key × Op × Node)) (s : Nat) (acc : List (Val × Val)) (n : Nat),
    SitsAt toks s (tapeFields s dfs) → s + fieldsTsize dfs = e → dfs.length < n → wfFields dfs = true →
    (∀ k o v, (k, o, v) ∈ dfs →
      ∀ vi, SitsAt toks vi (tapeNode vi v) → tde enc toks f t (.opval o vi) = valueOfN enc f t o v) →
    tMapFold toks (tMapEntry enc (tde enc toks f t)) n s e false acc = mapVals enc (valueOfN enc f t) dfs acc
  | [], s, acc, n + 1, _, hs, _, _, _ => by
      simp only [fieldsTsize, Nat.add_zero] at hs
      subst hs
      rw [tMapFold_nil toks _ n s acc hend]; rfl
  | (k, o, v) :: r, s, acc, n + 1, hsit, hs, hn, hw, H => by
      simp only [wfFields, Bool.and_eq_true] at hw
      have hse : s < e := by simp only [fieldsTsize] at hs; omega
      obtain ⟨hnext, hv, hr⟩ := fieldsNext_node hsit hse hw.1
      have ih := fun acc' => tMapFold_mapN enc t toks f e hend r
        (s + 1 + (opToks o).length + tsize v) acc' n hr
        (by simp only [fieldsTsize] at hs; omega) (by simp at hn; omega) hw.2
        (fun k' o' v' hm => H k' o' v' (List.mem_cons_of_mem _ hm))
      rw [tMapFold]
      simp only [hnext, opOpt_getD, mapVals, tMapEntry, TKey.decoded]
      rw [H k o v (List.mem_cons_self ..) _ hv]
      cases valueOfN enc f t o v with
      | error e => rfl
      | ok x => exact ih _

theorem tapeNodes_cons (s : Nat) (v : Node) (r : List Node) (hn : v.isHdr = false) :
    tapeNodes s (v :: r) = tapeNode s v ++ tapeNodes (s + tsize v) r := by
  cases v <;> simp_all [tapeNodes, Node.isHdr, tapeNode_len]

/-- the tape `SeqAccess` over the tokens of a value list without header values -/
theorem tSeqFold_nodesN (toks : List TTok) (onElem : VK → R Val) (valF : Node → R Val) (e : Nat) :
    ∀ (vs : List Node) (s n : Nat), SitsAt toks s (tapeNodes s vs) → s + nodesTsize vs = e → vs.length < n →
    (∀ v, v ∈ vs → v.isHdr = false) →
    (∀ v, v ∈ vs → ∀ i, SitsAt toks i (tapeNode i v) → onElem (.value i) = valF v) →
    tSeqFold toks onElem n s e = seqVals valF vs
  | [], s, n + 1, _, hs, _, _, _ => by
      simp only [nodesTsize, Nat.add_zero] at hs
      simp [tSeqFold, hs, seqVals]
  | v :: r, s, n + 1, hsit, hs, hn, hh, H => by
      have hnh := hh v (List.mem_cons_self ..)
      rw [tapeNodes_cons s v r hnh] at hsit
      obtain ⟨hv, hr⟩ := sitsAt_append.mp hsit
      rw [tapeNode_len] at hr
      have hse : s < e := by have := tsize_pos v; simp only [nodesTsize] at hs; omega
      have ih := tSeqFold_nodesN toks onElem valF e r (s + tsize v) n hr
        (by simp only [nodesTsize] at hs; omega) (by simp at hn; omega)
        (fun v' hm => hh v' (List.mem_cons_of_mem _ hm)) (fun v' hm => H v' (List.mem_cons_of_mem _ hm))
      simp only [tSeqFold, hse, ↓reduceIte, nextIdxValues_node hv hnh, H v (List.mem_cons_self ..) s hv, seqVals, ih]
      cases valF v with
      | error x => rfl
      | ok x => cases seqVals valF r <;> rfl

/-- tuple loop over the tokens of a value list without header values: as many elements as the tuple has
types are read, whatever follows them is not looked at -/
theorem tTupFold_nodesN (toks : List TTok) (onElem : Ty → VK → R Val) (valF : Ty → Node → R Val) (e : Nat) :
    ∀ (ts : List Ty) (xs : List Node) (s : Nat), SitsAt toks s (tapeNodes s xs) → s + nodesTsize xs = e →
    (∀ x, x ∈ xs → x.isHdr = false) →
    (∀ t x, (t, x) ∈ List.zip ts xs → ∀ i, SitsAt toks i (tapeNode i x) → onElem t (.value i) = valF t x) →
    tTupFold toks onElem ts s e = tupVals valF ts xs
  | [], xs, s, _, _, _, _ => by simp [tTupFold, tupVals]
  | t :: r, [], s, _, hs, _, _ => by
      simp only [nodesTsize, Nat.add_zero] at hs
      simp [tTupFold, hs, tupVals]
  | t :: r, x :: xs, s, hsit, hs, hh, H => by
      have hnh := hh x (List.mem_cons_self ..)
      rw [tapeNodes_cons s x xs hnh] at hsit
      obtain ⟨hv, hr⟩ := sitsAt_append.mp hsit
      rw [tapeNode_len] at hr
      have hse : s < e := by have := tsize_pos x; simp only [nodesTsize] at hs; omega
      have ih := tTupFold_nodesN toks onElem valF e r xs (s + tsize x) hr
        (by simp only [nodesTsize] at hs; omega)
        (fun v' hm => hh v' (List.mem_cons_of_mem _ hm)) (fun t' x' hm => H t' x' (by simp [List.zip_cons_cons, hm]))
      simp only [tTupFold, hse, ↓reduceIte, nextIdxValues_node hv hnh, H t x (by simp [List.zip_cons_cons]) s hv, tupVals, ih]
      cases valF t x with
      | error e' => rfl
      | ok v => cases tupVals valF r xs <;> rfl

/-! ### the value deserializer on the tokens of one value -/

/-- the `ValueKind` a value is read with: `OperatorValue` in field position, `Value` elsewhere -/
def vkOf (b : Bool) (o : Op) (i : Nat) : VK := if b then .opval o i else .value i

theorem vkOf_at (b : Bool) (o : Op) (i : Nat) : VK.at (vkOf b o i) i := by
  cases b
  · exact Or.inr rfl
  · exact Or.inl ⟨o, rfl⟩

theorem tShape_map_obj (enc : Enc) {toks : List TTok} {i e : Nat} {m : Bool} (h : toks[i]? = some (.obj e m))
    (b : Bool) (o : Op) : tShape enc toks shapeFuel .map (vkOf b o i) = .ok (.map (i + 1) e) := by
  cases b <;> simp [vkOf, shapeFuel, tShape, tokAt, h]

theorem tShape_map_arr (enc : Enc) {toks : List TTok} {i e : Nat} {m : Bool} (h : toks[i]? = some (.arr e m))
    (b : Bool) (o : Op) : tShape enc toks shapeFuel .map (vkOf b o i) = .ok (.map e e) := by
  cases b <;> simp [vkOf, shapeFuel, tShape, tokAt, h]

theorem tShape_seq_arr (enc : Enc) {toks : List TTok} {i e : Nat} {m : Bool} (h : toks[i]? = some (.arr e m))
    (b : Bool) (o : Op) : tShape enc toks shapeFuel .seq (vkOf b o i) = .ok (.seq (i + 1) e) := by
  cases b <;> simp [vkOf, shapeFuel, tShape, readArray, tokAt, h]

theorem expand_nohdr : ∀ (vs : List Node), (∀ v, v ∈ vs → v.isHdr = false) → expandNodes vs = vs
  | [], _ => rfl
  | v :: r, h => by
      have hv := h v (List.mem_cons_self ..)
      have ih := expand_nohdr r (fun v' hm => h v' (List.mem_cons_of_mem _ hm))
      cases v <;> simp_all [expandNodes, Node.isHdr]

theorem wfNodes_mem : ∀ (vs : List Node), wfNodes vs = true → ∀ v, v ∈ vs → v.wf = true
  | [], _, v, hm => by simp at hm
  | v0 :: r, h, v, hm => by
      simp only [wfNodes, Bool.and_eq_true] at h
      simp only [List.mem_cons] at hm
      rcases hm with rfl | hm
      · exact h.1
      · exact wfNodes_mem r h.2 v hm

/-- parts of a non-empty object on the tape -/
theorem sits_obj {toks : List TTok} {i : Nat} {f : Key × Op × Node} {fs : List (Key × Op × Node)}
    (h : SitsAt toks i (tapeNode i (.obj (f :: fs)))) :
    toks[i]? = some (.obj (i + 1 + fieldsTsize (f :: fs)) false) ∧
    SitsAt toks (i + 1) (tapeFields (i + 1) (f :: fs)) ∧
    toks[i + 1 + fieldsTsize (f :: fs)]? = some (.end_ i) := by
  simp only [tapeNode, tapeFields_len] at h
  obtain ⟨h0, h1⟩ := sitsAt_cons.mp h
  obtain ⟨h2, h3⟩ := sitsAt_append.mp h1
  rw [tapeFields_len] at h3
  exact ⟨h0, h2, (sitsAt_cons.mp h3).1⟩

theorem sits_arr {toks : List TTok} {i : Nat} {vs : List Node} (h : SitsAt toks i (tapeNode i (.arr vs))) :
    toks[i]? = some (.arr (i + 1 + nodesTsize vs) false) ∧ SitsAt toks (i + 1) (tapeNodes (i + 1) vs) := by
  simp only [tapeNode, tapeNodes_len] at h
  obtain ⟨h0, h1⟩ := sitsAt_cons.mp h
  exact ⟨h0, (sitsAt_append.mp h1).1⟩

theorem sits_emptyObj {toks : List TTok} {i : Nat} (h : SitsAt toks i (tapeNode i (.obj []))) :
    toks[i]? = some (.arr (i + 1) false) ∧ toks[i + 1]? = some (.end_ i) := by
  simp only [tapeNode] at h
  obtain ⟨h0, h1⟩ := sitsAt_cons.mp h
  exact ⟨h0, (sitsAt_cons.mp h1).1⟩

theorem sits_len {toks : List TTok} {i : Nat} {v : Node} (h : SitsAt toks i (tapeNode i v)) :
    i + tsize v ≤ toks.length := by
  have := sitsAt_bound h (by obtain ⟨tl, htl⟩ := tapeNode_head i v; rw [htl]; simp)
  rwa [tapeNode_len] at this

/-- inside an array the tape of a header value is the tape of its name followed by its body -/
theorem tapeNodes_expand : ∀ (vs : List Node) (s : Nat), wfNodes vs = true → tapeNodes s (expandNodes vs) = tapeNodes s vs
  | [], s, _ => rfl
  | .leaf l :: r, s, h => by
      simp only [wfNodes, Bool.and_eq_true] at h
      simp [expandNodes, tapeNodes, tapeNodes_expand r _ h.2]
  | .obj fs :: r, s, h => by
      simp only [wfNodes, Bool.and_eq_true] at h
      simp [expandNodes, tapeNodes, tapeNodes_expand r _ h.2]
  | .arr vs :: r, s, h => by
      simp only [wfNodes, Bool.and_eq_true] at h
      simp [expandNodes, tapeNodes, tapeNodes_expand r _ h.2]
  | .hdr n b :: r, s, h => by
      simp only [wfNodes, Bool.and_eq_true] at h
      have hb := hdr_wf_body n b h.1
      have ih := fun s' => tapeNodes_expand r s' h.2
      cases b with
      | leaf l => simp [Node.wf] at h
      | hdr n' b' => simp [Node.wf] at h
      | obj fs => simp [expandNodes, tapeNodes, Leaf.ttok, tapeNode_len, ih, tapeNode.eq_1]
      | arr vs => simp [expandNodes, tapeNodes, Leaf.ttok, tapeNode_len, ih, tapeNode.eq_1]

theorem nodesTsize_expand (vs : List Node) (h : wfNodes vs = true) : nodesTsize (expandNodes vs) = nodesTsize vs := by
  rw [← tapeNodes_len (expandNodes vs) 0, ← tapeNodes_len vs 0, tapeNodes_expand vs 0 h]

theorem expand_wf : ∀ (vs : List Node), wfNodes vs = true → wfNodes (expandNodes vs) = true
  | [], _ => rfl
  | .leaf l :: r, h => by
      simp only [wfNodes, Bool.and_eq_true] at h
      simp [expandNodes, wfNodes, Node.wf, expand_wf r h.2]
  | .obj fs :: r, h => by
      simp only [wfNodes, Bool.and_eq_true] at h
      simp [expandNodes, wfNodes, h.1, expand_wf r h.2]
  | .arr vs :: r, h => by
      simp only [wfNodes, Bool.and_eq_true] at h
      simp [expandNodes, wfNodes, h.1, expand_wf r h.2]
  | .hdr n b :: r, h => by
      simp only [wfNodes, Bool.and_eq_true] at h
      have hb := hdr_wf_body n b h.1
      simp [expandNodes, wfNodes, Node.wf, hb.1, expand_wf r h.2]

/-- a header value in field position read with a scalar target other than `any`: its name -/
theorem tde_hdr_scalar (enc : Enc) (toks : List TTok) (i : Nat) (n : Bytes) (body : Node)
    (hsit : SitsAt toks i (tapeNode i (.hdr n body))) (hw : (Node.hdr n body).wf = true)
    (ty : Ty) (hp : Ty.isPlainScalar ty = true) (hna : ty ≠ .any) (f : Nat) (b : Bool) (o : Op) :
    tde enc toks (f + 1) ty (vkOf b o i) = valueOfScalar enc ty n := by
  have hhd := sits_head hsit
  simp only [tapeHead] at hhd
  have hb : SitsAt toks (i + 1) (tapeNode (i + 1) body) := by
    simp only [tapeNode] at hsit; exact (sitsAt_cons.mp hsit).2
  have hhb := sits_head hb
  have hwb := hdr_wf_body n body hw
  have hnext := nextIdx_node toks.length hb hwb.1
  have hts := tsize_pos body
  -- the fallback `deserialize_any` on a header succeeds (it offers the body)
  have hshape : ∃ sh, tShape enc toks shapeFuel .any (vkOf b o i) = .ok sh := by
    cases body with
    | leaf l => simp [Node.wf] at hw
    | hdr n' b' => simp [Node.wf] at hw
    | obj fs =>
      cases fs with
      | nil => simp [tapeHead] at hhb; cases b <;> simp [vkOf, shapeFuel, tShape, readArray, tokAt, hhd, hhb]
      | cons fd fs' => simp only [tapeHead] at hhb; cases b <;> simp [vkOf, shapeFuel, tShape, tokAt, hhd, hhb]
    | arr vs => simp only [tapeHead] at hhb; cases b <;> simp [vkOf, shapeFuel, tShape, readArray, tokAt, hhd, hhb]
  obtain ⟨sh, hsh⟩ := hshape
  have hleaf : ∀ t : Ty, t.isNumLeaf = true → tLeaf enc toks t (vkOf b o i) = valueOfScalar enc t n := by
    intro t ht
    have hrs : vkReadScalar toks (vkOf b o i) = .ok (some n) := by
      cases b <;> simp [vkOf, vkReadScalar, tokAt, hhd, TTok.asScalar]
    simp only [tLeaf, hrs, Option.bind, hsh]
    cases t <;> simp_all [Ty.isNumLeaf, valueOfScalar] <;> split <;> simp_all
  cases ty with
  | bool => simpa [tde] using hleaf .bool rfl
  | i64 => simpa [tde] using hleaf .i64 rfl
  | u64 => simpa [tde] using hleaf .u64 rfl
  | i32 => simpa [tde] using hleaf .i32 rfl
  | i16 => simpa [tde] using hleaf .i16 rfl
  | u16 => simpa [tde] using hleaf .u16 rfl
  | i8 => simpa [tde] using hleaf .i8 rfl
  | u8 => simpa [tde] using hleaf .u8 rfl
  | u32 => simpa [tde] using hleaf .u32 rfl
  | f64 => simpa [tde] using hleaf .f64 rfl
  | f32 => simpa [tde] using hleaf .f32 rfl
  | str => cases b <;> simp [vkOf, tde, tStr, vkReadStr, tokAt, hhd, TTok.asScalar, valueOfScalar, Except.map]
  | any => exact absurd rfl hna
  | en vs =>
    have hra : readArray toks i = .ok (some (i, i + 1 + tsize body)) := by
      simp [readArray, tokAt, hhd, hnext]
    have hnv : nextIdxValues toks i = .ok (i + 1) := by simp [nextIdxValues, tokAt, hhd]
    have hstr : tStr enc toks (.value i) = .ok (decode enc n) := by
      simp [tStr, vkReadStr, tokAt, hhd, TTok.asScalar]
    cases b <;> simp [vkOf, tde, hra, hnv, hstr, valueOfScalar] <;> split <;> simp_all <;> omega
  | ign => simp [Ty.isPlainScalar] at hp
  | opt t => simp [Ty.isPlainScalar] at hp
  | seq t => simp [Ty.isPlainScalar] at hp
  | map t => simp [Ty.isPlainScalar] at hp
  | prop t => simp [Ty.isPlainScalar] at hp
  | st fs => simp [Ty.isPlainScalar] at hp
  | tup ts => simp [Ty.isPlainScalar] at hp

/-! ### `any` on scalars and arrays; benign mismatches -/

theorem tShape_any_arr (enc : Enc) {toks : List TTok} {i e : Nat} {m : Bool} (h : toks[i]? = some (.arr e m))
    (b : Bool) (o : Op) : tShape enc toks shapeFuel .any (vkOf b o i) = .ok (.seq (i + 1) e) := by
  cases b <;> simp [vkOf, shapeFuel, tShape, readArray, tokAt, h]

theorem tShape_any_obj (enc : Enc) {toks : List TTok} {i e : Nat} {m : Bool} (h : toks[i]? = some (.obj e m))
    (b : Bool) (o : Op) : tShape enc toks shapeFuel .any (vkOf b o i) = .ok (.map (i + 1) e) := by
  cases b <;> simp [vkOf, shapeFuel, tShape, tokAt, h]

theorem tShape_map_leaf (enc : Enc) {toks : List TTok} {i : Nat} {l : Leaf} (h : toks[i]? = some l.ttok)
    (b : Bool) (o : Op) : ∃ s bo, tShape enc toks shapeFuel .map (vkOf b o i) = .ok (.str s bo) := by
  rcases ttok_cases l with hl | hl <;> rw [hl] at h <;>
    cases b <;> simp [vkOf, shapeFuel, tShape, tokAt, h]

theorem tsize_le_of_mem : ∀ (vs : List Node) (v : Node), v ∈ vs → tsize v ≤ nodesTsize vs
  | [], v, hm => by simp at hm
  | v0 :: r, v, hm => by
      simp only [List.mem_cons] at hm
      simp only [nodesTsize]
      rcases hm with rfl | hm
      · omega
      · have := tsize_le_of_mem r v hm; omega

theorem sits_emptyArr {toks : List TTok} {i : Nat} (h : SitsAt toks i (tapeNode i (.arr []))) :
    toks[i]? = some (.arr (i + 1) false) ∧ toks[i + 1]? = some (.end_ i) := by
  simp only [tapeNode, tapeNodes, List.length_nil, Nat.add_zero, List.nil_append] at h
  obtain ⟨h0, h1⟩ := sitsAt_cons.mp h
  exact ⟨h0, (sitsAt_cons.mp h1).1⟩

/-- `AnyVisitor` on the tape path over a scalar / an array of scalars and arrays: the tree of the values -/
theorem tAny_node (enc : Enc) (toks : List TTok) : ∀ (n : Nat) (v : Node) (i : Nat) (b : Bool) (o : Op),
    v.anyOk = true → v.wf = true → SitsAt toks i (tapeNode i v) → tsize v ≤ n →
    tAny enc toks n (vkOf b o i) = anyVal enc v := by
  intro n
  induction n with
  | zero => intro v i b o _ _ _ h; have := tsize_pos v; omega
  | succ n ih =>
    intro v i b o hok hwf hsit hn
    cases v with
    | leaf l =>
      have hh := sits_head hsit
      simp only [tapeHead] at hh
      rcases ttok_cases l with hl | hl <;> rw [hl] at hh <;>
        cases b <;> simp [vkOf, tAny, tShape, shapeFuel, tokAt, hh, anyVal]
    | obj fs => simp [Node.anyOk] at hok
    | hdr h body => simp [Node.anyOk] at hok
    | arr vs =>
      simp only [Node.anyOk] at hok
      obtain ⟨h0, h1⟩ := sits_arr hsit
      have hwn : wfNodes vs = true := by simpa [Node.wf] using hwf
      have hlen := sits_len hsit
      have hvl := nodesTsize_len (expandNodes vs)
      have hsz := nodesTsize_expand vs hwn
      rw [← tapeNodes_expand vs (i + 1) hwn] at h1
      have := tSeqFold_nodesN toks (tAny enc toks n) (anyVal enc) (i + 1 + nodesTsize vs) (expandNodes vs) (i + 1)
        (toks.length + 1) h1 (by omega) (by simp only [tsize] at hlen; omega) (fun v hm => (expand_mem vs hwn v hm).2)
        (fun v hm i' hs' => by
          have := ih v i' false .eq (anyOks_expand vs hok v hm) (expand_mem vs hwn v hm).1 hs'
            (by have := tsize_le_of_mem _ v hm; simp only [tsize] at hn; omega)
          simpa [vkOf] using this)
      simp only [tAny, tShape_any_arr enc h0, this, anyVal, anyVals_expand]

theorem tde_leaf_on_cont (enc : Enc) (toks : List TTok) (f : Nat) (ty : Ty) (h : Ty.isTypedLeaf ty = true)
    (i : Nat) (b : Bool) (o : Op) (tok : TTok) (ht : toks[i]? = some tok)
    (hc : (∃ e m, tok = .arr e m) ∨ (∃ e m, tok = .obj e m))
    (sh : TShape) (hsh : tShape enc toks shapeFuel .any (vkOf b o i) = .ok sh) (hnstr : ∀ s bo, sh ≠ .str s bo) :
    tde enc toks (f + 1) ty (vkOf b o i) = .error .type := by
  have hrs : vkReadScalar toks (vkOf b o i) = .ok none := by
    rcases hc with ⟨e, m, rfl⟩ | ⟨e, m, rfl⟩ <;> cases b <;> simp [vkOf, vkReadScalar, tokAt, ht, TTok.asScalar]
  have hrstr : vkReadStr enc toks (vkOf b o i) = .ok none := by
    rcases hc with ⟨e, m, rfl⟩ | ⟨e, m, rfl⟩ <;> cases b <;> simp [vkOf, vkReadStr, tokAt, ht, TTok.asScalar]
  have hstr : tStr enc toks (vkOf b o i) = .error .type := by
    cases sh with
    | str s bo => exact absurd rfl (hnstr s bo)
    | seq s e => simp only [tStr, hrstr, hsh]
    | map s e => simp only [tStr, hrstr, hsh]
  rcases typedLeaf_cases ty h with rfl | rfl | rfl | rfl | rfl | rfl | rfl | rfl | rfl | rfl | rfl | rfl
  case inr.inr.inr.inr.inr.inr.inr.inr.inr.inr.inr => simp only [tde, hstr]; rfl
  all_goals simp only [tde, tLeaf, hrs, Option.bind, hsh]

/-- tape path on the tokens of one value: the spec's value -/
theorem tde_node (enc : Enc) (toks : List TTok) : ∀ (f : Nat) (ty : Ty) (b : Bool) (o : Op) (v : Node) (i : Nat),
    FitsT enc b ty v → v.wf = true → SitsAt toks i (tapeNode i v) → ty.height < f → (b = false → o = .eq) →
    tde enc toks f ty (vkOf b o i) = valueOfN enc f ty o v := by
  intro f
  induction f with
  | zero => intro ty b o v i _ _ _ h; omega
  | succ f ih =>
    intro ty b o v i hfit hwf hsit hh hbo
    cases hfit with
    | @scalar _ ty l hp =>
      have ⟨hs, hw⟩ := plain_isScalar ty hp
      have hhd := sits_head hsit
      have hq : toks[i]? = some (.unq l.bytes) ∨ toks[i]? = some (.quo l.bytes) := by
        rw [hhd]; rcases ttok_cases l with h | h <;> simp [tapeHead, h]
      rw [valueOfN_plain enc f ty hp]
      exact tde_scalar enc toks i l.bytes hq ty hs (f + 1) (by omega) _ (vkOf_at b o i)
    | @hdrScalar _ ty n body hp hna =>
      rw [valueOfN_plain_hdr enc f ty hp]
      exact tde_hdr_scalar enc toks i n body hsit hwf ty hp hna f b o
    | ign => simp [tde, valueOfN]
    | @opt _ t v hf =>
      have := ih t b o v i hf hwf hsit (by simp [Ty.height] at hh; omega) hbo
      simp only [tde, this, valueOfN]
    | @prop t v hf =>
      have := ih t false .eq v i hf hwf hsit (by simp [Ty.height] at hh; omega) (fun _ => rfl)
      simp only [vkOf, Bool.false_eq_true, ↓reduceIte] at this
      simp only [vkOf, ↓reduceIte, tde, this, valueOfN]
    | @seq _ t vs hall =>
      obtain ⟨h0, h1⟩ := sits_arr hsit
      have hwn : wfNodes vs = true := by simpa [Node.wf] using hwf
      have hlen := sits_len hsit
      have hvl := nodesTsize_len (expandNodes vs)
      have hsz := nodesTsize_expand vs hwn
      rw [← tapeNodes_expand vs (i + 1) hwn] at h1
      have := tSeqFold_nodesN toks (tde enc toks f t) (valueOfN enc f t .eq) (i + 1 + nodesTsize vs) (expandNodes vs) (i + 1)
        (toks.length + 1) h1 (by omega) (by simp only [tsize] at hlen; omega) (fun v hm => (expand_mem vs hwn v hm).2)
        (fun v hm i' hs' => by
          have := ih t false .eq v i' (hall v hm) (expand_mem vs hwn v hm).1 hs' (by simp [Ty.height] at hh; omega) (fun _ => rfl)
          simpa [vkOf] using this)
      rw [tde, valueOfN]
      simp only [tShape_seq_arr enc h0, this]
    | @tup _ ts vs _ hall =>
      obtain ⟨h0, h1⟩ := sits_arr hsit
      have hwn : wfNodes vs = true := by simpa [Node.wf] using hwf
      have hsz := nodesTsize_expand vs hwn
      rw [← tapeNodes_expand vs (i + 1) hwn] at h1
      have := tTupFold_nodesN toks (tde enc toks f) (fun t x => valueOfN enc f t .eq x) (i + 1 + nodesTsize vs) ts (expandNodes vs) (i + 1)
        h1 (by omega) (fun v hm => (expand_mem vs hwn v hm).2)
        (fun t x hm i' hs' => by
          have := ih t false .eq x i' (hall t x hm) (expand_mem vs hwn x (List.of_mem_zip hm).2).1 hs'
            (by have := mem_heightTs ts t (List.of_mem_zip hm).1; simp [Ty.height] at hh; omega) (fun _ => rfl)
          simpa [vkOf] using this)
      rw [tde, valueOfN]
      simp only [tShape_seq_arr enc h0, this]
    | @map _ t dfs hall =>
      have hwn : wfFields dfs = true := by simpa [Node.wf] using hwf
      rw [tde, valueOfN]
      cases dfs with
      | nil =>
        obtain ⟨h0, h1⟩ := sits_emptyObj hsit
        simp only [tShape_map_arr enc h0, mapVals]
        rw [tMapFold_nil toks _ (toks.length + 1) (i + 1) [] (endOk_emptyArr h1 h0)]
      | cons fd fs' =>
        obtain ⟨h0, h1, h2⟩ := sits_obj hsit
        have hlen := sits_len hsit
        have hfl := fieldsTsize_len (fd :: fs')
        have := tMapFold_mapN enc t toks f (i + 1 + fieldsTsize (fd :: fs')) (endOk_obj h2 h0) (fd :: fs') (i + 1) []
          (toks.length + 2) h1 rfl (by simp only [tsize] at hlen; omega) hwn
          (fun k o' v hm vi hs' => by
            have := ih t true o' v vi (hall k o' v hm) (wfFields_mem _ hwn k o' v hm) hs' (by simp [Ty.height] at hh; omega) (by simp)
            simpa [vkOf] using this)
        simp only [tShape_map_obj enc h0, this]
    | @st _ fs dfs hall =>
      have hwn : wfFields dfs = true := by simpa [Node.wf] using hwf
      rw [tde, valueOfN]
      cases dfs with
      | nil =>
        obtain ⟨h0, h1⟩ := sits_emptyObj hsit
        simp only [tShape_map_arr enc h0, structVals]
        rw [tMapFold_nil toks _ (toks.length + 1) (i + 1) [] (endOk_emptyArr h1 h0)]
      | cons fd fs' =>
        obtain ⟨h0, h1, h2⟩ := sits_obj hsit
        have hlen := sits_len hsit
        have hfl := fieldsTsize_len (fd :: fs')
        have := tMapFold_structN enc fs toks f (i + 1 + fieldsTsize (fd :: fs')) (endOk_obj h2 h0) (fd :: fs') (i + 1) []
          (toks.length + 2) h1 rfl (by simp only [tsize] at hlen; omega) hwn
          (fun k o' v hm i' t hl vi hs' => by
            have := ih t true o' v vi (hall k o' v hm i' t hl) (wfFields_mem _ hwn k o' v hm) hs'
              (by have := lookupIdx_height _ fs 0 i' t hl; simp [Ty.height] at hh; omega) (by simp)
            simpa [vkOf] using this)
        simp only [tShape_map_obj enc h0, this]
        cases structVals enc fs (valueOfN enc f) (fd :: fs') [] <;> rfl
    | @anyArr _ vs hok =>
      have hlen := sits_len hsit
      simp only [tde, valueOfN]
      exact tAny_node enc toks _ (.arr vs) i b o (by simpa [Node.anyOk] using hok) hwf hsit (by omega)
    | @emptyMap _ t =>
      obtain ⟨h0, h1⟩ := sits_emptyArr hsit
      rw [tde, valueOfN]
      simp only [tShape_map_arr enc h0]
      rw [tMapFold_nil toks _ (toks.length + 1) (i + 1) [] (endOk_emptyArr h1 h0)]
      rfl
    | @emptySt _ fs =>
      obtain ⟨h0, h1⟩ := sits_emptyArr hsit
      rw [tde, valueOfN]
      simp only [tShape_map_arr enc h0]
      rw [tMapFold_nil toks _ (toks.length + 1) (i + 1) [] (endOk_emptyArr h1 h0)]
    | @leafOnObj _ ty dfs hty =>
      rw [valueOfN_leaf_on_cont enc f ty hty o _ (Or.inl ⟨dfs, rfl⟩)]
      cases dfs with
      | nil =>
        obtain ⟨h0, _⟩ := sits_emptyObj hsit
        exact tde_leaf_on_cont enc toks f ty hty i b o _ h0 (Or.inl ⟨_, _, rfl⟩) _ (tShape_any_arr enc h0 b o) (fun _ _ h => by cases h)
      | cons fd fs' =>
        obtain ⟨h0, _, _⟩ := sits_obj hsit
        exact tde_leaf_on_cont enc toks f ty hty i b o _ h0 (Or.inr ⟨_, _, rfl⟩) _ (tShape_any_obj enc h0 b o) (fun _ _ h => by cases h)
    | @leafOnArr _ ty vs hty =>
      rw [valueOfN_leaf_on_cont enc f ty hty o _ (Or.inr ⟨vs, rfl⟩)]
      obtain ⟨h0, _⟩ := sits_arr hsit
      exact tde_leaf_on_cont enc toks f ty hty i b o _ h0 (Or.inl ⟨_, _, rfl⟩) _ (tShape_any_arr enc h0 b o) (fun _ _ h => by cases h)
    | @mapOnLeaf _ t l =>
      have hh := sits_head hsit
      simp only [tapeHead] at hh
      obtain ⟨s, bo, hs⟩ := tShape_map_leaf enc hh b o
      simp only [tde, hs, valueOfN]
    | @stOnLeaf _ fs l =>
      have hh := sits_head hsit
      simp only [tapeHead] at hh
      obtain ⟨s, bo, hs⟩ := tShape_map_leaf enc hh b o
      simp only [tde, hs, valueOfN]

end Jomini.TextDe

namespace Jomini.TextDe
open Jomini Jomini.TextDoc

/-- the tape path on the tape of a document yields the document's value -/
theorem deTape_eq_valueOf (enc : Enc) (ty : Ty) (d : Doc) (hroot : Ty.isRoot ty = true)
    (hwf : wfFields d = true) (hfit : FitsT enc false ty (.obj d)) :
    deTape enc ty (tapeOf d) = valueOf enc ty d := by
  have hsit : SitsAt (tapeOf d) 0 (tapeFields 0 d) := sitsAt_self _
  have hlen : (tapeOf d).length = fieldsTsize d := tapeFields_len d 0
  have hfl := fieldsTsize_len d
  cases hfit with
  | ign => simp [deTape, valueOf]
  | @opt _ t _ h => simp [deTape, valueOf]
  | leafOnObj hty => cases ty <;> simp [Ty.isRoot, Ty.isTypedLeaf] at hroot hty
  | @map _ t _ hall =>
    have := tMapFold_mapN enc t (tapeOf d) (Ty.height (.map t)) (tapeOf d).length (endOk_root _) d 0 []
      ((tapeOf d).length + 2) hsit (by omega) (by omega) hwf
      (fun k o' v hm vi hs' => by
        have := tde_node enc (tapeOf d) (Ty.height (.map t)) t true o' v vi (hall k o' v hm) (wfFields_mem _ hwf k o' v hm) hs'
          (by simp [Ty.height]) (by simp)
        simpa [vkOf] using this)
    simp only [deTape, valueOf, Ty.height] at this ⊢
    rw [this, valueOfN]
  | @st _ fs _ hall =>
    have := tMapFold_structN enc fs (tapeOf d) (Ty.height (.st fs)) (tapeOf d).length (endOk_root _) d 0 []
      ((tapeOf d).length + 2) hsit (by omega) (by omega) hwf
      (fun k o' v hm i' t hl vi hs' => by
        have := tde_node enc (tapeOf d) (Ty.height (.st fs)) t true o' v vi (hall k o' v hm i' t hl) (wfFields_mem _ hwf k o' v hm) hs'
          (by have := lookupIdx_height _ fs 0 i' t hl; simp [Ty.height]; omega) (by simp)
        simpa [vkOf] using this)
    simp only [deTape, valueOf, Ty.height] at this ⊢
    rw [this, valueOfN]
    cases structVals enc fs (valueOfN enc (Ty.heightFs fs + 1)) d [] <;> rfl

/-- what the tape path needs implies what the stream path needs -/
theorem fitsT_fits (enc : Enc) : ∀ {b : Bool} {ty : Ty} {v : Node}, FitsT enc b ty v → Fits enc ty v
  | _, _, _, .scalar h => .scalar h
  | _, _, _, .hdrScalar h _ => .hdrScalar h
  | _, _, _, .ign => .ign
  | _, _, _, .opt h => .opt (fitsT_fits enc h)
  | _, _, _, .prop h => .prop (fitsT_fits enc h)
  | _, _, _, .seq h => .seq (fun v hv => fitsT_fits enc (h v hv))
  | _, _, _, .map h => .map (fun k o v hm => fitsT_fits enc (h k o v hm))
  | _, _, _, .st h => .st (fun k o v hm i t hl => fitsT_fits enc (h k o v hm i t hl))
  | _, _, _, .anyArr h => .anyArr h
  | _, _, _, .emptyMap => .emptyMap
  | _, _, _, .emptySt => .emptySt
  | _, _, _, .leafOnObj h => .leafOnObj h
  | _, _, _, .leafOnArr h => .leafOnArr h
  | _, _, _, .mapOnLeaf => .mapOnLeaf
  | _, _, _, .stOnLeaf => .stOnLeaf
  | _, _, _, .tup hl h => .tup hl (fun t x hm => fitsT_fits enc (h t x hm))

/-- both parse paths yield the same result -/
theorem deTape_eq_deStream (enc : Enc) (ty : Ty) (d : Doc) (hroot : Ty.isRoot ty = true)
    (hwf : wfFields d = true) (hfit : FitsT enc false ty (.obj d)) :
    deTape enc ty (tapeOf d) = deStream enc ty (lexemes d) := by
  rw [deTape_eq_valueOf enc ty d hroot hwf hfit, deStream_eq_valueOf enc ty d hroot hwf (fitsT_fits enc hfit)]

end Jomini.TextDe
