import JominiModel.Model.Writer
import JominiModel.Spec.Writer
import JominiModel.Model.Scalar
import JominiModel.Proofs.Scalar
/-
Helper lemmas for the writer model (C14 / C15).
-/
namespace Jomini.Writer
open Jomini Jomini.Writer.Spec

/-! ### escape -/

theorem escapeEach_append (a b : Bytes) : escapeEach (a ++ b) = escapeEach a ++ escapeEach b := by
  induction a with
  | nil => rfl
  | cons x xs ih => simp [escapeEach, ih]

theorem escapeEach_singleton (x : UInt8) : escapeEach [x] = escByte x := by
  simp [escapeEach]

/-- bytes without `\` and `"` are copied -/
theorem escapeEach_of_no_special (d : Bytes) (h : ∀ x ∈ d, isSpecial x = false) : escapeEach d = d := by
  induction d with
  | nil => rfl
  | cons x xs ih =>
    have hx : isSpecial x = false := h x (by simp)
    have hxs : ∀ y ∈ xs, isSpecial y = false := fun y hy => h y (by simp [hy])
    simp [escapeEach, escByte, hx, ih hxs]

theorem firstSpecial_none (d : Bytes) (h : firstSpecial d = none) : ∀ x ∈ d, isSpecial x = false := by
  induction d with
  | nil => simp
  | cons x xs ih =>
    simp only [firstSpecial] at h
    split at h
    · simp at h
    · rename_i hx
      have h' : firstSpecial xs = none := by
        cases hfs : firstSpecial xs with
        | none => rfl
        | some j => simp [hfs] at h
      intro y hy
      simp only [List.mem_cons] at hy
      rcases hy with rfl | hy
      · simpa using hx
      · exact ih h' y hy

theorem firstSpecial_some (d : Bytes) (i : Nat) (h : firstSpecial d = some i) :
    i < d.length ∧ ∀ x ∈ d.take i, isSpecial x = false := by
  induction d generalizing i with
  | nil => simp [firstSpecial] at h
  | cons x xs ih =>
    simp only [firstSpecial] at h
    split at h
    · have : i = 0 := by simpa using h.symm
      subst this
      simp
    · rename_i hx
      cases hfs : firstSpecial xs with
      | none => simp [hfs] at h
      | some j =>
        simp only [hfs, Option.map_some, Option.some.injEq] at h
        subst h
        have := ih j hfs
        refine ⟨by simp; omega, ?_⟩
        intro y hy
        simp only [List.take_succ_cons, List.mem_cons] at hy
        rcases hy with rfl | hy
        · simpa using hx
        · exact this.2 y hy

theorem dropOneTrailingNewline_cases (d : Bytes) :
    (d = [] ∧ dropOneTrailingNewline d = []) ∨
    (∃ last, d.getLast? = some last ∧ d = d.dropLast ++ [last] ∧
      dropOneTrailingNewline d = if last = 10 then d.dropLast else d) := by
  cases hl : d.getLast? with
  | none =>
    left
    have : d = [] := by simpa using hl
    subst this
    simp [dropOneTrailingNewline]
  | some last =>
    right
    refine ⟨last, rfl, ?_, ?_⟩
    · have hne : d ≠ [] := by intro h; subst h; simp at hl
      have hgl : d.getLast hne = last := by
        have := List.getLast?_eq_some_getLast hne
        rw [hl] at this
        exact (Option.some.inj this).symm
      rw [← hgl]
      exact (List.dropLast_concat_getLast hne).symm
    · simp [dropOneTrailingNewline, hl]

/-- `escape` (first-special-byte split, per-byte escaping of the middle, separate handling of
the last byte) computes its specification. -/
theorem escape_eq_spec (d : Bytes) : escape d = escapeSpec d := by
  unfold escape escapeSpec
  rcases dropOneTrailingNewline_cases d with ⟨hd, hdrop⟩ | ⟨last, hlast, hsplit, hdrop⟩
  · subst hd
    simp [firstSpecial, dropOneTrailingNewline, escapeEach]
  · rw [hdrop]
    cases hfs : firstSpecial d with
    | none =>
      have hns := firstSpecial_none d hfs
      simp only [hlast]
      by_cases h10 : last = 10
      · have hns' : ∀ x ∈ d.dropLast, isSpecial x = false :=
          fun x hx => hns x (List.dropLast_subset d hx)
        simp [h10, escapeEach_of_no_special _ hns']
      · simp [h10, escapeEach_of_no_special _ hns]
    | some i =>
      obtain ⟨hi, hpre⟩ := firstSpecial_some d i hfs
      have hdrop_ne : d.drop i ≠ [] := by
        intro h
        have := congrArg List.length h
        simp at this
        omega
      have hmid : d.take i ++ escapeEach ((d.drop i).dropLast) = escapeEach d.dropLast := by
        have h1 : d.dropLast = d.take i ++ (d.drop i).dropLast := by
          conv => lhs; rw [← List.take_append_drop i d]
          exact List.dropLast_append_of_ne_nil hdrop_ne
        rw [h1, escapeEach_append, escapeEach_of_no_special _ hpre]
      simp only [hlast, hmid]
      by_cases h10 : last = 10
      · simp [h10]
      · have : escapeEach d = escapeEach d.dropLast ++ escByte last := by
          conv => lhs; rw [hsplit]
          rw [escapeEach_append, escapeEach_singleton]
        simp [h10, this]

/-- the scanner walks over an escaped payload and stops exactly at the quote that follows it -/
theorem scanQuoted_escapeEach (y r : Bytes) :
    scanQuoted (escapeEach y ++ 34 :: r) = some (escapeEach y, r) := by
  unfold scanQuoted
  induction y with
  | nil => simp [escapeEach, scanQuotedAux]
  | cons x xs ih =>
    by_cases hx : isSpecial x = true
    · simp [escapeEach, escByte, hx, scanQuotedAux, ih]
    · have hx' : isSpecial x = false := by simpa using hx
      have h92 : x ≠ 92 := by
        intro h; subst h; simp [isSpecial] at hx'
      have h34 : x ≠ 34 := by
        intro h; subst h; simp [isSpecial] at hx'
      simp [escapeEach, escByte, hx', scanQuotedAux, ih, h92, h34]

theorem unescape_escapeEach (y : Bytes) : unescape (escapeEach y) = y := by
  unfold unescape
  induction y with
  | nil => simp [escapeEach, unescapeAux]
  | cons x xs ih =>
    by_cases hx : isSpecial x = true
    · simp [escapeEach, escByte, hx, unescapeAux, ih]
    · have hx' : isSpecial x = false := by simpa using hx
      have h92 : x ≠ 92 := by
        intro h; subst h; simp [isSpecial] at hx'
      simp [escapeEach, escByte, hx', unescapeAux, ih, h92]

/-! ### indentation -/

theorem put_put (s : State) (a b : Bytes) : put (put s a) b = put s (a ++ b) := by
  simp [put, List.append_assoc]

theorem slowIndent_eq (n : Nat) (s : State) :
    slowIndent n s = put s (List.replicate n s.indentChar) := by
  induction n generalizing s with
  | zero => simp [slowIndent, put]
  | succ n ih =>
    rw [slowIndent, ih, put_put]
    simp [put, List.replicate_succ]

/-- cache path and slow path of `write_indent` write the same bytes -/
theorem writeIndent_eq (s : State) :
    writeIndent s = put s (List.replicate (s.depth.length * s.indentFactor) s.indentChar) := by
  unfold writeIndent
  by_cases h : s.depth.length * s.indentFactor ≤ 16
  · simp only [h, if_true]
    rw [List.take_replicate, Nat.min_eq_left h]
  · simp [h, slowIndent_eq]

/-! ### the machine part evolves as the reference automaton -/

@[simp] theorem core_put (s : State) (b : Bytes) : core (put s b) = core s := rfl

@[simp] theorem core_writeIndent (s : State) : core (writeIndent s) = core s := by
  rw [writeIndent_eq]; rfl

theorem core_writePreamble (s : State) : core (writePreamble s) = (core s).preamble := by
  obtain ⟨mode, depth, state, nlt, mixed, c, f, out⟩ := s
  cases state <;> cases nlt <;> cases mixed <;>
    simp [writePreamble, writeLineTerminator, writeIndent_eq, put, core, Core.preamble, WriteState.noDataYet]

theorem writePreamble_depth (s : State) : (writePreamble s).depth = s.depth := by
  have := congrArg Core.depth (core_writePreamble s)
  simpa [core, Core.preamble] using this

theorem core_writeEpilogue (s : State) :
    (writeEpilogue s).map core = (core s).epilogue := by
  unfold writeEpilogue Core.epilogue
  simp only [core]
  cases s.state.next <;> rfl

theorem core_writeUnquoted (s : State) (d : Bytes) :
    (writeUnquoted s d).map core = (core s).value := by
  unfold writeUnquoted Core.value
  rw [core_writeEpilogue, core_put, core_writePreamble]

theorem core_writeQuoted (s : State) (d : Bytes) :
    (writeQuoted s d).map core = (core s).value := by
  unfold writeQuoted Core.value
  rw [core_writeEpilogue, core_put, core_writePreamble]

theorem core_writeStart (s : State) : core (writeStart s) = (core s).open .array .firstUnknown := by
  have h := core_writePreamble s
  simp only [core, Core.preamble, Core.mk.injEq] at h
  simp [writeStart, core, Core.open, Core.preamble, put, h]

theorem core_writeObjectStart (s : State) : core (writeObjectStart s) = (core s).open .object .firstKey := by
  have h := core_writeStart s
  simp only [core, Core.open, Core.mk.injEq] at h
  simp [writeObjectStart, core, Core.open, h]

theorem core_writeArrayStart (s : State) : core (writeArrayStart s) = (core s).open .array .arrayValueFirst := by
  have h := core_writeStart s
  simp only [core, Core.open, Core.mk.injEq] at h
  simp [writeArrayStart, core, Core.open, h]

theorem core_writeEnd (s : State) : (writeEnd s).map core = (core s).close := by
  obtain ⟨mode, depth, state, nlt, mixed, c, f, out⟩ := s
  cases depth with
  | nil => rfl
  | cons m rest =>
    simp only [writeEnd, Core.close, core]
    cases m <;> split <;> simp [Except.map, put, writeIndent_eq, core]

theorem core_writeOperator (s : State) (op : Op) : core (writeOperator s op) = (core s).operator := by
  unfold writeOperator Core.operator
  by_cases h : s.mixedMode = .disabled
  · by_cases ho : op = .eq <;> simp [h, ho, core, put]
  · simp [h, core, put]

theorem core_writeHeader (s : State) (b : Bytes) : core (writeHeader s b) = (core s).header := by
  have h := core_writePreamble s
  simp only [core, Core.preamble, Core.mk.injEq] at h
  simp [writeHeader, core, Core.header, Core.preamble, put, h]

theorem core_startMixedMode (s : State) : core (startMixedMode s) = (core s).mixed := rfl

/-- the measured transition table has an entry for every state -/
theorem next_ne_none (st : WriteState) : st.next ≠ none := by
  cases st <;> decide

theorem next_isSome (st : WriteState) : ∃ st', st.next = some st' := by
  cases h : st.next with
  | none => exact absurd h (next_ne_none st)
  | some st' => exact ⟨st', rfl⟩

/-- a value write always succeeds and leaves the depth stack and the mode alone -/
theorem value_ok (k : Core) :
    ∃ k', k.value = .ok k' ∧ k'.depth = k.depth ∧ k'.mode = k.mode := by
  obtain ⟨st', h⟩ := next_isSome k.state
  refine ⟨{ k.preamble with state := st', needsLineTerminator := decide (st' = .key) }, ?_, rfl, rfl⟩
  simp only [Core.value, Core.epilogue]
  have : k.preamble.state = k.state := rfl
  rw [this, h]

/-- `close` looks at the depth stack only -/
theorem close_congr (k k' : Core) (h : k.depth = k'.depth) : k.close = k'.close := by
  unfold Core.close; rw [h]

theorem value_then_close (k : Core) :
    (match k.value with | Except.error e => (Except.error e : Except WErr Core) | .ok k' => k'.close) = k.close := by
  obtain ⟨k', h, hd, _⟩ := value_ok k
  rw [h]
  exact close_congr _ _ hd

theorem writeUnquoted_ok (s : State) (d : Bytes) :
    ∃ s' k', writeUnquoted s d = .ok s' ∧ (core s).value = .ok k' ∧ core s' = k' := by
  obtain ⟨k', hk, _, _⟩ := value_ok (core s)
  have h := core_writeUnquoted s d
  rw [hk] at h
  cases hw : writeUnquoted s d with
  | error e => rw [hw] at h; simp [Except.map] at h
  | ok s' =>
    rw [hw] at h
    simp only [Except.map, Except.ok.injEq] at h
    exact ⟨s', k', rfl, hk, h⟩

theorem core_writeRgb (s : State) (c : Rgb) : (writeRgb s c).map core = (core s).rgb := by
  unfold writeRgb Core.rgb
  have h0 : core (writeArrayStart (writeHeader s [114, 103, 98]))
      = (core s).header.open .array .arrayValueFirst := by
    rw [core_writeArrayStart, core_writeHeader]
  obtain ⟨s1, k1, e1, v1, c1⟩ := writeUnquoted_ok (writeArrayStart (writeHeader s [114, 103, 98])) (fmtNat c.r)
  obtain ⟨s2, k2, e2, v2, c2⟩ := writeUnquoted_ok s1 (fmtNat c.g)
  obtain ⟨s3, k3, e3, v3, c3⟩ := writeUnquoted_ok s2 (fmtNat c.b)
  rw [h0] at v1
  rw [c1] at v2
  rw [c2] at v3
  simp only [e1, e2, e3, v1, v2, v3]
  cases c.a with
  | none => simp only []; rw [core_writeEnd, c3]
  | some a =>
    obtain ⟨s4, k4, e4, v4, c4⟩ := writeUnquoted_ok s3 (fmtNat a)
    simp only [e4]
    rw [core_writeEnd, c4]
    have := value_then_close k3
    rw [← c3, v4] at this
    rw [← c3]
    exact this

theorem core_writeBool (s : State) (b : Bool) : (writeBool s b).map core = (core s).value :=
  core_writeUnquoted s _

theorem core_writeBinary (s : State) (t : BinTok) :
    (writeBinary s t).map core = coreStep (core s) (binKind t) := by
  cases t <;> simp only [writeBinary, binKind, coreStep]
  case array => simp [Except.map, core_writeArrayStart]
  case object => simp [Except.map, core_writeObjectStart]
  case mixedContainer => simp [Except.map, core_startMixedMode]
  case equal => simp [Except.map, core_writeOperator]
  case «end» => exact core_writeEnd s
  case bool b => exact core_writeBool s b
  case quoted b => exact core_writeQuoted s b
  case rgb c => exact core_writeRgb s c
  all_goals exact core_writeUnquoted s _

/-- every public call moves the machine part exactly as the reference automaton says, whatever
the payload, the indent configuration and the bytes written so far -/
theorem core_step (s : State) (c : Call) : (step s c).map core = coreStep (core s) (kind c) := by
  cases c <;> simp only [step, kind, coreStep]
  case start => simp [Except.map, core_writeStart]
  case objectStart => simp [Except.map, core_writeObjectStart]
  case arrayStart => simp [Except.map, core_writeArrayStart]
  case «end» => exact core_writeEnd s
  case mixedMode => simp [Except.map, core_startMixedMode]
  case quoted b => exact core_writeQuoted s b
  case header b => simp [Except.map, core_writeHeader]
  case operator op => simp [Except.map, core_writeOperator]
  case bool b => exact core_writeBool s b
  case rgb c => exact core_writeRgb s c
  case binary t => exact core_writeBinary s t
  all_goals exact core_writeUnquoted s _

theorem obs_eq_core_obs (s : State) : s.obs = (core s).obs := by
  obtain ⟨mode, depth, state, nlt, mixed, c, f, out⟩ := s
  cases state <;> rfl

theorem run_obs (cs : List Call) (s : State) :
    (run cs s).2 = refRun (cs.map kind) (core s) := by
  induction cs generalizing s with
  | nil => rfl
  | cons c cs ih =>
    have h := core_step s c
    simp only [run, List.map_cons, refRun]
    cases hs : step s c with
    | ok s' =>
      rw [hs] at h
      simp only [Except.map] at h
      rw [← h]
      simp [ih s', obs_eq_core_obs]
    | error e =>
      rw [hs] at h
      simp only [Except.map] at h
      rw [← h]
      simp [ih s]

theorem run_core (cs : List Call) (s : State) :
    core (run cs s).1 = (cs.map kind).foldl (fun k kd => match coreStep k kd with | .ok k' => k' | .error _ => k) (core s) := by
  induction cs generalizing s with
  | nil => rfl
  | cons c cs ih =>
    have h := core_step s c
    simp only [run, List.map_cons, List.foldl_cons]
    cases hs : step s c with
    | ok s' =>
      rw [hs] at h
      simp only [Except.map] at h
      rw [← h]
      simpa using ih s'
    | error e =>
      rw [hs] at h
      simp only [Except.map] at h
      rw [← h]
      simpa using ih s

/-! ### depth = unmatched starts; the only failing call -/

theorem open_depth (k : Core) (m : DepthMode) (st : WriteState) :
    (k.open m st).depth = k.mode :: k.depth := rfl

theorem rgb_ok (k : Core) : ∃ k', k.rgb = .ok k' ∧ k'.depth = k.depth := by
  unfold Core.rgb
  obtain ⟨k1, v1, d1, _⟩ := value_ok (k.header.open .array .arrayValueFirst)
  obtain ⟨k2, v2, d2, _⟩ := value_ok k1
  obtain ⟨k3, v3, d3, _⟩ := value_ok k2
  simp only [v1, v2, v3]
  have hd : k3.depth = k.header.mode :: k.depth := by
    rw [d3, d2, d1]; rfl
  unfold Core.close
  rw [hd]
  exact ⟨_, rfl, rfl⟩

/-- what one call does to the depth, and which call can fail -/
theorem coreStep_cases (k : Core) (kd : Kind) :
    (∃ k', coreStep k kd = .ok k' ∧ k'.depth.length = unmatchedStarts [kd] k.depth.length) ∨
    (coreStep k kd = .error .stackEmpty ∧ kd = .end ∧ k.depth = []) := by
  cases kd
  case start => left; exact ⟨_, rfl, by simp [open_depth, unmatchedStarts]⟩
  case objectStart => left; exact ⟨_, rfl, by simp [open_depth, unmatchedStarts]⟩
  case arrayStart => left; exact ⟨_, rfl, by simp [open_depth, unmatchedStarts]⟩
  case «end» =>
    cases hd : k.depth with
    | nil => right; simp [coreStep, Core.close, hd]
    | cons m rest => left; simp [coreStep, Core.close, hd, unmatchedStarts]
  case mixedMode => left; exact ⟨_, rfl, by simp [Core.mixed, unmatchedStarts]⟩
  case value =>
    left
    obtain ⟨k', h, hd, _⟩ := value_ok k
    exact ⟨k', h, by simp [hd, unmatchedStarts]⟩
  case header => left; exact ⟨_, rfl, by simp [Core.header, Core.preamble, unmatchedStarts]⟩
  case operator =>
    left
    refine ⟨_, rfl, ?_⟩
    unfold Core.operator
    split <;> simp [unmatchedStarts]
  case rgb =>
    left
    obtain ⟨k', h, hd⟩ := rgb_ok k
    exact ⟨k', h, by simp [hd, unmatchedStarts]⟩

theorem unmatchedStarts_cons (kd : Kind) (ks : List Kind) (d : Nat) :
    unmatchedStarts (kd :: ks) d = unmatchedStarts ks (unmatchedStarts [kd] d) := by
  cases kd <;> simp [unmatchedStarts]

theorem foldl_depth (ks : List Kind) (k : Core) :
    (ks.foldl (fun k kd => match coreStep k kd with | .ok k' => k' | .error _ => k) k).depth.length
      = unmatchedStarts ks k.depth.length := by
  induction ks generalizing k with
  | nil => rfl
  | cons kd ks ih =>
    rw [List.foldl_cons, unmatchedStarts_cons]
    rcases coreStep_cases k kd with ⟨k', h, hd⟩ | ⟨h, hkd, hdep⟩
    · simp only [h]; rw [ih, hd]
    · simp only [h]; rw [ih]; subst hkd; simp [hdep, unmatchedStarts]

theorem step_error (s : State) (c : Call) (e : WErr) (h : step s c = .error e) :
    e = .stackEmpty ∧ kind c = .end ∧ s.depth = [] := by
  have hc := core_step s c
  rw [h] at hc
  simp only [Except.map] at hc
  rcases coreStep_cases (core s) (kind c) with ⟨k', hk, _⟩ | ⟨hk, hkd, hdep⟩
  · rw [hk] at hc; cases hc
  · rw [hk] at hc
    simp only [Except.error.injEq] at hc
    exact ⟨hc, hkd, hdep⟩

/-! ### integer formatting -/

theorem digitChar_toNat (d : Nat) (h : d < 10) : (digitChar d).toNat = 48 + d := by
  simp only [digitChar, UInt8.toNat_ofNat']
  omega

theorem digitChar_isDigit (d : Nat) (h : d < 10) : isDigit (digitChar d) = true := by
  simp [isDigit, digitChar_toNat d h]; omega

theorem digitChar_val (d : Nat) (h : d < 10) : digitVal (digitChar d) = d := by
  simp [digitVal, digitChar_toNat d h]

theorem decFrom_append (a b : Bytes) (acc : Nat) : decFrom (a ++ b) acc = decFrom b (decFrom a acc) := by
  induction a generalizing acc with
  | nil => rfl
  | cons x xs ih => simp [decFrom, ih]

theorem fmtNatF_spec (f n : Nat) (h : n < 10 ^ (f + 1)) :
    allDigits (fmtNatF (f + 1) n) = true ∧ decVal (fmtNatF (f + 1) n) = n ∧ fmtNatF (f + 1) n ≠ [] := by
  induction f generalizing n with
  | zero =>
    have h10 : n < 10 := by simpa using h
    unfold fmtNatF
    simp [h10, allDigits, digitChar_isDigit n h10, decVal, decFrom, digitChar_val n h10]
  | succ f ih =>
    unfold fmtNatF
    by_cases h10 : n < 10
    · simp [h10, allDigits, digitChar_isDigit n h10, decVal, decFrom, digitChar_val n h10]
    · have hq : n / 10 < 10 ^ (f + 1) := by
        rw [Nat.pow_succ] at h
        omega
      obtain ⟨h1, h2, h3⟩ := ih (n / 10) hq
      have hm : n % 10 < 10 := Nat.mod_lt _ (by omega)
      simp only [h10, if_false]
      refine ⟨?_, ?_, by simp⟩
      · simp only [allDigits, List.all_append, Bool.and_eq_true] at h1 ⊢
        exact ⟨h1, by simp [digitChar_isDigit _ hm]⟩
      · simp only [decVal] at h2 ⊢
        rw [decFrom_append, h2]
        simp only [decFrom, digitChar_val _ hm]
        omega

theorem fmtNat_spec (n : Nat) (h : n < 10 ^ 20) :
    allDigits (fmtNat n) = true ∧ decVal (fmtNat n) = n ∧ fmtNat n ≠ [] :=
  fmtNatF_spec 19 n h

open Jomini.Scalar in
theorem toU64_fmtNat (n : Nat) (h : n ≤ U64_MAX) : toU64 (fmtNat n) = .ok n := by
  obtain ⟨h1, h2, h3⟩ := fmtNat_spec n (by simp [U64_MAX] at h; omega)
  cases hf : fmtNat n with
  | nil => exact absurd hf h3
  | cons c body =>
    rw [hf] at h1 h2
    simp only [allDigits, List.all_cons, Bool.and_eq_true] at h1
    have hd : digitVal c ≤ U64_MAX := by
      have := c.toNat_lt
      simp only [digitVal, U64_MAX]; omega
    have hv : decFrom body (digitVal c) = n := by
      simpa [decVal, decFrom] using h2
    simp [toU64, h1.1, toU64T2_allDigits body (digitVal c) h1.2 hd, hv, h]

/-! ### flat documents -/

theorem next_key : WriteState.next .key = some .keyValueSeparator := by decide
theorem next_kvs : WriteState.next .keyValueSeparator = some .key := by decide

theorem writeUnquoted_key (s : State) (k : Bytes) (hs : s.state = .key) (hd : s.depth = []) :
    writeUnquoted s k = .ok { s with out := s.out ++ (if s.needsLineTerminator then [10] else []) ++ k,
                                     state := .keyValueSeparator, needsLineTerminator := false } := by
  obtain ⟨mode, depth, state, nlt, mixed, c, f, out⟩ := s
  simp only at hs hd
  subst hs hd
  cases nlt <;>
    simp [writeUnquoted, writePreamble, writeLineTerminator, writeEpilogue, writeIndent_eq, put, next_key]

theorem writeUnquoted_kvs (s : State) (v : Bytes) (hs : s.state = .keyValueSeparator) (hn : s.needsLineTerminator = false) :
    writeUnquoted s v = .ok { s with out := s.out ++ [61] ++ v, state := .key, needsLineTerminator := true } := by
  obtain ⟨mode, depth, state, nlt, mixed, c, f, out⟩ := s
  simp only at hs hn
  subst hs hn
  simp [writeUnquoted, writePreamble, writeLineTerminator, writeEpilogue, put, next_kvs]

theorem run_flat (kvs : List (Bytes × Bytes)) (s : State) (hs : s.state = .key) (hd : s.depth = []) :
    (run (flatCalls kvs) s).1.out = s.out ++ flatLines kvs (!s.needsLineTerminator) := by
  induction kvs generalizing s with
  | nil => simp [flatCalls, run, flatLines]
  | cons kv r ih =>
    obtain ⟨k, v⟩ := kv
    simp only [flatCalls, run, step]
    rw [writeUnquoted_key s k hs hd]
    simp only []
    rw [writeUnquoted_kvs _ v rfl rfl]
    simp only []
    refine (ih _ rfl (by exact hd)).trans ?_
    cases s.needsLineTerminator <;> simp [flatLines, List.append_assoc]

end Jomini.Writer
