import JominiModel.Model.TextReader
import JominiModel.Spec.TextReader
/-
Scan-level lemmas for the text reader: prefix stability of decided scans and the resume
lemmas (resuming at the recorded offset after a refill scans exactly the not-yet-scanned
bytes in the same escape state).
-/
namespace Jomini.TextReader
open Jomini Jomini.TextReader.Spec

/-! ### findIdx (unquoted scalars, `]`) -/

theorem findIdx_append_some {p : UInt8 → Bool} {a : Bytes} {i n : Nat} (b : Bytes) :
    findIdx p a i = some n → findIdx p (a ++ b) i = some n := by
  fun_induction findIdx p a i with
  | case1 => simp
  | case2 c rest i hp => simp [findIdx, hp]
  | case3 c rest i hp ih => intro h; simp only [List.cons_append, findIdx, hp]; exact ih h

theorem findIdx_append_none {p : UInt8 → Bool} {a : Bytes} {i : Nat} (b : Bytes) :
    findIdx p a i = none → findIdx p (a ++ b) i = findIdx p b (i + a.length) := by
  fun_induction findIdx p a i with
  | case1 => simp
  | case2 c rest i hp => simp
  | case3 c rest i hp ih =>
    intro h
    simp only [List.cons_append, findIdx, hp, List.length_cons]
    rw [ih h]
    have : i + 1 + rest.length = i + (rest.length + 1) := by omega
    rw [this]; simp

theorem findIdx_some_bounds {p : UInt8 → Bool} {a : Bytes} {i n : Nat} :
    findIdx p a i = some n → i ≤ n ∧ n < i + a.length := by
  fun_induction findIdx p a i with
  | case1 => simp
  | case2 c rest i hp => intro h; simp at h; subst h; simp
  | case3 c rest i hp ih => intro h; have := ih h; simp; omega

/-- **resume, unquoted**: after a refill in `ParseState::Unquoted` the scan resumes at
`offset = carry_over = window length`; together with the first scan that found no boundary this
is the scan of the extended window from its start. -/
theorem resume_unquoted {a : Bytes} {i : Nat} (b : Bytes) (h : findIdx isBoundary a i = none) :
    findIdx isBoundary (a ++ b) i = findIdx isBoundary ((a ++ b).drop a.length) (i + a.length) := by
  rw [findIdx_append_none b h]; simp

/-! ### quoted bodies: unfolding lemmas -/

theorem quoteEnd_bs2 {c x : UInt8} {r : Bytes} {i : Nat} (hc : (c == 92) = true) :
    quoteEnd (c :: x :: r) i = quoteEnd r (i + 2) := by simp [quoteEnd, hc]
theorem quoteEnd_bs1 {c : UInt8} {i : Nat} (hc : (c == 92) = true) : quoteEnd [c] i = none := by
  simp [quoteEnd, hc]
theorem quoteEnd_other {c : UInt8} {r : Bytes} {i : Nat} (hc : ¬(c == 92) = true) (hq : (c != 34) = true) :
    quoteEnd (c :: r) i = quoteEnd r (i + 1) := by cases r <;> simp [quoteEnd, hc, hq]
theorem quoteEnd_quote {c : UInt8} {r : Bytes} {i : Nat} (hc : ¬(c == 92) = true) (hq : ¬(c != 34) = true) :
    quoteEnd (c :: r) i = some i := by cases r <;> simp [quoteEnd, hc, hq]

theorem quoteEnd_append {a : Bytes} {i n : Nat} (b : Bytes) :
    quoteEnd a i = some n → quoteEnd (a ++ b) i = some n := by
  fun_induction quoteEnd a i with
  | case1 => simp
  | case2 c i hc => simp
  | case3 c i hc x rest' ih => intro h; simp only [List.cons_append]; rw [quoteEnd_bs2 hc]; exact ih h
  | case4 c rest i hc hq ih => intro h; simp only [List.cons_append]; rw [quoteEnd_other hc hq]; exact ih h
  | case5 c rest i hc hq => intro h; simp only [List.cons_append]; rw [quoteEnd_quote hc hq]; exact h

theorem quoteEnd_bounds {a : Bytes} {i n : Nat} : quoteEnd a i = some n → i ≤ n ∧ n < i + a.length := by
  fun_induction quoteEnd a i with
  | case1 => simp
  | case2 c i hc => simp
  | case3 c i hc x rest' ih => intro h; have := ih h; simp; omega
  | case4 c rest i hc hq ih => intro h; have := ih h; simp; omega
  | case5 c rest i hc hq => intro h; simp at h; subst h; simp

/-- the first scan decides exactly like the reference when it finds the closing quote … -/
theorem quoteScan_closed {a : Bytes} {i n : Nat} : quoteScan a i = .closed n → quoteEnd a i = some n := by
  fun_induction quoteScan a i with
  | case1 => simp
  | case2 c i hc => simp
  | case3 c i hc x rest' he => simp
  | case4 c i hc x rest' he ih => intro h; rw [quoteEnd_bs2 hc]; exact ih h
  | case5 c rest i hc hq ih => intro h; rw [quoteEnd_other hc hq]; exact ih h
  | case6 c rest i hc hq => intro h; simp at h; subst h; exact quoteEnd_quote hc hq

/-- … and when it runs out of window the reference has not found one either, the carry is the whole
body, and **resuming at the recorded offset is the same as scanning the extended body from its start**
(the offset is the start of a byte that the first scan reached in the unescaped state). -/
theorem quoteScan_more {a : Bytes} {i carry off : Nat} : quoteScan a i = .more carry off →
    quoteEnd a i = none ∧ carry = i + a.length ∧ i ≤ off ∧ off ≤ carry ∧
    ∀ b, quoteEnd (a ++ b) i = quoteEnd ((a ++ b).drop (off - i)) off := by
  fun_induction quoteScan a i with
  | case1 i => intro h; simp at h; obtain ⟨rfl, rfl⟩ := h; simp [quoteEnd]
  | case2 c i hc => intro h; simp at h; obtain ⟨rfl, rfl⟩ := h; simp [quoteEnd_bs1 hc]
  | case3 c i hc x rest' he =>
    intro h; simp at h; obtain ⟨rfl, rfl⟩ := h
    simp at he; subst he
    refine ⟨by rw [quoteEnd_bs2 hc]; rfl, by simp, by omega, by omega, ?_⟩
    intro b; simp
  | case4 c i hc x rest' he ih =>
    intro h
    obtain ⟨h1, h2, h3, h4, h5⟩ := ih h
    refine ⟨by rw [quoteEnd_bs2 hc]; exact h1, by simp; omega, by omega, h4, ?_⟩
    intro b
    simp only [List.cons_append]
    rw [quoteEnd_bs2 hc, h5 b]
    have e : off - i = (off - (i + 2)) + 2 := by omega
    rw [e]; rfl
  | case5 c rest i hc hq ih =>
    intro h
    obtain ⟨h1, h2, h3, h4, h5⟩ := ih h
    refine ⟨by rw [quoteEnd_other hc hq]; exact h1, by simp; omega, by omega, h4, ?_⟩
    intro b
    simp only [List.cons_append]
    rw [quoteEnd_other hc hq, h5 b]
    have e : off - i = (off - (i + 1)) + 1 := by omega
    rw [e]; rfl
  | case6 c rest i hc hq => simp

theorem quoteRescan_closed {len : Nat} {a : Bytes} {i n : Nat} :
    quoteRescan len a i = .closed n → quoteEnd a i = some n := by
  fun_induction quoteRescan len a i with
  | case1 => simp
  | case2 c i hc => simp
  | case3 c i hc x rest' ih => intro h; rw [quoteEnd_bs2 hc]; exact ih h
  | case4 c rest i hc hq ih => intro h; rw [quoteEnd_other hc hq]; exact ih h
  | case5 c rest i hc hq => intro h; simp at h; subst h; exact quoteEnd_quote hc hq

/-- **resume, quoted (re-scan)**: the same for the scan in `next_opt_refill`'s `Quote` arm
(`len` = the window length = `i + a.length`). -/
theorem quoteRescan_more {len : Nat} {a : Bytes} {i carry off : Nat} (hl : len = i + a.length) :
    quoteRescan len a i = .more carry off →
    quoteEnd a i = none ∧ carry = len ∧ i ≤ off ∧ off ≤ carry ∧
    ∀ b, quoteEnd (a ++ b) i = quoteEnd ((a ++ b).drop (off - i)) off := by
  fun_induction quoteRescan len a i with
  | case1 i => intro h; simp at h; obtain ⟨rfl, rfl⟩ := h; simp at hl; simp [quoteEnd, hl]
  | case2 c i hc =>
    intro h; simp at h; obtain ⟨rfl, rfl⟩ := h; simp at hl
    refine ⟨quoteEnd_bs1 hc, rfl, Nat.le_refl _, by omega, ?_⟩
    intro b; simp
  | case3 c i hc x rest' ih =>
    intro h
    have hl' : len = i + 2 + rest'.length := by simp at hl; omega
    obtain ⟨h1, h2, h3, h4, h5⟩ := ih hl' h
    refine ⟨by rw [quoteEnd_bs2 hc]; exact h1, h2, by omega, h4, ?_⟩
    intro b
    simp only [List.cons_append]
    rw [quoteEnd_bs2 hc, h5 b]
    have e : off - i = (off - (i + 2)) + 2 := by omega
    rw [e]; rfl
  | case4 c rest i hc hq ih =>
    intro h
    have hl' : len = i + 1 + rest.length := by simp at hl; omega
    obtain ⟨h1, h2, h3, h4, h5⟩ := ih hl' h
    refine ⟨by rw [quoteEnd_other hc hq]; exact h1, h2, by omega, h4, ?_⟩
    intro b
    simp only [List.cons_append]
    rw [quoteEnd_other hc hq, h5 b]
    have e : off - i = (off - (i + 1)) + 1 := by omega
    rw [e]; rfl
  | case5 c rest i hc hq => simp

end Jomini.TextReader
