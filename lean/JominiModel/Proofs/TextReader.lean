import JominiModel.Model.TextReader
import JominiModel.Spec.TextReader
/-
Scan-level lemmas for the text reader: prefix stability of decided scans and the resume
lemmas (resuming at the recorded offset after a refill scans exactly the not-yet-scanned
bytes in the same escape state).
-/
namespace Jomini.TextReader
open Jomini Jomini.TextReader.Spec

/-! ### findIdx (unquoted scalars, `]`) -/

theorem findIdx_append_some {p : UInt8 → Bool} {a : Bytes} {i n : Nat} (b : Bytes) :
    findIdx p a i = some n → findIdx p (a ++ b) i = some n := by
  fun_induction findIdx p a i with
  | case1 => simp
  | case2 c rest i hp => simp [findIdx, hp]
  | case3 c rest i hp ih => intro h; simp only [List.cons_append, findIdx, hp]; exact ih h

theorem findIdx_append_none {p : UInt8 → Bool} {a : Bytes} {i : Nat} (b : Bytes) :
    findIdx p a i = none → findIdx p (a ++ b) i = findIdx p b (i + a.length) := by
  fun_induction findIdx p a i with
  | case1 => simp
  | case2 c rest i hp => simp
  | case3 c rest i hp ih =>
    intro h
    simp only [List.cons_append, findIdx, hp, List.length_cons]
    rw [ih h]
    have : i + 1 + rest.length = i + (rest.length + 1) := by omega
    rw [this]; simp

theorem findIdx_some_bounds {p : UInt8 → Bool} {a : Bytes} {i n : Nat} :
    findIdx p a i = some n → i ≤ n ∧ n < i + a.length := by
  fun_induction findIdx p a i with
  | case1 => simp
  | case2 c rest i hp => intro h; simp at h; subst h; simp
  | case3 c rest i hp ih => intro h; have := ih h; simp; omega

/-- **resume, unquoted**: after a refill in `ParseState::Unquoted` the scan resumes at
`offset = carry_over = window length`; together with the first scan that found no boundary this
is the scan of the extended window from its start. -/
theorem resume_unquoted {a : Bytes} {i : Nat} (b : Bytes) (h : findIdx isBoundary a i = none) :
    findIdx isBoundary (a ++ b) i = findIdx isBoundary ((a ++ b).drop a.length) (i + a.length) := by
  rw [findIdx_append_none b h]; simp

/-! ### quoted bodies: unfolding lemmas -/

theorem quoteEnd_bs2 {c x : UInt8} {r : Bytes} {i : Nat} (hc : (c == 92) = true) :
    quoteEnd (c :: x :: r) i = quoteEnd r (i + 2) := by simp [quoteEnd, hc]
theorem quoteEnd_bs1 {c : UInt8} {i : Nat} (hc : (c == 92) = true) : quoteEnd [c] i = none := by
  simp [quoteEnd, hc]
theorem quoteEnd_other {c : UInt8} {r : Bytes} {i : Nat} (hc : ¬(c == 92) = true) (hq : (c != 34) = true) :
    quoteEnd (c :: r) i = quoteEnd r (i + 1) := by cases r <;> simp [quoteEnd, hc, hq]
theorem quoteEnd_quote {c : UInt8} {r : Bytes} {i : Nat} (hc : ¬(c == 92) = true) (hq : ¬(c != 34) = true) :
    quoteEnd (c :: r) i = some i := by cases r <;> simp [quoteEnd, hc, hq]

theorem quoteEnd_append {a : Bytes} {i n : Nat} (b : Bytes) :
    quoteEnd a i = some n → quoteEnd (a ++ b) i = some n := by
  fun_induction quoteEnd a i with
  | case1 => simp
  | case2 c i hc => simp
  | case3 c i hc x rest' ih => intro h; simp only [List.cons_append]; rw [quoteEnd_bs2 hc]; exact ih h
  | case4 c rest i hc hq ih => intro h; simp only [List.cons_append]; rw [quoteEnd_other hc hq]; exact ih h
  | case5 c rest i hc hq => intro h; simp only [List.cons_append]; rw [quoteEnd_quote hc hq]; exact h

theorem quoteEnd_bounds {a : Bytes} {i n : Nat} : quoteEnd a i = some n → i ≤ n ∧ n < i + a.length := by
  fun_induction quoteEnd a i with
  | case1 => simp
  | case2 c i hc => simp
  | case3 c i hc x rest' ih => intro h; have := ih h; simp; omega
  | case4 c rest i hc hq ih => intro h; have := ih h; simp; omega
  | case5 c rest i hc hq => intro h; simp at h; subst h; simp

/-- the first scan decides exactly like the reference when it finds the closing quote … -/
theorem quoteScan_closed {a : Bytes} {i n : Nat} : quoteScan a i = .closed n → quoteEnd a i = some n := by
  fun_induction quoteScan a i with
  | case1 => simp
  | case2 c i hc => simp
  | case3 c i hc x rest' he => simp
  | case4 c i hc x rest' he ih => intro h; rw [quoteEnd_bs2 hc]; exact ih h
  | case5 c rest i hc hq ih => intro h; rw [quoteEnd_other hc hq]; exact ih h
  | case6 c rest i hc hq => intro h; simp at h; subst h; exact quoteEnd_quote hc hq

/-- … and when it runs out of window the reference has not found one either, the carry is the whole
body, and **resuming at the recorded offset is the same as scanning the extended body from its start**
(the offset is the start of a byte that the first scan reached in the unescaped state). -/
theorem quoteScan_more {a : Bytes} {i carry off : Nat} : quoteScan a i = .more carry off →
    quoteEnd a i = none ∧ carry = i + a.length ∧ i ≤ off ∧ off ≤ carry ∧
    ∀ b, quoteEnd (a ++ b) i = quoteEnd ((a ++ b).drop (off - i)) off := by
  fun_induction quoteScan a i with
  | case1 i => intro h; simp at h; obtain ⟨rfl, rfl⟩ := h; simp [quoteEnd]
  | case2 c i hc => intro h; simp at h; obtain ⟨rfl, rfl⟩ := h; simp [quoteEnd_bs1 hc]
  | case3 c i hc x rest' he =>
    intro h; simp at h; obtain ⟨rfl, rfl⟩ := h
    simp at he; subst he
    refine ⟨by rw [quoteEnd_bs2 hc]; rfl, by simp, by omega, by omega, ?_⟩
    intro b; simp
  | case4 c i hc x rest' he ih =>
    intro h
    obtain ⟨h1, h2, h3, h4, h5⟩ := ih h
    refine ⟨by rw [quoteEnd_bs2 hc]; exact h1, by simp; omega, by omega, h4, ?_⟩
    intro b
    simp only [List.cons_append]
    rw [quoteEnd_bs2 hc, h5 b]
    have e : off - i = (off - (i + 2)) + 2 := by omega
    rw [e]; rfl
  | case5 c rest i hc hq ih =>
    intro h
    obtain ⟨h1, h2, h3, h4, h5⟩ := ih h
    refine ⟨by rw [quoteEnd_other hc hq]; exact h1, by simp; omega, by omega, h4, ?_⟩
    intro b
    simp only [List.cons_append]
    rw [quoteEnd_other hc hq, h5 b]
    have e : off - i = (off - (i + 1)) + 1 := by omega
    rw [e]; rfl
  | case6 c rest i hc hq => simp

theorem quoteRescan_closed {len : Nat} {a : Bytes} {i n : Nat} :
    quoteRescan len a i = .closed n → quoteEnd a i = some n := by
  fun_induction quoteRescan len a i with
  | case1 => simp
  | case2 c i hc => simp
  | case3 c i hc x rest' ih => intro h; rw [quoteEnd_bs2 hc]; exact ih h
  | case4 c rest i hc hq ih => intro h; rw [quoteEnd_other hc hq]; exact ih h
  | case5 c rest i hc hq => intro h; simp at h; subst h; exact quoteEnd_quote hc hq

/-- **resume, quoted (re-scan)**: the same for the scan in `next_opt_refill`'s `Quote` arm
(`len` = the window length = `i + a.length`). -/
theorem quoteRescan_more {len : Nat} {a : Bytes} {i carry off : Nat} (hl : len = i + a.length) :
    quoteRescan len a i = .more carry off →
    quoteEnd a i = none ∧ carry = len ∧ i ≤ off ∧ off ≤ carry ∧
    ∀ b, quoteEnd (a ++ b) i = quoteEnd ((a ++ b).drop (off - i)) off := by
  fun_induction quoteRescan len a i with
  | case1 i => intro h; simp at h; obtain ⟨rfl, rfl⟩ := h; simp at hl; simp [quoteEnd, hl]
  | case2 c i hc =>
    intro h; simp at h; obtain ⟨rfl, rfl⟩ := h; simp at hl
    refine ⟨quoteEnd_bs1 hc, rfl, Nat.le_refl _, by omega, ?_⟩
    intro b; simp
  | case3 c i hc x rest' ih =>
    intro h
    have hl' : len = i + 2 + rest'.length := by simp at hl; omega
    obtain ⟨h1, h2, h3, h4, h5⟩ := ih hl' h
    refine ⟨by rw [quoteEnd_bs2 hc]; exact h1, h2, by omega, h4, ?_⟩
    intro b
    simp only [List.cons_append]
    rw [quoteEnd_bs2 hc, h5 b]
    have e : off - i = (off - (i + 2)) + 2 := by omega
    rw [e]; rfl
  | case4 c rest i hc hq ih =>
    intro h
    have hl' : len = i + 1 + rest.length := by simp at hl; omega
    obtain ⟨h1, h2, h3, h4, h5⟩ := ih hl' h
    refine ⟨by rw [quoteEnd_other hc hq]; exact h1, h2, by omega, h4, ?_⟩
    intro b
    simp only [List.cons_append]
    rw [quoteEnd_other hc hq, h5 b]
    have e : off - i = (off - (i + 1)) + 1 := by omega
    rw [e]; rfl
  | case5 c rest i hc hq => simp

end Jomini.TextReader

namespace Jomini.TextReader
open Jomini Jomini.TextReader.Spec

/-- a scan result is either `closed` or `more`, and `quoteEnd` decides which: the re-scan from a
resume offset and the scan from the start of the body agree. -/
theorem resume_quote {w : Bytes} {carry off : Nat} (b : Bytes) (n : Nat)
    (h : quoteScan w 0 = .more carry off) :
    quoteRescan (w ++ b).length ((w ++ b).drop off) off = .closed n ↔ quoteScan (w ++ b) 0 = .closed n := by
  obtain ⟨_, hc, _, ho, hres⟩ := quoteScan_more h
  have hres := hres b
  simp only [Nat.sub_zero] at hres
  have hlen : (w ++ b).length = off + ((w ++ b).drop off).length := by
    simp at hc; simp; omega
  constructor
  · intro h1
    have e1 := quoteRescan_closed h1
    cases h2 : quoteScan (w ++ b) 0 with
    | closed m => have := quoteScan_closed h2; rw [hres, e1] at this; simp at this; rw [this]
    | more c o => have := (quoteScan_more h2).1; rw [hres, e1] at this; simp at this
  · intro h1
    have e1 := quoteScan_closed h1
    cases h2 : quoteRescan (w ++ b).length ((w ++ b).drop off) off with
    | closed m => have := quoteRescan_closed h2; rw [← hres, e1] at this; simp at this; rw [this]
    | more c o => have := (quoteRescan_more hlen h2).1; rw [← hres, e1] at this; simp at this

/-- the same for a second and later refill of one string (resume offset recorded by the re-scan). -/
theorem resume_quote_again {w : Bytes} {i carry off : Nat} (b : Bytes) (n : Nat)
    (h : quoteRescan (i + w.length) w i = .more carry off) :
    quoteRescan (i + (w ++ b).length) ((w ++ b).drop (off - i)) off = .closed n ↔
      quoteRescan (i + (w ++ b).length) (w ++ b) i = .closed n := by
  obtain ⟨_, hc, hio, ho, hres⟩ := quoteRescan_more rfl h
  have hres := hres b
  have hlen : i + (w ++ b).length = off + ((w ++ b).drop (off - i)).length := by
    simp; omega
  constructor
  · intro h1
    have e1 := quoteRescan_closed h1
    cases h2 : quoteRescan (i + (w ++ b).length) (w ++ b) i with
    | closed m => have := quoteRescan_closed h2; rw [hres, e1] at this; simp at this; rw [this]
    | more c o => have := (quoteRescan_more rfl h2).1; rw [hres, e1] at this; simp at this
  · intro h1
    have e1 := quoteRescan_closed h1
    cases h2 : quoteRescan (i + (w ++ b).length) ((w ++ b).drop (off - i)) off with
    | closed m => have := quoteRescan_closed h2; rw [← hres, e1] at this; simp at this; rw [this]
    | more c o => have := (quoteRescan_more hlen h2).1; rw [← hres, e1] at this; simp at this

/-! ### decided tokens are stable under extension of the window -/

theorem quoteScan_closed_append {a : Bytes} {i n : Nat} (b : Bytes) :
    quoteScan a i = .closed n → quoteScan (a ++ b) i = .closed n := by
  intro h
  have e := quoteEnd_append b (quoteScan_closed h)
  cases h2 : quoteScan (a ++ b) i with
  | closed m => have := quoteScan_closed h2; rw [e] at this; simp at this; rw [this]
  | more c o => have := (quoteScan_more h2).1; rw [e] at this; simp at this

theorem take_succ_append {a : Bytes} (b : Bytes) (c : UInt8) (k : Nat) (hk : k ≤ a.length) :
    (c :: (a ++ b)).take (k + 1) = (c :: a).take (k + 1) := by
  simp only [List.take_succ_cons]
  rw [List.take_append_of_le_length hk]

theorem quoteTok_stable {rest : Bytes} {i adv : Nat} {t : Token} (b : Bytes) :
    quoteTok rest i = .tok adv t → quoteTok (rest ++ b) i = .tok adv t := by
  unfold quoteTok
  cases hq : quoteScan rest 0 with
  | more carry off => simp
  | closed n =>
    intro h
    rw [quoteScan_closed_append b hq]
    have hb := quoteEnd_bounds (quoteScan_closed hq)
    simp only at h ⊢
    rw [List.take_append_of_le_length (by omega)]
    exact h

theorem unqTok_stable {c : UInt8} {rest : Bytes} {i adv : Nat} {t : Token} (b : Bytes) :
    unqTok c rest i = .tok adv t → unqTok c (rest ++ b) i = .tok adv t := by
  unfold unqTok
  cases hf : findIdx isBoundary rest 0 with
  | none => simp
  | some k =>
    intro h
    rw [findIdx_append_some b hf]
    have hb := findIdx_some_bounds hf
    simp only at h ⊢
    rw [show 1 + k = k + 1 by omega] at h ⊢
    rw [take_succ_append b c k (by omega)]
    exact h

theorem atTok_stable {c : UInt8} {rest : Bytes} {i adv : Nat} {t : Token} (b : Bytes) :
    atTok c rest i = .tok adv t → atTok c (rest ++ b) i = .tok adv t := by
  unfold atTok
  cases rest with
  | nil => simp
  | cons d rest' =>
    simp only [List.cons_append]
    split
    · cases hf : findIdx (· == 93) rest' 0 with
      | none => simp
      | some k =>
        intro h
        rw [findIdx_append_some b hf]
        have hb := findIdx_some_bounds hf
        simp only at h ⊢
        rw [show 2 + k + 1 = (k + 1 + 1) + 1 by omega] at h ⊢
        rw [show d :: (rest' ++ b) = (d :: rest') ++ b by rfl, take_succ_append b c (k + 1 + 1) (by simp; omega)]
        exact h
    · intro h
      exact unqTok_stable (rest := d :: rest') b h

theorem opTok2_stable {p q : Op} {rest : Bytes} {i adv : Nat} {t : Token} (b : Bytes) :
    opTok2 p q rest i = .tok adv t → opTok2 p q (rest ++ b) i = .tok adv t := by
  unfold opTok2; cases rest <;> simp

theorem opTok1_stable {o : Op} {rest : Bytes} {i adv : Nat} {t : Token} (b : Bytes) :
    opTok1 o rest i = .tok adv t → opTok1 o (rest ++ b) i = .tok adv t := by
  unfold opTok1; cases rest <;> simp

/-- **no token is split**: a token that `next_opt_fallback` decides inside the window is the token it
decides on every extension of the window (same bytes, same advance). -/
theorem tokenAt_stable {c : UInt8} {rest : Bytes} {i adv : Nat} {t : Token} (b : Bytes) :
    tokenAt c rest i = .tok adv t → tokenAt c (rest ++ b) i = .tok adv t := by
  unfold tokenAt
  split; · exact id
  split; · exact id
  split; · exact quoteTok_stable b
  split; · exact atTok_stable b
  split; · exact opTok2_stable b
  split; · exact opTok2_stable b
  split; · exact opTok1_stable b
  split; · exact opTok1_stable b
  split; · exact opTok2_stable b
  exact unqTok_stable b

/-! unfolding lemmas for `fbLoop` that do not depend on the shape of the tail -/

theorem fbLoop_comment_cons (pos0 : Bool) (c : UInt8) (rest : Bytes) (s i : Nat) (bom : Bom) :
    fbLoop pos0 (c :: rest) (.comment s) i bom =
      if c == 10 then fbLoop pos0 rest .top (i + 1) bom else fbLoop pos0 rest (.comment s) (i + 1) bom := by
  rcases rest with _ | ⟨d, _ | ⟨e, r⟩⟩ <;> simp [fbLoop]

theorem fbLoop_top_cons (pos0 : Bool) (c : UInt8) (rest : Bytes) (i : Nat) (bom : Bom) :
    fbLoop pos0 (c :: rest) .top i bom =
      if isBlank c then fbLoop pos0 rest .top (i + 1) bom
      else if c == 35 then fbLoop pos0 rest (.comment i) (i + 1) bom
      else if c == 0xef && bom == .unknown then
        if i != 0 || !pos0 then (.notPresent, tokenAt c rest i)
        else
          match rest with
          | d :: e :: rest' =>
            if d == 0xbb && e == 0xbf then fbLoop pos0 rest' .top (i + 3) .present
            else (.notPresent, tokenAt c rest i)
          | _ => (bom, .bomFill)
      else (bom, tokenAt c rest i) := by
  rcases rest with _ | ⟨d, _ | ⟨e, r⟩⟩ <;> simp [fbLoop]

theorem fbLoop_stable_aux {pos0 : Bool} {bom' : Bom} {adv : Nat} {t : Token} (b : Bytes) (n : Nat) :
    ∀ (w : Bytes) (m : Mode) (i : Nat) (bom : Bom), w.length ≤ n →
    fbLoop pos0 w m i bom = (bom', .tok adv t) → fbLoop pos0 (w ++ b) m i bom = (bom', .tok adv t) := by
  induction n with
  | zero =>
    intro w m i bom hl
    have : w = [] := List.eq_nil_of_length_eq_zero (by omega)
    subst this
    cases m <;> simp [fbLoop]
  | succ n ih =>
    intro w m i bom hl
    cases w with
    | nil => cases m <;> simp [fbLoop]
    | cons c rest =>
      have hr : rest.length ≤ n := by simp at hl; omega
      cases m with
      | comment s =>
        simp only [List.cons_append, fbLoop_comment_cons]
        split <;> exact ih rest _ _ _ hr
      | top =>
        simp only [List.cons_append, fbLoop_top_cons]
        split; · exact ih rest _ _ _ hr
        split; · exact ih rest _ _ _ hr
        split
        · split
          · intro h; simp only [Prod.mk.injEq] at h ⊢; exact ⟨h.1, tokenAt_stable b h.2⟩
          · rcases rest with _ | ⟨d, _ | ⟨e, r⟩⟩
            · simp
            · simp
            · simp only [List.cons_append]
              split
              · exact ih r _ _ _ (by simp at hr; omega)
              · intro h; simp only [Prod.mk.injEq] at h ⊢; exact ⟨h.1, tokenAt_stable (rest := d :: e :: r) b h.2⟩
        · intro h; simp only [Prod.mk.injEq] at h ⊢; exact ⟨h.1, tokenAt_stable b h.2⟩

/-- **no token is split, whole scan**: if `next_opt_fallback`'s scan of a window decides a token, the
scan of every extension of that window decides the same token with the same advance. -/
theorem fbLoop_stable {pos0 : Bool} {w : Bytes} {m : Mode} {i : Nat} {bom bom' : Bom} {adv : Nat} {t : Token}
    (b : Bytes) :
    fbLoop pos0 w m i bom = (bom', .tok adv t) → fbLoop pos0 (w ++ b) m i bom = (bom', .tok adv t) :=
  fbLoop_stable_aux b w.length w m i bom (Nat.le_refl _)

end Jomini.TextReader
