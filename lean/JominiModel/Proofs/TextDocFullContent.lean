import JominiModel.Proofs.TextDocFull
import JominiModel.Proofs.TextTapeScalars
import JominiModel.Proofs.TextTapeWf
/-
C01_faithful_full / C01_layout_independent_full: the layout-free content of a full document
(`dtapeF`: its position-free tape; `stripF`: the document without its layout — gaps, ghost
objects, implicit vs explicit `=`), and the embedding `JFields.toF` of the earlier document type.
-/
namespace Jomini.TextTape
open Jomini

mutual
/-- the position-free tape of a document: keys, operators, scalar bytes (quoted vs unquoted),
header and parameter tokens, container kinds, `MixedContainer`, `end` links -/
def dtapeV : FVal → Nat → List Tok
  | .scal _ s, _ => [(s.tok []).erase]
  | .empty _ _, base => [.array (base + 1) false, .endTok base]
  | .obj _ _ first rest _, base =>
    [.object (base + 1 + fcntFirst first + fcntF rest) false] ++
      (dtapeFirst first (base + 1) ++ dtapeF rest (base + 1 + fcntFirst first)) ++ [.endTok base]
  | .arrS _ _ s0 rest _, base =>
    [.array (base + 1 + 1 + fcntVs rest) false] ++ ([(s0.tok []).erase] ++ dtapeVs rest (base + 1 + 1)) ++
      [.endTok base]
  | .arrC _ first rest _, base =>
    [.array (base + 1 + fcntV first + fcntVs rest) false] ++
      (dtapeV first (base + 1) ++ dtapeVs rest (base + 1 + fcntV first)) ++ [.endTok base]
  | .ghostIn _ _ _ v, base => dtapeV v base
  | .mixed _ _ first rest _ m0 items _, base =>
    [.object (base + 1 + fcntFirst first + fcntF rest + 2 + fcntI items) true] ++
      (dtapeFirst first (base + 1) ++ dtapeF rest (base + 1 + fcntFirst first) ++
        [.mixedContainer, (m0.tok []).erase] ++ dtapeI items (base + 1 + fcntFirst first + fcntF rest + 2)) ++
      [.endTok base]
  | .arrSM _ _ s0 pre _ m0 _ o items _, base =>
    [.array (base + 1 + 1 + fcntVs pre + 3 + fcntI items) true] ++
      ([(s0.tok []).erase] ++ dtapeVs pre (base + 1 + 1) ++
        [.mixedContainer, (m0.tok []).erase, .operator o] ++ dtapeI items (base + 1 + 1 + fcntVs pre + 3)) ++
      [.endTok base]
  | .arrCM _ first pre _ m0 _ o items _, base =>
    [.array (base + 1 + fcntV first + fcntVs pre + 3 + fcntI items) true] ++
      (dtapeV first (base + 1) ++ dtapeVs pre (base + 1 + fcntV first) ++
        [.mixedContainer, (m0.tok []).erase, .operator o] ++
        dtapeI items (base + 1 + fcntV first + fcntVs pre + 3)) ++
      [.endTok base]
def dtapeFirst : FFirst → Nat → List Tok
  | .kv k _ o v, base => [(k.tok []).erase] ++ o.toks ++ dtapeV v (base + 1 + o.toks.length)
  | .flds f, base => dtapeF f base
def dtapeF : FFields → Nat → List Tok
  | .nil, _ => []
  | .cons _ k _ o v rest, base =>
    [(k.tok []).erase] ++ o.toks ++ dtapeV v (base + 1 + o.toks.length) ++
      dtapeF rest (base + (1 + o.toks.length + fcntV v))
  | .consImp _ k v rest, base =>
    [(k.tok []).erase] ++ dtapeV v (base + 1) ++ dtapeF rest (base + (1 + fcntV v))
  | .ghost _ _ rest, base => dtapeF rest base
  | .consHdr _ k _ o _ h body rest, base =>
    [(k.tok []).erase] ++ o.toks ++ [.header ⟨0, h.bytes⟩] ++ dtapeV body (base + 1 + o.toks.length + 1) ++
      dtapeF rest (base + (1 + o.toks.length + (1 + fcntV body)))
  | .paramVal _ isU name _ val _ rest, base =>
    [paramTok isU ⟨0, name⟩, .unquoted ⟨0, val.bytes⟩] ++ dtapeF rest (base + 2)
  | .paramObj _ isU name _ k _ o v inner _ rest, base =>
    [paramTok isU ⟨0, name⟩, .object (base + 2 + (1 + o.toks.length + fcntV v) + fcntF inner) false,
      .unquoted ⟨0, k.bytes⟩] ++ o.toks ++ dtapeV v (base + 3 + o.toks.length) ++
      dtapeF inner (base + 2 + (1 + o.toks.length + fcntV v)) ++ [.endTok (base + 1)] ++
      dtapeF rest (base + ((3 + (1 + o.toks.length + fcntV v) + fcntF inner)))
  | .paramHdr _ isU name _ val _ body rest, base =>
    [paramTok isU ⟨0, name⟩, .header ⟨0, val.bytes⟩] ++ dtapeV body (base + 2) ++
      dtapeF rest (base + (2 + fcntV body))
def dtapeVs : FVals → Nat → List Tok
  | .nil, _ => []
  | .cons v rest, base => dtapeV v base ++ dtapeVs rest (base + fcntV v)
def dtapeI : FItems → Nat → List Tok
  | .nil, _ => []
  | .scal _ s rest, base => (s.tok []).erase :: dtapeI rest (base + 1)
  | .op _ o rest, base => .operator o :: dtapeI rest (base + 1)
  | .cont v rest, base => dtapeV v base ++ dtapeI rest (base + fcntV v)
end

theorem erase_mixed : Tok.mixedContainer.erase = Tok.mixedContainer := rfl
theorem erase_operator (o : Op) : (Tok.operator o).erase = Tok.operator o := rfl
theorem erase_header (sl : Slice) : (Tok.header sl).erase = Tok.header ⟨0, sl.bytes⟩ := rfl

mutual
theorem ftapeV_erase : ∀ (v : FVal) (b : Nat) (a : Bytes), (ftapeV v b a).map Tok.erase = dtapeV v b
  | .scal _ s, b, a => by simp [ftapeV, dtapeV, Scal.tok_erase s a]
  | .empty _ _, b, a => by simp [ftapeV, dtapeV, erase_array, erase_endTok]
  | .obj _ _ first rest gc, b, a => by
    simp only [ftapeV, dtapeV, List.map_append, List.map_cons, List.map_nil, ftapeFirst_erase first,
      ftapeF_erase rest, erase_object, erase_endTok]
  | .arrS _ _ s0 rest gc, b, a => by
    simp only [ftapeV, dtapeV, List.map_append, List.map_cons, List.map_nil, Scal.tok_erase s0,
      ftapeVs_erase rest, erase_array, erase_endTok]
  | .arrC _ first rest gc, b, a => by
    simp only [ftapeV, dtapeV, List.map_append, List.map_cons, List.map_nil, ftapeV_erase first,
      ftapeVs_erase rest, erase_array, erase_endTok]
  | .ghostIn _ _ _ v, b, a => by simp only [ftapeV, dtapeV, ftapeV_erase v]
  | .mixed _ _ first rest gm m0 items gc, b, a => by
    simp only [ftapeV, dtapeV, List.map_append, List.map_cons, List.map_nil, ftapeFirst_erase first,
      ftapeF_erase rest, ftapeI_erase items, Scal.tok_erase m0, erase_object, erase_endTok, erase_mixed]
  | .arrSM _ _ s0 pre gm m0 go o items gc, b, a => by
    simp only [ftapeV, dtapeV, List.map_append, List.map_cons, List.map_nil, Scal.tok_erase s0, Scal.tok_erase m0,
      ftapeVs_erase pre, ftapeI_erase items, erase_array, erase_endTok, erase_mixed, erase_operator]
  | .arrCM _ first pre gm m0 go o items gc, b, a => by
    simp only [ftapeV, dtapeV, List.map_append, List.map_cons, List.map_nil, Scal.tok_erase m0,
      ftapeV_erase first, ftapeVs_erase pre, ftapeI_erase items, erase_array, erase_endTok, erase_mixed,
      erase_operator]
theorem ftapeFirst_erase : ∀ (f : FFirst) (b : Nat) (a : Bytes), (ftapeFirst f b a).map Tok.erase = dtapeFirst f b
  | .kv k g1 o v, b, a => by
    simp only [ftapeFirst, dtapeFirst, List.map_append, List.map_cons, List.map_nil, Scal.tok_erase k,
      Op.toks_erase, ftapeV_erase v]
  | .flds f, b, a => by simp only [ftapeFirst, dtapeFirst, ftapeF_erase f]
theorem ftapeF_erase : ∀ (fs : FFields) (b : Nat) (a : Bytes), (ftapeF fs b a).map Tok.erase = dtapeF fs b
  | .nil, _, _ => rfl
  | .cons _ k g1 o v rest, b, a => by
    simp only [ftapeF, dtapeF, List.map_append, List.map_cons, List.map_nil, Scal.tok_erase k, Op.toks_erase,
      ftapeV_erase v, ftapeF_erase rest]
  | .consImp _ k v rest, b, a => by
    simp only [ftapeF, dtapeF, List.map_append, List.map_cons, List.map_nil, Scal.tok_erase k,
      ftapeV_erase v, ftapeF_erase rest]
  | .ghost _ _ rest, b, a => by simp only [ftapeF, dtapeF, ftapeF_erase rest]
  | .consHdr _ k g1 o gh h body rest, b, a => by
    simp only [ftapeF, dtapeF, List.map_append, List.map_cons, List.map_nil, Scal.tok_erase k, Op.toks_erase,
      ftapeV_erase body, ftapeF_erase rest, erase_header]
  | .paramVal _ isU name g1 val g2 rest, b, a => by
    simp only [ftapeF, dtapeF, List.map_append, List.map_cons, List.map_nil, paramTok_erase, erase_unquoted,
      ftapeF_erase rest]
  | .paramObj _ isU name g1 k g2 o v inner gc rest, b, a => by
    simp only [ftapeF, dtapeF, List.map_append, List.map_cons, List.map_nil, paramTok_erase, erase_unquoted,
      Op.toks_erase, ftapeV_erase v, ftapeF_erase inner, ftapeF_erase rest, erase_object, erase_endTok]
  | .paramHdr _ isU name g1 val g2 body rest, b, a => by
    simp only [ftapeF, dtapeF, List.map_append, List.map_cons, List.map_nil, paramTok_erase, erase_header,
      ftapeV_erase body, ftapeF_erase rest]
theorem ftapeVs_erase : ∀ (vs : FVals) (b : Nat) (a : Bytes), (ftapeVs vs b a).map Tok.erase = dtapeVs vs b
  | .nil, _, _ => rfl
  | .cons v rest, b, a => by
    simp only [ftapeVs, dtapeVs, List.map_append, ftapeV_erase v, ftapeVs_erase rest]
theorem ftapeI_erase : ∀ (is : FItems) (b : Nat) (a : Bytes), (ftapeI is b a).map Tok.erase = dtapeI is b
  | .nil, _, _ => rfl
  | .scal _ s rest, b, a => by
    simp only [ftapeI, dtapeI, List.map_cons, Scal.tok_erase s, ftapeI_erase rest]
  | .op _ o rest, b, a => by simp only [ftapeI, dtapeI, List.map_cons, erase_operator, ftapeI_erase rest]
  | .cont v rest, b, a => by simp only [ftapeI, dtapeI, List.map_append, ftapeV_erase v, ftapeI_erase rest]
end

/-- **C01_faithful** over the full document type: the tape is, up to the scalar positions, exactly
the document's content. -/
theorem faithful_full (fs : FFields) (gt : Bytes) (hgt : Blank gt) (hv : FValidF fs gt)
    (hb : hasBom (frenderF fs ++ gt) = false) :
    ∃ T, parse (frenderF fs ++ gt) = .ok T false ∧ T.map Tok.erase = dtapeF fs 0 :=
  ⟨_, parse_full fs gt hgt hv hb, ftapeF_erase fs 0 gt⟩

/-- the same behind a UTF-8 BOM: only the flag differs -/
theorem faithful_full_bom (fs : FFields) (gt : Bytes) (hgt : Blank gt) (hv : FValidF fs gt)
    (hb : hasBom (frenderF fs ++ gt) = false) :
    ∃ T, parse (0xef :: 0xbb :: 0xbf :: (frenderF fs ++ gt)) = .ok T true ∧ T.map Tok.erase = dtapeF fs 0 := by
  refine ⟨ftapeF fs 0 gt, ?_, ftapeF_erase fs 0 gt⟩
  rw [parse_bom' _ hb, parse_full fs gt hgt hv hb]; rfl

/-- C06 at the document level: the expected tape `ftapeF d` of every valid document of the full
document type is structurally sound (links both ways, nesting, every scalar the sub-slice of the
input at its offset, offsets increasing) over the document's bytes, and passes the executable
checker the correspondence check runs on the real parser's tapes — from faithfulness
(`parse_full`) and `C06_text_inv`. -/
theorem C06_full_doc_tape_sound (fs : FFields) (gt : Bytes) (hgt : Blank gt) (hv : FValidF fs gt)
    (hb : hasBom (frenderF fs ++ gt) = false) :
    WfTextTape (frenderF fs ++ gt) (ftapeF fs 0 gt) ∧ wfTextTape (frenderF fs ++ gt) (ftapeF fs 0 gt) = true := by
  have hw := C06_text_inv _ _ _ (parse_full fs gt hgt hv hb)
  exact ⟨hw, (C06_text_checker_sound _ _).mpr hw⟩

/-! ### the document without its layout -/

mutual
/-- drop the layout: gaps, ghost objects, the choice between `key { … }` and `key = { … }` -/
def stripV : FVal → FVal
  | .scal _ s => .scal [] s
  | .empty _ _ => .empty [] []
  | .obj _ _ first rest _ => .obj [] [] (stripFirst first) (stripF rest) []
  | .arrS _ _ s0 rest _ => .arrS [] [] s0 (stripVs rest) []
  | .arrC _ first rest _ => .arrC [] (stripV first) (stripVs rest) []
  | .ghostIn _ _ _ v => stripV v
  | .mixed _ _ first rest _ m0 items _ => .mixed [] [] (stripFirst first) (stripF rest) [] m0 (stripI items) []
  | .arrSM _ _ s0 pre _ m0 _ o items _ => .arrSM [] [] s0 (stripVs pre) [] m0 [] o (stripI items) []
  | .arrCM _ first pre _ m0 _ o items _ => .arrCM [] (stripV first) (stripVs pre) [] m0 [] o (stripI items) []
def stripFirst : FFirst → FFirst
  | .kv k _ o v => .kv k [] o (stripV v)
  | .flds f => .flds (stripF f)
def stripF : FFields → FFields
  | .nil => .nil
  | .cons _ k _ o v rest => .cons [] k [] o (stripV v) (stripF rest)
  | .consImp _ k v rest => .cons [] k [] .eq (stripV v) (stripF rest)
  | .ghost _ _ rest => stripF rest
  | .consHdr _ k _ o _ h body rest => .consHdr [] k [] o [] h (stripV body) (stripF rest)
  | .paramVal _ isU name _ val _ rest => .paramVal [] isU name [] val [] (stripF rest)
  | .paramObj _ isU name _ k _ o v inner _ rest =>
    .paramObj [] isU name [] k [] o (stripV v) (stripF inner) [] (stripF rest)
  | .paramHdr _ isU name _ val _ body rest => .paramHdr [] isU name [] val [] (stripV body) (stripF rest)
def stripVs : FVals → FVals
  | .nil => .nil
  | .cons v rest => .cons (stripV v) (stripVs rest)
def stripI : FItems → FItems
  | .nil => .nil
  | .scal _ s rest => .scal [] s (stripI rest)
  | .op _ o rest => .op [] o (stripI rest)
  | .cont v rest => .cont (stripV v) (stripI rest)
end

mutual
theorem fcnt_stripV : ∀ v : FVal, fcntV (stripV v) = fcntV v
  | .scal _ _ => rfl
  | .empty _ _ => rfl
  | .obj _ _ first rest _ => by simp only [stripV, fcntV, fcnt_stripFirst first, fcnt_stripF rest]
  | .arrS _ _ _ rest _ => by simp only [stripV, fcntV, fcnt_stripVs rest]
  | .arrC _ first rest _ => by simp only [stripV, fcntV, fcnt_stripV first, fcnt_stripVs rest]
  | .ghostIn _ _ _ v => by simp only [stripV, fcntV, fcnt_stripV v]
  | .mixed _ _ first rest _ _ items _ => by
    simp only [stripV, fcntV, fcnt_stripFirst first, fcnt_stripF rest, fcnt_stripI items]
  | .arrSM _ _ _ pre _ _ _ _ items _ => by simp only [stripV, fcntV, fcnt_stripVs pre, fcnt_stripI items]
  | .arrCM _ first pre _ _ _ _ items _ => by
    simp only [stripV, fcntV, fcnt_stripV first, fcnt_stripVs pre, fcnt_stripI items]
theorem fcnt_stripFirst : ∀ f : FFirst, fcntFirst (stripFirst f) = fcntFirst f
  | .kv _ _ _ v => by simp only [stripFirst, fcntFirst, fcnt_stripV v]
  | .flds f => by simp only [stripFirst, fcntFirst, fcnt_stripF f]
theorem fcnt_stripF : ∀ fs : FFields, fcntF (stripF fs) = fcntF fs
  | .nil => rfl
  | .cons _ _ _ _ v rest => by simp only [stripF, fcntF, fcnt_stripV v, fcnt_stripF rest]
  | .consImp _ _ v rest => by simp [stripF, fcntF, fcnt_stripV v, fcnt_stripF rest, Op.toks]
  | .ghost _ _ rest => by simp only [stripF, fcntF, fcnt_stripF rest]
  | .consHdr _ _ _ _ _ _ body rest => by simp only [stripF, fcntF, fcnt_stripV body, fcnt_stripF rest]
  | .paramVal _ _ _ _ _ _ rest => by simp only [stripF, fcntF, fcnt_stripF rest]
  | .paramObj _ _ _ _ _ _ _ v inner _ rest => by
    simp only [stripF, fcntF, fcnt_stripV v, fcnt_stripF inner, fcnt_stripF rest]
  | .paramHdr _ _ _ _ _ _ body rest => by simp only [stripF, fcntF, fcnt_stripV body, fcnt_stripF rest]
theorem fcnt_stripVs : ∀ vs : FVals, fcntVs (stripVs vs) = fcntVs vs
  | .nil => rfl
  | .cons v rest => by simp only [stripVs, fcntVs, fcnt_stripV v, fcnt_stripVs rest]
theorem fcnt_stripI : ∀ is : FItems, fcntI (stripI is) = fcntI is
  | .nil => rfl
  | .scal _ _ rest => by simp only [stripI, fcntI, fcnt_stripI rest]
  | .op _ _ rest => by simp only [stripI, fcntI, fcnt_stripI rest]
  | .cont v rest => by simp only [stripI, fcntI, fcnt_stripV v, fcnt_stripI rest]
end

mutual
/-- the content tape only depends on the document without its layout -/
theorem dtape_stripV : ∀ (v : FVal) (b : Nat), dtapeV (stripV v) b = dtapeV v b
  | .scal _ _, _ => rfl
  | .empty _ _, _ => rfl
  | .obj _ _ first rest _, b => by
    simp only [stripV, dtapeV, fcnt_stripFirst, fcnt_stripF, dtape_stripFirst first, dtape_stripF rest]
  | .arrS _ _ _ rest _, b => by simp only [stripV, dtapeV, fcnt_stripVs, dtape_stripVs rest]
  | .arrC _ first rest _, b => by
    simp only [stripV, dtapeV, fcnt_stripV, fcnt_stripVs, dtape_stripV first, dtape_stripVs rest]
  | .ghostIn _ _ _ v, b => by simp only [stripV, dtapeV, dtape_stripV v]
  | .mixed _ _ first rest _ _ items _, b => by
    simp only [stripV, dtapeV, fcnt_stripFirst, fcnt_stripF, fcnt_stripI, dtape_stripFirst first,
      dtape_stripF rest, dtape_stripI items]
  | .arrSM _ _ _ pre _ _ _ _ items _, b => by
    simp only [stripV, dtapeV, fcnt_stripVs, fcnt_stripI, dtape_stripVs pre, dtape_stripI items]
  | .arrCM _ first pre _ _ _ _ items _, b => by
    simp only [stripV, dtapeV, fcnt_stripV, fcnt_stripVs, fcnt_stripI, dtape_stripV first, dtape_stripVs pre,
      dtape_stripI items]
theorem dtape_stripFirst : ∀ (f : FFirst) (b : Nat), dtapeFirst (stripFirst f) b = dtapeFirst f b
  | .kv _ _ _ v, b => by simp only [stripFirst, dtapeFirst, dtape_stripV v]
  | .flds f, b => by simp only [stripFirst, dtapeFirst, dtape_stripF f]
theorem dtape_stripF : ∀ (fs : FFields) (b : Nat), dtapeF (stripF fs) b = dtapeF fs b
  | .nil, _ => rfl
  | .cons _ _ _ _ v rest, b => by simp only [stripF, dtapeF, fcnt_stripV, dtape_stripV v, dtape_stripF rest]
  | .consImp _ _ v rest, b => by
    simp [stripF, dtapeF, fcnt_stripV, dtape_stripV v, dtape_stripF rest, Op.toks]
  | .ghost _ _ rest, b => by simp only [stripF, dtapeF, dtape_stripF rest]
  | .consHdr _ _ _ _ _ _ body rest, b => by
    simp only [stripF, dtapeF, fcnt_stripV, dtape_stripV body, dtape_stripF rest]
  | .paramVal _ _ _ _ _ _ rest, b => by simp only [stripF, dtapeF, dtape_stripF rest]
  | .paramObj _ _ _ _ _ _ _ v inner _ rest, b => by
    simp only [stripF, dtapeF, fcnt_stripV, fcnt_stripF, dtape_stripV v, dtape_stripF inner, dtape_stripF rest]
  | .paramHdr _ _ _ _ _ _ body rest, b => by
    simp only [stripF, dtapeF, fcnt_stripV, dtape_stripV body, dtape_stripF rest]
theorem dtape_stripVs : ∀ (vs : FVals) (b : Nat), dtapeVs (stripVs vs) b = dtapeVs vs b
  | .nil, _ => rfl
  | .cons v rest, b => by simp only [stripVs, dtapeVs, fcnt_stripV, dtape_stripV v, dtape_stripVs rest]
theorem dtape_stripI : ∀ (is : FItems) (b : Nat), dtapeI (stripI is) b = dtapeI is b
  | .nil, _ => rfl
  | .scal _ _ rest, b => by simp only [stripI, dtapeI, dtape_stripI rest]
  | .op _ _ rest, b => by simp only [stripI, dtapeI, dtape_stripI rest]
  | .cont v rest, b => by simp only [stripI, dtapeI, fcnt_stripV, dtape_stripV v, dtape_stripI rest]
end

/-- **C01_layout_independent** over the full document type: two layouts of the same content (the
same document once gaps, ghost objects and the optional `=` in front of `{` are dropped) give the
same tape up to the scalar positions. -/
theorem layout_independent_full (fs fs' : FFields) (gt gt' : Bytes) (hgt : Blank gt) (hgt' : Blank gt')
    (hv : FValidF fs gt) (hv' : FValidF fs' gt')
    (hb : hasBom (frenderF fs ++ gt) = false) (hb' : hasBom (frenderF fs' ++ gt') = false)
    (hc : stripF fs = stripF fs') :
    ∃ T T', parse (frenderF fs ++ gt) = .ok T false ∧ parse (frenderF fs' ++ gt') = .ok T' false ∧
      T.map Tok.erase = T'.map Tok.erase := by
  obtain ⟨T, h1, h2⟩ := faithful_full fs gt hgt hv hb
  obtain ⟨T', h1', h2'⟩ := faithful_full fs' gt' hgt' hv' hb'
  exact ⟨T, T', h1, h1', by rw [h2, h2', ← dtape_stripF fs, ← dtape_stripF fs', hc]⟩

end Jomini.TextTape
