import JominiModel.Proofs.Date
/-
Date arithmetic (C13): `days`, `days_until`, `add_days`, ordering.
-/
namespace Jomini.Date
open Jomini

theorem Date.days_mk (y : Int) {m d : Nat} (hv : ValidMd m d) :
    (mkDate y m d).days = .ok (daysOf y m d) := by
  obtain ⟨j, hj, ho⟩ := julian_ordinal hv
  unfold Date.days daysOf
  rw [Date.month_mk y hv, Date.day_mk y hv, Date.year_mk, hj]
  simp only []
  split <;> (congr 1; omega)

theorem Date.daysUntil_mk (y1 : Int) {m1 d1 : Nat} (h1 : ValidMd m1 d1) (y2 : Int) {m2 d2 : Nat} (h2 : ValidMd m2 d2) :
    (mkDate y1 m1 d1).daysUntil (mkDate y2 m2 d2) = .ok (daysOf y2 m2 d2 - daysOf y1 m1 d1) := by
  unfold Date.daysUntil
  rw [Date.days_mk y1 h1, Date.days_mk y2 h2]
  rfl

theorem hour_mkDate (y : Int) {m d : Nat} (hv : ValidMd m d) : (mkDate y m d).raw.hour = 0 :=
  hour_mkRaw y m d 0 (validMd_lt hv).1 (validMd_lt hv).2 (by omega)

/-- `add_days` on a valid date: panics exactly when the sum leaves `i32` or the year leaves `i16`;
otherwise the date with year `new / 365` and day-of-year `|new % 365|`. -/
theorem Date.addDays_mk (y : Int) {m d : Nat} (hv : ValidMd m d) (n : Int) :
    (mkDate y m d).addDays n =
      if inI32 (daysOf y m d + n) = true ∧ inI16 ((daysOf y m d + n).tdiv 365) = true then
        match monthDayFromJulian ((daysOf y m d + n).tmod 365).natAbs with
        | some (m', d') => .ok (mkDate ((daysOf y m d + n).tdiv 365) m' d')
        | none => .panic
      else .panic := by
  unfold Date.addDays
  rw [Date.days_mk y hv, hour_mkDate y hv]
  simp only [Out.bind_ok]
  by_cases h32 : inI32 (daysOf y m d + n) = true
  · simp only [h32, Bool.not_true, Bool.false_eq_true, if_false, true_and]
    have hlt := Int.tmod_lt_of_pos (daysOf y m d + n) (b := 365) (by omega)
    have hgt : -365 < (daysOf y m d + n).tmod 365 := by
      have := Int.tmod_eq_emod (a := daysOf y m d + n) (b := 365)
      have h2 := Int.emod_nonneg (daysOf y m d + n) (b := 365) (by omega)
      rw [this]; split <;> simp <;> omega
    obtain ⟨m', d', hmd, hv', _⟩ := monthDayFromJulian_spec (((daysOf y m d + n).tmod 365).natAbs : Nat) (by omega) (by omega)
    rw [hmd]
    simp only []
    by_cases h16 : inI16 ((daysOf y m d + n).tdiv 365) = true
    · have hr : ValidRaw m' d' 0 := by
        have := validMd_lt hv'
        unfold ValidMd at hv'; unfold ValidRaw; omega
      simp [h16, RawDate.fromYmdh, RawDate.fromYmdhOpt_eq, hr, mkDate]
    · simp [h16]
  · simp [h32]

/-- the day number of the date `add_days` returns is the requested one, unless it falls into the
band `−365 < new < 0`, which `add_days` maps into year 0 with the sign lost -/
theorem daysOf_addDays_result (N : Int) (m' d' : Nat) (_hv' : ValidMd m' d')
    (ho : ordinal m' d' = ((N.tmod 365).natAbs : Int)) :
    daysOf (N.tdiv 365) m' d' = if 0 ≤ N ∨ N ≤ -365 then N else -N := by
  have e := Int.mul_tdiv_add_tmod N 365
  have hq := Int.tdiv_eq_ediv (a := N) (b := 365)
  have hr := Int.tmod_eq_emod (a := N) (b := 365)
  have hs : Int.sign 365 = 1 := rfl
  have hn : Int.natAbs 365 = 365 := rfl
  rw [hs] at hq
  rw [hn] at hr
  unfold daysOf
  rw [ho]
  by_cases h0 : 0 ≤ N
  · rw [if_pos (Or.inl h0)]
    simp only [h0, true_or, if_true] at hq hr
    split <;> omega
  · by_cases h1 : N ≤ -365
    · rw [if_pos (Or.inr h1)]
      split <;> split at hq <;> split at hr <;> simp at hq hr <;> omega
    · rw [if_neg (by omega)]
      split <;> split at hq <;> split at hr <;> simp at hq hr <;> omega

/-- `add_days` followed by `days_until` from the original date -/
theorem addDays_then_until (y : Int) {m d : Nat} (hv : ValidMd m d) (n : Int)
    (hfit : inI16 ((daysOf y m d + n).tdiv 365) = true) :
    ((mkDate y m d).addDays n).bind (fun r => (mkDate y m d).daysUntil r) =
      .ok ((if 0 ≤ daysOf y m d + n ∨ daysOf y m d + n ≤ -365 then daysOf y m d + n else -(daysOf y m d + n))
            - daysOf y m d) := by
  have h16 := (inI16_iff _).1 hfit
  have e := Int.mul_tdiv_add_tmod (daysOf y m d + n) 365
  have hlt := Int.tmod_lt_of_pos (daysOf y m d + n) (b := 365) (by omega)
  have hgt : -365 < (daysOf y m d + n).tmod 365 := by
    have := Int.tmod_eq_emod (a := daysOf y m d + n) (b := 365)
    have h2 := Int.emod_nonneg (daysOf y m d + n) (b := 365) (by omega)
    rw [this]; split <;> simp <;> omega
  have h32 : inI32 (daysOf y m d + n) = true := by rw [inI32_iff]; omega
  obtain ⟨m', d', hmd, hv', ho⟩ :=
    monthDayFromJulian_spec (((daysOf y m d + n).tmod 365).natAbs : Nat) (by omega) (by omega)
  rw [Date.addDays_mk y hv n, if_pos ⟨h32, hfit⟩, hmd]
  simp only [Out.bind_ok]
  rw [Date.daysUntil_mk y hv _ hv', daysOf_addDays_result _ m' d' hv' ho]

theorem julian_step : ∀ m1, m1 < 13 → ∀ m2, m2 < 13 → 1 ≤ m1 → m1 < m2 →
    (julianOrdinalDay m1).getD 0 + (dpm m1 : Int) ≤ (julianOrdinalDay m2).getD 0 := by
  decide

theorem ordinal_lt_of_month_lt {m1 d1 m2 d2 : Nat} (h1 : ValidMd m1 d1) (h2 : ValidMd m2 d2) (hm : m1 < m2) :
    ordinal m1 d1 < ordinal m2 d2 := by
  have := julian_step m1 (by unfold ValidMd at h1; omega) m2 (by unfold ValidMd at h2; omega)
    (by unfold ValidMd at h1; omega) hm
  unfold ValidMd at h1 h2
  unfold ordinal
  omega

/-- for years ≥ 0 the derived ordering is the ordering of the day numbers -/
theorem cmp_eq_compare_days (y1 y2 : Int) {m1 d1 m2 d2 : Nat} (hy1 : 0 ≤ y1) (hy2 : 0 ≤ y2)
    (h1 : ValidMd m1 d1) (h2 : ValidMd m2 d2) :
    (mkDate y1 m1 d1).cmp (mkDate y2 m2 d2) = compare (daysOf y1 m1 d1) (daysOf y2 m2 d2) := by
  have l1 := validMd_lt h1
  have l2 := validMd_lt h2
  have ⟨a0, a1⟩ := ordinal_range h1
  have ⟨b0, b1⟩ := ordinal_range h2
  unfold Date.cmp mkDate
  rw [cmp_mkRaw y1 y2 m1 d1 0 m2 d2 0 l1.1 l1.2 (by omega) l2.1 l2.2 (by omega)]
  have e1 : daysOf y1 m1 d1 = y1 * 365 + ordinal m1 d1 := by unfold daysOf; rw [if_neg (by omega)]
  have e2 : daysOf y2 m2 d2 = y2 * 365 + ordinal m2 d2 := by unfold daysOf; rw [if_neg (by omega)]
  rw [e1, e2]
  rcases Int.lt_trichotomy y1 y2 with h | h | h
  · rw [Int.compare_eq_lt.2 h, Int.compare_eq_lt.2 (by omega)]; rfl
  · subst h
    rw [Int.compare_eq_eq.2 rfl]
    rcases Nat.lt_trichotomy m1 m2 with h | h | h
    · have := ordinal_lt_of_month_lt h1 h2 h
      rw [Nat.compare_eq_lt.2 h, Int.compare_eq_lt.2 (by omega)]; rfl
    · subst h
      rw [Nat.compare_eq_eq.2 rfl]
      have o1 : ordinal m1 d1 = (julianOrdinalDay m1).getD 0 + (d1 : Int) := rfl
      have o2 : ordinal m1 d2 = (julianOrdinalDay m1).getD 0 + (d2 : Int) := rfl
      rcases Nat.lt_trichotomy d1 d2 with h | h | h
      · rw [Nat.compare_eq_lt.2 h, Int.compare_eq_lt.2 (by omega)]; rfl
      · subst h; rw [Nat.compare_eq_eq.2 rfl, Int.compare_eq_eq.2 rfl]; rfl
      · rw [Nat.compare_eq_gt.2 h, Int.compare_eq_gt.2 (by omega)]; rfl
    · have := ordinal_lt_of_month_lt h2 h1 h
      rw [Nat.compare_eq_gt.2 h, Int.compare_eq_gt.2 (by omega)]; rfl
  · rw [Int.compare_eq_gt.2 h, Int.compare_eq_gt.2 (by omega)]; rfl

end Jomini.Date
