/-
C10 capstone at byte level: ONE logical flat document, ONE struct definition; every text deserializer
path on the rendered TEXT bytes and every binary deserializer path on the encoded BINARY bytes give the
same outcome (`C10_bytes_end_to_end`).

Composition of the text slice's `C02_paths_end_to_end` (Proofs/TextEndToEnd.lean), this slice's
`C04_paths_end_to_end` (Proofs/BinEndToEndAll.lean) and `C10_flat_spec` (Proofs/BinDocTextFlat.lean).
The new ingredient is the bridge between the two TEXT references: this slice's `valueOfText`
(Spec/BinDocText.lean, over the logical document, results in the harness's `Val` notation) and the text
slice's `valueOf` (Spec/TextDoc.lean, over the text document, results as `Val` terms):
`scalar_agree` (every scalar text, every scalar request), `node_agree` (… under `Option` layers),
`struct_agree` / `valueOfText_bridge` (the struct loop and its bookkeeping).
-/
import JominiModel.Proofs.BinDocTextFlat
import JominiModel.Proofs.BinEndToEndAll
import JominiModel.Proofs.TextEndToEnd
import JominiModel.Proofs.Scalar
set_option linter.unusedSimpArgs false
namespace Jomini.BinDe
open Jomini

/-! ### the two slices' string decoding is the same function -/

theorem cp1252_eq (b : UInt8) : cp1252 b = TextDe.w1252Cp b := by
  have h : ∀ n, n < 256 → cp1252 (UInt8.ofNat n) = TextDe.w1252Cp (UInt8.ofNat n) := by decide +kernel
  have := h b.toNat b.toNat_lt
  simpa using this

theorem isAsciiWs_eq (b : UInt8) : isAsciiWs b = TextDe.isAsciiWs b := by
  have h : ∀ n, n < 256 → isAsciiWs (UInt8.ofNat n) = TextDe.isAsciiWs (UInt8.ofNat n) := by decide +kernel
  have := h b.toNat b.toNat_lt
  simpa using this

theorem decode1252_eq (d : Bytes) : decode1252 d = TextDe.decode .w1252 d := by
  have h1 : isAsciiWs = TextDe.isAsciiWs := funext isAsciiWs_eq
  have h2 : (fun b => utf8Enc (cp1252 b)) = (fun b => TextDe.utf8Enc (TextDe.w1252Cp b)) := by
    funext b; rw [cp1252_eq]; rfl
  simp only [decode1252, TextDe.decode, TextDe.decodeW, trimEnd, TextDe.trimEnd, h1, h2]


/-! ### translating requests and results -/

mutual
/-- the text slice's type descriptor for a request of this slice (narrow integers have no
counterpart there: outside the fragment, see `bridgeCore`). -/
def trTy : Ty → TextDe.Ty
  | .bool => .bool | .i64 => .i64 | .u64 => .u64 | .i32 => .i32 | .u32 => .u32 | .f64 => .f64 | .f32 => .f32
  | .str => .str | .any => .any | .ign => .ign
  | .u16 => .ign | .i16 => .ign | .u8 => .ign | .i8 => .ign
  | .opt t => .opt (trTy t) | .seq t => .seq (trTy t) | .map t => .map (trTy t) | .prop t => .prop (trTy t)
  | .struct fs => .st (trFields fs)
  | .enum vs => .en (vs.map strBytes)
def trFields : Fields → List (Bytes × TextDe.Ty)
  | .nil => []
  | .cons n _ t rest => (strBytes n, trTy t) :: trFields rest
end

/-- `Val` in the notation of this slice (tyseed.rs `Val` syntax; same as `Driver/C02.renderVal`), scalars
and `Option`s. -/
def showVal : TextDe.Val → String
  | .bool b => if b then "b1" else "b0"
  | .int i => "i" ++ toString i
  | .uint n => "u" ++ toString n
  | .f64 b => "f" ++ toString b
  | .f32 b => "g" ++ toString b
  | .str s => "s" ++ hexBytes s
  | .none => "none"
  | .some v => "some(" ++ showVal v ++ ")"
  | .unit => "unit"
  | .ign => "ign"
  | .en n => "en(" ++ hexBytes n ++ ")"
  | _ => "?"

/-- the fields of a struct value, named as declared. -/
def showSt : Fields → List (Bytes × TextDe.Val) → List String
  | .cons n _ _ rest, (_, v) :: tl => (n ++ "=" ++ showVal v) :: showSt rest tl
  | _, _ => []

/-- the same error class on both sides (`beyond` / `fuel`, the limits of this slice's models, have no
counterpart). -/
inductive ErrRel : TextDe.DErr → Err → Prop
  | type : ErrRel .type .type
  | other : ErrRel .other .other
  | panic : ErrRel .panic .panic
  | missing (f : String) : ErrRel (.missing (strBytes f)) (.missing f)
  | duplicate (f : String) : ErrRel (.duplicate (strBytes f)) (.duplicate f)

/-- same outcome, scalar level. -/
def SameLeaf : TextDe.R TextDe.Val → Res String → Prop
  | .ok v, .ok x => x = showVal v
  | .error e, .error e' => ErrRel e e'
  | _, _ => False

/-- same outcome for a struct request. -/
def SameOutcome (decl : Fields) : TextDe.R TextDe.Val → Res String → Prop
  | .ok (.st kvs), .ok x => x = "{" ++ joinComma (showSt decl kvs) ++ "}"
  | .error e, .error e' => ErrRel e e'
  | _, _ => False

/-- scalar requests on which the references are compared (floats: the two slices round `f64 → f32` by
two different exact-rounding definitions, and C10 excludes floats anyway; enums: not in C10's fragment). -/
def bridgeCore : Ty → Bool
  | .bool | .i64 | .u64 | .i32 | .u32 | .str | .any | .ign => true
  | _ => false

theorem toI64_range (s : Bytes) (v : Int) (h : Scalar.toI64 s = .ok v) : -(2 ^ 63 : Int) ≤ v ∧ v ≤ 2 ^ 63 - 1 := by
  obtain ⟨c, data, n, _, h | h | h⟩ := (Scalar.toI64_ok_iff s v).mp h
  · obtain ⟨_, _, h1, rfl⟩ := h; simp only [Scalar.I64_MAX] at h1; omega
  · obtain ⟨_, _, h1, rfl⟩ := h; simp only [Scalar.I64_MIN_ABS] at h1; omega
  · obtain ⟨_, _, h1, rfl⟩ := h; simp only [Scalar.I64_MAX] at h1; omega

theorem toU64_range (s : Bytes) (v : Nat) (h : Scalar.toU64 s = .ok v) : v ≤ 2 ^ 64 - 1 := by
  obtain ⟨c, data, _, h | h⟩ := (Scalar.toU64_ok_iff s v).mp h
  · have := ((Scalar.toU64T2_ok_nil data (digitVal c) v (Scalar.digitVal_le c)).mp h.2).2.2
    simpa [Scalar.U64_MAX] using this
  · have := ((Scalar.toU64T2_ok_nil data 0 v (by simp [Scalar.U64_MAX])).mp h.2).2.2
    simpa [Scalar.U64_MAX] using this

theorem inRange_iff (lo hi v : Int) : inRange lo hi v = true ↔ lo ≤ v ∧ v ≤ hi := by
  simp [inRange]

theorem visit_int (t : Ty) (lo hi : Int) (p : Prim) (v : Int) (hp : p.asInt = some v)
    (ht : ∀ q, visitPrim t q = match q.asInt with
      | some v => if inRange lo hi v then .ok ("i" ++ toString v) else .error .type
      | none => .error .type) :
    visitPrim t p = if lo ≤ v ∧ v ≤ hi then .ok ("i" ++ toString v) else .error .type := by
  rw [ht, hp]
  by_cases h : lo ≤ v ∧ v ≤ hi
  · simp only [(inRange_iff lo hi v).mpr h, h, and_self, if_true]
  · have : inRange lo hi v = false := by
      cases hr : inRange lo hi v
      · rfl
      · exact absurd ((inRange_iff lo hi v).mp hr) h
    simp only [this, h, if_false, Bool.false_eq_true]

theorem visit_uint (t : Ty) (hi : Int) (p : Prim) (v : Int) (hp : p.asInt = some v)
    (ht : ∀ q, visitPrim t q = match q.asInt with
      | some v => if inRange 0 hi v then .ok ("u" ++ toString v) else .error .type
      | none => .error .type) :
    visitPrim t p = if 0 ≤ v ∧ v ≤ hi then .ok ("u" ++ toString v) else .error .type := by
  rw [ht, hp]
  by_cases h : 0 ≤ v ∧ v ≤ hi
  · simp only [(inRange_iff 0 hi v).mpr h, h, and_self, if_true]
  · have : inRange 0 hi v = false := by
      cases hr : inRange 0 hi v
      · rfl
      · exact absurd ((inRange_iff 0 hi v).mp hr) h
    simp only [this, h, if_false, Bool.false_eq_true]

theorem visit_str_int (t : Ty) (hb : t = .i64 ∨ t = .i32 ∨ t = .u64 ∨ t = .u32 ∨ t = .bool) (b : Bytes) :
    visitPrim t (.str b) = .error .type := by
  rcases hb with rfl | rfl | rfl | rfl | rfl <;> rfl

/-- (the two text references agree on every scalar) for every scalar request of `bridgeCore` and EVERY scalar
text: this slice's `textScalarVal` and the text slice's `valueOfScalar` give the same outcome. -/
theorem scalar_agree (core : Ty) (hc : bridgeCore core = true) (s : Bytes) :
    SameLeaf (TextDoc.valueOfScalar .w1252 (trTy core) s) (textScalarVal core s) := by
  cases core <;> simp [bridgeCore] at hc
  · -- bool
    simp only [trTy, TextDoc.valueOfScalar, TextDe.leafConv, textScalarVal]
    cases hb : Scalar.toBool s with
    | error e => exact .type
    | ok b => cases b <;> rfl
  · -- i64
    simp only [trTy, TextDoc.valueOfScalar, TextDe.leafConv, textScalarVal]
    cases hb : Scalar.toI64 s with
    | error e => exact .type
    | ok v =>
      obtain ⟨h1, h2⟩ := toI64_range s v hb
      dsimp only
      rw [visit_int .i64 _ _ (.i64 v) v rfl (fun q => rfl), if_pos (by constructor <;> omega)]
      rfl
  · -- u64
    simp only [trTy, TextDoc.valueOfScalar, TextDe.leafConv, textScalarVal]
    cases hb : Scalar.toU64 s with
    | error e => exact .type
    | ok v =>
      have h1 := toU64_range s v hb
      dsimp only
      rw [visit_uint .u64 _ (.u64 v) v rfl (fun q => rfl), if_pos (by constructor <;> omega)]
      rfl
  · -- i32
    simp only [trTy, TextDoc.valueOfScalar, TextDe.leafConv, textScalarVal]
    cases hb : Scalar.toI64 s with
    | error e => exact .type
    | ok v =>
      dsimp only
      rw [visit_int .i32 _ _ (.i64 v) v rfl (fun q => rfl)]
      by_cases hr : -(2 ^ 31 : Int) ≤ v ∧ v < 2 ^ 31
      · rw [if_pos hr, if_pos (by constructor <;> omega)]; rfl
      · rw [if_neg hr, if_neg (by intro h; apply hr; omega)]
        exact .type
  · -- u32
    simp only [trTy, TextDoc.valueOfScalar, TextDe.leafConv, textScalarVal]
    cases hb : Scalar.toU64 s with
    | error e => exact .type
    | ok v =>
      dsimp only
      rw [visit_uint .u32 _ (.u64 v) v rfl (fun q => rfl)]
      by_cases hr : v < 2 ^ 32
      · rw [if_pos hr, if_pos (by constructor <;> omega)]; rfl
      · rw [if_neg hr, if_neg (by intro h; apply hr; omega)]
        exact .type
  · show _ = _
    simp only [trTy, TextDoc.valueOfScalar, textScalarVal, visitPrim, showVal, decode1252_eq]
  · show _ = _
    simp only [trTy, TextDoc.valueOfScalar, textScalarVal, visitPrim, showVal, decode1252_eq, renderPrim]
  · rfl

/-! ### a leaf under a field type (`Option` layers around a scalar request) -/

def someRes : Res String → Res String
  | .ok v => .ok ("some(" ++ v ++ ")")
  | .error e => .error e

theorem sameLeaf_some {r : TextDe.R TextDe.Val} {x : Res String} (h : SameLeaf r x) :
    SameLeaf (r.map TextDe.Val.some) (someRes x) := by
  cases r with
  | error e => cases x with
    | error e' => exact h
    | ok v => exact h.elim
  | ok a => cases x with
    | error e' => exact h.elim
    | ok v =>
      have : v = showVal a := h
      subst this
      show _ = _
      rfl

theorem wrapRes_succ' (k : Nat) (X : Res String) : wrapRes (k + 1) X = someRes (wrapRes k X) := by
  cases X <;> rfl

theorem wrapRes_zero (X : Res String) : wrapRes 0 X = X := by cases X <;> rfl

theorem node_agree (c : Cfg) (l : BLeaf) (s : Bytes) (hs : leafText c l = some s) (q : Bool) (o : TextDe.Op) :
    ∀ (t : Ty) (f : Nat), bridgeCore (stripOpt t).2 = true → (stripOpt t).1 < f →
      SameLeaf (TextDoc.valueOfN .w1252 f (trTy t) o (.leaf ⟨s, q⟩)) (nodeVia (valCoreG (textSem c) (.leaf l)) t) := by
  intro t f hb hf
  obtain ⟨g, rfl⟩ : ∃ g, f = g + 1 := ⟨f - 1, by omega⟩
  cases t with
  | opt i =>
    have ih := node_agree c l s hs q o i g (by simpa [stripOpt] using hb) (by simp [stripOpt] at hf; omega)
    have := sameLeaf_some ih
    unfold nodeVia at this ⊢
    simp only [stripOpt]
    rw [wrapRes_succ']
    simpa [trTy, TextDoc.valueOfN] using this
  | ign => show _ = _; rfl
  | bool | i64 | u64 | i32 | u32 | str =>
    simp only [stripOpt] at hb
    have := scalar_agree _ hb s
    simpa [nodeVia, stripOpt, wrapRes_zero, valCoreG, textSem, textLeaf, hs, trTy, TextDoc.valueOfN] using this
  | any =>
    simp only [stripOpt] at hb
    have := scalar_agree _ hb s
    have h2 : TextDoc.anyVal TextDe.Enc.w1252 (TextDoc.Node.leaf { bytes := s, quoted := q })
        = TextDoc.valueOfScalar TextDe.Enc.w1252 TextDe.Ty.any s := by
      simp [TextDoc.anyVal, TextDoc.valueOfScalar]
    simpa [nodeVia, stripOpt, wrapRes_zero, valCoreG, textSem, textLeaf, hs, trTy, TextDoc.valueOfN, h2] using this
  | _ => simp [stripOpt, bridgeCore] at hb
termination_by t => tySize t
decreasing_by all_goals (subst_vars; simp [tySize])

/-! ### the struct bookkeeping of the two references -/

theorem lookup_agree : ∀ (decl : Fields) (s : Bytes) (off : Nat),
    (decl.posName s off = none → TextDe.lookupIdx s (trFields decl) off = none) ∧
    (∀ i, decl.posName s off = some i → ∃ n tk t, decl.get? (i - off) = some (n, tk, t) ∧ off ≤ i ∧ strBytes n = s ∧
      TextDe.lookupIdx s (trFields decl) off = some (i, trTy t))
  | .nil, s, off => by simp [Fields.posName, trFields, TextDe.lookupIdx]
  | .cons n k t r, s, off => by
    have ih := lookup_agree r s (off + 1)
    simp only [Fields.posName, trFields, TextDe.lookupIdx]
    by_cases hn : strBytes n = s
    · have hb : (n.toUTF8.toList == s) = true := by simpa [strBytes] using hn
      simp only [hb, hn, if_true]
      refine ⟨by simp, ?_⟩
      intro i hi
      simp at hi; subst hi
      exact ⟨n, k, t, by simp [Fields.get?], Nat.le_refl _, hn, rfl⟩
    · have hb : (n.toUTF8.toList == s) = false := by
        cases h : (n.toUTF8.toList == s)
        · rfl
        · exact absurd (by simpa [strBytes] using h) hn
      simp only [hb, hn, if_false, Bool.false_eq_true]
      refine ⟨ih.1, ?_⟩
      intro i hi
      obtain ⟨n', tk', t', g1, g2, g3, g4⟩ := ih.2 i hi
      refine ⟨n', tk', t', ?_, by omega, g3, g4⟩
      have : i - off = (i - (off + 1)) + 1 := by omega
      rw [this]; simpa [Fields.get?] using g1

/-- same outcome of the final pass over the declared fields. -/
def SameFinish (suffix : Fields) (acc : List String) : TextDe.R (List (Bytes × TextDe.Val)) → Res String → Prop
  | .ok kvs, .ok x => x = "{" ++ joinComma (acc ++ showSt suffix kvs) ++ "}"
  | .error e, .error e' => ErrRel e e'
  | _, _ => False

theorem sameFinish_cons {n : String} {tk : Nat} {t : Ty} {rest : Fields} {acc : List String} {v : TextDe.Val}
    {r : TextDe.R (List (Bytes × TextDe.Val))} {x : Res String}
    (h : SameFinish rest (acc ++ [n ++ "=" ++ showVal v]) r x) :
    SameFinish (.cons n tk t rest) acc (r.map (fun tl => (strBytes n, v) :: tl)) x := by
  cases r with
  | error e => cases x with
    | error e' => exact h
    | ok y => exact h.elim
  | ok kvs => cases x with
    | error e' => exact h.elim
    | ok y =>
      have : y = "{" ++ joinComma ((acc ++ [n ++ "=" ++ showVal v]) ++ showSt rest kvs) ++ "}" := h
      show y = _
      rw [this]; simp [showSt, Except.map]

theorem finish_agree (seen : List (Nat × TextDe.Val)) : ∀ (suffix : Fields) (off : Nat) (sl : List (Option String)) (acc : List String),
    (∀ j, j < suffix.length → sl[j]? = some ((TextDe.seenGet (off + j) seen).map showVal)) →
    SameFinish suffix acc (TextDe.structFinish (trFields suffix) off seen) (structFinish suffix sl acc)
  | .nil, off, sl, acc, _ => by
    show _ = _
    simp [showSt]
  | .cons n tk t rest, off, sl, acc, h => by
    have h0 := h 0 (by simp [Fields.length])
    cases sl with
    | nil => simp at h0
    | cons s0 ss =>
      simp only [List.getElem?_cons_zero, Option.some.injEq, Nat.add_zero] at h0
      have hss : ∀ j, j < rest.length → ss[j]? = some ((TextDe.seenGet (off + 1 + j) seen).map showVal) := by
        intro j hj
        have := h (j + 1) (by simp [Fields.length]; omega)
        simpa [Nat.add_assoc, Nat.add_comm 1 j] using this
      simp only [trFields, TextDe.structFinish, structFinish]
      cases hsg : TextDe.seenGet off seen with
      | some v =>
        rw [hsg] at h0; subst h0
        simp only [Option.map_some]
        exact sameFinish_cons (finish_agree seen rest (off + 1) ss _ hss)
      | none =>
        rw [hsg] at h0; subst h0
        simp only [Option.map_none]
        cases t with
        | opt i =>
          simp only [trTy]
          have := sameFinish_cons (v := .none) (finish_agree seen rest (off + 1) ss (acc ++ [n ++ "=" ++ showVal .none]) hss)
            (tk := tk) (t := .opt i)
          have e : n ++ "=" ++ "none" = n ++ "=none" := by rw [String.append_assoc]; rfl
          simp only [showVal, e] at this
          exact this
        | _ => exact ErrRel.missing n

/-! ### the text slice's document of a flat logical document, and the struct loop -/

def nodeBytes (c : Cfg) : BNode → Bytes
  | .leaf l => (leafText c l).getD []
  | _ => []

def nodeQuoted : BNode → Bool
  | .leaf (.quoted _) => true
  | _ => false

/-- the text slice's (layout-free) document for a flat logical document: every key and every value
as the scalar `leafText` writes. -/
def docOf (c : Cfg) : BFields → TextDoc.Doc
  | .nil => []
  | .cons _ k v rest => ((leafText c k).getD [], .eq, .leaf ⟨nodeBytes c v, nodeQuoted v⟩) :: docOf c rest

/-- flat documents the bridge covers (decidable): keys and values have a text form, values are leaves, and
a value whose key names a declared field meets a scalar request of `bridgeCore` under `Option` layers. -/
def bridgeDoc (c : Cfg) (decl : Fields) : BFields → Bool
  | .nil => true
  | .cons _ k v rest =>
    (match leafText c k, v with
      | some kb, .leaf l =>
        (leafText c l).isSome &&
        (match decl.posName (decode1252 kb) 0 with
          | some i => (match decl.get? i with | some (_, _, t) => bridgeCore (stripOpt t).2 | none => true)
          | none => true)
      | _, _ => false) && bridgeDoc c decl rest

def SlotsInv (decl : Fields) (seen : List (Nat × TextDe.Val)) (slots : List (Option String)) : Prop :=
  ∀ i, i < decl.length → slots[i]? = some ((TextDe.seenGet i seen).map showVal)

theorem seenGet_append (i j : Nat) (x : TextDe.Val) : ∀ (seen : List (Nat × TextDe.Val)),
    TextDe.seenGet i (seen ++ [(j, x)]) =
      match TextDe.seenGet i seen with | some v => some v | none => if i = j then some x else none
  | [] => by simp [TextDe.seenGet]
  | (a, v) :: rest => by
    simp only [List.cons_append, TextDe.seenGet]
    by_cases h : i = a
    · simp [h]
    · simp only [h, if_false]; exact seenGet_append i j x rest

theorem slotsInv_set (decl : Fields) (seen : List (Nat × TextDe.Val)) (slots : List (Option String)) (i : Nat)
    (x : TextDe.Val) (hi : i < decl.length) (hn : TextDe.seenGet i seen = none) (h : SlotsInv decl seen slots) :
    SlotsInv decl (seen ++ [(i, x)]) (slots.set i (some (showVal x))) := by
  intro j hj
  rw [seenGet_append]
  by_cases hji : j = i
  · subst hji
    have := h j hj
    have hlen : j < slots.length := by
      rcases Nat.lt_or_ge j slots.length with hl | hl
      · exact hl
      · rw [List.getElem?_eq_none hl] at this; simp at this
    simp [hn, List.getElem?_set_self hlen]
  · have := h j hj
    rw [List.getElem?_set_ne (Ne.symm hji), this]
    cases TextDe.seenGet j seen <;> simp [hji]

/-- same outcome of the struct loop followed by the final pass. -/
def finishOf (decl : Fields) (r : TextDe.R (List (Nat × TextDe.Val))) : TextDe.R TextDe.Val :=
  match r with
  | .error e => .error e
  | .ok seen => (TextDe.structFinish (trFields decl) 0 seen).map TextDe.Val.st

theorem sameOutcome_finish (decl : Fields) (r : TextDe.R (List (Bytes × TextDe.Val))) (x : Res String)
    (h : SameFinish decl [] r x) : SameOutcome decl (r.map TextDe.Val.st) x := by
  cases r with
  | error e => cases x with
    | error e' => exact h
    | ok y => exact h.elim
  | ok kvs => cases x with
    | error e' => exact h.elim
    | ok y =>
      have : y = "{" ++ joinComma ([] ++ showSt decl kvs) ++ "}" := h
      show y = _
      simpa using this

theorem struct_agree (c : Cfg) (decl : Fields) (F : Nat)
    (hF : ∀ i n tk t, decl.get? i = some (n, tk, t) → (stripOpt t).1 < F) :
    ∀ (m : Nat) (d : BFields), d.len = m → bridgeDoc c decl d = true → ∀ seen slots, SlotsInv decl seen slots →
      SameOutcome decl
        (finishOf decl (TextDoc.structVals .w1252 (trFields decl) (TextDoc.valueOfN .w1252 F) (docOf c d) seen))
        (valStructG (textSem c) d decl false slots) := by
  intro m
  induction m with
  | zero =>
    intro d hm _ seen slots hinv
    cases d with
    | cons g k v rest => simp [BFields.len] at hm
    | nil =>
      simp only [docOf, TextDoc.structVals, finishOf, valStructG]
      exact sameOutcome_finish decl _ _ (finish_agree seen decl 0 slots [] (by simpa [SlotsInv] using hinv))
  | succ m ih =>
    intro d hm hb seen slots hinv
    cases d with
    | nil => simp [BFields.len] at hm
    | cons g k v rest =>
      have hrm : rest.len = m := by simp [BFields.len] at hm; exact hm
      simp only [bridgeDoc, Bool.and_eq_true] at hb
      obtain ⟨hb1, hb2⟩ := hb
      cases hk : leafText c k with
      | none => simp [hk] at hb1
      | some kb =>
        cases v with
        | leaf l =>
          simp only [hk, Bool.and_eq_true] at hb1
          obtain ⟨hl, hty⟩ := hb1
          cases hls : leafText c l with
          | none => simp [hls] at hl
          | some vb =>
            rw [valStructG_cons_false]
            have hw : whichOf (textSem c) decl k = .ok (decl.posName (decode1252 kb) 0) := by
              simp [whichOf, textSem, hk, fieldOfPrim]
            rw [hw]
            simp only [docOf, hk, Option.getD_some, nodeBytes, hls, TextDoc.structVals]
            rw [← decode1252_eq]
            obtain ⟨la1, la2⟩ := lookup_agree decl (decode1252 kb) 0
            cases hp : decl.posName (decode1252 kb) 0 with
            | none =>
              simp only [la1 hp, structStepSpec]
              exact ih rest hrm hb2 seen slots hinv
            | some i =>
              obtain ⟨n, tk, t, g1, _, g3, g4⟩ := la2 i hp
              simp only [Nat.sub_zero] at g1
              have hi : i < decl.length := by have := posName_lt decl _ 0 i hp; omega
              simp only [g4, structStepSpec, hinv i hi, g1]
              have hty : bridgeCore (stripOpt t).2 = true := by simpa [hp, g1] using hty
              cases hsg : TextDe.seenGet i seen with
              | some x =>
                simp only [Option.isSome_some, if_true, Option.map_some, finishOf]
                rw [← g3]; exact ErrRel.duplicate n
              | none =>
                simp only [Option.isSome_none, Bool.false_eq_true, if_false, Option.map_none]
                have hna := node_agree c l vb hls (nodeQuoted (.leaf l)) .eq t F hty (hF i n tk t g1)
                cases hx : TextDoc.valueOfN .w1252 F (trTy t) .eq (.leaf ⟨vb, nodeQuoted (.leaf l)⟩) with
                | error e =>
                  cases hy : nodeVia (valCoreG (textSem c) (.leaf l)) t with
                  | error e' => rw [hx, hy] at hna; simp only [finishOf]; exact hna
                  | ok y => rw [hx, hy] at hna; exact hna.elim
                | ok x =>
                  cases hy : nodeVia (valCoreG (textSem c) (.leaf l)) t with
                  | error e' => rw [hx, hy] at hna; exact hna.elim
                  | ok y =>
                    rw [hx, hy] at hna
                    have : y = showVal x := hna
                    subst this
                    exact ih rest hrm hb2 _ _ (slotsInv_set decl seen slots i x hi hsg hinv)
        | _ => simp [hk] at hb1

/-! ### the bridge between the two text references -/

theorem stripOpt_height (t : Ty) : (stripOpt t).1 ≤ (trTy t).height := by
  cases t with
  | opt i =>
    have := stripOpt_height i
    simp only [stripOpt, trTy, TextDe.Ty.height]; omega
  | _ => simp [stripOpt]
termination_by tySize t
decreasing_by all_goals (subst_vars; simp [tySize])

theorem height_get : ∀ (decl : Fields) (i : Nat) (n : String) (tk : Nat) (t : Ty),
    decl.get? i = some (n, tk, t) → (trTy t).height ≤ TextDe.Ty.heightFs (trFields decl)
  | .nil, _, _, _, _, h => by simp [Fields.get?] at h
  | .cons _ _ t' r, 0, n, k, t, h => by
    simp [Fields.get?] at h; obtain ⟨_, _, rfl⟩ := h
    simp only [trFields, TextDe.Ty.heightFs]; omega
  | .cons _ _ t' r, i + 1, n, k, t, h => by
    simp [Fields.get?] at h
    have := height_get r i n k t h
    simp only [trFields, TextDe.Ty.heightFs]; omega

theorem slotsInv_init (decl : Fields) : SlotsInv decl [] (slotsInit decl) := by
  intro i hi
  simp [slotsInit, TextDe.seenGet, List.getElem?_replicate, hi]

/-- (the two TEXT references agree) for every flat logical document whose keys and values have a text form
and every struct request whose met fields are scalar requests under `Option` layers (`bridgeDoc`): this slice's
reference `valueOfText` over the logical document and the text slice's reference `valueOf` over the text
document `docOf` have the same outcome - the same value, or the same `missing` / `duplicate` / type error. -/
theorem valueOfText_bridge (c : Cfg) (decl : Fields) (d : BDoc) (h : bridgeDoc c decl d = true) :
    SameOutcome decl (TextDoc.valueOf .w1252 (.st (trFields decl)) (docOf c d))
      (valueOfText c (.plain (.struct decl)) d) := by
  have hF : ∀ i n tk t, decl.get? i = some (n, tk, t) → (stripOpt t).1 < TextDe.Ty.heightFs (trFields decl) + 1 := by
    intro i n tk t hg
    have h1 := stripOpt_height t
    have h2 := height_get decl i n tk t hg
    omega
  have := struct_agree c decl _ hF d.len d rfl h [] (slotsInit decl) (slotsInv_init decl)
  simp only [valueOfText, valueOfG, TextDoc.valueOf, TextDe.Ty.height, TextDoc.valueOfN]
  simp only [finishOf] at this
  exact this

open Jomini Jomini.TextTape Jomini.TextE2E Jomini.TextDoc

/-! ### the text rendering of a flat logical document, with its layout -/

/-- `\n key=value` per field (the whole file ends with one more `\n`); quoted strings stay quoted. -/
def textJ (c : Cfg) : BFields → JFields
  | .nil => .nil
  | .cons _ k v rest =>
    .cons [10] ⟨false, (leafText c k).getD []⟩ [] .eq (.scal [] ⟨nodeQuoted v, nodeBytes c v⟩) (textJ c rest)

theorem toDoc_textJ (c : Cfg) : ∀ (d : BFields), toDoc (textJ c d) = docOf c d
  | .nil => rfl
  | .cons g k v rest => by
    have := toDoc_textJ c rest
    simp only [toDoc] at this ⊢
    simp only [textJ, toFields, toNode, tOp, docOf, this]

/-- a scalar both text parsers read back as written (decidable form of `SafeScal`). -/
def scalOK (s : Scal) : Bool :=
  if s.quoted then decide (quoteClose (s.bytes ++ [34]) false = some s.bytes.length)
  else s.bytes.all (fun b => !TextTape.isBoundary b) &&
    (match s.bytes with
      | b :: _ => !TextTape.isBlank b && b != 34 && b != 64 && b != 63
      | [] => false)

theorem scalOK_safe (s : Scal) (h : scalOK s = true) : SafeScal s := by
  obtain ⟨q, bs⟩ := s
  cases q with
  | true =>
    simp only [scalOK, if_true, decide_eq_true_eq] at h
    exact ⟨by simpa [Scal.Valid] using h, by intro hq; cases hq⟩
  | false =>
    simp only [scalOK, Bool.false_eq_true, if_false, Bool.and_eq_true, List.all_eq_true] at h
    obtain ⟨h1, h2⟩ := h
    cases bs with
    | nil => simp at h2
    | cons b r =>
      simp only [Bool.and_eq_true, Bool.not_eq_true', bne_iff_ne, ne_eq] at h2
      obtain ⟨⟨⟨hb, h34⟩, h64⟩, h63⟩ := h2
      refine ⟨?_, ?_⟩
      · simp only [Scal.Valid, Bool.false_eq_true, if_false]
        exact ⟨fun x hx => by simpa using h1 x hx, b, r, rfl, hb, h34, h64⟩
      · intro _ c' r' hc
        simp only [List.cons.injEq] at hc
        rw [← hc.1]; exact h63

def textOK (c : Cfg) : BFields → Bool
  | .nil => true
  | .cons _ k v rest =>
    scalOK ⟨false, (leafText c k).getD []⟩ && scalOK ⟨nodeQuoted v, nodeBytes c v⟩ && textOK c rest

theorem render_head (c : Cfg) : ∀ (d : BFields) (after : Bytes), (∃ r, after = 10 :: r) →
    ∃ r, jrenderF (textJ c d) ++ after = 10 :: r
  | .nil, after, h => by simpa [textJ, jrenderF] using h
  | .cons g k v rest, after, _ => ⟨_, by simp only [textJ, jrenderF]; rfl⟩

theorem sb10 (r : Bytes) : TextTape.StartsBoundary (10 :: r) := .inr ⟨10, r, rfl, by decide +kernel⟩

theorem textJ_valid (c : Cfg) : ∀ (d : BFields) (after : Bytes), (∃ r, after = 10 :: r) → textOK c d = true →
    JValidF (textJ c d) after ∧ SPlainF (textJ c d)
  | .nil, _, _, _ => by simp [textJ, JValidF, SPlainF]
  | .cons g k v rest, after, ha, h => by
    simp only [textOK, Bool.and_eq_true] at h
    obtain ⟨⟨hk, hv⟩, hr⟩ := h
    obtain ⟨i1, i2⟩ := textJ_valid c rest after ha hr
    have sk := scalOK_safe _ hk
    have sv := scalOK_safe _ hv
    obtain ⟨r, hr'⟩ := render_head c rest after ha
    simp only [textJ, JValidF, JValidV, SPlainF, SPlainV]
    refine ⟨⟨.ws 10 [] (by decide +kernel) .nil, .nil, .inl sk.1, ?_, ⟨.nil, .inl sv.1, ?_⟩, i1⟩, trivial, sk, sv, i2⟩
    · intro _; exact .inr ⟨61, [], rfl, by decide +kernel⟩
    · intro _; rw [hr']; exact sb10 r

theorem textJ_nobom (c : Cfg) (d : BFields) : hasBom (jrenderF (textJ c d) ++ [10]) = false := by
  obtain ⟨r, hr⟩ := render_head c d [10] ⟨[], rfl⟩
  rw [hr]
  simp [hasBom, List.take]

/-! ### the text slice's `FitsT` for the bridged fragment -/

theorem fits_leaf (b : Bool) (lf : Leaf) : ∀ (t : Ty), bridgeCore (stripOpt t).2 = true →
    FitsT .w1252 b (trTy t) (.leaf lf) := by
  intro t h
  cases t with
  | opt i => exact .opt (fits_leaf b lf i (by simpa [stripOpt] using h))
  | ign => exact .ign
  | bool | i64 | u64 | i32 | u32 | str | any => exact .scalar rfl
  | _ => simp [stripOpt, bridgeCore] at h
termination_by t => tySize t
decreasing_by all_goals (subst_vars; simp [tySize])

theorem fits_doc (c : Cfg) (decl : Fields) : ∀ (d : BFields), bridgeDoc c decl d = true →
    ∀ k o v, (k, o, v) ∈ docOf c d → ∀ i t, TextDe.lookupIdx (TextDe.decode .w1252 k.bytes) (trFields decl) 0 = some (i, t) →
      FitsT .w1252 true t v
  | .nil, _, k, o, v, hm, _, _, _ => by simp [docOf] at hm
  | .cons g key val rest, hb, k, o, v, hm, i, t, hl => by
    simp only [bridgeDoc, Bool.and_eq_true] at hb
    obtain ⟨hb1, hb2⟩ := hb
    simp only [docOf, List.mem_cons] at hm
    rcases hm with hm | hm
    · cases hk : leafText c key with
      | none => simp [hk] at hb1
      | some kb =>
        cases val with
        | leaf l =>
          simp only [hk, Bool.and_eq_true] at hb1
          simp only [Prod.mk.injEq, hk, Option.getD_some] at hm
          obtain ⟨rfl, rfl, rfl⟩ := hm
          rw [← decode1252_eq] at hl
          obtain ⟨la1, la2⟩ := lookup_agree decl (decode1252 kb) 0
          cases hp : decl.posName (decode1252 kb) 0 with
          | none => rw [la1 hp] at hl; cases hl
          | some j =>
            obtain ⟨n, tk, t0, g1, _, _, g4⟩ := la2 j hp
            simp only [Nat.sub_zero] at g1
            rw [g4] at hl
            simp only [Option.some.injEq, Prod.mk.injEq] at hl
            obtain ⟨rfl, rfl⟩ := hl
            have : bridgeCore (stripOpt t0).2 = true := by simpa [hp, g1] using hb1.2
            exact fits_leaf true _ t0 this
        | _ => simp [hk] at hb1
    · exact fits_doc c decl rest hb2 k o v hm i t hl

/-! ### the capstone -/

/-- the decidable condition of the capstone: a binary document of the byte-level model `BinTape.Fields`
that is well-formed, canonical and without mixed containers (C04's end-to-end conditions); flat, with keys
that mean the same in both formats and values in C10's shared leaf fragment for the field they meet
(`c10doc`); scalars that have a text form the text parsers read
back as written (`bridgeDoc`, `textOK`). -/
def c10bytes (c : Cfg) (decl : Fields) (D : BinTape.Fields) : Bool :=
  noMixedF D && D.wfDoc && canonF D && c10doc c decl (toBDoc D) &&
    bridgeDoc c decl (toBDoc D) && textOK c (toBDoc D)

/-- (C10 at BYTE level, flat documents) ONE logical document `D`, ONE struct definition `decl`.
TEXT bytes: the rendering `\n key=value … \n` of the document (`textJ`); BINARY bytes: its encoding `D.encode`.

 * the text tape parser model accepts the text bytes, and the text TAPE deserializer model on its tape,
 * the text STREAMING deserializer model on the tokens the slice reader model produces from the same bytes,
 * the binary tape parser model accepts the binary bytes, and the binary TAPE deserializer model on its tape,
 * the binary ON-DEMAND and STREAMING deserializer models on the lexemes of the same binary bytes

all have the same outcome: the reference value `valueOfBin` of the logical document for the struct - the text
side as a `Val` term that reads as that value (`SameOutcome`: same value, or the same missing / duplicate /
type error).  Windows-1252 on both sides. -/
theorem C10_bytes_end_to_end (c : Cfg) (decl : Fields) (D : BinTape.Fields) (h : c10bytes c decl D = true) :
    ∃ Tt bom,
      TextTape.parse (jrenderF (textJ c (toBDoc D)) ++ [10]) = .ok Tt bom ∧
      BinTape.parse false D.encode = .ok (BinTape.tapeOfBin D) ∧
      SameOutcome decl (TextDe.deTape .w1252 (.st (trFields decl)) (toTextDeTape Tt))
        (valueOfBin c (.plain (.struct decl)) (toBDoc D)) ∧
      SameOutcome decl
        (TextDe.deStream .w1252 (.st (trFields decl))
          ((TextReader.sliceTokens (jrenderF (textJ c (toBDoc D)) ++ [10])).toks.map toRTok))
        (valueOfBin c (.plain (.struct decl)) (toBDoc D)) ∧
      deTape c (.plain (.struct decl)) (toBinDeTape (BinTape.tapeOfBin D)) = valueOfBin c (.plain (.struct decl)) (toBDoc D) ∧
      deOndemand c (.plain (.struct decl)) (rawLexemes D.encode) = valueOfBin c (.plain (.struct decl)) (toBDoc D) ∧
      deStream c (.plain (.struct decl)) (rawLexemes D.encode) = valueOfBin c (.plain (.struct decl)) (toBDoc D) := by
  simp only [c10bytes, Bool.and_eq_true] at h
  obtain ⟨⟨⟨⟨⟨hm, hw⟩, hc⟩, hdoc⟩, hbr⟩, htx⟩ := h
  -- binary side
  obtain ⟨hC, _, hfit⟩ := c10doc_fields c decl (toBDoc D).len (toBDoc D) rfl hdoc
  have hparse : BinTape.parse false D.encode = .ok (BinTape.tapeOfBin D) := BinTape.faithful_doc D hw
  obtain ⟨e1, e2, e3⟩ := C04_paths_end_to_end c (.plain (.struct decl)) D hm hw hc (by simpa [fitsRoot] using hfit) false _ hparse
  -- the two references
  have hspec := C10_flat_spec c decl (toBDoc D) hC
  have hbridge := valueOfText_bridge c decl (toBDoc D) hbr
  rw [hspec] at hbridge
  -- text side
  obtain ⟨hv, hp⟩ := textJ_valid c (toBDoc D) [10] ⟨[], rfl⟩ htx
  have hfitT : FitsT .w1252 false (.st (trFields decl)) (.obj (toDoc (textJ c (toBDoc D)))) := by
    rw [toDoc_textJ]
    exact .st (fits_doc c decl (toBDoc D) hbr)
  obtain ⟨Tt, bom, t1, t2, t3⟩ := C02_paths_end_to_end .w1252 (.st (trFields decl)) (textJ c (toBDoc D)) [10]
    (.ws 10 [] (by decide +kernel) .nil) hv (textJ_nobom c (toBDoc D)) hp rfl hfitT
  rw [toDoc_textJ] at t2 t3
  refine ⟨Tt, bom, t1, hparse, ?_, ?_, e3, ?_, ?_⟩
  · rw [t2]; exact hbridge
  · rw [t3]; exact hbridge
  · rw [← e1]; exact e3
  · rw [← e2]; exact e3

/-- the condition is satisfiable: `a=-5  name="eng"  z=7  x=yes` with the key `a` a token id the resolver knows,
read as `struct { a: i64, name: Option<String>, x: bool }` (`z` is not declared). -/
def exC10Cfg : Cfg := { strat := .error, entries := [(8192, [97])] }
def exC10Decl : Fields := .cons "a" 0 .i64 (.cons "name" 0 (.opt .str) (.cons "x" 0 .bool .nil))
def exC10Doc : BinTape.Fields :=
  .cons 0 (.id 8192) (.sc (.i32 [251, 255, 255, 255]))
    (.cons 0 (.unquoted [110, 97, 109, 101]) (.sc (.quoted [101, 110, 103]))
      (.cons 0 (.quoted [122]) (.sc (.u64 [7, 0, 0, 0, 0, 0, 0, 0]))
        (.cons 0 (.unquoted [120]) (.sc (.bool 1)) .nil)))

example : c10bytes exC10Cfg exC10Decl exC10Doc = true := by decide +kernel

example : jrenderF (textJ exC10Cfg (toBDoc exC10Doc)) ++ [10] =
    [10, 97, 61, 45, 53, 10, 110, 97, 109, 101, 61, 34, 101, 110, 103, 34, 10, 122, 61, 55, 10, 120, 61, 121, 101, 115, 10] := by
  decide +kernel

example : (valueOfBin exC10Cfg (.plain (.struct exC10Decl)) (toBDoc exC10Doc)).toOption =
    some "{a=i-5,name=some(s656e67),x=b1}" := by decide +kernel

end Jomini.BinDe
