import JominiModel.Spec.WriterArrays
import JominiModel.Proofs.WriterTape
/-
Arrays of scalars and empty containers with every start flavour: the exact bytes the writer
produces, and (through the text-tape slice's fragment-3 theorem `faithful_tree`) what they parse to.
-/
namespace Jomini.Writer
open Jomini Jomini.Writer.Spec
open Jomini.TextTape (Scal)

theorem next_arrayValueFirst : WriteState.next .arrayValueFirst = some .arrayValue := by decide
theorem next_firstUnknown : WriteState.next .firstUnknown = some .secondUnknown := by decide
theorem next_arrayValue : WriteState.next .arrayValue = some .arrayValue := by decide
theorem next_secondUnknown : WriteState.next .secondUnknown = some .arrayValue := by decide

/-- any of the three start calls in value position: the separator still owed (`pre`), then `{` -/
theorem start_value (s : State) (fl : Flavour) (pre : Bytes) (hn : s.needsLineTerminator = false)
    (hst : (s.state = .keyValueSeparator ∧ pre = [61]) ∨ (s.state = .objectValue ∧ pre = [])) :
    step s fl.call = .ok { s with out := s.out ++ pre ++ [123], depth := s.mode :: s.depth, needsLineTerminator := true, mode := (match fl with | .objectStart => .object | _ => .array), state := (match fl with | .objectStart => .firstKey | .arrayStart => .arrayValueFirst | .start => .firstUnknown) } := by
  obtain ⟨mode, depth, state, nlt, mixed, c, f, out⟩ := s
  simp only at hn hst
  subst hn
  rcases hst with ⟨rfl, rfl⟩ | ⟨rfl, rfl⟩ <;> cases fl <;>
    simp [Flavour.call, step, writeObjectStart, writeArrayStart, writeStart, writePreamble, writeLineTerminator,
      put, WriteState.noDataYet]

/-- the first element of an array -/
theorem writeRaw_first (s : State) (x : Bytes) (hst : s.state = .arrayValueFirst ∨ s.state = .firstUnknown)
    (hn : s.needsLineTerminator = true) :
    writeRaw s x = .ok { s with out := s.out ++ ([10] ++ (List.replicate (s.depth.length * s.indentFactor) s.indentChar ++ x)), state := (if s.state = .arrayValueFirst then .arrayValue else .secondUnknown), needsLineTerminator := false } := by
  obtain ⟨mode, depth, state, nlt, mixed, c, f, out⟩ := s
  simp only at hst hn
  subst hn
  rcases hst with rfl | rfl <;>
    simp [writeRaw, writePreamble, writeLineTerminator, writeEpilogue, writeIndent_eq, put, next_arrayValueFirst,
      next_firstUnknown, WriteState.noDataYet, List.append_assoc]

/-- a further element -/
theorem writeRaw_more (s : State) (x : Bytes) (hst : s.state = .arrayValue ∨ s.state = .secondUnknown)
    (hn : s.needsLineTerminator = false) (hm : s.mixedMode = .disabled) :
    writeRaw s x = .ok { s with out := s.out ++ (32 :: x), state := .arrayValue, needsLineTerminator := false } := by
  obtain ⟨mode, depth, state, nlt, mixed, c, f, out⟩ := s
  simp only at hst hn hm
  subst hn hm
  rcases hst with rfl | rfl <;>
    simp [writeRaw, writePreamble, writeLineTerminator, writeEpilogue, put, next_arrayValue, next_secondUnknown]

theorem writeEnd_array (s : State) (rest : List DepthMode) (hst : s.state = .arrayValue ∨ s.state = .secondUnknown)
    (hd : s.depth = .object :: rest) :
    writeEnd s = .ok { s with depth := rest, mode := .object, state := .key, out := s.out ++ ([10] ++ (List.replicate (rest.length * s.indentFactor) s.indentChar ++ [125])), needsLineTerminator := true, mixedMode := .disabled } := by
  obtain ⟨mode, depth, state, nlt, mixed, c, f, out⟩ := s
  simp only at hst hd
  subst hd
  rcases hst with rfl | rfl <;> simp [writeEnd, WriteState.noDataYet, writeIndent_eq, put, List.append_assoc]

theorem writeEnd_empty (s : State) (rest : List DepthMode)
    (hst : s.state = .firstKey ∨ s.state = .arrayValueFirst ∨ s.state = .firstUnknown)
    (hd : s.depth = .object :: rest) :
    writeEnd s = .ok { s with depth := rest, mode := .object, state := .key, out := s.out ++ [32, 125], needsLineTerminator := true, mixedMode := .disabled } := by
  obtain ⟨mode, depth, state, nlt, mixed, c, f, out⟩ := s
  simp only at hst hd
  subst hd
  rcases hst with rfl | rfl | rfl <;> simp [writeEnd, WriteState.noDataYet, put]

/-- the further elements of an array -/
theorem run_elems : ∀ (rest : List SCall) (s : State), (s.state = .arrayValue ∨ s.state = .secondUnknown) →
    s.needsLineTerminator = false → s.mixedMode = .disabled →
    ∃ s', (run (rest.map SCall.call) s).1 = s' ∧ (s'.state = .arrayValue ∨ s'.state = .secondUnknown) ∧
      s'.needsLineTerminator = false ∧ s'.mixedMode = .disabled ∧ s'.depth = s.depth ∧ s'.mode = s.mode ∧
      s'.indentChar = s.indentChar ∧ s'.indentFactor = s.indentFactor ∧ s'.out = s.out ++ elemsText rest
  | [], s, hst, hn, hm => ⟨s, rfl, hst, hn, hm, rfl, rfl, rfl, rfl, by simp [elemsText]⟩
  | e :: r, s, hst, hn, hm => by
    have h := writeRaw_more s e.scal.text hst hn hm
    simp only [List.map_cons]
    rw [run_cons_ok _ ((step_scall s e).trans h)]
    obtain ⟨s', h1, h2, h3, h4, h5, h6, h7, h8, h9⟩ := run_elems r { s with out := s.out ++ (32 :: e.scal.text), state := .arrayValue, needsLineTerminator := false } (Or.inl rfl) rfl hm
    exact ⟨s', h1, h2, h3, h4, h5, h6, h7, h8, by rw [h9]; simp [elemsText, List.append_assoc]⟩

/-- the writer after the start call of an array and its first element -/
def arrOpen (s : State) (pre : Bytes) (unknown : Bool) (x : Bytes) : State :=
  { s with out := s.out ++ pre ++ [123] ++ ([10] ++ (List.replicate ((s.depth.length + 1) * s.indentFactor) s.indentChar ++ x)), depth := s.mode :: s.depth, needsLineTerminator := false, mode := .array, state := (if unknown then .secondUnknown else .arrayValue) }

theorem run_arrOpen (s : State) (pre : Bytes) (unknown : Bool) (first : SCall) (cs : List Call)
    (hn : s.needsLineTerminator = false)
    (hst : (s.state = .keyValueSeparator ∧ pre = [61]) ∨ (s.state = .objectValue ∧ pre = [])) :
    (run ((if unknown then Call.start else Call.arrayStart) :: first.call :: cs) s).1 =
      (run cs (arrOpen s pre unknown first.scal.text)).1 := by
  have hstart := start_value s (if unknown then .start else .arrayStart) pre hn hst
  have hcall : (if unknown then Call.start else Call.arrayStart) = (if unknown then Flavour.start else Flavour.arrayStart).call := by
    cases unknown <;> rfl
  rw [hcall, run_cons_ok _ hstart]
  cases unknown
  · have hfirst := writeRaw_first { s with out := s.out ++ pre ++ [123], depth := s.mode :: s.depth, needsLineTerminator := true, mode := .array, state := .arrayValueFirst } first.scal.text (Or.inl rfl) rfl
    simp only [Bool.false_eq_true, if_false]
    rw [run_cons_ok _ ((step_scall _ first).trans hfirst)]
    simp [arrOpen]
  · have hfirst := writeRaw_first { s with out := s.out ++ pre ++ [123], depth := s.mode :: s.depth, needsLineTerminator := true, mode := .array, state := .firstUnknown } first.scal.text (Or.inr rfl) rfl
    simp only [if_true]
    rw [run_cons_ok _ ((step_scall _ first).trans hfirst)]
    simp [arrOpen]

/-- a root-level value, from the state after the key / after the operator -/
theorem run_aval (c : UInt8) (f : Nat) (v : AVal) (s : State) (pre : Bytes) (hi : Inv s c f 0)
    (hn : s.needsLineTerminator = false)
    (hst : (s.state = .keyValueSeparator ∧ pre = [61]) ∨ (s.state = .objectValue ∧ pre = [])) :
    ∃ s', (run v.calls s).1 = s' ∧ s'.out = s.out ++ pre ++ v.text c f ∧ s'.state = .key ∧
      s'.needsLineTerminator = true ∧ Inv s' c f 0 := by
  have hdep : s.depth = [] := List.length_eq_zero_iff.1 hi.depth
  cases v with
  | scal sc =>
    simp only [AVal.calls, run, step_scall, AVal.text]
    rcases hst with ⟨hs, rfl⟩ | ⟨hs, rfl⟩
    · rw [writeRaw_kvs s _ hs hn]
      exact ⟨_, rfl, by simp [List.append_assoc], rfl, rfl, ⟨hi.depth, hi.mixed, hi.mode, hi.allObj, hi.ic, hi.fac⟩⟩
    · rw [writeRaw_objectValue s _ hs hn]
      exact ⟨_, rfl, by simp, rfl, rfl, ⟨hi.depth, hi.mixed, hi.mode, hi.allObj, hi.ic, hi.fac⟩⟩
  | empty fl =>
    simp only [AVal.calls]
    rw [run_cons_ok _ (start_value s fl pre hn hst)]
    have hend := writeEnd_empty { s with out := s.out ++ pre ++ [123], depth := s.mode :: s.depth, needsLineTerminator := true, mode := (match fl with | .objectStart => .object | _ => .array), state := (match fl with | .objectStart => .firstKey | .arrayStart => .arrayValueFirst | .start => .firstUnknown) } s.depth (by cases fl <;> first | exact Or.inl rfl | exact Or.inr (Or.inl rfl) | exact Or.inr (Or.inr rfl)) (by simp [hi.mode])
    rw [run_single_ok ((step_end _).trans hend)]
    exact ⟨_, rfl, by simp [AVal.text, List.append_assoc], rfl, rfl, ⟨hi.depth, rfl, rfl, hi.allObj, hi.ic, hi.fac⟩⟩
  | arr unknown first rest =>
    simp only [AVal.calls]
    rw [run_arrOpen s pre unknown first _ hn hst, run_append]
    -- further elements
    obtain ⟨s2, h1, h2, h3, h4, h5, h6, h7, h8, h9⟩ := run_elems rest (arrOpen s pre unknown first.scal.text)
      (by cases unknown <;> first | exact Or.inl rfl | exact Or.inr rfl) rfl hi.mixed
    rw [h1]
    -- end
    have hend := writeEnd_array s2 s.depth h2 (by rw [h5]; simp [arrOpen, hi.mode])
    rw [run_single_ok ((step_end _).trans hend)]
    refine ⟨_, rfl, ?_, rfl, rfl, ⟨hi.depth, rfl, rfl, hi.allObj, by rw [h7]; exact hi.ic, by rw [h8]; exact hi.fac⟩⟩
    simp only [h9, h7, h8, arrOpen, hi.ic, hi.fac, hdep, AVal.text, ind]
    simp [List.append_assoc]

/-- root fields -/
theorem run_acalls (c : UInt8) (f : Nat) : ∀ (fs : List AField) (s : State), Inv s c f 0 → s.state = .key →
    (run (acalls fs) s).1.out = s.out ++ atext c f fs (!s.needsLineTerminator)
  | [], s, _, _ => by simp [acalls, run, atext]
  | x :: r, s, hi, hs => by
    have hdep : s.depth = [] := List.length_eq_zero_iff.1 hi.depth
    have hk := writeRaw_key s x.key.scal.text hs hdep
    simp only [acalls, AField.calls, List.cons_append]
    rw [run_cons_ok _ ((step_scall s x.key).trans hk), List.append_assoc, run_append]
    have hi1 : Inv { s with out := s.out ++ (if s.needsLineTerminator then [10] else []) ++ x.key.scal.text, state := .keyValueSeparator, needsLineTerminator := false } c f 0 := ⟨hi.depth, hi.mixed, hi.mode, hi.allObj, hi.ic, hi.fac⟩
    obtain ⟨s2, pre, h2, hi2, hn2, _, hout2, hst2⟩ := run_opCalls x.op _ c f 0 hi1 rfl rfl
    rw [h2, run_append]
    obtain ⟨s3, h3, hout3, hs3, hn3, hi3⟩ := run_aval c f x.val s2 pre hi2 hn2 hst2
    rw [h3, run_acalls c f r s3 hi3 hs3, hout3, hout2, hn3]
    cases s.needsLineTerminator <;> simp [atext, List.append_assoc]

theorem lexemes_arrays (fs : List AField) (c : UInt8) (f : Nat) :
    (run (acalls fs) (State.init c f)).1.out = atext c f fs true := by
  have hi : Inv (State.init c f) c f 0 := ⟨rfl, rfl, rfl, by simp [State.init], rfl, rfl⟩
  have := run_acalls c f fs (State.init c f) hi rfl
  simpa [State.init] using this

end Jomini.Writer

/-! ### the writer's layout of arrays as a layout of the text-tape slice's fragment 3 -/
namespace Jomini.WriterParse
open Jomini Jomini.Writer.Spec Jomini.TextTape

def elemsJ : List SCall → JVals
  | [] => .nil
  | e :: r => .cons (.scal [32] e.scal) (elemsJ r)

def vlayout (c : UInt8) (f : Nat) (g : Bytes) : AVal → JVal
  | .scal s => .scal g s.scal
  | .arr _ first rest => .arrS g ([10] ++ ind c f 1) first.scal (elemsJ rest) [10]
  | .empty _ => .empty g [32]

def alayout (c : UInt8) (f : Nat) : List AField → Bool → JFields
  | [], _ => .nil
  | x :: r, first =>
    .cons (if first then [] else [10]) x.key.scal (gapOf (opOf x.op)) (opOf x.op)
      (vlayout c f (gapOf (opOf x.op)) x.val) (alayout c f r false)

theorem jrenderVs_elemsJ : ∀ (r : List SCall), jrenderVs (elemsJ r) = elemsText r
  | [] => rfl
  | e :: r => by simp [elemsJ, jrenderVs, jrenderV, elemsText, jrenderVs_elemsJ r]

theorem jrenderV_vlayout (c : UInt8) (f : Nat) (g : Bytes) (v : AVal) :
    jrenderV (vlayout c f g v) = g ++ v.text c f := by
  cases v with
  | scal s => simp [vlayout, jrenderV, AVal.text]
  | arr u first rest => simp [vlayout, jrenderV, AVal.text, jrenderVs_elemsJ, List.append_assoc]
  | empty fl => simp [vlayout, jrenderV, AVal.text]

theorem jrenderF_alayout (c : UInt8) (f : Nat) : ∀ (fs : List AField) (first : Bool),
    jrenderF (alayout c f fs first) = atext c f fs first
  | [], _ => rfl
  | x :: r, first => by
    simp only [alayout, jrenderF, atext, jrenderV_vlayout, jrenderF_alayout c f r false, sepText_split]
    simp [List.append_assoc]

theorem kcontentVs_elemsJ : ∀ (r : List SCall), kcontentVs (elemsJ r) = elemsK r
  | [] => rfl
  | e :: r => by simp [elemsJ, kcontentVs, kcontentV, elemsK, kcontentVs_elemsJ r]

theorem kcontentF_alayout (c : UInt8) (f : Nat) : ∀ (fs : List AField) (first : Bool),
    kcontentF (alayout c f fs first) = acontent fs
  | [], _ => rfl
  | x :: r, first => by
    simp only [alayout, kcontentF, acontent, kcontentF_alayout c f r false]
    cases x.val <;> simp [vlayout, kcontentV, AVal.content, kcontentVs_elemsJ]

/-- a scalar followed by anything but `=` is not taken for the first key of an object -/
theorem peek_scal {s : Scal} (hs : s.Valid) (X : Bytes) (hX : X.head? ≠ some 61) :
    firstFieldPeek (s.text ++ X) = false := by
  unfold Scal.Valid at hs
  unfold Scal.text
  cases hq : s.quoted with
  | true => simp [firstFieldPeek]
  | false =>
    simp only [hq, Bool.false_eq_true, if_false] at hs ⊢
    obtain ⟨hb, c, r, hbytes, _, _, _⟩ := hs
    have hc : isBoundary c = false := hb c (by simp [hbytes])
    have h61 : c ≠ 61 := by rintro rfl; simp [bnd_eq] at hc
    have h62 : c ≠ 62 := by rintro rfl; simp [bnd_gt] at hc
    have h60 : c ≠ 60 := by rintro rfl; simp [bnd_lt] at hc
    have h33 : c ≠ 33 := by rintro rfl; simp [bnd_bang] at hc
    rw [hbytes]
    simp only [List.cons_append, firstFieldPeek, h61, h62, h60, h33, false_or, or_self, decide_false,
      Bool.false_or]
    cases r with
    | nil => simp [hX]
    | cons c2 r2 =>
      have hc2 : isBoundary c2 = false := hb c2 (by simp [hbytes])
      have : c2 ≠ 61 := by rintro rfl; simp [bnd_eq] at hc2
      simp [this]

theorem sb_of_head {X : Bytes} {c : UInt8} (h : X.head? = some c) (hc : isBoundary c = true) : StartsBoundary X := by
  cases X with
  | nil => simp at h
  | cons a r => simp at h; subst h; exact .inr ⟨a, r, rfl, hc⟩

theorem elems_head (r : List SCall) (Z : Bytes) : (elemsText r ++ ([10] ++ Z)).head? ≠ some 61 := by
  cases r <;> simp [elemsText]

theorem startsBoundary_elems (r : List SCall) (Z : Bytes) : StartsBoundary (elemsText r ++ ([10] ++ Z)) := by
  cases r with
  | nil => exact .inr ⟨10, Z, by simp [elemsText], Writer.bnd_nl⟩
  | cons e r' => exact sb_of_head (c := 32) (by simp [elemsText]) Writer.bnd_sp

theorem valid_elemsJ : ∀ (r : List SCall) (Z : Bytes), (∀ e ∈ r, e.scal.Valid) →
    JValidVs (elemsJ r) ([10] ++ Z)
  | [], _, _ => trivial
  | e :: r, Z, h => by
    refine ⟨⟨Writer.blank_sp, Or.inl (h e (by simp)), fun _ => ?_⟩, valid_elemsJ r Z (fun x hx => h x (by simp [hx]))⟩
    rw [jrenderVs_elemsJ]
    exact startsBoundary_elems r Z

theorem valid_vlayout (c : UInt8) (f : Nat) (hc : isBlank c = true) (g : Bytes) (hg : Blank g) (v : AVal)
    (hv : ∀ s, v = .scal s → s.scal.Valid)
    (ha : ∀ u first rest, v = .arr u first rest → first.scal.Valid ∧ ∀ e ∈ rest, e.scal.Valid)
    (after : Bytes) (hafter : StartsBoundary after) : JValidV (vlayout c f g v) after := by
  cases v with
  | scal s => exact ⟨hg, Or.inl (hv s rfl), fun _ => hafter⟩
  | empty fl => exact ⟨hg, Writer.blank_sp⟩
  | arr u first rest =>
    obtain ⟨hf, hr⟩ := ha u first rest rfl
    refine ⟨hg, blank_nl_ind c hc f 1, Writer.blank_nl, Or.inl hf, fun _ => ?_, ?_, valid_elemsJ rest _ hr⟩
    · rw [jrenderVs_elemsJ]; exact startsBoundary_elems rest _
    · intro d2 hd2
      rw [jrenderVs_elemsJ] at hd2
      cases rest with
      | nil =>
        simp only [elemsText, List.nil_append, List.cons_append, skipWs, skipWsAux] at hd2
        have hb10 : isBlank 10 = true := by decide +kernel
        simp only [hb10, if_true, blank_close, Bool.false_eq_true, if_false] at hd2
        simp at hd2
        rw [← hd2]; simp [firstFieldPeek]
      | cons e r' =>
        have he := hr e (by simp)
        have hsk : skipWs (elemsText (e :: r') ++ ([10] ++ 125 :: after)) =
            some (e.scal.text ++ (elemsText r' ++ ([10] ++ 125 :: after))) := by
          have := skipWs_blank Writer.blank_sp (e.scal.text ++ (elemsText r' ++ ([10] ++ 125 :: after)))
          simp only [elemsText, List.cons_append, List.append_assoc, List.nil_append] at this ⊢
          rw [this]
          exact skipWs_scal he _
        rw [hsk] at hd2
        cases hd2
        exact peek_scal he _ (elems_head r' _)

theorem startsBoundary_alayout (c : UInt8) (f : Nat) (r : List AField) :
    StartsBoundary (jrenderF (alayout c f r false) ++ []) := by
  cases r with
  | nil => left; rfl
  | cons x r' => exact sb_of_head (c := 10) (by simp [alayout, jrenderF]) Writer.bnd_nl

theorem valid_alayout (c : UInt8) (f : Nat) (hc : isBlank c = true) : ∀ (fs : List AField) (first : Bool),
    (∀ x ∈ fs, x.key.scal.Valid ∧ (∀ s, x.val = .scal s → s.scal.Valid) ∧
      (∀ u a rest, x.val = .arr u a rest → a.scal.Valid ∧ ∀ e ∈ rest, e.scal.Valid)) →
    JValidF (alayout c f fs first) []
  | [], _, _ => trivial
  | x :: r, first, h => by
    obtain ⟨hk, hs, ha⟩ := h x (by simp)
    refine ⟨?_, blank_gapOf _, Or.inl hk, fun _ => ?_, ?_, valid_alayout c f hc r false (fun y hy => h y (by simp [hy]))⟩
    · split
      · exact .nil
      · exact Writer.blank_nl
    · right
      unfold gapOf
      by_cases ho : opOf x.op = .eq
      · exact ⟨61, [], by simp [ho, Op.text], bnd_eq⟩
      · exact ⟨32, (opOf x.op).text, by simp [ho], Writer.bnd_sp⟩
    · exact valid_vlayout c f hc _ (blank_gapOf _) x.val hs ha _ (startsBoundary_alayout c f r)

end Jomini.WriterParse
