import JominiModel.Model.BinReaderPolicy
import JominiModel.Proofs.BinReaderBytes
/-
The streaming theorems for EVERY buffer policy that meets `Policy.Contract`
(`C08_stream_eq_lexer_any_policy`), with the eager policy of buffer.rs and the lazy policy of
R2_buffer_lazy_compaction as instances.
-/
namespace Jomini.BinReader
open Jomini Jomini.BinLexer

theorem eagerPolicy_contract (cap : Nat) : eagerPolicy.Contract cap := by
  refine ⟨Nat.zero_le _, ?_, ?_, ?_⟩
  · intro st w h hw
    simp only [eagerPolicy] at *
    omega
  · intro st w r h hw hr
    simp only [eagerPolicy] at *
    omega
  · intro st w amt h ha
    simp only [eagerPolicy] at *
    omega

theorem lazyPolicy_contract (cap : Nat) : lazyPolicy.Contract cap := by
  refine ⟨Nat.zero_le _, ?_, ?_, ?_⟩
  · show ∀ (st w : Nat), st + w ≤ cap → w < cap →
      1 ≤ (if w = 0 ∨ st + w = cap then cap - w else cap - (st + w)) ∧
      w + (if w = 0 ∨ st + w = cap then cap - w else cap - (st + w)) ≤ cap
    intro st w h hw
    by_cases hc : w = 0 ∨ st + w = cap
    · rw [if_pos hc]; omega
    · rw [if_neg hc]; omega
  · show ∀ (st w r : Nat), st + w ≤ cap → w < cap →
      r ≤ (if w = 0 ∨ st + w = cap then cap - w else cap - (st + w)) →
      (if w = 0 ∨ st + w = cap then 0 else st) + (w + r) ≤ cap
    intro st w r h hw hr
    by_cases hc : w = 0 ∨ st + w = cap
    · rw [if_pos hc] at hr ⊢; omega
    · rw [if_neg hc] at hr ⊢; omega
  · show ∀ (st w amt : Nat), st + w ≤ cap → amt ≤ w → st + amt + (w - amt) ≤ cap
    intro st w amt h ha
    omega

variable {P : Policy}

/-- the bytes the lexer would still see -/
def AReader.remaining (a : AReader P) (data : Bytes) : Bytes := data.drop a.position

/-- abstract reader invariant relative to the whole input -/
structure AInv (a : AReader P) (data : Bytes) : Prop where
  view : a.window ++ a.src.rest = data.drop a.position
  ple : a.position ≤ data.length
  wf : Src.WfSched a.src.sched
  pol : P.Inv a.cap a.st a.window.length
  deliv : a.src.delivered = a.position + a.window.length
  cpos : 0 < a.cap
  wcap : a.window.length ≤ a.cap

theorem ainv_new (P : Policy) (cap : Nat) (data : Bytes) (sched : List Step) (hP : P.Contract cap)
    (hcap : 0 < cap) (hwf : Src.WfSched sched) : AInv (AReader.new P cap (Src.new data sched)) data :=
  ⟨by simp [AReader.new, Src.new], Nat.zero_le _, hwf, hP.init, rfl, hcap, Nat.zero_le _⟩

/-- outcomes of the abstract `fill` under the contract -/
theorem afill_cases (a : AReader P) (data : Bytes) (h : AInv a data) (hP : P.Contract a.cap) :
    (a.cap ≤ a.window.length ∧ a.fill = (.error .bufferFull, a)) ∨
    (a.window.length < a.cap ∧ ∃ n a', a.fill = (.ok n, a') ∧ AInv a' data ∧ a'.cap = a.cap ∧
      a'.position = a.position ∧ a'.window = a.window ++ a.src.rest.take n ∧
      a'.src.rest = a.src.rest.drop n ∧ n ≤ a.src.rest.length ∧ (n = 0 → a.src.rest = []) ∧
      a'.window.length ≤ a.cap) ∨
    (a.window.length < a.cap ∧ ∃ a', a.fill = (.error .io, a') ∧ AInv a' data ∧ a'.cap = a.cap ∧
      a'.position = a.position ∧ a'.window = a.window ∧ a'.src.rest = a.src.rest) := by
  unfold AReader.fill
  by_cases hfull : a.window.length ≥ a.cap
  · left; rw [if_pos hfull]; exact ⟨hfull, rfl⟩
  · right
    rw [if_neg hfull]
    have hlt : a.window.length < a.cap := by omega
    obtain ⟨hr1, hr2⟩ := hP.room a.st a.window.length h.pol hlt
    rcases Src.read_cases a.src (P.req a.cap a.st a.window.length) h.wf with
      ⟨n, s', hread, hn1, hn2, hrest, hd, hw, hz⟩ | ⟨s', hread, hrest, hd, hw⟩
    · left
      have hbl : (a.src.rest.take n).length = n := by rw [List.length_take]; omega
      rw [hread]
      simp only [hbl]
      refine ⟨hlt, n, _, rfl, ⟨?_, h.ple, hw, ?_, ?_, h.cpos, ?_⟩, rfl, rfl, rfl, hrest, hn2, ?_, ?_⟩
      · simp only
        rw [List.append_assoc, hrest, List.take_append_drop]; exact h.view
      · simp only [List.length_append, hbl]
        exact hP.fill _ _ _ h.pol hlt hn1
      · simp only [List.length_append, hbl]
        rw [hd, h.deliv]; omega
      · simp only [List.length_append, hbl]; omega
      · intro h0
        rcases hz h0 with hh | hh
        · omega
        · exact hh
      · simp only [List.length_append, hbl]; omega
    · right
      rw [hread]
      refine ⟨hlt, _, rfl, ⟨?_, h.ple, hw, ?_, ?_, h.cpos, h.wcap⟩, rfl, rfl, rfl, hrest⟩
      · simp only; rw [hrest]; exact h.view
      · have := hP.fill _ _ 0 h.pol hlt (Nat.zero_le _)
        simpa using this
      · simp only; rw [hd]; exact h.deliv

/-- what one abstract `next` call may return, relative to the slice lexer at the same offset -/
def ANextPost (data : Bytes) (a : AReader P) (res : Except ReaderError (Option Token)) (a' : AReader P) : Prop :=
  match res with
  | .ok (some t) => (∃ r, readToken (a.remaining data) = .ok (t, r) ∧ a'.remaining data = r) ∧
      ¬ TooSmallAt a.cap (a.remaining data)
  | .ok none => a.remaining data = [] ∧ a'.src.rest = [] ∧ a'.position = a.position
  | .error e =>
    e.position = a'.position ∧ a'.position = a.position ∧
    (match e.kind with
     | .lexer .eof => readToken (a.remaining data) = .error .eof ∧ a.remaining data ≠ [] ∧ a'.src.rest = [] ∧
         ¬ TooSmallAt a.cap (a.remaining data)
     | .lexer .invalidRgb => readToken (a.remaining data) = .error .invalidRgb ∧
         ¬ TooSmallAt a.cap (a.remaining data)
     | .read => True
     | .bufferFull => TooSmallAt a.cap (a.remaining data)
     | .ub => False
     | .fuel => False)

theorem aremaining_eq {a : AReader P} {data : Bytes} (h : AInv a data) :
    a.remaining data = a.window ++ a.src.rest := h.view.symm

/-- a window on which `read_token` has a verdict other than `Eof` shows the token fits -/
theorem not_small_of_window {a : AReader P} {data : Bytes} (h : AInv a data)
    (hv : readToken a.window ≠ .error .eof) : ¬ TooSmallAt a.cap (a.remaining data) := by
  rintro ⟨k, hk1, hk2, hk3⟩
  have hpre : (a.remaining data).take k = a.window ++ (a.src.rest.take (k - a.window.length)) := by
    rw [aremaining_eq h, List.take_append, List.take_of_length_le (by have := h.wcap; omega)]
  rw [hpre] at hk3
  exact hv (readToken_eof_prefix _ _ hk3)

/-- one call, any policy, any well-formed schedule, fitting or not -/
theorem anext_spec (data : Bytes) (fuel : Nat) (a : AReader P) (h : AInv a data) (hP : P.Contract a.cap)
    (hfuel : a.src.rest.length < fuel) :
    AInv (AReader.next fuel a).2 data ∧ (AReader.next fuel a).2.cap = a.cap ∧
    ANextPost data a (AReader.next fuel a).1 (AReader.next fuel a).2 := by
  induction fuel generalizing a with
  | zero => omega
  | succ fuel ih =>
    have hrem := aremaining_eq h
    unfold AReader.next
    cases hrt : readToken a.window with
    | ok v =>
      obtain ⟨tok, rest⟩ := v
      simp only
      obtain ⟨pre, hpre, _⟩ := readToken_consumes _ _ _ hrt
      have hamt : a.window.length - rest.length = pre.length := by rw [hpre]; simp
      have hv := congrArg List.length h.view
      simp only [List.length_append, List.length_drop] at hv
      have hpl : pre.length ≤ a.window.length := by rw [hpre]; simp
      have hns := not_small_of_window h (by rw [hrt]; simp)
      refine ⟨⟨?_, ?_, h.wf, ?_, ?_, h.cpos, ?_⟩, by simp, ?_⟩
      · simp only [hamt]
        rw [← List.drop_drop, ← h.view, hpre, List.append_assoc, List.drop_left]
      · simp only [hamt]; have := h.ple; omega
      · simp only [hamt]
        have := hP.advance a.st a.window.length pre.length h.pol hpl
        have e : a.window.length - pre.length = rest.length := by rw [hpre]; simp
        rw [e] at this; exact this
      · simp only [hamt]
        have e : a.window.length = pre.length + rest.length := by rw [hpre]; simp
        rw [h.deliv]; omega
      · have e : a.window.length = pre.length + rest.length := by rw [hpre]; simp
        have := h.wcap
        simp only; omega
      · simp only [ANextPost]
        refine ⟨⟨rest ++ a.src.rest, ?_, ?_⟩, hns⟩
        · rw [hrem]; exact readToken_stable.ok _ _ _ _ hrt
        · simp only [AReader.remaining, hamt]
          rw [← List.drop_drop, ← h.view, hpre, List.append_assoc, List.drop_left]
    | error e =>
      cases e with
      | invalidRgb =>
        refine ⟨h, by simp, ?_⟩
        simp only [ANextPost]
        refine ⟨trivial, trivial, ?_, not_small_of_window h (by rw [hrt]; simp)⟩
        rw [hrem]; exact readToken_stable.rgb _ _ hrt
      | eof =>
        simp only
        rcases afill_cases a data h hP with ⟨hfull, hfb⟩ |
          ⟨hlt, n, a', hfb, hinv', hcap', hpos', hwin', hrest', hn, hz, hwc⟩ |
          ⟨hlt, a', hfb, hinv', hcap', hpos', hwin', hrest'⟩
        · rw [hfb]
          refine ⟨h, rfl, ?_⟩
          simp only [ANextPost]
          refine ⟨trivial, trivial, a.window.length, by rw [hrem]; simp, hfull, ?_⟩
          rw [hrem, List.take_left' rfl]; exact hrt
        · rw [hfb]
          simp only
          by_cases hn0 : n = 0
          · rw [if_pos hn0]
            have hs := hz hn0
            have hs' : a'.src.rest = [] := by rw [hrest', hs]; simp
            have hw' : a'.window = a.window := by rw [hwin', hs]; simp
            by_cases hw0 : a'.window.length = 0
            · rw [if_pos hw0]
              refine ⟨hinv', hcap', ?_⟩
              simp only [ANextPost]
              refine ⟨?_, hs', hpos'⟩
              rw [hrem, hs, List.append_nil, ← hw']
              exact List.eq_nil_of_length_eq_zero hw0
            · rw [if_neg hw0]
              refine ⟨hinv', hcap', ?_⟩
              simp only [ANextPost]
              refine ⟨trivial, hpos', ?_, ?_, hs', ?_⟩
              · rw [hrem, hs, List.append_nil]; exact hrt
              · rw [hrem, hs, List.append_nil, ← hw']
                intro hnil; rw [hnil] at hw0; simp at hw0
              · rintro ⟨k, hk1, hk2, _⟩
                rw [hrem, hs, List.append_nil] at hk1
                omega
          · rw [if_neg hn0]
            have hremeq : a'.remaining data = a.remaining data := by simp only [AReader.remaining, hpos']
            obtain ⟨i1, i2, i3⟩ := ih a' hinv' (by rw [hcap']; exact hP)
              (by rw [hrest', List.length_drop]; omega)
            refine ⟨i1, by rw [i2]; exact hcap', ?_⟩
            revert i3
            generalize (AReader.next fuel a').1 = res
            generalize (AReader.next fuel a').2 = a2
            intro i3
            unfold ANextPost at *
            rw [hremeq, hpos', hcap'] at i3
            exact i3
        · rw [hfb]
          refine ⟨hinv', hcap', ?_⟩
          simp only [ANextPost]
          exact ⟨trivial, hpos', trivial⟩

theorem fitsAt_not_small {cap : Nat} {d : Bytes} (h : FitsAt cap d) : ¬ TooSmallAt cap d := by
  rintro ⟨k, hk1, hk2, hk3⟩
  have := h k hk1 hk3
  omega

theorem anext_nofaults (fuel : Nat) (a : AReader P) (h : Src.NoFaults a.src.sched) :
    (∀ p, (AReader.next fuel a).1 ≠ .error ⟨p, .read⟩) ∧ Src.NoFaults (AReader.next fuel a).2.src.sched := by
  induction fuel generalizing a with
  | zero => simp [AReader.next, h]
  | succ fuel ih =>
    unfold AReader.next
    cases hrt : readToken a.window with
    | ok v => obtain ⟨tok, rest⟩ := v; exact ⟨by simp, h⟩
    | error e =>
      cases e with
      | invalidRgb => exact ⟨by simp, h⟩
      | eof =>
        simp only
        unfold AReader.fill
        by_cases hfull : a.window.length ≥ a.cap
        · rw [if_pos hfull]; exact ⟨by simp, h⟩
        · rw [if_neg hfull]
          obtain ⟨bytes, s', hr, hnf⟩ := read_nofaults a.src (P.req a.cap a.st a.window.length) h
          rw [hr]
          simp only
          by_cases hn : bytes.length = 0
          · rw [if_pos hn]
            split
            · exact ⟨by simp, hnf⟩
            · exact ⟨by simp, hnf⟩
          · rw [if_neg hn]
            exact ih _ hnf

/-- every prefix of the abstract call sequence agrees with the slice lexer (faults included) -/
theorem acalls_agree (data : Bytes) (n : Nat) (a : AReader P) (h : AInv a data) (hP : P.Contract a.cap)
    (hfit : Fits a.cap (a.remaining data)) :
    Agrees (a.remaining data) (AReader.calls n a).1 ∧ AInv (AReader.calls n a).2 data ∧
      (AReader.calls n a).2.cap = a.cap := by
  induction n generalizing a with
  | zero => exact ⟨trivial, h, rfl⟩
  | succ n ih =>
    have hns := fitsAt_not_small (fits_head hfit)
    obtain ⟨i1, i2, i3⟩ := anext_spec data a.fuelFor a h hP (by simp [AReader.fuelFor])
    unfold AReader.calls
    revert i1 i2 i3
    generalize AReader.next a.fuelFor a = out
    obtain ⟨res, a'⟩ := out
    intro i1 i2 i3
    simp only at i1 i2 i3
    cases res with
    | ok o =>
      cases o with
      | some t =>
        simp only [ANextPost] at i3
        obtain ⟨⟨r, hr1, hr2⟩, _⟩ := i3
        obtain ⟨j1, j2, j3⟩ := ih a' i1 (by rw [i2]; exact hP) (by rw [i2, hr2]; exact fits_tail hfit hr1)
        simp only
        refine ⟨?_, j2, by rw [j3, i2]⟩
        simp only [Agrees]
        exact ⟨r, hr1, by rw [← hr2]; exact j1⟩
      | none =>
        simp only [ANextPost] at i3
        obtain ⟨hr1, _, hr3⟩ := i3
        have hrem : a'.remaining data = a.remaining data := by simp only [AReader.remaining, hr3]
        obtain ⟨j1, j2, j3⟩ := ih a' i1 (by rw [i2]; exact hP) (by rw [i2, hrem]; exact hfit)
        simp only
        refine ⟨?_, j2, by rw [j3, i2]⟩
        simp only [Agrees]
        exact ⟨hr1, by rw [← hrem]; exact j1⟩
    | error e =>
      simp only [ANextPost] at i3
      obtain ⟨_, hp, hk⟩ := i3
      have hrem : a'.remaining data = a.remaining data := by simp only [AReader.remaining, hp]
      obtain ⟨j1, j2, j3⟩ := ih a' i1 (by rw [i2]; exact hP) (by rw [i2, hrem]; exact hfit)
      simp only
      refine ⟨?_, j2, by rw [j3, i2]⟩
      rw [hrem] at j1
      obtain ⟨pos, kind⟩ := e
      cases kind with
      | lexer le =>
        cases le with
        | eof => simp only at hk; simp only [Agrees]; exact ⟨hk.1, hk.2.1, j1⟩
        | invalidRgb => simp only at hk; simp only [Agrees]; exact ⟨hk.1, j1⟩
      | read => simp only [Agrees]; exact j1
      | bufferFull => simp only at hk; exact absurd hk hns
      | ub => simp only at hk
      | fuel => simp only at hk

theorem aremaining_length {a : AReader P} {data : Bytes} (h : AInv a data) :
    (a.remaining data).length = a.window.length + a.src.rest.length := by
  rw [aremaining_eq h, List.length_append]

/-- fault-free, everything fits: the abstract stream is the lexer run -/
theorem astream_lexes (data : Bytes) (fuel : Nat) (a : AReader P) (h : AInv a data) (hP : P.Contract a.cap)
    (hfit : Fits a.cap (a.remaining data)) (hnf : Src.NoFaults a.src.sched)
    (hfuel : (a.remaining data).length / 2 + 1 < fuel) :
    ∃ term, Lexes (a.remaining data) (AReader.streamLoop fuel a).1 term
        ((AReader.streamLoop fuel a).2.2.remaining data) ∧
      (AReader.streamLoop fuel a).2.1 = embed term ∧ AInv (AReader.streamLoop fuel a).2.2 data ∧
      (term = .done → (AReader.streamLoop fuel a).2.2.src.rest = []) := by
  induction fuel generalizing a with
  | zero => omega
  | succ fuel ih =>
    have hns := fitsAt_not_small (fits_head hfit)
    obtain ⟨i1, i2, i3⟩ := anext_spec data a.fuelFor a h hP (by simp [AReader.fuelFor])
    obtain ⟨n1, n2⟩ := anext_nofaults a.fuelFor a hnf
    unfold AReader.streamLoop
    revert i1 i2 i3 n1 n2
    generalize AReader.next a.fuelFor a = out
    obtain ⟨res, a'⟩ := out
    intro i1 i2 i3 n1 n2
    simp only at i1 i2 i3 n1 n2
    cases res with
    | ok o =>
      cases o with
      | some t =>
        simp only [ANextPost] at i3
        obtain ⟨⟨r, hr1, hr2⟩, _⟩ := i3
        obtain ⟨pre, hpre, hlen⟩ := readToken_consumes _ _ _ hr1
        have hf' : (a'.remaining data).length / 2 + 1 < fuel := by
          rw [hr2]
          have : (a.remaining data).length = pre.length + r.length := by rw [hpre]; simp
          omega
        obtain ⟨term, j1, j2, j3, j4⟩ := ih a' i1 (by rw [i2]; exact hP)
          (by rw [i2, hr2]; exact fits_tail hfit hr1) n2 hf'
        simp only
        exact ⟨term, Lexes.tok hr1 (by rw [← hr2]; exact j1), j2, j3, j4⟩
      | none =>
        simp only [ANextPost] at i3
        obtain ⟨hr1, hr2, hr3⟩ := i3
        simp only
        refine ⟨.done, ?_, rfl, i1, fun _ => hr2⟩
        have : a'.remaining data = [] := by simp only [AReader.remaining, hr3]; exact hr1
        rw [hr1, this]
        exact Lexes.done
    | error e =>
      simp only [ANextPost] at i3
      obtain ⟨_, hp, hk⟩ := i3
      have hrem : a'.remaining data = a.remaining data := by simp only [AReader.remaining, hp]
      obtain ⟨pos, kind⟩ := e
      simp only
      cases kind with
      | lexer le =>
        cases le with
        | eof =>
          simp only at hk
          exact ⟨.err .eof, by rw [hrem]; exact Lexes.eof hk.1 hk.2.1, rfl, i1, by simp⟩
        | invalidRgb =>
          simp only at hk
          exact ⟨.err .invalidRgb, by rw [hrem]; exact Lexes.rgb hk.1, rfl, i1, by simp⟩
      | read => exact absurd rfl (n1 pos)
      | bufferFull => simp only at hk; exact absurd hk hns
      | ub => simp only at hk
      | fuel => simp only at hk

/-- fault-free, some token does not fit: `BufferFull`, after a prefix of the lexer's tokens -/
theorem astream_small (data : Bytes) (fuel : Nat) (a : AReader P) (h : AInv a data) (hP : P.Contract a.cap)
    (hnfit : ¬ Fits a.cap (a.remaining data)) (hnf : Src.NoFaults a.src.sched)
    (hfuel : (a.remaining data).length / 2 + 1 < fuel) :
    (AReader.streamLoop fuel a).2.1 = .err .bufferFull ∧
    (AReader.streamLoop fuel a).1 <+: (lexAll (a.remaining data)).1 := by
  induction fuel generalizing a with
  | zero => omega
  | succ fuel ih =>
    obtain ⟨i1, i2, i3⟩ := anext_spec data a.fuelFor a h hP (by simp [AReader.fuelFor])
    obtain ⟨n1, n2⟩ := anext_nofaults a.fuelFor a hnf
    have hcases := not_fits_cases hnfit
    unfold AReader.streamLoop
    revert i1 i2 i3 n1 n2
    generalize AReader.next a.fuelFor a = out
    obtain ⟨res, a'⟩ := out
    intro i1 i2 i3 n1 n2
    simp only at i1 i2 i3 n1 n2
    cases res with
    | ok o =>
      cases o with
      | some t =>
        simp only [ANextPost] at i3
        obtain ⟨⟨r, hr1, hr2⟩, hns⟩ := i3
        rcases hcases with hbad | ⟨_, t0, r0, hrt0, hnf0⟩
        · exact absurd hbad hns
        · rw [hrt0] at hr1
          simp only [Except.ok.injEq, Prod.mk.injEq] at hr1
          obtain ⟨rfl, rfl⟩ := hr1
          obtain ⟨pre, hpre, hlen⟩ := readToken_consumes _ _ _ hrt0
          have hf' : (a'.remaining data).length / 2 + 1 < fuel := by
            rw [hr2]
            have : (a.remaining data).length = pre.length + r0.length := by rw [hpre]; simp
            omega
          obtain ⟨j1, j2⟩ := ih a' i1 (by rw [i2]; exact hP) (by rw [i2, hr2]; exact hnf0) n2 hf'
          simp only
          rw [lexAll_cons hrt0]
          rw [hr2] at j2
          exact ⟨j1, by simpa using j2⟩
      | none =>
        simp only [ANextPost] at i3
        exfalso
        rcases hcases with ⟨k, hk1, hk2, _⟩ | ⟨_, t0, r0, hrt0, _⟩
        · rw [i3.1] at hk1; simp at hk1; have := h.cpos; omega
        · rw [i3.1, readToken_nil] at hrt0; simp at hrt0
    | error e =>
      simp only [ANextPost] at i3
      obtain ⟨_, _, hk⟩ := i3
      obtain ⟨pos, kind⟩ := e
      simp only
      cases kind with
      | lexer le =>
        exfalso
        cases le with
        | eof =>
          simp only at hk
          rcases hcases with hbad | ⟨_, t0, r0, hrt0, _⟩
          · exact hk.2.2.2 hbad
          · rw [hk.1] at hrt0; simp at hrt0
        | invalidRgb =>
          simp only at hk
          rcases hcases with hbad | ⟨_, t0, r0, hrt0, _⟩
          · exact hk.2 hbad
          · rw [hk.1] at hrt0; simp at hrt0
      | read => exact absurd rfl (n1 pos)
      | bufferFull => exact ⟨rfl, List.nil_prefix⟩
      | ub => simp only at hk
      | fuel => simp only at hk

/-! ### the concrete (eager) reader refines the abstract reader under `eagerPolicy` -/

/-- the concrete `fill_buf` in builder mode with room is one `read` of `cap - window_len` bytes -/
theorem fillBuf_reads (b : Buf) (src : Src) (data : Bytes) (h : Buf.Inv b src data)
    (hwf : Src.WfSched src.sched) (hc : 0 < b.cap) (hlt : b.windowLen < b.cap) :
    (∃ n b' src', src.read (b.cap - b.windowLen) = (.ok (src.rest.take n), src') ∧ n ≤ src.rest.length ∧
      b.fillBuf src = (.ok n, b', src') ∧ Buf.Inv b' src' data ∧ b'.position = b.position ∧
      b'.cap = b.cap ∧ b'.window = b.window ++ src.rest.take n ∧ b'.windowLen = b.windowLen + n ∧
      src'.delivered = src.delivered + n ∧ Src.WfSched src'.sched) ∨
    (∃ b' src', src.read (b.cap - b.windowLen) = (.err, src') ∧
      b.fillBuf src = (.error .io, b', src') ∧ Buf.Inv b' src' data ∧ b'.position = b.position ∧
      b'.cap = b.cap ∧ b'.window = b.window ∧ b'.windowLen = b.windowLen ∧
      src'.delivered = src.delivered ∧ Src.WfSched src'.sched) := by
  have hu : ∀ r, src.read (b.cap - b.windowLen) = r →
      (b.fillBuf src).1 = (match r with | (.ok bytes, _) => .ok bytes.length | (.err, _) => .error .io) ∧
      (b.fillBuf src).2.2 = r.2 := by
    intro r hr
    simp only [Buf.fillBuf]
    rw [if_neg (by omega), if_neg (by omega), hr]
    obtain ⟨rr, s'⟩ := r
    cases rr <;> simp
  rcases Buf.fillBuf_cases b src data h hwf with ⟨hc0, _⟩ | ⟨_, hfull, _⟩ |
    ⟨_, _, n, b', src', hfb, hinv', hpos', hcap', hwin', hwl', hrest', hn, hdel', hwf', _⟩ |
    ⟨_, _, b', src', hfb, hinv', hpos', hcap', hwin', hwl', _, hdel', hwf'⟩
  · omega
  · omega
  · left
    rcases Src.read_cases src (b.cap - b.windowLen) hwf with
      ⟨m, s2, hread, _, hm2, _, _, _, _⟩ | ⟨s2, hread, _, _, _⟩
    · obtain ⟨u1, u2⟩ := hu _ hread
      rw [hfb] at u1 u2
      simp only [Except.ok.injEq] at u1 u2
      have hml : (src.rest.take m).length = m := by rw [List.length_take]; omega
      rw [hml] at u1
      subst u1; subst u2
      exact ⟨n, b', src', hread, hn, hfb, hinv', hpos', hcap', hwin', hwl', hdel', hwf'⟩
    · obtain ⟨u1, _⟩ := hu _ hread
      rw [hfb] at u1
      simp at u1
  · right
    rcases Src.read_cases src (b.cap - b.windowLen) hwf with
      ⟨m, s2, hread, _, _, _, _, _, _⟩ | ⟨s2, hread, _, _, _⟩
    · obtain ⟨u1, _⟩ := hu _ hread
      rw [hfb] at u1
      simp at u1
    · obtain ⟨_, u2⟩ := hu _ hread
      rw [hfb] at u2
      simp only at u2
      subst u2
      exact ⟨b', src', hread, hfb, hinv', hpos', hcap', hwin', hwl', hdel', hwf'⟩

/-- the observable state of a concrete reader is the abstract state -/
def Sim (rd : Reader) (a : AReader eagerPolicy) : Prop :=
  rd.buf.window = a.window ∧ rd.position = a.position ∧ rd.src = a.src ∧ rd.buf.cap = a.cap

local macro "triv" : tactic => `(tactic| first | rfl | trivial)

/-- **the concrete eager reader refines the abstract reader**: from related states, one call of
`Reader.next` and one call of `AReader.next` (eager policy) return the same result and end in
related states -/
theorem eager_sim (data : Bytes) (fuel : Nat) (rd : Reader) (a : AReader eagerPolicy)
    (h : RInv rd data) (hc : 0 < rd.buf.cap) (hs : Sim rd a) :
    (Reader.next fuel rd).1 = (AReader.next fuel a).1 ∧
    Sim (Reader.next fuel rd).2 (AReader.next fuel a).2 ∧ RInv (Reader.next fuel rd).2 data ∧
    (Reader.next fuel rd).2.buf.cap = rd.buf.cap := by
  induction fuel generalizing rd a with
  | zero =>
    obtain ⟨s1, s2, s3, s4⟩ := hs
    simp only [Reader.next, AReader.next]
    exact ⟨by rw [s2], ⟨s1, s2, s3, s4⟩, h, by triv⟩
  | succ fuel ih =>
    obtain ⟨s1, s2, s3, s4⟩ := hs
    have hwl : rd.buf.window.length = rd.buf.windowLen := Buf.window_length h.buf.se h.buf.em
    unfold Reader.next AReader.next
    rw [← s1]
    cases hrt : readToken rd.buf.window with
    | ok v =>
      obtain ⟨tok, rest⟩ := v
      simp only
      obtain ⟨pre, hpre, _⟩ := readToken_consumes _ _ _ hrt
      obtain ⟨rd', hadv, hinv', hwin', _, hsrc', hcap', _⟩ := rinv_advance h hpre
      simp only [hadv]
      have hpos' : rd'.position = rd.position + pre.length := by
        obtain ⟨b', hb1, _, _, hb4, _, _⟩ :=
          Buf.advance_refines rd.buf rd.src data h.buf pre.length (by rw [← hwl, hpre]; simp)
        simp only [Reader.advanceTo] at hadv
        have hlen : rd.buf.windowLen - rest.length = pre.length := by rw [← hwl, hpre]; simp
        rw [hlen, hb1] at hadv
        simp only [Option.some.injEq] at hadv
        rw [← hadv]
        exact hb4
      refine ⟨by triv, ⟨hwin', ?_, by rw [hsrc', s3], by rw [hcap', s4]⟩, hinv', hcap'⟩
      simp only
      rw [hpos', s2, hpre]; simp
    | error e =>
      cases e with
      | invalidRgb =>
        simp only [Reader.lexError]
        exact ⟨by rw [s2], ⟨s1, s2, s3, s4⟩, h, by triv⟩
      | eof =>
        simp only
        by_cases hfull : rd.buf.windowLen ≥ rd.buf.cap
        · -- both report BufferFull
          have hfb : rd.buf.fillBuf rd.src = (.error .bufferFull, rd.buf, rd.src) := by
            simp only [Buf.fillBuf]
            rw [if_neg (by omega), if_pos hfull]
          have hfa : a.fill = (.error .bufferFull, a) := by
            unfold AReader.fill
            rw [if_pos (by rw [← s1, hwl, ← s4]; exact hfull)]
          rw [hfb, hfa]
          simp only [Reader.bufferError]
          exact ⟨by rw [s2], ⟨s1, s2, s3, s4⟩, h, by triv⟩
        · have hlt : rd.buf.windowLen < rd.buf.cap := by omega
          have hreq : eagerPolicy.req a.cap a.st a.window.length = rd.buf.cap - rd.buf.windowLen := by
            simp only [eagerPolicy]; rw [← s1, hwl, s4]
          have hnf : ¬ (a.window.length ≥ a.cap) := by rw [← s1, hwl, ← s4]; omega
          rcases fillBuf_reads rd.buf rd.src data h.buf h.wf hc hlt with
            ⟨n, b', src', hread, hn, hfb, hinv', hpos', hcap', hwin', hwl', hdel', hwf'⟩ |
            ⟨b', src', hread, hfb, hinv', hpos', hcap', hwin', hwl', hdel', hwf'⟩
          · have hml : (rd.src.rest.take n).length = n := by rw [List.length_take]; omega
            have hfa : a.fill = (.ok n, AReader.mk a.cap (a.window ++ rd.src.rest.take n) a.position src'
                (eagerPolicy.onFill a.cap a.st a.window.length n)) := by
              unfold AReader.fill
              rw [if_neg hnf, hreq, ← s3, hread]
              simp only [hml]
            rw [hfb, hfa]
            simp only
            have hrd' : RInv { src := src', buf := b' } data :=
              rinv_fill h hc hinv' hpos' hcap' hwl' hdel' hwf'
            have hsim' : Sim { src := src', buf := b' }
                (AReader.mk a.cap (a.window ++ rd.src.rest.take n) a.position src'
                  (eagerPolicy.onFill a.cap a.st a.window.length n)) :=
              ⟨by rw [hwin', s1], by simp only [Reader.position]; rw [hpos']; exact s2, rfl, by rw [hcap', s4]⟩
            by_cases hn0 : n = 0
            · rw [if_pos hn0, if_pos hn0]
              have hwe : b'.windowLen = (a.window ++ rd.src.rest.take n).length := by
                rw [← Buf.window_length hinv'.se hinv'.em, hwin', s1]
              by_cases hw0 : b'.windowLen = 0
              · rw [if_pos hw0, if_pos (by rw [← hwe]; exact hw0)]
                exact ⟨by triv, hsim', hrd', hcap'⟩
              · rw [if_neg hw0, if_neg (by rw [← hwe]; exact hw0)]
                simp only [Reader.lexError, Reader.position]
                exact ⟨by rw [hpos']; simp only [Reader.position] at s2; rw [s2], hsim', hrd', hcap'⟩
            · rw [if_neg hn0, if_neg hn0]
              obtain ⟨j1, j2, j3, j4⟩ := ih { src := src', buf := b' } _ hrd' (by rw [hcap']; exact hc) hsim'
              exact ⟨j1, j2, j3, by rw [j4]; exact hcap'⟩
          · have hfa : a.fill = (.error .io, AReader.mk a.cap a.window a.position src'
                (eagerPolicy.onFill a.cap a.st a.window.length 0)) := by
              unfold AReader.fill
              rw [if_neg hnf, hreq, ← s3, hread]
            rw [hfb, hfa]
            simp only [Reader.bufferError, Reader.position]
            have hrd' : RInv { src := src', buf := b' } data :=
              rinv_fill (n := 0) h hc hinv' hpos' hcap' (by rw [hwl']; rfl) (by rw [hdel']; rfl) hwf'
            refine ⟨by rw [hpos']; simp only [Reader.position] at s2; rw [s2],
              ⟨by rw [hwin', s1], ?_, rfl, by rw [hcap', s4]⟩, hrd', hcap'⟩
            simp only [Reader.position]; rw [hpos']; exact s2

theorem sim_fuel {rd : Reader} {a : AReader eagerPolicy} (hs : Sim rd a) : rd.fuelFor = a.fuelFor := by
  simp only [Reader.fuelFor, AReader.fuelFor, hs.2.2.1]

theorem eager_calls_sim (data : Bytes) (n : Nat) (rd : Reader) (a : AReader eagerPolicy)
    (h : RInv rd data) (hc : 0 < rd.buf.cap) (hs : Sim rd a) :
    (Reader.calls n rd).1 = (AReader.calls n a).1 ∧ Sim (Reader.calls n rd).2 (AReader.calls n a).2 := by
  induction n generalizing rd a with
  | zero => exact ⟨rfl, hs⟩
  | succ n ih =>
    obtain ⟨e1, e2, e3, e4⟩ := eager_sim data rd.fuelFor rd a h hc hs
    unfold Reader.calls AReader.calls
    rw [← sim_fuel hs]
    revert e1 e2 e3 e4
    generalize Reader.next rd.fuelFor rd = o1
    generalize AReader.next rd.fuelFor a = o2
    obtain ⟨r1, rd'⟩ := o1
    obtain ⟨r2, a'⟩ := o2
    intro e1 e2 e3 e4
    simp only at e1 e2 e3 e4
    subst e1
    obtain ⟨j1, j2⟩ := ih rd' a' e3 (by rw [e4]; exact hc) e2
    cases r1 with
    | ok o => cases o <;> simp only <;> exact ⟨by rw [j1], j2⟩
    | error e => simp only; exact ⟨by rw [j1], j2⟩

theorem eager_stream_sim (data : Bytes) (fuel : Nat) (rd : Reader) (a : AReader eagerPolicy)
    (h : RInv rd data) (hc : 0 < rd.buf.cap) (hs : Sim rd a) :
    (Reader.streamLoop fuel rd).1 = (AReader.streamLoop fuel a).1 ∧
    (Reader.streamLoop fuel rd).2.1 = (AReader.streamLoop fuel a).2.1 ∧
    Sim (Reader.streamLoop fuel rd).2.2 (AReader.streamLoop fuel a).2.2 := by
  induction fuel generalizing rd a with
  | zero => exact ⟨rfl, rfl, hs⟩
  | succ fuel ih =>
    obtain ⟨e1, e2, e3, e4⟩ := eager_sim data rd.fuelFor rd a h hc hs
    unfold Reader.streamLoop AReader.streamLoop
    rw [← sim_fuel hs]
    revert e1 e2 e3 e4
    generalize Reader.next rd.fuelFor rd = o1
    generalize AReader.next rd.fuelFor a = o2
    obtain ⟨r1, rd'⟩ := o1
    obtain ⟨r2, a'⟩ := o2
    intro e1 e2 e3 e4
    simp only at e1 e2 e3 e4
    subst e1
    cases r1 with
    | ok o =>
      cases o with
      | some t =>
        obtain ⟨j1, j2, j3⟩ := ih rd' a' e3 (by rw [e4]; exact hc) e2
        simp only
        exact ⟨by rw [j1], j2, j3⟩
      | none => exact ⟨rfl, rfl, e2⟩
    | error e => exact ⟨rfl, rfl, e2⟩

theorem sim_init (buffer data : Bytes) (sched : List Step) :
    Sim (Reader.build buffer (Src.new data sched)) (AReader.new eagerPolicy buffer.length (Src.new data sched)) := by
  refine ⟨?_, rfl, rfl, rfl⟩
  simp [Reader.build, Buf.build, Buf.window, Buf.windowLen, AReader.new]

/-- the concrete reader built over any buffer is, observably, the abstract reader under the
eager policy: same whole-stream run, same call logs -/
theorem eager_refines (buffer data : Bytes) (sched : List Step) (hcap : 0 < buffer.length)
    (hwf : Src.WfSched sched) :
    ((Reader.streamAll (Reader.build buffer (Src.new data sched))).1 =
        (AReader.streamAll (AReader.new eagerPolicy buffer.length (Src.new data sched))).1 ∧
     (Reader.streamAll (Reader.build buffer (Src.new data sched))).2.1 =
        (AReader.streamAll (AReader.new eagerPolicy buffer.length (Src.new data sched))).2.1 ∧
     (Reader.streamAll (Reader.build buffer (Src.new data sched))).2.2.position =
        (AReader.streamAll (AReader.new eagerPolicy buffer.length (Src.new data sched))).2.2.position) ∧
    (∀ n, (Reader.calls n (Reader.build buffer (Src.new data sched))).1 =
        (AReader.calls n (AReader.new eagerPolicy buffer.length (Src.new data sched))).1) := by
  have h0 := rinv_build buffer data sched hcap hwf
  have hs := sim_init buffer data sched
  refine ⟨?_, fun n => (eager_calls_sim data n _ _ h0 hcap hs).1⟩
  have hf : Reader.streamFuel (Reader.build buffer (Src.new data sched)) =
      AReader.streamFuel (AReader.new eagerPolicy buffer.length (Src.new data sched)) := by
    simp [Reader.streamFuel, AReader.streamFuel, Reader.build, Buf.build, Buf.windowLen, AReader.new]
  unfold Reader.streamAll AReader.streamAll
  rw [← hf]
  obtain ⟨a1, a2, a3⟩ := eager_stream_sim data (Reader.streamFuel (Reader.build buffer (Src.new data sched))) _ _ h0 hcap hs
  exact ⟨a1, a2, a3.2.1⟩

/-! ### the theorem for every policy -/

theorem astreamAll_any (P : Policy) (cap : Nat) (data : Bytes) (sched : List Step) (hP : P.Contract cap)
    (hcap : 1 ≤ cap) (hwf : Src.WfSched sched) (hnf : Src.NoFaults sched) :
    (Fits cap data →
      (AReader.streamAll (AReader.new P cap (Src.new data sched))).1 = (lexAll data).1 ∧
      (AReader.streamAll (AReader.new P cap (Src.new data sched))).2.1 = embed (lexAll data).2.1 ∧
      (AReader.streamAll (AReader.new P cap (Src.new data sched))).2.2.position
        = data.length - (lexAll data).2.2.length) ∧
    (¬ Fits cap data →
      (AReader.streamAll (AReader.new P cap (Src.new data sched))).2.1 = .err .bufferFull ∧
      (AReader.streamAll (AReader.new P cap (Src.new data sched))).1 <+: (lexAll data).1) := by
  have h0 := ainv_new P cap data sched hP hcap hwf
  have hrem : (AReader.new P cap (Src.new data sched)).remaining data = data := by
    simp [AReader.remaining, AReader.new]
  have hlen := aremaining_length h0
  have hfuel : ((AReader.new P cap (Src.new data sched)).remaining data).length / 2 + 1 <
      AReader.streamFuel (AReader.new P cap (Src.new data sched)) := by
    rw [hlen]; simp [AReader.streamFuel]
  constructor
  · intro hfit
    obtain ⟨term, j1, j2, j3, _⟩ := astream_lexes data _ _ h0 hP (by rw [hrem]; exact hfit) hnf hfuel
    rw [hrem] at j1
    obtain ⟨d1, d2, d3⟩ := Lexes.det j1 (lexAll_lexes data)
    unfold AReader.streamAll
    refine ⟨d1, by rw [j2, d2], ?_⟩
    have hple := j3.ple
    have := congrArg List.length d3
    simp only [AReader.remaining, List.length_drop] at this
    omega
  · intro hnfit
    have := astream_small data _ _ h0 hP (by rw [hrem]; exact hnfit) hnf hfuel
    rw [hrem] at this
    exact this

theorem acalls_any (P : Policy) (cap : Nat) (data : Bytes) (sched : List Step) (hP : P.Contract cap)
    (hcap : 1 ≤ cap) (hwf : Src.WfSched sched) (hfit : Fits cap data) (n : Nat) :
    callToks (AReader.calls n (AReader.new P cap (Src.new data sched))).1 <+: (lexAll data).1 ∧
    (Call.done ∈ (AReader.calls n (AReader.new P cap (Src.new data sched))).1 →
      callToks (AReader.calls n (AReader.new P cap (Src.new data sched))).1 = (lexAll data).1 ∧
      (lexAll data).2.1 = .done) ∧
    (∀ e, Call.err (.lexer e) ∈ (AReader.calls n (AReader.new P cap (Src.new data sched))).1 →
      callToks (AReader.calls n (AReader.new P cap (Src.new data sched))).1 = (lexAll data).1 ∧
      (lexAll data).2.1 = .err e) ∧
    (Call.err .bufferFull ∉ (AReader.calls n (AReader.new P cap (Src.new data sched))).1 ∧
     Call.err .ub ∉ (AReader.calls n (AReader.new P cap (Src.new data sched))).1 ∧
     Call.err .fuel ∉ (AReader.calls n (AReader.new P cap (Src.new data sched))).1) ∧
    (AReader.calls n (AReader.new P cap (Src.new data sched))).2.position ≤
      (AReader.calls n (AReader.new P cap (Src.new data sched))).2.src.delivered := by
  have h0 := ainv_new P cap data sched hP hcap hwf
  have hrem : (AReader.new P cap (Src.new data sched)).remaining data = data := by
    simp [AReader.remaining, AReader.new]
  obtain ⟨a1, a2, _⟩ := acalls_agree data n _ h0 hP (by rw [hrem]; exact hfit)
  rw [hrem] at a1
  obtain ⟨p1, p2, p3⟩ := agrees_prefix a1 (lexAll_lexes data)
  exact ⟨p1, p2, p3, agrees_no_bad a1, by rw [a2.deliv]; omega⟩

end Jomini.BinReader
