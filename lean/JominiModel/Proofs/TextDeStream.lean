import JominiModel.Spec.TextDoc
import JominiModel.Proofs.TextDe
/-
C02, stream path: `deStream enc ty (lexemes doc) = valueOf enc ty doc` for target types that
request the document's shape.  Lemmas: token-level skipping of a balanced value, the map / sequence
loops over the tokens of a field list / value list, induction on the fuel (= nesting of the type).
-/
namespace Jomini.TextDe
open Jomini Jomini.TextDoc

def nodeHead : Node → RTok
  | .leaf l => l.rtok
  | _ => .open_

def nodeTail : Node → List RTok
  | .leaf _ => []
  | .obj fs => lexFields fs ++ [.close]
  | .arr vs => lexNodes vs ++ [.close]

theorem lexNode_cons (v : Node) : lexNode v = nodeHead v :: nodeTail v := by
  cases v <;> simp [lexNode, nodeHead, nodeTail]

theorem nodeHead_cases (v : Node) : (∃ s, nodeHead v = .unq s) ∨ (∃ s, nodeHead v = .quo s) ∨ nodeHead v = .open_ := by
  cases v with
  | leaf l => simp only [nodeHead, Leaf.rtok]; split <;> simp
  | obj fs => simp [nodeHead]
  | arr vs => simp [nodeHead]

theorem rRead_node (v : Node) (r : List RTok) : rRead (nodeHead v :: r) = .ok (nodeHead v, r) := by
  rcases nodeHead_cases v with ⟨s, h⟩ | ⟨s, h⟩ | h <;> simp [h, rRead]

/-! ### skipping a balanced value -/

mutual
theorem rSkip_node : ∀ (v : Node) (r : List RTok) (d : Nat), rSkip (lexNode v ++ r) d = rSkip r d
  | .leaf l, r, d => by
      simp only [lexNode, Leaf.rtok]; split <;> simp [rSkip]
  | .obj fs, r, d => by
      simp only [lexNode, List.cons_append, List.append_assoc, rSkip]
      rw [rSkip_fields fs _ (d + 1)]; simp [rSkip]
  | .arr vs, r, d => by
      simp only [lexNode, List.cons_append, List.append_assoc, rSkip]
      rw [rSkip_nodes vs _ (d + 1)]; simp [rSkip]
theorem rSkip_fields : ∀ (fs : List (Bytes × Op × Node)) (r : List RTok) (d : Nat), rSkip (lexFields fs ++ r) d = rSkip r d
  | [], r, d => by simp [lexFields]
  | (k, o, v) :: rest, r, d => by
      simp only [lexFields, List.cons_append, List.append_assoc, rSkip]
      rw [rSkip_node v _ d, rSkip_fields rest r d]
theorem rSkip_nodes : ∀ (vs : List Node) (r : List RTok) (d : Nat), rSkip (lexNodes vs ++ r) d = rSkip r d
  | [], r, d => by simp [lexNodes]
  | v :: rest, r, d => by
      simp only [lexNodes, List.append_assoc]
      rw [rSkip_node v _ d, rSkip_nodes rest r d]
end

/-- an ignored value (unknown field, `ign` target) consumes exactly the value, at any nesting -/
theorem sde_ign_node (enc : Enc) (f : Nat) (o : Op) (v : Node) (rest : List RTok) :
    sde enc (f + 1) .ign (nodeHead v) o (nodeTail v ++ rest) = .ok (.ign, rest) := by
  cases v with
  | leaf l =>
    obtain ⟨bytes, quoted⟩ := l
    cases quoted <;> simp [nodeHead, nodeTail, Leaf.rtok, sde]
  | obj fs =>
    simp only [nodeHead, nodeTail, sde, List.append_assoc]
    rw [rSkip_fields fs _ 0]; simp [rSkip, Except.map]
  | arr vs =>
    simp only [nodeHead, nodeTail, sde, List.append_assoc]
    rw [rSkip_nodes vs _ 0]; simp [rSkip, Except.map]

/-! ### lengths (loop fuel) -/

mutual
theorem lexNode_len : ∀ (v : Node), 1 ≤ (lexNode v).length
  | .leaf l => by simp [lexNode]
  | .obj fs => by simp [lexNode]
  | .arr vs => by simp [lexNode]
end

theorem lexFields_len : ∀ (fs : List (Bytes × Op × Node)), fs.length ≤ (lexFields fs).length
  | [] => by simp
  | (k, o, v) :: r => by
      have := lexFields_len r
      simp only [lexFields, List.length_cons, List.length_append]; omega

theorem lexNodes_len : ∀ (vs : List Node), vs.length ≤ (lexNodes vs).length
  | [] => by simp
  | v :: r => by
      have := lexNodes_len r
      have := lexNode_len v
      simp only [lexNodes, List.length_cons, List.length_append]; omega

/-! ### the loops -/

/-- how a map's token list ends: with its `Close`, or (root) with the end of input -/
def EndsMap (root : Bool) (tail rest : List RTok) : Prop :=
  tail = .close :: rest ∨ (root = true ∧ tail = [] ∧ rest = [])

theorem sMapFold_end {σ κ : Type} (root : Bool) (K : σ → RTok → R κ)
    (V : σ → κ → RTok → Op → List RTok → R (σ × List RTok)) (n : Nat) (tail rest : List RTok) (st : σ)
    (h : EndsMap root tail rest) : sMapFold root K V (n + 1) tail st = .ok (st, rest) := by
  rcases h with rfl | ⟨rfl, rfl, rfl⟩ <;> simp [sMapFold, rNext]

theorem sMapFold_step {σ κ : Type} (root : Bool) (K : σ → RTok → R κ)
    (V : σ → κ → RTok → Op → List RTok → R (σ × List RTok)) (n : Nat) (k : Bytes) (o : Op) (v : Node)
    (more : List RTok) (st : σ) :
    sMapFold root K V (n + 1) (.unq k :: .op o :: (nodeHead v :: (nodeTail v ++ more))) st =
      match K st (.unq k) with
      | .error x => .error x
      | .ok kk =>
        match V st kk (nodeHead v) o (nodeTail v ++ more) with
        | .error x => .error x
        | .ok (st', r3) => sMapFold root K V n r3 st' := by
  rcases nodeHead_cases v with ⟨s, h⟩ | ⟨s, h⟩ | h <;> simp only [sMapFold, rNext, rRead, h] <;> rfl

/-- struct loop over the tokens of a field list -/
theorem sMapFold_struct (enc : Enc) (fs : List (Bytes × Ty)) (f : Nat) (root : Bool) (tail rest : List RTok)
    (hend : EndsMap root tail rest) :
    ∀ (dfs : List (Bytes × Op × Node)) (seen : List (Nat × Val)) (n : Nat), dfs.length < n →
    (∀ k o v, (k, o, v) ∈ dfs → ∀ i t, lookupIdx (decode enc k) fs 0 = some (i, t) →
      ∀ rest', sde enc (f + 1) t (nodeHead v) o (nodeTail v ++ rest') = (valueOfN enc (f + 1) t o v).map (fun x => (x, rest'))) →
    sMapFold root (sStructKey enc fs) (sStructVal (sde enc (f + 1))) n (lexFields dfs ++ tail) seen =
      (structVals enc fs (valueOfN enc (f + 1)) dfs seen).map (fun s => (s, rest))
  | [], seen, n + 1, _, _ => by
      simp only [lexFields, List.nil_append, structVals]
      rw [sMapFold_end root _ _ n tail rest seen hend]; rfl
  | (k, o, v) :: r, seen, n + 1, hn, H => by
      have ih := fun seen' => sMapFold_struct enc fs f root tail rest hend r seen' n (by simp at hn; omega)
        (fun k' o' v' hm => H k' o' v' (List.mem_cons_of_mem _ hm))
      simp only [lexFields, lexNode_cons, List.cons_append, List.append_assoc]
      rw [sMapFold_step]
      simp only [sStructKey, sKeyName, sStr, structVals]
      cases hl : lookupIdx (decode enc k) fs 0 with
      | none =>
        simp only [sStructVal, sde_ign_node, Except.map]
        exact ih seen
      | some it =>
        obtain ⟨i, t⟩ := it
        by_cases hs : (seenGet i seen).isSome
        · simp [hs, Except.map]
        · simp only [hs, Bool.false_eq_true, ↓reduceIte, sStructVal]
          rw [H k o v (List.mem_cons_self ..) i t hl]
          cases valueOfN enc (f + 1) t o v with
          | error e => simp [Except.map]
          | ok x => simp only [Except.map]; exact ih _

/-- map loop over the tokens of a field list -/
theorem sMapFold_map (enc : Enc) (t : Ty) (f : Nat) (root : Bool) (tail rest : List RTok)
    (hend : EndsMap root tail rest) :
    ∀ (dfs : List (Bytes × Op × Node)) (acc : List (Val × Val)) (n : Nat), dfs.length < n →
    (∀ k o v, (k, o, v) ∈ dfs →
      ∀ rest', sde enc f t (nodeHead v) o (nodeTail v ++ rest') = (valueOfN enc f t o v).map (fun x => (x, rest'))) →
    sMapFold root (fun _ k => sKeyName enc k) (sMapVal (sde enc f) t) n (lexFields dfs ++ tail) acc =
      (mapVals enc (valueOfN enc f t) dfs acc).map (fun s => (s, rest))
  | [], acc, n + 1, _, _ => by
      simp only [lexFields, List.nil_append, mapVals]
      rw [sMapFold_end root _ _ n tail rest acc hend]; rfl
  | (k, o, v) :: r, acc, n + 1, hn, H => by
      have ih := fun acc' => sMapFold_map enc t f root tail rest hend r acc' n (by simp at hn; omega)
        (fun k' o' v' hm => H k' o' v' (List.mem_cons_of_mem _ hm))
      simp only [lexFields, lexNode_cons, List.cons_append, List.append_assoc]
      rw [sMapFold_step]
      simp only [sKeyName, sStr, mapVals, sMapVal]
      rw [H k o v (List.mem_cons_self ..)]
      cases valueOfN enc f t o v with
      | error e => simp [Except.map]
      | ok x => simp only [Except.map]; exact ih _

/-- sequence loop over the tokens of a value list -/
theorem sSeqFold_nodes (elemF : RTok → List RTok → R (Val × List RTok)) (valF : Node → R Val) (rest : List RTok) :
    ∀ (vs : List Node) (n : Nat), vs.length < n →
    (∀ v, v ∈ vs → ∀ rest', elemF (nodeHead v) (nodeTail v ++ rest') = (valF v).map (fun x => (x, rest'))) →
    sSeqFold elemF n (lexNodes vs ++ .close :: rest) = (seqVals valF vs).map (fun s => (s, rest))
  | [], n + 1, _, _ => by simp [lexNodes, sSeqFold, rRead, seqVals, Except.map]
  | v :: r, n + 1, hn, H => by
      have ih := sSeqFold_nodes elemF valF rest r n (by simp at hn; omega) (fun v' hm => H v' (List.mem_cons_of_mem _ hm))
      have H1 := H v (List.mem_cons_self ..)
      simp only [lexNodes, lexNode_cons, List.cons_append, List.append_assoc, seqVals]
      rcases nodeHead_cases v with ⟨s, h⟩ | ⟨s, h⟩ | h <;>
      · rw [h] at H1 ⊢
        simp only [sSeqFold, rRead, H1]
        cases valF v with
        | error e => simp [Except.map]
        | ok x =>
          simp only [Except.map]
          rw [ih]
          cases seqVals valF r <;> simp [Except.map]

end Jomini.TextDe

namespace Jomini.TextDe
open Jomini Jomini.TextDoc

theorem lookupIdx_height (name : Bytes) : ∀ (fs : List (Bytes × Ty)) (j i : Nat) (t : Ty),
    lookupIdx name fs j = some (i, t) → t.height ≤ Ty.heightFs fs
  | [], j, i, t, h => by simp [lookupIdx] at h
  | (n, t0) :: r, j, i, t, h => by
      simp only [lookupIdx] at h
      split at h
      · simp only [Option.some.injEq, Prod.mk.injEq] at h
        obtain ⟨_, rfl⟩ := h
        simp only [Ty.heightFs]; omega
      · have := lookupIdx_height name r (j + 1) i t h
        simp only [Ty.heightFs]; omega

theorem valueOfN_plain (enc : Enc) (f : Nat) (ty : Ty) (h : Ty.isPlainScalar ty = true) (o : Op) (l : Leaf) :
    valueOfN enc (f + 1) ty o (.leaf l) = valueOfScalar enc ty l.bytes := by
  cases ty <;> simp_all [Ty.isPlainScalar, valueOfN]

theorem plain_isScalar (ty : Ty) (h : Ty.isPlainScalar ty = true) : Ty.isScalarTy ty = true ∧ Ty.wrapDepth ty = 0 := by
  cases ty <;> simp_all [Ty.isPlainScalar, Ty.isScalarTy, Ty.wrapDepth]

/-- stream path on the tokens of one value: the spec's value, the rest of the stream untouched -/
theorem sde_node (enc : Enc) : ∀ (f : Nat) (ty : Ty) (o : Op) (v : Node) (rest : List RTok),
    Fits enc ty v → ty.height < f →
    sde enc f ty (nodeHead v) o (nodeTail v ++ rest) = (valueOfN enc f ty o v).map (fun x => (x, rest)) := by
  intro f
  induction f with
  | zero => intro ty o v rest _ h; omega
  | succ f ih =>
    intro ty o v rest hfit hh
    cases hfit with
    | @scalar ty l hp =>
      have ⟨hs, hw⟩ := plain_isScalar ty hp
      rw [valueOfN_plain enc f ty hp]
      have ht : nodeHead (.leaf l) = .unq l.bytes ∨ nodeHead (.leaf l) = .quo l.bytes := by
        simp only [nodeHead, Leaf.rtok]; split <;> simp
      simpa [nodeTail] using sde_scalar enc ty hs (f + 1) (by omega) (nodeHead (.leaf l)) l.bytes ht o rest
    | ign => rw [sde_ign_node]; simp [valueOfN, Except.map]
    | @opt t v hf =>
      have := ih t o v rest hf (by simp [Ty.height] at hh; omega)
      simp only [sde, this, valueOfN]
      cases valueOfN enc f t o v <;> simp [Except.map]
    | @prop t v hf =>
      have := ih t .eq v rest hf (by simp [Ty.height] at hh; omega)
      simp only [sde, this, valueOfN]
      cases valueOfN enc f t .eq v <;> simp [Except.map]
    | @seq t vs hall =>
      have hl := lexNodes_len vs
      have := sSeqFold_nodes (fun t' r => sde enc f t t' .eq r) (valueOfN enc f t .eq) rest vs
        ((lexNodes vs ++ [RTok.close] ++ rest).length + 1) (by simp; omega)
        (fun v hm rest' => ih t .eq v rest' (hall v hm) (by simp [Ty.height] at hh; omega))
      simp only [nodeHead, nodeTail]
      rw [sde, valueOfN]
      simp only [List.append_assoc, List.singleton_append] at this ⊢
      rw [this]
      cases seqVals (valueOfN enc f t Op.eq) vs <;> simp [Except.map]
    | @map t dfs hall =>
      have hl := lexFields_len dfs
      have := sMapFold_map enc t f false (.close :: rest) rest (Or.inl rfl) dfs []
        ((lexFields dfs ++ [RTok.close] ++ rest).length + 1) (by simp; omega)
        (fun k o' v hm rest' => ih t o' v rest' (hall k o' v hm) (by simp [Ty.height] at hh; omega))
      simp only [nodeHead, nodeTail]
      rw [sde, valueOfN]
      simp only [List.append_assoc, List.singleton_append] at this ⊢
      rw [this]
      cases mapVals enc (valueOfN enc f t) dfs [] <;> simp [Except.map]
    | @st fs dfs hall =>
      have hl := lexFields_len dfs
      obtain ⟨f', rfl⟩ : ∃ f', f = f' + 1 := ⟨f - 1, by simp [Ty.height] at hh; omega⟩
      have := sMapFold_struct enc fs f' false (.close :: rest) rest (Or.inl rfl) dfs []
        ((lexFields dfs ++ [RTok.close] ++ rest).length + 1) (by simp; omega)
        (fun k o' v hm i t hlk rest' => ih t o' v rest' (hall k o' v hm i t hlk)
          (by have := lookupIdx_height _ fs 0 i t hlk; simp [Ty.height] at hh; omega))
      simp only [nodeHead, nodeTail]
      rw [sde, valueOfN]
      simp only [List.append_assoc, List.singleton_append] at this ⊢
      rw [this]
      cases structVals enc fs (valueOfN enc (f' + 1)) dfs [] with
      | error e => simp [Except.map]
      | ok seen => simp only [Except.map]; cases structFinish fs 0 seen <;> simp

/-- the stream path on the reader tokens of a document yields the document's value -/
theorem deStream_eq_valueOf (enc : Enc) (ty : Ty) (d : Doc) (hroot : Ty.isRoot ty = true) (hfit : Fits enc ty (.obj d)) :
    deStream enc ty (lexemes d) = valueOf enc ty d := by
  have hl := lexFields_len d
  cases hfit with
  | ign => simp [deStream, valueOf]
  | @opt t _ h => simp [deStream, valueOf]
  | @prop t _ h => simp [Ty.isRoot] at hroot
  | @map t _ hall =>
    have := sMapFold_map enc t (Ty.height (.map t)) true [] [] (Or.inr ⟨rfl, rfl, rfl⟩) d []
      ((lexemes d).length + 1) (by simp [lexemes]; omega)
      (fun k o' v hm rest' => sde_node enc _ t o' v rest' (hall k o' v hm) (by simp [Ty.height]))
    simp only [List.append_nil] at this
    simp only [deStream, valueOf, lexemes, Ty.height] at this ⊢
    rw [this, valueOfN]
    cases mapVals enc (valueOfN enc (t.height + 1) t) d [] <;> simp [Except.map]
  | @st fs _ hall =>
    have := sMapFold_struct enc fs (Ty.heightFs fs) true [] [] (Or.inr ⟨rfl, rfl, rfl⟩) d []
      ((lexemes d).length + 1) (by simp [lexemes]; omega)
      (fun k o' v hm i t hlk rest' => sde_node enc _ t o' v rest' (hall k o' v hm i t hlk)
        (by have := lookupIdx_height _ fs 0 i t hlk; omega))
    simp only [List.append_nil] at this
    simp only [deStream, valueOf, lexemes, Ty.height] at this ⊢
    rw [this, valueOfN]
    cases structVals enc fs (valueOfN enc (Ty.heightFs fs + 1)) d [] with
    | error e => simp [Except.map]
    | ok seen => cases h : structFinish fs 0 seen <;> simp [Except.map, h]

end Jomini.TextDe
