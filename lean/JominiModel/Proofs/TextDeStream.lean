import JominiModel.Spec.TextDoc
import JominiModel.Proofs.TextDe
/-
C02, stream path: `deStream enc ty (lexemes doc) = valueOf enc ty doc` for target types that
request the document's shape.  Lemmas: token-level skipping of a balanced value, the map / sequence
loops over the tokens of a field list / value list, induction on the fuel (= nesting of the type).
-/
namespace Jomini.TextDe
open Jomini Jomini.TextDoc

/-! ### plain keys (unquoted, nothing around them): the save-style case -/

@[simp] theorem Key.plain_ttok (b : Bytes) : (⟨b, false, 0, false, 0⟩ : Key).ttok = .unq b := rfl
@[simp] theorem Key.plain_rtok (b : Bytes) : (⟨b, false, 0, false, 0⟩ : Key).rtok = .unq b := rfl
@[simp] theorem eqToks_plain (b : Bytes) (o : Op) (v : Node) : eqToks ⟨b, false, 0, false, 0⟩ o v = [.op o] := rfl
theorem lexFields_plain (b : Bytes) (o : Op) (v : Node) (r : List (Key × Op × Node)) :
    lexFields ((⟨b, false, 0, false, 0⟩, o, v) :: r) = RTok.unq b :: RTok.op o :: (lexNode v ++ lexFields r) := by
  simp [lexFields, ghostToks, Key.rtok, eqToks]

def nodeHead : Node → RTok
  | .leaf l => l.rtok
  | .hdr n _ => .unq n
  | _ => .open_

/-- the tokens a value deserializer consumes after the head token -/
def nodeTail : Node → List RTok
  | .leaf _ => []
  | .obj fs => lexFields fs ++ [.close]
  | .arr vs => lexNodes vs ++ [.close]
  | .hdr _ _ => []

/-- the tokens a value leaves in the stream: the body of a header value (the streaming
deserializer reads only the name; the body is then skipped in key position) -/
def nodeLeft : Node → List RTok
  | .hdr _ b => lexNode b
  | _ => []

theorem lexNode_cons (v : Node) : lexNode v = nodeHead v :: (nodeTail v ++ nodeLeft v) := by
  cases v <;> simp [lexNode, nodeHead, nodeTail, nodeLeft]

theorem nodeLeft_nil (v : Node) (h : v.isHdr = false) : nodeLeft v = [] := by
  cases v <;> simp_all [nodeLeft, Node.isHdr]

theorem nodeHead_cases (v : Node) : (∃ s, nodeHead v = .unq s) ∨ (∃ s, nodeHead v = .quo s) ∨ nodeHead v = .open_ := by
  cases v with
  | leaf l => simp only [nodeHead, Leaf.rtok]; split <;> simp
  | obj fs => simp [nodeHead]
  | arr vs => simp [nodeHead]
  | hdr n b => simp [nodeHead]

theorem rRead_node (v : Node) (r : List RTok) : rRead (nodeHead v :: r) = .ok (nodeHead v, r) := by
  rcases nodeHead_cases v with ⟨s, h⟩ | ⟨s, h⟩ | h <;> simp [h, rRead]

/-! ### skipping a balanced value -/

theorem rSkip_ghosts : ∀ (n : Nat) (r : List RTok) (d : Nat), rSkip (ghostToks n ++ r) d = rSkip r d
  | 0, r, d => by simp [ghostToks]
  | n + 1, r, d => by
      simp only [ghostToks, List.cons_append, rSkip]
      have := rSkip_ghosts n r d
      simpa using this

theorem rSkip_key (k : Key) (r : List RTok) (d : Nat) : rSkip (k.rtok :: r) d = rSkip r d := by
  simp only [Key.rtok]; split <;> simp [rSkip]

theorem rSkip_eqToks (k : Key) (o : Op) (v : Node) (r : List RTok) (d : Nat) : rSkip (eqToks k o v ++ r) d = rSkip r d := by
  simp only [eqToks]; split <;> simp [rSkip]

mutual
theorem rSkip_node : ∀ (v : Node) (r : List RTok) (d : Nat), rSkip (lexNode v ++ r) d = rSkip r d
  | .leaf l, r, d => by
      simp only [lexNode, Leaf.rtok]; split <;> simp [rSkip]
  | .obj fs, r, d => by
      simp only [lexNode, List.cons_append, List.append_assoc, rSkip]
      rw [rSkip_fields fs _ (d + 1)]; simp [rSkip]
  | .arr vs, r, d => by
      simp only [lexNode, List.cons_append, List.append_assoc, rSkip]
      rw [rSkip_nodes vs _ (d + 1)]; simp [rSkip]
  | .hdr n b, r, d => by
      simp only [lexNode, List.cons_append, rSkip]
      exact rSkip_node b r d
theorem rSkip_fields : ∀ (fs : List (Key × Op × Node)) (r : List RTok) (d : Nat), rSkip (lexFields fs ++ r) d = rSkip r d
  | [], r, d => by simp [lexFields]
  | (k, o, v) :: rest, r, d => by
      simp only [lexFields, List.cons_append, List.append_assoc]
      rw [rSkip_ghosts, rSkip_key, rSkip_eqToks, rSkip_node v _ d, rSkip_ghosts, rSkip_fields rest r d]
theorem rSkip_nodes : ∀ (vs : List Node) (r : List RTok) (d : Nat), rSkip (lexNodes vs ++ r) d = rSkip r d
  | [], r, d => by simp [lexNodes]
  | v :: rest, r, d => by
      simp only [lexNodes, List.append_assoc]
      rw [rSkip_node v _ d, rSkip_nodes rest r d]
end

/-- an ignored value (unknown field, `ign` target) consumes exactly the value, at any nesting -/
theorem sde_ign_node (enc : Enc) (f : Nat) (o : Op) (v : Node) (rest : List RTok) :
    sde enc (f + 1) .ign (nodeHead v) o (nodeTail v ++ rest) = .ok (.ign, rest) := by
  cases v with
  | leaf l =>
    obtain ⟨bytes, quoted⟩ := l
    cases quoted <;> simp [nodeHead, nodeTail, Leaf.rtok, sde]
  | obj fs =>
    simp only [nodeHead, nodeTail, sde, List.append_assoc]
    rw [rSkip_fields fs _ 0]; simp [rSkip, Except.map]
  | arr vs =>
    simp only [nodeHead, nodeTail, sde, List.append_assoc]
    rw [rSkip_nodes vs _ 0]; simp [rSkip, Except.map]
  | hdr n b => simp [nodeHead, nodeTail, sde]

/-! ### lengths (loop fuel) -/

mutual
theorem lexNode_len : ∀ (v : Node), 1 ≤ (lexNode v).length
  | .leaf l => by simp [lexNode]
  | .obj fs => by simp [lexNode]
  | .arr vs => by simp [lexNode]
  | .hdr n b => by simp [lexNode]
end

theorem lexFields_len : ∀ (fs : List (Key × Op × Node)), fs.length ≤ (lexFields fs).length
  | [] => by simp
  | (k, o, v) :: r => by
      have := lexFields_len r
      simp only [lexFields, List.length_cons, List.length_append]; omega

theorem lexNodes_len : ∀ (vs : List Node), vs.length ≤ (lexNodes vs).length
  | [] => by simp
  | v :: r => by
      have := lexNodes_len r
      have := lexNode_len v
      simp only [lexNodes, List.length_cons, List.length_append]; omega

/-! ### well-formedness, header expansion -/

theorem wfFields_mem : ∀ (dfs : List (Key × Op × Node)), wfFields dfs = true → ∀ k o v, (k, o, v) ∈ dfs → v.wf = true
  | [], _, k, o, v, hm => by simp at hm
  | (k0, o0, v0) :: r, h, k, o, v, hm => by
      simp only [wfFields, Bool.and_eq_true] at h
      simp only [List.mem_cons, Prod.mk.injEq] at hm
      rcases hm with ⟨_, _, rfl⟩ | hm
      · exact h.1
      · exact wfFields_mem r h.2 k o v hm

theorem hdr_wf_body (n : Bytes) (b : Node) (h : (Node.hdr n b).wf = true) :
    b.wf = true ∧ nodeHead b = .open_ ∧ b.isHdr = false := by
  cases b <;> simp_all [Node.wf, nodeHead, Node.isHdr]

theorem expand_mem : ∀ (vs : List Node), wfNodes vs = true → ∀ v, v ∈ expandNodes vs → v.wf = true ∧ v.isHdr = false
  | [], _, v, hm => by simp [expandNodes] at hm
  | .leaf l :: r, h, v, hm => by
      simp only [wfNodes, Bool.and_eq_true] at h
      simp only [expandNodes, List.mem_cons] at hm
      rcases hm with rfl | hm
      · simp [Node.wf, Node.isHdr]
      · exact expand_mem r h.2 v hm
  | .obj fs :: r, h, v, hm => by
      simp only [wfNodes, Bool.and_eq_true] at h
      simp only [expandNodes, List.mem_cons] at hm
      rcases hm with rfl | hm
      · exact ⟨h.1, by simp [Node.isHdr]⟩
      · exact expand_mem r h.2 v hm
  | .arr vs :: r, h, v, hm => by
      simp only [wfNodes, Bool.and_eq_true] at h
      simp only [expandNodes, List.mem_cons] at hm
      rcases hm with rfl | hm
      · exact ⟨h.1, by simp [Node.isHdr]⟩
      · exact expand_mem r h.2 v hm
  | .hdr n b :: r, h, v, hm => by
      simp only [wfNodes, Bool.and_eq_true] at h
      simp only [expandNodes, List.mem_cons] at hm
      have hb := hdr_wf_body n b h.1
      rcases hm with rfl | rfl | hm
      · simp [Node.wf, Node.isHdr]
      · exact ⟨hb.1, hb.2.2⟩
      · exact expand_mem r h.2 v hm

theorem lexNodes_expand : ∀ (vs : List Node), lexNodes (expandNodes vs) = lexNodes vs
  | [] => rfl
  | .leaf l :: r => by simp [expandNodes, lexNodes, lexNodes_expand r]
  | .obj fs :: r => by simp [expandNodes, lexNodes, lexNodes_expand r]
  | .arr vs :: r => by simp [expandNodes, lexNodes, lexNodes_expand r]
  | .hdr n b :: r => by simp [expandNodes, lexNodes, lexNode, Leaf.rtok, lexNodes_expand r]

/-- loop iterations a field costs: one for each ghost `{}` around it; a header value costs one more
(its body is skipped in key position) -/
def fieldsCost : List (Key × Op × Node) → Nat
  | [] => 0
  | (k, _, v) :: r => k.ghosts + (if v.isHdr then 2 else 1) + k.trail + fieldsCost r

theorem ghostToks_len : ∀ (n : Nat), (ghostToks n).length = 2 * n
  | 0 => rfl
  | n + 1 => by simp only [ghostToks, List.length_cons, ghostToks_len n]; omega

theorem fieldsCost_le : ∀ (fs : List (Key × Op × Node)), fieldsCost fs ≤ (lexFields fs).length
  | [] => by simp [fieldsCost]
  | (k, o, v) :: r => by
      have := fieldsCost_le r
      have := lexNode_len v
      simp only [fieldsCost, lexFields, List.length_cons, List.length_append, ghostToks_len]
      split <;> omega

/-! ### the loops -/

/-- how a map's token list ends: with its `Close`, or (root) with the end of input -/
def EndsMap (root : Bool) (tail rest : List RTok) : Prop :=
  tail = .close :: rest ∨ (root = true ∧ tail = [] ∧ rest = [])

theorem sMapFold_end {σ κ : Type} (root : Bool) (K : σ → RTok → R κ)
    (V : σ → κ → RTok → Op → List RTok → R (σ × List RTok)) (n : Nat) (tail rest : List RTok) (st : σ)
    (h : EndsMap root tail rest) : sMapFold root K V (n + 1) tail st = .ok (st, rest) := by
  rcases h with rfl | ⟨rfl, rfl, rfl⟩ <;> simp [sMapFold, rNext]

theorem key_rtok_cases (k : Key) : k.rtok = .unq k.bytes ∨ k.rtok = .quo k.bytes := by
  simp only [Key.rtok]; split <;> simp

/-- one `key [operator] value` step of the loop: the key may be quoted, the `=` may be missing before a `{` -/
theorem sMapFold_step {σ κ : Type} (root : Bool) (K : σ → RTok → R κ)
    (V : σ → κ → RTok → Op → List RTok → R (σ × List RTok)) (n : Nat) (k : Key) (o : Op) (v : Node)
    (more : List RTok) (st : σ) :
    sMapFold root K V (n + 1) (k.rtok :: (eqToks k o v ++ (nodeHead v :: (nodeTail v ++ more)))) st =
      match K st k.rtok with
      | .error x => .error x
      | .ok kk =>
        match V st kk (nodeHead v) o (nodeTail v ++ more) with
        | .error x => .error x
        | .ok (st', r3) => sMapFold root K V n r3 st' := by
  by_cases hc : (k.noEq && decide (o = .eq) && v.isBraced) = true
  · simp only [Bool.and_eq_true, decide_eq_true_eq] at hc
    obtain ⟨⟨_, rfl⟩, hb⟩ := hc
    have hh : nodeHead v = .open_ := by cases v <;> simp_all [Node.isBraced, nodeHead]
    have he : eqToks k .eq v = [] := by simp_all [eqToks]
    rw [he, hh]
    rcases key_rtok_cases k with h | h <;> simp only [sMapFold, rNext, rRead, h, List.nil_append] <;> rfl
  · have he : eqToks k o v = [.op o] := by simp [eqToks, hc]
    rw [he]
    rcases key_rtok_cases k with hk | hk <;>
      rcases nodeHead_cases v with ⟨s, h⟩ | ⟨s, h⟩ | h <;>
        simp only [sMapFold, rNext, rRead, h, hk, List.cons_append, List.nil_append] <;> rfl

/-- a container in key position (the body a header value left behind) is skipped -/
theorem sMapFold_ghost {σ κ : Type} (root : Bool) (K : σ → RTok → R κ)
    (V : σ → κ → RTok → Op → List RTok → R (σ × List RTok)) (n : Nat) (b : Node) (hb : nodeHead b = .open_)
    (more : List RTok) (st : σ) :
    sMapFold root K V (n + 1) (lexNode b ++ more) st = sMapFold root K V n more st := by
  have h := rSkip_node b more 0
  cases b with
  | leaf l => obtain ⟨bytes, q⟩ := l; cases q <;> simp [nodeHead, Leaf.rtok] at hb
  | hdr n' b' => simp [nodeHead] at hb
  | obj fs =>
    simp only [lexNode, List.cons_append, rSkip] at h ⊢
    simp only [sMapFold, rNext]
    have h2 : rSkip (lexFields fs ++ [RTok.close] ++ more) 0 = .ok more := by
      rw [List.append_assoc, rSkip_fields]; simp [rSkip]
    rw [h2]
  | arr vs =>
    simp only [lexNode, List.cons_append, rSkip] at h ⊢
    simp only [sMapFold, rNext]
    have h2 : rSkip (lexNodes vs ++ [RTok.close] ++ more) 0 = .ok more := by
      rw [List.append_assoc, rSkip_nodes]; simp [rSkip]
    rw [h2]

/-- empty `{}` in key position are skipped, one iteration each -/
theorem sMapFold_ghosts {σ κ : Type} (root : Bool) (K : σ → RTok → R κ)
    (V : σ → κ → RTok → Op → List RTok → R (σ × List RTok)) (n : Nat) (more : List RTok) (st : σ) :
    ∀ (g : Nat), sMapFold root K V (g + n) (ghostToks g ++ more) st = sMapFold root K V n more st
  | 0 => by simp [ghostToks]
  | g + 1 => by
      have e : g + 1 + n = (g + n) + 1 := by omega
      rw [e]
      simp only [ghostToks, List.cons_append, sMapFold, rNext, rSkip]
      exact sMapFold_ghosts root K V n more st g

/-- what a value leaves behind (the body of a header value) is skipped in key position -/
theorem sMapFold_left {σ κ : Type} (root : Bool) (K : σ → RTok → R κ)
    (V : σ → κ → RTok → Op → List RTok → R (σ × List RTok)) (v : Node) (hw : v.wf = true) (m : Nat)
    (more : List RTok) (st : σ) :
    sMapFold root K V (m + (if v.isHdr then 1 else 0)) (nodeLeft v ++ more) st = sMapFold root K V m more st := by
  cases v with
  | hdr n' b =>
    have hb := hdr_wf_body n' b hw
    simp only [Node.isHdr, ↓reduceIte, nodeLeft]
    exact sMapFold_ghost root _ _ m b hb.2.1 _ st
  | leaf l => simp [Node.isHdr, nodeLeft]
  | obj fs' => simp [Node.isHdr, nodeLeft]
  | arr vs => simp [Node.isHdr, nodeLeft]

/-- one field of a field list: its ghosts, key, operator (or none) and value head -/
theorem sMapFold_field {σ κ : Type} (root : Bool) (K : σ → RTok → R κ)
    (V : σ → κ → RTok → Op → List RTok → R (σ × List RTok)) (k : Key) (o : Op) (v : Node)
    (r : List (Key × Op × Node)) (tail : List RTok) (x : Nat) (st : σ) :
    sMapFold root K V (k.ghosts + (x + 1)) (lexFields ((k, o, v) :: r) ++ tail) st =
      match K st k.rtok with
      | .error e => .error e
      | .ok kk =>
        match V st kk (nodeHead v) o (nodeTail v ++ (nodeLeft v ++ (ghostToks k.trail ++ (lexFields r ++ tail)))) with
        | .error e => .error e
        | .ok (st', r3) => sMapFold root K V x r3 st' := by
  simp only [lexFields, lexNode_cons, List.cons_append, List.append_assoc]
  rw [sMapFold_ghosts, sMapFold_step]

/-- after the value: the body a header value left, the trailing ghosts, then the rest of the list -/
theorem sMapFold_after {σ κ : Type} (root : Bool) (K : σ → RTok → R κ)
    (V : σ → κ → RTok → Op → List RTok → R (σ × List RTok)) (k : Key) (v : Node) (hw : v.wf = true) (m : Nat)
    (more : List RTok) (st : σ) :
    sMapFold root K V ((k.trail + m) + (if v.isHdr then 1 else 0)) (nodeLeft v ++ (ghostToks k.trail ++ more)) st =
      sMapFold root K V m more st := by
  rw [sMapFold_left root K V v hw, sMapFold_ghosts]

theorem fieldsCost_fuel (k : Key) (v : Node) (c n : Nat) (h : k.ghosts + (if v.isHdr then 2 else 1) + k.trail + c < n) :
    ∃ m, c < m ∧ n = k.ghosts + (((k.trail + m) + (if v.isHdr then 1 else 0)) + 1) := by
  refine ⟨n - (k.ghosts + (if v.isHdr then 2 else 1) + k.trail), ?_, ?_⟩ <;> split at h <;> simp_all <;> omega

/-- struct loop over the tokens of a field list -/
theorem sMapFold_struct (enc : Enc) (fs : List (Bytes × Ty)) (f : Nat) (root : Bool) (tail rest : List RTok)
    (hend : EndsMap root tail rest) :
    ∀ (dfs : List (Key × Op × Node)) (seen : List (Nat × Val)) (n : Nat), fieldsCost dfs < n → wfFields dfs = true →
    (∀ k o v, (k, o, v) ∈ dfs → ∀ i t, lookupIdx (decode enc k.bytes) fs 0 = some (i, t) →
      ∀ rest', sde enc (f + 1) t (nodeHead v) o (nodeTail v ++ rest') = (valueOfN enc (f + 1) t o v).map (fun x => (x, rest'))) →
    sMapFold root (sStructKey enc fs) (sStructVal (sde enc (f + 1))) n (lexFields dfs ++ tail) seen =
      (structVals enc fs (valueOfN enc (f + 1)) dfs seen).map (fun s => (s, rest))
  | [], seen, n + 1, _, _, _ => by
      simp only [lexFields, List.nil_append, structVals]
      rw [sMapFold_end root _ _ n tail rest seen hend]; rfl
  | (k, o, v) :: r, seen, n, hn, hw, H => by
      simp only [wfFields, Bool.and_eq_true] at hw
      simp only [fieldsCost] at hn
      obtain ⟨m, hm, rfl⟩ := fieldsCost_fuel k v _ n hn
      have ih := fun seen' => sMapFold_struct enc fs f root tail rest hend r seen' m hm hw.2
        (fun k' o' v' hm => H k' o' v' (List.mem_cons_of_mem _ hm))
      rw [sMapFold_field]
      have hkn : sStructKey enc fs seen k.rtok = sStructKey enc fs seen (.unq k.bytes) := by
        rcases key_rtok_cases k with h | h <;> rw [h] <;> rfl
      rw [hkn]
      simp only [sStructKey, sKeyName, sStr, structVals]
      cases hl : lookupIdx (decode enc k.bytes) fs 0 with
      | none =>
        simp only [sStructVal, sde_ign_node, Except.map]
        rw [sMapFold_after root _ _ k v hw.1]; exact ih seen
      | some it =>
        obtain ⟨i, t⟩ := it
        by_cases hs : (seenGet i seen).isSome
        · simp [hs, Except.map]
        · simp only [hs, Bool.false_eq_true, ↓reduceIte, sStructVal]
          rw [H k o v (List.mem_cons_self ..) i t hl]
          cases valueOfN enc (f + 1) t o v with
          | error e => simp [Except.map]
          | ok x => simp only [Except.map]; rw [sMapFold_after root _ _ k v hw.1]; exact ih _

/-- map loop over the tokens of a field list -/
theorem sMapFold_map (enc : Enc) (t : Ty) (f : Nat) (root : Bool) (tail rest : List RTok)
    (hend : EndsMap root tail rest) :
    ∀ (dfs : List (Key × Op × Node)) (acc : List (Val × Val)) (n : Nat), fieldsCost dfs < n → wfFields dfs = true →
    (∀ k o v, (k, o, v) ∈ dfs →
      ∀ rest', sde enc f t (nodeHead v) o (nodeTail v ++ rest') = (valueOfN enc f t o v).map (fun x => (x, rest'))) →
    sMapFold root (fun _ k => sKeyName enc k) (sMapVal (sde enc f) t) n (lexFields dfs ++ tail) acc =
      (mapVals enc (valueOfN enc f t) dfs acc).map (fun s => (s, rest))
  | [], acc, n + 1, _, _, _ => by
      simp only [lexFields, List.nil_append, mapVals]
      rw [sMapFold_end root _ _ n tail rest acc hend]; rfl
  | (k, o, v) :: r, acc, n, hn, hw, H => by
      simp only [wfFields, Bool.and_eq_true] at hw
      simp only [fieldsCost] at hn
      obtain ⟨m, hm, rfl⟩ := fieldsCost_fuel k v _ n hn
      have ih := fun acc' => sMapFold_map enc t f root tail rest hend r acc' m hm hw.2
        (fun k' o' v' hm => H k' o' v' (List.mem_cons_of_mem _ hm))
      rw [sMapFold_field]
      have hk : sKeyName enc k.rtok = .ok (decode enc k.bytes) := by
        rcases key_rtok_cases k with h | h <;> rw [h] <;> rfl
      simp only [hk, mapVals, sMapVal]
      rw [H k o v (List.mem_cons_self ..)]
      cases valueOfN enc f t o v with
      | error e => simp [Except.map]
      | ok x => simp only [Except.map]; rw [sMapFold_after root _ _ k v hw.1]; exact ih _

/-- sequence loop over the tokens of a value list without header values -/
theorem sSeqFold_nodes (elemF : RTok → List RTok → R (Val × List RTok)) (valF : Node → R Val) (rest : List RTok) :
    ∀ (vs : List Node) (n : Nat), vs.length < n → (∀ v, v ∈ vs → v.isHdr = false) →
    (∀ v, v ∈ vs → ∀ rest', elemF (nodeHead v) (nodeTail v ++ rest') = (valF v).map (fun x => (x, rest'))) →
    sSeqFold elemF n (lexNodes vs ++ .close :: rest) = (seqVals valF vs).map (fun s => (s, rest))
  | [], n + 1, _, _, _ => by simp [lexNodes, sSeqFold, rRead, seqVals, Except.map]
  | v :: r, n + 1, hn, hh, H => by
      have ih := sSeqFold_nodes elemF valF rest r n (by simp at hn; omega)
        (fun v' hm => hh v' (List.mem_cons_of_mem _ hm)) (fun v' hm => H v' (List.mem_cons_of_mem _ hm))
      have H1 := H v (List.mem_cons_self ..)
      have hl := nodeLeft_nil v (hh v (List.mem_cons_self ..))
      simp only [lexNodes, lexNode_cons, hl, List.append_nil, List.cons_append, List.append_assoc, seqVals]
      rcases nodeHead_cases v with ⟨s, h⟩ | ⟨s, h⟩ | h <;>
      · rw [h] at H1 ⊢
        simp only [sSeqFold, rRead, H1]
        cases valF v with
        | error e => simp [Except.map]
        | ok x =>
          simp only [Except.map]
          rw [ih]
          cases seqVals valF r <;> simp [Except.map]

/-- tuple loop over the tokens of a value list without header values: as many elements as the tuple has
types are read; what is left of the list stays in the stream -/
theorem sTupFold_nodes (elemF : Ty → RTok → List RTok → R (Val × List RTok)) (valF : Ty → Node → R Val) (rest : List RTok) :
    ∀ (ts : List Ty) (xs : List Node), (∀ x, x ∈ xs → x.isHdr = false) →
    (∀ t x, (t, x) ∈ List.zip ts xs → ∀ rest', elemF t (nodeHead x) (nodeTail x ++ rest') = (valF t x).map (fun v => (v, rest'))) →
    sTupFold elemF ts (lexNodes xs ++ .close :: rest) =
      (tupVals valF ts xs).map (fun vs => (vs, lexNodes (xs.drop ts.length) ++ .close :: rest))
  | [], xs, _, _ => by simp [sTupFold, tupVals, Except.map]
  | t :: r, [], _, _ => by simp [sTupFold, tupVals, lexNodes, rRead, Except.map]
  | t :: r, x :: xs, hh, H => by
      have ih := sTupFold_nodes elemF valF rest r xs (fun v' hm => hh v' (List.mem_cons_of_mem _ hm))
        (fun t' x' hm => H t' x' (by simp [List.zip_cons_cons, hm]))
      have H1 := H t x (by simp [List.zip_cons_cons])
      have hl := nodeLeft_nil x (hh x (List.mem_cons_self ..))
      simp only [lexNodes, lexNode_cons, hl, List.append_nil, List.cons_append, List.append_assoc, tupVals,
        List.length_cons, List.drop_succ_cons]
      rcases nodeHead_cases x with ⟨s, h⟩ | ⟨s, h⟩ | h <;>
      · rw [h] at H1 ⊢
        simp only [sTupFold, rRead, H1]
        cases valF t x with
        | error e => simp [Except.map]
        | ok v =>
          simp only [Except.map]
          rw [ih]
          cases tupVals valF r xs <;> simp [Except.map]

end Jomini.TextDe

namespace Jomini.TextDe
open Jomini Jomini.TextDoc

theorem mem_heightTs : ∀ (ts : List Ty) (t : Ty), t ∈ ts → t.height ≤ Ty.heightTs ts
  | [], t, h => by simp at h
  | t0 :: r, t, h => by
      simp only [List.mem_cons] at h
      rcases h with rfl | h
      · simp only [Ty.heightTs]; omega
      · have := mem_heightTs r t h
        simp only [Ty.heightTs]; omega

theorem lookupIdx_height (name : Bytes) : ∀ (fs : List (Bytes × Ty)) (j i : Nat) (t : Ty),
    lookupIdx name fs j = some (i, t) → t.height ≤ Ty.heightFs fs
  | [], j, i, t, h => by simp [lookupIdx] at h
  | (n, t0) :: r, j, i, t, h => by
      simp only [lookupIdx] at h
      split at h
      · simp only [Option.some.injEq, Prod.mk.injEq] at h
        obtain ⟨_, rfl⟩ := h
        simp only [Ty.heightFs]; omega
      · have := lookupIdx_height name r (j + 1) i t h
        simp only [Ty.heightFs]; omega

theorem valueOfN_plain (enc : Enc) (f : Nat) (ty : Ty) (h : Ty.isPlainScalar ty = true) (o : Op) (l : Leaf) :
    valueOfN enc (f + 1) ty o (.leaf l) = valueOfScalar enc ty l.bytes := by
  cases ty <;> simp_all [Ty.isPlainScalar, valueOfN, anyVal, valueOfScalar]

theorem valueOfN_plain_hdr (enc : Enc) (f : Nat) (ty : Ty) (h : Ty.isPlainScalar ty = true) (o : Op) (n : Bytes) (b : Node) :
    valueOfN enc (f + 1) ty o (.hdr n b) = valueOfScalar enc ty n := by
  cases ty <;> simp_all [Ty.isPlainScalar, valueOfN, anyVal, valueOfScalar]

theorem plain_isScalar (ty : Ty) (h : Ty.isPlainScalar ty = true) : Ty.isScalarTy ty = true ∧ Ty.wrapDepth ty = 0 := by
  cases ty <;> simp_all [Ty.isPlainScalar, Ty.isScalarTy, Ty.wrapDepth]

/-! ### `any` on scalars and arrays -/

theorem anyVals_expand (enc : Enc) : ∀ (vs : List Node), anyVals enc vs = seqVals (anyVal enc) (expandNodes vs)
  | [] => rfl
  | .leaf l :: r => by simp only [anyVals, expandNodes, seqVals, anyVals_expand enc r]
  | .obj fs :: r => by simp only [anyVals, expandNodes, seqVals, anyVals_expand enc r]
  | .arr vs :: r => by simp only [anyVals, expandNodes, seqVals, anyVals_expand enc r]
  | .hdr n b :: r => by
      simp only [anyVals, expandNodes, seqVals, anyVal, anyVals_expand enc r]
      cases anyVal enc b with
      | error e => rfl
      | ok x => cases seqVals (anyVal enc) (expandNodes r) <;> rfl

theorem anyOks_expand : ∀ (vs : List Node), anyOks vs = true → ∀ v, v ∈ expandNodes vs → v.anyOk = true
  | [], _, v, hm => by simp [expandNodes] at hm
  | .leaf l :: r, h, v, hm => by
      simp only [anyOks, Bool.and_eq_true] at h
      simp only [expandNodes, List.mem_cons] at hm
      rcases hm with rfl | hm
      · exact h.1
      · exact anyOks_expand r h.2 v hm
  | .obj fs :: r, h, v, hm => by simp [anyOks, Node.anyOk] at h
  | .arr vs :: r, h, v, hm => by
      simp only [anyOks, Bool.and_eq_true] at h
      simp only [expandNodes, List.mem_cons] at hm
      rcases hm with rfl | hm
      · exact h.1
      · exact anyOks_expand r h.2 v hm
  | .hdr n b :: r, h, v, hm => by
      simp only [anyOks, Bool.and_eq_true] at h
      simp only [expandNodes, List.mem_cons] at hm
      rcases hm with rfl | rfl | hm
      · rfl
      · exact h.1
      · exact anyOks_expand r h.2 v hm

theorem lexNode_le_of_mem : ∀ (vs : List Node) (v : Node), v ∈ vs → (lexNode v).length ≤ (lexNodes vs).length
  | [], v, hm => by simp at hm
  | v0 :: r, v, hm => by
      simp only [List.mem_cons] at hm
      simp only [lexNodes, List.length_append]
      rcases hm with rfl | hm
      · omega
      · have := lexNode_le_of_mem r v hm; omega

/-- `AnyVisitor` on the stream path over a scalar / an array of scalars and arrays: the tree of the
values; the fuel only has to cover the tokens of the value -/
theorem sAny_node (enc : Enc) : ∀ (n : Nat) (v : Node) (rest : List RTok),
    v.anyOk = true → v.wf = true → (lexNode v).length ≤ n →
    sAny enc n (nodeHead v) (nodeTail v ++ rest) = (anyVal enc v).map (fun x => (x, rest)) := by
  intro n
  induction n with
  | zero => intro v rest _ _ h; have := lexNode_len v; omega
  | succ n ih =>
    intro v rest hok hwf hn
    cases v with
    | leaf l =>
      obtain ⟨bytes, q⟩ := l
      cases q <;> simp [nodeHead, nodeTail, Leaf.rtok, sAny, anyVal, Except.map]
    | obj fs => simp [Node.anyOk] at hok
    | hdr h b => simp [Node.anyOk] at hok
    | arr vs =>
      simp only [Node.anyOk] at hok
      have hwn : wfNodes vs = true := by simpa [Node.wf] using hwf
      have hl := lexNodes_len (expandNodes vs)
      have hex := lexNodes_expand vs
      have hlen : (lexNodes vs).length + 2 ≤ n + 1 := by simpa [lexNode] using hn
      have := sSeqFold_nodes (sAny enc n) (anyVal enc) rest (expandNodes vs)
        ((lexNodes vs ++ [RTok.close] ++ rest).length + 1) (by rw [hex] at hl; simp; omega)
        (fun v hm => (expand_mem vs hwn v hm).2)
        (fun v hm rest' => ih v rest' (anyOks_expand vs hok v hm) (expand_mem vs hwn v hm).1
          (by have := lexNode_le_of_mem _ v hm; rw [hex] at this; omega))
      simp only [nodeHead, nodeTail, sAny, anyVal]
      rw [hex] at this
      simp only [List.append_assoc, List.singleton_append] at this ⊢
      rw [this, anyVals_expand]
      cases seqVals (anyVal enc) (expandNodes vs) <;> simp [Except.map]

theorem typedLeaf_cases (ty : Ty) (h : Ty.isTypedLeaf ty = true) :
    ty = .bool ∨ ty = .i64 ∨ ty = .u64 ∨ ty = .i32 ∨ ty = .u32 ∨ ty = .i16 ∨ ty = .u16 ∨ ty = .i8 ∨ ty = .u8 ∨ ty = .f64 ∨ ty = .f32 ∨ ty = .str := by
  cases ty <;> simp_all [Ty.isTypedLeaf]

/-- a typed scalar / string requested for a container: `invalid type` on the stream path and in the spec -/
theorem sde_leaf_on_open (enc : Enc) (f : Nat) (ty : Ty) (h : Ty.isTypedLeaf ty = true) (o : Op) (toks : List RTok) :
    sde enc (f + 1) ty .open_ o toks = .error .type := by
  rcases typedLeaf_cases ty h with rfl | rfl | rfl | rfl | rfl | rfl | rfl | rfl | rfl | rfl | rfl | rfl <;>
    simp [sde, sLeaf, sStr, RTok.asScalar, Except.map]

theorem valueOfN_leaf_on_cont (enc : Enc) (f : Nat) (ty : Ty) (h : Ty.isTypedLeaf ty = true) (o : Op) (v : Node)
    (hv : (∃ dfs, v = .obj dfs) ∨ (∃ vs, v = .arr vs)) : valueOfN enc (f + 1) ty o v = .error .type := by
  rcases hv with ⟨dfs, rfl⟩ | ⟨vs, rfl⟩ <;>
    rcases typedLeaf_cases ty h with rfl | rfl | rfl | rfl | rfl | rfl | rfl | rfl | rfl | rfl | rfl | rfl <;> simp [valueOfN]

/-- stream path on the tokens of one value: the spec's value; exactly the value's tokens are
consumed, except that the body of a header value stays in the stream (`nodeLeft`) -/
theorem sde_node (enc : Enc) : ∀ (f : Nat) (ty : Ty) (o : Op) (v : Node) (rest : List RTok),
    Fits enc ty v → v.wf = true → ty.height < f →
    sde enc f ty (nodeHead v) o (nodeTail v ++ rest) = (valueOfN enc f ty o v).map (fun x => (x, rest)) := by
  intro f
  induction f with
  | zero => intro ty o v rest _ _ h; omega
  | succ f ih =>
    intro ty o v rest hfit hwf hh
    cases hfit with
    | @scalar ty l hp =>
      have ⟨hs, hw⟩ := plain_isScalar ty hp
      rw [valueOfN_plain enc f ty hp]
      have ht : nodeHead (.leaf l) = .unq l.bytes ∨ nodeHead (.leaf l) = .quo l.bytes := by
        simp only [nodeHead, Leaf.rtok]; split <;> simp
      simpa [nodeTail] using sde_scalar enc ty hs (f + 1) (by omega) (nodeHead (.leaf l)) l.bytes ht o rest
    | @hdrScalar ty n b hp =>
      have ⟨hs, hw⟩ := plain_isScalar ty hp
      rw [valueOfN_plain_hdr enc f ty hp]
      simpa [nodeTail, nodeHead] using sde_scalar enc ty hs (f + 1) (by omega) (.unq n) n (Or.inl rfl) o rest
    | ign => rw [sde_ign_node]; simp [valueOfN, Except.map]
    | @opt t v hf =>
      have := ih t o v rest hf hwf (by simp [Ty.height] at hh; omega)
      simp only [sde, this, valueOfN]
      cases valueOfN enc f t o v <;> simp [Except.map]
    | @prop t v hf =>
      have := ih t .eq v rest hf hwf (by simp [Ty.height] at hh; omega)
      simp only [sde, this, valueOfN]
      cases valueOfN enc f t .eq v <;> simp [Except.map]
    | @seq t vs hall =>
      have hwn : wfNodes vs = true := by simpa [Node.wf] using hwf
      have hl := lexNodes_len (expandNodes vs)
      have hex := lexNodes_expand vs
      have := sSeqFold_nodes (fun t' r => sde enc f t t' .eq r) (valueOfN enc f t .eq) rest (expandNodes vs)
        ((lexNodes vs ++ [RTok.close] ++ rest).length + 1) (by rw [hex] at hl; simp; omega)
        (fun v hm => (expand_mem vs hwn v hm).2)
        (fun v hm rest' => ih t .eq v rest' (hall v hm) (expand_mem vs hwn v hm).1 (by simp [Ty.height] at hh; omega))
      simp only [nodeHead, nodeTail]
      rw [sde, valueOfN]
      rw [hex] at this
      simp only [List.append_assoc, List.singleton_append] at this ⊢
      rw [this]
      cases seqVals (valueOfN enc f t Op.eq) (expandNodes vs) <;> simp [Except.map]
    | @map t dfs hall =>
      have hwn : wfFields dfs = true := by simpa [Node.wf] using hwf
      have hl := fieldsCost_le dfs
      have := sMapFold_map enc t f false (.close :: rest) rest (Or.inl rfl) dfs []
        ((lexFields dfs ++ [RTok.close] ++ rest).length + 1) (by simp; omega) hwn
        (fun k o' v hm rest' => ih t o' v rest' (hall k o' v hm) (wfFields_mem dfs hwn k o' v hm) (by simp [Ty.height] at hh; omega))
      simp only [nodeHead, nodeTail]
      rw [sde, valueOfN]
      simp only [List.append_assoc, List.singleton_append] at this ⊢
      rw [this]
      cases mapVals enc (valueOfN enc f t) dfs [] <;> simp [Except.map]
    | @st fs dfs hall =>
      have hwn : wfFields dfs = true := by simpa [Node.wf] using hwf
      have hl := fieldsCost_le dfs
      obtain ⟨f', rfl⟩ : ∃ f', f = f' + 1 := ⟨f - 1, by simp [Ty.height] at hh; omega⟩
      have := sMapFold_struct enc fs f' false (.close :: rest) rest (Or.inl rfl) dfs []
        ((lexFields dfs ++ [RTok.close] ++ rest).length + 1) (by simp; omega) hwn
        (fun k o' v hm i t hlk rest' => ih t o' v rest' (hall k o' v hm i t hlk) (wfFields_mem dfs hwn k o' v hm)
          (by have := lookupIdx_height _ fs 0 i t hlk; simp [Ty.height] at hh; omega))
      simp only [nodeHead, nodeTail]
      rw [sde, valueOfN]
      simp only [List.append_assoc, List.singleton_append] at this ⊢
      rw [this]
      cases structVals enc fs (valueOfN enc (f' + 1)) dfs [] with
      | error e => simp [Except.map]
      | ok seen => simp only [Except.map]; cases structFinish fs 0 seen <;> simp

    | @anyArr vs hok =>
      have hlex : (lexNode (Node.arr vs)).length ≤ ((nodeTail (Node.arr vs)) ++ rest).length + 2 := by
        simp [lexNode, nodeTail]
      simp only [sde]
      exact sAny_node enc _ (.arr vs) rest (by simpa [Node.anyOk] using hok) hwf hlex
    | @emptyMap t =>
      simp only [nodeHead, nodeTail, lexNodes, List.nil_append, List.cons_append, sde, valueOfN]
      rw [sMapFold_end false _ _ _ (.close :: rest) rest [] (Or.inl rfl)]
      simp [Except.map]
    | @emptySt fs =>
      simp only [nodeHead, nodeTail, lexNodes, List.nil_append, List.cons_append, sde, valueOfN]
      rw [sMapFold_end false _ _ _ (.close :: rest) rest [] (Or.inl rfl)]
      cases h : structFinish fs 0 [] <;> simp [Except.map, h]
    | @leafOnObj ty dfs hty =>
      rw [valueOfN_leaf_on_cont enc f ty hty o _ (Or.inl ⟨dfs, rfl⟩)]
      simp only [nodeHead]
      rw [sde_leaf_on_open enc f ty hty]; rfl
    | @leafOnArr ty vs hty =>
      rw [valueOfN_leaf_on_cont enc f ty hty o _ (Or.inr ⟨vs, rfl⟩)]
      simp only [nodeHead]
      rw [sde_leaf_on_open enc f ty hty]; rfl
    | @mapOnLeaf t l =>
      obtain ⟨bytes, q⟩ := l
      cases q <;> simp [nodeHead, nodeTail, Leaf.rtok, sde, valueOfN, Except.map]
    | @stOnLeaf fs l =>
      obtain ⟨bytes, q⟩ := l
      cases q <;> simp [nodeHead, nodeTail, Leaf.rtok, sde, valueOfN, Except.map]
    | @tup ts vs hlen hall =>
      have hwn : wfNodes vs = true := by simpa [Node.wf] using hwf
      have hex := lexNodes_expand vs
      have := sTupFold_nodes (fun t tok r => sde enc f t tok .eq r) (fun t x => valueOfN enc f t .eq x) rest ts (expandNodes vs)
        (fun v hm => (expand_mem vs hwn v hm).2)
        (fun t x hm rest' => ih t .eq x rest' (hall t x hm) (expand_mem vs hwn x (List.of_mem_zip hm).2).1
          (by have := mem_heightTs ts t (List.of_mem_zip hm).1; simp [Ty.height] at hh; omega))
      simp only [nodeHead, nodeTail]
      rw [sde, valueOfN]
      rw [hex] at this
      simp only [List.append_assoc, List.singleton_append] at this ⊢
      rw [this, List.drop_of_length_le hlen]
      cases tupVals (fun t x => valueOfN enc f t Op.eq x) ts (expandNodes vs) <;> simp [Except.map, lexNodes, rRead]

/-- the stream path on the reader tokens of a document yields the document's value -/
theorem deStream_eq_valueOf (enc : Enc) (ty : Ty) (d : Doc) (hroot : Ty.isRoot ty = true)
    (hwf : wfFields d = true) (hfit : Fits enc ty (.obj d)) :
    deStream enc ty (lexemes d) = valueOf enc ty d := by
  have hl := fieldsCost_le d
  cases hfit with
  | ign => simp [deStream, valueOf]
  | @opt t _ h => simp [deStream, valueOf]
  | @prop t _ h => simp [Ty.isRoot] at hroot
  | leafOnObj hty => cases ty <;> simp [Ty.isRoot, Ty.isTypedLeaf] at hroot hty
  | @map t _ hall =>
    have := sMapFold_map enc t (Ty.height (.map t)) true [] [] (Or.inr ⟨rfl, rfl, rfl⟩) d []
      ((lexemes d).length + 1) (by simp [lexemes]; omega) hwf
      (fun k o' v hm rest' => sde_node enc _ t o' v rest' (hall k o' v hm) (wfFields_mem d hwf k o' v hm) (by simp [Ty.height]))
    simp only [List.append_nil] at this
    simp only [deStream, valueOf, lexemes, Ty.height] at this ⊢
    rw [this, valueOfN]
    cases mapVals enc (valueOfN enc (t.height + 1) t) d [] <;> simp [Except.map]
  | @st fs _ hall =>
    have := sMapFold_struct enc fs (Ty.heightFs fs) true [] [] (Or.inr ⟨rfl, rfl, rfl⟩) d []
      ((lexemes d).length + 1) (by simp [lexemes]; omega) hwf
      (fun k o' v hm i t hlk rest' => sde_node enc _ t o' v rest' (hall k o' v hm i t hlk) (wfFields_mem d hwf k o' v hm)
        (by have := lookupIdx_height _ fs 0 i t hlk; omega))
    simp only [List.append_nil] at this
    simp only [deStream, valueOf, lexemes, Ty.height] at this ⊢
    rw [this, valueOfN]
    cases structVals enc fs (valueOfN enc (Ty.heightFs fs + 1)) d [] with
    | error e => simp [Except.map]
    | ok seen => cases h : structFinish fs 0 seen <;> simp [Except.map, h]

end Jomini.TextDe
