import JominiModel.Proofs.TextTapeDomWf
import JominiModel.Proofs.TextTapeStable
/-
C19 (text tape), field level: helper lemmas about the regular-tape grammar `Gr`
(Proofs/TextTapeDomWf.lean) used by `C19_text_tape_fields_partial` in Proofs/TextTapeCut.lean:
`Gr` does not look at positions (`Gr.shift`), a regular body can be split behind the last field
that ends at or before a given index (`Gr.split`), and reading fields off a tape is deterministic
(`Gr.uncons_prefix`).
-/
namespace Jomini.TextTape
open Jomini

theorem Tok.shift_isKey (L : Nat) (t : Tok) : (t.shift L).isKey = t.isKey := by cases t <;> rfl
theorem Tok.shift_isScal (L : Nat) (t : Tok) : (t.shift L).isScal = t.isScal := by cases t <;> rfl
theorem Tok.shift_isItem (L : Nat) (t : Tok) : (t.shift L).isItem = t.isItem := by cases t <;> rfl
theorem Tok.shift_isStart (L : Nat) (t : Tok) : (t.shift L).isStartTok = t.isStartTok := by cases t <;> rfl

theorem OpsOk.shift {ops : List Tok} (L : Nat) (h : OpsOk ops) : OpsOk (ops.map (Tok.shift L)) := by
  rcases h with rfl | ⟨o, rfl⟩
  · exact .inl rfl
  · exact .inr ⟨o, rfl⟩

/-- the grammar does not look at positions -/
theorem Gr.shift {k : GK} {ts : List Tok} {b : Nat} (L : Nat) (h : Gr k ts b) :
    Gr k (ts.map (Tok.shift L)) b := by
  induction h with
  | @scal t b hs => exact Gr.scal (by rw [Tok.shift_isScal]; exact hs)
  | @arr mid b m _ ih =>
    exact (Gr.arr (m := m) ih).cast (by simp [Tok.shift]) rfl
  | @obj mid b m x _ hmx ih =>
    exact (Gr.obj (m := m) ih hmx).cast (by simp [Tok.shift]) rfl
  | @hdr t r b hs _ hst ih =>
    simp only [List.map_cons] at ih ⊢
    exact Gr.hdr ih (by rw [Tok.shift_isStart]; exact hst)
  | inil => exact Gr.inil
  | @ival v rest b _ _ ihv ihr =>
    rw [List.map_append]
    exact Gr.ival ihv (ihr.cast rfl (by simp))
  | @itok t rest b ht _ ih =>
    exact Gr.itok (by rw [Tok.shift_isItem]; exact ht) ih
  | bnil => exact Gr.bnil
  | @bmixed rest b _ ih => exact Gr.bmixed ih
  | @bfield k ops v rest b x hk hops _ _ ihv ihr =>
    have := Gr.bfield (k := k.shift L) (b := b) (by rw [Tok.shift_isKey]; exact hk) (OpsOk.shift L hops)
      (ihv.cast rfl (by simp)) (ihr.cast rfl (by simp))
    exact this.cast (by simp) rfl

/-- the first field of a body reaches beyond index `m` (relative to the start of the body) -/
def FirstBeyond (rest : List Tok) (m : Nat) : Prop :=
  ∃ k ops v rest', rest = k :: (ops ++ (v ++ rest')) ∧ k.isKey = true ∧ OpsOk ops ∧
    m < 1 + ops.length + v.length

/-- split a regular body behind the last field that ends at or before `m` -/
theorem Gr.split {k : GK} {ts : List Tok} {b : Nat} (h : Gr k ts b) :
    ∀ x, k = .body x → ∀ m, ∃ D rest, ts = D ++ rest ∧ Gr (.body false) D b ∧
      Gr (.body x) rest (b + D.length) ∧ D.length ≤ m ∧
      (rest = [] ∨ rest.head? = some .mixedContainer ∨ FirstBeyond rest (m - D.length)) := by
  induction h with
  | bnil =>
    intro x hx m
    simp only [GK.body.injEq] at hx; subst hx
    exact ⟨[], [], rfl, Gr.bnil, Gr.bnil, by simp, .inl rfl⟩
  | @bmixed rest b hr _ =>
    intro x hx m
    simp only [GK.body.injEq] at hx; subst hx
    exact ⟨[], _, rfl, Gr.bnil, Gr.bmixed hr, by simp, .inr (.inl rfl)⟩
  | @bfield k ops v rest b x' hk hops hv hr _ ihr =>
    intro x hx m
    simp only [GK.body.injEq] at hx; subst hx
    by_cases hle : 1 + ops.length + v.length ≤ m
    · obtain ⟨D', rest', he, hD', hrest', hlen, hlast⟩ := ihr x' rfl (m - (1 + ops.length + v.length))
      refine ⟨k :: (ops ++ (v ++ D')), rest', by simp [he], Gr.bfield hk hops hv hD', ?_, ?_, ?_⟩
      · exact hrest'.cast rfl (by simp; omega)
      · simp; omega
      · rcases hlast with h1 | h1 | h1
        · exact .inl h1
        · exact .inr (.inl h1)
        · refine .inr (.inr ?_)
          have : m - (k :: (ops ++ (v ++ D'))).length = m - (1 + ops.length + v.length) - D'.length := by
            simp; omega
          rw [this]; exact h1
    · exact ⟨[], _, rfl, Gr.bnil, (Gr.bfield hk hops hv hr).cast rfl (by simp), by simp,
        .inr (.inr ⟨k, ops, v, rest, rfl, hk, hops, by simp; omega⟩)⟩
  | _ => intro x hx; simp at hx

/-- the number of tokens of the value that starts a token list, read off its first token(s) -/
def vlen (b : Nat) : List Tok → Nat
  | .array e _ :: _ => e - b + 1
  | .object e _ :: _ => e - b + 1
  | .header _ :: .array e _ :: _ => e - b + 1
  | .header _ :: .object e _ :: _ => e - b + 1
  | _ => 1

theorem Gr.val_len {k : GK} {v : List Tok} {b : Nat} (h : Gr k v b) :
    k = .val → ∀ X, vlen b (v ++ X) = v.length := by
  induction h with
  | @scal t b hs =>
    intro _ X
    cases t <;> simp [Tok.isScal] at hs <;> simp [vlen]
  | @arr mid b m _ _ => intro _ X; simp [vlen]; omega
  | @obj mid b m x _ _ _ => intro _ X; simp [vlen]; omega
  | @hdr t r b hs hv hst ih =>
    intro _ X
    cases hv with
    | scal hs' => cases t <;> simp [Tok.isStartTok] at hst <;> simp [Tok.isScal] at hs'
    | arr _ => simp [vlen]; omega
    | obj _ _ => simp [vlen]; omega
    | hdr _ _ => simp [Tok.isStartTok] at hst
  | _ => intro hk; simp at hk

theorem Gr.val_det {v v2 X Y : List Tok} {b : Nat} (h : Gr .val v b) (h2 : Gr .val v2 b)
    (he : v ++ X = v2 ++ Y) : v = v2 ∧ X = Y := by
  have l1 := h.val_len rfl X
  have l2 := h2.val_len rfl Y
  rw [he] at l1
  exact List.append_inj he (by omega)

theorem Gr.body_inv {k : GK} {ts : List Tok} {b : Nat} (h : Gr k ts b) :
    ∀ y t0 tl, k = .body y → ts = t0 :: tl → t0.isKey = true →
      ∃ ops v rest, tl = ops ++ (v ++ rest) ∧ OpsOk ops ∧ Gr .val v (b + 1 + ops.length) ∧
        Gr (.body y) rest (b + 1 + ops.length + v.length) := by
  intro y t0 tl hk hts ht0
  cases h <;> simp at hk
  · simp at hts
  · simp at hts; obtain ⟨rfl, _⟩ := hts; simp [Tok.isKey] at ht0
  · next k' ops v rest x hk' hops hv hr =>
    subst hk
    simp at hts
    obtain ⟨rfl, rfl⟩ := hts
    exact ⟨ops, v, rest, rfl, hops, hv, hr⟩

/-- reading complete fields off the front of a regular body is deterministic: whatever follows a
sequence of complete fields is again a regular body -/
theorem Gr.uncons_prefix {k : GK} {D : List Tok} {b : Nat} (h : Gr k D b) :
    k = .body false → ∀ y tail, Gr (.body y) (D ++ tail) b → Gr (.body y) tail (b + D.length) := by
  induction h with
  | bnil => intro _ y tail ht; simpa using ht
  | @bfield k ops v rest b x hk hops hv hr _ ihr =>
    intro hx y tail ht
    simp only [GK.body.injEq] at hx; subst hx
    obtain ⟨ops2, v2, rest2, he, hops2, hv2, hr2⟩ :=
      ht.body_inv y k (ops ++ (v ++ rest) ++ tail) rfl (by simp) hk
    obtain ⟨t, r, hvt, hto⟩ := hv.val_head rfl
    obtain ⟨t2, r2, hvt2, hto2⟩ := hv2.val_head rfl
    -- the operator part agrees
    have hops_eq : ops = ops2 := by
      rcases hops with rfl | ⟨o, rfl⟩ <;> rcases hops2 with rfl | ⟨o2, rfl⟩
      · rfl
      · rw [hvt] at he; simp at he
        obtain ⟨rfl, _⟩ := he; simp [Tok.isOp] at hto
      · rw [hvt2] at he; simp at he
        obtain ⟨rfl, _⟩ := he; simp [Tok.isOp] at hto2
      · simp at he; rw [he.1]
    subst hops_eq
    have he' : v ++ (rest ++ tail) = v2 ++ rest2 := by
      have : ops ++ (v ++ (rest ++ tail)) = ops ++ (v2 ++ rest2) := by simpa using he
      exact List.append_cancel_left this
    obtain ⟨rfl, hrest⟩ := Gr.val_det hv hv2 he'
    subst hrest
    have := ihr rfl y tail hr2
    exact this.cast rfl (by simp; omega)
  | _ => intro hk; simp at hk

end Jomini.TextTape
