import JominiModel.Proofs.TextSkip
import JominiModel.Proofs.TextReaderFaithful
import JominiModel.Proofs.TextReaderUnfit
import JominiModel.Proofs.TextReaderFull
import JominiModel.Proofs.TextReaderFaithfulX
/-
C09 (text), document level: on the rendering of a document under a valid reader-safe layout, `skip_container` called
right after the `Open` token of a container leaves the reader exactly behind that container's matching close: the tokens
read afterwards are the document's tokens after the container.
-/
namespace Jomini.TextReader
open Jomini Jomini.TextReader.Spec

/-! ### after a token that is not an unquoted scalar the reader is exactly at the reference position -/

theorem nextOpt_rel_nonunq {r r' : Reader} {pos adv : Nat} {bom b' : Bom} {d : Bytes} {fuel : Nat} {t t0 : Token}
    (hrel : Rel r pos bom d) (hfuel : 2 * r.src.rest.length + 4 ≤ fuel)
    (hres : nextOpt fuel r = .ok r' (some t)) (hnu : ∀ b, t ≠ .unquoted b)
    (hsp : specStep (pos == 0) bom d = some (.tok adv t0 b')) :
    t = t0 ∧ Rel r' (pos + adv) b' (d.drop adv) ∧ r'.cap = r.cap := by
  rcases nextOpt_vs_scan fuel r with h | ⟨adv', t', r'', hscan, hres', hadv⟩
  · rw [h] at hres
    have o := run_fallback_spec _ r pos bom d fuel rfl hrel hfuel
    rcases o with ⟨_, rr, ⟨hh, _⟩ | hh⟩ | o
    · unfold nextOptFallback at hres; rw [hh] at hres; simp at hres
    · unfold nextOptFallback at hres; rw [hh] at hres; simp at hres
    · unfold OutOk at o
      rw [hsp] at o
      obtain ⟨rr, h1, h2, _, h4⟩ := o
      unfold nextOptFallback at hres
      rw [h1] at hres
      simp only [Res.ok.injEq, Option.some.injEq] at hres
      obtain ⟨rfl, rfl⟩ := hres
      exact ⟨rfl, h2, h4⟩
  · rw [hres'] at hres
    simp only [Res.ok.injEq, Option.some.injEq] at hres
    obtain ⟨rfl, rfl⟩ := hres
    rw [hrel.pos, hrel.bom] at hscan
    have hd : d = r.win ++ r.src.rest := hrel.data.symm
    have hstab := fbLoop_stable r.src.rest hscan
    rw [← hd] at hstab
    have hsp' : specStep (pos == 0) bom d = some (.tok adv' t' bom) := by
      unfold specStep; rw [hstab]; simp [interp]
    rw [hsp'] at hsp
    simp only [Option.some.injEq, Step1.tok.injEq] at hsp
    obtain ⟨rfl, rfl, rfl⟩ := hsp
    rcases hadv with ha | ⟨_, _, b, hb⟩
    · have hk : adv' ≤ r.win.length := by
        unfold TextReader.advance at ha; split at ha
        · assumption
        · simp at ha
      obtain ⟨rr, ha', hrel', _, _, hcap'⟩ := hrel.advance adv' hk
      rw [ha] at ha'; simp only [Option.some.injEq] at ha'; subst ha'
      exact ⟨rfl, hrel', hcap'⟩
    · exact absurd hb (hnu b)

theorem nextOpt_relQ_nonunq {r r' : Reader} {pos adv : Nat} {bom b' : Bom} {d : Bytes} {fuel : Nat} {t t0 : Token}
    (hrel : RelQ r pos bom d) (hfuel : 2 * d.length + 4 ≤ fuel)
    (hres : nextOpt fuel r = .ok r' (some t)) (hnu : ∀ b, t ≠ .unquoted b)
    (hsp : specStep (pos == 0) bom d = some (.tok adv t0 b')) :
    t = t0 ∧ Rel r' (pos + adv) b' (d.drop adv) ∧ r'.cap = r.cap := by
  rcases hrel with h | ⟨tl, rfl, h⟩
  · exact nextOpt_rel_nonunq h (by have := h.rest_le; omega) hres hnu hsp
  · have hs : Skips (pos == 0) [32] 0 bom bom := .blank (by decide) (.nil _ _)
    have hspk := spec_skip hs (by simp) tl
    simp only [List.singleton_append, List.length_singleton] at hspk
    rw [hspk] at hsp
    cases hst : specStep false bom tl with
    | none => rw [hst] at hsp; simp at hsp
    | some st =>
      rw [hst] at hsp
      cases st with
      | end_ _ => simp [shiftStep] at hsp
      | eof _ _ => simp [shiftStep] at hsp
      | tok a1 t1 b1 =>
        simp only [Option.map_some, shiftStep, Option.some.injEq, Step1.tok.injEq] at hsp
        obtain ⟨rfl, rfl, rfl⟩ := hsp
        have hp : (pos + 1 == 0) = false := by simp
        have := nextOpt_rel_nonunq (pos := pos + 1) (adv := a1) (b' := b1) (t0 := t1) h
          (by have := h.rest_le; simp at hfuel; omega) hres hnu (by rw [hp]; exact hst)
        obtain ⟨h1, h2, h3⟩ := this
        refine ⟨h1, ?_, h3⟩
        have e1 : pos + (a1 + 1) = pos + 1 + a1 := by omega
        have e2 : (32 :: tl).drop (a1 + 1) = tl.drop a1 := by simp
        rw [e1, e2]; exact h2

end Jomini.TextReader

namespace Jomini.TextReader
open Jomini Jomini.TextReader.Spec

/-! ### token counting over a rendered lexeme list -/

/-- depth after walking the lexemes from `depth`; `none` if a close brings it to 0 -/
def walk : List (Bytes × Lexeme) → Int → Option Int
  | [], d => some d
  | (_, .open_) :: r, d => walk r (d + 1)
  | (_, .close) :: r, d => if d - 1 == 0 then none else walk r (d - 1)
  | (_, .op _) :: r, d => walk r d
  | (_, .scalar _ _) :: r, d => walk r d

theorem walk_append (a b : List (Bytes × Lexeme)) (d d' : Int) (h : walk a d = some d') :
    walk (a ++ b) d = walk b d' := by
  induction a generalizing d with
  | nil => simp [walk] at h; subst h; rfl
  | cons it a ih =>
    obtain ⟨g, lx⟩ := it
    cases lx with
    | open_ => simp only [List.cons_append, walk] at h ⊢; exact ih _ h
    | close =>
      simp only [List.cons_append, walk] at h ⊢
      split at h
      · simp at h
      · rename_i hz; simp only [hz, Bool.false_eq_true, if_false]; exact ih _ h
    | op o => simp only [List.cons_append, walk] at h ⊢; exact ih _ h
    | scalar q b => simp only [List.cons_append, walk] at h ⊢; exact ih _ h

/-- the reference step on one rendered item away from stream position 0 -/
theorem spec_item {g after : Bytes} {lx : Lexeme} (bom : Bom) (hg : Gap g) (hv : lx.Valid after) :
    ∃ b', specStep false bom (g ++ (lx.text ++ after)) = some (.tok (g.length + lx.text.length) lx.tok b') :=
  specStep_lexeme lx (hg.skips false 0 bom) hv (by simp)

theorem renderLex_nil_length (items : List (Bytes × Lexeme)) (x : Bytes) :
    (renderLex items x).length = (renderLex items []).length + x.length := by
  induction items with
  | nil => simp [renderLex]
  | cons it r ih => obtain ⟨g, lx⟩ := it; simp [renderLex, ih]; omega

theorem renderLex_drop (items : List (Bytes × Lexeme)) (x : Bytes) :
    (renderLex items x).drop (renderLex items []).length = x := by
  induction items with
  | nil => simp [renderLex]
  | cons it r ih =>
    obtain ⟨g, lx⟩ := it
    simp only [renderLex, List.append_nil]
    have : (g ++ (lx.text ++ renderLex r [])).length = g.length + (lx.text.length + (renderLex r []).length) := by simp
    rw [this, ← List.drop_drop, List.drop_left, ← List.drop_drop, List.drop_left, ih]

/-- **token counting passes over a rendered lexeme list**: reading the tokens of `items` (valid layout, skip-safe
scalars, away from stream position 0) changes the depth as `walk` says and consumes exactly their rendering. -/
theorem balancedSkip_items (gt : Bytes) (more : List (Bytes × Lexeme)) : ∀ (items : List (Bytes × Lexeme)) (pos : Nat) (bom : Bom)
    (depth depth' : Int) (n : Nat),
    pos ≠ 0 → ValidLex (items ++ more) gt → (∀ it ∈ items, skipSafeTok it.2.tok = true) → walk items depth = some depth' →
    ∃ bom', balancedSkip (items.length + n) pos bom (renderLex (items ++ more) gt) depth =
      (balancedSkip n (pos + (renderLex items []).length) bom' (renderLex more gt) depth').map (· + (renderLex items []).length) := by
  intro items
  induction items with
  | nil =>
    intro pos bom depth depth' n _ _ _ hw
    simp [walk] at hw; subst hw
    exact ⟨bom, by simp [renderLex]⟩
  | cons it rest ih =>
    obtain ⟨g, lx⟩ := it
    intro pos bom depth depth' n hpos hv hsafe hw
    simp only [List.cons_append, ValidLex] at hv
    obtain ⟨hg, hlv, hrest⟩ := hv
    obtain ⟨b', hsp⟩ := spec_item bom hg hlv
    have hp0 : (pos == 0) = false := by simpa using hpos
    have hs : skipSafeTok lx.tok = true := hsafe (g, lx) (by simp)
    have hsafe' : ∀ it ∈ rest, skipSafeTok it.2.tok = true := fun it hit => hsafe it (by simp [hit])
    have hadv : 0 < lx.text.length := lexeme_text_pos hlv
    have hpos' : pos + (g.length + lx.text.length) ≠ 0 := by omega
    have hdrop : (g ++ (lx.text ++ renderLex (rest ++ more) gt)).drop (g.length + lx.text.length) = renderLex (rest ++ more) gt := by
      rw [← List.drop_drop, List.drop_left, List.drop_left]
    have hL : (renderLex ((g, lx) :: rest) []).length = (g.length + lx.text.length) + (renderLex rest []).length := by
      simp [renderLex]; omega
    have hfuel : ((g, lx) :: rest).length + n = (rest.length + n) + 1 := by simp; omega
    -- one step of token counting, then the induction hypothesis
    have step : ∀ dnext, walk rest dnext = some depth' →
        ∃ bom', (balancedSkip (rest.length + n) (pos + (g.length + lx.text.length)) b' (renderLex (rest ++ more) gt) dnext).map
            (· + (g.length + lx.text.length)) =
          (balancedSkip n (pos + (renderLex ((g, lx) :: rest) []).length) bom' (renderLex more gt) depth').map
            (· + (renderLex ((g, lx) :: rest) []).length) := by
      intro dnext hwn
      obtain ⟨bom', hih⟩ := ih (pos + (g.length + lx.text.length)) b' dnext depth' n hpos' hrest hsafe' hwn
      refine ⟨bom', ?_⟩
      rw [hih, hL]
      have e : pos + (g.length + lx.text.length) + (renderLex rest []).length =
          pos + (g.length + lx.text.length + (renderLex rest []).length) := by omega
      rw [e]
      cases balancedSkip n (pos + (g.length + lx.text.length + (renderLex rest []).length)) bom' (renderLex more gt) depth' with
      | none => rfl
      | some q => simp; omega
    simp only [renderLex, List.cons_append]
    rw [hfuel, balancedSkip, hp0, hsp]
    simp only [hs, Bool.not_true, Bool.false_eq_true, if_false, hdrop]
    cases lx with
    | open_ =>
      simp only [walk] at hw
      simp only [Lexeme.tok]
      exact step _ hw
    | close =>
      simp only [walk] at hw
      split at hw
      · simp at hw
      · rename_i hz
        simp only [Lexeme.tok, hz, Bool.false_eq_true, if_false]
        exact step _ hw
    | op o =>
      simp only [walk] at hw
      simp only [Lexeme.tok]
      exact step _ hw
    | scalar q b =>
      simp only [walk] at hw
      cases q <;> (simp only [Lexeme.tok]; exact step _ hw)

mutual
/-- a value / a member list is balanced: walking it from a depth ≥ 1 returns to that depth without touching 0 -/
theorem walk_itemsV : ∀ (v : DVal) (d : Int), 1 ≤ d → walk (itemsV v) d = some d
  | .scal g q b, d, _ => by simp [itemsV, walk]
  | .cont g ms gc, d, hd => by
    simp only [itemsV, walk]
    rw [walk_append _ _ _ _ (walk_itemsM ms (d + 1) (by omega))]
    have : ¬ (d + 1 - 1 == 0) = true := by simp; omega
    simp only [walk, this, Bool.false_eq_true, if_false]
    congr 1; omega
theorem walk_itemsM : ∀ (ms : DMembers) (d : Int), 1 ≤ d → walk (itemsM ms) d = some d
  | .nil, d, _ => by simp [itemsM, walk]
  | .field g0 kq key g1 o v rest, d, hd => by
    simp only [itemsM, walk]
    rw [walk_append _ _ _ _ (walk_itemsV v d hd)]
    exact walk_itemsM rest d hd
  | .elem v rest, d, hd => by
    simp only [itemsM]
    rw [walk_append _ _ _ _ (walk_itemsV v d hd)]
    exact walk_itemsM rest d hd
end

theorem ValidLex_suffix (a b : List (Bytes × Lexeme)) (gt : Bytes) (h : ValidLex (a ++ b) gt) : ValidLex b gt := by
  induction a with
  | nil => simpa using h
  | cons it r ih => obtain ⟨g, lx⟩ := it; simp only [List.cons_append, ValidLex] at h; exact ih h.2.2

/-- **token counting finds the matching close**: behind the `Open` token of a container with members `ms` and closing
gap `gc`, reading tokens and counting opens and closes lands exactly behind the container's own `}`. -/
theorem balancedSkip_container (ms : DMembers) (gc : Bytes) (more : List (Bytes × Lexeme)) (gt : Bytes) (pos : Nat) (bom : Bom)
    (hpos : pos ≠ 0) (hv : ValidLex (itemsM ms ++ (gc, .close) :: more) gt)
    (hsafe : ∀ it ∈ itemsM ms, skipSafeTok it.2.tok = true) :
    balancedSkip ((itemsM ms).length + 1) pos bom (renderLex (itemsM ms ++ (gc, .close) :: more) gt) 1 =
      some ((renderM ms).length + gc.length + 1) := by
  obtain ⟨bom', h⟩ := balancedSkip_items gt ((gc, .close) :: more) (itemsM ms) pos bom 1 1 1 hpos hv hsafe
    (walk_itemsM ms 1 (by omega))
  rw [h]
  have hvc : ValidLex ((gc, Lexeme.close) :: more) gt := ValidLex_suffix _ _ _ hv
  simp only [ValidLex] at hvc
  obtain ⟨b', hsp⟩ := spec_item (lx := .close) bom' hvc.1 hvc.2.1
  have hL : (renderLex (itemsM ms) []).length = (renderM ms).length := by
    rw [renderLex_itemsM]; simp
  have hp0 : (pos + (renderLex (itemsM ms) []).length == 0) = false := by
    have : pos + (renderLex (itemsM ms) []).length ≠ 0 := by omega
    simpa using this
  simp only [renderLex]
  rw [balancedSkip, hp0, hsp]
  simp [skipSafeTok, Lexeme.tok, Lexeme.text, hL]
  omega

end Jomini.TextReader

namespace Jomini.TextReader
open Jomini Jomini.TextReader.Spec

/-! ### readers that can neither overflow nor fail during the next `n` calls: a slice reader, or a buffer of at least three
bytes that holds what those calls need (`needFrom n`), with a fault-free schedule -/

def Good (n : Nat) (r : Reader) (pos : Nat) (bom : Bom) (d : Bytes) : Prop :=
  (r.cap = 0 ∨ (3 ≤ r.cap ∧ needFrom n pos bom d ≤ r.cap)) ∧ NoFaults r.src.sched

theorem Good.outQ {n : Nat} {r : Reader} {pos : Nat} {bom : Bom} {d : Bytes} {fuel : Nat} (hg : Good (n + 1) r pos bom d)
    (h : OutQ (nextOpt fuel r) r.cap pos bom d) : OutQOk (nextOpt fuel r) r.cap pos bom d := by
  rcases h with ⟨hne, r', ⟨_, hle, hwd, hq⟩ | hio⟩ | h
  · exfalso; rcases hg.1 with h0 | ⟨_, h1⟩
    · exact hne h0
    · have := Carry_lt_callNeed hq
      simp only [needFrom] at h1
      have := Nat.le_max_left (callNeed (pos == 0) bom d) (match specStep (pos == 0) bom d with
        | some (.tok adv _ b') => needFrom n (pos + adv) b' (d.drop adv)
        | _ => 0)
      omega
  · exfalso
    have := nextOpt_inv NoFaults_closed fuel r hg.2
    rw [hio] at this
    exact this.2.2 rfl
  · exact h

/-- after a token, the remaining calls still fit -/
theorem Good.step {n : Nat} {r r' : Reader} {pos adv : Nat} {bom b' : Bom} {d : Bytes} {t : Token}
    (hg : Good (n + 1) r pos bom d) (hsp : specStep (pos == 0) bom d = some (.tok adv t b')) (hc : r'.cap = r.cap)
    (hnf : NoFaults r'.src.sched) : Good n r' (pos + adv) b' (d.drop adv) := by
  refine ⟨?_, hnf⟩
  rw [hc]
  rcases hg.1 with h0 | ⟨h3, h1⟩
  · exact Or.inl h0
  · right
    simp only [needFrom, hsp] at h1
    exact ⟨h3, Nat.le_trans (Nat.le_max_right _ _) h1⟩

/-- one `next` call in front of a rendered item -/
theorem next_item {N m : Nat} {gt pre g : Bytes} {lx : Lexeme} {rest : List (Bytes × Lexeme)} {r : Reader} {pos : Nat}
    {bom bom_s : Bom} {f : Nat}
    (hrel : RelQ r pos bom (pre ++ renderLex ((g, lx) :: rest) gt)) (hgood : Good (m + 1) r pos bom (pre ++ renderLex ((g, lx) :: rest) gt))
    (hN : (pre ++ renderLex ((g, lx) :: rest) gt).length ≤ N)
    (hs : Skips (pos == 0) pre 0 bom bom_s) (hv : ValidLex ((g, lx) :: rest) gt)
    (hclash : pos = 0 → pre = [] → bom_s = .unknown → ¬∃ r', renderLex ((g, lx) :: rest) gt = 0xef :: 0xbb :: 0xbf :: r')
    (hf : 2 * N + 4 ≤ f) :
    ∃ r' b', next f r = .ok r' (some lx.tok) ∧
      RelQ r' (pos + (pre.length + g.length + lx.text.length)) b' (renderLex rest gt) ∧
      ((∀ b, lx.tok ≠ .unquoted b) → Rel r' (pos + (pre.length + g.length + lx.text.length)) b' (renderLex rest gt)) ∧
      Good m r' (pos + (pre.length + g.length + lx.text.length)) b' (renderLex rest gt) ∧ r'.cap = r.cap := by
  simp only [ValidLex] at hv
  obtain ⟨hg, hlv, _⟩ := hv
  have hall := hs.append (hg.skips (pos == 0) (0 + pre.length) bom_s)
  have hd : pre ++ renderLex ((g, lx) :: rest) gt = (pre ++ g) ++ (lx.text ++ renderLex rest gt) := by simp [renderLex]
  obtain ⟨b', hsp⟩ := specStep_lexeme lx hall hlv (by
    rintro ⟨hp, hpg, hb, r', hr'⟩
    have hpre : pre = [] := by cases pre with | nil => rfl | cons _ _ => simp at hpg
    have hg0 : g = [] := by subst hpre; simpa using hpg
    refine hclash (by simpa using hp) hpre hb ⟨r', ?_⟩
    subst hg0; simpa [renderLex] using hr')
  rw [← hd] at hsp
  have o := Good.outQ hgood (nextOpt_specQ r pos bom _ f hrel (by omega))
  have o' := o
  unfold OutQOk at o
  rw [hsp] at o
  obtain ⟨r', e1, hr1, _, hc1⟩ := o
  have hdrop : (pre ++ renderLex ((g, lx) :: rest) gt).drop ((pre ++ g).length + lx.text.length) = renderLex rest gt := by
    rw [hd, ← List.append_assoc]
    have : (pre ++ g).length + lx.text.length = (pre ++ g ++ lx.text).length := by simp; omega
    rw [this, List.drop_left]
  have hlen : (pre ++ g).length + lx.text.length = pre.length + g.length + lx.text.length := by simp
  rw [hdrop, hlen] at hr1
  have hnf' : NoFaults r'.src.sched := by
    have := nextOpt_inv NoFaults_closed f r hgood.2
    rw [e1] at this
    exact this
  have hstep := Good.step hgood hsp hc1 hnf'
  rw [hdrop, hlen] at hstep
  refine ⟨r', b', e1, hr1, ?_, hstep, hc1⟩
  intro hnu
  have := nextOpt_relQ_nonunq hrel (by omega) e1 hnu hsp
  rw [hdrop, hlen] at this
  exact this.2.1

/-- one `next` call at the end of the rendering -/
theorem next_end {N m : Nat} {gt pre : Bytes} {r : Reader} {pos : Nat} {bom bom_s : Bom} {f : Nat}
    (hrel : RelQ r pos bom (pre ++ gt)) (hgood : Good (m + 1) r pos bom (pre ++ gt)) (hN : (pre ++ gt).length ≤ N)
    (hs : Skips (pos == 0) pre 0 bom bom_s) (hg : EndGap gt) (hf : 2 * N + 4 ≤ f) :
    ∃ r', next f r = .ok r' none ∧ r'.position = pos + (pre ++ gt).length := by
  obtain ⟨b', hsp⟩ := specStep_end hs hg
  have o := Good.outQ hgood (nextOpt_specQ r pos bom _ f hrel (by omega))
  unfold OutQOk at o
  rw [hsp] at o
  obtain ⟨r', e1, hr1, _⟩ := o
  exact ⟨r', e1, hr1.pos⟩

/-- `lexAll_faithful` for every reader that can neither overflow nor fail -/
theorem lexAll_faithful_good (N : Nat) (gt : Bytes) : ∀ (items : List (Bytes × Lexeme)) (pre : Bytes) (r : Reader) (pos : Nat)
    (bom bom_s : Bom) (f n : Nat) (acc : List Token),
    RelQ r pos bom (pre ++ renderLex items gt) → Good (items.length + 1) r pos bom (pre ++ renderLex items gt) →
    (pre ++ renderLex items gt).length ≤ N →
    Skips (pos == 0) pre 0 bom bom_s → ValidLex items gt →
    (pos = 0 → pre = [] → bom_s = .unknown → ¬∃ r', renderLex items gt = 0xef :: 0xbb :: 0xbf :: r') →
    items.length + 1 ≤ n → 2 * N + 4 ≤ f →
    (lexAll f n r acc).toks = acc.reverse ++ items.map (fun x => x.2.tok) ∧ (lexAll f n r acc).out = .end_ ∧
    (lexAll f n r acc).final.position = pos + (pre ++ renderLex items gt).length := by
  intro items
  induction items with
  | nil =>
    intro pre r pos bom bom_s f n acc hrel hgood hN hs hv _ hn hf
    obtain ⟨m, rfl⟩ : ∃ m, n = m + 1 := ⟨n - 1, by simp at hn; omega⟩
    simp only [renderLex] at hrel hN ⊢
    simp only [ValidLex] at hv
    obtain ⟨r', e1, hp⟩ := next_end hrel hgood hN hs hv hf
    simp only [lexAll, e1, List.map_nil, List.append_nil]
    exact ⟨trivial, trivial, hp⟩
  | cons it rest ih =>
    obtain ⟨g, lx⟩ := it
    intro pre r pos bom bom_s f n acc hrel hgood hN hs hv hclash hn hf
    obtain ⟨m, rfl⟩ : ∃ m, n = m + 1 := ⟨n - 1, by simp at hn; omega⟩
    obtain ⟨r', b', e1, hr1, _, hg1, _⟩ := next_item hrel hgood hN hs hv hclash hf
    simp only [lexAll, e1]
    have htl : 0 < lx.text.length := lexeme_text_pos (by simp only [ValidLex] at hv; exact hv.2.1)
    have hlenle : (renderLex rest gt).length + (pre.length + g.length + lx.text.length) = (pre ++ renderLex ((g, lx) :: rest) gt).length := by
      simp [renderLex]; omega
    have := ih [] r' (pos + (pre.length + g.length + lx.text.length)) b' b' f m (lx.tok :: acc)
      (by simpa using hr1) hg1 (by simp only [List.nil_append]; omega) (.nil _ _)
      (by simp only [ValidLex] at hv; exact hv.2.2) (fun h => absurd h (by omega)) (by simp at hn ⊢; omega) hf
    obtain ⟨h1, h2, h3⟩ := this
    refine ⟨by rw [h1]; simp, h2, ?_⟩
    rw [h3]; simp only [List.nil_append]; omega

/-- read `k` tokens (every call must return a token) -/
def readToks (fuel : Nat) : Nat → Reader → Option (List Token × Reader)
  | 0, r => some ([], r)
  | k + 1, r =>
    match next fuel r with
    | .ok r' (some t) => (readToks fuel k r').map (fun p => (t :: p.1, p.2))
    | _ => none

theorem readToks_faithful (N m : Nat) (gt : Bytes) (items2 : List (Bytes × Lexeme)) : ∀ (items1 : List (Bytes × Lexeme))
    (pre : Bytes) (r : Reader) (pos : Nat) (bom bom_s : Bom) (f : Nat),
    RelQ r pos bom (pre ++ renderLex (items1 ++ items2) gt) →
    Good (items1.length + m) r pos bom (pre ++ renderLex (items1 ++ items2) gt) →
    (pre ++ renderLex (items1 ++ items2) gt).length ≤ N →
    Skips (pos == 0) pre 0 bom bom_s → ValidLex (items1 ++ items2) gt →
    (pos = 0 → pre = [] → bom_s = .unknown → ¬∃ r', renderLex (items1 ++ items2) gt = 0xef :: 0xbb :: 0xbf :: r') →
    2 * N + 4 ≤ f →
    ∃ r' pos' b' pre' bs', readToks f items1.length r = some (items1.map (fun x => x.2.tok), r') ∧
      RelQ r' pos' b' (pre' ++ renderLex items2 gt) ∧ Skips (pos' == 0) pre' 0 b' bs' ∧
      (pos' = 0 → pre' = [] → bs' = .unknown → ¬∃ r'', renderLex items2 gt = 0xef :: 0xbb :: 0xbf :: r'') ∧
      Good m r' pos' b' (pre' ++ renderLex items2 gt) ∧ (pre' ++ renderLex items2 gt).length ≤ N ∧
      pos' + (pre' ++ renderLex items2 gt).length = pos + (pre ++ renderLex (items1 ++ items2) gt).length ∧
      r'.cap = r.cap := by
  intro items1
  induction items1 with
  | nil =>
    intro pre r pos bom bom_s f hrel hgood hN hs _ hclash _
    exact ⟨r, pos, bom, pre, bom_s, rfl, by simpa using hrel, hs, by simpa using hclash, by simpa using hgood, by simpa using hN, by simp, rfl⟩
  | cons it rest ih =>
    obtain ⟨g, lx⟩ := it
    intro pre r pos bom bom_s f hrel hgood hN hs hv hclash hf
    simp only [List.cons_append] at hrel hN hv hclash hgood
    have hcnt : (rest.length + 1) + m = (rest.length + m) + 1 := by omega
    simp only [List.length_cons] at hgood
    rw [hcnt] at hgood
    obtain ⟨r1, b1, e1, hr1, _, hg1, hcap1⟩ := next_item hrel hgood hN hs hv hclash hf
    have htl : 0 < lx.text.length := lexeme_text_pos (by simp only [ValidLex] at hv; exact hv.2.1)
    have hlenle : (renderLex (rest ++ items2) gt).length + (pre.length + g.length + lx.text.length) =
        (pre ++ renderLex ((g, lx) :: (rest ++ items2)) gt).length := by
      simp [renderLex]; omega
    obtain ⟨r', pos', b', pre', bs', h1, h2, h3, h4, h5, h6, h7, h8⟩ :=
      ih [] r1 (pos + (pre.length + g.length + lx.text.length)) b1 b1 f
        (by simpa using hr1) (by simpa using hg1) (by simp only [List.nil_append]; omega) (.nil _ _)
        (by simp only [ValidLex] at hv; exact hv.2.2) (fun h => absurd h (by omega)) hf
    refine ⟨r', pos', b', pre', bs', ?_, h2, h3, h4, h5, h6, ?_, by rw [h8, hcap1]⟩
    · simp only [List.length_cons, readToks, e1, h1, List.map_cons, Option.map_some]
    · rw [h7]; simp only [List.nil_append, List.cons_append]; omega

end Jomini.TextReader

namespace Jomini.TextReader
open Jomini Jomini.TextReader.Spec

/-! ### skip_container behind an Open token of a rendered document -/

/-- what the op `tskip` does: read `k` tokens, read one more which must be `Open`, call `skip_container`, then read
tokens to the end -/
def skipAt (fuel n k : Nat) (r : Reader) : Option (List Token × Run) :=
  match readToks fuel k r with
  | some (ts, r1) =>
    match next fuel r1 with
    | .ok r2 (some .open_) =>
      match skipContainer fuel r2 with
      | .ok r3 () => some (ts, lexAll fuel n r3 [])
      | _ => none
    | _ => none
  | none => none

theorem renderLex_mid_length (a : List (Bytes × Lexeme)) (it : Bytes × Lexeme) (b : List (Bytes × Lexeme)) (x : Bytes) :
    it.2.text.length + (renderLex b x).length ≤ (renderLex (a ++ it :: b) x).length := by
  induction a with
  | nil => obtain ⟨g, lx⟩ := it; simp [renderLex]
  | cons c a ih => obtain ⟨g, lx⟩ := c; simp only [List.cons_append, renderLex, List.length_append]; omega

/-- **lexeme level**: the rendering of `pre ++ { ms } ++ more`; after the `Open` token `skip_container` lands behind the
matching close, and the tokens read afterwards are exactly those of `more`. -/
theorem skipAt_items (b : Bool) (pre more : List (Bytes × Lexeme)) (g gc gt : Bytes) (ms : DMembers) (r0 : Reader) (f n : Nat) :
    let items := pre ++ (g, Lexeme.open_) :: (itemsM ms ++ (gc, Lexeme.close) :: more)
    let data := bomBytes b ++ renderLex items gt
    ValidLex items gt → (∀ it ∈ itemsM ms, skipSafeTok it.2.tok = true) →
    (b = false → ¬∃ r', renderLex items gt = 0xef :: 0xbb :: 0xbf :: r') →
    Rel r0 0 .unknown data → Good (pre.length + 1) r0 0 .unknown data →
    (r0.cap = 0 ∨ needFrom (more.length + 1) (data.length - (renderLex more gt).length) .notPresent (renderLex more gt) ≤ r0.cap) →
    2 * data.length + 4 ≤ f → more.length + 1 ≤ n →
    ∃ run, skipAt f n pre.length r0 = some (pre.map (fun x => x.2.tok), run) ∧
      run.toks = more.map (fun x => x.2.tok) ∧ run.out = .end_ ∧ run.final.position = data.length := by
  intro items data hv hsafe hclash hrel hgood hafter hf hn
  -- the BOM, if any, is a skipped prefix
  have hs0 : ∃ bs, Skips ((0 : Nat) == 0) (bomBytes b) 0 .unknown bs ∧ (b = false → bs = .unknown) := by
    cases b with
    | true => exact ⟨.present, .bom rfl (.nil _ _), fun h => by simp at h⟩
    | false => exact ⟨.unknown, .nil _ _, fun _ => rfl⟩
  obtain ⟨bs, hs0, hbs⟩ := hs0
  have hclash0 : (0 : Nat) = 0 → bomBytes b = [] → bs = .unknown → ¬∃ r', renderLex (pre ++ (g, Lexeme.open_) :: (itemsM ms ++ (gc, Lexeme.close) :: more)) gt = 0xef :: 0xbb :: 0xbf :: r' := by
    intro _ hb0 _
    cases b with
    | true => simp [bomBytes] at hb0
    | false => exact hclash rfl
  -- 1. the tokens in front of the container
  obtain ⟨r1, pos1, b1, pre1, bs1, hread, hr1, hs1, hcl1, hg1, hN1, hpos1, hcap1⟩ :=
    readToks_faithful data.length 1 gt ((g, Lexeme.open_) :: (itemsM ms ++ (gc, Lexeme.close) :: more)) pre (bomBytes b) r0 0 .unknown bs f
      (Or.inl hrel) hgood (Nat.le_refl _) hs0 hv hclash0 hf
  -- 2. the Open token
  have hv1 : ValidLex ((g, Lexeme.open_) :: (itemsM ms ++ (gc, Lexeme.close) :: more)) gt := ValidLex_suffix _ _ _ hv
  obtain ⟨r2, b2, e2, _, hrel2, hg2, hc2⟩ := next_item (m := 0) hr1 hg1 hN1 hs1 hv1 hcl1 hf
  have hrel2 := hrel2 (by intro bb; simp [Lexeme.tok])
  simp only [Lexeme.text, List.length_singleton] at hrel2
  have hv2 : ValidLex (itemsM ms ++ (gc, Lexeme.close) :: more) gt := by simp only [ValidLex] at hv1; exact hv1.2.2
  have hpos2 : pos1 + (pre1.length + g.length + 1) ≠ 0 := by omega
  -- 3. skip_container
  have hbal := balancedSkip_container ms gc more gt (pos1 + (pre1.length + g.length + 1)) b2 hpos2 hv2 hsafe
  have href := balancedSkip_skipRef _ _ _ _ _ _ hbal
  -- lengths
  have hD2 : (renderLex (itemsM ms ++ (gc, Lexeme.close) :: more) gt).length =
      (renderM ms).length + gc.length + 1 + (renderLex more gt).length := by
    rw [renderLex_append, renderLex_itemsM]; simp [renderLex, Lexeme.text]; omega
  have hD1 : (renderLex ((g, Lexeme.open_) :: (itemsM ms ++ (gc, Lexeme.close) :: more)) gt).length =
      g.length + 1 + (renderLex (itemsM ms ++ (gc, Lexeme.close) :: more) gt).length := by
    simp [renderLex, Lexeme.text]; omega
  have hdata2 : 2 ≤ data.length := by
    have h1 := renderLex_mid_length pre (g, Lexeme.open_) (itemsM ms ++ (gc, Lexeme.close) :: more) gt
    simp only [Lexeme.text, List.length_singleton] at h1
    show 2 ≤ (bomBytes b ++ renderLex items gt).length
    simp only [List.length_append]
    show 2 ≤ (bomBytes b).length + (renderLex (pre ++ (g, Lexeme.open_) :: (itemsM ms ++ (gc, Lexeme.close) :: more)) gt).length
    omega
  have hd2len : (renderLex (itemsM ms ++ (gc, Lexeme.close) :: more) gt).length + (pre1.length + g.length + 1) =
      (pre1 ++ renderLex ((g, Lexeme.open_) :: (itemsM ms ++ (gc, Lexeme.close) :: more)) gt).length := by
    rw [List.length_append, hD1]; omega
  obtain ⟨r3, e3, hrel3, hc3⟩ : ∃ r3, skipContainer f r2 = .ok r3 () ∧
      Rel r3 (pos1 + (pre1.length + g.length + 1) + ((renderM ms).length + gc.length + 1)) b2
        ((renderLex (itemsM ms ++ (gc, Lexeme.close) :: more) gt).drop ((renderM ms).length + gc.length + 1)) ∧ r3.cap = r2.cap := by
    rcases skipLoop_spec _ r2 _ b2 _ .none 1 f (Nat.le_refl _) hrel2 (by have := hrel2.rest_le; omega) with ⟨rr, hio⟩ | ⟨_, _, h1, h2⟩ | hok
    · exfalso
      have := skipLoop_inv NoFaults_closed f r2 .none 1 0 hg2.2
      rw [hio] at this
      exact this.2.2 rfl
    · exfalso; rcases hg2.1 with h0 | ⟨h0, _⟩
      · exact h1 h0
      · omega
    · unfold SkipOut at hok
      rw [href] at hok
      exact hok
  have hdrop3 : (renderLex (itemsM ms ++ (gc, Lexeme.close) :: more) gt).drop ((renderM ms).length + gc.length + 1) = renderLex more gt := by
    rw [renderLex_append]
    have hL : (renderLex (itemsM ms) []).length = (renderM ms).length := by rw [renderLex_itemsM]; simp
    rw [show (renderM ms).length + gc.length + 1 = (renderLex (itemsM ms) []).length + (gc.length + 1) by omega,
      ← List.drop_drop, renderLex_drop]
    simp only [renderLex, Lexeme.text]
    rw [show gc.length + 1 = (gc ++ [125]).length by simp, ← List.append_assoc, List.drop_left]
  rw [hdrop3] at hrel3
  have hdl0 : data.length = (bomBytes b ++ renderLex (pre ++ (g, Lexeme.open_) :: (itemsM ms ++ (gc, Lexeme.close) :: more)) gt).length := rfl
  have hpos3 : pos1 + (pre1.length + g.length + 1) + ((renderM ms).length + gc.length + 1) =
      data.length - (renderLex more gt).length := by
    have := hpos1
    rw [hdl0]
    simp only [List.length_append, Nat.zero_add] at this ⊢
    rw [hD1, hD2] at this
    omega
  have hg3 : Good (more.length + 1) r3 (pos1 + (pre1.length + g.length + 1) + ((renderM ms).length + gc.length + 1)) b2
      ([] ++ renderLex more gt) := by
    have hnf3 : NoFaults r3.src.sched := by
      have := skipLoop_inv NoFaults_closed f r2 .none 1 0 hg2.2
      unfold skipContainer at e3
      rw [e3] at this
      exact this
    have hcap30 : r3.cap = r0.cap := by rw [hc3, hc2, hcap1]
    refine ⟨?_, hnf3⟩
    rw [hcap30]
    rcases hgood.1 with h0 | ⟨h3, _⟩
    · exact Or.inl h0
    · right
      refine ⟨h3, ?_⟩
      rcases hafter with h0 | ha
      · omega
      · rw [hpos3, List.nil_append, needFrom_bom _ _ b2 .notPresent _ (by omega)]
        exact ha
  -- 4. the rest of the document
  have hfin := lexAll_faithful_good data.length gt more [] r3 _ b2 b2 f n [] (by simp only [List.nil_append]; exact Or.inl hrel3) hg3
    (by simp only [List.nil_append]; omega) (.nil _ _) (ValidLex_suffix _ _ _ hv2 |> fun h => by simp only [ValidLex] at h; exact h.2.2)
    (fun h => absurd h (by omega)) hn hf
  obtain ⟨t1, t2, t3⟩ := hfin
  refine ⟨lexAll f n r3 [], ?_, by simpa using t1, t2, ?_⟩
  · simp only [skipAt, hread, e2, Lexeme.tok, e3]
  · rw [t3]
    have hdl : data.length = (bomBytes b ++ renderLex (pre ++ (g, Lexeme.open_) :: (itemsM ms ++ (gc, Lexeme.close) :: more)) gt).length := rfl
    rw [hdl]
    simp only [List.nil_append, List.length_append, Nat.zero_add] at hpos1 ⊢
    rw [hD1, hD2] at hpos1
    omega

end Jomini.TextReader

namespace Jomini.TextReader
open Jomini Jomini.TextReader.Spec

/-! ### documents -/

mutual
/-- the value `c` occurs in the value `v` / among the members `ms` -/
inductive InV : DVal → DVal → Prop
  | here (c : DVal) : InV c c
  | inside {c : DVal} {g gc : Bytes} {ms : DMembers} : InM c ms → InV c (.cont g ms gc)
inductive InM : DVal → DMembers → Prop
  | fieldVal {c v : DVal} {g0 g1 key : Bytes} {kq : Bool} {o : Op} {rest : DMembers} : InV c v → InM c (.field g0 kq key g1 o v rest)
  | fieldRest {c v : DVal} {g0 g1 key : Bytes} {kq : Bool} {o : Op} {rest : DMembers} : InM c rest → InM c (.field g0 kq key g1 o v rest)
  | elemVal {c v : DVal} {rest : DMembers} : InV c v → InM c (.elem v rest)
  | elemRest {c v : DVal} {rest : DMembers} : InM c rest → InM c (.elem v rest)
end

mutual
/-- the lexemes of an occurring value are a contiguous segment of the document's lexeme list -/
theorem InV.segment : ∀ {c v : DVal}, InV c v → ∃ pre more, itemsV v = pre ++ itemsV c ++ more
  | _, _, .here c => ⟨[], [], by simp⟩
  | _, _, .inside (g := g) (gc := gc) (ms := ms) h => by
    obtain ⟨pre, more, e⟩ := InM.segment h
    exact ⟨(g, .open_) :: pre, more ++ [(gc, .close)], by simp [itemsV, e]⟩
theorem InM.segment : ∀ {c : DVal} {ms : DMembers}, InM c ms → ∃ pre more, itemsM ms = pre ++ itemsV c ++ more
  | _, _, .fieldVal (g0 := g0) (g1 := g1) (key := key) (kq := kq) (o := o) (rest := rest) h => by
    obtain ⟨pre, more, e⟩ := InV.segment h
    exact ⟨(g0, .scalar kq key) :: (g1, .op o) :: pre, more ++ itemsM rest, by simp [itemsM, e]⟩
  | _, _, .fieldRest (v := v) (g0 := g0) (g1 := g1) (key := key) (kq := kq) (o := o) h => by
    obtain ⟨pre, more, e⟩ := InM.segment h
    exact ⟨(g0, .scalar kq key) :: (g1, .op o) :: (itemsV v ++ pre), more, by simp [itemsM, e]⟩
  | _, _, .elemVal (rest := rest) h => by
    obtain ⟨pre, more, e⟩ := InV.segment h
    exact ⟨pre, more ++ itemsM rest, by simp [itemsM, e]⟩
  | _, _, .elemRest (v := v) h => by
    obtain ⟨pre, more, e⟩ := InM.segment h
    exact ⟨itemsV v ++ pre, more, by simp [itemsM, e]⟩
end

/-- the readers the theorem is about: the slice reader, or a `Read`-backed reader with a buffer larger than the input
and a fault-free schedule (read sizes ≥ 1) -/
def GoodStart (data : Bytes) (r0 : Reader) : Prop :=
  r0 = fromSlice data ∨ ∃ cap sched, data.length < cap ∧ WfSched sched ∧ NoFaults sched ∧ r0 = fromReader cap sched data

theorem GoodStart.rel {data : Bytes} {r0 : Reader} (h : GoodStart data r0) :
    Rel r0 0 .unknown data ∧ (r0.cap = 0 ∨ data.length < r0.cap) ∧ NoFaults r0.src.sched := by
  rcases h with rfl | ⟨cap, sched, hc, hw, hnf, rfl⟩
  · exact ⟨⟨rfl, rfl, by simp [fromSlice], by intro x hx; simp [fromSlice] at hx, fun _ => rfl⟩,
      Or.inl rfl, by intro x hx; simp [fromSlice] at hx⟩
  · exact ⟨⟨rfl, rfl, by simp [fromReader], hw, by intro h; simp [fromReader] at h; omega⟩,
      Or.inr (by simpa [fromReader] using hc), by simpa [fromReader] using hnf⟩

/-- a buffer larger than the remaining input holds whatever the calls need -/
theorem Good.of_large {n : Nat} {r : Reader} {pos : Nat} {bom : Bom} {d : Bytes}
    (h : r.cap = 0 ∨ (3 ≤ r.cap ∧ d.length < r.cap)) (hnf : NoFaults r.src.sched) : Good n r pos bom d := by
  refine ⟨?_, hnf⟩
  rcases h with h | ⟨h3, hl⟩
  · exact Or.inl h
  · right; exact ⟨h3, by have := needFrom_le n pos bom d; omega⟩

/-- a rendering with a container holds its two braces and what follows the container -/
theorem renderLex_container_length (pre mid more : List (Bytes × Lexeme)) (g gc gt : Bytes) :
    (renderLex more gt).length + 2 ≤ (renderLex (pre ++ (g, Lexeme.open_) :: (mid ++ (gc, Lexeme.close) :: more)) gt).length := by
  have h1 := renderLex_mid_length pre (g, Lexeme.open_) (mid ++ (gc, Lexeme.close) :: more) gt
  have h2 := renderLex_mid_length mid (gc, Lexeme.close) more gt
  simp only [Lexeme.text, List.length_singleton] at h1 h2
  omega

/-- **C09 (text): `skip_container` ends exactly behind the container's matching close.**  Let `doc` be a document (fields,
array elements, containers nested to any depth) rendered under a valid reader-safe layout (`ValidM`; gaps of blanks and
complete comments, optional BOM).  Quoted scalars may contain braces, `#`, escaped quotes; comments may contain anything;
unquoted scalars of the skipped container must not contain `"` (`skipSafeTok`; `{ } #` are excluded by validity).  For
every container `{ ms }` of the document — every way its lexemes `itemsV (.cont g ms gc)` sit in the document's lexeme
list as `pre ++ … ++ more` —: reading the `pre` tokens and the `Open` token, then calling `skip_container`, then reading
on, yields exactly the tokens of `more`, a clean end, at the end of the input.  This holds for the slice reader and for
every fault-free read schedule with a buffer larger than the input. -/
theorem text_skip_matching_close (doc ms : DMembers) (g gc gt : Bytes) (b : Bool) (pre more : List (Bytes × Lexeme))
    (r0 : Reader) (f n : Nat)
    (hocc : itemsM doc = pre ++ itemsV (.cont g ms gc) ++ more)
    (hv : ValidM doc gt) (hgt : EndGap gt) (hsafe : ∀ it ∈ itemsM ms, skipSafeTok it.2.tok = true)
    (hclash : b = false → ¬∃ r', renderM doc ++ gt = 0xef :: 0xbb :: 0xbf :: r')
    (hr0 : GoodStart (bomBytes b ++ (renderM doc ++ gt)) r0)
    (hf : 2 * (bomBytes b ++ (renderM doc ++ gt)).length + 4 ≤ f) (hn : more.length + 1 ≤ n) :
    ∃ run, skipAt f n pre.length r0 = some (pre.map (fun x => x.2.tok), run) ∧
      run.toks = more.map (fun x => x.2.tok) ∧ run.out = .end_ ∧
      run.final.position = (bomBytes b ++ (renderM doc ++ gt)).length := by
  have hr : renderLex (itemsM doc) gt = renderM doc ++ gt := renderLex_itemsM doc gt
  have hvl : ValidLex (itemsM doc) gt := by
    have := validLex_itemsM doc [] gt (by simpa [renderLex] using hv) (by simpa [ValidLex] using hgt)
    simpa using this
  have hitems : itemsM doc = pre ++ (g, Lexeme.open_) :: (itemsM ms ++ (gc, Lexeme.close) :: more) := by
    rw [hocc]; simp [itemsV]
  rw [← hr, hitems] at hr0 hf hclash ⊢
  rw [hitems] at hvl
  obtain ⟨hrel, hcapL, hnf⟩ := hr0.rel
  have hlen := renderLex_container_length pre (itemsM ms) more g gc gt
  simp only [List.length_append] at hcapL
  refine skipAt_items b pre more g gc gt ms r0 f n hvl hsafe hclash hrel
    (Good.of_large (by rcases hcapL with h | h; exact Or.inl h; right; simp only [List.length_append]; omega) hnf) ?_ hf hn
  rcases hcapL with h | h
  · exact Or.inl h
  · right
    have := needFrom_le (more.length + 1) ((bomBytes b ++ renderLex (pre ++ (g, Lexeme.open_) :: (itemsM ms ++ (gc, Lexeme.close) :: more)) gt).length - (renderLex more gt).length) .notPresent (renderLex more gt)
    omega

end Jomini.TextReader

namespace Jomini.TextReader
open Jomini Jomini.TextReader.Spec

/-! ### skip_unquoted_value behind a header scalar -/

/-- what the op `tskipu` does: read `k` tokens, read one more which must be an unquoted scalar, call
`skip_unquoted_value`, then read tokens to the end -/
def skipUAt (fuel n k : Nat) (r : Reader) : Option (List Token × Token × Run) :=
  match readToks fuel k r with
  | some (ts, r1) =>
    match next fuel r1 with
    | .ok r2 (some (.unquoted hb)) =>
      match skipUnquotedValue fuel r2 with
      | .ok r3 () => some (ts, .unquoted hb, lexAll fuel n r3 [])
      | _ => none
    | _ => none
  | none => none

theorem skipUScan_blanks (g rest : Bytes) (i : Nat) (h : ∀ x ∈ g, isBlank x = true) :
    skipUScan (g ++ 123 :: rest) i = .open_ (i + g.length) := by
  induction g generalizing i with
  | nil => simp [skipUScan]
  | cons c g ih =>
    have hc := h c (by simp)
    have hne : (c == 123) = false := by
      cases hcc : c == 123 with
      | false => rfl
      | true => rw [eq_of_beq hcc] at hc; simp [isBlank] at hc
    simp only [List.cons_append, skipUScan, hne, Bool.false_eq_true, if_false, hc, if_true]
    rw [ih _ (fun x hx => h x (by simp [hx]))]; simp; omega

/-- **lexeme level**: `pre ++ header ++ g ++ { ms } ++ more` with ONLY BLANKS in the gap `g` between the header scalar
and the brace: `skip_unquoted_value` called right after the header lands behind the matching close. -/
theorem skipUAt_items (b : Bool) (pre more : List (Bytes × Lexeme)) (g0 hb g gc gt : Bytes) (ms : DMembers) (r0 : Reader) (f n : Nat) :
    let items := pre ++ (g0, Lexeme.scalar false hb) :: (g, Lexeme.open_) :: (itemsM ms ++ (gc, Lexeme.close) :: more)
    let data := bomBytes b ++ renderLex items gt
    ValidLex items gt → (∀ x ∈ g, isBlank x = true) → (∀ it ∈ itemsM ms, skipSafeTok it.2.tok = true) →
    (b = false → ¬∃ r', renderLex items gt = 0xef :: 0xbb :: 0xbf :: r') →
    Rel r0 0 .unknown data → Good (pre.length + 1) r0 0 .unknown data →
    (r0.cap = 0 ∨ needFrom (more.length + 1) (data.length - (renderLex more gt).length) .notPresent (renderLex more gt) ≤ r0.cap) →
    2 * data.length + 4 ≤ f → more.length + 1 ≤ n →
    ∃ run, skipUAt f n pre.length r0 = some (pre.map (fun x => x.2.tok), .unquoted hb, run) ∧
      run.toks = more.map (fun x => x.2.tok) ∧ run.out = .end_ ∧ run.final.position = data.length := by
  intro items data hv hblank hsafe hclash hrel hgood hafter hf hn
  have hs0 : ∃ bs, Skips ((0 : Nat) == 0) (bomBytes b) 0 .unknown bs := by
    cases b with
    | true => exact ⟨.present, .bom rfl (.nil _ _)⟩
    | false => exact ⟨.unknown, .nil _ _⟩
  obtain ⟨bs, hs0⟩ := hs0
  have hclash0 : (0 : Nat) = 0 → bomBytes b = [] → bs = .unknown → ¬∃ r', renderLex items gt = 0xef :: 0xbb :: 0xbf :: r' := by
    intro _ hb0 _
    cases b with
    | true => simp [bomBytes] at hb0
    | false => exact hclash rfl
  obtain ⟨r1, pos1, b1, pre1, bs1, hread, hr1, hs1, hcl1, hg1, hN1, hpos1, hcap1⟩ :=
    readToks_faithful data.length 1 gt ((g0, Lexeme.scalar false hb) :: (g, Lexeme.open_) :: (itemsM ms ++ (gc, Lexeme.close) :: more))
      pre (bomBytes b) r0 0 .unknown bs f (Or.inl hrel) hgood (Nat.le_refl _) hs0 hv hclash0 hf
  have hv1 := ValidLex_suffix _ _ _ hv
  obtain ⟨r2, b2, e2, hrelq2, _, hg2, hc2⟩ := next_item (m := 0) hr1 hg1 hN1 hs1 hv1 hcl1 hf
  simp only [Lexeme.text] at hrelq2
  have hv2 : ValidLex ((g, Lexeme.open_) :: (itemsM ms ++ (gc, Lexeme.close) :: more)) gt := by
    simp only [ValidLex] at hv1; exact hv1.2.2
  have hv3 : ValidLex (itemsM ms ++ (gc, Lexeme.close) :: more) gt := by simp only [ValidLex] at hv2; exact hv2.2.2
  have hhb : 0 < hb.length := by
    simp only [ValidLex] at hv1; have := lexeme_text_pos hv1.2.1; simpa [Lexeme.text] using this
  -- the data behind the header: blanks, the brace, the container's members
  have hD : renderLex ((g, Lexeme.open_) :: (itemsM ms ++ (gc, Lexeme.close) :: more)) gt =
      g ++ 123 :: renderLex (itemsM ms ++ (gc, Lexeme.close) :: more) gt := by simp [renderLex, Lexeme.text]
  rw [hD] at hrelq2
  -- with or without the swallowed space, the reader is `Rel`ated to blanks ++ `{` ++ members
  obtain ⟨pos', g', hrel2, hbl', hpg, hgle⟩ : ∃ pos' g', Rel r2 pos' b2 (g' ++ 123 :: renderLex (itemsM ms ++ (gc, Lexeme.close) :: more) gt) ∧
      (∀ x ∈ g', isBlank x = true) ∧ pos' + g'.length = pos1 + (pre1.length + g0.length + hb.length) + g.length ∧ g'.length ≤ g.length := by
    rcases hrelq2 with h | ⟨tl, htl, h⟩
    · exact ⟨_, g, h, hblank, rfl, Nat.le_refl _⟩
    · cases g with
      | nil => simp at htl
      | cons c g' =>
        simp only [List.cons_append, List.cons.injEq] at htl
        refine ⟨_, g', by rw [htl.2]; exact h, fun x hx => hblank x (by simp [hx]), by simp; omega, by simp⟩
  have hpos2 : pos' + g'.length + 1 ≠ 0 := by omega
  have hbal := balancedSkip_container ms gc more gt (pos' + g'.length + 1) b2 hpos2 hv3 hsafe
  have hD2 : (renderLex (itemsM ms ++ (gc, Lexeme.close) :: more) gt).length =
      (renderM ms).length + gc.length + 1 + (renderLex more gt).length := by
    rw [renderLex_append, renderLex_itemsM]; simp [renderLex, Lexeme.text]; omega
  have hdata2 : 2 ≤ data.length := by
    have h1 := renderLex_mid_length (pre ++ [(g0, Lexeme.scalar false hb)]) (g, Lexeme.open_) (itemsM ms ++ (gc, Lexeme.close) :: more) gt
    simp only [Lexeme.text, List.length_singleton, List.append_assoc, List.cons_append, List.nil_append] at h1
    show 2 ≤ (bomBytes b ++ renderLex items gt).length
    simp only [List.length_append]
    show 2 ≤ (bomBytes b).length + (renderLex (pre ++ (g0, Lexeme.scalar false hb) :: (g, Lexeme.open_) :: (itemsM ms ++ (gc, Lexeme.close) :: more)) gt).length
    omega
  have hcap2 : r2.cap = 0 ∨ 3 ≤ r2.cap := by
    rcases hg2.1 with h | ⟨h, _⟩
    · exact Or.inl h
    · exact Or.inr h
  have hD1 : (pre1 ++ renderLex ((g0, Lexeme.scalar false hb) :: (g, Lexeme.open_) :: (itemsM ms ++ (gc, Lexeme.close) :: more)) gt).length =
      pre1.length + g0.length + hb.length + g.length + 1 + (renderLex (itemsM ms ++ (gc, Lexeme.close) :: more) gt).length := by
    simp [renderLex, Lexeme.text]; omega
  have hdle : (g' ++ 123 :: renderLex (itemsM ms ++ (gc, Lexeme.close) :: more) gt).length ≤ data.length := by
    rw [hD1] at hN1; simp only [List.length_append, List.length_cons]; omega
  have hsu := C09_text_skipu r2 pos' b2 _ ((itemsM ms).length + 1) f hrel2 hg2.2 hcap2 (by have := hrel2.rest_le; omega)
  unfold SkipUOut at hsu
  rw [skipUScan_blanks g' _ 0 hbl'] at hsu
  simp only [Nat.zero_add] at hsu
  have hdrop1 : (g' ++ 123 :: renderLex (itemsM ms ++ (gc, Lexeme.close) :: more) gt).drop (g'.length + 1) =
      renderLex (itemsM ms ++ (gc, Lexeme.close) :: more) gt := by
    rw [show g'.length + 1 = (g' ++ [123]).length by simp, show g' ++ 123 :: renderLex (itemsM ms ++ (gc, Lexeme.close) :: more) gt = (g' ++ [123]) ++ renderLex (itemsM ms ++ (gc, Lexeme.close) :: more) gt by simp, List.drop_left]
  obtain ⟨r3, e3, hrel3⟩ := hsu _ (by rw [hdrop1]; exact hbal)
  have hdrop3 : (g' ++ 123 :: renderLex (itemsM ms ++ (gc, Lexeme.close) :: more) gt).drop (g'.length + 1 + ((renderM ms).length + gc.length + 1)) = renderLex more gt := by
    rw [← List.drop_drop, hdrop1, renderLex_append]
    have hL : (renderLex (itemsM ms) []).length = (renderM ms).length := by rw [renderLex_itemsM]; simp
    rw [show (renderM ms).length + gc.length + 1 = (renderLex (itemsM ms) []).length + (gc.length + 1) by omega,
      ← List.drop_drop, renderLex_drop]
    simp only [renderLex, Lexeme.text]
    rw [show gc.length + 1 = (gc ++ [125]).length by simp, ← List.append_assoc, List.drop_left]
  rw [hdrop3] at hrel3
  have hdl0 : data.length = (bomBytes b ++ renderLex (pre ++ (g0, Lexeme.scalar false hb) :: (g, Lexeme.open_) :: (itemsM ms ++ (gc, Lexeme.close) :: more)) gt).length := rfl
  have hpos3 : pos' + g'.length + 1 + ((renderM ms).length + gc.length + 1) = data.length - (renderLex more gt).length := by
    have := hpos1
    rw [hdl0]
    simp only [List.length_append, Nat.zero_add] at this hD1 ⊢
    rw [hD1, hD2] at this
    omega
  have hg3 : Good (more.length + 1) r3 (pos' + g'.length + 1 + ((renderM ms).length + gc.length + 1)) b2 ([] ++ renderLex more gt) := by
    have h1 := skipUnquotedValue_inv NoFaults_closed f r2 hg2.2
    have h2 := skipUnquotedValue_inv (Cap_closed r2.cap) f r2 rfl
    rw [e3] at h1 h2
    have hcap30 : r3.cap = r0.cap := by rw [show r3.cap = r2.cap from h2, hc2, hcap1]
    refine ⟨?_, h1⟩
    rw [hcap30]
    rcases hgood.1 with h0 | ⟨h3, _⟩
    · exact Or.inl h0
    · right
      refine ⟨h3, ?_⟩
      rcases hafter with h0 | ha
      · omega
      · rw [hpos3, List.nil_append, needFrom_bom _ _ b2 .notPresent _ (by omega)]
        exact ha
  have hfin := lexAll_faithful_good data.length gt more [] r3 _ b2 b2 f n [] (by simp only [List.nil_append]; exact Or.inl hrel3) hg3
    (by simp only [List.nil_append]; omega) (.nil _ _) (ValidLex_suffix _ _ _ hv3 |> fun h => by simp only [ValidLex] at h; exact h.2.2)
    (fun h => absurd h (by omega)) hn hf
  obtain ⟨t1, t2, t3⟩ := hfin
  refine ⟨lexAll f n r3 [], ?_, by simpa using t1, t2, ?_⟩
  · simp only [skipUAt, hread, e2, Lexeme.tok, e3]
  · rw [t3]
    have hdl : data.length = (bomBytes b ++ renderLex (pre ++ (g0, Lexeme.scalar false hb) :: (g, Lexeme.open_) :: (itemsM ms ++ (gc, Lexeme.close) :: more)) gt).length := rfl
    rw [hdl]
    simp only [List.nil_append, List.length_append, Nat.zero_add] at hpos1 hD1 ⊢
    rw [hD1, hD2] at hpos1
    omega

end Jomini.TextReader

namespace Jomini.TextReader
open Jomini Jomini.TextReader.Spec

/-! ### the buffer a skip needs -/

/-- **what the buffer must hold for "read `k` tokens, one more, skip, read `m` tokens to the end"**: three bytes for the
skip itself (it discards what it has scanned; across a refill it carries at most a backslash and the byte behind it), what
the `k + 1` calls in front of the skip need, and what the calls behind the skipped part — over the remaining input `after`
— need.  Nothing inside the skipped container counts: tokens, strings and comments of any length are skipped with a
three-byte buffer. -/
def skipNeed (k m : Nat) (data after : Bytes) : Nat :=
  max 3 (max (needFrom (k + 1) 0 .unknown data) (needFrom (m + 1) (data.length - after.length) .notPresent after))

/-- the readers the skip theorems are about: the slice reader, or a `Read`-backed reader whose buffer holds `skipNeed`
bytes, under a fault-free schedule (read sizes ≥ 1) -/
def SkipStart (k m : Nat) (data after : Bytes) (r0 : Reader) : Prop :=
  r0 = fromSlice data ∨
  ∃ cap sched, skipNeed k m data after ≤ cap ∧ WfSched sched ∧ NoFaults sched ∧ r0 = fromReader cap sched data

theorem SkipStart.rel {k m : Nat} {data after : Bytes} {r0 : Reader} (h : SkipStart k m data after r0) :
    Rel r0 0 .unknown data ∧ Good (k + 1) r0 0 .unknown data ∧
    (r0.cap = 0 ∨ needFrom (m + 1) (data.length - after.length) .notPresent after ≤ r0.cap) := by
  rcases h with rfl | ⟨cap, sched, hc, hw, hnf, rfl⟩
  · exact ⟨⟨rfl, rfl, by simp [fromSlice], by intro x hx; simp [fromSlice] at hx, fun _ => rfl⟩,
      ⟨Or.inl rfl, by intro x hx; simp [fromSlice] at hx⟩, Or.inl rfl⟩
  · unfold skipNeed at hc
    have h3 : 3 ≤ cap := by omega
    exact ⟨⟨rfl, rfl, by simp [fromReader], hw, by intro h; simp [fromReader] at h; omega⟩,
      ⟨Or.inr ⟨by simpa [fromReader] using h3, by simp only [fromReader]; omega⟩, by simpa [fromReader] using hnf⟩,
      Or.inr (by simp only [fromReader]; omega)⟩

/-- a buffer larger than the input is large enough -/
theorem GoodStart.skipStart {k m : Nat} {data after : Bytes} {r0 : Reader} (h : GoodStart data r0) (h2 : 2 ≤ data.length)
    (hle : after.length ≤ data.length) : SkipStart k m data after r0 := by
  rcases h with rfl | ⟨cap, sched, hc, hw, hnf, rfl⟩
  · exact Or.inl rfl
  · refine Or.inr ⟨cap, sched, ?_, hw, hnf, rfl⟩
    unfold skipNeed
    have h1 := needFrom_le (k + 1) 0 .unknown data
    have h2 := needFrom_le (m + 1) (data.length - after.length) .notPresent after
    omega

/-- one token of the reference: what the later calls need is part of what all the calls need -/
theorem needFrom_item {gt pre g : Bytes} {lx : Lexeme} {rest : List (Bytes × Lexeme)} {pos : Nat} {bom bom_s : Bom} (n : Nat)
    (hs : Skips (pos == 0) pre 0 bom bom_s) (hv : ValidLex ((g, lx) :: rest) gt)
    (hclash : pos = 0 → pre = [] → bom_s = .unknown → ¬∃ r', renderLex ((g, lx) :: rest) gt = 0xef :: 0xbb :: 0xbf :: r') :
    ∃ b', needFrom n (pos + (pre.length + g.length + lx.text.length)) b' (renderLex rest gt) ≤
      needFrom (n + 1) pos bom (pre ++ renderLex ((g, lx) :: rest) gt) := by
  simp only [ValidLex] at hv
  obtain ⟨hg, hlv, _⟩ := hv
  have hall := hs.append (hg.skips (pos == 0) (0 + pre.length) bom_s)
  have hd : pre ++ renderLex ((g, lx) :: rest) gt = (pre ++ g) ++ (lx.text ++ renderLex rest gt) := by simp [renderLex]
  obtain ⟨b', hsp⟩ := specStep_lexeme lx hall hlv (by
    rintro ⟨hp, hpg, hb, r', hr'⟩
    have hpre : pre = [] := by cases pre with | nil => rfl | cons _ _ => simp at hpg
    have hg0 : g = [] := by subst hpre; simpa using hpg
    refine hclash (by simpa using hp) hpre hb ⟨r', ?_⟩
    subst hg0; simpa [renderLex] using hr')
  rw [← hd] at hsp
  have hdrop : (pre ++ renderLex ((g, lx) :: rest) gt).drop ((pre ++ g).length + lx.text.length) = renderLex rest gt := by
    rw [hd, ← List.append_assoc]
    have : (pre ++ g).length + lx.text.length = (pre ++ g ++ lx.text).length := by simp; omega
    rw [this, List.drop_left]
  have hlen : (pre ++ g).length + lx.text.length = pre.length + g.length + lx.text.length := by simp
  refine ⟨b', ?_⟩
  simp only [needFrom, hsp]
  rw [hdrop, hlen]
  exact Nat.le_max_right _ _

theorem needFrom_items (gt : Bytes) (rest : List (Bytes × Lexeme)) : ∀ (items : List (Bytes × Lexeme)) (pos : Nat) (bom : Bom) (n : Nat),
    ValidLex (items ++ rest) gt →
    (pos = 0 → bom = .unknown → ¬∃ r', renderLex (items ++ rest) gt = 0xef :: 0xbb :: 0xbf :: r') →
    ∃ b', needFrom n (pos + (renderLex items []).length) b' (renderLex rest gt) ≤
      needFrom (items.length + n) pos bom (renderLex (items ++ rest) gt) := by
  intro items
  induction items with
  | nil => intro pos bom n _ _; exact ⟨bom, by simp [renderLex]⟩
  | cons it items ih =>
    obtain ⟨g, lx⟩ := it
    intro pos bom n hv hclash
    simp only [List.cons_append] at hv hclash
    obtain ⟨b1, h1⟩ := needFrom_item (pre := []) (items.length + n) (.nil _ _) hv (fun hp _ hb => hclash hp hb)
    have htl : 0 < lx.text.length := lexeme_text_pos (by simp only [ValidLex] at hv; exact hv.2.1)
    obtain ⟨b2, h2⟩ := ih (pos + (([] : Bytes).length + g.length + lx.text.length)) b1 n (by simp only [ValidLex] at hv; exact hv.2.2)
      (fun h => absurd h (by omega))
    refine ⟨b2, ?_⟩
    simp only [List.nil_append, List.length_nil, Nat.zero_add] at h1 h2
    have e1 : pos + (renderLex ((g, lx) :: items) []).length = pos + (g.length + lx.text.length) + (renderLex items []).length := by
      simp [renderLex]; omega
    have e2 : ((g, lx) :: items).length + n = items.length + n + 1 := by simp; omega
    rw [e1, e2, List.cons_append]
    exact Nat.le_trans h2 h1

theorem items_le_length (gt : Bytes) : ∀ (items : List (Bytes × Lexeme)), ValidLex items gt →
    items.length ≤ (renderLex items gt).length := by
  intro items
  induction items with
  | nil => intro _; simp
  | cons it items ih =>
    obtain ⟨g, lx⟩ := it
    intro hv
    simp only [ValidLex] at hv
    have := lexeme_text_pos hv.2.1
    have := ih hv.2.2
    simp [renderLex]; omega

/-- **`skipNeed ≤ max 3 (need data)`**: a buffer of at least three bytes that is large enough for reading the whole input
token by token (`need`, the decidable fit predicate of C07) is large enough for skipping any part of it. -/
theorem skipNeed_le_need (b : Bool) (items1 more : List (Bytes × Lexeme)) (gt : Bytes) (k : Nat)
    (hv : ValidLex (items1 ++ more) gt) (hne : items1 ≠ []) (hk : k ≤ items1.length)
    (hclash : b = false → ¬∃ r', renderLex (items1 ++ more) gt = 0xef :: 0xbb :: 0xbf :: r') :
    skipNeed k more.length (bomBytes b ++ renderLex (items1 ++ more) gt) (renderLex more gt) ≤
      max 3 (need (bomBytes b ++ renderLex (items1 ++ more) gt)) := by
  obtain ⟨it, items1', rfl⟩ : ∃ it items1', items1 = it :: items1' := by
    cases items1 with
    | nil => exact absurd rfl hne
    | cons it t => exact ⟨it, t, rfl⟩
  obtain ⟨g, lx⟩ := it
  simp only [List.cons_append, List.length_cons] at hv hclash hk ⊢
  have hil := items_le_length gt ((g, lx) :: (items1' ++ more)) hv
  simp only [List.length_cons, List.length_append] at hil
  obtain ⟨data, hdata⟩ : ∃ data, data = bomBytes b ++ renderLex ((g, lx) :: (items1' ++ more)) gt := ⟨_, rfl⟩
  rw [← hdata]
  have hdl : (renderLex ((g, lx) :: (items1' ++ more)) gt).length ≤ data.length := by rw [hdata]; simp
  have hfu : items1'.length + (more.length + 1) + 1 ≤ fuelFor data := by simp [fuelFor]; omega
  unfold skipNeed need
  have h1 := needFrom_mono (k + 1) (fuelFor data) 0 .unknown data (by omega)
  -- the first item, behind the BOM if any; then the others
  have hs0 : ∃ bs, Skips ((0 : Nat) == 0) (bomBytes b) 0 .unknown bs := by
    cases b with
    | true => exact ⟨.present, .bom rfl (.nil _ _)⟩
    | false => exact ⟨.unknown, .nil _ _⟩
  obtain ⟨bs, hs0⟩ := hs0
  obtain ⟨b1, hstep1⟩ := needFrom_item (pos := 0) (items1'.length + (more.length + 1)) hs0 hv (by
    intro _ hb0 _
    cases b with
    | true => simp [bomBytes] at hb0
    | false => exact hclash rfl)
  rw [← hdata] at hstep1
  have htl : 0 < lx.text.length := lexeme_text_pos (by simp only [ValidLex] at hv; exact hv.2.1)
  obtain ⟨b2, hstep2⟩ := needFrom_items gt more items1' (0 + ((bomBytes b).length + g.length + lx.text.length)) b1 (more.length + 1)
    (by simp only [ValidLex] at hv; exact hv.2.2) (fun h => absurd h (by omega))
  have hpos : data.length - (renderLex more gt).length =
      0 + ((bomBytes b).length + g.length + lx.text.length) + (renderLex items1' []).length := by
    rw [hdata]
    simp only [renderLex, renderLex_append, List.length_append]
    have := renderLex_nil_length items1' (renderLex more gt)
    omega
  rw [hpos, needFrom_bom _ _ .notPresent b2 _ (by omega)]
  have h2 := needFrom_mono (items1'.length + (more.length + 1) + 1) (fuelFor data) 0 .unknown data hfu
  omega

/-- **`C09_text_skip_matching_close`**: on every valid reader-safe rendering of a document, for every container of it,
`skip_container` called right after the container's `Open` token ends exactly behind that container's matching close —
braces and `#` inside quoted scalars, escaped quotes, braces inside comments included —: the tokens read afterwards are the
document's tokens after the container, then a clean end at the end of the input.  For the slice reader and for EVERY
fault-free read schedule and every buffer capacity that holds `skipNeed`: three bytes, the tokens in front of the container
and the tokens behind it — the container's content, however long its tokens, strings and comments are, needs no room
(`C09_text_skipNeed_le_need`: in particular every capacity ≥ 3 with `need data ≤ cap`, and every capacity larger than the
input).

EXCLUSION `hsafe` (`skipSafeTok` on the members of the skipped container): no unquoted scalar containing `"`, no `@[…]`
expression containing `{ } " #`.  It is exactly the complement of two RECORDED FINDINGS (`C09_skipSafe_or_known`): on valid
documents with such a member the skip does not land behind the matching close — `C09_known_quote_in_unquoted_breaks`
(`a={ b"c } d`: `Err(Eof)`), `C09_known_interpolation_brace_breaks` (`a={ @[}] } d`: `Ok`, next token `]`) — on the model and
on the real code (oracle kinds `skip-quote-inside-unquoted`, `skip-brace-inside-interpolation`). -/
theorem C09_text_skip_matching_close (doc ms : DMembers) (g gc gt : Bytes) (b : Bool) (pre more : List (Bytes × Lexeme))
    (r0 : Reader) (f n : Nat)
    (hocc : itemsM doc = pre ++ itemsV (.cont g ms gc) ++ more)
    (hv : ValidM doc gt) (hgt : EndGap gt) (hsafe : ∀ it ∈ itemsM ms, skipSafeTok it.2.tok = true)
    (hclash : b = false → ¬∃ r', renderM doc ++ gt = 0xef :: 0xbb :: 0xbf :: r')
    (hr0 : SkipStart pre.length more.length (bomBytes b ++ (renderM doc ++ gt)) (renderLex more gt) r0)
    (hf : 2 * (bomBytes b ++ (renderM doc ++ gt)).length + 4 ≤ f) (hn : more.length + 1 ≤ n) :
    ∃ run, skipAt f n pre.length r0 = some (pre.map (fun x => x.2.tok), run) ∧
      run.toks = more.map (fun x => x.2.tok) ∧ run.out = .end_ ∧
      run.final.position = (bomBytes b ++ (renderM doc ++ gt)).length := by
  have hr : renderLex (itemsM doc) gt = renderM doc ++ gt := renderLex_itemsM doc gt
  have hvl : ValidLex (itemsM doc) gt := by
    have := validLex_itemsM doc [] gt (by simpa [renderLex] using hv) (by simpa [ValidLex] using hgt)
    simpa using this
  have hitems : itemsM doc = pre ++ (g, Lexeme.open_) :: (itemsM ms ++ (gc, Lexeme.close) :: more) := by
    rw [hocc]; simp [itemsV]
  rw [← hr, hitems] at hr0 hf hclash ⊢
  rw [hitems] at hvl
  obtain ⟨hrel, hgood, hafter⟩ := hr0.rel
  exact skipAt_items b pre more g gc gt ms r0 f n hvl hsafe hclash hrel hgood hafter hf hn

/-- every container that occurs in the document has such a decomposition (so the theorem applies to all of them) -/
theorem C09_text_container_segment {doc ms : DMembers} {g gc : Bytes} (h : InM (.cont g ms gc) doc) :
    ∃ pre more, itemsM doc = pre ++ itemsV (.cont g ms gc) ++ more := h.segment

/-- **`C09_text_skipNeed_le_need`**: for a rendered document split as `items1 ++ more` (the skip happens inside `items1`,
`k ≤ |items1|` tokens are read before it), `skipNeed ≤ max 3 (need data)`: every buffer of at least three bytes that fits
the input for reading (C07's `need`) fits it for skipping; and `need data ≤ |data| + 1`, so does every buffer larger than
the input. -/
theorem C09_text_skipNeed_le_need (doc : DMembers) (gt : Bytes) (b : Bool) (items1 more : List (Bytes × Lexeme)) (k : Nat)
    (hocc : itemsM doc = items1 ++ more) (hne : items1 ≠ []) (hk : k ≤ items1.length)
    (hv : ValidM doc gt) (hgt : EndGap gt)
    (hclash : b = false → ¬∃ r', renderM doc ++ gt = 0xef :: 0xbb :: 0xbf :: r') :
    skipNeed k more.length (bomBytes b ++ (renderM doc ++ gt)) (renderLex more gt) ≤
      max 3 (need (bomBytes b ++ (renderM doc ++ gt))) ∧
    need (bomBytes b ++ (renderM doc ++ gt)) ≤ (bomBytes b ++ (renderM doc ++ gt)).length + 1 := by
  have hr : renderLex (itemsM doc) gt = renderM doc ++ gt := renderLex_itemsM doc gt
  have hvl : ValidLex (itemsM doc) gt := by
    have := validLex_itemsM doc [] gt (by simpa [renderLex] using hv) (by simpa [ValidLex] using hgt)
    simpa using this
  refine ⟨?_, by unfold need; have := needFrom_le (fuelFor (bomBytes b ++ (renderM doc ++ gt))) 0 .unknown (bomBytes b ++ (renderM doc ++ gt)); omega⟩
  rw [← hr, hocc] at hclash ⊢
  rw [hocc] at hvl
  exact skipNeed_le_need b items1 more gt k hvl hne hk hclash

/-- **`C09_text_skipu_matching_close`**: `skip_unquoted_value` called right after an unquoted header scalar that is
followed — with ONLY BLANK bytes (space, tab, LF, CR, `;`) in between, the exact condition under which the code skips —
by a container: it ends exactly behind the container's matching close; the tokens read afterwards are the document's tokens
after the container.  Slice reader, and every fault-free schedule and buffer capacity that holds `skipNeed` (see
`C09_text_skip_matching_close`; same exclusion `hsafe` = the complement of the two recorded findings there).  (With a `#`
comment in the gap it does not: `C09_known_skipu_comment_breaks`.) -/
theorem C09_text_skipu_matching_close (doc ms : DMembers) (g0 hb g gc gt : Bytes) (b : Bool) (pre more : List (Bytes × Lexeme))
    (r0 : Reader) (f n : Nat)
    (hocc : itemsM doc = pre ++ (g0, Lexeme.scalar false hb) :: (itemsV (.cont g ms gc) ++ more))
    (hblank : ∀ x ∈ g, isBlank x = true)
    (hv : ValidM doc gt) (hgt : EndGap gt) (hsafe : ∀ it ∈ itemsM ms, skipSafeTok it.2.tok = true)
    (hclash : b = false → ¬∃ r', renderM doc ++ gt = 0xef :: 0xbb :: 0xbf :: r')
    (hr0 : SkipStart pre.length more.length (bomBytes b ++ (renderM doc ++ gt)) (renderLex more gt) r0)
    (hf : 2 * (bomBytes b ++ (renderM doc ++ gt)).length + 4 ≤ f) (hn : more.length + 1 ≤ n) :
    ∃ run, skipUAt f n pre.length r0 = some (pre.map (fun x => x.2.tok), .unquoted hb, run) ∧
      run.toks = more.map (fun x => x.2.tok) ∧ run.out = .end_ ∧
      run.final.position = (bomBytes b ++ (renderM doc ++ gt)).length := by
  have hr : renderLex (itemsM doc) gt = renderM doc ++ gt := renderLex_itemsM doc gt
  have hvl : ValidLex (itemsM doc) gt := by
    have := validLex_itemsM doc [] gt (by simpa [renderLex] using hv) (by simpa [ValidLex] using hgt)
    simpa using this
  have hitems : itemsM doc = pre ++ (g0, Lexeme.scalar false hb) :: (g, Lexeme.open_) :: (itemsM ms ++ (gc, Lexeme.close) :: more) := by
    rw [hocc]; simp [itemsV]
  rw [← hr, hitems] at hr0 hf hclash ⊢
  rw [hitems] at hvl
  obtain ⟨hrel, hgood, hafter⟩ := hr0.rel
  exact skipUAt_items b pre more g0 hb g gc gt ms r0 f n hvl hblank hsafe hclash hrel hgood hafter hf hn

-- the hypotheses are satisfiable with a small buffer: `a={ "long string here" } b`: three bytes suffice for the skip,
-- although reading the quoted scalar needs 17
example : skipNeed 2 1 [97, 61, 123, 32, 34, 108, 111, 110, 103, 32, 115, 116, 114, 105, 110, 103, 32, 104, 101, 114, 101, 34, 32, 125, 32, 98, 10]
    [32, 98, 10] = 3 ∧
    need [97, 61, 123, 32, 34, 108, 111, 110, 103, 32, 115, 116, 114, 105, 110, 103, 32, 104, 101, 114, 101, 34, 32, 125, 32, 98, 10] = 17 := by
  decide +kernel
-- the run with a 5-byte buffer, one byte per read
example : (skipAt 80 10 2 (fromReader 5 [.repeat_ 1]
    [97, 61, 123, 32, 34, 108, 111, 110, 103, 32, 115, 116, 114, 105, 110, 103, 32, 104, 101, 114, 101, 34, 32, 125, 32, 98, 10])).map
      (fun p => (p.1, p.2.toks, p.2.out)) = some ([.unquoted [97], .op .eq], [.unquoted [98]], .end_) := by
  decide +kernel

/-! ### what `skipSafeTok` excludes: exactly the two recorded findings -/

/-- shape A: an unquoted scalar that is not an `@[ … ]` expression and contains `"` -/
def QuoteInUnquoted (lx : Lexeme) : Prop :=
  ∃ b, lx = .scalar false b ∧ 34 ∈ b ∧ ∀ x ∈ b, isBoundary x = false

/-- shape B: an `@[ … ]` expression whose body contains `{`, `}`, `"` or `#` -/
def SpecialInInterpolation (lx : Lexeme) : Prop :=
  ∃ body, lx = .scalar false (64 :: 91 :: (body ++ [93])) ∧ ∃ x ∈ body, skipSpecial x = true

/-- **`C09_skipSafe_or_known`: `skipSafeTok` is exactly the complement of the two recorded findings.**  Every lexeme of a
valid layout (extended validity: `@variable`s and `@[ … ]` included) is skip-safe, or it is an unquoted scalar containing `"`
(finding `skip-quote-inside-unquoted`), or an `@[ … ]` expression containing `{`, `}`, `"` or `#` (finding
`skip-brace-inside-interpolation`) — and the latter two are not skip-safe. -/
theorem C09_skipSafe_or_known (lx : Lexeme) (after : Bytes) (hv : lx.ValidX after) :
    (skipSafeTok lx.tok = true ∧ ¬QuoteInUnquoted lx ∧ ¬SpecialInInterpolation lx) ∨
    (skipSafeTok lx.tok = false ∧ (QuoteInUnquoted lx ∨ SpecialInInterpolation lx)) := by
  have hspec : ∀ x : UInt8, isBoundary x = false → (x == 34) = false → skipSpecial x = false := by
    intro x hb h34
    unfold skipSpecial
    have h1 : (x == 123) = false := by
      cases h : x == 123 with | false => rfl | true => rw [eq_of_beq h] at hb; simp [isBoundary] at hb
    have h2 : (x == 125) = false := by
      cases h : x == 125 with | false => rfl | true => rw [eq_of_beq h] at hb; simp [isBoundary] at hb
    have h3 : (x == 35) = false := by
      cases h : x == 35 with | false => rfl | true => rw [eq_of_beq h] at hb; simp [isBoundary] at hb
    simp [h1, h2, h3, h34]
  -- an unquoted scalar without boundary bytes
  have plain : ∀ b : Bytes, (∀ x ∈ b, isBoundary x = false) →
      (skipSafeTok (Lexeme.scalar false b).tok = true ∧ ¬QuoteInUnquoted (.scalar false b) ∧ ¬SpecialInInterpolation (.scalar false b)) ∨
      (skipSafeTok (Lexeme.scalar false b).tok = false ∧ (QuoteInUnquoted (.scalar false b) ∨ SpecialInInterpolation (.scalar false b))) := by
    intro b hnb
    have hnoB : ¬SpecialInInterpolation (.scalar false b) := by
      rintro ⟨body, he, _⟩
      simp only [Lexeme.scalar.injEq, true_and] at he
      have := hnb 91 (by rw [he]; simp)
      simp [isBoundary] at this
    by_cases hq : 34 ∈ b
    · right
      refine ⟨?_, Or.inl ⟨b, rfl, hq, hnb⟩⟩
      simp only [Lexeme.tok, skipSafeTok]
      rw [Bool.eq_false_iff]
      intro hall
      rw [List.all_eq_true] at hall
      have := hall 34 hq
      simp [skipSpecial] at this
    · left
      refine ⟨?_, ?_, hnoB⟩
      · simp only [Lexeme.tok, skipSafeTok, List.all_eq_true]
        intro x hx
        have h34 : (x == 34) = false := by
          cases h : x == 34 with | false => rfl | true => rw [eq_of_beq h] at hx; exact absurd hx hq
        simp [hspec x (hnb x hx) h34]
      · rintro ⟨b', he, hq', _⟩
        simp only [Lexeme.scalar.injEq, true_and] at he
        subst he; exact hq hq'
  cases lx with
  | open_ => left; exact ⟨rfl, by rintro ⟨b, h, _⟩; simp at h, by rintro ⟨b, h, _⟩; simp at h⟩
  | close => left; exact ⟨rfl, by rintro ⟨b, h, _⟩; simp at h, by rintro ⟨b, h, _⟩; simp at h⟩
  | op o => left; exact ⟨rfl, by rintro ⟨b, h, _⟩; simp at h, by rintro ⟨b, h, _⟩; simp at h⟩
  | scalar q b =>
    cases q with
    | true => left; exact ⟨rfl, by rintro ⟨b, h, _⟩; simp at h, by rintro ⟨b, h, _⟩; simp at h⟩
    | false =>
      rcases hv with hv | ⟨⟨d, r, rfl, hnb⟩, _⟩ | ⟨body, rfl, hbody⟩
      · simp only [Lexeme.Valid] at hv
        exact plain b hv.1
      · refine plain (64 :: d :: r) ?_
        intro x hx
        simp only [List.mem_cons] at hx
        rcases hx with rfl | hx
        · decide
        · exact hnb x (by simpa using hx)
      · -- `@[ body ]`
        have hnoA : ¬QuoteInUnquoted (.scalar false (64 :: 91 :: (body ++ [93]))) := by
          rintro ⟨b', he, _, hnb⟩
          simp only [Lexeme.scalar.injEq, true_and] at he
          have := hnb 91 (by rw [← he]; simp)
          simp [isBoundary] at this
        by_cases hs : ∃ x ∈ body, skipSpecial x = true
        · right
          refine ⟨?_, Or.inr ⟨body, rfl, hs⟩⟩
          obtain ⟨x, hx, hsx⟩ := hs
          simp only [Lexeme.tok, skipSafeTok]
          rw [Bool.eq_false_iff]
          intro hall
          rw [List.all_eq_true] at hall
          have := hall x (by simp [hx])
          simp [hsx] at this
        · left
          refine ⟨?_, hnoA, ?_⟩
          · simp only [Lexeme.tok, skipSafeTok, List.all_eq_true]
            intro x hx
            simp only [List.mem_cons, List.mem_append, List.not_mem_nil, or_false] at hx
            rcases hx with rfl | rfl | hx | rfl
            · decide
            · decide
            · have : skipSpecial x = false := by
                cases h : skipSpecial x with | false => rfl | true => exact absurd ⟨x, hx, h⟩ hs
              simp [this]
            · decide
          · rintro ⟨body', he, hs'⟩
            simp only [Lexeme.scalar.injEq, true_and, List.cons.injEq] at he
            have : body = body' := List.append_cancel_right he
            subst this; exact hs hs'

/-- **the recorded finding `skip-quote-inside-unquoted`, on the model.**  Input `a={ b"c } d\n` (valid: `b"c` is ONE unquoted
scalar for `next`): after the tokens `a`, `=`, `{`, `skip_container` takes the `"` for the start of a quoted string and runs
to the end of the input: `Err(Eof)`; reading tokens and counting opens and closes lands on `d`. -/
theorem C09_known_quote_in_unquoted_breaks :
    let data : Bytes := [97, 61, 123, 32, 98, 34, 99, 32, 125, 32, 100, 10]
    (match readToks 60 3 (fromSlice data) with
     | some (_, r1) => (match skipContainer 60 r1 with | .err _ .eof => true | _ => false)
     | none => false) = true ∧
    (sliceTokens data).toks = [.unquoted [97], .op .eq, .open_, .unquoted [98, 34, 99], .close, .unquoted [100]] ∧
    (sliceTokens data).out = .end_ := by
  decide +kernel

/-- **the recorded finding `skip-brace-inside-interpolation`, on the model.**  Input `a={ @[}] } d\n` (valid: `@[}]` is ONE
unquoted scalar for `next`): after the tokens `a`, `=`, `{`, `skip_container` counts the `}` inside the expression, returns
`Ok` and lands inside the scalar — the next token is `]` —; reading tokens and counting lands on `d`. -/
theorem C09_known_interpolation_brace_breaks :
    let data : Bytes := [97, 61, 123, 32, 64, 91, 125, 93, 32, 125, 32, 100, 10]
    (match readToks 60 3 (fromSlice data) with
     | some (_, r1) =>
       match skipContainer 60 r1 with
       | .ok r2 () => (match next 60 r2 with | .ok _ (some t) => some t | _ => none)
       | _ => none
     | none => none) = some (Token.unquoted [93]) ∧
    (sliceTokens data).toks = [.unquoted [97], .op .eq, .open_, .unquoted [64, 91, 125, 93], .close, .unquoted [100]] ∧
    (sliceTokens data).out = .end_ := by
  decide +kernel

/-- **the recorded finding `skipu-comment-before-brace`, on the model.**  Input `a=rgb #k\\n{ 1 } b`: after the tokens `a`,
`=`, `rgb`, `skip_unquoted_value` returns `Ok` but has NOT skipped the container — the next token is `Open`, whereas
reading tokens and counting opens and closes from there lands on `b`. -/
theorem C09_known_skipu_comment_breaks :
    let data : Bytes := [97, 61, 114, 103, 98, 32, 35, 107, 10, 123, 32, 49, 32, 125, 32, 98]
    (match readToks 60 3 (fromSlice data) with
     | some (_, r1) =>
       match skipUnquotedValue 60 r1 with
       | .ok r2 () => match next 60 r2 with | .ok _ (some t) => some t | _ => none
       | _ => none
     | none => none) = some Token.open_ ∧
    (sliceTokens data).toks = [.unquoted [97], .op .eq, .unquoted [114, 103, 98], .open_, .unquoted [49], .close, .unquoted [98]] := by
  decide +kernel

end Jomini.TextReader
