import JominiModel.Spec.BinDocText
/- Helper lemmas for C10: decimal renderings read back (uses the C11 lemma toU64T2_allDigits). -/
import JominiModel.Proofs.Scalar
set_option linter.unusedSimpArgs false
namespace Jomini.BinDe
open Jomini Jomini.Scalar

theorem digitsAux_append (f n : Nat) (acc : Bytes) : digitsAux f n acc = digitsAux f n [] ++ acc := by
  induction f generalizing n acc with
  | zero => simp [digitsAux]
  | succ f ih =>
    simp only [digitsAux]
    split
    · simp
    · rw [ih (n / 10) (_ :: acc), ih (n / 10) [_]]; simp

theorem decFrom_append (xs ys : Bytes) (a : Nat) : decFrom (xs ++ ys) a = decFrom ys (decFrom xs a) := by
  induction xs generalizing a with
  | nil => simp [decFrom]
  | cons x xs ih => simp [decFrom, ih]

theorem digit_val (m : Nat) (h : m < 10) : digitVal (UInt8.ofNat (48 + m)) = m := by
  have : (48 + m) % 256 = 48 + m := Nat.mod_eq_of_lt (by omega)
  simp only [digitVal, UInt8.toNat_ofNat', this]; omega

theorem digit_isDigit (m : Nat) (h : m < 10) : isDigit (UInt8.ofNat (48 + m)) = true := by
  have : (48 + m) % 256 = 48 + m := Nat.mod_eq_of_lt (by omega)
  simp only [isDigit, UInt8.toNat_ofNat', this, Bool.and_eq_true, decide_eq_true_eq]; omega

theorem allDigits_append (xs ys : Bytes) : allDigits (xs ++ ys) = (allDigits xs && allDigits ys) := by
  simp [allDigits, List.all_append]

theorem digitsAux_val (f : Nat) : ∀ n, n < 10 ^ (f + 1) →
    decFrom (digitsAux (f + 1) n []) 0 = n ∧ allDigits (digitsAux (f + 1) n []) = true := by
  induction f with
  | zero =>
    intro n h
    have hlt : n < 10 := by simpa using h
    simp only [digitsAux, hlt, if_true]
    refine ⟨?_, ?_⟩
    · simp only [decFrom, digit_val n hlt]; omega
    · simp only [allDigits, List.all_cons, digit_isDigit n hlt, List.all_nil, Bool.and_self]
  | succ f ih =>
    intro n h
    by_cases hlt : n < 10
    · simp only [digitsAux, hlt, if_true]
      refine ⟨?_, ?_⟩
      · simp only [decFrom, digit_val n hlt]; omega
      · simp only [allDigits, List.all_cons, digit_isDigit n hlt, List.all_nil, Bool.and_self]
    · have hq : n / 10 < 10 ^ (f + 1) := by
        rw [Nat.pow_succ] at h
        exact Nat.div_lt_of_lt_mul (by omega)
      obtain ⟨h1, h2⟩ := ih (n / 10) hq
      have hm : n % 10 < 10 := Nat.mod_lt _ (by omega)
      have hu : digitsAux (f + 1 + 1) n [] = digitsAux (f + 1) (n / 10) [] ++ [UInt8.ofNat (48 + n % 10)] := by
        conv => lhs; unfold digitsAux
        simp only [hlt, if_false]
        exact digitsAux_append _ _ _
      rw [hu]
      refine ⟨?_, ?_⟩
      · rw [decFrom_append, h1]
        simp only [decFrom, digit_val _ hm]; omega
      · rw [allDigits_append, h2]
        simp only [allDigits, List.all_cons, digit_isDigit _ hm, List.all_nil, Bool.and_self]

theorem lt_pow10 (n : Nat) : n < 10 ^ (n + 1) := by
  induction n with
  | zero => simp
  | succ n ih => rw [Nat.pow_succ]; omega

/-- the decimal rendering of a natural number is all digits and reads back as that number. -/
theorem fmtNat_val (n : Nat) : decFrom (fmtNat n) 0 = n ∧ allDigits (fmtNat n) = true :=
  digitsAux_val n n (lt_pow10 n)

theorem fmtNat_ne_nil (n : Nat) : fmtNat n ≠ [] := by
  unfold fmtNat digitsAux
  split
  · simp
  · rw [digitsAux_append]; simp

/-- `to_u64` reads the decimal rendering of every u64 back. -/
theorem toU64_fmtNat (n : Nat) (h : n ≤ U64_MAX) : Scalar.toU64 (fmtNat n) = .ok n := by
  obtain ⟨h1, h2⟩ := fmtNat_val n
  cases hs : fmtNat n with
  | nil => exact absurd hs (fmtNat_ne_nil n)
  | cons c body =>
    rw [hs] at h1 h2
    simp only [allDigits, List.all_cons, Bool.and_eq_true] at h2
    have hd : digitVal c ≤ U64_MAX := by
      have := c.toNat_lt
      simp only [digitVal, U64_MAX]; omega
    have hb : allDigits body = true := h2.2
    have hv : decFrom body (digitVal c) = n := by simpa [decFrom] using h1
    simp [Scalar.toU64, h2.1, toU64T2_allDigits body (digitVal c) hb hd, hv, h]

theorem toU64T2_fmtNat (n : Nat) (h : n ≤ U64_MAX) : toU64T2 (fmtNat n) 0 = .ok (n, []) := by
  obtain ⟨h1, h2⟩ := fmtNat_val n
  rw [toU64T2_allDigits (fmtNat n) 0 h2 (by simp [U64_MAX])]
  simp [h1, h]

/-- `to_i64` reads the decimal rendering of EVERY i64 back, `i64::MIN` included (the sign is applied to the
magnitude with `checked_sub_unsigned`, /repo 8327848; `Model/Scalar.lean` `toI64Go`). -/
theorem toI64_fmtInt (n : Int) (hlo : -(2 ^ 63 : Int) ≤ n) (hhi : n ≤ 2 ^ 63 - 1) : Scalar.toI64 (fmtInt n) = .ok n := by
  have hU : n.natAbs ≤ U64_MAX := by simp only [U64_MAX]; omega
  by_cases hneg : n < 0
  · have hv := toU64T2_fmtNat n.natAbs hU
    have h45 : isDigit 45 = false := by decide
    simp only [fmtInt, hneg, if_true, toI64, toI64T, h45, toI64Go, hv]
    have : ¬ n.natAbs > I64_MIN_ABS := by simp only [I64_MIN_ABS]; omega
    simp [this, requireEmpty]; omega
  · obtain ⟨h1, h2⟩ := fmtNat_val n.natAbs
    cases hs : fmtNat n.natAbs with
    | nil => exact absurd hs (fmtNat_ne_nil _)
    | cons c body =>
      rw [hs] at h1 h2
      simp only [allDigits, List.all_cons, Bool.and_eq_true] at h2
      have hd : digitVal c ≤ U64_MAX := by
        have := c.toNat_lt
        simp only [digitVal, U64_MAX]; omega
      have hv : decFrom body (digitVal c) = n.natAbs := by simpa [decFrom] using h1
      have hb : allDigits body = true := h2.2
      simp only [fmtInt, hneg, if_false, hs, toI64, toI64T, h2.1, if_true, toI64Go,
        toU64T2_allDigits body (digitVal c) hb hd, hv, hU]
      have : ¬ n.natAbs > I64_MAX := by simp only [I64_MAX]; omega
      simp [this, requireEmpty]; omega

/-- the range of `i64` -/
def inI64 (n : Int) : Bool := decide (-(2 ^ 63 : Int) ≤ n) && decide (n ≤ 2 ^ 63 - 1)

theorem toI64_fmtInt' (n : Int) (h : inI64 n = true) : Scalar.toI64 (fmtInt n) = .ok n := by
  simp only [inI64, Bool.and_eq_true, decide_eq_true_eq] at h
  exact toI64_fmtInt n h.1 h.2

end Jomini.BinDe
