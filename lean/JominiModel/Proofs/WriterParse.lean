import JominiModel.Proofs.WriterNested
/-
Nested-object documents, parser side: the text-tape model (`TextTape.parse`) on the text the writer
lays out for a nested-object document yields exactly the document's tokens.  New single-iteration
lemmas for `{` in value position, the first key of a container (ParseOpen with its peek at the
separator) and `}` in key position; the flat-document lemmas of `Proofs/TextTapeFaithful.lean` are
reused for keys, operators and scalar values.  The TextTape model files are not modified.
-/
namespace Jomini.WriterParse
open Jomini Jomini.Writer.Spec Jomini.TextTape

/-- closing a child of the current container returns to "expecting a key, not mixed" -/
def POk (st : St) : Prop :=
  st.parent < st.tape.length ∧ closeState st.tape[st.parent]? = (false, PState.key)

theorem POk.append {st : St} (h : POk st) (L : List Tok) (ps : PState) :
    POk { st with tape := st.tape ++ L, state := ps } := by
  obtain ⟨h1, h2⟩ := h
  refine ⟨by simp; omega, ?_⟩
  simp only [List.getElem?_append_left h1]
  exact h2

theorem blank_open : TextTape.isBlank 123 = false := by decide +kernel
theorem blank_close : TextTape.isBlank 125 = false := by decide +kernel

theorem step_val_open {n : Nat} {st : St} {g Y : Bytes} (hst : st.state = .objectValue) (hg : Blank g) :
    TextTape.step n st (g ++ (123 :: Y)) =
      .cont { st with tape := st.tape ++ [.array 0 false], state := .parseOpen } Y := by
  have hsk : TextTape.skipWs (123 :: Y) = some (123 :: Y) := by
    simp [TextTape.skipWs, TextTape.skipWsAux, blank_open]
  simp only [TextTape.step, TextTape.skipWs_blank hg, hsk, TextTape.stepAt, hst]
  simp [TextTape.stepObjectValue]

theorem step_key_close {n : Nat} {st : St} {g Y : Bytes} {gp : Nat} (hst : st.state = .key)
    (hm : st.mixed = false) (hg : Blank g) (hp0 : st.parent ≠ 0) (hpl : st.parent < st.tape.length)
    (hp : st.tape[st.parent]? = some (.object gp false))
    (hgp : closeState st.tape[gp]? = (false, PState.key)) :
    TextTape.step n st (g ++ (125 :: Y)) =
      .cont { state := .key, mixed := false, parent := gp,
              tape := (st.tape ++ [Tok.endTok st.parent]).set st.parent (.object st.tape.length false) } Y := by
  have hsk : TextTape.skipWs (125 :: Y) = some (125 :: Y) := by
    simp [TextTape.skipWs, TextTape.skipWsAux, blank_close]
  simp only [TextTape.step, TextTape.skipWs_blank hg, hsk, TextTape.stepAt, hst]
  have hset : setTok (st.tape ++ [Tok.endTok st.parent]) st.parent (.object st.tape.length false) =
      some ((st.tape ++ [Tok.endTok st.parent]).set st.parent (.object st.tape.length false)) := by
    simp only [setTok, List.length_append, List.length_singleton]
    rw [if_pos (by omega)]
  simp [TextTape.stepKey, hp, endOf, hgp, hp0, hm, hset]

theorem blank_sp' : isBlank 32 = true := by decide +kernel

theorem sepText_starts (o : TextTape.Op) (Y : Bytes) : StartsBoundary (sepText o ++ Y) := by
  right
  unfold sepText
  by_cases h : o = .eq
  · exact ⟨61, Y, by simp [h], bnd_eq⟩
  · exact ⟨32, o.text ++ [32] ++ Y, by simp [h], Writer.bnd_sp⟩

/-- what follows the separator once the blank in front of the operator is skipped -/
def afterSep (o : TextTape.Op) (Y : Bytes) : Bytes := o.text ++ ((if o = .eq then [] else [32]) ++ Y)

theorem skipWs_sepText (o : TextTape.Op) (Y : Bytes) : skipWs (sepText o ++ Y) = some (afterSep o Y) := by
  unfold sepText afterSep
  by_cases h : o = .eq
  · subst h
    simp [skipWs, skipWsAux, Op.text, blank_eq]
  · have := skipWs_op o ([32] ++ Y)
    simp only [h, if_false, List.append_assoc, List.cons_append, List.nil_append]
    simp only [skipWs, skipWsAux, blank_sp', if_true] at this ⊢
    simpa using this

theorem firstFieldPeek_afterSep (o : TextTape.Op) (Y : Bytes) : firstFieldPeek (afterSep o Y) = true := by
  cases o <;> simp [afterSep, Op.text, firstFieldPeek]

/-- the parser after `{` and the first key of a nested object: the placeholder is an object whose
`end` still holds the enclosing parent -/
def stAfterOpen (T0 : List Tok) (parent : Nat) (kt : Tok) : St :=
  { state := .kvs, mixed := false, parent := T0.length,
    tape := T0 ++ [Tok.object parent false, kt] }

theorem step_parseOpen_field {n : Nat} {st : St} {g Y : Bytes} {k : Scal} {o : TextTape.Op} {T0 : List Tok}
    (hst : st.state = .parseOpen) (hm : st.mixed = false) (hg : Blank g) (hk : k.Valid)
    (hT : st.tape = T0 ++ [Tok.array 0 false]) :
    step n st (g ++ (k.text ++ (sepText o ++ Y))) =
      .cont (stAfterOpen T0 st.parent (k.tok (sepText o ++ Y))) (afterSep o Y) := by
  obtain ⟨c, r, htx, _, _, h125, h93, h123, h91, _, _, _⟩ := hk.head
  have hlex := lexValue_scal hk st.tape (sepText o ++ Y) (fun _ => sepText_starts o Y)
  simp only [step, skipWs_blank hg, skipWs_scal hk, stepAt, hst]
  rw [htx] at hlex ⊢
  simp only [List.cons_append] at hlex ⊢
  simp only [stepParseOpen, h125, h91, h123, if_false, hlex, hm, Bool.false_eq_true,
    skipWs_sepText, firstFieldPeek_afterSep, if_true]
  have hlen : ¬ ((st.tape ++ [k.tok (sepText o ++ Y)]).length < 2) := by rw [hT]; simp
  simp only [hlen, if_false]
  have hset : setTok (st.tape ++ [k.tok (sepText o ++ Y)]) ((st.tape ++ [k.tok (sepText o ++ Y)]).length - 2)
      (Tok.object st.parent false) = some (T0 ++ [Tok.object st.parent false, k.tok (sepText o ++ Y)]) := by
    rw [hT]
    simp [setTok]
  simp only [hset]
  rw [hT]; simp [stAfterOpen]

/-! ### documents -/

mutual
/-- parser iterations a value costs -/
def costV : NVal → Nat
  | .scal _ => 1
  | .obj _ _ v r => 4 + costV v + costF r
def costF : NFields → Nat
  | .nil => 0
  | .cons _ _ v r => 2 + costV v + costF r
end

theorem blank_ind (c : UInt8) (hc : isBlank c = true) (n : Nat) : Blank (List.replicate n c) := by
  induction n with
  | zero => exact .nil
  | succ n ih => rw [List.replicate_succ]; exact .ws c _ hc ih

theorem blank_nl_ind (c : UInt8) (hc : isBlank c = true) (f d : Nat) : Blank ([10] ++ ind c f d) :=
  .ws 10 _ (by decide +kernel) (blank_ind c hc _)

theorem textF_cons_app (c : UInt8) (f d : Nat) (k : SCall) (o : Option Writer.Op) (v : NVal) (r : NFields) (X : Bytes) :
    textF c f d (.cons k o v r) ++ X =
      ([10] ++ ind c f d) ++ (k.scal.text ++ (sepText (opOf o) ++ (textV c f d v ++ (textF c f d r ++ X)))) := by
  simp [textF, List.append_assoc]

theorem textV_obj_app (c : UInt8) (f d : Nat) (k : SCall) (o : Option Writer.Op) (v : NVal) (r : NFields) (X : Bytes) :
    textV c f d (.obj k o v r) ++ X =
      123 :: (([10] ++ ind c f (d + 1)) ++ (k.scal.text ++ (sepText (opOf o) ++ (textV c f (d + 1) v ++
        (textF c f (d + 1) r ++ (([10] ++ ind c f d) ++ (125 :: X))))))) := by
  simp [textV, List.append_assoc]

theorem startsBoundary_textF (c : UInt8) (f d : Nat) (r : NFields) (X : Bytes) (hX : StartsBoundary X) :
    StartsBoundary (textF c f d r ++ X) := by
  cases r with
  | nil => simpa [textF] using hX
  | cons k o v r' =>
    right
    rw [textF_cons_app]
    exact ⟨10, ind c f d ++ (k.scal.text ++ (sepText (opOf o) ++ (textV c f d v ++ (textF c f d r' ++ X)))),
      by simp, Writer.bnd_nl⟩

theorem startsBoundary_nl (Z : Bytes) : StartsBoundary (([10] ++ Z)) :=
  .inr ⟨10, Z, by simp, Writer.bnd_nl⟩

theorem textV_head (c : UInt8) (f d : Nat) (v : NVal) (hv : ValidV v) (X : Bytes) :
    (textV c f d v ++ X).head? ≠ some 61 := by
  cases v with
  | scal s =>
    simp only [Writer.Spec.ValidV] at hv
    obtain ⟨a, r, htx, _, _, _, _, _, _, h61, _⟩ := hv.head
    simp [textV, htx, h61]
  | obj k o v r => rw [textV_obj_app]; simp

/-- the gap the writer leaves on both sides of an operator other than `=` -/
def gapOf (o : TextTape.Op) : Bytes := if o = .eq then [] else [32]

theorem blank_gapOf (o : TextTape.Op) : Blank (gapOf o) := by
  unfold gapOf; split
  · exact .nil
  · exact Writer.blank_sp

theorem sepText_split (o : TextTape.Op) (Z : Bytes) : sepText o ++ Z = gapOf o ++ (o.text ++ (gapOf o ++ Z)) := by
  unfold sepText gapOf
  by_cases h : o = .eq
  · subst h; simp [Op.text]
  · simp [h]

theorem afterSep_split (o : TextTape.Op) (Z : Bytes) : afterSep o Z = [] ++ (o.text ++ (gapOf o ++ Z)) := rfl

theorem gap_head (o : TextTape.Op) (Z : Bytes) (hZ : Z.head? ≠ some 61) : (gapOf o ++ Z).head? ≠ some 61 := by
  unfold gapOf; split
  · simpa using hZ
  · simp

/-- what has to be shown about a value: from "expecting a value" the parser consumes exactly its
text and appends exactly its tokens -/
def PVstmt (c : UInt8) (f n : Nat) (v : NVal) : Prop :=
  ∀ (d : Nat) (st : St) (g X : Bytes) (fuel : Nat), st.state = .objectValue → st.mixed = false → POk st →
    Blank g → StartsBoundary X →
    ∃ toks, run n (fuel + costV v) st (g ++ (textV c f d v ++ X)) =
        run n fuel { st with state := .key, tape := st.tape ++ toks } X ∧
      toks.map Tok.erase = etoksV st.tape.length v

/-- operator and value of a field, from "key seen" -/
theorem rf_of_pv {c : UInt8} {f n : Nat} {v : NVal} (hpv : PVstmt c f n v) (hv : ValidV v) (o : TextTape.Op)
    (d : Nat) (st : St) (g1 X : Bytes) (fuel : Nat) (hst : st.state = .kvs) (hm : st.mixed = false)
    (hp : POk st) (hg1 : Blank g1) (hX : StartsBoundary X) :
    ∃ toks, run n (fuel + (1 + costV v)) st (g1 ++ (o.text ++ (gapOf o ++ (textV c f d v ++ X)))) =
        run n fuel { st with state := .key, tape := st.tape ++ toks } X ∧
      toks.map Tok.erase = o.toks ++ etoksV (st.tape.length + o.toks.length) v := by
  have hfuel : fuel + (1 + costV v) = (fuel + costV v) + 1 := by omega
  rw [hfuel, run_cont (step_kvs_op hst hm hg1 (gap_head o _ (textV_head c f d v hv X)))]
  obtain ⟨toks, hrun, her⟩ := hpv d { st with tape := st.tape ++ o.toks, state := .objectValue } (gapOf o) X fuel
    rfl hm (hp.append _ _) (blank_gapOf o) hX
  refine ⟨o.toks ++ toks, ?_, ?_⟩
  · rw [hrun]; simp [List.append_assoc]
  · rw [List.map_append, Op.toks_erase, her]; simp

theorem startsBoundary_nl2 (Z W : Bytes) : StartsBoundary (([10] ++ Z) ++ W) :=
  .inr ⟨10, Z ++ W, by simp, Writer.bnd_nl⟩

def PFstmt (c : UInt8) (f n : Nat) (fs : NFields) : Prop :=
  ∀ (d : Nat) (st : St) (X : Bytes) (fuel : Nat), st.state = .key → st.mixed = false → POk st →
    StartsBoundary X →
    ∃ toks, run n (fuel + costF fs) st (textF c f d fs ++ X) =
        run n fuel { st with tape := st.tape ++ toks } X ∧
      toks.map Tok.erase = etoksF st.tape.length fs

theorem erase_object (e : Nat) (m : Bool) : (Tok.object e m).erase = Tok.object e m := rfl
theorem erase_endTok (i : Nat) : (Tok.endTok i).erase = Tok.endTok i := rfl

theorem set_placeholder (T0 : List Tok) (x y e : Tok) (L : List Tok) :
    ((T0 ++ x :: L) ++ [e]).set T0.length y = T0 ++ (y :: L ++ [e]) := by
  induction T0 with
  | nil => simp
  | cons a T ih => simpa using ih

mutual
theorem pv (c : UInt8) (f n : Nat) (hc : isBlank c = true) : ∀ (v : NVal), ValidV v → PVstmt c f n v
  | .scal s, hv => by
    intro d st g X fuel hst hm hp hg hX
    simp only [Writer.Spec.ValidV] at hv
    refine ⟨[s.scal.tok X], ?_, ?_⟩
    · simp only [costV, textV]
      rw [run_cont (step_val_scal hst hg hv (fun _ => hX))]
    · simp [etoksV, Scal.tok_erase]
  | .obj k o v r, hv => by
    intro d st g X fuel hst hm hp hg hX
    simp only [Writer.Spec.ValidV] at hv
    obtain ⟨hk, hvv, hr⟩ := hv
    have hpv := pv c f n hc v hvv
    have hpf := pf c f n hc r hr
    have hfuel : fuel + costV (.obj k o v r) = ((((fuel + 1) + costF r) + (1 + costV v)) + 1) + 1 := by
      simp only [costV]; omega
    rw [hfuel, textV_obj_app]
    -- `{`
    rw [run_cont (step_val_open hst hg)]
    -- first key, peek at the separator
    rw [run_cont (step_parseOpen_field (st := { st with tape := st.tape ++ [Tok.array 0 false], state := .parseOpen })
      (T0 := st.tape) rfl hm (blank_nl_ind c hc f (d + 1)) hk rfl)]
    -- operator and value of the first field
    rw [afterSep_split]
    generalize hkt : k.scal.tok (sepText (opOf o) ++ (textV c f (d + 1) v ++ (textF c f (d + 1) r ++
      (([10] ++ ind c f d) ++ (125 :: X))))) = kt
    have hke : kt.erase = (k.scal.tok []).erase := by rw [← hkt]; exact Scal.tok_erase _ _
    simp only []
    have hp2 : POk (stAfterOpen st.tape st.parent kt) := by
      refine ⟨by simp [stAfterOpen], ?_⟩
      simp [stAfterOpen, closeState]
    obtain ⟨t1, hr1, he1⟩ := rf_of_pv hpv hvv (opOf o) (d + 1) (stAfterOpen st.tape st.parent kt) [] _ ((fuel + 1) + costF r)
      rfl rfl hp2 .nil
      (startsBoundary_textF c f (d + 1) r _ (startsBoundary_nl2 (ind c f d) (125 :: X)))
    rw [hr1]
    -- the other fields
    obtain ⟨t2, hr2, he2⟩ := hpf (d + 1) _ (([10] ++ ind c f d) ++ (125 :: X)) (fuel + 1) rfl rfl (hp2.append t1 .key)
      (startsBoundary_nl2 _ _)
    rw [hr2]
    -- `}`
    have hpl := hp.1
    have hclose := step_key_close (n := n) (g := [10] ++ ind c f d) (Y := X) (gp := st.parent)
      (st := { stAfterOpen st.tape st.parent kt with state := .key, tape := (stAfterOpen st.tape st.parent kt).tape ++ t1 ++ t2 })
      rfl rfl (blank_nl_ind c hc f d) (by simp only [stAfterOpen]; omega) (by simp [stAfterOpen])
      (by simp [stAfterOpen])
      (by simp only [stAfterOpen, List.append_assoc]; rw [List.getElem?_append_left hpl]; exact hp.2)
    have hfu : fuel + 1 = fuel + 1 := rfl
    rw [run_cont hclose]
    clear hclose hr1 hr2
    simp only [stAfterOpen] at he1 he2 ⊢
    -- bookkeeping of indices
    have hA1 : (st.tape ++ [Tok.object st.parent false, kt]).length + (opOf o).toks.length
        = st.tape.length + 1 + (1 + (opOf o).toks.length) := by simp; omega
    rw [hA1] at he1
    have hl1 : t1.length = (opOf o).toks.length + (etoksV (st.tape.length + 1 + (1 + (opOf o).toks.length)) v).length := by
      have := congrArg List.length he1
      simpa using this
    have hA2 : (st.tape ++ [Tok.object st.parent false, kt] ++ t1).length
        = st.tape.length + 1 + (1 + (opOf o).toks.length) +
          (etoksV (st.tape.length + 1 + (1 + (opOf o).toks.length)) v).length := by
      simp [hl1]; omega
    rw [hA2] at he2
    have hl2 : t2.length = (etoksF (st.tape.length + 1 + (1 + (opOf o).toks.length) +
        (etoksV (st.tape.length + 1 + (1 + (opOf o).toks.length)) v).length) r).length := by
      have := congrArg List.length he2
      simpa using this
    have hL : (st.tape ++ [Tok.object st.parent false, kt] ++ t1 ++ t2).length
        = st.tape.length + 1 + (etoksF (st.tape.length + 1) (.cons k o v r)).length := by
      simp [etoksF, hl1, hl2]; omega
    refine ⟨Tok.object (st.tape.length + 1 + (etoksF (st.tape.length + 1) (.cons k o v r)).length) false ::
      (kt :: (t1 ++ t2)) ++ [Tok.endTok st.tape.length], ?_, ?_⟩
    · have := set_placeholder st.tape (Tok.object st.parent false)
        (Tok.object (st.tape.length + 1 + (etoksF (st.tape.length + 1) (.cons k o v r)).length) false)
        (Tok.endTok st.tape.length) (kt :: (t1 ++ t2))
      rw [hL, hm]
      congr 2
      simpa [List.append_assoc] using this
    · simp [etoksV, etoksF, erase_object, erase_endTok, hke, he1, he2, List.append_assoc]
theorem pf (c : UInt8) (f n : Nat) (hc : isBlank c = true) : ∀ (fs : NFields), ValidF fs → PFstmt c f n fs
  | .nil, _ => by
    intro d st X fuel hst hm hp hX
    exact ⟨[], by simp [costF, textF], by simp [etoksF]⟩
  | .cons k o v r, hv => by
    intro d st X fuel hst hm hp hX
    simp only [Writer.Spec.ValidF] at hv
    obtain ⟨hk, hvv, hr⟩ := hv
    have hpv := pv c f n hc v hvv
    have hpf := pf c f n hc r hr
    have hfuel : fuel + costF (.cons k o v r) = ((fuel + costF r) + (1 + costV v)) + 1 := by
      simp only [costF]; omega
    rw [hfuel, textF_cons_app]
    -- key
    rw [run_cont (step_key_scal hst (blank_nl_ind c hc f d) hk (fun _ => sepText_starts (opOf o) _))]
    generalize hkt : k.scal.tok (sepText (opOf o) ++ (textV c f d v ++ (textF c f d r ++ X))) = kt
    have hke : kt.erase = (k.scal.tok []).erase := by rw [← hkt]; exact Scal.tok_erase _ _
    -- operator and value
    rw [sepText_split]
    obtain ⟨t1, hr1, he1⟩ := rf_of_pv hpv hvv (opOf o) d { st with tape := st.tape ++ [kt], state := .kvs }
      (gapOf (opOf o)) (textF c f d r ++ X) (fuel + costF r) rfl hm (hp.append [kt] .kvs) (blank_gapOf _)
      (startsBoundary_textF c f d r X hX)
    simp only [] at hr1
    rw [hr1]
    -- the other fields
    have hp3 : POk { st with state := .key, tape := st.tape ++ [kt] ++ t1 } := (hp.append [kt] .kvs).append t1 .key
    obtain ⟨t2, hr2, he2⟩ := hpf d { st with state := .key, tape := st.tape ++ [kt] ++ t1 } X fuel rfl hm hp3 hX
    rw [hr2]
    simp only [] at he1 he2 ⊢
    have hA1 : (st.tape ++ [kt]).length + (opOf o).toks.length = st.tape.length + (1 + (opOf o).toks.length) := by
      simp; omega
    rw [hA1] at he1
    have hl1 : t1.length = (opOf o).toks.length + (etoksV (st.tape.length + (1 + (opOf o).toks.length)) v).length := by
      have := congrArg List.length he1
      simpa using this
    have hA2 : (st.tape ++ [kt] ++ t1).length = st.tape.length + (1 + (opOf o).toks.length) +
        (etoksV (st.tape.length + (1 + (opOf o).toks.length)) v).length := by
      simp [hl1]; omega
    rw [hA2] at he2
    refine ⟨kt :: (t1 ++ t2), ?_, ?_⟩
    · simp [List.append_assoc, hst]
    · simp [etoksF, hke, he1, he2, List.append_assoc]
end

theorem sepText_len (o : TextTape.Op) : 1 ≤ (sepText o).length := by
  unfold sepText; split <;> simp

mutual
theorem costV_le (c : UInt8) (f : Nat) : ∀ (v : NVal) (d : Nat), costV v ≤ 2 * (textV c f d v).length + 1
  | .scal _, _ => by simp [costV]
  | .obj k o v r, d => by
    have h1 := costV_le c f v (d + 1)
    have h2 := costF_le c f r (d + 1)
    have h3 := sepText_len (opOf o)
    simp only [costV, textV, List.length_append, List.length_cons, List.length_nil]
    omega
theorem costF_le (c : UInt8) (f : Nat) : ∀ (fs : NFields) (d : Nat), costF fs ≤ 2 * (textF c f d fs).length
  | .nil, _ => by simp [costF]
  | .cons k o v r, d => by
    have h1 := costV_le c f v d
    have h2 := costF_le c f r d
    have h3 := sepText_len (opOf o)
    simp only [costF, textF, List.length_append, List.length_cons, List.length_nil]
    omega
end

theorem closeState_scal (s : Scal) (X : Bytes) : closeState (some (s.tok X)) = (false, PState.key) := by
  unfold Scal.tok; split <;> rfl

theorem ind_zero (c : UInt8) (f : Nat) : ind c f 0 = [] := by simp [ind]

/-- the text of a nested-object document parses to exactly its tokens -/
theorem parse_textRoot (c : UInt8) (f : Nat) (hc : isBlank c = true) (fs : NFields) (hv : ValidF fs)
    (hb : hasBom (textRoot c f fs) = false) :
    ∃ T, parse (textRoot c f fs) = .ok T false ∧ T.map Tok.erase = etoksF 0 fs := by
  cases fs with
  | nil =>
    refine ⟨[], ?_, by simp [etoksF]⟩
    simp [textRoot, textF, parse, hasBom, fuelFor, run, step, skipWs, skipWsAux, atEof, St.init, Res.withBom]
  | cons k o v r =>
    simp only [Writer.Spec.ValidF] at hv
    obtain ⟨hk, hvv, hr⟩ := hv
    have htext : textRoot c f (.cons k o v r) =
        [] ++ (k.scal.text ++ (sepText (opOf o) ++ (textV c f 0 v ++ (textF c f 0 r ++ [])))) := by
      simp [textRoot, textF, ind_zero, List.append_assoc]
    have hcost := costF_le c f (.cons k o v r) 0
    have hlen : (textF c f 0 (.cons k o v r)).length = (textRoot c f (.cons k o v r)).length + 1 := by
      simp [textRoot, textF]
    unfold parse
    simp only [hb, Bool.false_eq_true, if_false]
    obtain ⟨rem, hrem⟩ : ∃ rem, fuelFor (textRoot c f (.cons k o v r)) =
        (((rem + 1) + costF r) + (1 + costV v)) + 1 := by
      refine ⟨fuelFor (textRoot c f (.cons k o v r)) - costF (.cons k o v r) - 1, ?_⟩
      simp only [fuelFor, costF] at hcost ⊢
      omega
    rw [hrem, htext]
    -- first key
    rw [run_cont (step_key_scal (st := St.init) rfl .nil hk (fun _ => sepText_starts (opOf o) _))]
    generalize hkt : k.scal.tok (sepText (opOf o) ++ (textV c f 0 v ++ (textF c f 0 r ++ []))) = kt
    have hke : kt.erase = (k.scal.tok []).erase := by rw [← hkt]; exact Scal.tok_erase _ _
    have hp1 : POk { St.init with tape := St.init.tape ++ [kt], state := .kvs } := by
      refine ⟨by simp [St.init], ?_⟩
      simp only [St.init, List.nil_append, List.getElem?_cons_zero]
      rw [← hkt]; exact closeState_scal _ _
    rw [sepText_split]
    obtain ⟨t1, hr1, he1⟩ := rf_of_pv (pv c f _ hc v hvv) hvv (opOf o) 0
      { St.init with tape := St.init.tape ++ [kt], state := .kvs } (gapOf (opOf o)) (textF c f 0 r ++ [])
      ((rem + 1) + costF r) rfl rfl hp1 (blank_gapOf _) (startsBoundary_textF c f 0 r [] (.inl rfl))
    simp only [] at hr1
    rw [hr1]
    have hp3 : POk { St.init with state := .key, tape := St.init.tape ++ [kt] ++ t1 } := hp1.append t1 .key
    obtain ⟨t2, hr2, he2⟩ := pf c f _ hc r hr 0 { St.init with state := .key, tape := St.init.tape ++ [kt] ++ t1 } []
      (rem + 1) rfl rfl hp3 (.inl rfl)
    rw [hr2]
    refine ⟨kt :: (t1 ++ t2), ?_, ?_⟩
    · simp [run, step, skipWs, skipWsAux, atEof, St.init, Res.withBom]
    · simp only [St.init, List.nil_append, List.length_cons, List.length_nil, List.length_append] at he1 he2
      have hl1 : t1.length = (opOf o).toks.length + (etoksV (0 + (1 + (opOf o).toks.length)) v).length := by
        have := congrArg List.length he1
        simpa [Nat.add_comm] using this
      simp [etoksF, hke, he1, he2, hl1, List.append_assoc]
      congr 1
      omega

end Jomini.WriterParse
