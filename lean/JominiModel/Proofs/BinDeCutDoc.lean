/-
C19 / C20 for the binary deserializers on NESTED documents (both sequential paths).

`C19_bin_de_cut_map`, `C19_bin_de_cut_struct`, `C19_bin_de_cut`: the lexemes of a well-formed document
cut after any `n` lexemes.  If the deserializer still answers `ok v`, the cut lies between two
top-level fields (possibly after some complete ghost objects) and `v` is the reference value of the
document made of the complete fields before the cut.  A cut after a key, after `=`, inside a
nested value or between the two lexemes of a ghost object is always an error.

`C20_bin_de_fault_unread`, `C20_bin_de_fault`: a lexeme source that fails at some position.  An `ok`
answer never consumed the failing position (general, any input); on the lexemes of a well-formed
document cut anywhere and followed by the failure the answer is never `ok`.
-/
import JominiModel.Proofs.BinDeNestedSeq
set_option linter.unusedSimpArgs false
namespace Jomini.BinDe
open Jomini
/-! ### the lexemes of a document contain no truncation marker -/

theorem unbroken_append {a b : List Tok} (ha : Unbroken a) (hb : Unbroken b) : Unbroken (a ++ b) := by
  intro x hx; rcases List.mem_append.mp hx with h | h
  · exact ha x h
  · exact hb x h

theorem unbroken_cons {x : Tok} {l : List Tok} (hx : x ≠ .trunc ∧ x ≠ .stray) (hl : Unbroken l) : Unbroken (x :: l) := by
  intro y hy; rcases List.mem_cons.mp hy with rfl | h
  · exact hx
  · exact hl y h

theorem unbroken_nil : Unbroken [] := by intro x hx; simp at hx

theorem unbroken_ghosts (g : Nat) : Unbroken (ghostToks g) := by
  induction g with
  | zero => exact unbroken_nil
  | succ g ih => exact unbroken_cons (by simp) (unbroken_cons (by simp) ih)

theorem unbroken_leaf (l : BLeaf) : l.tok ≠ .trunc ∧ l.tok ≠ .stray := by cases l <;> simp [BLeaf.tok]

mutual
theorem unbroken_node (n : BNode) : Unbroken (tokensNode n) := by
  cases n with
  | leaf l => exact unbroken_cons (unbroken_leaf l) unbroken_nil
  | rgb col =>
    simp only [tokensNode, rgbToks]
    refine unbroken_append (unbroken_append (unbroken_cons (by simp) (unbroken_cons (by simp) unbroken_nil)) ?_) (unbroken_cons (by simp) unbroken_nil)
    intro x hx; simp at hx; obtain ⟨a, _, rfl⟩ := hx; simp
  | obj fs => exact unbroken_cons (by simp) (unbroken_append (unbroken_fields fs) (unbroken_cons (by simp) unbroken_nil))
  | arr vs => exact unbroken_cons (by simp) (unbroken_append (unbroken_nodes vs) (unbroken_cons (by simp) unbroken_nil))
theorem unbroken_fields (fs : BFields) : Unbroken (tokensFields fs) := by
  cases fs with
  | nil => exact unbroken_nil
  | cons g k v rest =>
    simp only [tokensFields]
    exact unbroken_append (unbroken_append (unbroken_ghosts g)
      (unbroken_cons (unbroken_leaf k) (unbroken_cons (by simp) (unbroken_node v)))) (unbroken_fields rest)
theorem unbroken_nodes (vs : BNodes) : Unbroken (tokensNodes vs) := by
  cases vs with
  | nil => exact unbroken_nil
  | cons v rest => simp only [tokensNodes]; exact unbroken_append (unbroken_node v) (unbroken_nodes rest)
end

theorem unbroken_prefix {a b : List Tok} (h : Unbroken (a ++ b)) : Unbroken a :=
  h.sub (fun _ hx => List.mem_append_left _ hx)

/-- a value cut short is never read successfully: if only a proper prefix `π` of a node's lexemes is there
(and then the input ends), the value deserializer called on what `read` delivers from `π` does not return `ok`. -/
theorem trunc_value (p : Path) (c : Cfg) (v : BNode) (ty : Ty) (hpl : plainN v = true) (hfit : fitsN c v ty = true)
    (π ρ : List Tok) (hsplit : π ++ ρ = tokensNode v) (hρ : ρ ≠ [])
    (t : Tok) (tl : List Tok) (hf : fetchRead p π = .ok (t, tl)) (f : Nat) (x : String) (r : List Tok) :
    deTok p c f ty t tl ≠ .ok (x, r) := by
  intro hok
  have hd : Dead p [] := Or.inl rfl
  have hun : Unbroken π := unbroken_prefix (by rw [hsplit]; exact unbroken_node v)
  have hrel : Rel2 [] ρ π (π ++ ρ) := ⟨π, by simp, rfl, hun⟩
  rcases fetchRead_cut hd ρ π (π ++ ρ) hrel t tl hf with ⟨_, ht⟩ | ⟨r2, g1, g2, g3, g4⟩
  · subst ht
    -- the on-demand lexer handed out a truncated lexeme: impossible, `π` is unbroken
    unfold fetchRead at hf
    cases hfe : fetch p π with
    | tok t' rr =>
      rw [hfe] at hf; simp at hf
      have := fetch_len p π _ _ hfe
      cases π with
      | nil => simp [fetch] at hfe
      | cons a as =>
        have ha := hun a (List.mem_cons_self ..)
        cases p <;> cases a <;> simp [fetch] at hfe ha <;> (try (split at hfe <;> (try split at hfe) <;> simp at hfe)) <;>
          simp_all
    | eof => rw [hfe] at hf; simp at hf
    | err => rw [hfe] at hf; simp at hf
  · -- lift the fuel, transport the success to the full input, compare with the full node's run
    let F := f + (tokensNode v).length + tySize ty
    have hmono := (fuel_mono p c f).1 F (by omega) ty t tl (x, r) hok
    obtain ⟨r2', k1, k2⟩ := (cut_all hd ρ c F).1 ty t tl r2 x r g2 g4 g3 hmono
    have hfull := fetchRead_node p v hpl []
    rw [List.append_nil, ← hsplit, g1] at hfull
    have hv := lift_ty_seq p c v []
      (fun core f' hno hfc hbc => sv_node c v p [] core f' hno hpl hfc hbc) ty F hfit (by omega)
    rw [← Except.ok.inj hfull] at hv
    simp only at hv
    rw [k1] at hv
    obtain ⟨pre, e1, e2, _⟩ := k2
    cases hn : nodeVia (valCoreG (binSem c) v) ty with
    | error e => rw [hn] at hv; simp [Except.map] at hv
    | ok y =>
      rw [hn] at hv; simp [Except.map] at hv
      have : r2' = [] := hv.2
      rw [this] at e2
      have := congrArg List.length e2
      simp at this
      have hlen : 0 < ρ.length := List.length_pos_iff.mpr hρ
      omega

theorem nextKey_ghosts_eof (p : Path) : ∀ (g f : Nat), g < f → nextKey p true f (ghostToks g) = .ok (none, []) := by
  intro g
  induction g with
  | zero =>
    intro f hf
    obtain ⟨f', rfl⟩ : ∃ f', f = f' + 1 := ⟨f - 1, by omega⟩
    simp [ghostToks, nextKey, fetch]
  | succ g ih =>
    intro f hf
    obtain ⟨f', rfl⟩ : ∃ f', f = f' + 1 := ⟨f - 1, by omega⟩
    have hfo : fetch p (.open :: .close :: ghostToks g) = .tok .open (.close :: ghostToks g) := by
      cases p <;> simp [fetch]
    simp only [ghostToks, nextKey, hfo]
    cases p with
    | stream =>
      have : fetchRead .stream (.close :: ghostToks g) = .ok (.close, ghostToks g) := by simp [fetchRead, fetch]
      simp only [this]
      exact ih f' (by omega)
    | ondemand =>
      simp only [payloadFree, if_true]
      exact ih f' (by omega)

theorem nextKey_ghosts_open (p : Path) (root : Bool) : ∀ (g f : Nat) (y : Option Tok × List Tok),
    nextKey p root f (ghostToks g ++ [.open]) ≠ .ok y := by
  intro g
  induction g with
  | zero =>
    intro f y
    cases f with
    | zero => simp [nextKey]
    | succ f =>
      have hfo : fetch p [.open] = .tok .open [] := by cases p <;> simp [fetch]
      simp only [ghostToks, List.nil_append, nextKey, hfo]
      cases p <;> simp [fetchRead, fetch]
  | succ g ih =>
    intro f y
    cases f with
    | zero => simp [nextKey]
    | succ f =>
      have hfo : fetch p (.open :: .close :: (ghostToks g ++ [.open])) = .tok .open (.close :: (ghostToks g ++ [.open])) := by
        cases p <;> simp [fetch]
      simp only [ghostToks, List.cons_append, nextKey, hfo]
      cases p with
      | stream =>
        have : fetchRead .stream (.close :: (ghostToks g ++ [.open])) = .ok (.close, ghostToks g ++ [.open]) := by
          simp [fetchRead, fetch]
        simp only [this]
        exact ih f y
      | ondemand =>
        simp only [payloadFree, if_true]
        exact ih f y

/-- the shapes a proper prefix of one field's lexemes can have. -/
inductive FieldCut (gh : Nat) (k : BLeaf) (v : BNode) : List Tok → Prop
  | ghosts (j : Nat) : FieldCut gh k v (ghostToks j)
  | openCut (j : Nat) : FieldCut gh k v (ghostToks j ++ [.open])
  | key : FieldCut gh k v (ghostToks gh ++ [k.tok])
  | eq : FieldCut gh k v (ghostToks gh ++ [k.tok, .equal])
  | val (π ρ : List Tok) (hπ : π ≠ []) (hρ : ρ ≠ []) (h : π ++ ρ = tokensNode v) :
      FieldCut gh k v (ghostToks gh ++ k.tok :: .equal :: π)

theorem FieldCut.shift {gh : Nat} {k : BLeaf} {v : BNode} {l : List Tok} (h : FieldCut gh k v l) :
    FieldCut (gh + 1) k v (.open :: .close :: l) := by
  cases h with
  | ghosts j => exact .ghosts (j + 1)
  | openCut j => exact .openCut (j + 1)
  | key => exact .key
  | eq => exact .eq
  | val π ρ hπ hρ h => exact .val π ρ hπ hρ h

theorem field_cut_cases (k : BLeaf) (v : BNode) (tail : List Tok) : ∀ (gh n : Nat),
    n < 2 * gh + 2 + (tokensNode v).length →
    FieldCut gh k v ((ghostToks gh ++ k.tok :: .equal :: (tokensNode v ++ tail)).take n) := by
  intro gh
  induction gh with
  | zero =>
    intro n hn
    match n with
    | 0 => exact .ghosts 0
    | 1 => exact .key
    | 2 => exact .eq
    | n' + 3 =>
      simp only [ghostToks, List.nil_append, List.take_succ_cons]
      have hlt : n' + 1 < (tokensNode v).length := by omega
      rw [List.take_append_of_le_length (by omega)]
      refine .val _ ((tokensNode v).drop (n' + 1)) ?_ ?_ (List.take_append_drop _ _)
      · intro h; have := congrArg List.length h; rw [List.length_take] at this; simp only [List.length_nil] at this; omega
      · intro h; have := congrArg List.length h; rw [List.length_drop] at this; simp only [List.length_nil] at this; omega
  | succ g ih =>
    intro n hn
    match n with
    | 0 => exact .ghosts 0
    | 1 => exact .openCut 0
    | n' + 2 =>
      simp only [ghostToks, List.cons_append, List.take_succ_cons]
      exact (ih n' (by omega)).shift

/-! ### one complete field followed by anything -/

/-- the reference's map step with the continuation left open. -/
def mapStepK {α : Type} (c : Cfg) (k : BLeaf) (v : BNode) (vt : Ty) (acc : List String) (K : List String → Res α) : Res α :=
  match valLeaf c .str k with
  | .error e => .error e
  | .ok ks =>
    match nodeVia (valCoreG (binSem c) v) vt with
    | .error e => .error e
    | .ok x => K (acc ++ [ks ++ "=" ++ x])

theorem valMapG_cons (c : Cfg) (g : Nat) (k : BLeaf) (v : BNode) (rest : BFields) (vt : Ty) (acc : List String) :
    valMapG (binSem c) (.cons g k v rest) vt acc = mapStepK c k v vt acc (fun a => valMapG (binSem c) rest vt a) := by
  have hS : (binSem c).leaf = valLeaf c := rfl
  simp only [valMapG, mapStepK, hS]
  cases valLeaf c .str k with
  | error e => rfl
  | ok ks => cases nodeVia (valCoreG (binSem c) v) vt <;> rfl

theorem mapStepK_ok {α : Type} (c : Cfg) (k : BLeaf) (v : BNode) (vt : Ty) (acc : List String) (K : List String → Res α) (y : α)
    (h : mapStepK c k v vt acc K = .ok y) :
    ∃ a, K a = .ok y ∧ ∀ {β : Type} (K' : List String → Res β), mapStepK c k v vt acc K' = K' a := by
  unfold mapStepK at h
  cases hks : valLeaf c .str k with
  | error e => simp [hks] at h
  | ok ks =>
    cases hx : nodeVia (valCoreG (binSem c) v) vt with
    | error e => simp [hks, hx] at h
    | ok x =>
      simp only [hks, hx] at h
      exact ⟨_, h, fun K' => by simp only [mapStepK, hks, hx]⟩

theorem map_field_step (p : Path) (c : Cfg) (root : Bool) (gh : Nat) (k : BLeaf) (v : BNode) (tail : List Tok) (vt : Ty)
    (acc : List String) (g : Nat) (hk : plainTok k.tok = true) (hv : plainN v = true) (hfit : fitsN c v vt = true)
    (hb : gh + 2 + (tokensNode v).length + tySize vt ≤ g) :
    deMap p c (g + 1) vt root (ghostToks gh ++ k.tok :: .equal :: (tokensNode v ++ tail)) acc =
      mapStepK c k v vt acc (fun a => deMap p c g vt root tail a) := by
  have hkey := nextKey_field p root k hk (.equal :: (tokensNode v ++ tail)) gh (g + 1) (by omega)
  rw [deMap_some p c g vt root _ _ _ acc hkey]
  obtain ⟨g', rfl⟩ : ∃ g', g = g' + 1 := ⟨g - 1, by omega⟩
  rw [seq_leaf p c g' .str (by simp [LeafTy]) k _ hk]
  unfold mapStepK
  cases hks : valLeaf c .str k with
  | error e => rfl
  | ok ks =>
    have hnv := nextValue_node p v hv tail
    have hvv := lift_ty_seq p c v tail
      (fun core f' hno hfc hbc => sv_node c v p _ core f' hno hv hfc hbc) vt (g' + 1) hfit (by omega)
    generalize valueTok p v tail = vtk at hnv hvv
    obtain ⟨t, tl⟩ := vtk
    simp only at hvv
    simp only [Except.map, hnv, hvv]
    cases hx : nodeVia (valCoreG (binSem c) v) vt with
    | error e => rfl
    | ok x => rfl

/-- the reference's struct step with the continuation left open. -/
def structStepK {α : Type} (S : Sem) (decl : Fields) (slots : List (Option String)) (v : BNode)
    (w : Res (Option Nat)) (K : List (Option String) → Res α) : Res α :=
  match w with
  | .error e => .error e
  | .ok none => K slots
  | .ok (some i) =>
    match slots[i]?, decl.get? i with
    | some (some _), some (name, _, _) => .error (.duplicate name)
    | some none, some (_, _, fty) =>
      match nodeVia (valCoreG S v) fty with
      | .error e => .error e
      | .ok x => K (slots.set i (some x))
    | _, _ => .error .panic

theorem structStepSpec_K (S : Sem) (rest : BFields) (decl : Fields) (slots : List (Option String)) (v : BNode)
    (w : Res (Option Nat)) :
    structStepSpec S rest decl slots v w = structStepK S decl slots v w (fun sl => valStructG S rest decl false sl) := by
  unfold structStepSpec structStepK
  cases w with
  | error e => rfl
  | ok o => cases o <;> rfl

theorem structStepK_ok {α : Type} (S : Sem) (decl : Fields) (slots : List (Option String)) (v : BNode)
    (w : Res (Option Nat)) (K : List (Option String) → Res α) (y : α) (h : structStepK S decl slots v w K = .ok y) :
    ∃ sl, K sl = .ok y ∧ ∀ {β : Type} (K' : List (Option String) → Res β), structStepK S decl slots v w K' = K' sl := by
  unfold structStepK at h
  cases w with
  | error e => simp at h
  | ok o =>
    cases o with
    | none => exact ⟨slots, h, fun K' => rfl⟩
    | some i =>
      dsimp only at h
      cases hsa : slots[i]? with
      | none => simp [hsa] at h
      | some a =>
        cases hfb : decl.get? i with
        | none => cases a <;> simp [hsa, hfb] at h
        | some y' =>
          obtain ⟨name, tk, fty⟩ := y'
          cases a with
          | some sv => simp [hsa, hfb] at h
          | none =>
            simp only [hsa, hfb] at h
            cases hx : nodeVia (valCoreG S v) fty with
            | error e => simp [hx] at h
            | ok x =>
              simp only [hx] at h
              exact ⟨_, h, fun K' => by simp only [structStepK, hsa, hfb, hx]⟩

theorem struct_field_step (p : Path) (c : Cfg) (root : Bool) (gh : Nat) (k : BLeaf) (v : BNode) (tail : List Tok)
    (decl : Fields) (bt : Bool) (W : Res (Option Nat)) (slots : List (Option String)) (g : Nat)
    (hk : plainTok k.tok = true) (hv : plainN v = true) (hW : seqFieldKey c decl bt k.tok = W)
    (hfit1 : ∀ i name tk fty, W = .ok (some i) → decl.get? i = some (name, tk, fty) →
        fitsN c v fty = true)
    (hb : gh + 2 + (tokensNode v).length + tySize.fieldsSize decl ≤ g) :
    deStruct p c (g + 1) decl bt root (ghostToks gh ++ k.tok :: .equal :: (tokensNode v ++ tail)) slots =
      structStepK (binSem c) decl slots v W (fun sl => deStruct p c g decl bt root tail sl) := by
  have hkey := nextKey_field p root k hk (.equal :: (tokensNode v ++ tail)) gh (g + 1) (by omega)
  have hn := normTok_plain p .any k.tok (.equal :: (tokensNode v ++ tail)) hk
  rw [deStruct_some p c g decl bt root _ _ _ _ _ slots hkey hn, hW]
  have hnv := nextValue_node p v hv tail
  have hvv := fun ty (hf : fitsN c v ty = true) (hb' : (tokensNode v).length + tySize ty ≤ g) =>
    lift_ty_seq p c v tail
      (fun core f' hno hfc hbc => sv_node c v p _ core f' hno hv hfc hbc) ty g hf hb'
  generalize valueTok p v tail = vtk at hnv hvv
  obtain ⟨t, tl⟩ := vtk
  simp only at hvv
  cases hw : W with
  | error e => simp [seqStructStep, structStepK]
  | ok w =>
    cases w with
    | none =>
      simp only [seqStructStep, structStepK, hnv]
      rw [hvv .ign (by cases v <;> simp [fitsN, stripOpt]) (by simp [tySize]; omega)]
      have : nodeVia (valCoreG (binSem c) v) .ign = .ok "ign" := by
        cases v <;> simp [nodeVia, stripOpt, valCoreG, wrapRes, wrapSome]
      simp only [this, Except.map]
    | some i =>
      simp only [seqStructStep, structStepK]
      cases hsa : slots[i]? with
      | none => rfl
      | some a =>
        cases hfb : decl.get? i with
        | none => cases a <;> rfl
        | some y =>
          obtain ⟨name, tk, fty⟩ := y
          cases a with
          | some sv => rfl
          | none =>
            dsimp only
            have hsz := (get?_size decl i name tk fty hfb).1
            have hfv := hfit1 i name tk fty hw hfb
            simp only [hnv]
            rw [hvv fty hfv (by omega)]
            cases hx : nodeVia (valCoreG (binSem c) v) fty with
            | error e => rfl
            | ok x => rfl

/-! ### a field cut short -/

theorem nextValue_nil (p : Path) : nextValue p [] = .error .other := by
  simp [nextValue, fetchRead, fetch]

theorem nextValue_eq_nil (p : Path) : nextValue p [.equal] = .error .other := by
  cases p <;> simp [nextValue, fetchRead, fetch]

theorem nextValue_eq (p : Path) (π : List Tok) : nextValue p (.equal :: π) = fetchRead p π := by
  have : fetch p (.equal :: π) = .tok .equal π := by cases p <;> simp [fetch]
  simp only [nextValue, fetchRead, this]

theorem map_cut_field (p : Path) (c : Cfg) (vt : Ty) (gh : Nat) (k : BLeaf) (v : BNode) (l : List Tok)
    (hk : plainTok k.tok = true) (hv : plainN v = true) (hfit : fitsN c v vt = true)
    (hc : FieldCut gh k v l) (f : Nat) (acc items : List String) (r : List Tok)
    (h : deMap p c f vt true l acc = .ok (items, r)) : ∃ j, l = ghostToks j ∧ items = acc := by
  have h' := (fuel_mono p c f).2.2.1 (f + l.length + gh + 3) (by omega) vt true l acc _ h
  generalize hF : f + l.length + gh + 3 = F at h'
  obtain ⟨G, rfl⟩ : ∃ G, F = G + 1 := ⟨F - 1, by omega⟩
  obtain ⟨G', rfl⟩ : ∃ G', G = G' + 1 := ⟨G - 1, by omega⟩
  cases hc with
  | ghosts j =>
    rw [deMap_none p c _ vt true _ [] acc (nextKey_ghosts_eof p j _ (by simp [ghost_len] at hF; omega))] at h'
    simp at h'
    exact ⟨j, rfl, h'.1.symm⟩
  | openCut j =>
    exfalso
    simp only [deMap] at h'
    cases hnk : nextKey p true (G' + 1 + 1) (ghostToks j ++ [.open]) with
    | error e => simp [hnk] at h'
    | ok y => exact nextKey_ghosts_open p true j _ y hnk
  | key =>
    exfalso
    have hkey := nextKey_field p true k hk [] gh (G' + 1 + 1) (by omega)
    rw [deMap_some p c _ vt true _ _ _ acc hkey, seq_leaf p c G' .str (by simp [LeafTy]) k _ hk] at h'
    cases hks : valLeaf c .str k <;> simp [hks, Except.map, nextValue_nil] at h'
  | eq =>
    exfalso
    have hkey := nextKey_field p true k hk [.equal] gh (G' + 1 + 1) (by omega)
    rw [deMap_some p c _ vt true _ _ _ acc hkey, seq_leaf p c G' .str (by simp [LeafTy]) k _ hk] at h'
    cases hks : valLeaf c .str k <;> simp [hks, Except.map, nextValue_eq_nil] at h'
  | val π ρ hπ hρ hsplit =>
    exfalso
    have hkey := nextKey_field p true k hk (.equal :: π) gh (G' + 1 + 1) (by omega)
    rw [deMap_some p c _ vt true _ _ _ acc hkey, seq_leaf p c G' .str (by simp [LeafTy]) k _ hk] at h'
    cases hks : valLeaf c .str k with
    | error e => simp [hks, Except.map] at h'
    | ok ks =>
      simp only [hks, Except.map, nextValue_eq p π] at h'
      cases hfr : fetchRead p π with
      | error e => simp [hfr] at h'
      | ok y =>
        obtain ⟨t, tl⟩ := y
        simp only [hfr] at h'
        cases hdt : deTok p c (G' + 1) vt t tl with
        | error e => simp [hdt] at h'
        | ok z =>
          obtain ⟨x, r'⟩ := z
          exact trunc_value p c v vt hv hfit π ρ hsplit hρ t tl hfr _ x r' hdt

theorem struct_cut_field (p : Path) (c : Cfg) (decl : Fields) (gh : Nat) (k : BLeaf) (v : BNode) (l : List Tok)
    (bt : Bool) (W : Res (Option Nat))
    (hk : plainTok k.tok = true) (hv : plainN v = true) (hW : seqFieldKey c decl bt k.tok = W)
    (hfit1 : ∀ i name tk fty, W = .ok (some i) → decl.get? i = some (name, tk, fty) →
        fitsN c v fty = true)
    (hc : FieldCut gh k v l) (f : Nat) (slots : List (Option String)) (x : String) (r : List Tok)
    (h : deStruct p c f decl bt true l slots = .ok (x, r)) : ∃ j, l = ghostToks j ∧ structFinish decl slots [] = .ok x := by
  have h' := (fuel_mono p c f).2.2.2 (f + l.length + gh + 3) (by omega) decl bt true l slots _ h
  generalize hF : f + l.length + gh + 3 = F at h'
  obtain ⟨G, rfl⟩ : ∃ G, F = G + 1 := ⟨F - 1, by omega⟩
  have hbad : ∀ (π ρ : List Tok), π ++ ρ = tokensNode v → π ≠ [] → ρ ≠ [] →
      seqStructStep p c G decl bt true slots (.equal :: π) W ≠ .ok (x, r) := by
    intro π ρ hsplit hπ hρ hs
    have hT : ∀ ty, fitsN c v ty = true → ∀ t tl, nextValue p (.equal :: π) = .ok (t, tl) →
        ∀ x' r', deTok p c G ty t tl ≠ .ok (x', r') := by
      intro ty hf' t tl hnv x' r' hdt
      rw [nextValue_eq p π] at hnv
      exact trunc_value p c v ty hv hf' π ρ hsplit hρ t tl hnv _ x' r' hdt
    cases hw : W with
    | error e => simp [hw, seqStructStep] at hs
    | ok w =>
      cases w with
      | none =>
        simp only [hw, seqStructStep] at hs
        cases hnv : nextValue p (.equal :: π) with
        | error e => simp [hnv] at hs
        | ok q =>
          obtain ⟨t, tl⟩ := q
          cases hdt : deTok p c G .ign t tl with
          | error e => simp [hnv, hdt] at hs
          | ok z => exact hT .ign (by cases v <;> simp [fitsN, stripOpt]) t tl hnv z.1 z.2 hdt
      | some i =>
        simp only [hw, seqStructStep] at hs
        cases hsa : slots[i]? with
        | none => simp [hsa] at hs
        | some a =>
          cases hfb : decl.get? i with
          | none => cases a <;> simp [hsa, hfb] at hs
          | some y =>
            obtain ⟨name, tk, fty⟩ := y
            cases a with
            | some sv => simp [hsa, hfb] at hs
            | none =>
              simp only [hsa, hfb] at hs
              cases hnv : nextValue p (.equal :: π) with
              | error e => simp [hnv] at hs
              | ok q =>
                obtain ⟨t, tl⟩ := q
                cases hdt : deTok p c G fty t tl with
                | error e => simp [hnv, hdt] at hs
                | ok z => exact hT fty (hfit1 i name tk fty hw hfb) t tl hnv z.1 z.2 hdt
  have hshort : ∀ tl, nextValue p tl = .error .other →
      seqStructStep p c G decl bt true slots tl W ≠ .ok (x, r) := by
    intro tl hnv hs
    cases hw : W with
    | error e => simp [hw, seqStructStep] at hs
    | ok w =>
      cases w with
      | none => simp [hw, seqStructStep, hnv] at hs
      | some i =>
        simp only [hw, seqStructStep] at hs
        cases hsa : slots[i]? with
        | none => simp [hsa] at hs
        | some a =>
          cases hfb : decl.get? i with
          | none => cases a <;> simp [hsa, hfb] at hs
          | some y =>
            obtain ⟨name, tk, fty⟩ := y
            cases a <;> simp [hsa, hfb, hnv] at hs
  cases hc with
  | ghosts j =>
    rw [deStruct_none p c _ decl bt true _ [] slots (nextKey_ghosts_eof p j _ (by simp [ghost_len] at hF; omega))] at h'
    refine ⟨j, rfl, ?_⟩
    cases hsf : structFinish decl slots [] <;> simp [hsf, Except.map] at h' ⊢
    exact h'.1
  | openCut j =>
    exfalso
    simp only [deStruct] at h'
    cases hnk : nextKey p true (G + 1) (ghostToks j ++ [.open]) with
    | error e => simp [hnk] at h'
    | ok y => exact nextKey_ghosts_open p true j _ y hnk
  | key =>
    exfalso
    have hkey := nextKey_field p true k hk [] gh (G + 1) (by omega)
    have hn := normTok_plain p .any k.tok [] hk
    rw [deStruct_some p c G decl bt true _ _ _ _ _ slots hkey hn, hW] at h'
    exact hshort _ (nextValue_nil p) h'
  | eq =>
    exfalso
    have hkey := nextKey_field p true k hk [.equal] gh (G + 1) (by omega)
    have hn := normTok_plain p .any k.tok [.equal] hk
    rw [deStruct_some p c G decl bt true _ _ _ _ _ slots hkey hn, hW] at h'
    exact hshort _ (nextValue_eq_nil p) h'
  | val π ρ hπ hρ hsplit =>
    exfalso
    have hkey := nextKey_field p true k hk (.equal :: π) gh (G + 1) (by omega)
    have hn := normTok_plain p .any k.tok (.equal :: π) hk
    rw [deStruct_some p c G decl bt true _ _ _ _ _ slots hkey hn, hW] at h'
    exact hbad π ρ hsplit hπ hρ h'

/-! ### C19: the accepted cuts of a nested document are the top-level field boundaries -/

theorem field_toks (gh : Nat) (k : BLeaf) (v : BNode) (rest : BFields) :
    tokensFields (.cons gh k v rest) = ghostToks gh ++ k.tok :: .equal :: (tokensNode v ++ tokensFields rest) := by
  simp [tokensFields]

theorem take_field (gh : Nat) (k : BLeaf) (v : BNode) (tail : List Tok) (n : Nat)
    (hn : 2 * gh + 2 + (tokensNode v).length ≤ n) :
    (ghostToks gh ++ k.tok :: .equal :: (tokensNode v ++ tail)).take n =
      ghostToks gh ++ k.tok :: .equal :: (tokensNode v ++ tail.take (n - (2 * gh + 2 + (tokensNode v).length))) := by
  have e : ghostToks gh ++ k.tok :: .equal :: (tokensNode v ++ tail) =
      (ghostToks gh ++ k.tok :: .equal :: tokensNode v) ++ tail := by simp
  have hl : (ghostToks gh ++ k.tok :: .equal :: tokensNode v).length = 2 * gh + 2 + (tokensNode v).length := by
    simp [ghost_len]; omega
  rw [e, List.take_append, hl, List.take_of_length_le (by omega)]
  simp

theorem map_cut (p : Path) (c : Cfg) (vt : Ty) :
    ∀ (m : Nat) (d : BFields), d.len = m → plainF d = true → fitsMapF c d vt = true → ∀ (n f : Nat) acc items r,
      deMap p c f vt true ((tokensFields d).take n) acc = .ok (items, r) →
      ∃ k j, (tokensFields d).take n = tokensFields (firstK k d) ++ ghostToks j ∧
        valMapG (binSem c) (firstK k d) vt acc = .ok items := by
  intro m
  induction m with
  | zero =>
    intro d hm _ _ n f acc items r h
    cases d with
    | cons g k v rest => simp [BFields.len] at hm
    | nil =>
      cases f with
      | zero => simp [deMap] at h
      | succ f =>
        simp [deMap, tokensFields, nextKey, fetch] at h
        exact ⟨0, 0, by simp [tokensFields, firstK, ghostToks], by simp [firstK, valMapG, h.1]⟩
  | succ m ih =>
    intro d hm hpl hfit n f acc items r h
    cases d with
    | nil => simp [BFields.len] at hm
    | cons gh k v rest =>
      have hrm : rest.len = m := by simp [BFields.len] at hm; exact hm
      simp only [plainF, Bool.and_eq_true] at hpl
      simp only [fitsMapF, Bool.and_eq_true] at hfit
      rw [field_toks] at h ⊢
      by_cases hn : n < 2 * gh + 2 + (tokensNode v).length
      · obtain ⟨j, e1, e2⟩ := map_cut_field p c vt gh k v _ hpl.1.1 hpl.1.2 hfit.1
          (field_cut_cases k v (tokensFields rest) gh n hn) f acc items r h
        exact ⟨0, j, by simp [firstK, tokensFields, e1], by simp [firstK, valMapG, e2]⟩
      · rw [take_field gh k v _ n (by omega)] at h ⊢
        generalize n - (2 * gh + 2 + (tokensNode v).length) = n' at h ⊢
        have h' := (fuel_mono p c f).2.2.1 (f + gh + 2 + (tokensNode v).length + tySize vt + 1) (by omega) vt true _ acc _ h
        rw [show f + gh + 2 + (tokensNode v).length + tySize vt + 1 = (f + gh + 2 + (tokensNode v).length + tySize vt) + 1 from rfl,
          map_field_step p c true gh k v _ vt acc _ hpl.1.1 hpl.1.2 hfit.1 (by omega)] at h'
        obtain ⟨a, ha, hK⟩ := mapStepK_ok c k v vt acc _ _ h'
        obtain ⟨k', j, e1, e2⟩ := ih rest hrm hpl.2 hfit.2 n' _ a items r ha
        refine ⟨k' + 1, j, ?_, ?_⟩
        · simp only [firstK, field_toks, e1]; simp
        · simp only [firstK, valMapG_cons, hK]; exact e2

/-- how a struct loop finds the field a key names: plain structs (`bt = false`, `whichOf`) and token-attribute
structs (`bt = true`, `whichTok`: token ids by their declared token). -/
structure KeyRule (c : Cfg) (decl : Fields) (bt : Bool) (wf : BLeaf → Res (Option Nat)) : Prop where
  key : ∀ k, plainTok k.tok = true → seqFieldKey c decl bt k.tok = wf k
  spec : ∀ g k v rest slots, valStructG (binSem c) (.cons g k v rest) decl bt slots =
    structStepK (binSem c) decl slots v (wf k) (fun sl => valStructG (binSem c) rest decl bt sl)

theorem keyRule_plain (c : Cfg) (decl : Fields) : KeyRule c decl false (whichOf (binSem c) decl) :=
  ⟨fun k hk => seqFieldKey_which c decl k hk, fun g k v rest slots => by rw [valStructG_cons_false, structStepSpec_K]⟩

theorem structStepSpecT_K (S : Sem) (rest : BFields) (decl : Fields) (slots : List (Option String)) (v : BNode)
    (w : Res (Option Nat)) :
    structStepSpecT S rest decl slots v w = structStepK S decl slots v w (fun sl => valStructG S rest decl true sl) := by
  unfold structStepSpecT structStepK
  cases w with
  | error e => rfl
  | ok o => cases o <;> rfl

theorem keyRule_tok (c : Cfg) (decl : Fields) : KeyRule c decl true (whichTok (binSem c) decl) :=
  ⟨fun k hk => seqFieldKey_whichT c decl k hk, fun g k v rest slots => by rw [valStructG_cons_true, structStepSpecT_K]⟩

/-- the value of every key that names a declared field fits that field's type. -/
def FitsW (c : Cfg) (decl : Fields) (wf : BLeaf → Res (Option Nat)) : BFields → Prop
  | .nil => True
  | .cons _ k v rest =>
    (∀ i name tk fty, wf k = .ok (some i) → decl.get? i = some (name, tk, fty) → fitsN c v fty = true) ∧
    FitsW c decl wf rest

theorem fitsW_plain (c : Cfg) (decl : Fields) : ∀ (m : Nat) (d : BFields), d.len = m → fitsStructF c d decl = true →
    FitsW c decl (whichOf (binSem c) decl) d := by
  intro m
  induction m with
  | zero => intro d hm _; cases d with
    | nil => trivial
    | cons g k v rest => simp [BFields.len] at hm
  | succ m ih =>
    intro d hm hfit
    cases d with
    | nil => trivial
    | cons g k v rest =>
      simp only [fitsStructF, Bool.and_eq_true] at hfit
      refine ⟨?_, ih rest (by simp [BFields.len] at hm; exact hm) hfit.2⟩
      intro i name tk fty h1 h2
      have := hfit.1
      unfold whichOf at h1
      simp only [binSem] at h1
      rw [h1] at this
      simpa [h2] using this

theorem fitsW_tok (c : Cfg) (decl : Fields) : ∀ (m : Nat) (d : BFields), d.len = m → fitsTokF c d decl = true →
    FitsW c decl (whichTok (binSem c) decl) d := by
  intro m
  induction m with
  | zero => intro d hm _; cases d with
    | nil => trivial
    | cons g k v rest => simp [BFields.len] at hm
  | succ m ih =>
    intro d hm hfit
    cases d with
    | nil => trivial
    | cons g k v rest =>
      simp only [fitsTokF, Bool.and_eq_true] at hfit
      refine ⟨?_, ih rest (by simp [BFields.len] at hm; exact hm) hfit.2⟩
      intro i name tk fty h1 h2
      have := hfit.1
      rw [h1] at this
      simpa [h2] using this

theorem struct_cut (p : Path) (c : Cfg) (decl : Fields) (bt : Bool) (wf : BLeaf → Res (Option Nat)) (hR : KeyRule c decl bt wf) :
    ∀ (m : Nat) (d : BFields), d.len = m → plainF d = true → FitsW c decl wf d → ∀ (n f : Nat) slots x r,
      deStruct p c f decl bt true ((tokensFields d).take n) slots = .ok (x, r) →
      ∃ k j, (tokensFields d).take n = tokensFields (firstK k d) ++ ghostToks j ∧
        valStructG (binSem c) (firstK k d) decl bt slots = .ok x := by
  intro m
  induction m with
  | zero =>
    intro d hm _ _ n f slots x r h
    cases d with
    | cons g k v rest => simp [BFields.len] at hm
    | nil =>
      cases f with
      | zero => simp [deStruct] at h
      | succ f =>
        simp only [tokensFields, List.take_nil] at h
        rw [deStruct_none p c f decl bt true [] [] slots (nextKey_eof p f)] at h
        refine ⟨0, 0, by simp [tokensFields, firstK, ghostToks], ?_⟩
        simp only [firstK, valStructG]
        cases hsf : structFinish decl slots [] <;> simp [hsf, Except.map] at h ⊢
        exact h.1
  | succ m ih =>
    intro d hm hpl hfit n f slots x r h
    cases d with
    | nil => simp [BFields.len] at hm
    | cons gh k v rest =>
      have hrm : rest.len = m := by simp [BFields.len] at hm; exact hm
      simp only [plainF, Bool.and_eq_true] at hpl
      have hfit1 := hfit.1
      rw [field_toks] at h ⊢
      by_cases hn : n < 2 * gh + 2 + (tokensNode v).length
      · obtain ⟨j, e1, e2⟩ := struct_cut_field p c decl gh k v _ bt (wf k) hpl.1.1 hpl.1.2 (hR.key k hpl.1.1) hfit1
          (field_cut_cases k v (tokensFields rest) gh n hn) f slots x r h
        exact ⟨0, j, by simp [firstK, tokensFields, e1], by simp [firstK, valStructG, e2]⟩
      · rw [take_field gh k v _ n (by omega)] at h ⊢
        generalize n - (2 * gh + 2 + (tokensNode v).length) = n' at h ⊢
        have h' := (fuel_mono p c f).2.2.2 (f + gh + 2 + (tokensNode v).length + tySize.fieldsSize decl + 1) (by omega)
          decl bt true _ slots _ h
        rw [show f + gh + 2 + (tokensNode v).length + tySize.fieldsSize decl + 1 =
            (f + gh + 2 + (tokensNode v).length + tySize.fieldsSize decl) + 1 from rfl,
          struct_field_step p c true gh k v _ decl bt (wf k) slots _ hpl.1.1 hpl.1.2 (hR.key k hpl.1.1) hfit1 (by omega)] at h'
        obtain ⟨sl, ha, hK⟩ := structStepK_ok _ decl slots v _ _ _ h'
        obtain ⟨k', j, e1, e2⟩ := ih rest hrm hpl.2 hfit.2 n' _ sl x r ha
        refine ⟨k' + 1, j, ?_, ?_⟩
        · simp only [firstK, field_toks, e1]; simp
        · simp only [firstK]; rw [hR.spec, hK]; exact e2

/-- (C19, binary deserializers, NESTED documents, both sequential paths) the lexemes of a document
(leaves not the reserved lexeme, `plainF`; root request a map, a struct or a token-attribute struct that fits it, `fitsRoot`)
cut after ANY `n` lexemes.  If the deserializer still answers `ok v`, then the cut lies
between two top-level fields - after `k` complete fields and `j` complete ghost objects - and `v` is
the reference value of the document made of those `k` fields.  So a cut after a key, after its `=`,
anywhere inside a nested value or inside a ghost object is an error on both paths, and an accepted
cut never yields anything but the value of the fields that are wholly there. -/
theorem C19_bin_de_cut (p : Path) (c : Cfg) (ty : RootTy) (d : BDoc) (hpl : plainF d = true)
    (hfit : fitsRoot c ty d = true) (n : Nat) (v : String)
    (h : deSeqRoot p c ty ((tokensOf d).take n) = .ok v) :
    ∃ k j, (tokensOf d).take n = tokensOf (firstK k d) ++ ghostToks j ∧ valueOfBin c ty (firstK k d) = .ok v := by
  unfold deSeqRoot tokensOf at h
  unfold tokensOf
  cases ty with
  | tok decl =>
    simp only [fitsRoot] at hfit
    dsimp only at h
    generalize 2 * ((tokensFields d).take n).length + rootSize (.tok decl) + 8 = F at h
    cases hx : deStruct p c F decl true true ((tokensFields d).take n) (slotsInit decl) with
    | error e => simp [hx, Except.map] at h
    | ok y =>
      obtain ⟨x, r⟩ := y
      rw [hx] at h
      obtain ⟨k, j, e1, e2⟩ := struct_cut p c decl true _ (keyRule_tok c decl) d.len d rfl hpl (fitsW_tok c decl d.len d rfl hfit) n _ _ x r hx
      refine ⟨k, j, e1, ?_⟩
      simp only [valueOfBin, valueOfG, e2]
      exact h
  | plain t =>
    cases t with
    | map vt =>
      simp only [fitsRoot] at hfit
      dsimp only at h
      generalize 2 * ((tokensFields d).take n).length + rootSize (.plain (.map vt)) + 8 = F at h
      cases hx : deMap p c F vt true ((tokensFields d).take n) [] with
      | error e => simp [hx] at h
      | ok y =>
        obtain ⟨items, r⟩ := y
        rw [hx] at h
        obtain ⟨k, j, e1, e2⟩ := map_cut p c vt d.len d rfl hpl hfit n _ [] items r hx
        refine ⟨k, j, e1, ?_⟩
        simp only [valueOfBin, valueOfG, e2]
        exact h
    | struct decl =>
      simp only [fitsRoot] at hfit
      dsimp only at h
      generalize 2 * ((tokensFields d).take n).length + rootSize (.plain (.struct decl)) + 8 = F at h
      cases hx : deStruct p c F decl false true ((tokensFields d).take n) (slotsInit decl) with
      | error e => simp [hx, Except.map] at h
      | ok y =>
        obtain ⟨x, r⟩ := y
        rw [hx] at h
        obtain ⟨k, j, e1, e2⟩ := struct_cut p c decl false _ (keyRule_plain c decl) d.len d rfl hpl (fitsW_plain c decl d.len d rfl hfit) n _ _ x r hx
        refine ⟨k, j, e1, ?_⟩
        simp only [valueOfBin, valueOfG, e2]
        exact h
    | _ => simp at h

/-! ### C20: a lexeme source that fails -/

/-- the lexeme source fails at `m`: a lexeme whose payload is cut short (both paths), or a dangling
byte where a lexeme id should start (streaming path; the on-demand path takes that for the end of
the input, see the `example` at the end of `Proofs/BinDeCut.lean`). -/
def Faulty (p : Path) (m : Tok) : Prop := m = .trunc ∨ (p = .stream ∧ m = .stray)

theorem Faulty.dead {p : Path} {m : Tok} (h : Faulty p m) (junk : List Tok) : Dead p (m :: junk) := by
  rcases h with rfl | ⟨hp, rfl⟩
  · exact Or.inr (Or.inl ⟨junk, rfl⟩)
  · exact Or.inr (Or.inr ⟨hp, junk, rfl⟩)

/-- (C20, general: any input, any request) an `ok` answer never consumed the failing position: what
the call hands back still starts (after whatever it left unread) with the failing lexeme.  The value
was complete before the failure. -/
theorem C20_bin_de_fault_unread (p : Path) (c : Cfg) (f : Nat) (pre junk : List Tok) (hu : Unbroken pre) (m : Tok)
    (hm : Faulty p m) :
    (∀ ty t v r, t ≠ .trunc → t ≠ .stray → deTok p c f ty t (pre ++ m :: junk) = .ok (v, r) → ∃ q, r = q ++ m :: junk) ∧
    (∀ et acc items r, deElems p c f et (pre ++ m :: junk) acc = .ok (items, r) → ∃ q, r = q ++ m :: junk) ∧
    (∀ vt root acc items r, deMap p c f vt root (pre ++ m :: junk) acc = .ok (items, r) → ∃ q, r = q ++ m :: junk) ∧
    (∀ fs bt root slots v r, deStruct p c f fs bt root (pre ++ m :: junk) slots = .ok (v, r) → ∃ q, r = q ++ m :: junk) := by
  have hd := hm.dead junk
  obtain ⟨hT, hE, hM, hS⟩ := cut_all hd [] c f
  have hr : Rel2 (m :: junk) [] (pre ++ m :: junk) (pre ++ []) := ⟨pre, rfl, rfl, hu⟩
  refine ⟨?_, ?_, ?_, ?_⟩
  · intro ty t v r h1 h2 h
    obtain ⟨_, _, q, e, _⟩ := hT ty t _ _ v r hr h1 h2 h
    exact ⟨q, e⟩
  · intro et acc items r h
    obtain ⟨_, _, q, e, _⟩ := hE et _ _ acc items r hr h
    exact ⟨q, e⟩
  · intro vt root acc items r h
    rcases hM vt root _ _ acc items r hr h with ⟨_, _, q, e, _⟩ | ⟨e, _⟩
    · exact ⟨q, e⟩
    · simp at e
  · intro fs bt root slots v r h
    rcases hS fs bt root _ _ slots v r hr h with ⟨_, _, q, e, _⟩ | ⟨e, _⟩
    · exact ⟨q, e⟩
    · simp at e

/-- the failing lexeme in key position of the root -/
theorem nextKey_fault (p : Path) (m : Tok) (hm : Faulty p m) (junk : List Tok) (f : Nat) (y : Option Tok × List Tok)
    (h : nextKey p true f (m :: junk) = .ok y) : p = .ondemand ∧ y = (some .trunc, junk) := by
  cases f with
  | zero => simp [nextKey] at h
  | succ f =>
    rcases hm with rfl | ⟨rfl, rfl⟩
    · cases p with
      | stream => simp [nextKey, fetch] at h
      | ondemand => simp [nextKey, fetch] at h; exact ⟨rfl, h.symm⟩
    · simp [nextKey, fetch] at h

theorem map_fault_head (p : Path) (c : Cfg) (vt : Ty) (m : Tok) (hm : Faulty p m) (junk : List Tok) (f : Nat)
    (acc : List String) (y : List String × List Tok) : deMap p c f vt true (m :: junk) acc ≠ .ok y := by
  intro h
  cases f with
  | zero => simp [deMap] at h
  | succ f =>
    simp only [deMap] at h
    cases hk : nextKey p true (f + 1) (m :: junk) with
    | error e => simp [hk] at h
    | ok z =>
      obtain ⟨rfl, rfl⟩ := nextKey_fault p m hm junk _ z hk
      simp only [hk] at h
      cases hd : deTok .ondemand c f .str .trunc junk with
      | error e => simp [hd] at h
      | ok w => exact deTok_trunc_od c f .str junk w hd

theorem struct_fault_head (p : Path) (c : Cfg) (decl : Fields) (bt : Bool) (m : Tok) (hm : Faulty p m) (junk : List Tok) (f : Nat)
    (slots : List (Option String)) (y : String × List Tok) : deStruct p c f decl bt true (m :: junk) slots ≠ .ok y := by
  intro h
  cases f with
  | zero => simp [deStruct] at h
  | succ f =>
    simp only [deStruct] at h
    cases hk : nextKey p true (f + 1) (m :: junk) with
    | error e => simp [hk] at h
    | ok z =>
      obtain ⟨rfl, rfl⟩ := nextKey_fault p m hm junk _ z hk
      have : seqFieldKey c decl bt .trunc = .error .other := by cases bt <;> simp [seqFieldKey, deser]
      simp [hk, normTok, this] at h

/-- a run of complete fields followed by anything: an `ok` answer is an `ok` answer of the loop on what follows. -/
theorem map_cont (p : Path) (c : Cfg) (vt : Ty) (tail : List Tok) :
    ∀ (m : Nat) (d : BFields), d.len = m → plainF d = true → fitsMapF c d vt = true → ∀ (f : Nat) acc y,
      deMap p c f vt true (tokensFields d ++ tail) acc = .ok y → ∃ f' a, deMap p c f' vt true tail a = .ok y := by
  intro m
  induction m with
  | zero =>
    intro d hm _ _ f acc y h
    cases d with
    | cons g k v rest => simp [BFields.len] at hm
    | nil => exact ⟨f, acc, by simpa [tokensFields] using h⟩
  | succ m ih =>
    intro d hm hpl hfit f acc y h
    cases d with
    | nil => simp [BFields.len] at hm
    | cons gh k v rest =>
      have hrm : rest.len = m := by simp [BFields.len] at hm; exact hm
      simp only [plainF, Bool.and_eq_true] at hpl
      simp only [fitsMapF, Bool.and_eq_true] at hfit
      have e : tokensFields (.cons gh k v rest) ++ tail =
          ghostToks gh ++ k.tok :: .equal :: (tokensNode v ++ (tokensFields rest ++ tail)) := by simp [tokensFields]
      rw [e] at h
      have h' := (fuel_mono p c f).2.2.1 (f + gh + 2 + (tokensNode v).length + tySize vt + 1) (by omega) vt true _ acc _ h
      rw [show f + gh + 2 + (tokensNode v).length + tySize vt + 1 = (f + gh + 2 + (tokensNode v).length + tySize vt) + 1 from rfl,
        map_field_step p c true gh k v _ vt acc _ hpl.1.1 hpl.1.2 hfit.1 (by omega)] at h'
      obtain ⟨a, ha, _⟩ := mapStepK_ok c k v vt acc _ _ h'
      exact ih rest hrm hpl.2 hfit.2 _ a y ha

theorem struct_cont (p : Path) (c : Cfg) (decl : Fields) (bt : Bool) (wf : BLeaf → Res (Option Nat)) (hR : KeyRule c decl bt wf)
    (tail : List Tok) :
    ∀ (m : Nat) (d : BFields), d.len = m → plainF d = true → FitsW c decl wf d → ∀ (f : Nat) slots y,
      deStruct p c f decl bt true (tokensFields d ++ tail) slots = .ok y →
      ∃ f' sl, deStruct p c f' decl bt true tail sl = .ok y := by
  intro m
  induction m with
  | zero =>
    intro d hm _ _ f slots y h
    cases d with
    | cons g k v rest => simp [BFields.len] at hm
    | nil => exact ⟨f, slots, by simpa [tokensFields] using h⟩
  | succ m ih =>
    intro d hm hpl hfit f slots y h
    cases d with
    | nil => simp [BFields.len] at hm
    | cons gh k v rest =>
      have hrm : rest.len = m := by simp [BFields.len] at hm; exact hm
      simp only [plainF, Bool.and_eq_true] at hpl
      have hfit1 := hfit.1
      have e : tokensFields (.cons gh k v rest) ++ tail =
          ghostToks gh ++ k.tok :: .equal :: (tokensNode v ++ (tokensFields rest ++ tail)) := by simp [tokensFields]
      rw [e] at h
      have h' := (fuel_mono p c f).2.2.2 (f + gh + 2 + (tokensNode v).length + tySize.fieldsSize decl + 1) (by omega)
        decl bt true _ slots _ h
      rw [show f + gh + 2 + (tokensNode v).length + tySize.fieldsSize decl + 1 =
          (f + gh + 2 + (tokensNode v).length + tySize.fieldsSize decl) + 1 from rfl,
        struct_field_step p c true gh k v _ decl bt (wf k) slots _ hpl.1.1 hpl.1.2 (hR.key k hpl.1.1) hfit1 (by omega)] at h'
      obtain ⟨sl, ha, _⟩ := structStepK_ok _ decl slots v _ _ _ h'
      exact ih rest hrm hpl.2 hfit.2 _ sl y ha

/-- the loops on the lexemes of a document cut anywhere and followed by the failure -/
theorem map_fault (p : Path) (c : Cfg) (vt : Ty) (d : BFields) (hpl : plainF d = true)
    (hfit : fitsMapF c d vt = true) (n : Nat) (m : Tok) (hm : Faulty p m) (junk : List Tok) (f : Nat) (y : List String × List Tok) :
    deMap p c f vt true ((tokensFields d).take n ++ m :: junk) [] ≠ .ok y := by
  intro h
  by_cases hn : n < (tokensFields d).length
  · obtain ⟨items, r⟩ := y
    have hr : Rel2 (m :: junk) ((tokensFields d).drop n) ((tokensFields d).take n ++ m :: junk) (tokensFields d) :=
      ⟨(tokensFields d).take n, rfl, (List.take_append_drop n _).symm, (unbroken_fields d).take n⟩
    rcases (cut_all (hm.dead junk) ((tokensFields d).drop n) c f).2.2.1 vt true _ _ [] items r hr h with ⟨r2', g, q, _, e2, _⟩ | ⟨e, _⟩
    · have g' := (fuel_mono p c f).2.2.1 (f + (tokensFields d).length + 1 + tySize vt) (by omega) vt true _ [] _ g
      have hs := sv_map c d p true [] [] vt (f + (tokensFields d).length + 1 + tySize vt) [] (Or.inr ⟨rfl, rfl, rfl⟩) hpl hfit (by omega)
      rw [List.append_nil, g'] at hs
      cases hv : valMapG (binSem c) d vt [] with
      | error e => simp [hv, Except.map] at hs
      | ok its =>
        simp [hv, Except.map] at hs
        have hl := congrArg List.length (hs.2 ▸ e2 : ([] : List Tok) = q ++ (tokensFields d).drop n)
        simp at hl; omega
    · simp at e
  · rw [List.take_of_length_le (by omega)] at h
    obtain ⟨f', a, h'⟩ := map_cont p c vt (m :: junk) d.len d rfl hpl hfit f [] y h
    exact map_fault_head p c vt m hm junk f' a y h'

theorem struct_fault (p : Path) (c : Cfg) (decl : Fields) (bt : Bool) (wf : BLeaf → Res (Option Nat)) (hR : KeyRule c decl bt wf)
    (d : BFields) (hpl : plainF d = true) (hfit : FitsW c decl wf d)
    (hfull : ∀ f slots, (tokensFields d).length + 1 + tySize.fieldsSize decl ≤ f →
      deStruct p c f decl bt true (tokensFields d ++ []) slots = (valStructG (binSem c) d decl bt slots).map (fun v => (v, [])))
    (n : Nat) (m : Tok) (hm : Faulty p m) (junk : List Tok) (f : Nat)
    (slots : List (Option String)) (y : String × List Tok) :
    deStruct p c f decl bt true ((tokensFields d).take n ++ m :: junk) slots ≠ .ok y := by
  intro h
  by_cases hn : n < (tokensFields d).length
  · obtain ⟨x, r⟩ := y
    have hr : Rel2 (m :: junk) ((tokensFields d).drop n) ((tokensFields d).take n ++ m :: junk) (tokensFields d) :=
      ⟨(tokensFields d).take n, rfl, (List.take_append_drop n _).symm, (unbroken_fields d).take n⟩
    rcases (cut_all (hm.dead junk) ((tokensFields d).drop n) c f).2.2.2 decl bt true _ _ slots x r hr h with ⟨r2', g, q, _, e2, _⟩ | ⟨e, _⟩
    · have g' := (fuel_mono p c f).2.2.2 (f + (tokensFields d).length + 1 + tySize.fieldsSize decl) (by omega) decl bt true _ slots _ g
      have hs := hfull (f + (tokensFields d).length + 1 + tySize.fieldsSize decl) slots (by omega)
      rw [List.append_nil, g'] at hs
      cases hv : valStructG (binSem c) d decl bt slots with
      | error e => simp [hv, Except.map] at hs
      | ok its =>
        simp [hv, Except.map] at hs
        have hl := congrArg List.length (hs.2 ▸ e2 : ([] : List Tok) = q ++ (tokensFields d).drop n)
        simp at hl; omega
    · simp at e
  · rw [List.take_of_length_le (by omega)] at h
    obtain ⟨f', sl, h'⟩ := struct_cont p c decl bt wf hR (m :: junk) d.len d rfl hpl hfit f slots y h
    exact struct_fault_head p c decl bt m hm junk f' sl y h'

/-- (C20, binary deserializers, NESTED documents, both sequential paths) the lexemes of a document
(`plainF`, root request a map, struct or token-attribute struct that fits) cut after ANY `n` lexemes
(`n` past the end: the whole document) and followed by a failure of the lexeme source (and then by
anything).  The deserializer never answers `ok`: a failure of the source is never swallowed. -/
theorem C20_bin_de_fault (p : Path) (c : Cfg) (ty : RootTy) (d : BDoc) (hpl : plainF d = true)
    (hfit : fitsRoot c ty d = true) (n : Nat) (m : Tok) (hm : Faulty p m) (junk : List Tok)
    (v : String) : deSeqRoot p c ty ((tokensOf d).take n ++ m :: junk) ≠ .ok v := by
  intro h
  unfold deSeqRoot tokensOf at h
  cases ty with
  | tok decl =>
    simp only [fitsRoot] at hfit
    dsimp only at h
    generalize 2 * ((tokensFields d).take n ++ m :: junk).length + rootSize (.tok decl) + 8 = F at h
    cases hx : deStruct p c F decl true true ((tokensFields d).take n ++ m :: junk) (slotsInit decl) with
    | error e => simp [hx, Except.map] at h
    | ok y =>
      exact struct_fault p c decl true _ (keyRule_tok c decl) d hpl (fitsW_tok c decl d.len d rfl hfit)
        (fun f slots hb => sv_struct_tok c d.len d rfl p true [] [] decl f slots (Or.inr ⟨rfl, rfl, rfl⟩) hpl hfit hb)
        n m hm junk F _ y hx
  | plain t =>
    cases t with
    | map vt =>
      simp only [fitsRoot] at hfit
      dsimp only at h
      generalize 2 * ((tokensFields d).take n ++ m :: junk).length + rootSize (.plain (.map vt)) + 8 = F at h
      cases hx : deMap p c F vt true ((tokensFields d).take n ++ m :: junk) [] with
      | error e => simp [hx] at h
      | ok y => exact map_fault p c vt d hpl hfit n m hm junk F y hx
    | struct decl =>
      simp only [fitsRoot] at hfit
      dsimp only at h
      generalize 2 * ((tokensFields d).take n ++ m :: junk).length + rootSize (.plain (.struct decl)) + 8 = F at h
      cases hx : deStruct p c F decl false true ((tokensFields d).take n ++ m :: junk) (slotsInit decl) with
      | error e => simp [hx, Except.map] at h
      | ok y =>
        exact struct_fault p c decl false _ (keyRule_plain c decl) d hpl (fitsW_plain c decl d.len d rfl hfit)
          (fun f slots hb => sv_struct c d p true [] [] decl f slots (Or.inr ⟨rfl, rfl, rfl⟩) hpl hfit hb)
          n m hm junk F _ y hx
    | _ => simp at h

/-! ### the hypotheses are satisfiable, and the statements are not vacuous -/

/-- `a = { b = 1 }  {} c = { b = 2 }` read as a map of maps of `u32` -/
def exCutCfg : Cfg := ⟨.error, []⟩
def exCutDoc : BDoc :=
  .cons 0 (.quoted [97]) (.obj (.cons 0 (.quoted [98]) (.leaf (.u32 1)) .nil))
    (.cons 1 (.quoted [99]) (.obj (.cons 0 (.quoted [98]) (.leaf (.u32 2)) .nil)) .nil)
def exCutTy : RootTy := .plain (.map (.map .u32))

example : plainF exCutDoc = true ∧ fitsRoot exCutCfg exCutTy exCutDoc = true := by decide

/-- the 16 lexemes cut after 7 (first field complete) or 9 (and the ghost object too) are accepted with
the value of the first field; every other proper cut is an error on both paths. -/
example : ∀ p, (List.range 16).map (fun n => (deSeqRoot p exCutCfg exCutTy ((tokensOf exCutDoc).take n)).toOption) =
    [some "{}", none, none, none, none, none, none, some "{s61={s62=u1}}", none, some "{s61={s62=u1}}",
      none, none, none, none, none, none] := by
  intro p; cases p <;> decide +kernel

/-- with a failing lexeme appended no cut is accepted.  (The error is the source's `other` except at
cut 8 on the on-demand path - a ghost object's `{` followed by the failure - where the token-level
model stops with `beyond`: `read_id` there looks only at the lexeme id, which the model cannot split
from its payload.  That is why `C20_bin_de_fault` states "never `ok`" and not the error's class.) -/
example : ∀ p, (List.range 17).all (fun n =>
    (deSeqRoot p exCutCfg exCutTy ((tokensOf exCutDoc).take n ++ [.trunc])).toOption.isNone) = true := by
  intro p; cases p <;> decide +kernel

end Jomini.BinDe
