import JominiModel.Proofs.BinDeNestedSeq
import JominiModel.Proofs.BinEndToEndLex
/-
The capstone of C04 ∘ C03 ∘ C08 at the model level: `C04_paths_end_to_end` — from the same BYTES, the
tape path, the on-demand path and the streaming path give the same value, the reference value of the
document, for nested documents.
-/
set_option linter.unusedSimpArgs false
namespace Jomini.BinDe
open Jomini

theorem plain_sc (s : BinTape.Sc) (hw : s.wf = true) : plainTok (toBLeaf s).tok = true := by
  cases s <;> simp [toBLeaf, BLeaf.tok, plainTok]
  simp [BinTape.Sc.wf] at hw
  simp [RGB_ID]; omega

mutual
theorem plain_val (v : BinTape.Val) (hm : noMixedV v = true) (hw : v.wf = true) : plainN (toBNode v) = true := by
  cases v with
  | sc s => simpa [toBNode, plainN] using plain_sc s (by simpa [BinTape.Val.wf] using hw)
  | rgb r g b a => simp [toBNode, plainN]
  | obj fs => simpa [toBNode, plainN] using plain_fields fs (by simpa [noMixedV] using hm) (by simpa [BinTape.Val.wf] using hw)
  | arr vs => simpa [toBNode, plainN] using plain_vals vs (by simpa [noMixedV] using hm) (by simpa [BinTape.Val.wf] using hw)
  | mixed fs t => simp [noMixedV] at hm
theorem plain_fields (fs : BinTape.Fields) (hm : noMixedF fs = true) (hw : fs.wf = true) : plainF (toBFields fs) = true := by
  cases fs with
  | nil => rfl
  | cons g k v rest =>
    simp only [noMixedF, Bool.and_eq_true] at hm
    simp only [BinTape.Fields.wf, Bool.and_eq_true] at hw
    simp only [toBFields, plainF, Bool.and_eq_true]
    exact ⟨⟨plain_sc k hw.1.1, plain_val v hm.1 hw.1.2⟩, plain_fields rest hm.2 hw.2⟩
theorem plain_vals (vs : BinTape.Vals) (hm : noMixedVs vs = true) (hw : vs.wf = true) : plainS (toBNodes vs) = true := by
  cases vs with
  | nil => rfl
  | cons v rest =>
    simp only [noMixedVs, Bool.and_eq_true] at hm
    simp only [BinTape.Vals.wf, Bool.and_eq_true] at hw
    simp only [toBNodes, plainS, Bool.and_eq_true]
    exact ⟨plain_val v hm.1 hw.1, plain_vals rest hm.2 hw.2⟩
end

/-- (C04, end to end, all three paths) from the SAME BYTES — the encoding of any well-formed document of the
common fragment: nested objects and arrays, rgb values, ghost objects, empty containers, every scalar kind and
payload encoding — the tape path (tape parser model, either variant, then `deTape`), the on-demand path and the
streaming path (lexer model, then `deOndemand` / `deStream`) return the same value, and it is the reference value
`valueOfBin` of the document; for every resolver, every strategy and every fitting root request. -/
theorem C04_paths_end_to_end (c : Cfg) (ty : RootTy) (d : BinTape.Fields)
    (hm : noMixedF d = true) (hw : d.wfDoc = true) (hc : canonF d = true)
    (hfit : fitsRoot c ty (toBDoc d) = true) (opt : Bool)
    (T : BinTape.Tape) (hp : BinTape.parse opt d.encode = .ok T) :
    deTape c ty (toBinDeTape T) = deOndemand c ty (rawLexemes d.encode) ∧
    deTape c ty (toBinDeTape T) = deStream c ty (rawLexemes d.encode) ∧
    deTape c ty (toBinDeTape T) = valueOfBin c ty (toBDoc d) := by
  have hwf := wfDoc_wf d hw
  have hl := (lex_encode d hm hwf hc).2
  have hpl := plain_fields d hm hwf
  rw [parse_toBinDeTape d hm hw opt T hp, hl]
  exact C04_tape_eq_ondemand c ty (toBDoc d) hpl hfit

end Jomini.BinDe
