import JominiModel.Spec.JsonDoc
import JominiModel.Proofs.JsonDom
import JominiModel.Proofs.JsonGroup
/-
The model's conversion of a token list that IS a document tree (`docAt`) is `jsonOf` of that
tree: helper lemmas and the main induction for C16_content / C16_total.
-/
set_option linter.unusedSimpArgs false
namespace Jomini.Json
open Jomini Jomini.JsonSpec

/-! ### sizes are positive; root tokens -/

theorem Node.size_pos (n : Node) : 1 ≤ n.size := by
  cases n <;> simp [Node.size] <;> omega

theorem Item.size_pos (x : Item) : 1 ≤ x.size := by
  cases x with
  | val n => simpa [Item.size] using n.size_pos
  | hdr s b => simp [Item.size]
  | paramTok u s => simp [Item.size]
  | opTok o => simp [Item.size]
  | mixedTok => simp [Item.size]

theorem Field.size_ge (f : Field) : 2 ≤ f.size := by
  cases f with
  | mk k op v => have := v.size_pos; simp [Field.size]; omega

/-- the first token of a node -/
def Node.root (i : Nat) : Node → TTok
  | .scalar q s => if q then .quoted s else .unquoted s
  | .arr m items => .array (i + 1 + itemsSize items) m
  | .obj flag m fields rest => .object (i + 1 + fieldsSize fields + (if m then 1 else 0) + itemsSize rest) flag
  | .header s _ => .header s

theorem nodeAt_root (t : Tape) (n : Node) (i : Nat) (h : nodeAt t n i = true) :
    t[i]? = some (n.root i) := by
  cases n <;> simp [nodeAt, Bool.and_eq_true] at h <;> simp [Node.root, h]

theorem lt_size_of_get (t : Tape) (i : Nat) (tok : TTok) (h : t[i]? = some tok) : i < t.size := by
  obtain ⟨hlt, _⟩ := Array.getElem?_eq_some_iff.mp h
  exact hlt

theorem root_not_op (n : Node) (i j : Nat) : valueIndOf (n.root i) j = j + 1 ∧ opOf (n.root i) = none ∧
    n.root i ≠ .mixed ∧ (∀ o, n.root i ≠ .op o) := by
  cases n with
  | scalar q s => cases q <;> simp [Node.root, valueIndOf, opOf]
  | arr m items => simp [Node.root, valueIndOf, opOf]
  | obj f m fields rest => simp [Node.root, valueIndOf, opOf]
  | header s b => simp [Node.root, valueIndOf, opOf]

/-! ### `next_idx*` on a located node -/

theorem nextIdx_unfold (t : Tape) (i : Nat) (tok : TTok) (h : t[i]? = some tok) :
    nextIdx t i = match tok with
      | .array e _ => .ok (e + 1)
      | .object e _ => .ok (e + 1)
      | .op _ => nextIdxF t (t.size - i) (i + 1)
      | .header _ => nextIdxHeader t (i + 1)
      | _ => .ok (i + 1) := by
  have hlt := lt_size_of_get t i tok h
  have : t.size + 1 - i = (t.size - i) + 1 := by omega
  unfold nextIdx
  rw [this]
  cases tok <;> simp [nextIdxF, h]

theorem nextIdx_node (t : Tape) (n : Node) (i : Nat) (h : nodeAt t n i = true) :
    nextIdx t i = .ok (i + n.size) := by
  have hr := nodeAt_root t n i h
  rw [nextIdx_unfold t i _ hr]
  cases n with
  | scalar q s => cases q <;> simp [Node.root, Node.size]
  | arr m items => simp [Node.root, Node.size]; omega
  | obj f m fields rest => simp [Node.root, Node.size]; omega
  | header s b =>
    simp only [nodeAt, Bool.and_eq_true, decide_eq_true_eq] at h
    have hb := nodeAt_root t b (i + 1) h.2
    simp only [Node.root, Node.size]
    cases b with
    | scalar q s => simp [Node.isContainer] at h
    | header s2 b2 => simp [Node.isContainer] at h
    | arr m items => simp [nextIdxHeader, hb, Node.root, Node.size]; omega
    | obj f m fields rest => simp [nextIdxHeader, hb, Node.root, Node.size]; omega

theorem nextIdxValues_node (t : Tape) (n : Node) (i : Nat) (h : nodeAt t n i = true) (hh : n.isHeader = false) :
    nextIdxValues t i = .ok (i + n.size) := by
  have hr := nodeAt_root t n i h
  cases n with
  | scalar q s => cases q <;> simp [nextIdxValues, hr, Node.root, Node.size]
  | arr m items => simp [nextIdxValues, hr, Node.root, Node.size]; omega
  | obj f m fields rest => simp [nextIdxValues, hr, Node.root, Node.size]; omega
  | header s b => simp [Node.isHeader] at hh

/-! ### `values()` over located items -/

/-- the value indices `values()` yields for an item at `i` (a header item: its token and its body) -/
def Item.starts (i : Nat) : Item → List Nat
  | .hdr _ _ => [i, i + 1]
  | _ => [i]

def itemsStarts : List Item → Nat → List Nat
  | [], _ => []
  | x :: xs, i => x.starts i ++ itemsStarts xs (i + x.size)

theorem itemsStarts_length_le (items : List Item) (i : Nat) : (itemsStarts items i).length ≤ itemsSize items := by
  induction items generalizing i with
  | nil => simp [itemsStarts, itemsSize]
  | cons x xs ih =>
    have h0 := ih (i + x.size)
    cases x with
    | val n => have := n.size_pos; simp [itemsStarts, itemsSize, Item.starts, Item.size] at h0 ⊢; omega
    | hdr s b => have := b.size_pos; simp [itemsStarts, itemsSize, Item.starts, Item.size] at h0 ⊢; omega
    | paramTok u s => simp [itemsStarts, itemsSize, Item.starts, Item.size] at h0 ⊢; omega
    | opTok o => simp [itemsStarts, itemsSize, Item.starts, Item.size] at h0 ⊢; omega
    | mixedTok => simp [itemsStarts, itemsSize, Item.starts, Item.size] at h0 ⊢; omega

theorem valuesAllF_items (t : Tape) (items : List Item) : ∀ (i e lf : Nat),
    itemsAt t items i = true → e = i + itemsSize items → (itemsStarts items i).length + 1 ≤ lf →
    valuesAllF t lf i e = .ok (itemsStarts items i) := by
  induction items with
  | nil =>
    intro i e lf _ he hlf
    simp only [itemsSize, Nat.add_zero] at he
    subst he
    cases lf with
    | zero => simp [itemsStarts] at hlf
    | succ lf => simp [valuesAllF, itemsStarts]
  | cons x xs ih =>
    intro i e lf h he hlf
    simp only [itemsAt, Bool.and_eq_true] at h
    simp only [itemsSize] at he
    have hxs := ih (i + x.size) e
    cases x with
    | val n =>
      simp only [itemAt, Bool.and_eq_true, Bool.not_eq_true'] at h
      have hn := nextIdxValues_node t n i h.1.2 h.1.1
      have := n.size_pos
      simp only [itemsStarts, Item.starts, Item.size, List.cons_append, List.nil_append, List.length_cons] at *
      cases lf with
      | zero => omega
      | succ lf =>
        have hlt : i < e := by omega
        simp only [valuesAllF, hlt, if_true, hn]
        rw [hxs lf h.2 (by omega) (by omega)]
    | hdr s b =>
      simp only [itemAt, Bool.and_eq_true, decide_eq_true_eq] at h
      have hb := nodeAt_root t b (i + 1) h.1.2
      have hbn : nextIdxValues t (i + 1) = .ok (i + 1 + b.size) := by
        apply nextIdxValues_node t b (i + 1) h.1.2
        cases b <;> simp [Node.isContainer] at h <;> rfl
      have := b.size_pos
      simp only [itemsStarts, Item.starts, Item.size, List.cons_append, List.nil_append, List.length_cons] at *
      cases lf with
      | zero => omega
      | succ lf =>
        cases lf with
        | zero => omega
        | succ lf =>
          have hlt : i < e := by omega
          have hlt2 : i + 1 < e := by omega
          have h1 : nextIdxValues t i = .ok (i + 1) := by simp [nextIdxValues, h.1.1.1]
          simp only [valuesAllF, hlt, hlt2, if_true, h1, hbn]
          have hsz : i + 1 + b.size = i + (1 + b.size) := by omega
          rw [hsz, hxs lf h.2 (by omega) (by omega)]
    | paramTok u ps =>
      simp only [itemAt, decide_eq_true_eq] at h
      simp only [itemsStarts, Item.starts, Item.size, List.cons_append, List.nil_append, List.length_cons] at *
      cases lf with
      | zero => omega
      | succ lf =>
        have hlt : i < e := by omega
        have h1 : nextIdxValues t i = .ok (i + 1) := by cases u <;> simp_all [nextIdxValues]
        simp only [valuesAllF, hlt, if_true, h1]
        rw [hxs lf h.2 (by omega) (by omega)]
    | opTok o =>
      simp only [itemAt, decide_eq_true_eq] at h
      simp only [itemsStarts, Item.starts, Item.size, List.cons_append, List.nil_append, List.length_cons] at *
      cases lf with
      | zero => omega
      | succ lf =>
        have hlt : i < e := by omega
        have h1 : nextIdxValues t i = .ok (i + 1) := by simp [nextIdxValues, h.1]
        simp only [valuesAllF, hlt, if_true, h1]
        rw [hxs lf h.2 (by omega) (by omega)]
    | mixedTok =>
      simp only [itemAt, decide_eq_true_eq] at h
      simp only [itemsStarts, Item.starts, Item.size, List.cons_append, List.nil_append, List.length_cons] at *
      cases lf with
      | zero => omega
      | succ lf =>
        have hlt : i < e := by omega
        have h1 : nextIdxValues t i = .ok (i + 1) := by simp [nextIdxValues, h.1]
        simp only [valuesAllF, hlt, if_true, h1]
        rw [hxs lf h.2 (by omega) (by omega)]

theorem valuesAll_items (t : Tape) (items : List Item) (i e : Nat)
    (h : itemsAt t items i = true) (he : e = i + itemsSize items) (hsz : e ≤ t.size) :
    valuesAll t i e = .ok (itemsStarts items i) := by
  apply valuesAllF_items t items i e _ h he
  have := itemsStarts_length_le items i
  simp only [loopFuel]; omega

/-! ### `fields()` over located fields -/

def Field.fe (i : Nat) : Field → FieldE
  | .mk k op _ => ⟨k, i, op, i + 1 + (if op.isSome then 1 else 0)⟩

def fesOf : List Field → Nat → List FieldE
  | [], _ => []
  | f :: fs, i => f.fe i :: fesOf fs (i + f.size)

theorem fesOf_length (fields : List Field) (i : Nat) : (fesOf fields i).length = fields.length := by
  induction fields generalizing i with
  | nil => rfl
  | cons f fs ih => simp [fesOf, ih]

theorem fields_length_le (fields : List Field) : fields.length ≤ fieldsSize fields := by
  induction fields with
  | nil => simp [fieldsSize]
  | cons f fs ih => have := f.size_ge; simp [fieldsSize]; omega

theorem isKeyTok_ne_mixed (k : TTok) (h : isKeyTok k = true) : k ≠ .mixed := by
  intro hk; rw [hk] at h; simp [isKeyTok] at h

theorem fieldsNext_field (t : Tape) (f : Field) (i e : Nat) (h : fieldAt t f i = true) (hlt : i < e) :
    fieldsNext t i e = .ok (some (f.fe i, i + f.size)) := by
  cases f with
  | mk k op v =>
    simp only [fieldAt, Bool.and_eq_true, decide_eq_true_eq] at h
    have hk := h.1.1
    have hnm := isKeyTok_ne_mixed k hk
    have hge : ¬ i ≥ e := by omega
    cases op with
    | some o =>
      simp only [Bool.and_eq_true, decide_eq_true_eq] at h
      have hn := nextIdx_node t v (i + 2) h.2.2
      simp [fieldsNext, hge, h.1.2, hnm, hk, h.2.1, valueIndOf, opOf, hn, Field.fe, Field.size]
      omega
    | none =>
      have hr := nodeAt_root t v (i + 1) h.2
      obtain ⟨hv, ho, _, _⟩ := root_not_op v (i + 1) i
      have hn := nextIdx_node t v (i + 1) h.2
      simp [fieldsNext, hge, h.1.2, hnm, hk, hr, hv, ho, hn, Field.fe, Field.size]
      omega

theorem fieldsAllF_fields (t : Tape) (fields : List Field) : ∀ (i e lf : Nat),
    fieldsAt t fields i = true → i + fieldsSize fields ≤ e →
    (i + fieldsSize fields = e ∨ t[i + fieldsSize fields]? = some .mixed) →
    fields.length + 1 ≤ lf →
    fieldsAllF t lf i e = .ok (fesOf fields i, i + fieldsSize fields) := by
  induction fields with
  | nil =>
    intro i e lf _ hle hterm hlf
    simp only [fieldsSize, Nat.add_zero] at hle hterm ⊢
    cases lf with
    | zero => simp at hlf
    | succ lf =>
      simp only [fieldsAllF, fesOf]
      have hnone : fieldsNext t i e = .ok none := by
        unfold fieldsNext
        rcases hterm with hterm | hterm
        · have : i ≥ e := by omega
          simp [this]
        · by_cases hge : i ≥ e
          · simp [hge]
          · simp [hge, hterm]
      simp [hnone]
  | cons f fs ih =>
    intro i e lf h hle hterm hlf
    simp only [fieldsAt, Bool.and_eq_true] at h
    simp only [fieldsSize] at hle hterm ⊢
    have := f.size_ge
    cases lf with
    | zero => simp at hlf
    | succ lf =>
      have hstep := fieldsNext_field t f i e h.1 (by omega)
      simp only [fieldsAllF, hstep, fesOf]
      have hrec := ih (i + f.size) e lf h.2 (by omega) (by simpa [Nat.add_assoc] using hterm)
        (by simp only [List.length_cons] at hlf; omega)
      rw [hrec]
      simp [Nat.add_assoc]

/-! ### the array serializer over located, converted values -/

/-- the token at `i` is what the tag says -/
def TagOk (enc : Enc) (t : Tape) (i : Nat) : ItemTag → Prop
  | .mixedT => t[i]? = some .mixed
  | .opT o => t[i]? = some (.op o)
  | .keyT k => ∃ tok, t[i]? = some tok ∧ tok ≠ .mixed ∧ (∀ o, tok ≠ .op o) ∧ tokStr? enc tok = k

/-- index list and tagged values agree: tokens as tagged, and `sv` converts each index to its value -/
def EntriesOk (sv : Nat → R JVal) (enc : Enc) (t : Tape) : List Nat → List (ItemTag × JVal) → Prop
  | [], [] => True
  | i :: is, (tag, jv) :: zs => TagOk enc t i tag ∧ sv i = .ok jv ∧ EntriesOk sv enc t is zs
  | _, _ => False

theorem EntriesOk_append (sv : Nat → R JVal) (enc : Enc) (t : Tape) (a : List Nat) (x : List (ItemTag × JVal))
    (b : List Nat) (y : List (ItemTag × JVal)) (h1 : EntriesOk sv enc t a x) (h2 : EntriesOk sv enc t b y) :
    EntriesOk sv enc t (a ++ b) (x ++ y) := by
  induction a generalizing x with
  | nil =>
    cases x with
    | nil => simpa using h2
    | cons p ps => simp [EntriesOk] at h1
  | cons i is ih =>
    cases x with
    | nil => simp [EntriesOk] at h1
    | cons p ps =>
      obtain ⟨tag, jv⟩ := p
      simp only [EntriesOk, List.cons_append] at h1 ⊢
      exact ⟨h1.1, h1.2.1, ih ps h1.2.2⟩

/-- `windowDecide` read off the tags -/
def decideZ : List Nat → List (ItemTag × JVal) → Option (Op × Nat)
  | _ :: v :: _, (.opT op, _) :: _ :: _ => some (op, v)
  | _, _ => none

theorem windowDecide_eq (sv : Nat → R JVal) (enc : Enc) (t : Tape) (is : List Nat) (zs : List (ItemTag × JVal))
    (h : EntriesOk sv enc t is zs) :
    windowDecide t is = .ok (decideZ is zs) := by
  cases is with
  | nil => cases zs <;> simp [windowDecide, decideZ]
  | cons opr is1 =>
    cases zs with
    | nil => simp [EntriesOk] at h
    | cons p zs1 =>
      obtain ⟨tag, jv⟩ := p
      simp only [EntriesOk] at h
      cases tag with
      | mixedT =>
        have ht : t[opr]? = some .mixed := h.1
        cases is1 <;> cases zs1 <;> simp [windowDecide, ht, decideZ]
      | opT o =>
        have ht : t[opr]? = some (.op o) := h.1
        cases is1 with
        | nil => cases zs1 <;> simp [windowDecide, ht, decideZ]
        | cons v is2 =>
          cases zs1 with
          | nil => simp [EntriesOk] at h
          | cons q zs2 => simp [windowDecide, ht, decideZ]
      | keyT k =>
        obtain ⟨tok, ht, hnm, hno, _⟩ := h.1
        have : windowDecide t (opr :: is1) = .ok none := by
          unfold windowDecide
          cases tok <;> first | exact absurd rfl (hno _) | (simp only [ht])
        rw [this]
        cases is1 <;> cases zs1 <;> simp [decideZ]

theorem windowList_eq (sv : Nat → R JVal) (enc : Enc) (t : Tape) (is : List Nat) :
    ∀ (zs : List (ItemTag × JVal)) (skip : Nat), EntriesOk sv enc t is zs →
      windowList sv enc t is skip = .ok (windowZ zs skip) := by
  induction is with
  | nil =>
    intro zs skip h
    cases zs with
    | nil => cases skip <;> simp [windowList, windowZ]
    | cons p ps => simp [EntriesOk] at h
  | cons first rest ih =>
    intro zs skip h
    cases zs with
    | nil => simp [EntriesOk] at h
    | cons p zs1 =>
      obtain ⟨tag, jv⟩ := p
      simp only [EntriesOk] at h
      obtain ⟨htag, hsv, hrest⟩ := h
      cases skip with
      | succ skip => simp only [windowList, windowZ]; exact ih zs1 skip hrest
      | zero =>
        have hd := windowDecide_eq sv enc t rest zs1 hrest
        cases tag with
        | mixedT =>
          have ht : t[first]? = some .mixed := htag
          simp only [windowList, ht, windowZ]
          exact ih zs1 0 hrest
        | opT o =>
          have ht : t[first]? = some (.op o) := htag
          simp only [windowList, ht, windowZ, hd]
          cases rest with
          | nil =>
            cases zs1 with
            | nil => simp [hsv, ih [] 0 hrest, windowZ, decideZ]
            | cons q qs => simp [EntriesOk] at hrest
          | cons opr rest1 =>
            cases zs1 with
            | nil => simp [EntriesOk] at hrest
            | cons q zs2 =>
              obtain ⟨tag2, jv2⟩ := q
              cases rest1 with
              | nil =>
                cases zs2 with
                | nil => cases tag2 <;> simp [hsv, ih _ 0 hrest, decideZ]
                | cons q3 zs3 => simp [EntriesOk] at hrest
              | cons v rest2 =>
                cases zs2 with
                | nil => simp [EntriesOk] at hrest
                | cons q3 zs3 =>
                  obtain ⟨tag3, jv3⟩ := q3
                  have hv : sv v = .ok jv3 := by simp only [EntriesOk] at hrest; exact hrest.2.2.2.1
                  cases tag2 <;> simp [hsv, hv, ih _ 0 hrest, ih _ 2 hrest, tokStr?, ItemTag.key, decideZ]
        | keyT k =>
          obtain ⟨tok, ht, hnm, hno, hk⟩ := htag
          have hwl : windowList sv enc t (first :: rest) 0 =
              (match windowDecide t rest with
                | .error f => .error f
                | .ok (some (op, v)) =>
                  match sv v with
                  | .error f => .error f
                  | .ok jv =>
                    match windowList sv enc t rest 2 with
                    | .error f => .error f
                    | .ok more => .ok (JVal.obj [((match tokStr? enc tok with | some k => k | none => kInvalidKey),
                        wrapOp (if op = .eq then none else some op) jv)] :: more)
                | .ok none =>
                  match sv first with
                  | .error f => .error f
                  | .ok jv =>
                    match windowList sv enc t rest 0 with
                    | .error f => .error f
                    | .ok more => .ok (jv :: more)) := by
            simp only [windowList, ht]
            cases tok <;> first | rfl | exact absurd rfl hnm
          rw [hwl, hd]
          have hkey : (match tokStr? enc tok with | some k => k | none => kInvalidKey) = (ItemTag.keyT k).key := by
            rw [hk]; cases k <;> rfl
          rw [hkey]
          simp only [windowZ]
          cases rest with
          | nil =>
            cases zs1 with
            | nil => simp [hsv, ih [] 0 hrest, windowZ, decideZ]
            | cons q qs => simp [EntriesOk] at hrest
          | cons opr rest1 =>
            cases zs1 with
            | nil => simp [EntriesOk] at hrest
            | cons q zs2 =>
              obtain ⟨tag2, jv2⟩ := q
              cases rest1 with
              | nil =>
                cases zs2 with
                | nil => cases tag2 <;> simp [hsv, ih _ 0 hrest, decideZ]
                | cons q3 zs3 => simp [EntriesOk] at hrest
              | cons v rest2 =>
                cases zs2 with
                | nil => simp [EntriesOk] at hrest
                | cons q3 zs3 =>
                  obtain ⟨tag3, jv3⟩ := q3
                  have hv : sv v = .ok jv3 := by simp only [EntriesOk] at hrest; exact hrest.2.2.2.1
                  cases tag2 <;> simp [hsv, hv, ih _ 0 hrest, ih _ 2 hrest, decideZ]

/-! ### fields: the model's field items against the converted triples -/

def FieldsOk (sv : Nat → R JVal) : List FieldE → List (TTok × Option Op × JVal) → Prop
  | [], [] => True
  | fe :: fes, x :: xs => fe.keyTok = x.1 ∧ fe.op = x.2.1 ∧ sv fe.valIdx = .ok x.2.2 ∧ FieldsOk sv fes xs
  | _, _ => False

/-- the value `sv` gives for a field (`null` if it fails) -/
def valOf (sv : Nat → R JVal) (fe : FieldE) : JVal :=
  match sv fe.valIdx with
  | .ok v => v
  | .error _ => .null

theorem FieldsOk_sv (sv : Nat → R JVal) (fes : List FieldE) : ∀ (ents : List (TTok × Option Op × JVal)),
    FieldsOk sv fes ents → ∀ fe ∈ fes, sv fe.valIdx = .ok (valOf sv fe) := by
  induction fes with
  | nil => intro _ _ fe hfe; simp at hfe
  | cons f fs ih =>
    intro ents h fe hfe
    cases ents with
    | nil => simp [FieldsOk] at h
    | cons x xs =>
      simp only [FieldsOk] at h
      simp only [List.mem_cons] at hfe
      rcases hfe with hfe | hfe
      · subst hfe; simp [valOf, h.2.2.1]
      · exact ih xs h.2.2.2 fe hfe

theorem FieldsOk_map (sv : Nat → R JVal) (fes : List FieldE) : ∀ (ents : List (TTok × Option Op × JVal)),
    FieldsOk sv fes ents → fes.map (fun fe => (fe.keyTok, fe.op, valOf sv fe)) = ents := by
  induction fes with
  | nil => intro ents h; cases ents <;> simp [FieldsOk] at h ⊢
  | cons f fs ih =>
    intro ents h
    cases ents with
    | nil => simp [FieldsOk] at h
    | cons x xs =>
      simp only [FieldsOk] at h
      obtain ⟨a, b, c⟩ := x
      have hrec := ih xs h.2.2.2
      simp only at h
      simp only [List.map_cons, hrec, List.cons.injEq, and_true]
      simp [valOf, h.1, h.2.1, h.2.2.1]

section
variable {α β κ : Type} [DecidableEq κ]

theorem stableGroupBy_map (f : α → β) (key : β → κ) (n : Nat) : ∀ (l : List α), l.length ≤ n →
    stableGroupBy key (l.map f) =
      (stableGroupBy (fun a => key (f a)) l).map (fun g => (f g.1, g.2.map f)) := by
  induction n with
  | zero =>
    intro l h
    have : l = [] := List.eq_nil_of_length_eq_zero (by omega)
    subst this; simp [stableGroupBy_nil]
  | succ n ih =>
    intro l h
    cases l with
    | nil => simp [stableGroupBy_nil]
    | cons x xs =>
      have hle : (xs.filter (fun y => !decide (key (f y) = key (f x)))).length ≤ n := by
        have := List.length_filter_le (fun y => !decide (key (f y) = key (f x))) xs
        simp only [List.length_cons] at h; omega
      simp only [List.map_cons, stableGroupBy_cons, List.filter_map, Function.comp_def]
      rw [ih _ hle]
end

/-- Group mode on the model's field items = `entriesByMode` on the converted triples -/
theorem group_bridge (sv : Nat → R JVal) (enc : Enc) (o : Opts) (hd : o.dup = .group) (fes : List FieldE) :
    (stableGroupBy kb fes).map (groupJson enc (valOf sv)) =
      entriesByMode o enc (fes.map (fun fe => (fe.keyTok, fe.op, valOf sv fe))) := by
  simp only [entriesByMode, hd]
  rw [stableGroupBy_map (fun fe : FieldE => (fe.keyTok, fe.op, valOf sv fe))
    (fun x : TTok × Option Op × JVal => keyBytes x.1) _ fes (Nat.le_refl _)]
  simp only [List.map_map]
  apply List.map_congr_left
  intro g _
  obtain ⟨f, more⟩ := g
  cases more <;> simp [groupJson, Function.comp_def]

/-- the object serializer from its three ingredients -/
theorem objectJson_eq (sv : Nat → R JVal) (enc : Enc) (t : Tape) (o : Opts) (s e : Nat)
    (fes : List FieldE) (last : Nat) (ents : List (TTok × Option Op × JVal)) (r : Option JVal)
    (hf : fieldsAll t s e = .ok (fes, last)) (hok : FieldsOk sv fes ents)
    (hr : remainderJson sv enc t last e = .ok r) :
    objectJson sv enc t o s e = .ok (objectShape o (entriesByMode o enc ents) r) := by
  have hsv := FieldsOk_sv sv fes ents hok
  have hmap := FieldsOk_map sv fes ents hok
  have hl := fieldsLen_of_fieldsAll t s e fes last hf
  cases hd : o.dup with
  | group =>
    have hg := groupEntries_eq sv enc _ fes (Nat.le_refl _)
    have hrg := renderGroups_ok sv enc (valOf sv) (stableGroupBy kb fes)
      (fun g hg fe hfe => hsv fe (stableGroupBy_mem kb _ fes (Nat.le_refl _) g hg fe hfe))
    have hb := group_bridge sv enc o hd fes
    rw [hmap] at hb
    simp only [objectJson, hd, hl, hf, hg, hrg, hr, hb]
  | preserve =>
    have hp := entriesOf_ok sv enc (valOf sv) fes hsv
    have : entriesByMode o enc ents = fes.map (fun fe => (keyJson enc fe.keyTok, wrapOp fe.op (valOf sv fe))) := by
      rw [← hmap]; simp [entriesByMode, hd, List.map_map, Function.comp_def]
    simp only [objectJson, hd, hf, hp, hr, this]
  | kvp =>
    have hp := entriesOf_ok sv enc (valOf sv) fes hsv
    have : entriesByMode o enc ents = fes.map (fun fe => (keyJson enc fe.keyTok, wrapOp fe.op (valOf sv fe))) := by
      rw [← hmap]; simp [entriesByMode, hd, List.map_map, Function.comp_def]
    simp only [objectJson, hd, hf, hp, hr, this]

/-! ### the trailing array part -/

theorem itemsStarts_nil (items : List Item) (i : Nat) (h : itemsStarts items i = []) : items = [] := by
  cases items with
  | nil => rfl
  | cons x xs => cases x <;> simp [itemsStarts, Item.starts] at h

theorem remainderJson_mixed (sv : Nat → R JVal) (enc : Enc) (t : Tape) (rest : List Item) (last e : Nat)
    (zs : List (ItemTag × JVal))
    (hm : t[last]? = some .mixed) (hat : itemsAt t rest (last + 1) = true) (he : e = last + 1 + itemsSize rest)
    (hsz : e ≤ t.size) (hok : EntriesOk sv enc t (itemsStarts rest (last + 1)) zs) :
    remainderJson sv enc t last e = .ok (remainderOf (windowZ zs 0) rest) := by
  have hv := valuesAll_items t rest (last + 1) e hat he hsz
  have hw := windowList_eq sv enc t _ zs 0 hok
  simp only [remainderJson, remainderStart, hm, hv]
  cases hst : itemsStarts rest (last + 1) with
  | nil =>
    have := itemsStarts_nil rest _ hst
    subst this; rfl
  | cons v vs =>
    rw [hst] at hw
    simp only [hw]
    cases rest with
    | nil => simp [itemsStarts] at hst
    | cons x xs => rfl

theorem valuesAll_empty (t : Tape) (e : Nat) : valuesAll t e e = .ok [] := by
  simp [valuesAll, loopFuel, valuesAllF]

theorem remainderJson_plain (sv : Nat → R JVal) (enc : Enc) (t : Tape) (e : Nat)
    (hend : t[e]? = none ∨ ∃ i e' f, t[e]? = some (.end_ i) ∧ t[i]? = some (.object e' f)) :
    remainderJson sv enc t e e = .ok none := by
  have hstart : remainderStart t e e = e := by
    unfold remainderStart
    rcases hend with h | ⟨i, e', f, h1, h2⟩
    · simp [h]
    · simp [h1, h2]
  simp [remainderJson, hstart, valuesAll_empty]

theorem serValue_header (o : Opts) (enc : Enc) (t : Tape) (i f : Nat) (s : Bytes) (body : Node) (jb : JVal)
    (ht : t[i]? = some (.header s)) (hb : nodeAt t body (i + 1) = true) (hc : body.isContainer = true)
    (hsv : serValue o enc t f (i + 1) = .ok jb) :
    serValue o enc t (f + 1) i = .ok (.obj [(decode enc s, jb)]) := by
  have hn := nextIdx_node t body (i + 1) hb
  have hnh : body.isHeader = false := by cases body <;> simp [Node.isContainer] at hc <;> rfl
  have hnv := nextIdxValues_node t body (i + 1) hb hnh
  have := body.size_pos
  have h1 : ¬ i ≥ i + 1 + body.size := by omega
  have h2 : ¬ i + 1 ≥ i + 1 + body.size := by omega
  simp [serValue, ht, hn, h1, h2, hnv, hsv]

/-! ### the main induction: the model's serializer on a located tree is `jsonOf` -/

section Main
variable (o : Opts) (enc : Enc) (t : Tape)

theorem tagOk_val (n : Node) (i : Nat) (h : nodeAt t n i = true) (hh : n.isHeader = false) :
    TagOk enc t i (Item.tag enc (.val n)) := by
  have hr := nodeAt_root t n i h
  obtain ⟨_, _, hnm, hno⟩ := root_not_op n i i
  cases n with
  | scalar q s => exact ⟨_, hr, hnm, hno, by cases q <;> simp [Node.root, tokStr?]⟩
  | arr m items => exact ⟨_, hr, hnm, hno, by simp [Node.root, tokStr?]⟩
  | obj f m fields rest => exact ⟨_, hr, hnm, hno, by simp [Node.root, tokStr?]⟩
  | header s b => simp [Node.isHeader] at hh

mutual
theorem serValue_node : (n : Node) → (i fuel : Nat) → nodeAt t n i = true → n.depth ≤ fuel →
    serValue o enc t fuel i = .ok (jsonOf o enc n)
  | .scalar q s, i, fuel, h, hd => by
    cases fuel with
    | zero => simp [Node.depth] at hd
    | succ f =>
      simp only [nodeAt, decide_eq_true_eq] at h
      cases q <;> simp [serValue, h, jsonOf]
  | .arr m items, i, fuel, h, hd => by
    cases fuel with
    | zero => simp [Node.depth] at hd
    | succ f =>
      simp only [nodeAt, Bool.and_eq_true, decide_eq_true_eq] at h
      simp only [Node.depth] at hd
      have hsz := lt_size_of_get t _ _ h.2
      have hv := valuesAll_items t items (i + 1) (i + 1 + itemsSize items) h.1.2 rfl (by omega)
      have hok := items_ok items (i + 1) f h.1.2 (by omega)
      have hw := windowList_eq (serValue o enc t f) enc t _ _ 0 hok
      simp only [serValue, h.1.1, arrayJson, hv, hw, jsonOf, arrayShape]
      split <;> rfl
  | .obj flag m fields rest, i, fuel, h, hd => by
    cases fuel with
    | zero => simp [Node.depth] at hd
    | succ f =>
      simp only [nodeAt, Bool.and_eq_true, decide_eq_true_eq] at h
      simp only [Node.depth] at hd
      obtain ⟨⟨⟨hroot, hfields⟩, hmix⟩, hend⟩ := h
      have hsz := lt_size_of_get t _ _ hend
      have hfl := fields_length_le fields
      have hfok := fields_ok fields (i + 1) f hfields (by omega)
      simp only [serValue, hroot, jsonOf]
      cases m with
      | true =>
        simp only [if_true, Bool.and_eq_true, decide_eq_true_eq] at hmix hend hsz ⊢
        have hfa : fieldsAll t (i + 1) (i + 1 + fieldsSize fields + 1 + itemsSize rest) =
            .ok (fesOf fields (i + 1), i + 1 + fieldsSize fields) :=
          fieldsAllF_fields t fields (i + 1) _ _ hfields (by omega) (Or.inr hmix.1) (by simp only [loopFuel]; omega)
        have hiok := items_ok rest (i + 1 + fieldsSize fields + 1) f hmix.2 (by omega)
        have hr := remainderJson_mixed (serValue o enc t f) enc t rest (i + 1 + fieldsSize fields)
          (i + 1 + fieldsSize fields + 1 + itemsSize rest) _ hmix.1 hmix.2 rfl (by omega) hiok
        exact objectJson_eq _ enc t o _ _ _ _ _ _ hfa hfok hr
      | false =>
        simp only [Bool.false_eq_true, if_false, Bool.and_eq_true, List.isEmpty_iff] at hmix hend hsz ⊢
        obtain ⟨hmix, _⟩ := hmix
        subst hmix
        simp only [itemsSize, Nat.add_zero] at hend hsz ⊢
        have hfa : fieldsAll t (i + 1) (i + 1 + fieldsSize fields) =
            .ok (fesOf fields (i + 1), i + 1 + fieldsSize fields) :=
          fieldsAllF_fields t fields (i + 1) _ _ hfields (by omega) (Or.inl rfl) (by simp only [loopFuel]; omega)
        have hr := remainderJson_plain (serValue o enc t f) enc t (i + 1 + fieldsSize fields)
          (Or.inr ⟨i, _, _, hend, hroot⟩)
        have := objectJson_eq _ enc t o _ _ _ _ _ _ hfa hfok hr
        simpa [jsonItems, windowZ, remainderOf] using this
  | .header s body, i, fuel, h, hd => by
    cases fuel with
    | zero => simp [Node.depth] at hd
    | succ f =>
      simp only [nodeAt, Bool.and_eq_true, decide_eq_true_eq] at h
      simp only [Node.depth] at hd
      have hb := serValue_node body (i + 1) f h.2 (by omega)
      simpa [jsonOf] using serValue_header o enc t i f s body _ h.1.1 h.2 h.1.2 hb
theorem items_ok : (items : List Item) → (i fuel : Nat) → itemsAt t items i = true → itemsDepth items ≤ fuel →
    EntriesOk (serValue o enc t fuel) enc t (itemsStarts items i) (jsonItems o enc items)
  | [], _, _, _, _ => by simp [itemsStarts, jsonItems, EntriesOk]
  | x :: xs, i, fuel, h, hd => by
    simp only [itemsAt, Bool.and_eq_true] at h
    simp only [itemsDepth] at hd
    simp only [itemsStarts, jsonItems]
    exact EntriesOk_append _ enc t _ _ _ _ (item_ok x i fuel h.1 (by omega)) (items_ok xs (i + x.size) fuel h.2 (by omega))
theorem item_ok : (x : Item) → (i fuel : Nat) → itemAt t x i = true → x.depth ≤ fuel →
    EntriesOk (serValue o enc t fuel) enc t (x.starts i) (jsonItem o enc x)
  | .val n, i, fuel, h, hd => by
    simp only [itemAt, Bool.and_eq_true, Bool.not_eq_true'] at h
    simp only [Item.depth] at hd
    simp only [Item.starts, jsonItem, EntriesOk, and_true]
    exact ⟨tagOk_val enc t n i h.2 h.1, serValue_node n i fuel h.2 hd⟩
  | .hdr s body, i, fuel, h, hd => by
    simp only [itemAt, Bool.and_eq_true, decide_eq_true_eq] at h
    simp only [Item.depth] at hd
    cases fuel with
    | zero => omega
    | succ f =>
      have hb := serValue_node body (i + 1) f h.2 (by omega)
      have hb' := serValue_node body (i + 1) (f + 1) h.2 (by omega)
      have hh := serValue_header o enc t i f s body _ h.1.1 h.2 h.1.2 hb
      have hnh : body.isHeader = false := by
        have := h.1.2; cases body <;> simp [Node.isContainer] at this <;> rfl
      have htag2 := tagOk_val enc t body (i + 1) h.2 hnh
      have hk : Item.tag enc (.val body) = .keyT none := by
        have := h.1.2; cases body <;> simp [Node.isContainer] at this <;> rfl
      rw [hk] at htag2
      simp only [Item.starts, jsonItem, EntriesOk, and_true]
      exact ⟨⟨_, h.1.1, by simp, by simp, by simp [tokStr?]⟩, hh, htag2, hb'⟩
  | .paramTok u s, i, fuel, h, hd => by
    simp only [itemAt, decide_eq_true_eq] at h
    simp only [Item.depth] at hd
    cases fuel with
    | zero => omega
    | succ f =>
      simp only [Item.starts, jsonItem, EntriesOk, and_true]
      cases u with
      | true => exact ⟨⟨_, h, by simp, by simp, by simp [tokStr?]⟩, by simp [serValue, h]⟩
      | false => exact ⟨⟨_, h, by simp, by simp, by simp [tokStr?]⟩, by simp [serValue, h]⟩
  | .opTok op, i, fuel, h, hd => by
    simp only [itemAt, decide_eq_true_eq] at h
    simp only [Item.depth] at hd
    cases fuel with
    | zero => omega
    | succ f =>
      simp only [Item.starts, jsonItem, EntriesOk, and_true]
      exact ⟨h, by simp [serValue, h]⟩
  | .mixedTok, i, fuel, h, hd => by
    simp only [itemAt, decide_eq_true_eq] at h
    simp only [Item.depth] at hd
    cases fuel with
    | zero => omega
    | succ f =>
      simp only [Item.starts, jsonItem, EntriesOk, and_true]
      exact ⟨h, by simp [serValue, h]⟩
theorem fields_ok : (fields : List Field) → (i fuel : Nat) → fieldsAt t fields i = true → fieldsDepth fields ≤ fuel →
    FieldsOk (serValue o enc t fuel) (fesOf fields i) (jsonFields o enc fields)
  | [], _, _, _, _ => by simp [fesOf, jsonFields, FieldsOk]
  | (.mk k op v) :: fs, i, fuel, h, hd => by
    simp only [fieldsAt, Bool.and_eq_true] at h
    simp only [fieldsDepth, Field.depth] at hd
    have hrec := fields_ok fs (i + (Field.mk k op v).size) fuel h.2 (by omega)
    simp only [fesOf, jsonFields, jsonField, FieldsOk, Field.fe]
    refine ⟨trivial, trivial, ?_, hrec⟩
    have hf := h.1
    simp only [fieldAt, Bool.and_eq_true, decide_eq_true_eq] at hf
    cases op with
    | some op' =>
      simp only [Bool.and_eq_true, decide_eq_true_eq] at hf
      exact serValue_node v (i + 1 + 1) fuel hf.2.2 (by omega)
    | none =>
      exact serValue_node v (i + 1 + 0) fuel hf.2 (by omega)
end

end Main

/-! ### nesting depth is bounded by the number of tokens -/

mutual
theorem Node.depth_le_size : (n : Node) → n.depth ≤ n.size
  | .scalar _ _ => by simp [Node.depth, Node.size]
  | .arr _ items => by have := itemsDepth_le items; simp [Node.depth, Node.size]; omega
  | .obj _ m fields rest => by
    have := itemsDepth_le rest; have := fieldsDepth_le fields
    simp [Node.depth, Node.size]; omega
  | .header _ body => by have := Node.depth_le_size body; simp [Node.depth, Node.size]; omega
theorem itemsDepth_le : (items : List Item) → itemsDepth items ≤ itemsSize items
  | [] => by simp [itemsDepth, itemsSize]
  | x :: xs => by
    have := Item.depth_le x; have := itemsDepth_le xs
    simp [itemsDepth, itemsSize]; omega
theorem Item.depth_le : (x : Item) → x.depth ≤ x.size
  | .val n => by have := Node.depth_le_size n; simpa [Item.depth, Item.size] using this
  | .hdr _ body => by have := Node.depth_le_size body; simp [Item.depth, Item.size]; omega
  | .paramTok _ _ => by simp [Item.depth, Item.size]
  | .opTok _ => by simp [Item.depth, Item.size]
  | .mixedTok => by simp [Item.depth, Item.size]
theorem fieldsDepth_le : (fields : List Field) → fieldsDepth fields ≤ fieldsSize fields
  | [] => by simp [fieldsDepth, fieldsSize]
  | (.mk k op v) :: fs => by
    have := Node.depth_le_size v; have := fieldsDepth_le fs
    simp [fieldsDepth, fieldsSize, Field.depth, Field.size]; omega
end

/-! ### entry points -/

/-- the whole document: the model's conversion of a token list that is the tree `d` is
`jsonOfDoc d` (in particular it neither panics nor hangs) -/
theorem toJson_obj_doc (o : Opts) (enc : Enc) (t : Tape) (d : Doc) (h : docAt t d = true) :
    toJson o enc .obj t = .ok (some (jsonOfDoc o enc d)) := by
  obtain ⟨fields, m, rest⟩ := d
  simp only [docAt, Bool.and_eq_true, decide_eq_true_eq] at h
  obtain ⟨⟨hfields, hmix⟩, hsize⟩ := h
  have hfd := fieldsDepth_le fields
  have hid := itemsDepth_le rest
  have hfl := fields_length_le fields
  have hfok := fields_ok o enc t fields 0 (fuelOf t) hfields (by simp only [fuelOf]; omega)
  have hz : 0 + fieldsSize fields = fieldsSize fields := by omega
  cases m with
  | true =>
    simp only [if_true, Bool.and_eq_true, decide_eq_true_eq] at hmix hsize
    have hfa : fieldsAll t 0 t.size = .ok (fesOf fields 0, fieldsSize fields) := by
      have := fieldsAllF_fields t fields 0 t.size (loopFuel t) hfields (by omega) (Or.inr (by rw [hz]; exact hmix.1))
        (by simp only [loopFuel]; omega)
      simpa [fieldsAll] using this
    have hiok := items_ok o enc t rest (fieldsSize fields + 1) (fuelOf t) hmix.2 (by simp only [fuelOf]; omega)
    have hr := remainderJson_mixed (serValue o enc t (fuelOf t)) enc t rest (fieldsSize fields) t.size _
      hmix.1 hmix.2 (by omega) (Nat.le_refl _) hiok
    have := objectJson_eq _ enc t o 0 t.size _ _ _ _ hfa hfok hr
    simp [toJson, this, jsonOfDoc]
  | false =>
    simp only [Bool.false_eq_true, if_false, List.isEmpty_iff] at hmix hsize
    subst hmix
    simp only [itemsSize, Nat.add_zero] at hsize
    have hfa : fieldsAll t 0 t.size = .ok (fesOf fields 0, t.size) := by
      have := fieldsAllF_fields t fields 0 t.size (loopFuel t) hfields (by omega) (Or.inl (by omega))
        (by simp only [loopFuel]; omega)
      simpa [fieldsAll, hsize] using this
    have hr := remainderJson_plain (serValue o enc t (fuelOf t)) enc t t.size (Or.inl (by simp))
    have := objectJson_eq _ enc t o 0 t.size _ _ _ _ hfa hfok hr
    simp [toJson, this, jsonOfDoc, remainderOf]

theorem checkedSub_ok (a b : Nat) (h : b ≤ a) : checkedSub a b = .ok (a - b) := by
  unfold checkedSub
  have : ¬ a < b := by omega
  simp [this]

/-- the JSON of the first field's value, if there is a first field -/
def firstValueJson (o : Opts) (enc : Enc) (d : Doc) : Option JVal :=
  match d.fields with
  | [] => none
  | (.mk _ _ v) :: _ => some (jsonOf o enc v)

theorem toJson_val_doc (o : Opts) (enc : Enc) (t : Tape) (d : Doc) (h : docAt t d = true) :
    toJson o enc .val t = .ok (firstValueJson o enc d) := by
  obtain ⟨fields, m, rest⟩ := d
  simp only [docAt, Bool.and_eq_true, decide_eq_true_eq] at h
  obtain ⟨⟨hfields, hmix⟩, hsize⟩ := h
  cases fields with
  | nil =>
    have hnone : fieldsNext t 0 t.size = .ok none := by
      unfold fieldsNext
      cases m with
      | true =>
        simp only [if_true, Bool.and_eq_true, decide_eq_true_eq, fieldsSize] at hmix
        have h0 : t[0]? = some TTok.mixed := of_decide_eq_true hmix.1
        by_cases hge : 0 ≥ t.size
        · simp [hge]
        · simp [hge, h0]
      | false =>
        simp only [Bool.false_eq_true, if_false, List.isEmpty_iff] at hmix hsize
        subst hmix
        simp only [fieldsSize, itemsSize] at hsize
        have : 0 ≥ t.size := by omega
        simp [this]
    simp [toJson, firstValue, hnone, firstValueJson]
  | cons f fs =>
    simp only [fieldsAt, Bool.and_eq_true] at hfields
    have hsz : 0 < t.size := by
      have := f.size_ge; simp only [fieldsSize] at hsize; omega
    have hstep := fieldsNext_field t f 0 t.size hfields.1 hsz
    cases f with
    | mk k op v =>
      have hf := hfields.1
      simp only [fieldAt, Bool.and_eq_true, decide_eq_true_eq] at hf
      have hv : nodeAt t v (0 + 1 + (if op.isSome then 1 else 0)) = true := by
        cases op with
        | some op' => simp only [Bool.and_eq_true, decide_eq_true_eq] at hf; simpa using hf.2.2
        | none => simpa using hf.2
      have hroot := nodeAt_root t v _ hv
      have hlt := lt_size_of_get t _ _ hroot
      have hdepth : v.depth ≤ fuelOf t + 1 := by
        have := Node.depth_le_size v
        have hvs : v.size ≤ t.size := by
          simp only [fieldsSize, Field.size] at hsize; omega
        simp only [fuelOf]; omega
      have hsv := serValue_node o enc t v _ (fuelOf t + 1) hv hdepth
      have hlen : ∃ n, valueTokensLen t (0 + 1 + (if op.isSome then 1 else 0)) = .ok n := by
        unfold valueTokensLen
        rw [hroot]
        cases v with
        | scalar q s => cases q <;> exact ⟨1, rfl⟩
        | header s b => exact ⟨1, rfl⟩
        | arr m' items =>
          simp only [Node.root]
          rw [checkedSub_ok _ _ (by omega)]
          simp only []
          rw [checkedSub_ok _ _ (by omega)]
          exact ⟨_, rfl⟩
        | obj fl m' fields' rest' =>
          simp only [Node.root]
          rw [checkedSub_ok _ _ (by omega)]
          simp only []
          rw [checkedSub_ok _ _ (by omega)]
          exact ⟨_, rfl⟩
      obtain ⟨n, hlen⟩ := hlen
      simp [toJson, firstValue, hstep, Field.fe, hlen, hsv, firstValueJson]

/-- the JSON of `read_array()` of the first field's value (`none` = no first field / not an
array); only for first values that are not objects (see `C16_total_arr_partial`) -/
def firstArrayJson (o : Opts) (enc : Enc) (d : Doc) : Option JVal :=
  match d.fields with
  | [] => none
  | (.mk _ _ (.scalar _ _)) :: _ => none
  | (.mk _ _ (.arr m items)) :: _ => some (jsonOf o enc (.arr m items))
  | (.mk _ _ (.header s b)) :: _ => some (arrayShape o (windowZ (jsonItems o enc [.hdr s b]) 0))
  | (.mk _ _ (.obj _ _ _ _)) :: _ => none

def firstIsObject (d : Doc) : Bool :=
  match d.fields with
  | (.mk _ _ (.obj _ _ _ _)) :: _ => true
  | _ => false

theorem toJson_arr_doc (o : Opts) (enc : Enc) (t : Tape) (d : Doc) (h : docAt t d = true)
    (hno : firstIsObject d = false) :
    toJson o enc .arr t = .ok (firstArrayJson o enc d) := by
  obtain ⟨fields, m, rest⟩ := d
  have hval := toJson_val_doc o enc t ⟨fields, m, rest⟩ h
  simp only [docAt, Bool.and_eq_true, decide_eq_true_eq] at h
  obtain ⟨⟨hfields, hmix⟩, hsize⟩ := h
  cases fields with
  | nil =>
    -- same `firstValue` computation as the value entry point
    simp only [toJson, firstValueJson] at hval
    cases hfv : firstValue t with
    | error e => simp [hfv] at hval
    | ok r =>
      cases r with
      | none => simp [toJson, hfv, firstArrayJson]
      | some idx =>
        simp only [hfv] at hval
        split at hval <;> try simp at hval
        split at hval <;> simp at hval
  | cons f fs =>
    simp only [fieldsAt, Bool.and_eq_true] at hfields
    have hsz : 0 < t.size := by
      have := f.size_ge; simp only [fieldsSize] at hsize; omega
    have hstep := fieldsNext_field t f 0 t.size hfields.1 hsz
    cases f with
    | mk k op v =>
      have hf := hfields.1
      simp only [fieldAt, Bool.and_eq_true, decide_eq_true_eq] at hf
      have hv : nodeAt t v (0 + 1 + (if op.isSome then 1 else 0)) = true := by
        cases op with
        | some op' => simp only [Bool.and_eq_true, decide_eq_true_eq] at hf; simpa using hf.2.2
        | none => simpa using hf.2
      have hroot := nodeAt_root t v _ hv
      have hvs : v.size ≤ t.size := by
        simp only [fieldsSize, Field.size] at hsize; omega
      have hvend : (0 + 1 + (if op.isSome then 1 else 0)) + v.size ≤ t.size := by
        simp only [fieldsSize, Field.size] at hsize; omega
      cases v with
      | obj fl m' fields' rest' => simp [firstIsObject] at hno
      | scalar q s =>
        have hra : readArray t (0 + 1 + (if op.isSome then 1 else 0)) = .ok none := by
          unfold readArray; rw [hroot]; cases q <;> rfl
        simp [toJson, firstValue, hstep, Field.fe, hra, firstArrayJson]
      | arr m' items =>
        have hra : readArray t (0 + 1 + (if op.isSome then 1 else 0)) =
            .ok (some (0 + 1 + (if op.isSome then 1 else 0) + 1,
              0 + 1 + (if op.isSome then 1 else 0) + 1 + itemsSize items)) := by
          unfold readArray; rw [hroot]; rfl
        have hdepth : (Node.arr m' items).depth ≤ fuelOf t + 1 := by
          have := Node.depth_le_size (.arr m' items); simp only [fuelOf]; omega
        have hsv := serValue_node o enc t (.arr m' items) _ (fuelOf t + 1) hv hdepth
        have hunf : serValue o enc t (fuelOf t + 1) (0 + 1 + (if op.isSome then 1 else 0)) =
            arrayJson (serValue o enc t (fuelOf t)) enc t o (0 + 1 + (if op.isSome then 1 else 0) + 1)
              (0 + 1 + (if op.isSome then 1 else 0) + 1 + itemsSize items) := by
          simp [serValue, hroot, Node.root]
        rw [hunf] at hsv
        simp [toJson, firstValue, hstep, Field.fe, hra, checkedSub_ok, hsv, firstArrayJson]
      | header s b =>
        simp only [nodeAt, Bool.and_eq_true, decide_eq_true_eq] at hv
        have hn := nextIdx_node t b _ hv.2
        have hra : readArray t (0 + 1 + (if op.isSome then 1 else 0)) =
            .ok (some (0 + 1 + (if op.isSome then 1 else 0),
              0 + 1 + (if op.isSome then 1 else 0) + 1 + b.size)) := by
          unfold readArray; rw [hroot]; simp [Node.root, hn]
        have hat : itemsAt t [Item.hdr s b] (0 + 1 + (if op.isSome then 1 else 0)) = true := by
          simp [itemsAt, itemAt, hv.1.1, hv.1.2, hv.2]
        have hisz : itemsSize [Item.hdr s b] = 1 + b.size := by simp [itemsSize, Item.size]
        simp only [Node.size] at hvend
        have hva := valuesAll_items t [Item.hdr s b] (0 + 1 + (if op.isSome then 1 else 0))
          (0 + 1 + (if op.isSome then 1 else 0) + 1 + b.size) hat (by rw [hisz]; omega) (by omega)
        have hdep : itemsDepth [Item.hdr s b] ≤ fuelOf t := by
          have := Node.depth_le_size b
          simp only [itemsDepth, Item.depth, fuelOf]; omega
        have hok := items_ok o enc t [Item.hdr s b] (0 + 1 + (if op.isSome then 1 else 0)) (fuelOf t) hat hdep
        have hw := windowList_eq (serValue o enc t (fuelOf t)) enc t _ _ 0 hok
        have haj : arrayJson (serValue o enc t (fuelOf t)) enc t o (0 + 1 + (if op.isSome then 1 else 0))
            (0 + 1 + (if op.isSome then 1 else 0) + 1 + b.size) =
            .ok (arrayShape o (windowZ (jsonItems o enc [.hdr s b]) 0)) := by
          simp only [arrayJson, hva, hw, arrayShape]
          split <;> rfl
        have hcs : checkedSub (0 + 1 + (if op.isSome then 1 else 0) + 1 + b.size)
            (0 + 1 + (if op.isSome then 1 else 0)) = .ok (1 + b.size) := by
          rw [checkedSub_ok _ _ (by omega)]; congr 1; omega
        simp [toJson, firstValue, hstep, Field.fe, hra, hcs, haj, firstArrayJson]

/-! ### the array view of an object -/

theorem itemsSize_append (a b : List Item) : itemsSize (a ++ b) = itemsSize a + itemsSize b := by
  induction a with
  | nil => simp [itemsSize]
  | cons x xs ih => simp [itemsSize, ih]; omega

theorem itemsAt_append (t : Tape) (a b : List Item) (i : Nat) :
    itemsAt t (a ++ b) i = (itemsAt t a i && itemsAt t b (i + itemsSize a)) := by
  induction a generalizing i with
  | nil => simp [itemsAt, itemsSize]
  | cons x xs ih => simp [itemsAt, itemsSize, ih, Bool.and_assoc, Nat.add_assoc]

theorem itemsDepth_append (a b : List Item) : itemsDepth (a ++ b) = max (itemsDepth a) (itemsDepth b) := by
  induction a with
  | nil => simp [itemsDepth]
  | cons x xs ih => simp [itemsDepth, ih, Nat.max_assoc]

theorem valItems_at (t : Tape) (v : Node) (i : Nat) (h : nodeAt t v i = true) :
    itemsAt t (valItems v) i = true ∧ itemsSize (valItems v) = v.size ∧ itemsDepth (valItems v) = v.depth := by
  cases v with
  | scalar q s => simp [valItems, itemsAt, itemAt, h, Node.isHeader, itemsSize, Item.size, itemsDepth, Item.depth]
  | arr m items => simp [valItems, itemsAt, itemAt, h, Node.isHeader, itemsSize, Item.size, itemsDepth, Item.depth]
  | obj f m fields rest => simp [valItems, itemsAt, itemAt, h, Node.isHeader, itemsSize, Item.size, itemsDepth, Item.depth]
  | header s b =>
    simp only [nodeAt, Bool.and_eq_true, decide_eq_true_eq] at h
    simp [valItems, itemsAt, itemAt, h.1.1, h.1.2, h.2, itemsSize, Item.size, Node.size, itemsDepth, Item.depth, Node.depth]

theorem keyItem_at (t : Tape) (k : TTok) (i : Nat) (hk : isKeyTok k = true) (h : t[i]? = some k) :
    itemAt t (keyItem k) i = true ∧ (keyItem k).size = 1 ∧ (keyItem k).depth = 1 := by
  cases k <;> simp [isKeyTok] at hk <;>
    simp [keyItem, itemAt, nodeAt, h, Node.isHeader, Item.size, Node.size, Item.depth, Node.depth]

theorem field_asItems (t : Tape) (f : Field) (i : Nat) (h : fieldAt t f i = true) :
    itemsAt t f.asItems i = true ∧ itemsSize f.asItems = f.size ∧ itemsDepth f.asItems ≤ max 1 f.depth := by
  cases f with
  | mk k op v =>
    simp only [fieldAt, Bool.and_eq_true, decide_eq_true_eq] at h
    obtain ⟨hk1, hk2, hk3⟩ := keyItem_at t k i h.1.1 h.1.2
    cases op with
    | some o =>
      simp only [Bool.and_eq_true, decide_eq_true_eq] at h
      obtain ⟨hv1, hv2, hv3⟩ := valItems_at t v (i + 2) h.2.2
      have e1 : i + (keyItem k).size + (Item.opTok o).size = i + 2 := by simp [hk2, Item.size]
      refine ⟨?_, ?_, ?_⟩
      · simp only [Field.asItems, itemsAt, List.cons_append, List.nil_append, hk1, itemAt,
          Bool.true_and, e1, hv1]
        simp [hk2, h.2.1]
      · simp [Field.asItems, itemsSize, hk2, Item.size, hv2, Field.size]; omega
      · simp only [Field.asItems, itemsDepth, List.cons_append, List.nil_append, hk3, Item.depth, hv3, Field.depth]
        omega
    | none =>
      obtain ⟨hv1, hv2, hv3⟩ := valItems_at t v (i + 1) h.2
      refine ⟨?_, ?_, ?_⟩
      · simp only [Field.asItems, itemsAt, List.nil_append, hk1, hk2, Bool.true_and, hv1]
      · simp [Field.asItems, itemsSize, hk2, hv2, Field.size]
      · simp only [Field.asItems, itemsDepth, List.nil_append, hk3, hv3, Field.depth]
        omega

theorem fields_asItems (t : Tape) (fields : List Field) : ∀ (i : Nat), fieldsAt t fields i = true →
    itemsAt t (fieldsAsItems fields) i = true ∧ itemsSize (fieldsAsItems fields) = fieldsSize fields ∧
    itemsDepth (fieldsAsItems fields) ≤ max 1 (fieldsDepth fields) := by
  induction fields with
  | nil => intro i _; simp [fieldsAsItems, itemsAt, itemsSize, fieldsSize, itemsDepth]
  | cons f fs ih =>
    intro i h
    simp only [fieldsAt, Bool.and_eq_true] at h
    obtain ⟨h1, h2, h3⟩ := field_asItems t f i h.1
    obtain ⟨r1, r2, r3⟩ := ih (i + f.size) h.2
    refine ⟨?_, ?_, ?_⟩
    · simp only [fieldsAsItems, itemsAt_append, h1, h2, r1, Bool.and_self]
    · simp only [fieldsAsItems, itemsSize_append, h2, r2, fieldsSize]
    · simp only [fieldsAsItems, itemsDepth_append, fieldsDepth]; omega

/-- `read_array()` on a flagged object: the scan reaches the `MixedContainer` token -/
theorem findMixedF_fields (t : Tape) (fields : List Field) : ∀ (i lf : Nat), fieldsAt t fields i = true →
    t[i + fieldsSize fields]? = some .mixed → 2 * fields.length + 1 ≤ lf →
    findMixedF t lf i = .ok (i + fieldsSize fields) := by
  induction fields with
  | nil =>
    intro i lf _ hm hlf
    simp only [fieldsSize, Nat.add_zero] at hm ⊢
    cases lf with
    | zero => omega
    | succ lf => simp [findMixedF, hm]
  | cons f fs ih =>
    intro i lf h hm hlf
    simp only [fieldsAt, Bool.and_eq_true] at h
    simp only [fieldsSize] at hm ⊢
    simp only [List.length_cons] at hlf
    cases f with
    | mk k op v =>
      have hf := h.1
      simp only [fieldAt, Bool.and_eq_true, decide_eq_true_eq] at hf
      have hknm := isKeyTok_ne_mixed k hf.1.1
      have hkn : nextIdx t i = .ok (i + 1) := by
        rw [nextIdx_unfold t i k hf.1.2]
        have := hf.1.1
        cases k <;> simp [isKeyTok] at this <;> rfl
      cases lf with
      | zero => omega
      | succ lf =>
        cases lf with
        | zero => omega
        | succ lf =>
          have step1 : findMixedF t (lf + 1 + 1) i = findMixedF t (lf + 1) (i + 1) := by
            simp only [findMixedF, hf.1.2, hkn]
            cases k <;> first | rfl | exact absurd rfl hknm
          rw [step1]
          cases op with
          | some o =>
            simp only [Bool.and_eq_true, decide_eq_true_eq] at hf
            have hvn := nextIdx_node t v (i + 2) hf.2.2
            have hon : nextIdx t (i + 1) = .ok (i + 2 + v.size) := by
              rw [nextIdx_unfold t (i + 1) _ hf.2.1]
              have hlt := lt_size_of_get t _ _ (nodeAt_root t v (i + 2) hf.2.2)
              have : t.size - (i + 1) = t.size + 1 - (i + 2) := by omega
              simp only [this]
              exact hvn
            have step2 : findMixedF t (lf + 1) (i + 1) = findMixedF t lf (i + 2 + v.size) := by
              simp only [findMixedF, hf.2.1, hon]
            rw [step2]
            have := ih (i + (Field.mk k (some o) v).size) lf h.2 (by simpa [Nat.add_assoc] using hm) (by omega)
            simp only [Field.size] at this ⊢
            have e1 : i + (1 + (if (some o).isSome = true then 1 else 0) + v.size) = i + 2 + v.size := by simp; omega
            rw [e1] at this
            rw [this]; congr 1; omega
          | none =>
            have hr := nodeAt_root t v (i + 1) hf.2
            obtain ⟨_, _, hnm, _⟩ := root_not_op v (i + 1) i
            have hvn := nextIdx_node t v (i + 1) hf.2
            have step2 : findMixedF t (lf + 1) (i + 1) = findMixedF t lf (i + 1 + v.size) := by
              simp only [findMixedF, hr, hvn]
              cases v with
              | scalar q s => cases q <;> rfl
              | arr m items => rfl
              | obj fl m fields rest => rfl
              | header s b => rfl
            rw [step2]
            have := ih (i + (Field.mk k none v).size) lf h.2 (by simpa [Nat.add_assoc] using hm) (by omega)
            simp only [Field.size] at this ⊢
            have e1 : i + (1 + (if (none : Option Op).isSome = true then 1 else 0) + v.size) = i + 1 + v.size := by simp; omega
            rw [e1] at this
            rw [this]; congr 1; omega

theorem fields_length2_le (fields : List Field) : 2 * fields.length ≤ fieldsSize fields := by
  induction fields with
  | nil => simp [fieldsSize]
  | cons f fs ih => have := f.size_ge; simp [fieldsSize]; omega

theorem arrayJson_items (o : Opts) (enc : Enc) (t : Tape) (items : List Item) (s e fuel : Nat)
    (hat : itemsAt t items s = true) (he : e = s + itemsSize items) (hsz : e ≤ t.size)
    (hd : itemsDepth items ≤ fuel) :
    arrayJson (serValue o enc t fuel) enc t o s e = .ok (arrayShape o (windowZ (jsonItems o enc items) 0)) := by
  have hva := valuesAll_items t items s e hat he hsz
  have hok := items_ok o enc t items s fuel hat hd
  have hw := windowList_eq (serValue o enc t fuel) enc t _ _ 0 hok
  simp only [arrayJson, hva, hw, arrayShape]
  split <;> rfl

/-- the JSON of `read_array()` of the first field's value (`none` = no first field / not an array) -/
def firstArrayJsonFull (o : Opts) (enc : Enc) (d : Doc) : Option JVal :=
  match d.fields with
  | [] => none
  | (.mk _ _ (.scalar _ _)) :: _ => none
  | (.mk _ _ (.arr m items)) :: _ => some (jsonOf o enc (.arr m items))
  | (.mk _ _ (.header s b)) :: _ => some (arrayShape o (windowZ (jsonItems o enc [.hdr s b]) 0))
  | (.mk _ _ (.obj flag m fields rest)) :: _ =>
    some (arrayShape o (windowZ (jsonItems o enc (if flag then rest else objItems m fields rest)) 0))

theorem firstArrayJsonFull_eq (o : Opts) (enc : Enc) (d : Doc) (h : firstIsObject d = false) :
    firstArrayJsonFull o enc d = firstArrayJson o enc d := by
  obtain ⟨fields, m, rest⟩ := d
  cases fields with
  | nil => rfl
  | cons f fs =>
    cases f with
    | mk k op v => cases v <;> first | rfl | simp [firstIsObject] at h

theorem toJson_arr_doc_full (o : Opts) (enc : Enc) (t : Tape) (d : Doc) (h : docAt t d = true) :
    toJson o enc .arr t = .ok (firstArrayJsonFull o enc d) := by
  by_cases hno : firstIsObject d = false
  · rw [firstArrayJsonFull_eq o enc d hno]; exact toJson_arr_doc o enc t d h hno
  · obtain ⟨fields, m, rest⟩ := d
    simp only [docAt, Bool.and_eq_true, decide_eq_true_eq] at h
    obtain ⟨⟨hfields, hmix⟩, hsize⟩ := h
    cases fields with
    | nil => simp [firstIsObject] at hno
    | cons f fs =>
      simp only [fieldsAt, Bool.and_eq_true] at hfields
      have hsz : 0 < t.size := by
        have := f.size_ge; simp only [fieldsSize] at hsize; omega
      have hstep := fieldsNext_field t f 0 t.size hfields.1 hsz
      cases f with
      | mk k op v =>
        cases v with
        | scalar q s => simp [firstIsObject] at hno
        | arr m' items => simp [firstIsObject] at hno
        | header s b => simp [firstIsObject] at hno
        | obj flag m' fields' rest' =>
          have hf := hfields.1
          simp only [fieldAt, Bool.and_eq_true, decide_eq_true_eq] at hf
          have hv : nodeAt t (.obj flag m' fields' rest') (0 + 1 + (if op.isSome then 1 else 0)) = true := by
            cases op with
            | some op' => simp only [Bool.and_eq_true, decide_eq_true_eq] at hf; simpa using hf.2.2
            | none => simpa using hf.2
          have hroot := nodeAt_root t _ _ hv
          have hvend : (0 + 1 + (if op.isSome then 1 else 0)) + (Node.obj flag m' fields' rest').size ≤ t.size := by
            simp only [fieldsSize, Field.size] at hsize; omega
          generalize hj : 0 + 1 + (if op.isSome then 1 else 0) = j at *
          simp only [nodeAt, Bool.and_eq_true, decide_eq_true_eq] at hv
          obtain ⟨⟨⟨hr0, hfa⟩, hmx⟩, hend⟩ := hv
          simp only [Node.size] at hvend
          obtain ⟨ha1, ha2, ha3⟩ := fields_asItems t fields' (j + 1) hfa
          have hfd := fieldsDepth_le fields'
          have hrd := itemsDepth_le rest'
          cases m' with
          | false =>
            simp only [Bool.false_eq_true, if_false, Bool.and_eq_true, List.isEmpty_iff, Bool.not_eq_true'] at hmx hend hvend hroot hr0
            obtain ⟨hre, hfl⟩ := hmx
            subst hre; subst hfl
            simp only [itemsSize, Nat.add_zero] at hend hvend hroot hr0
            have hra : readArray t j = .ok (some (j + 1, j + 1 + fieldsSize fields')) := by
              unfold readArray; rw [hr0]
            have haj := arrayJson_items o enc t (fieldsAsItems fields') (j + 1) (j + 1 + fieldsSize fields') (fuelOf t)
              ha1 (by rw [ha2]) (by omega) (by simp only [fuelOf]; omega)
            simp [toJson, firstValue, hstep, Field.fe, hj, hra, checkedSub_ok, haj, firstArrayJsonFull, objItems]
          | true =>
            simp only [if_true, Bool.and_eq_true, decide_eq_true_eq] at hmx hend hvend hroot hr0
            cases flag with
            | true =>
              have hfm := findMixedF_fields t fields' (j + 1) (loopFuel t) hfa hmx.1
                (by have := fields_length2_le fields'; simp only [loopFuel]; omega)
              have hra : readArray t j =
                  .ok (some (j + 1 + fieldsSize fields' + 1, j + 1 + fieldsSize fields' + 1 + itemsSize rest')) := by
                unfold readArray; rw [hr0]; simp only [hfm]
              have haj := arrayJson_items o enc t rest' (j + 1 + fieldsSize fields' + 1)
                (j + 1 + fieldsSize fields' + 1 + itemsSize rest') (fuelOf t) hmx.2 rfl (by omega)
                (by simp only [fuelOf]; omega)
              simp [toJson, firstValue, hstep, Field.fe, hj, hra, checkedSub_ok, haj, firstArrayJsonFull]
            | false =>
              have hra : readArray t j =
                  .ok (some (j + 1, j + 1 + fieldsSize fields' + 1 + itemsSize rest')) := by
                unfold readArray; rw [hr0]
              have hat : itemsAt t (objItems true fields' rest') (j + 1) = true := by
                simp only [objItems, if_true, itemsAt_append, ha1, ha2, itemsAt, itemAt, hmx.1, hmx.2,
                  decide_true, Bool.true_and, Item.size]
              have hisz : itemsSize (objItems true fields' rest') = fieldsSize fields' + 1 + itemsSize rest' := by
                simp only [objItems, if_true, itemsSize_append, ha2, itemsSize, Item.size]; omega
              have hdp : itemsDepth (objItems true fields' rest') ≤ fuelOf t := by
                simp only [objItems, if_true, itemsDepth_append, itemsDepth, Item.depth, fuelOf]; omega
              have haj := arrayJson_items o enc t (objItems true fields' rest') (j + 1)
                (j + 1 + fieldsSize fields' + 1 + itemsSize rest') (fuelOf t) hat (by rw [hisz]; omega) (by omega) hdp
              have hcs := checkedSub_ok (j + 1 + fieldsSize fields' + 1 + itemsSize rest') (j + 1) (by omega)
              simp [toJson, firstValue, hstep, Field.fe, hj, hra, hcs, haj, firstArrayJsonFull]


end Jomini.Json
