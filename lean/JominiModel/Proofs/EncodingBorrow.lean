import JominiModel.Proofs.Encoding
/-
Converse of the "borrowed ⇒ well-formed" direction of `decodeUtf8_spec`: on well-formed
UTF-8 the `Utf8Chunks` scanner runs to the end without reporting an invalid part, so
`from_utf8_lossy` returns its input borrowed; hence `decode_utf8` borrows exactly when the
trimmed input is escape-free and well-formed.
-/
namespace Jomini.Encoding
open Jomini Jomini.Spec.Encoding Jomini.Spec.Encoding.Utf8

/-- on well-formed input the scanning loop of `Utf8Chunks::next` is left by its condition,
at the end of the source, with everything valid. -/
theorem chunkScan_valid (fuel : Nat) : ∀ (src : Bytes) (i : Nat), valid src = true →
    src.length ≤ fuel → chunkScan fuel src i = (i + src.length, i + src.length) := by
  induction fuel with
  | zero =>
    intro src i _ hl
    have : src = [] := by simpa using hl
    subst this; simp [chunkScan]
  | succ n ih =>
    intro src i hv hl
    cases src with
    | nil => simp [chunkScan]
    | cons b0 r0 =>
      rw [valid.eq_def] at hv
      simp only at hv
      simp only [List.length_cons] at hl
      by_cases h0 : b0 < 128
      · simp only [h0, if_true] at hv
        simp only [chunkScan, h0, if_true]
        rw [ih r0 (i + 1) hv (by omega)]
        simp only [List.length_cons]; congr 1 <;> omega
      · obtain ⟨w2, w3, w4, -⟩ := width_spec b0 h0
        simp only [h0, if_false] at hv
        by_cases l2 : lead2 b0 = true
        · have hw := w2.2 l2
          simp only [l2, if_true] at hv
          cases r0 with
          | nil => simp at hv
          | cons b1 r1 =>
            simp only [Bool.and_eq_true] at hv
            simp only [List.length_cons] at hl
            simp only [chunkScan, h0, if_false, hw, safeGet_cons_zero, isCont_eq_cont, hv.1,
              Bool.not_true, Bool.false_eq_true, List.drop_succ_cons, List.drop_zero]
            rw [ih r1 (i + 2) hv.2 (by omega)]
            simp only [List.length_cons]; congr 1 <;> omega
        · simp only [l2, Bool.false_eq_true, if_false] at hv
          by_cases l3 : lead3 b0 = true
          · have hw := w3.2 l3
            simp only [l3, if_true] at hv
            match r0, hv, hl with
            | [], hv, _ => simp at hv
            | [_], hv, _ => simp at hv
            | b1 :: b2 :: r2, hv, hl =>
              simp only [Bool.and_eq_true] at hv
              simp only [List.length_cons] at hl
              simp only [chunkScan, h0, if_false, hw, safeGet_cons_zero, safeGet_cons_succ,
                isCont_eq_cont, second3_eq _ _ l3, hv.1.1, hv.1.2,
                Bool.not_true, Bool.false_eq_true, List.drop_succ_cons, List.drop_zero]
              rw [ih r2 (i + 3) hv.2 (by omega)]
              simp only [List.length_cons]; congr 1 <;> omega
          · simp only [l3, Bool.false_eq_true, if_false] at hv
            by_cases l4 : lead4 b0 = true
            · have hw := w4.2 l4
              simp only [l4, if_true] at hv
              match r0, hv, hl with
              | [], hv, _ => simp at hv
              | [_], hv, _ => simp at hv
              | [_, _], hv, _ => simp at hv
              | b1 :: b2 :: b3 :: r3, hv, hl =>
                simp only [Bool.and_eq_true] at hv
                simp only [List.length_cons] at hl
                simp only [chunkScan, h0, if_false, hw, safeGet_cons_zero, safeGet_cons_succ,
                  isCont_eq_cont, second4_eq _ _ l4, hv.1.1.1, hv.1.1.2, hv.1.2,
                  Bool.not_true, Bool.false_eq_true, List.drop_succ_cons, List.drop_zero]
                rw [ih r3 (i + 4) hv.2 (by omega)]
                simp only [List.length_cons]; congr 1 <;> omega
            · simp [l4] at hv

/-- `Utf8Chunks::next` on well-formed input: one chunk, all valid, nothing invalid. -/
theorem nextChunk_valid (v : Bytes) (h : valid v = true) : nextChunk v = (v, [], []) := by
  simp [nextChunk, chunkScan_valid v.length v 0 h (Nat.le_refl _)]

/-- `from_utf8_lossy` returns well-formed input borrowed. -/
theorem fromUtf8Lossy_valid (v : Bytes) (h : valid v = true) : fromUtf8Lossy v = .borrowed v := by
  by_cases he : v = []
  · subst he; simp [fromUtf8Lossy]
  · have hemp : v.isEmpty = false := by simpa using he
    simp [fromUtf8Lossy, hemp, nextChunk_valid v h]

/-- the result of `from_utf8_lossy` is borrowed exactly on well-formed input. -/
theorem fromUtf8Lossy_borrowed_iff (v : Bytes) :
    (fromUtf8Lossy v).isBorrowed = true ↔ valid v = true :=
  ⟨fun h => ((fromUtf8Lossy_spec v).2 h).2, fun h => by rw [fromUtf8Lossy_valid v h]; rfl⟩

/-- `decode_utf8` on an input whose trimmed form contains a backslash allocates. -/
theorem decodeUtf8_escape_owned (d : Bytes) (h92 : 92 ∈ trim d) :
    ∃ s, decodeUtf8 d = .ok (.owned s) := by
  obtain ⟨k, hk1, hk2, hk3⟩ := (utf8Chunks_spec (trim d) 0 true).2 h92
  obtain ⟨s, hs1, -⟩ := utf8Create_spec (trim d) k hk2 hk3
  refine ⟨s, ?_⟩
  simp only [decodeUtf8, trimAsciiEnd_eq_trim, hk1, Nat.zero_add, hs1]

/-- `decode_utf8` on escape-free well-formed input returns the trimmed input borrowed. -/
theorem decodeUtf8_valid_borrowed (d : Bytes) (h92 : 92 ∉ trim d) (hv : valid (trim d) = true) :
    decodeUtf8 d = .ok (.borrowed (trim d)) := by
  simp only [decodeUtf8, trimAsciiEnd_eq_trim, trim_idem, (utf8Chunks_spec (trim d) 0 true).1 h92,
    Bool.true_and]
  split
  · rfl
  · rw [fromUtf8Lossy_valid _ hv]

/-- `decode_utf8` on an input whose trimmed form is ill-formed allocates (`from_utf8_lossy`
inserts U+FFFD, or `utf8_create` builds a new string). -/
theorem decodeUtf8_invalid_owned (d : Bytes) (hv : valid (trim d) = false) :
    ∃ s, decodeUtf8 d = .ok (.owned s) := by
  obtain ⟨c, h1, -, h3⟩ := decodeUtf8_spec d
  cases c with
  | borrowed b => have := (h3 rfl).2; rw [hv] at this; cases this
  | owned s => exact ⟨s, h1⟩

end Jomini.Encoding
